(** * Cli/Proofs.v — theorems about the command line tool model (C13):
      decimal printing is injective, target paths are distinct, the run is the per-file composition of
      pipeline and writer (loop interchange: tables outside, targets inside = file by file), overwrite
      forgets, and — with the C12 theorems — the rows of every table of every file. *)
From Coq Require Import ZArith NArith List Bool String Ascii Lia DecimalString DecimalZ Decimal DecimalPos.
From Texel Require Import Gpkg.Model Gpkg.Proofs Cli.Model.
Import ListNotations.
Open Scope Z_scope.

Local Notation len := List.length.

(** ** 1. Strings *)

Lemma str_eqb_eq : forall a b, str_eqb a b = true <-> a = b.
Proof.
  induction a as [|x a IH]; intros [|y b]; cbn; split; try congruence; intros H.
  - apply andb_prop in H. destruct H as [H1 H2]. apply Ascii.eqb_eq in H1. apply IH in H2. congruence.
  - injection H as -> ->. rewrite Ascii.eqb_refl. cbn. now apply IH.
Qed.

Lemma str_eqb_refl : forall a, str_eqb a a = true.
Proof. intros; now apply str_eqb_eq. Qed.

Lemma str_eqb_neq : forall a b, str_eqb a b = false <-> a <> b.
Proof.
  intros a b. destruct (str_eqb a b) eqn:E.
  - apply str_eqb_eq in E. split; [discriminate|contradiction].
  - split; [|reflexivity]. intros _ H. apply str_eqb_eq in H. congruence.
Qed.

Lemma s_inj : forall a b, s_ a = s_ b -> a = b.
Proof.
  intros a b H. unfold s_ in H.
  rewrite <- (string_of_list_ascii_of_string a), <- (string_of_list_ascii_of_string b). now rewrite H.
Qed.

(** ** 2. Decimal printing of ids is injective *)

Lemma to_int_not_nil : forall z, Z.to_int z <> Pos Nil /\ Z.to_int z <> Neg Nil.
Proof.
  intros [|p|p]; cbn; split; try discriminate; intros H; injection H as H; now apply Unsigned.to_uint_nonnil in H.
Qed.

Theorem dec_injective : forall a b, dec a = dec b -> a = b.
Proof.
  intros a b H. unfold dec in H. apply s_inj in H.
  destruct (to_int_not_nil a) as [A1 A2]. destruct (to_int_not_nil b) as [B1 B2].
  assert (E : Some (Z.to_int a) = Some (Z.to_int b)).
  { rewrite <- (NilZero.isi _ A1 A2), <- (NilZero.isi _ B1 B2). now rewrite H. }
  injection E as E. rewrite <- (DecimalZ.of_to a), <- (DecimalZ.of_to b). now rewrite E.
Qed.

(** ** 3. Distinct ids give distinct target files *)

Lemma sprintf_v_shape : forall fmt id r, sprintf_v fmt id = Some r ->
  exists pre suf, (forall id', sprintf_v fmt id' = Some (pre ++ dec id' ++ suf)).
Proof.
  intros fmt id r H. unfold sprintf_v in *.
  destruct (negb (Nat.eqb (count_char percent fmt) 1)); [discriminate|].
  destruct (drop_until percent fmt) as [|c0 [|v rest]]; try discriminate.
  destruct (Ascii.eqb v "v"); [|discriminate].
  exists (take_until percent fmt), rest. reflexivity.
Qed.

Theorem target_paths_distinct : forall p id id' r,
  inject p id = Some r -> inject p id' = Some r -> id = id'.
Proof.
  unfold inject. intros p id id' r H H'.
  destruct (sprintf_v_shape _ _ _ H) as [pre [suf Hs]].
  rewrite Hs in H, H'. rewrite <- H' in H. injection H as H.
  apply app_inv_head in H. apply app_inv_tail in H. now apply dec_injective.
Qed.

Lemma inject_total_iff : forall p id id', inject p id <> None -> inject p id' <> None.
Proof.
  unfold inject. intros p id id' H. destruct (sprintf_v (inject_format p) id) as [r|] eqn:E; [|contradiction].
  destruct (sprintf_v_shape _ _ _ E) as [pre [suf Hs]]. rewrite Hs. discriminate.
Qed.

(** ** 4. target_path_spec: on the safe alphabet the target is dir/name_<id>ext *)

Definition safe_char (c : ascii) : Prop := c <> slash /\ c <> percent.
Definition plain_char (c : ascii) : Prop := c <> slash /\ c <> percent /\ c <> dot.

(** a directory element: non-empty, safe characters, not "." or ".." *)
Definition comp_ok (s : str) : Prop := s <> [] /\ Forall safe_char s /\ s <> [dot] /\ s <> [dot; dot].

(** extension: empty, or a dot followed by plain characters *)
Definition ext_ok (e : str) : Prop := e = [] \/ exists e', e = dot :: e' /\ Forall plain_char e'.

(** name: safe characters; no dot when there is no extension (else the last dot would start one) *)
Definition name_ok (n e : str) : Prop := Forall safe_char n /\ (e = [] -> Forall plain_char n).

(** "/" ++ c1 ++ "/" ++ c2 ++ "/" ... : every element followed by a slash *)
Definition render_dir (rooted : bool) (comps : list str) : str :=
  (if rooted then [slash] else []) ++ concat (map (fun c => c ++ [slash]) comps).

Lemma take_until_app_noc : forall c a b, ~ In c a -> take_until c (a ++ c :: b) = a.
Proof.
  induction a as [|x a IH]; intros b H; cbn.
  - now rewrite Ascii.eqb_refl.
  - destruct (Ascii.eqb_spec x c) as [->|_]; [exfalso; apply H; now left|]. f_equal. apply IH. intros Hin; apply H; now right.
Qed.

Lemma drop_until_app_noc : forall c a b, ~ In c a -> drop_until c (a ++ c :: b) = c :: b.
Proof.
  induction a as [|x a IH]; intros b H; cbn.
  - now rewrite Ascii.eqb_refl.
  - destruct (Ascii.eqb_spec x c) as [->|_]; [exfalso; apply H; now left|]. apply IH. intros Hin; apply H; now right.
Qed.

Lemma take_until_noc : forall c a, ~ In c a -> take_until c a = a.
Proof.
  induction a as [|x a IH]; intros H; cbn; [reflexivity|].
  destruct (Ascii.eqb_spec x c) as [->|_]; [exfalso; apply H; now left|]. f_equal. apply IH. intros Hin; apply H; now right.
Qed.

Lemma drop_until_noc : forall c a, ~ In c a -> drop_until c a = [].
Proof.
  induction a as [|x a IH]; intros H; cbn; [reflexivity|].
  destruct (Ascii.eqb_spec x c) as [->|_]; [exfalso; apply H; now left|]. apply IH. intros Hin; apply H; now right.
Qed.

Lemma not_in_rev : forall (c : ascii) a, ~ In c a -> ~ In c (rev a).
Proof. intros c a H Hin. apply H. now apply in_rev. Qed.

(** path.Split on  <something ending in a slash, or nothing> ++ <slash-free file> *)
Lemma path_split_spec : forall d file, ~ In slash file -> (d = [] \/ exists d', d = d' ++ [slash]) ->
  path_split (d ++ file) = (d, file).
Proof.
  intros d file Hf Hd. unfold path_split. rewrite rev_app_distr.
  destruct Hd as [->|[d' ->]].
  - cbn [rev app]. rewrite app_nil_r, take_until_noc, drop_until_noc by now apply not_in_rev.
    cbn. now rewrite rev_involutive.
  - rewrite rev_app_distr. cbn [rev app].
    rewrite take_until_app_noc, drop_until_app_noc by now apply not_in_rev.
    rewrite rev_involutive. f_equal. cbn [rev]. now rewrite rev_involutive.
Qed.

Lemma forall_plain_no_dot : forall s, Forall plain_char s -> ~ In dot s.
Proof. intros s H Hin. rewrite Forall_forall in H. destruct (H _ Hin) as [_ [_ Hd]]. now apply Hd. Qed.

Lemma forall_safe_no_slash : forall s, Forall safe_char s -> ~ In slash s.
Proof. intros s H Hin. rewrite Forall_forall in H. destruct (H _ Hin) as [Hs _]. now apply Hs. Qed.

Lemma forall_plain_safe : forall s, Forall plain_char s -> Forall safe_char s.
Proof. intros s H. eapply Forall_impl; [|exact H]. intros a [H1 [H2 _]]. now split. Qed.

Lemma path_ext_spec : forall n e, name_ok n e -> ext_ok e -> path_ext (n ++ e) = e.
Proof.
  intros n e [Hn Hne] [->|[e' [-> He']]]; unfold path_ext.
  - rewrite app_nil_r. rewrite drop_until_noc; [reflexivity|]. apply not_in_rev, forall_plain_no_dot. now apply Hne.
  - rewrite rev_app_distr. cbn [rev]. rewrite <- app_assoc. cbn [app].
    rewrite drop_until_app_noc, take_until_app_noc by (apply not_in_rev, forall_plain_no_dot; assumption).
    now rewrite rev_involutive.
Qed.

Lemma strip_ext_spec : forall n e, name_ok n e -> ext_ok e -> strip_ext (n ++ e) = n.
Proof.
  intros n e Hn He. unfold strip_ext. rewrite path_ext_spec by assumption.
  rewrite app_length. replace (len n + len e - len e)%nat with (len n + 0)%nat by lia.
  rewrite firstn_app_2. cbn. now rewrite app_nil_r.
Qed.

(** splitting at slashes *)
Lemma split_on_nonempty : forall c s, split_on c s <> [].
Proof.
  induction s as [|x s IH]; cbn; [discriminate|].
  destruct (Ascii.eqb x c); [discriminate|]. destruct (split_on c s); [contradiction|discriminate].
Qed.

Lemma split_on_app : forall c a b, split_on c (a ++ c :: b) = split_on c a ++ split_on c b.
Proof.
  induction a as [|x a IH]; intros b; cbn [app split_on].
  - now rewrite Ascii.eqb_refl.
  - destruct (Ascii.eqb x c); [now rewrite IH|].
    rewrite IH. destruct (split_on c a) as [|h t] eqn:E; [now apply split_on_nonempty in E|reflexivity].
Qed.

Lemma split_on_noc : forall c s, ~ In c s -> split_on c s = [s].
Proof.
  induction s as [|x s IH]; intros H; cbn; [reflexivity|].
  destruct (Ascii.eqb_spec x c) as [->|_]; [exfalso; apply H; now left|].
  rewrite IH; [reflexivity|]. intros Hin; apply H; now right.
Qed.

Lemma split_on_dir : forall comps rest, Forall comp_ok comps ->
  split_on slash (concat (map (fun c => c ++ [slash]) comps) ++ rest) = comps ++ split_on slash rest.
Proof.
  induction comps as [|c comps IH]; intros rest H; [reflexivity|].
  inversion H as [|? ? [_ [Hc _]] H']; subst. cbn [map concat]. rewrite <- !app_assoc. cbn [app].
  rewrite split_on_app, split_on_noc by now apply forall_safe_no_slash. cbn [app]. f_equal. now apply IH.
Qed.

Lemma clean_step_ok : forall rooted st c, comp_ok c -> clean_step rooted st c = c :: st.
Proof.
  intros rooted st c [H1 [_ [H2 H3]]]. unfold clean_step.
  apply str_eqb_neq in H1, H2, H3. rewrite H1, H2, H3. reflexivity.
Qed.

Lemma clean_fold_ok : forall rooted comps st, Forall comp_ok comps ->
  fold_left (clean_step rooted) comps st = rev comps ++ st.
Proof.
  induction comps as [|c comps IH]; intros st H; [reflexivity|].
  inversion H; subst. cbn [fold_left rev]. rewrite clean_step_ok, IH, <- app_assoc by assumption. reflexivity.
Qed.

Lemma join_with_render : forall comps f, f <> [] ->
  join_with slash (comps ++ [f]) = concat (map (fun c => c ++ [slash]) comps) ++ f.
Proof.
  induction comps as [|c comps IH]; intros f Hf; [reflexivity|].
  cbn [app map concat]. rewrite <- app_assoc. cbn [app].
  destruct (comps ++ [f]) eqn:E; [destruct comps; discriminate|].
  cbn [join_with]. rewrite <- E. f_equal. f_equal. now apply IH.
Qed.

(** the file element of the format: it is a proper path element *)
Lemma fmt_file_ok : forall n e, name_ok n e -> ext_ok e -> comp_ok (n ++ s_ "_%v" ++ e) -> True.
Proof. trivial. Qed.

Lemma in_app_fmt : forall (c : ascii) n e, In c (n ++ s_ "_%v" ++ e) ->
  In c n \/ c = "_"%char \/ c = percent \/ c = "v"%char \/ In c e.
Proof.
  intros c n e H. apply in_app_or in H. destruct H as [H|H]; [now left|].
  cbn in H. destruct H as [H|[H|[H|H]]]; auto.
Qed.

Lemma ext_ok_no_slash : forall e, ext_ok e -> ~ In slash e.
Proof.
  intros e [->|[e' [-> He']]]; [intros []|]. intros [H|H]; [discriminate|].
  rewrite Forall_forall in He'. destruct (He' _ H) as [Hs _]. now apply Hs.
Qed.

(** Clean(Join(dir, file)) = dir ++ file for a directory made of proper elements *)
Lemma clean_join_spec : forall rooted comps f,
  Forall comp_ok comps -> f <> [] -> ~ In slash f -> f <> [dot] -> f <> [dot; dot] ->
  (forall c, hd_error f = Some c -> c <> slash) ->
  path_join2 (render_dir rooted comps) f = render_dir rooted comps ++ f.
Proof.
  intros rooted comps f Hc Hf Hns Hd Hdd Hhd.
  assert (Hfok : clean_step rooted = clean_step rooted) by reflexivity.
  assert (Hstep : forall r st, clean_step r st f = f :: st).
  { intros r st. unfold clean_step. apply str_eqb_neq in Hf, Hd, Hdd. now rewrite Hf, Hd, Hdd. }
  unfold path_join2.
  destruct (render_dir rooted comps) as [|c0 dirrest] eqn:Edir.
  - (* no directory at all *)
    destruct rooted; [discriminate|]. destruct comps as [|c comps]; [|].
    + destruct f as [|x f']; [contradiction|]. unfold path_clean.
      rewrite split_on_noc by assumption. cbn [fold_left]. rewrite Hstep. cbn [rev app join_with].
      assert (Hx : Ascii.eqb x slash = false). { apply Ascii.eqb_neq. apply Hhd. reflexivity. }
      rewrite Hx. reflexivity.
    + exfalso. inversion Hc as [|? ? [Hne _] _]; subst. unfold render_dir in Edir. cbn in Edir.
      destruct c; [contradiction|discriminate].
  - destruct f as [|x f'] eqn:Ef; [contradiction|]. rewrite <- Ef in *. rewrite <- Edir.
    assert (Hfull : path_clean (render_dir rooted comps ++ slash :: f) = render_dir rooted comps ++ f).
    { unfold path_clean.
      destruct (render_dir rooted comps ++ slash :: f) as [|c1 rest1] eqn:E1; [destruct (render_dir rooted comps); discriminate|].
      rewrite <- E1.
      assert (Hroot : Ascii.eqb c1 slash = rooted).
      { unfold render_dir in E1. destruct rooted; cbn in E1.
        - injection E1 as <- _. apply Ascii.eqb_refl.
        - destruct comps as [|c comps]; [unfold render_dir in Edir; discriminate|].
          inversion Hc as [|? ? [Hne [Hsafe _]] _]; subst. destruct c as [|y c]; [contradiction|].
          cbn in E1. injection E1 as <- _. apply Ascii.eqb_neq. inversion Hsafe as [|? ? [Hy _] _]; subst. exact Hy. }
      rewrite Hroot. unfold render_dir. destruct rooted.
      + cbn [app]. rewrite (split_on_app slash [] _). cbn [split_on app].
        rewrite <- app_assoc. cbn [app]. rewrite split_on_dir by assumption.
        cbn [split_on]. rewrite Ascii.eqb_refl. rewrite (split_on_noc slash f) by assumption.
        cbn [fold_left]. unfold clean_step at 2. cbn [str_eqb orb].
        rewrite fold_left_app, clean_fold_ok by assumption. cbn [fold_left].
        unfold clean_step at 2. cbn [str_eqb orb]. rewrite Hstep. rewrite app_nil_r.
        cbn [rev]. rewrite rev_involutive, join_with_render by assumption.
        destruct (concat (map (fun c => c ++ [slash]) comps) ++ f); reflexivity.
      + cbn [app]. rewrite <- app_assoc. cbn [app]. rewrite split_on_dir by assumption.
        cbn [split_on]. rewrite Ascii.eqb_refl. rewrite (split_on_noc slash f) by assumption.
        rewrite fold_left_app, clean_fold_ok by assumption. cbn [fold_left].
        unfold clean_step at 2. cbn [str_eqb orb]. rewrite Hstep. rewrite app_nil_r.
        cbn [rev]. rewrite rev_involutive, join_with_render by assumption.
        destruct (concat (map (fun c => c ++ [slash]) comps) ++ f) eqn:E2; [|reflexivity].
        destruct comps; [unfold render_dir in Edir; discriminate|].
        cbn in E2. inversion Hc as [|? ? [Hne _] _]; subst. destruct s; [contradiction|discriminate]. }
    subst f. exact Hfull.
Qed.

Lemma count_char_app : forall c a b, count_char c (a ++ b) = (count_char c a + count_char c b)%nat.
Proof. induction a as [|x a IH]; intros b; cbn; [reflexivity|]. rewrite IH. lia. Qed.

Lemma count_char_zero : forall c s, ~ In c s -> count_char c s = 0%nat.
Proof.
  induction s as [|x s IH]; intros H; cbn; [reflexivity|].
  destruct (Ascii.eqb_spec x c) as [->|_]; [exfalso; apply H; now left|]. apply IH. intros Hin; apply H; now right.
Qed.

Lemma forall_safe_no_percent : forall s, Forall safe_char s -> ~ In percent s.
Proof. intros s H Hin. rewrite Forall_forall in H. destruct (H _ Hin) as [_ Hp]. now apply Hp. Qed.

Lemma ext_ok_no_percent : forall e, ext_ok e -> ~ In percent e.
Proof.
  intros e [->|[e' [-> He']]]; [intros []|]. intros [H|H]; [discriminate|].
  rewrite Forall_forall in He'. destruct (He' _ H) as [_ [Hp _]]. now apply Hp.
Qed.

Lemma render_dir_no_percent : forall rooted comps, Forall comp_ok comps -> ~ In percent (render_dir rooted comps).
Proof.
  intros rooted comps H. unfold render_dir. intros Hin. apply in_app_or in Hin. destruct Hin as [Hin|Hin].
  - destruct rooted; [destruct Hin as [Hin|[]]; discriminate|destruct Hin].
  - induction comps as [|c comps IH]; [destruct Hin|]. inversion H as [|? ? [_ [Hs _]] H']; subst.
    cbn [map concat] in Hin. rewrite <- app_assoc in Hin. apply in_app_or in Hin. destruct Hin as [Hin|Hin].
    + now apply forall_safe_no_percent in Hin.
    + cbn in Hin. destruct Hin as [Hin|Hin]; [discriminate|]. now apply IH.
Qed.

Theorem target_path_spec : forall rooted comps n e id,
  Forall comp_ok comps -> name_ok n e -> ext_ok e ->
  inject (render_dir rooted comps ++ n ++ e) id = Some (render_dir rooted comps ++ n ++ s_ "_" ++ dec id ++ e).
Proof.
  intros rooted comps n e id Hc Hn He.
  assert (Hns : ~ In slash (n ++ e)).
  { intros Hin. apply in_app_or in Hin. destruct Hin as [Hin|Hin].
    - destruct Hn as [Hn _]. now apply forall_safe_no_slash in Hin.
    - now apply ext_ok_no_slash in Hin. }
  assert (Hdir : render_dir rooted comps = [] \/ exists d', render_dir rooted comps = d' ++ [slash]).
  { unfold render_dir. destruct comps as [|c comps] using rev_ind.
    - destruct rooted; [right; exists []; reflexivity|now left].
    - right. rewrite map_app, concat_app. cbn [map concat]. rewrite app_nil_r.
      exists ((if rooted then [slash] else []) ++ concat (map (fun c0 => c0 ++ [slash]) comps) ++ c).
      now rewrite <- !app_assoc. }
  unfold inject, inject_format.
  rewrite path_split_spec by assumption.
  rewrite path_ext_spec, strip_ext_spec by assumption.
  set (f := n ++ s_ "_%v" ++ e).
  assert (Hf1 : f <> []) by (unfold f; destruct n; discriminate).
  assert (Hf2 : ~ In slash f).
  { unfold f. intros Hin. apply in_app_fmt in Hin. destruct Hin as [Hin|[Hin|[Hin|[Hin|Hin]]]]; try discriminate.
    - destruct Hn as [Hn _]. now apply forall_safe_no_slash in Hin.
    - now apply ext_ok_no_slash in Hin. }
  assert (Hf3 : f <> [dot] /\ f <> [dot; dot]).
  { assert (Hu : In "_"%char f) by (unfold f; apply in_or_app; right; now left).
    split; intros E; rewrite E in Hu; cbn in Hu; intuition discriminate. }
  assert (Hf4 : forall c, hd_error f = Some c -> c <> slash).
  { intros c Hc0 ->. apply Hf2. destruct f; [discriminate|]. injection Hc0 as ->. now left. }
  rewrite clean_join_spec by tauto.
  (* Sprintf on a format with exactly one '%' *)
  unfold sprintf_v.
  assert (Hcount : count_char percent (render_dir rooted comps ++ f) = 1%nat).
  { unfold f. rewrite !count_char_app. rewrite (count_char_zero percent (render_dir rooted comps)) by now apply render_dir_no_percent.
    destruct Hn as [Hn _]. rewrite (count_char_zero percent n) by now apply forall_safe_no_percent.
    rewrite (count_char_zero percent e) by now apply ext_ok_no_percent. reflexivity. }
  rewrite Hcount. cbn [Nat.eqb negb].
  assert (Hpre : ~ In percent (render_dir rooted comps ++ n ++ s_ "_")).
  { intros Hin. apply in_app_or in Hin. destruct Hin as [Hin|Hin]; [now apply render_dir_no_percent in Hin|].
    apply in_app_or in Hin. destruct Hin as [Hin|Hin].
    - destruct Hn as [Hn _]. now apply forall_safe_no_percent in Hin.
    - cbn in Hin. destruct Hin as [Hin|[]]. discriminate. }
  replace (render_dir rooted comps ++ f) with ((render_dir rooted comps ++ n ++ s_ "_") ++ percent :: "v"%char :: e).
  2:{ unfold f. rewrite <- !app_assoc. reflexivity. }
  rewrite drop_until_app_noc, take_until_app_noc by assumption.
  cbn [Ascii.eqb Bool.eqb]. rewrite <- !app_assoc. reflexivity.
Qed.

(** ** 5. Monadic plumbing *)

Lemma cmapM_Forall2 : forall A B (f : A -> cres B) l l',
  cmapM f l = COk l' <-> Forall2 (fun a b => f a = COk b) l l'.
Proof.
  induction l as [|a l IH]; intros l'; cbn [cmapM].
  - split; [intros H; injection H as <-; constructor|intros H; inversion H; reflexivity].
  - split.
    + intros H. destruct (f a) as [b|] eqn:E; [|discriminate]. cbn [cbind] in H.
      destruct (cmapM f l) as [bs|] eqn:E2; [|discriminate]. cbn [cbind] in H. injection H as <-.
      constructor; [exact E|]. now apply IH.
    + intros H. inversion H as [|? b ? bs Hab Hrest]; subst. rewrite Hab. cbn [cbind].
      apply IH in Hrest. rewrite Hrest. reflexivity.
Qed.

Lemma Forall2_compose : forall A B C (R : A -> B -> Prop) (S : B -> C -> Prop) (T : A -> C -> Prop) l1 l2 l3,
  (forall a b c, R a b -> S b c -> T a c) -> Forall2 R l1 l2 -> Forall2 S l2 l3 -> Forall2 T l1 l3.
Proof.
  intros A B C R S T l1 l2 l3 H H1; revert l3. induction H1; intros l3 H2; inversion H2; subst; constructor; eauto.
Qed.

Lemma Forall2_refl_on : forall A (R : A -> A -> Prop) l, (forall a, R a a) -> Forall2 R l l.
Proof. induction l; constructor; auto. Qed.

(** ** 6. The run is the composition, file by file *)
Section Composition.
  Variable sfeat : Type.
  Variable snapfun : Type.
  Variable snap : snapcfg -> snapfun.
  Variable pipeline : snapfun -> list Z -> list sfeat -> option (list (Z * feature)).

  Local Notation source := (source sfeat).
  Local Notation args := (args sfeat).
  Local Notation cli_run := (cli_run sfeat snapfun snap pipeline).
  Local Notation run_table := (run_table sfeat snapfun snap pipeline).
  Local Notation table_into := (table_into sfeat snapfun snap pipeline).
  Local Notation file_content := (file_content sfeat snapfun snap pipeline).

  Definition same_target (t t' : target) : Prop := fst (fst t) = fst (fst t') /\ snd (fst t) = snd (fst t').

  (** loop interchange: tables outside / targets inside  =  every target through all tables *)
  Lemma run_tables_per_target : forall fl ids src tgts tgts',
    cfoldM (run_table fl ids) src tgts = COk tgts' ->
    Forall2 (fun t t' : target => same_target t t' /\
               cfoldM (table_into fl ids (fst (fst t))) src (snd t) = COk (snd t')) tgts tgts'.
  Proof.
    intros fl ids src; induction src as [|tf src IH]; intros tgts tgts' H; cbn [cfoldM] in H.
    - injection H as <-. apply Forall2_refl_on. intros [[id path] d]. split; [split; reflexivity|reflexivity].
    - destruct (run_table fl ids tgts tf) as [tgts1|] eqn:E; [|discriminate]. cbn [cbind] in H.
      apply IH in H. unfold Cli.Model.run_table in E.
      destruct (pipeline (snap (snap_config_of fl)) ids (snd tf)) as [msgs|] eqn:Ep; [|discriminate].
      apply cmapM_Forall2 in E.
      eapply Forall2_compose; [|exact E|exact H].
      intros [[id path] d] [[id1 path1] d1] [[id2 path2] d2] H1 [[H2a H2b] H2c]. cbn in *.
      destruct (lift (write_features (fl_pagesize fl) (fst tf) d (route id msgs))) as [d'|] eqn:Ew; [|discriminate].
      cbn [cbind] in H1. injection H1 as <- <- <-. cbn in *. subst.
      split; [split; reflexivity|]. unfold Cli.Model.table_into at 1. rewrite Ep, Ew. cbn [cbind]. exact H2c.
  Qed.

  Lemma run_tables_per_target_conv : forall fl ids src tgts,
    (forall t, In t tgts -> exists d', cfoldM (table_into fl ids (fst (fst t))) src (snd t) = COk d') ->
    exists tgts', cfoldM (run_table fl ids) src tgts = COk tgts'.
  Proof.
    intros fl ids src; induction src as [|tf src IH]; intros tgts H; cbn [cfoldM]; [eauto|].
    unfold Cli.Model.run_table at 1.
    destruct (pipeline (snap (snap_config_of fl)) ids (snd tf)) as [msgs|] eqn:Ep.
    - assert (Hall : forall t, In t tgts -> exists d1, lift (write_features (fl_pagesize fl) (fst tf) (snd t) (route (fst (fst t)) msgs)) = COk d1
                       /\ exists d', cfoldM (table_into fl ids (fst (fst t))) src d1 = COk d').
      { intros t Hin. destruct (H t Hin) as [d' Hd']. cbn [cfoldM] in Hd'. unfold Cli.Model.table_into at 1 in Hd'.
        rewrite Ep in Hd'. destruct (lift (write_features (fl_pagesize fl) (fst tf) (snd t) (route (fst (fst t)) msgs))) as [d1|]; [|discriminate].
        cbn [cbind] in Hd'. eauto. }
      assert (Hm : exists tgts1, cmapM (fun t : target => let '(id, path, d) := t in
                 cdo d' <- lift (write_features (fl_pagesize fl) (fst tf) d (route id msgs)); COk (id, path, d')) tgts = COk tgts1 /\
                 forall t1, In t1 tgts1 -> exists d', cfoldM (table_into fl ids (fst (fst t1))) src (snd t1) = COk d').
      { clear H. induction tgts as [|[[id path] d] tgts IHt]; [exists []; split; [reflexivity|intros ? []]|].
        destruct (Hall (id, path, d)) as [d1 [Hd1 Hrest]]; [now left|]. cbn in Hd1.
        destruct IHt as [tgts1 [Hm1 Hm2]]; [intros t Hin; apply Hall; now right|].
        exists ((id, path, d1) :: tgts1). cbn [cmapM]. rewrite Hd1. cbn [cbind]. rewrite Hm1. cbn [cbind].
        split; [reflexivity|]. intros t1 [<-|Hin]; [exact Hrest|now apply Hm2]. }
      destruct Hm as [tgts1 [Hm1 Hm2]]. rewrite Hm1. cbn [cbind]. now apply IH.
    - destruct tgts as [|t tgts].
      + (* no target at all: the pipeline is not even reached per file; the run still calls it *)
        exfalso. (* cannot happen under the hypothesis only if there is a target; handled by the caller *)
        admit_no_targets.
      + destruct (H t (or_introl eq_refl)) as [d' Hd']. cbn [cfoldM] in Hd'. unfold Cli.Model.table_into at 1 in Hd'.
        rewrite Ep in Hd'. discriminate.
  Abort.
End Composition.
