(** * Cli/MainOps.v — what the REGENERATED command line tool (gen/CliMainGen.v) is written in.

    Definitions only.  translator/climain.go turns [injectSuffixIntoPath], [initGPKGTarget],
    [validateTileMatrixSet], [processBySnapping], the [app.Action] function literal and the tail of [main]
    of /repo/main.go into Gallina, statement by statement: control flow, the order of the calls, every
    error exit ([return err] / [log.Fatalf]), which flag is read for which argument, the map of targets and
    the [defer]s come from the AST.  Calls into urfave/cli, os, path, fmt, encoding/json, errors, log and the
    texel libraries cannot be translated; each is mapped — after its exact shape has been checked in the
    AST — to one of the operations below, written with the pieces of Cli/Model.v.  They are the MODELLED
    part (trusted base) of [C13_source_tie_main] / [C13_source_tie_inject_suffix]; Cli/ProofsGenMain.v proves
    that the regenerated program, built from these steps, is the model's [inject_format] / [cli_run] on ALL
    inputs.

    The hidden mutable state (the files; the [TargetGeopackage] objects behind the pointers in the map of
    targets) is the explicit [world]; every call that can change it takes and returns it. *)
From Coq Require Import ZArith NArith List Bool String Ascii.
From Texel Require Import Gpkg.Model Cli.Model.
Import ListNotations.
Open Scope Z_scope.

(** ** Go's [error] values that occur *)
Inductive gerrv :=
| LibErr (msg : string)   (* returned by tms20.LoadEmbeddedTileMatrixSet / json.Unmarshal / pointindex.IsQuadTree / pointindex.DeviationStats *)
| NewErr (msg : string)   (* errors.New(msg) / fmt.Errorf(format, ..): the text, without the arguments *)
| ENOENT                  (* an *os.PathError wrapping syscall.ENOENT (os.Stat / os.Remove of a missing file) *)
| OpErr (e : cerr).       (* an error of the modelled GeoPackage library *)
Definition goerr := option gerrv.
Definition is_nil {A} (o : option A) : bool := match o with None => true | Some _ => false end.
Definition lib_err (e : option string) : goerr := option_map LibErr e.

(** ** How the regenerated program can end other than by returning *)
Inductive merr :=
| Fatal (e : gerrv)       (* log.Fatalf(.., err) / log.Fatal(err): exit status 1 *)
| FatalNil                (* log.Fatal* reached with a nil error *)
| UnsafeFormat            (* fmt.Sprintf(format, id) with a format outside the model: a verb other than one %v and any number of %% *)
| PipelinePanicked        (* processing.ProcessFeatures panics *)
| SliceBounds             (* runtime error: slice bounds out of range *)
| NilDeref                (* a nil / dangling *TargetGeopackage, a map read of a missing key that is then dereferenced *)
| EmptyMax                (* slices.Max of an empty slice *)
| NotInitialised          (* a TargetGeopackage used before Init *)
| NoTableSet              (* ProcessFeatures with source.Table / target.Table never assigned *)
| NoSuchFile              (* the file of an open target is gone *)
| NoSuchSourceTable.      (* source.Table names a table the source does not have *)

Inductive mres (A : Type) := MOk (a : A) | MErr (e : merr).
Arguments MOk {A} a.
Arguments MErr {A} e.

Definition mbind {A B} (r : mres A) (f : A -> mres B) : mres B :=
  match r with MOk a => f a | MErr e => MErr e end.
Notation "'mdo' x <- r ; k" := (mbind r (fun x => k)) (at level 200, x pattern, r at level 100, k at level 200).

(** log.Fatalf(.., err) / log.Fatal(err) *)
Definition fatal (e : goerr) : merr := match e with Some x => Fatal x | None => FatalNil end.

(** the verdict of the model ([cerr], Cli/Model.v) an abnormal end stands for; [None]: the model has no such end
    (the tie shows these cannot happen).  An error that travels out of the Action ([LibErr] / [NewErr], only
    produced by loading, parsing and validating the tile matrix arguments) is the model's [InvalidTms]. *)
Definition verdict (e : merr) : option cerr :=
  match e with
  | Fatal (LibErr _) | Fatal (NewErr _) => Some InvalidTms
  | Fatal ENOENT => Some NoSource
  | Fatal (OpErr e) => Some e
  | UnsafeFormat => Some UnsafePath
  | PipelinePanicked => Some PipelinePanic
  | _ => None
  end.

(** ** Loops *)
Inductive lctl (S : Type) : Type := Cont (s : S) | Brk (s : S).
Arguments Cont {S} s.
Arguments Brk {S} s.

(** [for _, x := range l { body }] over the variables the body assigns *)
Fixpoint mrange_loop {A S : Type} (body : A -> S -> mres (lctl S)) (l : list A) (s : S) : mres S :=
  match l with
  | [] => MOk s
  | x :: l' =>
      match body x s with
      | MErr e => MErr e
      | MOk (Cont s') => mrange_loop body l' s'
      | MOk (Brk s') => MOk s'
      end
  end.

(** the same for a body that contains a [return] *)
Inductive lctlr (S R : Type) : Type := ContR (s : S) | BrkR (s : S) | RetR (r : R).
Arguments ContR {S R} s.
Arguments BrkR {S R} s.
Arguments RetR {S R} r.
Inductive lres (S R : Type) : Type := Done (s : S) | Return (r : R).
Arguments Done {S R} s.
Arguments Return {S R} r.

Fixpoint mrange_loop_ret {A S R : Type} (body : A -> S -> mres (lctlr S R)) (l : list A) (s : S) : mres (lres S R) :=
  match l with
  | [] => MOk (Done s)
  | x :: l' =>
      match body x s with
      | MErr e => MErr e
      | MOk (ContR s') => mrange_loop_ret body l' s'
      | MOk (BrkR s') => MOk (Done s')
      | MOk (RetR r) => MOk (Return r)
      end
  end.

(** ** Go values *)
Definition zlen {A} (l : list A) : Z := Z.of_nat (List.length l).

(** [s[lo:hi]] on a string (bytes) *)
Definition str_slice (s : str) (lo hi : Z) : mres str :=
  if (lo <? 0) || (hi <? lo) || (zlen s <? hi) then MErr SliceBounds
  else MOk (firstn (Z.to_nat (hi - lo)) (skipn (Z.to_nat lo) s)).

(** [slices.Max(l)] on []int: panics on an empty slice *)
Definition go_slices_Max (l : list Z) : mres Z :=
  match l with [] => MErr EmptyMax | x :: r => MOk (fold_left Z.max r x) end.

(** [map[int]V]: the keys in the order of their LAST assignment.  Go leaves the iteration order of a map
    unspecified; [range] over the map is modelled as this order. *)
Definition amap (V : Type) := list (Z * V).
Definition amap_make {V} (hint : Z) : amap V := [].
Definition amap_remove {V} (k : Z) (m : amap V) : amap V := filter (fun kv => negb (Z.eqb (fst kv) k)) m.
Definition amap_set {V} (k : Z) (v : V) (m : amap V) : amap V := amap_remove k m ++ [(k, v)].
Fixpoint amap_get {V} (k : Z) (m : amap V) : option V :=
  match m with [] => None | (k', v) :: r => if Z.eqb k' k then Some v else amap_get k r end.
Definition amap_values {V} (m : amap V) : list V := map snd m.
Definition amap_keys {V} (m : amap V) : list Z := map fst m.

(** ** package path, fmt *)
(** path.Split(p): i := strings.LastIndex(p, "/"); return p[:i+1], p[i+1:] *)
Definition go_path_Split (p : str) : str * str := path_split p.

(** path.Ext(p): for i := len(p)-1; i >= 0 && p[i] != '/'; i-- { if p[i] == '.' { return p[i:] } }; return "" *)
Definition go_path_Ext (p : str) : str :=
  let seg := take_until slash (rev p) in
  match drop_until dot seg with
  | [] => []
  | _ => dot :: rev (take_until dot seg)
  end.

(** path.Join(a, b): empty elements are ignored, the result is Cleaned *)
Definition go_path_Join2 (a b : str) : str := path_join2 a b.

(** strings.ReplaceAll(s, old, new) for a non-empty [old]: the non-overlapping occurrences of [old], found from the left,
    replaced by [new].  [skip] = how many characters of an occurrence that was just replaced are still to be passed over.
    (With an empty [old] Go inserts [new] around every character: not modelled, the translator refuses an empty literal.) *)
Fixpoint is_prefix (pre s : str) : bool :=
  match pre, s with
  | [], _ => true
  | x :: pre', y :: s' => Ascii.eqb x y && is_prefix pre' s'
  | _ :: _, [] => false
  end.

Fixpoint replace_all_from (old new s : str) (skip : nat) : str :=
  match s with
  | [] => []
  | c :: r =>
      match skip with
      | S k => replace_all_from old new r k
      | O => if is_prefix old s then new ++ replace_all_from old new r (Nat.pred (List.length old))
             else c :: replace_all_from old new r O
      end
  end.

Definition go_strings_ReplaceAll (s old new : str) : str := replace_all_from old new s O.

(** fmt.Sprintf(format, id) for an int [id]: the model knows formats made of plain characters, %% and exactly one %v *)
Definition op_Sprintf (fmt : str) (id : Z) : mres str :=
  match sprintf_v fmt id with Some s => MOk s | None => MErr UnsafeFormat end.

(** ** urfave/cli: the context the library builds from os.Args — the value of every flag by name *)
Record cctx := MkCtx { cx_String : string -> str; cx_Bool : string -> bool; cx_Int : string -> Z }.

(** ** The libraries the tool composes: tile matrix sets, JSON, the snapping library, the processing pipeline *)
Record lib := MkLib {
  l_sfeat : Type;      (* a feature of the source GeoPackage *)
  l_tms : Type;        (* tms20.TileMatrixSet *)
  l_poly : Type;       (* geom.Polygon *)
  l_sres : Type;       (* map[tms20.TMID][]geom.Polygon *)
  l_stats : Type;      (* the statistics string of pointindex.DeviationStats *)
  l_float : Type;      (* float64 *)
  l_LoadTms : str -> l_tms * option string;          (* tms20.LoadEmbeddedTileMatrixSet(name) *)
  l_Unmarshal : str -> list Z * option string;       (* json.Unmarshal([]byte(s), &ids) for ids []int *)
  l_IsQuadTree : l_tms -> option string;             (* pointindex.IsQuadTree(tms) *)
  l_HasMatrix : l_tms -> Z -> bool;                  (* _, exists := tms.TileMatrices[id] *)
  l_DeviationStats : l_tms -> Z -> l_stats * l_float * l_float * option string;   (* pointindex.DeviationStats(tms, id) *)
  l_SnapPolygon : l_poly -> l_tms -> list Z -> snapcfg -> l_sres;                  (* snap.SnapPolygon(p, tms, ids, config) *)
  (* processing.ProcessFeatures for one table: everything delivered, tagged with the tile matrix id; None = it panics
     (the [pipeline] parameter of Cli/Model.v) *)
  l_pipeline : (l_poly -> list Z -> l_sres) -> list Z -> list l_sfeat -> option (list (Z * feature))
}.

Section Ops.
  Variable L : lib.

  Definition op_LoadTms (name : str) : l_tms L * goerr := let (t, e) := l_LoadTms L name in (t, lib_err e).
  Definition op_Unmarshal (s : str) : list Z * goerr := let (ids, e) := l_Unmarshal L s in (ids, lib_err e).
  Definition op_IsQuadTree (t : l_tms L) : goerr := lib_err (l_IsQuadTree L t).
  Definition op_HasMatrix (t : l_tms L) (id : Z) : bool := l_HasMatrix L t id.
  Definition op_DeviationStats (t : l_tms L) (id : Z) : l_stats L * l_float L * l_float L * goerr :=
    let '(s, u, p, e) := l_DeviationStats L t id in (s, u, p, lib_err e).

  (** *** the world *)
  (** source GeoPackages (what GetTableInfo and ReadFeatures yield) live in their own finite map *)
  Definition msource := source (l_sfeat L).
  Definition srcfs := list (str * msource).
  Fixpoint src_lookup (p : str) (s : srcfs) : option msource :=
    match s with [] => None | (q, c) :: r => if str_eqb q p then Some c else src_lookup p r end.

  (** a gpkg.TargetGeopackage object: the file it was Init-ed on, its page size, its Table field.  The content of
      the file is in the file system: every write through the object goes to the file at its path. *)
  Record tgtobj := MkTgtObj { to_path : option str; to_pagesize : Z; to_table : option table }.
  Definition tgt_zero : tgtobj := MkTgtObj None 0 None.
  (** pointer to TargetGeopackage = index into the heap *)
  Definition tgtptr := nat.

  Record world := MkWorld { mw_fs : fsys; mw_src : srcfs; mw_heap : list tgtobj }.
  Definition set_fs (w : world) (fs : fsys) : world := MkWorld fs (mw_src w) (mw_heap w).
  Definition set_heap (w : world) (h : list tgtobj) : world := MkWorld (mw_fs w) (mw_src w) h.

  Fixpoint list_set {A} (l : list A) (n : nat) (a : A) : list A :=
    match l, n with
    | [], _ => []
    | _ :: r, O => a :: r
    | x :: r, S n' => x :: list_set r n' a
    end.

  (** gpkgTargets[k] for a map of pointers, used as the receiver of a method: nil (key missing) cannot be used *)
  Definition amap_get_ptr (k : Z) (m : amap tgtptr) : mres tgtptr :=
    match amap_get k m with Some p => MOk p | None => MErr NilDeref end.

  (** *** os *)
  (** os.Stat(path) of the source: only "does it exist" is used *)
  Definition op_Stat (w : world) (path : str) : goerr :=
    match src_lookup path (mw_src w) with Some _ => None | None => Some ENOENT end.
  (** os.IsNotExist(err) *)
  Definition op_IsNotExist (e : goerr) : bool := match e with Some ENOENT => true | _ => false end.
  (** os.Remove(path): the file is gone afterwards; ENOENT when there was none *)
  Definition op_Remove (w : world) (path : str) : world * goerr :=
    (set_fs w (fs_remove path (mw_fs w)),
     match fs_lookup path (mw_fs w) with Some _ => None | None => Some ENOENT end).
  (** errors.As(err, &pathError) && errors.Is(pathError.Err, syscall.ENOENT) *)
  Definition op_is_ENOENT (e : goerr) : bool := match e with Some ENOENT => true | _ => false end.

  (** *** gpkg.SourceGeopackage (a struct VALUE: a local variable of main) *)
  Record srcobj := MkSrcObj { so_content : option msource; so_table : option table }.
  Definition src_zero : srcobj := MkSrcObj None None.
  (** source.Init(path) *)
  Definition op_SourceInit (w : world) (s : srcobj) (path : str) : srcobj :=
    MkSrcObj (src_lookup path (mw_src w)) (so_table s).
  (** source.Table = t *)
  Definition set_so_table (s : srcobj) (t : table) : srcobj := MkSrcObj (so_content s) (Some t).
  (** source.GetTableInfo() *)
  Definition op_GetTableInfo (s : srcobj) : list table :=
    match so_content s with Some c => map fst c | None => [] end.
  (** source.Close(): nothing that the model sees *)
  Definition op_SourceClose (w : world) (s : srcobj) : world := w.

  (** *** gpkg.TargetGeopackage *)
  (** a variable of type gpkg.TargetGeopackage whose address is taken: a new heap cell holding the zero value *)
  Definition op_NewTarget (w : world) : world * tgtptr :=
    (set_heap w (mw_heap w ++ [tgt_zero]), List.length (mw_heap w)).

  (** target.Init(path, pagesize): gpkg.Open creates and initialises the file when there is none *)
  Definition op_TargetInit (w : world) (p : tgtptr) (path : str) (pagesize : Z) : mres world :=
    match nth_error (mw_heap w) p with
    | None => MErr NilDeref
    | Some o =>
        let d := match fs_lookup path (mw_fs w) with Some d => d | None => empty_db end in
        MOk (MkWorld (fs_write path d (mw_fs w)) (mw_src w)
                     (list_set (mw_heap w) p (MkTgtObj (Some path) pagesize (to_table o))))
    end.

  (** target.Table = t *)
  Definition op_SetTargetTable (w : world) (p : tgtptr) (t : table) : mres world :=
    match nth_error (mw_heap w) p with
    | None => MErr NilDeref
    | Some o => MOk (set_heap w (list_set (mw_heap w) p (MkTgtObj (to_path o) (to_pagesize o) (Some t))))
    end.

  (** target.Close(): everything was committed before; nothing that the model sees *)
  Definition op_TargetClose (w : world) (p : tgtptr) : world := w.

  (** a database operation through the object behind [p] on its file *)
  Definition with_target_db (w : world) (p : tgtptr) (g : tgtobj -> db -> res db) : mres (world * option gerr) :=
    match nth_error (mw_heap w) p with
    | None => MErr NilDeref
    | Some o =>
        match to_path o with
        | None => MErr NotInitialised
        | Some path =>
            match fs_lookup path (mw_fs w) with
            | None => MErr NoSuchFile
            | Some d =>
                match g o d with
                | Ok d' => MOk (set_fs w (fs_write path d' (mw_fs w)), None)
                | Err e => MOk (w, Some e)
                end
            end
        end
    end.

  (** target.CreateTables(tables) *)
  Definition op_TargetCreateTables (w : world) (p : tgtptr) (tabs : list table) : mres (world * goerr) :=
    mdo (w', e) <- with_target_db w p (fun _ d => create_tables d tabs);
    MOk (w', option_map (fun e => OpErr (Gpkg e)) e).

  (** *** processing.ProcessFeatures(source, targets, f): the features of source.Table through the pipeline (for the
      ids of the map of targets); every target writes what is routed to it into its own Table, with its own page
      size; an error of a writer ends the process (log.Fatal in the library).  Targets in map order. *)
  Fixpoint find_feats (name : string) (c : msource) : option (list (l_sfeat L)) :=
    match c with
    | [] => None
    | (t, fs) :: r => if String.eqb (t_name t) name then Some fs else find_feats name r
    end.

  Definition write_target (msgs : list (Z * feature)) (w : world) (kv : Z * tgtptr) : mres world :=
    match nth_error (mw_heap w) (snd kv) with
    | None => MErr NilDeref
    | Some o0 =>
        match to_table o0 with
        | None => MErr NoTableSet
        | Some t =>
            mdo (w', e) <- with_target_db w (snd kv) (fun o d => write_features (to_pagesize o) t d (route (fst kv) msgs));
            match e with None => MOk w' | Some e => MErr (Fatal (OpErr (Gpkg e))) end
        end
    end.

  Fixpoint mfold {A S} (f : S -> A -> mres S) (l : list A) (s : S) : mres S :=
    match l with [] => MOk s | a :: r => mdo s' <- f s a; mfold f r s' end.

  Definition op_ProcessFeatures (w : world) (s : srcobj) (tgts : amap tgtptr)
             (f : l_poly L -> list Z -> l_sres L) : mres world :=
    match so_table s, so_content s with
    | Some t, Some c =>
        match find_feats (t_name t) c with
        | None => MErr NoSuchSourceTable
        | Some feats =>
            match l_pipeline L f (amap_keys tgts) feats with
            | None => MErr PipelinePanicked
            | Some msgs => mfold (write_target msgs) tgts w
            end
        end
    | _, _ => MErr NoTableSet
    end.

  (** *** urfave/cli: app.Run(os.Args) parses the arguments into the context and calls app.Action with it *)
  Definition op_app_Run (action : world -> cctx -> mres (world * goerr)) (w : world) (c : cctx) : mres (world * goerr) :=
    action w c.

  (** [defer]red calls run, last first, when the function returns (not when the process is ended by log.Fatal) *)
  Definition run_defers (dfr : list (world -> world)) (w : world) : world := fold_left (fun w f => f w) dfr w.
End Ops.

Arguments MkWorld {L} _ _ _.
Arguments mw_fs {L} _.
Arguments mw_src {L} _.
Arguments mw_heap {L} _.
Arguments MkSrcObj {L} _ _.
Arguments so_content {L} _.
Arguments so_table {L} _.
