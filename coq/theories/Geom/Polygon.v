(** * Edges of rings, and the validity of an input polygon (C01 / C04 oracles, pure geometry).

    [valid_polygon P] (P = shell :: holes): every ring has at least 3 vertices and non-zero area, two
    non-adjacent edges of a ring have no common point, two adjacent edges have only their common vertex
    in common; no edge of a hole has a point in common with an edge of the shell or of another hole;
    the first vertex of every hole is inside the shell and not inside another hole, nor the first vertex
    of another hole inside it ("inside" by the even-odd rule on a ray to the right, exact; for rings
    without common boundary points one vertex decides for the whole ring).
    [valid_polygon_b] is the executable version; it is sound ([valid_polygon_b_sound]). *)
From Coq Require Import ZArith QArith Lia List Bool.
From Texel Require Import Prelude.Base Geom.Cross Geom.Touch.
Import ListNotations.
Open Scope Z_scope.

Definition edge := (pt * pt)%type.

(** consecutive pairs of [l], closed by a last pair ending in [first] *)
Fixpoint pairsC {A} (first : A) (l : list A) : list (A * A) :=
  match l with
  | [] => []
  | a :: r => match r with [] => [(a, first)] | b :: _ => (a, b) :: pairsC first r end
  end.

(** the undirected edges of a ring taken cyclically; a 2-vertex ring is one edge, a 1-vertex ring none *)
Definition ring_edges (r : ring) : list edge :=
  match r with
  | [] => []
  | [_] => []
  | [a; b] => [(a, b)]
  | a :: _ => pairsC a r
  end.

(** edges of the result of one level: all rings of all polygons *)
Definition edges (ps : list (list ring)) : list edge := flat_map (flat_map ring_edges) ps.

Definition edge_cross_b (e f : edge) : bool := cross_b (fst e) (snd e) (fst f) (snd f).
Definition edge_cross (e f : edge) : Prop := proper_cross (fst e) (snd e) (fst f) (snd f).

Lemma edge_cross_b_spec e f : edge_cross_b e f = true <-> edge_cross e f.
Proof. apply cross_b_spec. Qed.

(** twice the signed area *)
Definition area2 (r : ring) : Z :=
  fold_right (fun e acc => fst (fst e) * snd (snd e) - fst (snd e) * snd (fst e) + acc) 0 (ring_edges r).

(** ** pairs of edges of one ring *)
Definition indexed {A} (l : list A) : list (nat * A) := combine (seq 0 (length l)) l.

(** (e_i, e_j) with i + 1 < j, except (e_0, e_(n-1)) *)
Definition nonadj_pairs (es : list edge) : list (edge * edge) :=
  let n := length es in
  flat_map (fun ie =>
    flat_map (fun jf =>
      if (fst ie + 1 <? fst jf)%nat && negb ((fst ie =? 0)%nat && (fst jf =? n - 1)%nat)
      then [(snd ie, snd jf)] else []) (indexed es)) (indexed es).

(** (e_i, e_(i+1 mod n)) *)
Definition adj_pairs (es : list edge) : list (edge * edge) :=
  match es with [] => [] | e0 :: _ => pairsC e0 es end.

Definition EdgesShare (e f : edge) : Prop := SegsShare (fst e) (snd e) (fst f) (snd f).
Definition edges_touch_b (e f : edge) : bool := segs_touch_b (fst e) (snd e) (fst f) (snd f).

Definition AdjOK (ef : edge * edge) : Prop :=
  snd (fst ef) = fst (snd ef) /\ OnlyShareVertex (fst (fst ef)) (snd (fst ef)) (snd (snd ef)).
Definition adj_ok_pair_b (ef : edge * edge) : bool :=
  pt_eqb (snd (fst ef)) (fst (snd ef)) && adj_ok_b (fst (fst ef)) (snd (fst ef)) (snd (snd ef)).

Definition simple_ring (r : ring) : Prop :=
  (3 <= length r)%nat /\ area2 r <> 0 /\
  Forall (fun ef => ~ EdgesShare (fst ef) (snd ef)) (nonadj_pairs (ring_edges r)) /\
  Forall AdjOK (adj_pairs (ring_edges r)).

Definition simple_ring_b (r : ring) : bool :=
  (3 <=? length r)%nat && negb (area2 r =? 0) &&
  forallb (fun ef => negb (edges_touch_b (fst ef) (snd ef))) (nonadj_pairs (ring_edges r)) &&
  forallb adj_ok_pair_b (adj_pairs (ring_edges r)).

(** ** two rings *)
Definition rings_disjoint (r1 r2 : ring) : Prop :=
  Forall (fun ef => ~ EdgesShare (fst ef) (snd ef)) (list_prod (ring_edges r1) (ring_edges r2)).
Definition rings_disjoint_b (r1 r2 : ring) : bool :=
  forallb (fun ef => negb (edges_touch_b (fst ef) (snd ef))) (list_prod (ring_edges r1) (ring_edges r2)).

(** even-odd rule: edges crossed by the ray from p to the right (lower end point owned, upper not) *)
Definition crosses_ray (p : pt) (e : edge) : bool :=
  let a := fst e in let b := snd e in let o := orient3 a b p in
  ((snd a <=? snd p) && (snd p <? snd b) && (0 <? o)) || ((snd b <=? snd p) && (snd p <? snd a) && (o <? 0)).

Definition inside_b (p : pt) (r : ring) : bool := Nat.odd (length (filter (crosses_ray p) (ring_edges r))).

Definition first_inside_b (h r : ring) : bool := match h with [] => false | v :: _ => inside_b v r end.

Definition hole_in_shell (shell h : ring) : Prop := rings_disjoint h shell /\ first_inside_b h shell = true.
Definition holes_apart (h1 h2 : ring) : Prop :=
  rings_disjoint h1 h2 /\ first_inside_b h1 h2 = false /\ first_inside_b h2 h1 = false.
Definition holes_apart_b (h1 h2 : ring) : bool :=
  rings_disjoint_b h1 h2 && negb (first_inside_b h1 h2) && negb (first_inside_b h2 h1).

Fixpoint ord_pairs_b {A} (f : A -> A -> bool) (l : list A) : bool :=
  match l with [] => true | a :: r => forallb (f a) r && ord_pairs_b f r end.

Definition valid_polygon (P : list ring) : Prop :=
  match P with
  | [] => False
  | shell :: holes =>
      simple_ring shell /\ Forall simple_ring holes /\ Forall (hole_in_shell shell) holes /\
      ForallOrdPairs holes_apart holes
  end.

Definition valid_polygon_b (P : list ring) : bool :=
  match P with
  | [] => false
  | shell :: holes =>
      simple_ring_b shell && forallb simple_ring_b holes &&
      forallb (fun h => rings_disjoint_b h shell && first_inside_b h shell) holes &&
      ord_pairs_b holes_apart_b holes
  end.

(** ** soundness *)
Lemma forallb_Forall {A} (f : A -> bool) (Q : A -> Prop) l :
  (forall x, f x = true -> Q x) -> forallb f l = true -> Forall Q l.
Proof.
  intros H E. rewrite forallb_forall in E. apply Forall_forall. intros x Hx. apply H, E, Hx.
Qed.

Lemma no_touch_sound (ef : edge * edge) : negb (edges_touch_b (fst ef) (snd ef)) = true -> ~ EdgesShare (fst ef) (snd ef).
Proof. rewrite negb_true_iff. apply no_touch_no_share. Qed.

Lemma adj_ok_pair_sound ef : adj_ok_pair_b ef = true -> AdjOK ef.
Proof.
  unfold adj_ok_pair_b, AdjOK. rewrite andb_true_iff. intros [E A]. split.
  - unfold pt_eqb in E. apply andb_true_iff in E as [E1 E2]. apply Z.eqb_eq in E1, E2.
    destruct (snd (fst ef)), (fst (snd ef)); cbn [fst snd] in *; congruence.
  - apply adj_ok_sound. exact A.
Qed.

Lemma simple_ring_b_sound r : simple_ring_b r = true -> simple_ring r.
Proof.
  unfold simple_ring_b, simple_ring. rewrite !andb_true_iff, negb_true_iff. intros [[[L A] N] J].
  split; [apply Nat.leb_le; exact L |]. split; [apply Z.eqb_neq; exact A |]. split.
  - exact (forallb_Forall _ _ _ no_touch_sound N).
  - exact (forallb_Forall _ _ _ adj_ok_pair_sound J).
Qed.

Lemma rings_disjoint_b_sound r1 r2 : rings_disjoint_b r1 r2 = true -> rings_disjoint r1 r2.
Proof. exact (forallb_Forall _ _ _ no_touch_sound). Qed.

Lemma ord_pairs_b_sound {A} (f : A -> A -> bool) (R : A -> A -> Prop) l :
  (forall x y, f x y = true -> R x y) -> ord_pairs_b f l = true -> ForallOrdPairs R l.
Proof.
  intro H. induction l as [| a r IH]; cbn [ord_pairs_b]; intro E; [constructor |].
  apply andb_true_iff in E as [E1 E2]. constructor; [| apply IH; exact E2].
  exact (forallb_Forall _ _ _ (H a) E1).
Qed.

Theorem valid_polygon_b_sound P : valid_polygon_b P = true -> valid_polygon P.
Proof.
  destruct P as [| shell holes]; cbn [valid_polygon_b valid_polygon]; [discriminate |].
  rewrite !andb_true_iff. intros [[[S H] I] O].
  split; [apply simple_ring_b_sound; exact S |].
  split; [exact (forallb_Forall _ _ _ simple_ring_b_sound H) |]. split.
  - refine (forallb_Forall _ _ _ _ I). intro h. rewrite andb_true_iff. intros [D F].
    split; [apply rings_disjoint_b_sound; exact D | exact F].
  - apply (ord_pairs_b_sound holes_apart_b); [| exact O]. intros h1 h2. unfold holes_apart_b, holes_apart.
    rewrite !andb_true_iff, !negb_true_iff. intros [[D F1] F2].
    split; [apply rings_disjoint_b_sound; exact D | auto].
Qed.

(** what the geometric clauses say, spelled out for two edges of a valid shell *)
Lemma valid_shell_nonadjacent shell holes e f : valid_polygon (shell :: holes) ->
  In (e, f) (nonadj_pairs (ring_edges shell)) ->
  ~ exists s t : Q, (0 <= s /\ s <= 1 /\ 0 <= t /\ t <= 1 /\
      Index.ProofsLine.co (fst (fst e)) (fst (snd e)) s == Index.ProofsLine.co (fst (fst f)) (fst (snd f)) t /\
      Index.ProofsLine.co (snd (fst e)) (snd (snd e)) s == Index.ProofsLine.co (snd (fst f)) (snd (snd f)) t)%Q.
Proof.
  intros [[_ [_ [N _]]] _] Hin. rewrite Forall_forall in N. exact (N (e, f) Hin).
Qed.
