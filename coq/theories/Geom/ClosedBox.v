(** * Exact test: a closed segment meets a CLOSED axis-parallel box (used for "within half a pixel in
      Chebyshev distance": the box is the closed square of half-size h around a point). *)
From Coq Require Import ZArith QArith Lqa Lia List Bool.
From Texel Require Import Prelude.Base Index.Model Index.ProofsQ Index.ProofsLine.
Import ListNotations.
Open Scope Z_scope.

Definition axisBoundsC (from to mn mx : Z) : option (list pbound * list pbound) :=
  let delta := to - from in
  if delta =? 0 then
    if (from <? mn) || (mx <? from) then None else Some ([], [])
  else if 0 <? delta then
    Some ([mkBound (mn - from) delta false], [mkBound (mx - from) delta false])
  else
    Some ([mkBound (from - mx) (- delta) false], [mkBound (from - mn) (- delta) false]).

Definition seg_meets_closed (a b : pt) (mnx mny mxx mxy : Z) : bool :=
  match axisBoundsC (fst a) (fst b) mnx mxx, axisBoundsC (snd a) (snd b) mny mxy with
  | Some (lx, ux), Some (ly, uy) =>
      let lows := mkBound 0 1 false :: lx ++ ly in
      let ups := mkBound 1 1 false :: ux ++ uy in
      forallb (fun lo => forallb (fun up => leavesRoomBelow lo up) ups) lows
  | _, _ => false
  end.

(** closed square with centre c and half-size h *)
Definition seg_meets_closed_box (a b c : pt) (h : Z) : bool :=
  seg_meets_closed a b (fst c - h) (snd c - h) (fst c + h) (snd c + h).

Open Scope Q_scope.

Definition AxisInC (from to mn mx : Z) (t : Q) : Prop :=
  inject_Z mn <= co from to t /\ co from to t <= inject_Z mx.

Lemma axisBoundsC_some from to mn mx ls us : axisBoundsC from to mn mx = Some (ls, us) ->
  Forall (fun p => (0 < bden p)%Z) ls /\ Forall (fun p => (0 < bden p)%Z) us /\
  forall t, (allL (map qb ls) t /\ allU (map qb us) t) <-> AxisInC from to mn mx t.
Proof.
  unfold axisBoundsC, AxisInC, co. intro H.
  destruct (Z.eqb_spec (to - from) 0) as [E0 | N0].
  - destruct ((from <? mn)%Z || (mx <? from)%Z) eqn:Eo; [discriminate |].
    injection H as <- <-. apply orb_false_iff in Eo as [E1 E2].
    apply Z.ltb_ge in E1. apply Z.ltb_ge in E2.
    split; [constructor |]. split; [constructor |]. intro t.
    assert (Et : inject_Z to == inject_Z from) by (replace to with from by lia; reflexivity).
    assert (Q1 : inject_Z mn <= inject_Z from) by (rewrite <- Zle_Qle; exact E1).
    assert (Q2 : inject_Z from <= inject_Z mx) by (rewrite <- Zle_Qle; exact E2).
    split.
    + intros _. rewrite Et. split; lra.
    + intros _. split; constructor.
  - destruct (Z.ltb_spec 0 (to - from)) as [P | NP].
    + injection H as <- <-. split; [repeat constructor; exact P |]. split; [repeat constructor; exact P |].
      intro t. cbn [map]. unfold allL, allU. rewrite !Forall1. unfold satL, satU, qb. cbn [fst snd bnum bden bstrict].
      rewrite (qmk_le_l _ _ t P), (qmk_le_r _ _ t P). rewrite !inject_Z_minus. split; intros [A B]; split; lra.
    + assert (P : (0 < - (to - from))%Z) by lia.
      injection H as <- <-. split; [repeat constructor; exact P |]. split; [repeat constructor; exact P |].
      intro t. cbn [map]. unfold allL, allU. rewrite !Forall1. unfold satL, satU, qb. cbn [fst snd bnum bden bstrict].
      rewrite (qmk_le_l _ _ t P), (qmk_le_r _ _ t P). rewrite inject_Z_opp, !inject_Z_minus.
      split; intros [A B]; split; lra.
Qed.

Lemma axisBoundsC_none from to mn mx : axisBoundsC from to mn mx = None ->
  forall t, ~ AxisInC from to mn mx t.
Proof.
  unfold axisBoundsC, AxisInC, co. intros H t [A B].
  destruct (Z.eqb_spec (to - from) 0) as [E0 | N0].
  - destruct ((from <? mn)%Z || (mx <? from)%Z) eqn:Eo; [| discriminate].
    assert (Et : inject_Z to == inject_Z from) by (replace to with from by lia; reflexivity).
    rewrite Et in A, B. apply orb_true_iff in Eo as [E1 | E2].
    + apply Z.ltb_lt in E1. rewrite Zlt_Qlt in E1. lra.
    + apply Z.ltb_lt in E2. rewrite Zlt_Qlt in E2. lra.
  - destruct (0 <? to - from)%Z; discriminate.
Qed.

Theorem seg_meets_closed_spec (a b : pt) (mnx mny mxx mxy : Z) :
  seg_meets_closed a b mnx mny mxx mxy = true <->
  exists t : Q, 0 <= t /\ t <= 1 /\ AxisInC (fst a) (fst b) mnx mxx t /\ AxisInC (snd a) (snd b) mny mxy t.
Proof.
  unfold seg_meets_closed.
  destruct (axisBoundsC (fst a) (fst b) mnx mxx) as [[lx ux] |] eqn:Ex.
  2:{ split; [discriminate |]. intros [t [_ [_ [A _]]]]. exfalso. exact (axisBoundsC_none _ _ _ _ Ex t A). }
  destruct (axisBoundsC (snd a) (snd b) mny mxy) as [[ly uy] |] eqn:Ey.
  2:{ split; [discriminate |]. intros [t [_ [_ [_ A]]]]. exfalso. exact (axisBoundsC_none _ _ _ _ Ey t A). }
  destruct (axisBoundsC_some _ _ _ _ _ _ Ex) as [Dlx [Dux Sx]].
  destruct (axisBoundsC_some _ _ _ _ _ _ Ey) as [Dly [Duy Sy]].
  set (l0 := mkBound 0 1 false). set (u0 := mkBound 1 1 false).
  assert (DL : Forall (fun p => (0 < bden p)%Z) (l0 :: lx ++ ly)).
  { constructor; [cbn; lia | apply Forall_app; split; assumption]. }
  assert (DU : Forall (fun p => (0 < bden p)%Z) (u0 :: ux ++ uy)).
  { constructor; [cbn; lia | apply Forall_app; split; assumption]. }
  rewrite forallb2_spec.
  transitivity (forall l u, In l (qb l0 :: map qb (lx ++ ly)) -> In u (qb u0 :: map qb (ux ++ uy)) -> compat l u).
  { rewrite Forall_forall in DL, DU. split.
    - intros H l u Hl Hu. change (In l (map qb (l0 :: lx ++ ly))) in Hl. change (In u (map qb (u0 :: ux ++ uy))) in Hu.
      apply in_map_iff in Hl as [lo [<- Hlo]]. apply in_map_iff in Hu as [up [<- Hup]].
      apply leavesRoomBelow_compat; [apply DL | apply DU | apply H]; assumption.
    - intros H lo up Hlo Hup. apply leavesRoomBelow_compat; [apply DL | apply DU |]; try assumption.
      apply H; [change (In (qb lo) (map qb (l0 :: lx ++ ly))) | change (In (qb up) (map qb (u0 :: ux ++ uy)))];
        apply in_map; assumption. }
  rewrite helly1. unfold allL, allU.
  split; intros [t H]; exists t.
  - destruct H as [HL HU]. inversion HL as [| ? ? H0 HL']; subst. inversion HU as [| ? ? H1 HU']; subst.
    rewrite map_app in HL', HU'. apply Forall_app in HL' as [HLx HLy]. apply Forall_app in HU' as [HUx HUy].
    unfold satL, qb in H0. unfold satU, qb in H1. cbn in H0, H1.
    split; [unfold Qle in *; cbn in *; lia |]. split; [unfold Qle in *; cbn in *; lia |].
    split; [apply Sx | apply Sy]; split; assumption.
  - destruct H as [H0 [H1 [Ax Ay]]]. apply Sx in Ax as [HLx HUx]. apply Sy in Ay as [HLy HUy].
    rewrite !map_app. split; constructor.
    + unfold satL, qb; cbn. unfold Qle in *; cbn in *; lia.
    + apply Forall_app; split; assumption.
    + unfold satU, qb; cbn. unfold Qle in *; cbn in *; lia.
    + apply Forall_app; split; assumption.
Qed.

(** Chebyshev form: some point of the closed segment is within h of c on both axes *)
Definition WithinCheb (a b c : pt) (h : Z) : Prop :=
  exists t : Q, 0 <= t /\ t <= 1 /\
    - inject_Z h <= co (fst a) (fst b) t - inject_Z (fst c) /\ co (fst a) (fst b) t - inject_Z (fst c) <= inject_Z h /\
    - inject_Z h <= co (snd a) (snd b) t - inject_Z (snd c) /\ co (snd a) (snd b) t - inject_Z (snd c) <= inject_Z h.

Theorem seg_meets_closed_box_spec a b c h : seg_meets_closed_box a b c h = true <-> WithinCheb a b c h.
Proof.
  unfold seg_meets_closed_box, WithinCheb. rewrite seg_meets_closed_spec. unfold AxisInC.
  split.
  - intros [t [T0 [T1 [[X1 X2] [Y1 Y2]]]]]. exists t.
    rewrite inject_Z_minus in X1, Y1. rewrite inject_Z_plus in X2, Y2. repeat split; try assumption; lra.
  - intros [t [T0 [T1 [X1 [X2 [Y1 Y2]]]]]]. exists t.
    rewrite !inject_Z_minus, !inject_Z_plus. repeat split; try assumption; lra.
Qed.

Corollary seg_far_from_box a b c h : seg_meets_closed_box a b c h = false -> ~ WithinCheb a b c h.
Proof. intros E H. apply seg_meets_closed_box_spec in H. congruence. Qed.
