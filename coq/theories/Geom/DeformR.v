(** * First contact of two segments whose end points move linearly (real analysis; C01, continuity half).

    Points are pairs of real coordinates written out; [l] is the time.  Two segments A B and C D whose four end
    points move linearly in time, which cross properly at time 1 and do not at time 0, have a time [l0 < 1] at which
    an end point of one lies on the other closed segment.  Proof: l0 = the last time without a proper crossing; the
    crossing parameters s = n1 / det, t = n2 / det stay in (0,1) after l0; if det l0 <> 0 they are in [0,1] at l0 by
    continuity and one of them is 0 or 1; if det l0 = 0 then n1 l0 = n2 l0 = 0 (|n| < |det| after l0), all four points
    are collinear, and one of the four "disk" products is <= 0 (a non-negative combination of them vanishes as long
    as the segments cross), which for collinear points means: an end point between the two others.

    Uses the axioms of the standard library's real numbers only (through Reals, lra, nra). *)
From Coq Require Import Reals Lra Psatz.
Local Open Scope R_scope.

(** ** continuity facts *)
Lemma cont_pos (g : R -> R) x0 : continuity g -> 0 < g x0 ->
  exists d, 0 < d /\ forall x, Rabs (x - x0) < d -> 0 < g x.
Proof.
  intros Hc Hp. destruct (Hc x0 (g x0 / 2)) as [a [Ha H]]; [lra |]. exists a. split; [lra |]. intros x Hx.
  destruct (Req_dec x0 x) as [<- | N]; [exact Hp |].
  assert (Hd : Rabs (g x - g x0) < g x0 / 2).
  { apply (H x). split; [split; [exact I | exact N] | exact Hx]. }
  apply Rabs_def2 in Hd. lra.
Qed.

Lemma right_limit_ge (g : R -> R) l0 : continuity g -> l0 < 1 -> (forall l, l0 < l <= 1 -> 0 <= g l) -> 0 <= g l0.
Proof.
  intros Hc Hl H. destruct (Rle_lt_dec 0 (g l0)) as [Hp | Hn]; [exact Hp | exfalso].
  destruct (cont_pos (fun x => - g x) l0) as [d [Hd Hpos]]; [apply continuity_opp, Hc | lra |].
  set (e := Rmin (d / 2) ((1 - l0) / 2)).
  assert (He : 0 < e) by (apply Rmin_glb_lt; lra).
  assert (He1 : e <= d / 2) by apply Rmin_l. assert (He2 : e <= (1 - l0) / 2) by apply Rmin_r.
  specialize (H (l0 + e) ltac:(lra)). specialize (Hpos (l0 + e)).
  assert (Ha : Rabs (l0 + e - l0) < d) by (replace (l0 + e - l0) with e by ring; rewrite Rabs_right; lra).
  specialize (Hpos Ha). lra.
Qed.

Lemma mul_pos_l z d : 0 < d -> 0 < z * d -> 0 < z.
Proof. intros Hd H. apply (Rmult_lt_reg_r d); lra. Qed.

Lemma mul_pos_neg z d : d < 0 -> 0 < z * d -> z < 0.
Proof.
  intros Hd H. destruct (Rlt_le_dec z 0) as [Hz | Hz]; [exact Hz | exfalso].
  assert (0 <= z * (- d)) by (apply Rmult_le_pos; lra). lra.
Qed.

(** ** static algebra.  Points A = (ax, ay), ... *)
Section Static.
  Variables ax ay bx by_ cx cy dx dy : R.

  Definition sdet : R := (bx - ax) * (dy - cy) - (by_ - ay) * (dx - cx).
  Definition sn1 : R := (cx - ax) * (dy - cy) - (cy - ay) * (dx - cx).
  Definition sn2 : R := (cx - ax) * (by_ - ay) - (cy - ay) * (bx - ax).

  (** proper crossing: the crossing parameters s = sn1 / sdet, t = sn2 / sdet are strictly inside (0,1) *)
  Definition PCs : Prop :=
    0 < sn1 * sdet /\ 0 < (sdet - sn1) * sdet /\ 0 < sn2 * sdet /\ 0 < (sdet - sn2) * sdet.

  (** the same with orientations (Geom/Cross.v's [proper_cross], on reals) *)
  Definition o1 : R := (bx - ax) * (cy - ay) - (by_ - ay) * (cx - ax).
  Definition o2 : R := (bx - ax) * (dy - ay) - (by_ - ay) * (dx - ax).
  Definition o3 : R := (dx - cx) * (ay - cy) - (dy - cy) * (ax - cx).
  Definition o4 : R := (dx - cx) * (by_ - cy) - (dy - cy) * (bx - cx).

  Lemma orient_PCs : o1 * o2 < 0 -> o3 * o4 < 0 -> PCs.
  Proof.
    assert (E1 : o1 = - sn2) by (unfold o1, sn2; ring). assert (E2 : o2 = sdet - sn2) by (unfold o2, sdet, sn2; ring).
    assert (E3 : o3 = sn1) by (unfold o3, sn1; ring). assert (E4 : o4 = sn1 - sdet) by (unfold o4, sdet, sn1; ring).
    rewrite E1, E2, E3, E4. unfold PCs. generalize sdet sn1 sn2. intros d x y H1 H2.
    pose proof (Rle_0_sqr x) as Sx. pose proof (Rle_0_sqr y) as Sy. pose proof (Rle_0_sqr (d - x)) as Sdx.
    pose proof (Rle_0_sqr (d - y)) as Sdy. unfold Rsqr in *.
    assert (K1 : x * d = x * (d - x) + x * x) by ring. assert (K2 : (d - x) * d = x * (d - x) + (d - x) * (d - x)) by ring.
    assert (K3 : y * d = y * (d - y) + y * y) by ring. assert (K4 : (d - y) * d = y * (d - y) + (d - y) * (d - y)) by ring.
    assert (H1' : 0 < y * (d - y)) by lra. assert (H2' : 0 < x * (d - x)) by (replace (x * (d - x)) with (- (x * (x - d))) by ring; lra).
    repeat split; lra.
  Qed.

  Definition onseg (px py qx qy rx ry : R) : Prop :=
    exists u, 0 <= u <= 1 /\ px = qx + u * (rx - qx) /\ py = qy + u * (ry - qy).

  Definition incid : Prop :=
    onseg cx cy ax ay bx by_ \/ onseg dx dy ax ay bx by_ \/ onseg ax ay cx cy dx dy \/ onseg bx by_ cx cy dx dy.

  Lemma cramer : sdet <> 0 ->
    ax + sn1 / sdet * (bx - ax) = cx + sn2 / sdet * (dx - cx) /\
    ay + sn1 / sdet * (by_ - ay) = cy + sn2 / sdet * (dy - cy).
  Proof. intro H. unfold sn1, sn2, sdet in *. split; field; exact H. Qed.

  (** the four "disk" products: p <= 0 iff the point sees the other segment under at least a right angle *)
  Definition pA : R := (ax - cx) * (ax - dx) + (ay - cy) * (ay - dy).
  Definition pB : R := (bx - cx) * (bx - dx) + (by_ - cy) * (by_ - dy).
  Definition pC : R := (cx - ax) * (cx - bx) + (cy - ay) * (cy - by_).
  Definition pD : R := (dx - ax) * (dx - bx) + (dy - ay) * (dy - by_).

  Lemma crossing_has_obtuse : PCs -> pA <= 0 \/ pB <= 0 \/ pC <= 0 \/ pD <= 0.
  Proof.
    intros [F1 [F2 [F3 F4]]].
    assert (Hd : sdet <> 0) by (intro E; rewrite E in F1; lra).
    destruct (cramer Hd) as [Ex Ey]. set (s := sn1 / sdet) in *. set (t := sn2 / sdet) in *.
    assert (Hs : 0 < s < 1).
    { unfold s. assert (Hq : 0 < sdet * sdet) by nra. split.
      - replace (sn1 / sdet) with (sn1 * sdet / (sdet * sdet)) by (field; exact Hd). apply Rdiv_lt_0_compat; lra.
      - assert (E : 1 - sn1 / sdet = (sdet - sn1) * sdet / (sdet * sdet)) by (field; exact Hd).
        assert (0 < (sdet - sn1) * sdet / (sdet * sdet)) by (apply Rdiv_lt_0_compat; lra). lra. }
    assert (Ht : 0 < t < 1).
    { unfold t. assert (Hq : 0 < sdet * sdet) by nra. split.
      - replace (sn2 / sdet) with (sn2 * sdet / (sdet * sdet)) by (field; exact Hd). apply Rdiv_lt_0_compat; lra.
      - assert (E : 1 - sn2 / sdet = (sdet - sn2) * sdet / (sdet * sdet)) by (field; exact Hd).
        assert (0 < (sdet - sn2) * sdet / (sdet * sdet)) by (apply Rdiv_lt_0_compat; lra). lra. }
    set (ux := ax + s * (bx - ax) - (cx + t * (dx - cx))). set (uy := ay + s * (by_ - ay) - (cy + t * (dy - cy))).
    assert (Ux : ux = 0) by (unfold ux; lra). assert (Uy : uy = 0) by (unfold uy; lra).
    assert (Id : (1 - s) * pA + s * pB + (1 - t) * pC + t * pD =
                 ux * (2 * ux + (2 * t - 1) * (dx - cx) + (1 - 2 * s) * (bx - ax)) +
                 uy * (2 * uy + (2 * t - 1) * (dy - cy) + (1 - 2 * s) * (by_ - ay))).
    { unfold pA, pB, pC, pD, ux, uy. ring. }
    rewrite Ux, Uy in Id.
    destruct (Rle_lt_dec pA 0) as [|HA]; [auto |]. destruct (Rle_lt_dec pB 0) as [|HB]; [auto |].
    destruct (Rle_lt_dec pC 0) as [|HC]; [auto |]. destruct (Rle_lt_dec pD 0) as [|HD]; [auto |]. exfalso.
    assert (0 < (1 - s) * pA) by (apply Rmult_lt_0_compat; lra). assert (0 < s * pB) by (apply Rmult_lt_0_compat; lra).
    assert (0 < (1 - t) * pC) by (apply Rmult_lt_0_compat; lra). assert (0 < t * pD) by (apply Rmult_lt_0_compat; lra).
    lra.
  Qed.

  Lemma crossing_squeeze : PCs -> sn1 * sn1 < sdet * sdet /\ sn2 * sn2 < sdet * sdet.
  Proof.
    intros [F1 [F2 [F3 F4]]]. revert F1 F2 F3 F4. generalize sdet sn1 sn2. intros d x y F1 F2 F3 F4.
    assert (G : forall z, 0 < z * d -> 0 < (d - z) * d -> z * z < d * d).
    { intros z G1 G2. destruct (Rlt_le_dec 0 d) as [Hd | Hd].
      - assert (0 < z) by (apply (mul_pos_l z d); assumption).
        assert (0 < d - z) by (apply (mul_pos_l (d - z) d); assumption).
        assert (0 < (d - z) * (d + z)) by (apply Rmult_lt_0_compat; lra).
        replace (d * d) with (z * z + (d - z) * (d + z)) by ring. lra.
      - assert (d < 0) by (destruct Hd as [Hd | Hd]; [exact Hd | rewrite Hd in G1; lra]).
        assert (z < 0) by (apply (mul_pos_neg z d); assumption).
        assert (d - z < 0) by (apply (mul_pos_neg (d - z) d); assumption).
        assert (0 < (z - d) * (- d - z)) by (apply Rmult_lt_0_compat; lra).
        replace (d * d) with (z * z + (z - d) * (- d - z)) by ring. lra. }
    split; apply G; assumption.
  Qed.
End Static.


Lemma PCs_params ax ay bx by_ cx cy dx dy : PCs ax ay bx by_ cx cy dx dy ->
  let d := sdet ax ay bx by_ cx cy dx dy in let x := sn1 ax ay cx cy dx dy in let y := sn2 ax ay bx by_ cx cy in
  d <> 0 /\ 0 < x / d < 1 /\ 0 < y / d < 1.
Proof.
  intros [F1 [F2 [F3 F4]]] d x y. fold d x y in F1, F2, F3, F4.
  assert (Hd : d <> 0) by (intro E; rewrite E in F1; lra).
  assert (Hq : 0 < d * d) by (pose proof (Rle_0_sqr d) as H; unfold Rsqr in H; destruct H as [H | H]; [exact H | exfalso; symmetry in H; apply Rmult_integral in H; tauto]).
  assert (G : forall z, 0 < z * d -> 0 < (d - z) * d -> 0 < z / d < 1).
  { intros z G1 G2. assert (E1 : z / d = z * d / (d * d)) by (field; exact Hd).
    assert (E2 : 1 - z / d = (d - z) * d / (d * d)) by (field; exact Hd).
    assert (0 < z * d / (d * d)) by (apply Rdiv_lt_0_compat; assumption).
    assert (0 < (d - z) * d / (d * d)) by (apply Rdiv_lt_0_compat; assumption). lra. }
  split; [exact Hd |]. split; apply G; assumption.
Qed.

(** collinear and inside the disk over the segment: on the closed segment *)
Lemma collinear_disk_onseg px py qx qy rx ry :
  (rx - qx) * (py - qy) - (ry - qy) * (px - qx) = 0 -> (px - qx) * (px - rx) + (py - qy) * (py - ry) <= 0 ->
  onseg px py qx qy rx ry.
Proof.
  intros Hc Hd. remember (rx - qx) as vx. remember (ry - qy) as vy. remember (px - qx) as wx. remember (py - qy) as wy.
  assert (Hd' : wx * (wx - vx) + wy * (wy - vy) <= 0).
  { replace (wx - vx) with (px - rx) by (subst; ring). replace (wy - vy) with (py - ry) by (subst; ring). exact Hd. }
  destruct (Req_dec (vx * vx + vy * vy) 0) as [Z | N].
  - destruct (Rplus_sqr_eq_0 vx vy Z) as [Zx Zy]. rewrite Zx, Zy in Hd'.
    assert (Zw : Rsqr wx + Rsqr wy = 0).
    { unfold Rsqr. pose proof (Rle_0_sqr wx). pose proof (Rle_0_sqr wy). unfold Rsqr in *.
      replace (wx * (wx - 0)) with (wx * wx) in Hd' by ring. replace (wy * (wy - 0)) with (wy * wy) in Hd' by ring. lra. }
    destruct (Rplus_sqr_eq_0 wx wy Zw) as [Wx Wy].
    exists 0. split; [split; lra |]. rewrite Wx in Heqwx. rewrite Wy in Heqwy. split; lra.
  - set (n := vx * vx + vy * vy) in *.
    assert (Hn0 : 0 <= n) by (unfold n; pose proof (Rle_0_sqr vx); pose proof (Rle_0_sqr vy); unfold Rsqr in *; lra).
    assert (Hn : 0 < n) by (destruct Hn0 as [H | H]; [exact H | exfalso; apply N; symmetry; exact H]).
    set (u := (wx * vx + wy * vy) / n).
    assert (Eu : u * n = wx * vx + wy * vy) by (unfold u; field; lra).
    assert (Ex : wx = u * vx).
    { apply (Rmult_eq_reg_r n); [| lra]. replace (u * vx * n) with (u * n * vx) by ring. rewrite Eu. unfold n.
      replace ((wx * vx + wy * vy) * vx) with (wx * (vx * vx + vy * vy) + vy * (vx * wy - vy * wx)) by ring. rewrite Hc. ring. }
    assert (Ey : wy = u * vy).
    { apply (Rmult_eq_reg_r n); [| lra]. replace (u * vy * n) with (u * n * vy) by ring. rewrite Eu. unfold n.
      replace ((wx * vx + wy * vy) * vy) with (wy * (vx * vx + vy * vy) - vx * (vx * wy - vy * wx)) by ring. rewrite Hc. ring. }
    assert (Hu : u * (u - 1) * n <= 0).
    { replace (u * (u - 1) * n) with ((u * vx) * (u * vx - vx) + (u * vy) * (u * vy - vy)) by (unfold n; ring).
      rewrite <- Ex, <- Ey. exact Hd'. }
    assert (Hu' : u * (u - 1) <= 0).
    { destruct (Rle_lt_dec (u * (u - 1)) 0) as [H | H]; [exact H | exfalso].
      assert (0 < u * (u - 1) * n) by (apply Rmult_lt_0_compat; assumption). lra. }
    assert (Hu01 : 0 <= u <= 1).
    { split.
      - destruct (Rle_lt_dec 0 u) as [H | H]; [exact H | exfalso].
        assert (0 < (- u) * (1 - u)) by (apply Rmult_lt_0_compat; lra). replace (- u * (1 - u)) with (u * (u - 1)) in * by ring. lra.
      - destruct (Rle_lt_dec u 1) as [H | H]; [exact H | exfalso].
        assert (0 < u * (u - 1)) by (apply Rmult_lt_0_compat; lra). lra. }
    exists u. split; [exact Hu01 |]. rewrite Heqwx, Heqvx in Ex. rewrite Heqwy, Heqvy in Ey. split; lra.
Qed.


Lemma ratio_bounds x d : d <> 0 -> 0 <= x * d -> 0 <= (d - x) * d -> 0 <= x / d <= 1.
Proof.
  intros Hd H1 H2. assert (Hq : 0 < d * d) by (pose proof (Rle_0_sqr d) as H; unfold Rsqr in H; destruct H as [H | H]; [exact H | exfalso; symmetry in H; apply Rmult_integral in H; tauto]).
  assert (E1 : x / d = x * d / (d * d)) by (field; exact Hd).
  assert (E2 : 1 - x / d = (d - x) * d / (d * d)) by (field; exact Hd).
  assert (G1 : 0 <= x * d / (d * d)) by (apply Rle_mult_inv_pos; assumption).
  assert (G2 : 0 <= (d - x) * d / (d * d)) by (apply Rle_mult_inv_pos; assumption).
  lra.
Qed.

Lemma boundary_incid ax ay bx by_ cx cy dx dy :
  let d := sdet ax ay bx by_ cx cy dx dy in let x := sn1 ax ay cx cy dx dy in let y := sn2 ax ay bx by_ cx cy in
  d <> 0 -> 0 <= x * d -> 0 <= (d - x) * d -> 0 <= y * d -> 0 <= (d - y) * d ->
  (x * d <= 0 \/ (d - x) * d <= 0 \/ y * d <= 0 \/ (d - y) * d <= 0) ->
  incid ax ay bx by_ cx cy dx dy.
Proof.
  intros d x y Hd F1 F2 F3 F4 Hz.
  destruct (cramer ax ay bx by_ cx cy dx dy Hd) as [Ex Ey]. fold d x y in Ex, Ey.
  pose proof (ratio_bounds x d Hd F1 F2) as Bs. pose proof (ratio_bounds y d Hd F3 F4) as Bt.
  assert (Z : forall z, z * d = 0 -> z = 0) by (intros z Hzd; apply Rmult_integral in Hzd; tauto).
  unfold incid. destruct Hz as [Hz | [Hz | [Hz | Hz]]].
  - assert (Ex0 : x = 0) by (apply Z; lra). right; right; left. exists (y / d). split; [exact Bt |].
    rewrite Ex0 in Ex, Ey. unfold Rdiv in Ex, Ey. rewrite Rmult_0_l in Ex, Ey. split; lra.
  - assert (Ex0 : d - x = 0) by (apply Z; lra). right; right; right. exists (y / d). split; [exact Bt |].
    assert (E1 : x / d = 1) by (replace x with d by lra; field; exact Hd). rewrite E1 in Ex, Ey. split; lra.
  - assert (Ey0 : y = 0) by (apply Z; lra). left. exists (x / d). split; [exact Bs |].
    rewrite Ey0 in Ex, Ey. unfold Rdiv in Ex, Ey. rewrite (Rmult_0_l (/ d)) in Ex, Ey. split; lra.
  - assert (Ey0 : d - y = 0) by (apply Z; lra). right; left. exists (x / d). split; [exact Bs |].
    assert (E1 : y / d = 1) by (replace y with d by lra; field; exact Hd). rewrite E1 in Ex, Ey. split; lra.
Qed.

Lemma parallel_incid ax ay bx by_ cx cy dx dy :
  sdet ax ay bx by_ cx cy dx dy = 0 -> sn1 ax ay cx cy dx dy = 0 -> sn2 ax ay bx by_ cx cy = 0 ->
  (pA ax ay cx cy dx dy <= 0 \/ pB bx by_ cx cy dx dy <= 0 \/ pC ax ay bx by_ cx cy <= 0 \/ pD ax ay bx by_ dx dy <= 0) ->
  incid ax ay bx by_ cx cy dx dy.
Proof.
  intros Hd H1 H2 Hp. unfold incid. unfold sdet, sn1, sn2 in *. destruct Hp as [Hp | [Hp | [Hp | Hp]]].
  - right; right; left. apply collinear_disk_onseg; [lra | unfold pA in Hp; lra].
  - right; right; right. apply collinear_disk_onseg; [lra | unfold pB in Hp; lra].
  - left. apply collinear_disk_onseg; [lra | unfold pC in Hp; lra].
  - right; left. apply collinear_disk_onseg; [lra | unfold pD in Hp; lra].
Qed.

(** ** the moving segments *)
Section Moving.
  Variables ax0 ay0 bx0 by0 cx0 cy0 dx0 dy0 ax1 ay1 bx1 by1 cx1 cy1 dx1 dy1 : R.

  Definition Ax l := ax0 + l * (ax1 - ax0).  Definition Ay l := ay0 + l * (ay1 - ay0).
  Definition Bx l := bx0 + l * (bx1 - bx0).  Definition By l := by0 + l * (by1 - by0).
  Definition Cx l := cx0 + l * (cx1 - cx0).  Definition Cy l := cy0 + l * (cy1 - cy0).
  Definition Dx l := dx0 + l * (dx1 - dx0).  Definition Dy l := dy0 + l * (dy1 - dy0).

  Definition det l := sdet (Ax l) (Ay l) (Bx l) (By l) (Cx l) (Cy l) (Dx l) (Dy l).
  Definition n1 l := sn1 (Ax l) (Ay l) (Cx l) (Cy l) (Dx l) (Dy l).
  Definition n2 l := sn2 (Ax l) (Ay l) (Bx l) (By l) (Cx l) (Cy l).
  Definition PC l := PCs (Ax l) (Ay l) (Bx l) (By l) (Cx l) (Cy l) (Dx l) (Dy l).
  Definition Incid l := incid (Ax l) (Ay l) (Bx l) (By l) (Cx l) (Cy l) (Dx l) (Dy l).

  Definition F1 l := n1 l * det l.
  Definition F2 l := (det l - n1 l) * det l.
  Definition F3 l := n2 l * det l.
  Definition F4 l := (det l - n2 l) * det l.
  Definition S1 l := det l * det l - n1 l * n1 l.
  Definition S2 l := det l * det l - n2 l * n2 l.
  Definition QA l := pA (Ax l) (Ay l) (Cx l) (Cy l) (Dx l) (Dy l).
  Definition QB l := pB (Bx l) (By l) (Cx l) (Cy l) (Dx l) (Dy l).
  Definition QC l := pC (Ax l) (Ay l) (Bx l) (By l) (Cx l) (Cy l).
  Definition QD l := pD (Ax l) (Ay l) (Bx l) (By l) (Dx l) (Dy l).

  Ltac poly_cont := unfold F1, F2, F3, F4, S1, S2, QA, QB, QC, QD, n1, n2, det, sdet, sn1, sn2, pA, pB, pC, pD, Ax, Ay, Bx, By, Cx, Cy, Dx, Dy; reg.

  Lemma cF1 : continuity F1. Proof. poly_cont. Qed.
  Lemma cF2 : continuity F2. Proof. poly_cont. Qed.
  Lemma cF3 : continuity F3. Proof. poly_cont. Qed.
  Lemma cF4 : continuity F4. Proof. poly_cont. Qed.
  Lemma cS1 : continuity S1. Proof. poly_cont. Qed.
  Lemma cS2 : continuity S2. Proof. poly_cont. Qed.
  Lemma cQA : continuity QA. Proof. poly_cont. Qed.
  Lemma cQB : continuity QB. Proof. poly_cont. Qed.
  Lemma cQC : continuity QC. Proof. poly_cont. Qed.
  Lemma cQD : continuity QD. Proof. poly_cont. Qed.

  Lemma PC_F l : PC l <-> 0 < F1 l /\ 0 < F2 l /\ 0 < F3 l /\ 0 < F4 l.
  Proof. reflexivity. Qed.

  Lemma PC_dec l : PC l \/ ~ PC l.
  Proof.
    rewrite PC_F. destruct (Rlt_dec 0 (F1 l)), (Rlt_dec 0 (F2 l)), (Rlt_dec 0 (F3 l)), (Rlt_dec 0 (F4 l)); tauto.
  Qed.

  (** four continuous functions positive at a point are positive together nearby *)
  Lemma four_pos (g1 g2 g3 g4 : R -> R) x0 : continuity g1 -> continuity g2 -> continuity g3 -> continuity g4 ->
    0 < g1 x0 -> 0 < g2 x0 -> 0 < g3 x0 -> 0 < g4 x0 ->
    exists d, 0 < d /\ forall x, Rabs (x - x0) < d -> 0 < g1 x /\ 0 < g2 x /\ 0 < g3 x /\ 0 < g4 x.
  Proof.
    intros C1 C2 C3 C4 P1 P2 P3 P4.
    destruct (cont_pos g1 x0 C1 P1) as [d1 [D1 H1]]. destruct (cont_pos g2 x0 C2 P2) as [d2 [D2 H2]].
    destruct (cont_pos g3 x0 C3 P3) as [d3 [D3 H3]]. destruct (cont_pos g4 x0 C4 P4) as [d4 [D4 H4]].
    exists (Rmin (Rmin d1 d2) (Rmin d3 d4)). split; [repeat apply Rmin_glb_lt; assumption |].
    intros x Hx.
    assert (L12 : Rmin (Rmin d1 d2) (Rmin d3 d4) <= Rmin d1 d2) by apply Rmin_l.
    assert (L34 : Rmin (Rmin d1 d2) (Rmin d3 d4) <= Rmin d3 d4) by apply Rmin_r.
    pose proof (Rmin_l d1 d2). pose proof (Rmin_r d1 d2). pose proof (Rmin_l d3 d4). pose proof (Rmin_r d3 d4).
    repeat split; [apply H1 | apply H2 | apply H3 | apply H4]; lra.
  Qed.

  Theorem first_contact : PC 1 -> ~ PC 0 -> exists l0, 0 <= l0 < 1 /\ Incid l0.
  Proof.
    intros P1 NP0.
    set (U := fun l => 0 <= l <= 1 /\ ~ PC l).
    assert (HB : bound U) by (exists 1; intros l [[_ Hl] _]; exact Hl).
    assert (HE : exists l, U l) by (exists 0; split; [lra | exact NP0]).
    destruct (completeness U HB HE) as [l0 [Hub Hlub]].
    assert (L0 : 0 <= l0) by (apply Hub; split; [lra | exact NP0]).
    assert (L1 : l0 <= 1) by (apply Hlub; intros l [[_ Hl] _]; exact Hl).
    (* no proper crossing at l0 *)
    assert (NP : ~ PC l0).
    { intro Pl0. rewrite PC_F in Pl0. destruct Pl0 as [G1 [G2 [G3 G4]]].
      destruct (four_pos F1 F2 F3 F4 l0 cF1 cF2 cF3 cF4 G1 G2 G3 G4) as [d [Hd Hpos]].
      assert (Hup : is_upper_bound U (l0 - d)).
      { intros u Hu. destruct (Rle_lt_dec u (l0 - d)) as [H | H]; [exact H | exfalso].
        pose proof (Hub u Hu) as Hle. destruct Hu as [_ Hn]. apply Hn. rewrite PC_F. apply Hpos.
        rewrite Rabs_left1 by lra. lra. }
      pose proof (Hlub _ Hup). lra. }
    assert (L1' : l0 < 1) by (destruct L1 as [H | H]; [exact H | exfalso; apply NP; rewrite H; exact P1]).
    (* proper crossing after l0 *)
    assert (After : forall l, l0 < l <= 1 -> PC l).
    { intros l Hl. destruct (PC_dec l) as [H | H]; [exact H | exfalso].
      assert (Hu : U l) by (split; [lra | exact H]). pose proof (Hub l Hu). lra. }
    (* closed consequences at l0 *)
    assert (G1 : 0 <= F1 l0) by (apply (right_limit_ge F1 l0 cF1 L1'); intros l Hl; apply After in Hl; rewrite PC_F in Hl; lra).
    assert (G2 : 0 <= F2 l0) by (apply (right_limit_ge F2 l0 cF2 L1'); intros l Hl; apply After in Hl; rewrite PC_F in Hl; lra).
    assert (G3 : 0 <= F3 l0) by (apply (right_limit_ge F3 l0 cF3 L1'); intros l Hl; apply After in Hl; rewrite PC_F in Hl; lra).
    assert (G4 : 0 <= F4 l0) by (apply (right_limit_ge F4 l0 cF4 L1'); intros l Hl; apply After in Hl; rewrite PC_F in Hl; lra).
    exists l0. split; [lra |].
    destruct (Req_dec (det l0) 0) as [Z | N].
    - (* parallel at l0 *)
      assert (H1 : 0 <= S1 l0).
      { apply (right_limit_ge S1 l0 cS1 L1'). intros l Hl. apply After in Hl. destruct (crossing_squeeze _ _ _ _ _ _ _ _ Hl) as [Q1 _].
        unfold S1, det, n1. lra. }
      assert (H2 : 0 <= S2 l0).
      { apply (right_limit_ge S2 l0 cS2 L1'). intros l Hl. apply After in Hl. destruct (crossing_squeeze _ _ _ _ _ _ _ _ Hl) as [_ Q2].
        unfold S2, det, n2. lra. }
      unfold S1 in H1. unfold S2 in H2. rewrite Z in H1, H2.
      assert (Z1 : n1 l0 = 0).
      { apply Rsqr_0_uniq. unfold Rsqr. pose proof (Rle_0_sqr (n1 l0)) as Hs. unfold Rsqr in Hs. lra. }
      assert (Z2 : n2 l0 = 0).
      { apply Rsqr_0_uniq. unfold Rsqr. pose proof (Rle_0_sqr (n2 l0)) as Hs. unfold Rsqr in Hs. lra. }
      apply parallel_incid; [exact Z | exact Z1 | exact Z2 |].
      fold (QA l0) (QB l0) (QC l0) (QD l0).
      destruct (Rle_lt_dec (QA l0) 0) as [|HA]; [auto |]. destruct (Rle_lt_dec (QB l0) 0) as [|HB']; [auto |].
      destruct (Rle_lt_dec (QC l0) 0) as [|HC]; [auto |]. destruct (Rle_lt_dec (QD l0) 0) as [|HD]; [auto |]. exfalso.
      destruct (four_pos QA QB QC QD l0 cQA cQB cQC cQD HA HB' HC HD) as [d [Hd Hpos]].
      set (e := Rmin (d / 2) ((1 - l0) / 2)).
      assert (He : 0 < e) by (apply Rmin_glb_lt; lra).
      assert (He1 : e <= d / 2) by apply Rmin_l. assert (He2 : e <= (1 - l0) / 2) by apply Rmin_r.
      assert (Hl : l0 < l0 + e <= 1) by lra.
      pose proof (After _ Hl) as Pc. apply crossing_has_obtuse in Pc.
      assert (Ha : Rabs (l0 + e - l0) < d) by (replace (l0 + e - l0) with e by ring; rewrite Rabs_right; lra).
      destruct (Hpos _ Ha) as [A1 [A2 [A3 A4]]]. unfold QA, QB, QC, QD in *. lra.
    - (* not parallel: the crossing parameters at l0 are in [0,1] and one of them is 0 or 1 *)
      apply boundary_incid; try assumption.
      fold (n1 l0) (n2 l0) (det l0). fold (F1 l0) (F2 l0) (F3 l0) (F4 l0).
      destruct (Rle_lt_dec (F1 l0) 0) as [|K1]; [auto |]. destruct (Rle_lt_dec (F2 l0) 0) as [|K2]; [auto |].
      destruct (Rle_lt_dec (F3 l0) 0) as [|K3]; [auto |]. destruct (Rle_lt_dec (F4 l0) 0) as [|K4]; [auto |].
      exfalso. apply NP. rewrite PC_F. auto.
  Qed.
End Moving.

Print Assumptions first_contact.
