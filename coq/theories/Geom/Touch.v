(** * Closed segments sharing a point: an exact integer test that never misses a common point,
      and the test for two consecutive edges sharing more than their common vertex. *)
From Coq Require Import ZArith QArith Lqa Lia List Bool.
From Texel Require Import Prelude.Base Index.ProofsQ Index.ProofsLine Geom.Cross.
Import ListNotations.
Open Scope Z_scope.

(** the closed segments ab and cd have a common point *)
Definition SegsShare (a b c d : pt) : Prop :=
  exists s t : Q, (0 <= s /\ s <= 1 /\ 0 <= t /\ t <= 1 /\
    co (fst a) (fst b) s == co (fst c) (fst d) t /\ co (snd a) (snd b) s == co (snd c) (snd d) t)%Q.

Definition notsame_b (x y : Z) : bool := Z.sgn x * Z.sgn y <=? 0.

Definition bbox_overlap_b (a b c d : pt) : bool :=
  (Z.min (fst a) (fst b) <=? Z.max (fst c) (fst d)) && (Z.min (fst c) (fst d) <=? Z.max (fst a) (fst b)) &&
  (Z.min (snd a) (snd b) <=? Z.max (snd c) (snd d)) && (Z.min (snd c) (snd d) <=? Z.max (snd a) (snd b)).

(** bounding boxes overlap and each segment straddles (or touches) the line through the other *)
Definition segs_touch_b (a b c d : pt) : bool :=
  bbox_overlap_b a b c d &&
  notsame_b (orient3 a b c) (orient3 a b d) && notsame_b (orient3 c d a) (orient3 c d b).

Lemma SegsShare_sym a b c d : SegsShare a b c d -> SegsShare c d a b.
Proof.
  intros [s [t [S0 [S1 [T0 [T1 [Hx Hy]]]]]]]. exists t, s. repeat split; try assumption; symmetry; assumption.
Qed.

Open Scope Q_scope.

Lemma co_between from to s : 0 <= s -> s <= 1 ->
  inject_Z (Z.min from to) <= co from to s /\ co from to s <= inject_Z (Z.max from to).
Proof.
  intros S0 S1. unfold co.
  destruct (Z.le_ge_cases from to) as [H | H].
  - rewrite Z.min_l, Z.max_r by exact H. rewrite Zle_Qle in H.
    pose proof (mul_nn s (inject_Z to - inject_Z from) S0 ltac:(lra)).
    pose proof (mul_nn (1 - s) (inject_Z to - inject_Z from) ltac:(lra) ltac:(lra)). split; lra.
  - rewrite Z.min_r, Z.max_l by lia. rewrite Zle_Qle in H.
    pose proof (mul_nn s (inject_Z from - inject_Z to) S0 ltac:(lra)).
    pose proof (mul_nn (1 - s) (inject_Z from - inject_Z to) ltac:(lra) ltac:(lra)). split; lra.
Qed.

(** a common point is a convex combination of c and d lying on the line ab *)
Lemma straddle_q (a1 a2 b1 b2 c1 c2 d1 d2 s t : Q) :
  a1 + s * (b1 - a1) == c1 + t * (d1 - c1) -> a2 + s * (b2 - a2) == c2 + t * (d2 - c2) ->
  (1 - t) * qorient a1 a2 b1 b2 c1 c2 + t * qorient a1 a2 b1 b2 d1 d2 == 0.
Proof.
  intros Hx Hy.
  assert (Ex : c1 + t * (d1 - c1) - a1 == s * (b1 - a1)) by lra.
  assert (Ey : c2 + t * (d2 - c2) - a2 == s * (b2 - a2)) by lra.
  transitivity ((b1 - a1) * (c2 + t * (d2 - c2) - a2) - (b2 - a2) * (c1 + t * (d1 - c1) - a1)).
  - unfold qorient. ring.
  - rewrite Ex, Ey. ring.
Qed.

Lemma convex_not_same_sign (t x y : Q) : 0 <= t -> t <= 1 -> (1 - t) * x + t * y == 0 ->
  ~ (0 < x /\ 0 < y) /\ ~ (x < 0 /\ y < 0).
Proof.
  intros T0 T1 E. split; intros [Hx Hy].
  - destruct (Qlt_le_dec x y) as [L | G].
    + pose proof (mul_nn t (y - x) T0 ltac:(lra)). lra.
    + pose proof (mul_nn (1 - t) (x - y) ltac:(lra) ltac:(lra)). lra.
  - destruct (Qlt_le_dec x y) as [L | G].
    + pose proof (mul_nn (1 - t) (y - x) ltac:(lra) ltac:(lra)). lra.
    + pose proof (mul_nn t (x - y) T0 ltac:(lra)). lra.
Qed.

Open Scope Z_scope.

Lemma notsame_b_spec x y : notsame_b x y = true <-> ~ (0 < x /\ 0 < y) /\ ~ (x < 0 /\ y < 0).
Proof.
  unfold notsame_b. rewrite Z.leb_le.
  destruct (Z.sgn_spec x) as [[Hx Ex] | [[Hx Ex] | [Hx Ex]]],
           (Z.sgn_spec y) as [[Hy Ey] | [[Hy Ey] | [Hy Ey]]]; rewrite Ex, Ey; cbn; split; intro H; lia.
Qed.

Lemma share_notsame a b c d : SegsShare a b c d -> notsame_b (orient3 a b c) (orient3 a b d) = true.
Proof.
  intros [s [t [S0 [S1 [T0 [T1 [Hx Hy]]]]]]]. apply notsame_b_spec.
  pose proof (straddle_q _ _ _ _ _ _ _ _ s t Hx Hy) as E. rewrite <- !inject_orient3 in E.
  destruct (convex_not_same_sign t _ _ T0 T1 E) as [N1 N2].
  change 0%Q with (inject_Z 0) in N1, N2. rewrite <- !Zlt_Qlt in N1, N2. split; assumption.
Qed.

(** the test never misses a common point *)
Theorem segs_share_touch a b c d : SegsShare a b c d -> segs_touch_b a b c d = true.
Proof.
  intro H. unfold segs_touch_b. rewrite (share_notsame a b c d H), (share_notsame c d a b (SegsShare_sym _ _ _ _ H)).
  rewrite !andb_true_r. destruct H as [s [t [S0 [S1 [T0 [T1 [Hx Hy]]]]]]].
  destruct (co_between (fst a) (fst b) s S0 S1) as [X1 X2]. destruct (co_between (fst c) (fst d) t T0 T1) as [X3 X4].
  destruct (co_between (snd a) (snd b) s S0 S1) as [Y1 Y2]. destruct (co_between (snd c) (snd d) t T0 T1) as [Y3 Y4].
  unfold bbox_overlap_b. rewrite !andb_true_iff, !Z.leb_le, !Zle_Qle. repeat split; lra.
Qed.

Corollary no_touch_no_share a b c d : segs_touch_b a b c d = false -> ~ SegsShare a b c d.
Proof. intros E H. apply segs_share_touch in H. congruence. Qed.

(** ** consecutive edges ab, bc *)
Definition dot3 (b a c : pt) : Z :=
  (fst a - fst b) * (fst c - fst b) + (snd a - snd b) * (snd c - snd b).

(** both edges have positive length and bc does not fold back onto ab *)
Definition adj_ok_b (a b c : pt) : bool :=
  negb (pt_eqb a b) && negb (pt_eqb b c) && negb ((orient3 a b c =? 0) && (0 <? dot3 b a c)).

(** the two closed edges have only the vertex b in common *)
Definition OnlyShareVertex (a b c : pt) : Prop :=
  forall s t : Q, (0 <= s -> s <= 1 -> 0 <= t -> t <= 1 ->
    co (fst a) (fst b) s == co (fst b) (fst c) t -> co (snd a) (snd b) s == co (snd b) (snd c) t ->
    s == 1 /\ t == 0)%Q.

Open Scope Q_scope.

Lemma sq_nonneg (x : Q) : 0 <= x * x.
Proof.
  destruct (Qlt_le_dec x 0) as [N | P]; [| apply mul_nn; assumption].
  setoid_replace (x * x) with ((- x) * (- x)) by ring. apply mul_nn; lra.
Qed.

Lemma sq_pos (x : Q) : ~ x == 0 -> 0 < x * x.
Proof.
  intro N. destruct (Qlt_le_dec x 0) as [L | G].
  - setoid_replace (x * x) with ((- x) * (- x)) by ring. apply mul_pos; lra.
  - destruct (Qlt_le_dec 0 x) as [L' | G']; [apply mul_pos; assumption | exfalso; apply N; lra].
Qed.

Lemma adj_core (u1 u2 v1 v2 s t : Q) :
  0 <= s -> s <= 1 -> 0 <= t -> t <= 1 ->
  (s - 1) * u1 == t * v1 -> (s - 1) * u2 == t * v2 ->
  ~ (u1 == 0 /\ u2 == 0) -> ~ (v1 == 0 /\ v2 == 0) ->
  (~ u1 * v2 - u2 * v1 == 0 \/ 0 <= u1 * v1 + u2 * v2) ->
  s == 1 /\ t == 0.
Proof.
  intros S0 S1 T0 T1 Hx Hy Nu Nv C.
  assert (T : s == 1 -> t == 0).
  { intro Es. assert (E1 : t * v1 == 0) by (rewrite <- Hx, Es; ring). assert (E2 : t * v2 == 0) by (rewrite <- Hy, Es; ring).
    apply Qmult_integral in E1. apply Qmult_integral in E2. destruct E1 as [E1 | E1]; [exact E1 |].
    destruct E2 as [E2 | E2]; [exact E2 |]. exfalso. apply Nv. split; assumption. }
  assert (Sq : s == 1 \/ ~ s == 1) by (destruct (Qeq_dec s 1); auto).
  destruct Sq as [Es | Ns]; [split; [exact Es | apply T; exact Es] | exfalso].
  (* s < 1 *)
  assert (Ls : s - 1 < 0) by (destruct (Qlt_le_dec s 1); [lra | exfalso; apply Ns; lra]).
  assert (K : t * (u1 * v2 - u2 * v1) == 0).
  { transitivity (u1 * (t * v2) - u2 * (t * v1)); [ring |]. rewrite <- Hx, <- Hy. ring. }
  assert (N2 : (s - 1) * (u1 * u1 + u2 * u2) == t * (u1 * v1 + u2 * v2)).
  { transitivity (u1 * ((s - 1) * u1) + u2 * ((s - 1) * u2)); [ring |]. rewrite Hx, Hy. ring. }
  assert (Pu : 0 < u1 * u1 + u2 * u2).
  { pose proof (sq_nonneg u1) as A1. pose proof (sq_nonneg u2) as A2.
    destruct (Qeq_dec u1 0) as [Z1 | NZ1].
    - destruct (Qeq_dec u2 0) as [Z2 | NZ2]; [exfalso; apply Nu; split; assumption |].
      pose proof (sq_pos u2 NZ2). lra.
    - pose proof (sq_pos u1 NZ1). lra. }
  pose proof (mul_pos (1 - s) (u1 * u1 + u2 * u2) ltac:(lra) Pu) as Neg.
  destruct C as [C | C].
  - apply Qmult_integral in K. destruct K as [K | K]; [| contradiction].
    assert (E0 : t * (u1 * v1 + u2 * v2) == 0) by (rewrite K; ring). lra.
  - pose proof (mul_nn t (u1 * v1 + u2 * v2) T0 C). lra.
Qed.

Open Scope Z_scope.

Theorem adj_ok_sound a b c : adj_ok_b a b c = true -> OnlyShareVertex a b c.
Proof.
  unfold adj_ok_b. rewrite !andb_true_iff, !negb_true_iff. intros [[Nab Nbc] Nf] s t S0 S1 T0 T1 Hx Hy.
  set (u1 := (inject_Z (fst b) - inject_Z (fst a))%Q). set (u2 := (inject_Z (snd b) - inject_Z (snd a))%Q).
  set (v1 := (inject_Z (fst c) - inject_Z (fst b))%Q). set (v2 := (inject_Z (snd c) - inject_Z (snd b))%Q).
  unfold co in Hx, Hy. fold u1 v1 in Hx. fold u2 v2 in Hy.
  apply (adj_core u1 u2 v1 v2 s t S0 S1 T0 T1).
  - unfold u1 in *. lra.
  - unfold u2 in *. lra.
  - intros [E1 E2]. unfold u1, u2 in E1, E2.
    assert (F1 : (inject_Z (fst b) == inject_Z (fst a))%Q) by lra. assert (F2 : (inject_Z (snd b) == inject_Z (snd a))%Q) by lra.
    apply (proj1 (inject_Z_injective _ _)) in F1. apply (proj1 (inject_Z_injective _ _)) in F2. unfold pt_eqb in Nab. rewrite F1, F2, !Z.eqb_refl in Nab. discriminate.
  - intros [E1 E2]. unfold v1, v2 in E1, E2.
    assert (F1 : (inject_Z (fst c) == inject_Z (fst b))%Q) by lra. assert (F2 : (inject_Z (snd c) == inject_Z (snd b))%Q) by lra.
    apply (proj1 (inject_Z_injective _ _)) in F1. apply (proj1 (inject_Z_injective _ _)) in F2. unfold pt_eqb in Nbc. rewrite F1, F2, !Z.eqb_refl in Nbc. discriminate.
  - (* orient3 a b c = u x v ; dot3 b a c = - u . v *)
    assert (EO : (inject_Z (orient3 a b c) == u1 * v2 - u2 * v1)%Q).
    { rewrite inject_orient3. unfold qorient, u1, u2, v1, v2. ring. }
    assert (ED : (inject_Z (dot3 b a c) == - (u1 * v1 + u2 * v2))%Q).
    { unfold dot3. rewrite inject_Z_plus, !inject_Z_mult, !inject_Z_minus. unfold u1, u2, v1, v2. ring. }
    apply andb_false_iff in Nf as [Nf | Nf].
    + left. rewrite <- EO. apply Z.eqb_neq in Nf. intro E. apply Nf.
      change 0%Q with (inject_Z 0) in E. apply (proj1 (inject_Z_injective _ _)) in E. exact E.
    + right. apply Z.ltb_ge in Nf. rewrite Zle_Qle in Nf. rewrite ED in Nf. change (inject_Z 0) with 0%Q in Nf. lra.
Qed.

(** ** the parametric meaning of a proper crossing, both directions *)
Definition cross2 (a b c d : pt) : Z :=
  (fst b - fst a) * (snd d - snd c) - (snd b - snd a) * (fst d - fst c).

Lemma cross2_orient a b c d :
  orient3 a b c - orient3 a b d = - cross2 a b c d /\ orient3 c d a - orient3 c d b = cross2 a b c d.
Proof. unfold orient3, cross2. split; ring. Qed.

Open Scope Q_scope.

Lemma opposite_of_convex (t x y : Q) : 0 < t -> t < 1 -> (1 - t) * x + t * y == 0 -> ~ x == y ->
  (0 < x /\ y < 0) \/ (x < 0 /\ 0 < y).
Proof.
  intros T0 T1 E N. destruct (Qlt_le_dec y x) as [L | G].
  - left. pose proof (mul_pos t (x - y) T0 ltac:(lra)). pose proof (mul_pos (1 - t) (x - y) ltac:(lra) ltac:(lra)).
    split; lra.
  - assert (L : x < y) by (destruct (Qlt_le_dec x y); [assumption | exfalso; apply N; lra]).
    right. pose proof (mul_pos t (y - x) T0 ltac:(lra)). pose proof (mul_pos (1 - t) (y - x) ltac:(lra) ltac:(lra)).
    split; lra.
Qed.

Open Scope Z_scope.

Lemma open_share_opposite a b c d (s t : Q) : cross2 a b c d <> 0 -> (0 < t)%Q -> (t < 1)%Q ->
  (co (fst a) (fst b) s == co (fst c) (fst d) t)%Q -> (co (snd a) (snd b) s == co (snd c) (snd d) t)%Q ->
  opposite (orient3 a b c) (orient3 a b d).
Proof.
  intros ND T0 T1 Hx Hy. pose proof (straddle_q _ _ _ _ _ _ _ _ s t Hx Hy) as E. rewrite <- !inject_orient3 in E.
  destruct (cross2_orient a b c d) as [E12 _].
  assert (N : ~ (inject_Z (orient3 a b c) == inject_Z (orient3 a b d))%Q).
  { intro Q. apply (proj1 (inject_Z_injective _ _)) in Q. lia. }
  destruct (opposite_of_convex t _ _ T0 T1 E N) as [[A B] | [A B]]; unfold opposite;
    change 0%Q with (inject_Z 0) in A, B; rewrite <- Zlt_Qlt in A, B; auto.
Qed.

Theorem proper_cross_iff_param a b c d :
  proper_cross a b c d <->
  cross2 a b c d <> 0 /\
  exists s t : Q, (0 < s /\ s < 1 /\ 0 < t /\ t < 1 /\
    co (fst a) (fst b) s == co (fst c) (fst d) t /\ co (snd a) (snd b) s == co (snd c) (snd d) t)%Q.
Proof.
  split.
  - intro H. split; [| apply proper_cross_param; exact H].
    destruct H as [_ H34]. destruct (cross2_orient a b c d) as [_ E34]. unfold opposite in H34. lia.
  - intros [ND [s [t [S0 [S1 [T0 [T1 [Hx Hy]]]]]]]]. split.
    + exact (open_share_opposite a b c d s t ND T0 T1 Hx Hy).
    + apply (open_share_opposite c d a b t s); try assumption; try (symmetry; assumption).
      destruct (cross2_orient a b c d) as [_ E1]. destruct (cross2_orient c d a b) as [E2 _]. lia.
Qed.
