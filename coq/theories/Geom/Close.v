(** * Convexity of squares, closeness of interpolated points, and the sweep lemma (pure Q arithmetic).

    Recipe throughout: pose the products that matter with [mul_nn] / [mul_pos], then [lra]. *)
From Coq Require Import QArith Lqa.
From Texel Require Import Index.ProofsQ.
Open Scope Q_scope.

Lemma convex_closed (h u v mu : Q) :
  - h <= u -> u <= h -> - h <= v -> v <= h -> 0 <= mu -> mu <= 1 ->
  - h <= (1 - mu) * u + mu * v /\ (1 - mu) * u + mu * v <= h.
Proof.
  intros Hu1 Hu2 Hv1 Hv2 Hm0 Hm1.
  pose proof (mul_nn (1 - mu) (u + h) ltac:(lra) ltac:(lra)).
  pose proof (mul_nn mu (v + h) ltac:(lra) ltac:(lra)).
  pose proof (mul_nn (1 - mu) (h - u) ltac:(lra) ltac:(lra)).
  pose proof (mul_nn mu (h - v) ltac:(lra) ltac:(lra)).
  split; lra.
Qed.

Lemma convex_half_open (h u v mu : Q) :
  - h <= u -> u < h -> - h <= v -> v < h -> 0 <= mu -> mu <= 1 ->
  - h <= (1 - mu) * u + mu * v /\ (1 - mu) * u + mu * v < h.
Proof.
  intros Hu1 Hu2 Hv1 Hv2 Hm0 Hm1.
  pose proof (mul_nn (1 - mu) (u + h) ltac:(lra) ltac:(lra)).
  pose proof (mul_nn mu (v + h) ltac:(lra) ltac:(lra)).
  pose proof (mul_nn (1 - mu) (h - u) ltac:(lra) ltac:(lra)).
  pose proof (mul_nn mu (h - v) ltac:(lra) ltac:(lra)).
  split; [lra |].
  destruct (Qlt_le_dec mu 1) as [Hlt | Hge].
  - pose proof (mul_pos (1 - mu) (h - u) ltac:(lra) ltac:(lra)). lra.
  - pose proof (mul_pos mu (h - v) ltac:(lra) ltac:(lra)). lra.
Qed.

(** a convex combination of parameters in [0,1] is a parameter in [0,1] *)
Lemma convex_param (t1 t2 lam : Q) : 0 <= t1 -> t1 <= 1 -> 0 <= t2 -> t2 <= 1 -> 0 <= lam -> lam <= 1 ->
  0 <= (1 - lam) * t1 + lam * t2 /\ (1 - lam) * t1 + lam * t2 <= 1.
Proof.
  intros A1 A2 B1 B2 L0 L1.
  pose proof (mul_nn (1 - lam) t1 ltac:(lra) A1). pose proof (mul_nn lam t2 L0 B1).
  pose proof (mul_nn (1 - lam) (1 - t1) ltac:(lra) ltac:(lra)). pose proof (mul_nn lam (1 - t2) L0 ltac:(lra)).
  split; lra.
Qed.

(** ** closeness, one axis.  The segment is A + t D; c1 is within H of its point t1, c2 of its point t2;
    then the point lam between c1 and c2 is within H of the segment point with the interpolated parameter *)
Lemma close_axis (A D t1 t2 c1 c2 H lam : Q) : 0 <= lam -> lam <= 1 ->
  - H <= c1 - (A + t1 * D) -> c1 - (A + t1 * D) <= H ->
  - H <= c2 - (A + t2 * D) -> c2 - (A + t2 * D) <= H ->
  - H <= ((1 - lam) * c1 + lam * c2) - (A + ((1 - lam) * t1 + lam * t2) * D) /\
  ((1 - lam) * c1 + lam * c2) - (A + ((1 - lam) * t1 + lam * t2) * D) <= H.
Proof.
  intros L0 L1 U1 U2 V1 V2.
  destruct (convex_closed H (c1 - (A + t1 * D)) (c2 - (A + t2 * D)) lam U1 U2 V1 V2 L0 L1) as [C1 C2].
  assert (E : ((1 - lam) * c1 + lam * c2) - (A + ((1 - lam) * t1 + lam * t2) * D)
              == (1 - lam) * (c1 - (A + t1 * D)) + lam * (c2 - (A + t2 * D))) by ring.
  rewrite E. split; assumption.
Qed.

(** ** the sweep lemma, one axis.

    D is a hot pixel with centre d and half-size h, v a point of D; a' lies in the pixel of centre c1,
    b' in the pixel of centre c2 (a', b' are points of the source segment; c1 -> c2 is the routed edge).
    At "time" lam every point moves from where it is (lam = 0) towards the centre of its pixel (lam = 1).
    If at time lam the moving point of v lies on the moving edge, at parameter mu, then the point of the
    source segment with the same parameter mu between a' and b' lies in D. *)
Lemma sweep_axis (h lam mu a' b' c1 c2 v d : Q) :
  0 <= lam -> lam <= 1 -> 0 <= mu -> mu <= 1 ->
  - h <= a' - c1 -> a' - c1 < h -> - h <= b' - c2 -> b' - c2 < h -> - h <= v - d -> v - d < h ->
  (1 - lam) * v + lam * d == (1 - mu) * ((1 - lam) * a' + lam * c1) + mu * ((1 - lam) * b' + lam * c2) ->
  - h <= ((1 - mu) * a' + mu * b') - d /\ ((1 - mu) * a' + mu * b') - d < h.
Proof.
  intros L0 L1 M0 M1 A1 A2 B1 B2 V1 V2 E.
  (* e = w - c_mu is in [-h, h) by convexity in mu; w - d = (1 - lam)(v - d) + lam e by the hypothesis *)
  destruct (convex_half_open h (a' - c1) (b' - c2) mu A1 A2 B1 B2 M0 M1) as [E1 E2].
  set (e := (1 - mu) * (a' - c1) + mu * (b' - c2)) in *.
  destruct (convex_half_open h (v - d) e lam V1 V2 E1 E2 L0 L1) as [X1 X2].
  assert (W : ((1 - mu) * a' + mu * b') - d == (1 - lam) * (v - d) + lam * e).
  { unfold e.
    assert (E' : (1 - lam) * v == (1 - mu) * ((1 - lam) * a' + lam * c1) + mu * ((1 - lam) * b' + lam * c2) - lam * d) by lra.
    transitivity ((1 - mu) * a' + mu * b' - d + ((1 - lam) * v - ((1 - mu) * ((1 - lam) * a' + lam * c1) + mu * ((1 - lam) * b' + lam * c2) - lam * d))).
    - rewrite E'. ring.
    - ring. }
  rewrite W. split; assumption.
Qed.

(** two axes: points are pairs of rationals, [InSq h c p]: p in the half-open square of centre c, half-size h *)
Definition InSq (h : Q) (c p : Q * Q) : Prop :=
  - h <= fst p - fst c /\ fst p - fst c < h /\ - h <= snd p - snd c /\ snd p - snd c < h.

Definition mix (mu : Q) (p q : Q * Q) : Q * Q := ((1 - mu) * fst p + mu * fst q, (1 - mu) * snd p + mu * snd q).
Definition peq (p q : Q * Q) : Prop := fst p == fst q /\ snd p == snd q.

Theorem sweep_lemma (h lam mu : Q) (a' b' c1 c2 v d : Q * Q) :
  0 <= lam -> lam <= 1 -> 0 <= mu -> mu <= 1 ->
  InSq h c1 a' -> InSq h c2 b' -> InSq h d v ->
  peq (mix lam v d) (mix mu (mix lam a' c1) (mix lam b' c2)) ->
  InSq h d (mix mu a' b').
Proof.
  intros L0 L1 M0 M1 [A1 [A2 [A3 A4]]] [B1 [B2 [B3 B4]]] [V1 [V2 [V3 V4]]] [Ex Ey].
  unfold mix in *. cbn [fst snd] in *.
  destruct (sweep_axis h lam mu (fst a') (fst b') (fst c1) (fst c2) (fst v) (fst d) L0 L1 M0 M1 A1 A2 B1 B2 V1 V2 Ex) as [X1 X2].
  destruct (sweep_axis h lam mu (snd a') (snd b') (snd c1) (snd c2) (snd v) (snd d) L0 L1 M0 M1 A3 A4 B3 B4 V3 V4 Ey) as [Y1 Y2].
  unfold InSq. cbn [fst snd]. repeat split; assumption.
Qed.
