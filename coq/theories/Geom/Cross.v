(** * Exact orientation and crossing tests on integer points (C01 oracles, pure geometry).

    [orient3 a b c] is twice the signed area of the triangle a b c (positive = counter-clockwise).
    (Named [orient3] because Snap.Model already has [orient] for the winding sign of a ring.)
    [proper_cross a b c d]: the open segments ab and cd cross in one interior point -- the end points
    of each lie strictly on opposite sides of the line through the other.  Touching and collinear
    overlap are NOT proper crossings. *)
From Coq Require Import ZArith QArith Lqa Lia List Bool.
From Texel Require Import Prelude.Base Index.ProofsQ Index.ProofsLine.
Import ListNotations.
Open Scope Z_scope.

Definition orient3 (a b c : pt) : Z :=
  (fst b - fst a) * (snd c - snd a) - (snd b - snd a) * (fst c - fst a).

Definition opposite (x y : Z) : Prop := (0 < x /\ y < 0) \/ (x < 0 /\ 0 < y).

Definition proper_cross (a b c d : pt) : Prop :=
  opposite (orient3 a b c) (orient3 a b d) /\ opposite (orient3 c d a) (orient3 c d b).

Definition opposite_b (x y : Z) : bool := Z.sgn x * Z.sgn y =? -1.

Definition cross_b (a b c d : pt) : bool :=
  opposite_b (orient3 a b c) (orient3 a b d) && opposite_b (orient3 c d a) (orient3 c d b).

Lemma opposite_b_spec x y : opposite_b x y = true <-> opposite x y.
Proof.
  unfold opposite_b, opposite. rewrite Z.eqb_eq.
  destruct (Z.sgn_spec x) as [[Hx Ex] | [[Hx Ex] | [Hx Ex]]],
           (Z.sgn_spec y) as [[Hy Ey] | [[Hy Ey] | [Hy Ey]]]; rewrite Ex, Ey; cbn; split; intro H; lia.
Qed.

Theorem cross_b_spec a b c d : cross_b a b c d = true <-> proper_cross a b c d.
Proof. unfold cross_b, proper_cross. rewrite andb_true_iff, !opposite_b_spec. tauto. Qed.

(** symmetries *)
Lemma orient3_swap a b c : orient3 b a c = - orient3 a b c.
Proof. unfold orient3. ring. Qed.

Lemma proper_cross_sym a b c d : proper_cross a b c d <-> proper_cross c d a b.
Proof. unfold proper_cross. tauto. Qed.

Lemma proper_cross_flip a b c d : proper_cross a b c d <-> proper_cross b a c d.
Proof.
  unfold proper_cross, opposite. rewrite !(orient3_swap b a).
  assert (E : forall p, orient3 c d p = orient3 c d p) by reflexivity. lia.
Qed.

(** ** the parametric meaning, over Q *)
Open Scope Q_scope.

(** the same cross product on rationals *)
Definition qorient (a1 a2 b1 b2 c1 c2 : Q) : Q := (b1 - a1) * (c2 - a2) - (b2 - a2) * (c1 - a1).

Lemma inject_orient3 a b c :
  inject_Z (orient3 a b c) =
  qorient (inject_Z (fst a)) (inject_Z (snd a)) (inject_Z (fst b)) (inject_Z (snd b))
          (inject_Z (fst c)) (inject_Z (snd c)).
Proof. unfold orient3, qorient. rewrite inject_Z_minus, !inject_Z_mult, !inject_Z_minus. reflexivity. Qed.

(** the intersection point of the two lines, by Cramer's rule *)
Lemma cross_point_q (a1 a2 b1 b2 c1 c2 d1 d2 : Q) :
  let o1 := qorient a1 a2 b1 b2 c1 c2 in let o2 := qorient a1 a2 b1 b2 d1 d2 in
  let o3 := qorient c1 c2 d1 d2 a1 a2 in let o4 := qorient c1 c2 d1 d2 b1 b2 in
  ~ o3 - o4 == 0 -> ~ o1 - o2 == 0 ->
  a1 + o3 / (o3 - o4) * (b1 - a1) == c1 + o1 / (o1 - o2) * (d1 - c1) /\
  a2 + o3 / (o3 - o4) * (b2 - a2) == c2 + o1 / (o1 - o2) * (d2 - c2).
Proof.
  intros o1 o2 o3 o4 H34 H12. unfold o1, o2, o3, o4, qorient in *. split; field; split; assumption.
Qed.

Lemma ratio_in_unit (p q : Q) : (0 < p /\ q < 0) \/ (p < 0 /\ 0 < q) -> 0 < p / (p - q) /\ p / (p - q) < 1.
Proof.
  intros [[Hp Hq] | [Hp Hq]].
  - split.
    + apply Qlt_shift_div_l; lra.
    + apply Qlt_shift_div_r; lra.
  - assert (E : p / (p - q) == (- p) / (q - p)) by (field; lra). rewrite E. split.
    + apply Qlt_shift_div_l; lra.
    + apply Qlt_shift_div_r; lra.
Qed.

Lemma opposite_q x y : opposite x y ->
  (0 < inject_Z x /\ inject_Z y < 0) \/ (inject_Z x < 0 /\ 0 < inject_Z y).
Proof.
  unfold opposite. change 0 with (inject_Z 0). rewrite <- !Zlt_Qlt. tauto.
Qed.

(** a proper crossing has a common point with parameters strictly inside both segments *)
Theorem proper_cross_param a b c d : proper_cross a b c d ->
  exists s t : Q, 0 < s /\ s < 1 /\ 0 < t /\ t < 1 /\
    co (fst a) (fst b) s == co (fst c) (fst d) t /\ co (snd a) (snd b) s == co (snd c) (snd d) t.
Proof.
  intros [H12 H34]. apply opposite_q in H12. apply opposite_q in H34.
  rewrite !inject_orient3 in H12, H34.
  set (a1 := inject_Z (fst a)) in *. set (a2 := inject_Z (snd a)) in *.
  set (b1 := inject_Z (fst b)) in *. set (b2 := inject_Z (snd b)) in *.
  set (c1 := inject_Z (fst c)) in *. set (c2 := inject_Z (snd c)) in *.
  set (d1 := inject_Z (fst d)) in *. set (d2 := inject_Z (snd d)) in *.
  set (o1 := qorient a1 a2 b1 b2 c1 c2) in *. set (o2 := qorient a1 a2 b1 b2 d1 d2) in *.
  set (o3 := qorient c1 c2 d1 d2 a1 a2) in *. set (o4 := qorient c1 c2 d1 d2 b1 b2) in *.
  destruct (ratio_in_unit o3 o4 H34) as [S0 S1]. destruct (ratio_in_unit o1 o2 H12) as [T0 T1].
  exists (o3 / (o3 - o4)), (o1 / (o1 - o2)).
  split; [exact S0 |]. split; [exact S1 |]. split; [exact T0 |]. split; [exact T1 |].
  unfold co. fold a1 a2 b1 b2 c1 c2 d1 d2.
  apply (cross_point_q a1 a2 b1 b2 c1 c2 d1 d2); fold o1 o2 o3 o4; lra.
Qed.

