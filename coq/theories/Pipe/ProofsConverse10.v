(** * Pipe/ProofsConverse10.v — converse source tie, part 10: a goroutine that is not at a blocking operation (send,
      receive, wg.Wait) and has not ended can always take a step on its own, with a data choice the model state allows. *)
From Coq Require Import ZArith List String Bool Lia Permutation.
From Texel Require Import Pipe.Model Pipe.ProofsBase Pipe.ProofsInv Pipe.ProofsLive Pipe.Skeleton Pipe.SkeletonSem Pipe.SkeletonSim
  Pipe.ProofsSkeleton Pipe.ConversePc Pipe.ConversePcSn Pipe.ProofsConversePc Pipe.ProofsConversePcSn Pipe.Converse Pipe.ConverseRank
  Pipe.ProofsConverse1 Pipe.ProofsConverse2 Pipe.ProofsConverse4 Pipe.ProofsConverse5 Pipe.ProofsConverse8.
Import ListNotations.
Open Scope string_scope.
Open Scope list_scope.

(** what the shared state must offer for the request of a local step to be granted *)
Definition q_ready (q : req) (chans : list bool) (wgs : list nat) : Prop :=
  match q with
  | QTau | QExit | QNewChan _ | QNewWg _ | QGo _ | QPanic _ => True
  | QWgAdd w _ | QWgDone w => nth_error wgs w <> None
  | QWgWait w => nth_error wgs w = Some 0%nat
  | QSend c | QRecv c _ _ => nth_error chans c = Some true
  | QClose c => nth_error chans c <> None
  end.

Lemma local_enabled : forall ts roles chans wgs t c ro q th',
  nth_error roles t = Some ro -> tstep P c (th_of ts ro) = Some (q, th') -> q_ready q chans wgs ->
  exists g1 ev, gstep P (MkG (map (th_of ts) roles) chans wgs None) (ALocal t c) = Some (g1, ev).
Proof.
  intros ts roles chans wgs t c ro q th' Hn Ht Hq. unfold gstep. cbn [g_panic g_threads g_chans g_wgs].
  rewrite (map_nth_error (th_of ts) _ _ Hn), Ht.
  destruct q; cbn [q_ready] in Hq; try rewrite Hq; unfold gpanic; try (eexists _, _; reflexivity);
    match goal with |- context [nth_error ?l ?i] => destruct (nth_error l i) as [[|]|] end;
    try congruence; eexists _, _; reflexivity.
Qed.

Lemma spec_some : forall {pc : Type} (th_of0 : pc -> thread) q k r n, spec th_of0 (Some (Out q k)) r n -> exists th', r = Some (q, th').
Proof. intros pc th_of0 q k r n H. destruct r as [[q' th']|]; cbn in H; [|contradiction]. destruct H as [-> _]. eauto. Qed.

(** at a blocking operation, or ended *)
Definition waitingb (ro : role) : bool :=
  match ro with
  | RoMain M9 | RoMain M11 => true
  | RoRouter (TRv _) | RoRouter (TG5 _ _) | RoRouter (TW _) | RoRouter RX4 => true
  | RoSnap SRv | RoSnap (IS _ _) | RoSnap SX => true
  | RoRead D2 | RoRead D8 => true
  | RoWriter _ _ _ _ WRv | RoWriter _ _ _ _ WF6 => true
  | _ => false
  end.

Definition ready (cfg : config) (s : state) (roles : list role) (chans : list bool) (wgs : list nat) (ro : role) : Prop :=
  exists c q th', tstep P c (th_of (c_targets cfg) ro) = Some (q, th') /\ choice_ok s (th_of (c_targets cfg) ro) c /\ q_ready q chans wgs.

Ltac go_ready c0 := exists c0; match goal with |- exists q th', ?T = _ /\ _ => idtac end.

(** ** Reader *)
Lemma ready_read : forall cfg roles chans wgs s t p,
  coh cfg roles chans wgs s -> nth_error roles t = Some (RoRead p) -> waitingb (RoRead p) = false ->
  ready cfg s roles chans wgs (RoRead p).
Proof.
  intros cfg roles chans wgs s t p Hcoh Hn Hw.
  destruct (coh_inv_late _ _ _ _ _ _ _ Hcoh Hn) as (pm & Hm & Hnd & He & Hmain & Hlate); [discriminate|].
  pose proof (lk_nth _ _ _ Hnd Hn) as Hlk. cbn [kind_of] in Hlk.
  assert (Hrel : rd_rel p (s_rd s)).
  { destruct Hlate as (wch & wrest & prt & _ & _ & _ & Hrd & _). unfold rd_clause in Hrd. rewrite Hlk in Hrd. tauto. }
  pose proof (late_chans _ _ _ _ _ _ Hlate) as Hchans.
  assert (Hgo : forall c q k, next_rd p c = Some (Out q k) -> choice_ok s (th_rd p) c -> q_ready q chans wgs ->
            ready cfg s roles chans wgs (RoRead p)).
  { intros c q k En Hc Hq. pose proof (rd_spec p c 0) as S. rewrite En in S. destruct (spec_some _ _ _ _ _ S) as [th' Et].
    exists c, q, th'. auto. }
  destruct p; try discriminate Hw.
  - apply (Hgo CNone _ _ eq_refl); exact I.
  - apply (Hgo CNone _ _ eq_refl); exact I.
  - destruct Hrel as [rest Hrest]. destruct rest as [|f r].
    + apply (Hgo (CIter None) _ _ eq_refl); [|exact I]. unfold choice_ok. cbn. now rewrite Hrest.
    + apply (Hgo (CIter (Some 0%Z)) _ _ eq_refl); [|exact I]. unfold choice_ok. cbn. rewrite Hrest. discriminate.
  - apply (Hgo CNone _ _ eq_refl); exact I.
  - apply (Hgo CNone _ _ eq_refl); [exact I|]. cbn. rewrite Hchans. discriminate.
  - apply (Hgo CNone _ _ eq_refl); exact I.
  - apply (Hgo CNone _ _ eq_refl); exact I.
  - apply (Hgo CNone _ _ eq_refl); exact I.
Qed.

(** ** Snapper *)

Lemma pure_dpoint : forall fr rest, pure_frame fr = true -> rest <> [] -> dpoint_of (fr :: rest) = DFree.
Proof.
  intros [e ds k] rest Hp Hr. unfold pure_frame in Hp. cbn [fr_defers fr_k fr_env] in Hp. destruct ds; [|discriminate].
  apply andb_prop in Hp. destruct Hp as [Hp _]. unfold dpoint_of. cbn [fr_k fr_env].
  destruct k as [|ss k|d k|body k|body k|kx vx body k|kx vx todo body k]; cbn [pure_kont] in Hp; try reflexivity; try discriminate.
  - destruct ss as [|s ss]; [reflexivity|]. cbn [forallb] in Hp. apply andb_prop in Hp. destruct Hp as [Hp _].
    apply andb_prop in Hp. destruct Hp as [Hs _]. destruct s; cbn [pure_stmt] in Hs; try discriminate; try reflexivity.
    apply andb_prop in Hs. destruct Hs as [Hs _]. apply andb_prop in Hs. destruct Hs as [Hc _].
    destruct (String.eqb cond "len(newPolygons) == 0"); [discriminate | reflexivity].
  - apply andb_prop in Hp. destruct Hp as [Hp _]. apply andb_prop in Hp. destruct Hp as [Hp _].
    apply andb_prop in Hp. destruct Hp as [_ Hv]. destruct (String.eqb vx "feature"); [discriminate|].
    destruct rest; [congruence | reflexivity].
Qed.

Lemma ready_snap : forall cfg roles chans wgs s t p,
  coh cfg roles chans wgs s -> nth_error roles t = Some (RoSnap p) -> waitingb (RoSnap p) = false ->
  ready cfg s roles chans wgs (RoSnap p).
Proof.
  intros cfg roles chans wgs s t p Hcoh Hn Hw.
  destruct (coh_inv_late _ _ _ _ _ _ _ Hcoh Hn) as (pm & Hm & Hnd & He & Hmain & Hlate); [discriminate|].
  pose proof (lk_nth _ _ _ Hnd Hn) as Hlk. cbn [kind_of] in Hlk.
  assert (Hrel : sn_ok p /\ sn_rel p (s_sn s)).
  { destruct Hlate as (wch & wrest & prt & _ & _ & Hsn & _). unfold sn_clause in Hsn. rewrite Hlk in Hsn. tauto. }
  destruct Hrel as [Hok Hrel].
  pose proof (late_chans _ _ _ _ _ _ Hlate) as Hchans.
  assert (Hgo : forall c q k, next_sn p c = Some (Out q k) -> choice_ok s (th_sn p) c -> q_ready q chans wgs ->
            ready cfg s roles chans wgs (RoSnap p)).
  { intros c q k En Hc Hq. pose proof (sn_spec p c 0 Hok) as S. rewrite En in S. destruct (spec_some _ _ _ _ _ S) as [th' Et].
    exists c, q, th'. auto. }
  destruct p; try discriminate Hw;
    try (apply (Hgo CNone _ _ eq_refl); exact I; fail);
    try (apply (Hgo (CBool true) _ _ eq_refl); exact I; fail).
  - (* SG *) destruct b; apply (Hgo CNone _ _ eq_refl); exact I.
  - (* SC0 *) apply (Hgo CNone _ _ eq_refl); [exact I|]. cbn. rewrite Hchans. discriminate.
  - (* SP2 *) cbn in Hrel. destruct Hrel as [f Hf].
    assert (Hc : choice_ok s (th_sn SP2) (CCase (kind_case (f_kind f)))) by (unfold choice_ok; cbn; now rewrite Hf).
    destruct (f_kind f); [apply (Hgo (CCase 0) _ _ eq_refl) | apply (Hgo (CCase 1) _ _ eq_refl) | apply (Hgo (CCase 2) _ _ eq_refl)];
      solve [exact Hc | exact I].
  - (* SHd *) cbn in Hok. cbn in Hrel. destruct Hrel as (id & ord & pending & Hx & _).
    assert (Hd : dpoint_of (th_sn (SHd j)) = DSnapHead) by (destruct j as [|[|[|j]]]; [reflexivity | reflexivity | reflexivity | lia]).
    destruct pending as [|[k0 og] r].
    + assert (Hc : choice_ok s (th_sn (SHd j)) (CIter None)) by (unfold choice_ok; now rewrite Hd, Hx).
      destruct j as [|[|[|j]]]; [| | |lia]; apply (Hgo (CIter None) _ _ eq_refl); solve [exact Hc | exact I].
    + assert (Hc : choice_ok s (th_sn (SHd j)) (CIter (Some k0))).
      { unfold choice_ok. rewrite Hd, Hx. rewrite take_pend_head. discriminate. }
      destruct j as [|[|[|j]]]; [| | |lia]; apply (Hgo (CIter (Some k0)) _ _ eq_refl); solve [exact Hc | exact I].
  - (* I0b *) cbn in Hrel. destruct Hrel as (id & pending & og & r & Hx & Etp & _).
    assert (Hc : choice_ok s (th_sn (I0b z)) (CBool (is_none og))).
    { unfold choice_ok. change (dpoint_of (th_sn (I0b z))) with (DIfEmpty (VKey z)). cbv beta iota. now rewrite Hx, Etp. }
    destruct og; cbn [is_none] in Hc; [apply (Hgo (CBool false) _ _ eq_refl) | apply (Hgo (CBool true) _ _ eq_refl)];
      solve [exact Hc | exact I].
  - (* IX *) cbn in Hok. destruct j as [|[|[|j]]]; [| | |lia]; apply (Hgo CNone _ _ eq_refl); exact I.
  - (* SPure *) cbn in Hok. destruct Hok as [Hne Hpure]. destruct fs as [|fr fs']; [congruence|].
    cbn [forallb] in Hpure. apply andb_prop in Hpure. destruct Hpure as [Hfr _].
    destruct (pure_can_step fr Hfr) as (c & q1 & new & Et1).
    apply (Hgo c QTau (K (mkpure (new ++ fs') b))); [cbn [next_sn]; now rewrite Et1 | | exact I].
    unfold choice_ok. cbn [th_sn app]. rewrite pure_dpoint; [exact I | exact Hfr|].
    destruct fs'; cbn [app]; [apply th_base_nonempty | discriminate].
Qed.

(** ** Writers *)

Lemma ready_writer : forall cfg roles chans wgs s t chm z v n pc,
  coh cfg roles chans wgs s -> nth_error roles t = Some (RoWriter chm z v n pc) -> waitingb (RoWriter chm z v n pc) = false ->
  ready cfg s roles chans wgs (RoWriter chm z v n pc).
Proof.
  intros cfg roles chans wgs s t chm z v n pc Hcoh Hn Hw.
  destruct (coh_inv_late _ _ _ _ _ _ _ Hcoh Hn) as (pm & Hm & Hnd & He & Hmain & Hlate); [discriminate|].
  destruct Hlate as (wch & wrest & prt & Hch & Hwg & Hsn & Hrd & Hrt & (done & Hcore & Hview)).
  destruct (writer_ident _ _ _ _ _ _ _ _ _ _ _ Hnd Hn Hview) as (i & -> & Hsp & -> & Hphase).
  assert (Hgo : forall c q k, next_wr (2 + i) pc c = Some (Out q k) -> q_ready q chans wgs ->
            ready cfg s roles chans wgs (RoWriter chm z VAny (2 + i) pc)).
  { intros c q k En Hq. pose proof (wr_spec (c_targets cfg) chm z VAny (2 + i) pc c 0) as S. rewrite En in S.
    destruct (spec_some _ _ _ _ _ S) as [th' Et]. exists c, q, th'. split; [exact Et|]. split; [|exact Hq].
    unfold choice_ok. destruct pc; try destruct b; exact I. }
  destruct pc; try discriminate Hw; try (apply (Hgo CNone _ _ eq_refl); exact I; fail).
  - destruct b; apply (Hgo CNone _ _ eq_refl); exact I.
  - (* WF4 *) apply (Hgo CNone _ _ eq_refl). cbn.
    destruct (rt_spawning prt) eqn:Ep; [discriminate Hphase|].
    pose proof (rt_run_core _ _ _ _ _ _ _ _ Ep Hcore) as (_ & -> & _). subst wgs. discriminate.
Qed.

(** ** Main *)

Lemma ready_main : forall cfg roles chans wgs s t p,
  coh cfg roles chans wgs s -> nth_error roles t = Some (RoMain p) -> waitingb (RoMain p) = false ->
  ready cfg s roles chans wgs (RoMain p).
Proof.
  intros cfg roles chans wgs s t p Hcoh Hn Hw.
  destruct Hcoh as (pm & Hm & Hnd & Hph).
  pose proof (lk_nth _ _ _ Hnd Hn) as Hlk. cbn [kind_of] in Hlk. rewrite Hlk in Hm. inversion Hm; subst pm. clear Hm.
  assert (Hgo : forall c q k, next_main (c_targets cfg) p c = Some (Out q k) -> q_ready q chans wgs ->
            ready cfg s roles chans wgs (RoMain p)).
  { intros c q k En Hq. pose proof (main_spec (c_targets cfg) p c) as S. rewrite En in S.
    destruct (spec_some _ _ _ _ _ S) as [th' Et]. exists c, q, th'. split; [exact Et|]. split; [|exact Hq].
    unfold choice_ok. destruct p; exact I. }
  destruct p; try discriminate Hw; try (apply (Hgo CNone _ _ eq_refl); exact I; fail).
  - (* MH *) destruct todo as [|[z v] r].
    + apply (Hgo (CIter None) _ _ eq_refl). exact I.
    + apply (Hgo (CIter (Some z)) QTau (K (MB z r))); [cbn; now rewrite Z.eqb_refl | exact I].
  - (* M5 *) apply (Hgo CNone _ _ eq_refl). cbn. cbn in Hph. destruct Hph as (_ & _ & _ & ->). discriminate.
Qed.

(** ** Router *)

Lemma ready_router : forall cfg roles chans wgs s t p,
  coh cfg roles chans wgs s -> nth_error roles t = Some (RoRouter p) -> waitingb (RoRouter p) = false ->
  ready cfg s roles chans wgs (RoRouter p).
Proof.
  intros cfg roles chans wgs s t p Hcoh Hn Hw.
  set (ts := c_targets cfg) in *.
  destruct (coh_inv_late _ _ _ _ _ _ _ Hcoh Hn) as (pm & Hm & Hnd & He & Hmain & Hlate); [discriminate|].
  destruct Hlate as (wch & wrest & prt & Hchans & Hwgs & Hsn & Hrd & Hrt & (done & Hcore & Hview)).
  pose proof (lk_nth _ _ _ Hnd Hn) as Hlk. cbn [kind_of] in Hlk. rewrite Hlk in Hrt. inversion Hrt; subst prt. clear Hrt.
  assert (Hgo : forall c q k, next_rt ts p c = Some (Out q k) -> choice_ok s (th_rt ts p) c -> q_ready q chans wgs ->
            ready cfg s roles chans wgs (RoRouter p)).
  { intros c q k En Hc Hq. pose proof (rt_spec ts p c) as S. rewrite En in S. destruct (spec_some _ _ _ _ _ S) as [th' Et].
    exists c, q, th'. auto. }
  destruct p; try discriminate Hw; cbn [rt_core] in Hcore;
    try (apply (Hgo CNone _ _ eq_refl); exact I; fail).
  - (* TH *) destruct todo as [|[z v] r].
    + apply (Hgo (CIter None) _ _ eq_refl); exact I.
    + apply (Hgo (CIter (Some z)) QTau (K (TS1 chm z v r n))); [cbn; now rewrite Z.eqb_refl | exact I | exact I].
  - (* TS3 *) apply (Hgo CNone _ _ eq_refl); [exact I|]. cbn.
    destruct Hcore as (rem & _ & _ & _ & _ & ->). subst wgs. discriminate.
  - (* TG1 *) destruct b; apply (Hgo CNone _ _ eq_refl); exact I.
  - (* TG3 *) destruct Hcore as (tm & m & _ & _ & Hrt0 & _).
    apply (Hgo (CKey tm) _ _ eq_refl); [|exact I]. unfold choice_ok. cbn. now rewrite Hrt0.
  - (* TG4 *) destruct Hcore as (tm & m & _ & -> & _ & _ & ->).
    destruct (mget_chmap_from done 0 tm) as [[Hv _]|(i & _ & Hv)]; unfold chmap in *; rewrite Hv in *;
      apply (Hgo CNone _ _ eq_refl); exact I.
  - (* TCH *) destruct todo as [|[z v] r].
    + apply (Hgo (CIter None) _ _ eq_refl); exact I.
    + apply (Hgo (CIter (Some z)) QTau (K (TC1 chm z v r))); [cbn; now rewrite Z.eqb_refl | exact I | exact I].
  - (* TC1 *) destruct Hcore as (tl0 & Hrc & _ & _ & (_ & _ & _ & H4)).
    destruct (H4 z v (or_introl eq_refl)) as (i & _ & -> & Hci).
    apply (Hgo CNone _ _ eq_refl); [exact I|]. cbn. subst chans. change (nth_error wch i <> None). congruence.
  - (* RX2 *) apply (Hgo CNone _ _ eq_refl); [exact I|]. cbn. subst wgs. discriminate.
Qed.

(** every goroutine that is not at a blocking operation and has not ended can take a step *)
Lemma ready_role : forall cfg roles chans wgs s t ro,
  coh cfg roles chans wgs s -> nth_error roles t = Some ro -> waitingb ro = false -> ready cfg s roles chans wgs ro.
Proof.
  intros cfg roles chans wgs s t ro Hcoh Hn Hw. destruct ro.
  - eapply ready_main; eauto.
  - eapply ready_router; eauto.
  - eapply ready_snap; eauto.
  - eapply ready_read; eauto.
  - eapply ready_writer; eauto.
Qed.
