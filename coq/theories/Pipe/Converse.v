(** * Pipe/Converse.v — which state of the model (Pipe/Model.v) a state of the skeleton semantics (Pipe/SkeletonSem.v)
      stands in for: the refinement relation of the converse source tie (C10, C11).

    Definitions only (proofs: Pipe/ProofsConverse*.v).

    A state [g] of the skeleton semantics is related to a model state [s] ([skel_rel cfg g s]) when the goroutines of
    [g] are, in the order they were started, exactly the call stacks of a list of ROLES (Main, Router, Snapper,
    Reader, one Writer per channel made by the Router; program points of Pipe/ConversePc.v, Pipe/ConversePcSn.v)
    and the program points, channels and wait group counters agree with [s]:

    - the model's atomic label LMainStart is taken when Main executes its FIRST go statement (before that the model
      is in its initial state; afterwards a Snapper / Reader that Main has not started yet is the model's process in
      its initial state SRecv / RdRun src, which cannot move in the skeleton semantics yet);
    - the model's atomic label LRouterSpawn is taken when the Router LEAVES its spawn loop (until then the model's
      Router is in TInit with no writers; the Writers already started are in front of their first receive, on a
      channel only the Router knows, and nothing is sent on it before the Router has left the loop);
    - every other label is taken at the one step of the skeleton semantics that performs its communication (the
      rendezvous, the close, the receive on a closed channel, wg.Done, wg.Wait of Main, the return of Reader /
      Snapper) or, for the labels without communication, at one fixed local step (LSnapCompute: the head statement of
      the send loop; LSnapLoop: the end of that loop; LRecv: the statement `handle(feature)` of the Target contract);
    - all other steps (local statements, loop bookkeeping, deferred-call bookkeeping, the calls of
      processMultiPolygon / polygonsToMulti) change nothing in the model state.

    The Router ranges over the map of targets in ANY order: the channel of a target is 2 + its position in the order
    [done] the Router visited the targets in, not its position in [c_targets cfg].

    DATA the skeleton does not follow is supplied by the model state ([choice_ok]): whether the source has another
    feature, which clause of the type switch is taken, which keys the send loops visit, whether line 39 panics, and the
    tile matrix id the Router reads from the feature it received.  Every other choice (the conditions of `if
    len(..) > 0`, `if len(newPolygons) == 1`, `if preCount != nonPolygonCount`, all loops of processMultiPolygon and
    polygonsToMulti, the order of every range over a map) is free. *)
From Coq Require Import ZArith List String Bool Permutation.
From Texel Require Import Pipe.Model Pipe.Skeleton Pipe.SkeletonSem Pipe.SkeletonSim Pipe.ConversePc Pipe.ConversePcSn.
Import ListNotations.
Open Scope string_scope.
Open Scope list_scope.

(** ** Roles *)

Inductive role :=
| RoMain (pc : mpc)
| RoRouter (pc : rtpc)
| RoSnap (pc : snpc)
| RoRead (pc : dpc)
| RoWriter (chm : list (Z * val)) (z : Z) (v : val) (n : nat) (pc : wpc).

Inductive kind := KMain | KRouter | KSnap | KRead | KWriter (n : nat).

Definition kind_of (r : role) : kind :=
  match r with
  | RoMain _ => KMain | RoRouter _ => KRouter | RoSnap _ => KSnap | RoRead _ => KRead
  | RoWriter _ _ _ n _ => KWriter n
  end.

Definition kind_eqb (a b : kind) : bool :=
  match a, b with
  | KMain, KMain | KRouter, KRouter | KSnap, KSnap | KRead, KRead => true
  | KWriter n, KWriter m => Nat.eqb n m
  | _, _ => false
  end.

(** the role of a kind (kinds are distinct in a related state) *)
Definition lk (k : kind) (roles : list role) : option role := find (fun r => kind_eqb (kind_of r) k) roles.

Definition th_of (ts : list tmid) (r : role) : thread :=
  match r with
  | RoMain pc => th_main ts pc
  | RoRouter pc => th_rt ts pc
  | RoSnap pc => th_sn pc
  | RoRead pc => th_rd pc
  | RoWriter chm z v n pc => th_wr ts chm z v n pc
  end.

(** ** Data the skeleton does not follow: the choices the model state dictates *)

Inductive dpoint :=
| DReadHead              (* head of `range source.features` in the contract of Source.ReadFeatures *)
| DSwitch                (* the type switch of processFeatures *)
| DSnapHead              (* head of one of the three send loops of processFeatures *)
| DIfEmpty (key : val)   (* `if len(newPolygons) == 0` in the iteration of key [tmID] *)
| DRouterGet             (* `channel := targetChannels[tmID]`, tmID read from the received feature *)
| DFree.

Definition dpoint_of (th : thread) : dpoint :=
  match th with
  | fr :: rest =>
      match fr_k fr with
      | KRangeAny _ vx _ _ =>
          if String.eqb vx "feature" then DReadHead
          else match rest with [] => DSnapHead | _ => DFree end    (* the loops of the callees are free *)
      | KSeq (SSwitchType _ _ :: _) _ => DSwitch
      | KSeq (SIf cond _ _ :: _) _ =>
          if String.eqb cond "len(newPolygons) == 0" then DIfEmpty (get (fr_env fr) "tmID") else DFree
      | KSeq (SMapGet _ _ _ :: _) _ => DRouterGet
      | _ => DFree
      end
  | [] => DFree
  end.

Definition is_none {A} (o : option A) : bool := match o with None => true | Some _ => false end.

Definition choice_ok (s : state) (th : thread) (c : choice) : Prop :=
  match dpoint_of th with
  | DReadHead => match s_rd s with
                 | RdRun [] => c = CIter None
                 | RdRun (_ :: _) => c <> CIter None
                 | _ => True
                 end
  | DSwitch => match s_sn s with SHave f => c = CCase (kind_case (f_kind f)) | _ => True end
  | DSnapHead => match s_sn s with
                 | Model.SSend _ ord pending =>
                     match c with
                     | CIter (Some z) => take_pend ord z pending <> None
                     | CIter None => pending = []
                     | _ => True
                     end
                 | _ => True
                 end
  | DIfEmpty (VKey z) => match s_sn s with
                         | Model.SSend _ ord pending =>
                             match take_pend ord z pending with
                             | Some (og, _) => c = CBool (is_none og)
                             | None => True
                             end
                         | _ => True
                         end
  | DIfEmpty _ => True
  | DRouterGet => match s_rt s with THave tm _ => c = CKey tm | _ => True end
  | DFree => True
  end.

(** the choice of action [a] in state [g] is the one the data of model state [s] dictates *)
Definition data_ok (s : state) (g : gstate) (a : action) : Prop :=
  match a with
  | ALocal t c => match nth_error (g_threads g) t with Some th => choice_ok s th c | None => True end
  | ASync _ _ => True
  end.

(** ** Program points and process states *)

Definition cls (j : nat) (ord : bool) (pending : list pend) : Prop :=
  ord = Nat.eqb j 2 /\ (j <> 0%nat -> Forall (fun e : pend => snd e <> None) pending).

Definition sn_have (k : nat) (x : snstate) : Prop := exists f, x = SHave f /\ kind_case (f_kind f) = k.
Definition sn_taking (z : Z) (want : option (option geom) -> Prop) (x : snstate) : Prop :=
  exists id pending og r, x = Model.SSend id false pending /\ take_pend false z pending = Some (og, r) /\ want (Some og).

Definition sn_rel (p : snpc) (x : snstate) : Prop :=
  match p with
  | S0 | S1 | SL | SRv | SQ1 | SQ2 => x = SRecv
  | SG true | SP1 | SP2 => exists f, x = SHave f
  | C0a | C0b | C0c | C0d | C0e | C0f => sn_have 0 x
  | C1a | C1b | C1c | C1d | C1e | C1f | SPure _ BC1 => sn_have 1 x
  | C2a | C2b | C2c => sn_have 2 x
  | SHd j | IX j _ => exists id ord pending, x = Model.SSend id ord pending /\ cls j ord pending
  | I0a z | I0b z => sn_taking z (fun _ => True) x
  | I0p z => sn_taking z (fun o => o = Some None) x
  | I0c z | I0d z | I0e z | I0g z | I0f z | SPure _ (BI0 z) => sn_taking z (fun o => exists g0, o = Some (Some g0)) x
  | IS j z => exists id ord pending g0 r, x = Model.SSend id ord pending /\ cls j ord pending
                                          /\ take_pend ord z pending = Some (Some g0, r)
  | SG false | SC0 => x = SEof
  | SLg0 | SLg1 | SLg2 | SLg3 | SLg4 | SLg5 | SLg6 => x = SLog
  | SX => x = SExit
  end.

Definition rd_rel (p : dpc) (x : rdstate) : Prop :=
  match p with
  | D0 | D1 | DH | D3 => exists rest, x = RdRun rest
  | D2 => exists f r, x = RdRun (f :: r)
  | D4 => x = RdRun []
  | D5 | D6 | D7 => x = RdClosed
  | D8 => x = RdExit
  end.

Definition wr_rel (p : wpc) (x : wrstate) : Prop :=
  match p with
  | W0 | W1 | W2 | W3 | WRv | WS => x = WRecv
  | WG true | WH => exists m, x = WHold m
  | WG false | WF1 | WF2 | WF3 | WF4 => x = WFin
  | WF5 | WF6 => x = WDone
  end.

Definition prerecv (p : wpc) : bool := match p with W0 | W1 | W2 | W3 | WRv => true | _ => false end.

(** ** The Router, its Writers, their channels *)

Definition mkA (t : tmid) : Z * val := (t, VAny).

Definition tinit (rt : rtstate) (ws : list writer) (wgR : nat) : Prop := rt = TInit /\ ws = [] /\ wgR = 0%nat.

(** the spawn loop: [done] visited, [mid] being visited, [rem] still to visit *)
Definition spawning (ts done mid rem : list tmid) (todo : list (Z * val)) (n : nat)
  (rt : rtstate) (ws : list writer) (wgR : nat) : Prop :=
  tinit rt ws wgR /\ Permutation (done ++ mid ++ rem) ts /\ todo = map mkA rem /\ n = (2 + List.length done)%nat.

(** after the spawn loop: [done] = the order the targets were visited in; channel 2+i belongs to the i-th of them *)
Definition runcore (ts done : list tmid) (wch : list bool) (wrest : list nat) (ws : list writer) (wgR : nat) : Prop :=
  Permutation done ts /\ wrest = [wgR] /\ List.length wch = List.length done /\ map w_tm ws = ts.

Definition allopen (wch : list bool) : Prop := Forall (fun b => b = false) wch.

(** the close loop: the entries still to visit are the model's todo list, and their channels are open *)
Definition closing (done : list tmid) (todo : list (Z * val)) (tl : list tmid) (wch : list bool) : Prop :=
  NoDup (map fst todo) /\ NoDup tl /\ (forall z, In z tl <-> In z (map fst todo))
  /\ (forall z v, In (z, v) todo -> exists i, nth_error done i = Some z /\ v = VChan (2 + i) /\ nth_error wch i = Some false).

(** the Router's own part of the relation: program point, [done], channels of the targets, its wait group *)
Definition rt_core (ts : list tmid) (p : rtpc) (done : list tmid) (wch : list bool) (wrest : list nat)
  (rt : rtstate) (ws : list writer) (wgR : nat) : Prop :=
  match p with
  | R0 | R1 | T0 | T1 => done = [] /\ tinit rt ws wgR /\ wch = [] /\ wrest = []
  | T2 => done = [] /\ tinit rt ws wgR /\ wch = [] /\ wrest = [0%nat]
  | TH chm todo n =>
      exists rem, spawning ts done [] rem todo n rt ws wgR /\ chm = chmap done
        /\ wch = repeat false (List.length done) /\ wrest = [List.length done]
  | TS1 chm z v todo n =>
      exists rem, spawning ts done [z] rem todo n rt ws wgR /\ chm = chmap done /\ v = VAny
        /\ wch = repeat false (List.length done) /\ wrest = [List.length done]
  | TS2 chm z v todo n =>
      exists rem, spawning ts done [z] rem todo n rt ws wgR /\ chm = chmap done /\ v = VAny
        /\ wch = repeat false (S (List.length done)) /\ wrest = [List.length done]
  | TS3 chm z v todo n =>
      exists rem, spawning ts done [z] rem todo n rt ws wgR /\ chm = chmap (done ++ [z]) /\ v = VAny
        /\ wch = repeat false (S (List.length done)) /\ wrest = [List.length done]
  | TS4 chm z v todo n | TS5 chm z v todo n =>
      exists rem, spawning ts done [z] rem todo n rt ws wgR /\ chm = chmap (done ++ [z]) /\ v = VAny
        /\ wch = repeat false (S (List.length done)) /\ wrest = [S (List.length done)]
  | T3 chm | TL chm | TRv chm | TG6 chm _ =>
      runcore ts done wch wrest ws wgR /\ chm = chmap done /\ rt = TRecv /\ allopen wch
  | TG1 chm true | TG2 chm | TG3 chm =>
      exists tm m, runcore ts done wch wrest ws wgR /\ chm = chmap done /\ rt = THave tm m /\ allopen wch
  | TG4 chm v | TG5 chm v =>
      exists tm m, runcore ts done wch wrest ws wgR /\ chm = chmap done /\ rt = THave tm m /\ allopen wch
                   /\ v = mget tm chm
  | TG1 chm false | TC0 chm =>
      runcore ts done wch wrest ws wgR /\ chm = chmap done /\ rt = TClosing ts /\ allopen wch
  | TCH chm todo | TC2 chm _ _ todo =>
      exists tl, runcore ts done wch wrest ws wgR /\ chm = chmap done /\ rt = TClosing tl /\ closing done todo tl wch
  | TC1 chm z v todo =>
      exists tl, runcore ts done wch wrest ws wgR /\ chm = chmap done /\ rt = TClosing tl
                 /\ closing done ((z, v) :: todo) tl wch
  | TW chm => runcore ts done wch wrest ws wgR /\ rt = TClosing []
  | TX _ | RX1 | RX2 => runcore ts done wch wrest ws wgR /\ rt = TClosing [] /\ wgR = 0%nat
  | RX3 | RX4 => runcore ts done wch wrest ws wgR /\ rt = TDone
  end.

(** in the spawn loop? *)
Definition rt_spawning (p : rtpc) : bool :=
  match p with
  | R0 | R1 | T0 | T1 | T2 | TH _ _ _ | TS1 _ _ _ _ _ | TS2 _ _ _ _ _ | TS3 _ _ _ _ _ | TS4 _ _ _ _ _ | TS5 _ _ _ _ _ => true
  | _ => false
  end.

(** the keys of the Writers started so far *)
Definition spawned (p : rtpc) (done : list tmid) : list tmid :=
  match p with TS5 _ z _ _ _ => done ++ [z] | _ => done end.

(** the Writers started so far (keys [sp], in this order) are in front of their first receive *)
Definition writers_pre (sp : list tmid) (roles : list role) : Prop :=
  forall i z, nth_error sp i = Some z ->
    exists chm' pc, lk (KWriter (2 + i)) roles = Some (RoWriter chm' z VAny (2 + i) pc) /\ prerecv pc = true.

(** after the spawn loop: Writer, model writer and channel of each target *)
Definition writers_run (done : list tmid) (roles : list role) (wch : list bool) (ws : list writer) : Prop :=
  forall i z, nth_error done i = Some z ->
    exists chm' pc w, lk (KWriter (2 + i)) roles = Some (RoWriter chm' z VAny (2 + i) pc)
                      /\ find_writer z ws = Some w /\ wr_rel pc (w_st w) /\ nth_error wch i = Some (w_closed w).

(** there are no other Writers *)
Definition writers_bound (nsp : nat) (roles : list role) : Prop :=
  forall n, In (KWriter n) (map kind_of roles) -> (2 <= n < 2 + nsp)%nat.

Definition wview (p : rtpc) (done : list tmid) (roles : list role) (wch : list bool) (ws : list writer) : Prop :=
  writers_bound (List.length (spawned p done)) roles
  /\ if rt_spawning p then writers_pre (spawned p done) roles else writers_run done roles wch ws.

Definition rt_rel (ts : list tmid) (p : rtpc) (roles : list role) (wch : list bool) (wrest : list nat)
  (rt : rtstate) (ws : list writer) (wgR : nat) : Prop :=
  exists done, rt_core ts p done wch wrest rt ws wgR /\ wview p done roles wch ws.

(** ** Main, and the whole state *)

Definition is_early (p : mpc) : bool := match p with M7 | M8 | M9 | M10 | M11 => false | _ => true end.

(** before the first go statement: only Main exists *)
Definition early_shared (p : mpc) (chans : list bool) (wgs : list nat) : Prop :=
  match p with
  | M0 => chans = [] /\ wgs = []
  | M1 => chans = [false] /\ wgs = []
  | M5 => chans = [false; false] /\ wgs = [0%nat]
  | M6 => chans = [false; false] /\ wgs = [1%nat]
  | _ => chans = [false; false] /\ wgs = []
  end.

Definition main_st (p : mpc) : mstate := match p with M10 | M11 => MRet | _ => MWait end.

Definition sn_clause (pm : mpc) (roles : list role) (s : state) : Prop :=
  match lk KSnap roles with
  | None => pm = M7 /\ s_sn s = SRecv
  | Some (RoSnap p) => pm <> M7 /\ sn_ok p /\ sn_rel p (s_sn s)
  | Some _ => False
  end.

Definition rd_clause (cfg : config) (pm : mpc) (roles : list role) (s : state) : Prop :=
  match lk KRead roles with
  | None => (pm = M7 \/ pm = M8) /\ s_rd s = RdRun (c_src cfg)
  | Some (RoRead p) => pm <> M7 /\ pm <> M8 /\ rd_rel p (s_rd s)
  | Some _ => False
  end.

Definition late (cfg : config) (pm : mpc) (roles : list role) (chans : list bool) (wgs : list nat) (s : state) : Prop :=
  exists wch wrest prt,
    chans = rd_is_closed (s_rd s) :: sn_is_closed (s_sn s) :: wch /\ wgs = s_wgM s :: wrest
    /\ sn_clause pm roles s /\ rd_clause cfg pm roles s
    /\ lk KRouter roles = Some (RoRouter prt) /\ rt_rel (c_targets cfg) prt roles wch wrest (s_rt s) (s_wr s) (s_wgR s).

Definition coh (cfg : config) (roles : list role) (chans : list bool) (wgs : list nat) (s : state) : Prop :=
  exists pm, lk KMain roles = Some (RoMain pm) /\ NoDup (map kind_of roles)
    /\ if is_early pm then roles = [RoMain pm] /\ s = init cfg /\ early_shared pm chans wgs
       else s_main s = main_st pm /\ late cfg pm roles chans wgs s.

(** the refinement relation; a panicked program stands in for a panicked model state *)
Definition skel_rel (cfg : config) (g : gstate) (s : state) : Prop :=
  match g_panic g, s_panic s with
  | Some _, Some _ => True
  | None, None => exists roles, g_threads g = map (th_of (c_targets cfg)) roles /\ coh cfg roles (g_chans g) (g_wgs g) s
  | _, _ => False
  end.

(** zero or one step of the model *)
Definition mstep (cfg : config) (s s' : state) : Prop := s' = s \/ exists l, step cfg s l = Some s'.

(** coupled runs: the skeleton semantics takes any enabled action whose data choice is the one the coupled model state
    dictates; the model state follows by at most one step to a state the new skeleton state stands in for *)
Inductive crun (Pg : list func) (cfg : config) : gstate -> state -> list action -> list event -> gstate -> state -> Prop :=
| crun_nil : forall g s, crun Pg cfg g s [] [] g s
| crun_cons : forall g s a g1 ev s1 acts evs g2 s2,
    gstep Pg g a = Some (g1, ev) -> data_ok s g a -> mstep cfg s s1 -> skel_rel cfg g1 s1 ->
    crun Pg cfg g1 s1 acts evs g2 s2 -> crun Pg cfg g s (a :: acts) (ev ++ evs) g2 s2.
