(** * Pipe/ConversePcSn.v — the program points of the Snapper (processFeatures), continuing Pipe/ConversePc.v.

    Definitions only.  The calls of processMultiPolygon and polygonsToMulti (loops over data the skeleton does not
    follow) are not listed point by point: while the Snapper is inside one of them its call stack is a non-empty
    stack of PURE frames ([pure_frame]: statements that ask nothing of the shared state) above the frame that made
    the call ([SPure]). *)
From Coq Require Import ZArith List String Bool.
From Texel Require Import Pipe.Model Pipe.Skeleton Pipe.SkeletonSem Pipe.SkeletonSim Pipe.ConversePc.
Import ListNotations.
Open Scope string_scope.
Open Scope list_scope.

(** ** Pure computations

    A frame is pure when its remaining statements are SOther / return / for / range / if only, every range runs over a
    name of [ranged] (data the skeleton does not follow: never bound to anything but [VAny]), no range declares a key
    variable of that name, no loop variable is called "feature" and no condition is the one of line 39 (so that
    [dpoint_of] of Pipe/Converse.v sees a free choice), and its environment binds the names of [ranged] to [VAny]. *)

Definition ranged : list string := ["multiPolygon"; "newPolygonsPerTileMatrix"; "newPolygons"].

Fixpoint mem_s (x : string) (l : list string) : bool :=
  match l with [] => false | y :: r => String.eqb y x || mem_s x r end.

Definition range_ok (kx vx over : string) : bool :=
  mem_s over ranged && negb (mem_s kx ranged) && negb (String.eqb vx "feature").

Fixpoint pure_stmt (s : stmt) : bool :=
  match s with
  | SOther _ | SReturn _ => true
  | SFor _ _ _ b => forallb pure_stmt b
  | SRange _ kx vx over b => range_ok kx vx over && forallb pure_stmt b
  | SIf cond a b => negb (String.eqb cond "len(newPolygons) == 0") && forallb pure_stmt a && forallb pure_stmt b
  | _ => false
  end.

Fixpoint pure_kont (k : kont) : bool :=
  match k with
  | KStop => true
  | KSeq ss k' => forallb pure_stmt ss && pure_kont k'
  | KScope _ k' => pure_kont k'
  | KLoop _ _ => false
  | KFor b k' => forallb pure_stmt b && pure_kont k'
  | KRangeAny kx vx b k' => negb (mem_s kx ranged) && negb (String.eqb vx "feature") && forallb pure_stmt b && pure_kont k'
  | KRangeMap _ _ _ _ _ => false
  end.

Definition pure_env (e : env) : bool :=
  forallb (fun yv : string * val => if mem_s (fst yv) ranged then match snd yv with VAny => true | _ => false end else true) e.

Definition pure_frame (fr : frame) : bool :=
  match fr_defers fr with [] => pure_kont (fr_k fr) && pure_env (fr_env fr) | _ => false end.

(** ** Snapper = processFeatures *)

(** where a pure callee returns to: after the call of processMultiPolygon / of polygonsToMulti (iteration of key z) *)
Inductive snbase := BC1 | BI0 (z : Z).

Inductive snpc :=
| S0 | S1 | SL | SRv | SG (b : bool) | SC0 | SLg0 | SLg1 | SLg2 | SLg3 | SLg4 | SLg5 | SLg6 | SX
| SP1 | SP2
| C0a | C0b | C0c | C0d | C0e | C0f
| C1a | C1b | C1c | C1d | C1e | C1f
| C2a | C2b | C2c
| SHd (j : nat)
| I0a (z : Z) | I0b (z : Z) | I0p (z : Z) | I0c (z : Z) | I0d (z : Z) | I0e (z : Z) | I0g (z : Z) | I0f (z : Z)
| IS (j : nat) (z : Z) | IX (j : nat) (z : Z)
| SQ1 | SQ2
| SPure (fs : list frame) (b : snbase).

Definition sg (b : bool) : env := sn_env_got b.
Definition K6 : kont := KScope 6 sn_kloop.
Definition cb (j : nat) : list stmt := match nth_error sn_cases j with Some (_, b) => b | None => [] end.
Definition sn_head (j : nat) : kont := let '(kx, vx, body) := sn_range j in KRangeAny kx vx body K6.
Definition KI (j : nat) : kont := KScope 6 (sn_head j).
Definition lb (j : nat) : list stmt := let '(_, _, body) := sn_range j in body.
Definition it_sn (j : nat) (z : Z) : env :=
  match j with
  | 0 => [("newPolygons", VAny); ("tmID", VKey z)] ++ sg true
  | 1 => [("newMultiPolygon", VAny); ("tmID", VKey z)] ++ sg true
  | _ => [("tmID", VAny)] ++ sg true
  end.
Definition if_then (s : option stmt) : list stmt := match s with Some (SIf _ a _) => a | _ => [] end.
Definition if_else (s : option stmt) : list stmt := match s with Some (SIf _ _ b) => b | _ => [] end.

Definition pmp_frame : frame :=
  MkFrame [("f", VAny); ("tileMatrixIDs", VAny); ("multiPolygon", VAny)] [] (KSeq (body_of "processMultiPolygon") KStop).
Definition p2m_frame : frame := MkFrame [("polygons", VAny)] [] (KSeq (body_of "polygonsToMulti") KStop).

Definition th_base (b : snbase) : thread :=
  match b with
  | BC1 => [MkFrame (sg true) [] (KSeq (skipn 2 (cb 1)) K6)]
  | BI0 z => [MkFrame (it_sn 0 z) [] (KScope 8 (KSeq (skipn 3 (lb 0)) (KI 0)))]
  end.

Definition th_sn (pc : snpc) : thread :=
  match pc with
  | S0 => sn_start
  | S1 => [MkFrame sn_env [] (KSeq (tl sn_body) KStop)]
  | SL => [MkFrame sn_env [] (KLoop sn_loop (KSeq sn_after KStop))]
  | SRv => [MkFrame sn_env [] (KSeq sn_loop sn_kloop)]
  | SG b => [MkFrame (sg b) [] (KSeq (tl sn_loop) sn_kloop)]
  | SC0 => [MkFrame sn_env [] (KSeq sn_after KStop)]
  | SLg0 => [MkFrame sn_env [] (KSeq sn_log KStop)]
  | SLg1 => [MkFrame sn_env [] (KSeq (skipn 1 sn_log) KStop)]
  | SLg2 => [MkFrame sn_env [] (KSeq (skipn 2 sn_log) KStop)]
  | SLg3 => [MkFrame sn_env [] (KSeq (if_then (nth_error sn_log 2)) (KScope 4 (KSeq (skipn 3 sn_log) KStop)))]
  | SLg4 => [MkFrame sn_env [] (KScope 4 (KSeq (skipn 3 sn_log) KStop))]
  | SLg5 => [MkFrame sn_env [] (KSeq (skipn 3 sn_log) KStop)]
  | SLg6 => [MkFrame sn_env [] KStop]
  | SX => []
  | SP1 => [MkFrame (sg true) [] (KSeq (skipn 2 sn_loop) sn_kloop)]
  | SP2 => [MkFrame (sg true) [] (KSeq (skipn 3 sn_loop) sn_kloop)]
  | C0a => [MkFrame (sg true) [] (KSeq (cb 0) K6)]
  | C0b => [MkFrame (sg true) [] (KSeq (skipn 1 (cb 0)) K6)]
  | C0c => [MkFrame (sg true) [] (KSeq (skipn 2 (cb 0)) K6)]
  | C0d => [MkFrame (sg true) [] (KSeq (if_then (nth_error (cb 0) 2)) (KScope 6 (KSeq (skipn 3 (cb 0)) K6)))]
  | C0e => [MkFrame (sg true) [] (KScope 6 (KSeq (skipn 3 (cb 0)) K6))]
  | C0f => [MkFrame (sg true) [] (KSeq (skipn 3 (cb 0)) K6)]
  | C1a => [MkFrame (sg true) [] (KSeq (cb 1) K6)]
  | C1b => [MkFrame (sg true) [] (KSeq (skipn 1 (cb 1)) K6)]
  | C1c => th_base BC1
  | C1d => [MkFrame (sg true) [] (KSeq (if_then (nth_error (cb 1) 2)) (KScope 6 (KSeq (skipn 3 (cb 1)) K6)))]
  | C1e => [MkFrame (sg true) [] (KScope 6 (KSeq (skipn 3 (cb 1)) K6))]
  | C1f => [MkFrame (sg true) [] (KSeq (skipn 3 (cb 1)) K6)]
  | C2a => [MkFrame (sg true) [] (KSeq (cb 2) K6)]
  | C2b => [MkFrame (sg true) [] (KSeq (skipn 1 (cb 2)) K6)]
  | C2c => [MkFrame (sg true) [] (KSeq (skipn 2 (cb 2)) K6)]
  | SHd j => [MkFrame (sg true) [] (sn_head j)]
  | I0a z => [MkFrame (it_sn 0 z) [] (KSeq (lb 0) (KI 0))]
  | I0b z => [MkFrame (it_sn 0 z) [] (KSeq (skipn 1 (lb 0)) (KI 0))]
  | I0p z => [MkFrame (it_sn 0 z) [] (KSeq (if_then (nth_error (lb 0) 1)) (KScope 8 (KSeq (skipn 2 (lb 0)) (KI 0))))]
  | I0c z => [MkFrame (it_sn 0 z) [] (KScope 8 (KSeq (skipn 2 (lb 0)) (KI 0)))]
  | I0d z => [MkFrame (it_sn 0 z) [] (KSeq (skipn 2 (lb 0)) (KI 0))]
  | I0e z => [MkFrame (it_sn 0 z) [] (KSeq (if_then (nth_error (lb 0) 2)) (KScope 8 (KSeq (skipn 3 (lb 0)) (KI 0))))]
  | I0g z => [MkFrame (it_sn 0 z) [] (KSeq (if_else (nth_error (lb 0) 2)) (KScope 8 (KSeq (skipn 3 (lb 0)) (KI 0))))]
  | I0f z => th_base (BI0 z)
  | IS j z => [MkFrame (it_sn j z) [] (KSeq (match j with 0 => skipn 3 (lb 0) | _ => lb j end) (KI j))]
  | IX j z => [MkFrame (it_sn j z) [] (KI j)]
  | SQ1 => [MkFrame (sg true) [] K6]
  | SQ2 => [MkFrame (sg true) [] sn_kloop]
  | SPure fs b => fs ++ th_base b
  end.

Definition base_pc (b : snbase) : snpc := match b with BC1 => C1c | BI0 z => I0f z end.
Definition mkpure (fs : list frame) (b : snbase) : snpc := match fs with [] => base_pc b | _ => SPure fs b end.

Definition next_sn (pc : snpc) (c : choice) : option (out snpc) :=
  let tau p := Some (Out QTau (K p)) in
  let ifc p q := match c with CBool true => tau p | CBool false => tau q | _ => None end in
  match pc with
  | S0 => tau S1
  | S1 => tau SL
  | SL => tau SRv
  | SRv => Some (Out (QRecv 0 "feature" "hasMore") SG)
  | SG true => tau SP1
  | SG false => tau SC0
  | SC0 => Some (Out (QClose 1) (K SLg0))
  | SLg0 => tau SLg1
  | SLg1 => tau SLg2
  | SLg2 => ifc SLg3 SLg4
  | SLg3 => tau SLg4
  | SLg4 => tau SLg5
  | SLg5 => tau SLg6
  | SLg6 => Some (Out QExit (K SX))
  | SX => None
  | SP1 => tau SP2
  | SP2 => match c with CCase 0 => tau C0a | CCase 1 => tau C1a | CCase 2 => tau C2a | _ => None end
  | C0a => tau C0b
  | C0b => tau C0c
  | C0c => ifc C0d C0e
  | C0d => tau C0e
  | C0e => tau C0f
  | C0f => tau (SHd 0)
  | C1a => tau C1b
  | C1b => tau (SPure [pmp_frame] BC1)
  | C1c => ifc C1d C1e
  | C1d => tau C1e
  | C1e => tau C1f
  | C1f => tau (SHd 1)
  | C2a => tau C2b
  | C2b => tau C2c
  | C2c => tau (SHd 2)
  | SHd j => match c with
             | CIter (Some z) => match j with 0 => tau (I0a z) | 1 => tau (IS 1 z) | 2 => tau (IS 2 z) | _ => None end
             | CIter None => match j with 0 | 1 | 2 => tau SQ1 | _ => None end
             | _ => None
             end
  | I0a z => tau (I0b z)
  | I0b z => ifc (I0p z) (I0c z)
  | I0p z => Some (Out (QPanic panic_no_polygon) (K (I0p z)))
  | I0c z => tau (I0d z)
  | I0d z => ifc (I0e z) (I0g z)
  | I0e z => tau (I0f z)
  | I0g z => tau (SPure [p2m_frame] (BI0 z))
  | I0f z => tau (IS 0 z)
  | IS j z => match j with 0 | 1 | 2 => Some (Out (QSend 1) (K (IX j z))) | _ => None end
  | IX j z => match j with 0 | 1 | 2 => tau (SHd j) | _ => None end
  | SQ1 => tau SQ2
  | SQ2 => tau SL
  | SPure fs b => match fs with
                  | fr :: fs' => match tstep P c [fr] with
                                 | Some (_, new) => tau (mkpure (new ++ fs') b)
                                 | None => None
                                 end
                  | [] => None
                  end
  end.

(** the program points that exist: loops 0..2; a pure callee is a non-empty stack of pure frames *)
Definition sn_ok (pc : snpc) : Prop :=
  match pc with
  | SHd j | IS j _ | IX j _ => (j <= 2)%nat
  | SPure fs _ => fs <> [] /\ forallb pure_frame fs = true
  | _ => True
  end.
