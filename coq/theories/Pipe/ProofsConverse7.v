(** * Pipe/ProofsConverse7.v — converse source tie, part 7: the steps of Main (LMainStart at its first go statement,
      LReturn at its wg.Wait()). *)
From Coq Require Import ZArith List String Bool Lia Permutation.
From Texel Require Import Pipe.Model Pipe.ProofsBase Pipe.ProofsInv Pipe.ProofsLive Pipe.Skeleton Pipe.SkeletonSem Pipe.SkeletonSim
  Pipe.ProofsSkeleton Pipe.ConversePc Pipe.ConversePcSn Pipe.ProofsConversePc Pipe.ProofsConversePcSn Pipe.Converse Pipe.ConverseRank
  Pipe.ProofsConverse1 Pipe.ProofsConverse2 Pipe.ProofsConverse4 Pipe.ProofsConverse5 Pipe.ProofsConverse6.
Import ListNotations.
Open Scope string_scope.
Open Scope list_scope.

Lemma sn_clause_pm : forall pm pm' roles s, pm <> M7 -> pm' <> M7 -> sn_clause pm roles s -> sn_clause pm' roles s.
Proof.
  intros pm pm' roles s H H' Hc. unfold sn_clause in *. destruct (lk KSnap roles) as [[]|]; try exact Hc; tauto.
Qed.

Lemma rd_clause_pm : forall cfg pm pm' roles s, pm <> M7 -> pm <> M8 -> pm' <> M7 -> pm' <> M8 ->
  rd_clause cfg pm roles s -> rd_clause cfg pm' roles s.
Proof.
  intros cfg pm pm' roles s H1 H2 H1' H2' Hc. unfold rd_clause in *. destruct (lk KRead roles) as [[]|]; try exact Hc; tauto.
Qed.

Lemma step_main : forall cfg roles chans wgs s t p c g' ev,
  coh cfg roles chans wgs s -> s_panic s = None -> nth_error roles t = Some (RoMain p) ->
  gstep P (MkG (map (th_of (c_targets cfg)) roles) chans wgs None) (ALocal t c) = Some (g', ev) ->
  exists s', rstep cfg roles s g' s'.
Proof.
  intros cfg roles chans wgs s t p c g' ev Hcoh Hpan Hn Hg.
  set (ts := c_targets cfg) in *.
  destruct Hcoh as (pm & Hm & Hnd & Hph).
  pose proof (lk_nth _ _ _ Hnd Hn) as Hlk. cbn [kind_of] in Hlk. rewrite Hlk in Hm. inversion Hm; subst pm. clear Hm.
  pose proof (main_spec ts p c) as Hspec.
  destruct (next_main ts p c) as [[q k]|] eqn:En; destruct (tstep P c (th_main ts p)) as [[q' th']|] eqn:Et;
    cbn [spec] in Hspec; try contradiction.
  2: { exfalso. eapply (no_local_step ts roles chans wgs t c (RoMain p)); eauto. }
  destruct Hspec as [-> Hpost].
  pose proof (local_effect ts roles chans wgs t c (RoMain p) q th' (expect_main p) (fun b => RoMain (k b)) g' ev Hn Et Hpost) as Heff.
  destruct (is_early p) eqn:Ee.
  - (* before the first go statement: only Main exists, the model is in its initial state *)
    destruct Hph as (-> & -> & Hsh). destruct t as [|t]; [|destruct t; discriminate]. clear Hn Hlk.
    assert (Hearly : forall p' chans' wgs', (rank_main ts p' < rank_main ts p)%nat -> is_early p' = true -> early_shared p' chans' wgs' ->
              exists s', rstep cfg [RoMain p] (init cfg) (MkG (map (th_of ts) [RoMain p']) chans' wgs' None) s').
    { intros p' chans' wgs' Hrk He' Hsh'. exists (init cfg). apply rstep_silent; [|left; unfold rank_sum; cbn [map list_sum fold_right rank_role]; fold ts; lia].
      exists p'. split; [reflexivity|]. split; [repeat constructor; intros []|]. rewrite He'. auto. }
    destruct p; try discriminate Ee; cbn [next_main] in En; cbn [early_shared] in Hsh; destruct Hsh as [-> ->];
      try (invo En q k; specialize (Heff I Hg); cbn [shared_effect K upd_nth] in Heff; subst g';
           apply Hearly; [unfold K; cbn [rank_main]; rewrite ?map_length, ?app_length; cbn [List.length]; unfold tmid; lia | reflexivity | cbn; auto]; fail).
    + (* M0 *) invo En q k. specialize (Heff eq_refl Hg). cbn [shared_effect K upd_nth] in Heff. subst g'.
      apply Hearly; [unfold K; cbn [rank_main]; rewrite ?map_length, ?app_length; cbn [List.length]; unfold tmid; lia | reflexivity | cbn; auto].
    + (* M1 *) invo En q k. specialize (Heff eq_refl Hg). cbn [shared_effect K upd_nth] in Heff. subst g'.
      apply Hearly; [unfold K; cbn [rank_main]; rewrite ?map_length, ?app_length; cbn [List.length]; unfold tmid; lia | reflexivity | cbn; auto].
    + (* MH *) destruct c as [| | |[z|]|]; try discriminate.
      * destruct (mtake z todo) as [[v todo']|] eqn:Em; [|discriminate]. destruct (mtake_split _ _ _ _ Em) as (a0 & b0 & -> & -> & _).
        invo En q k. specialize (Heff I Hg).
        cbn [shared_effect K upd_nth] in Heff. subst g'. apply Hearly; [unfold K; cbn [rank_main]; rewrite ?map_length, ?app_length; cbn [List.length]; unfold tmid; lia | reflexivity | cbn; auto].
      * destruct todo; [|discriminate]. invo En q k. specialize (Heff I Hg).
        cbn [shared_effect K upd_nth] in Heff. subst g'. apply Hearly; [unfold K; cbn [rank_main]; rewrite ?map_length, ?app_length; cbn [List.length]; unfold tmid; lia | reflexivity | cbn; auto].
    + (* M4 *) invo En q k. specialize (Heff eq_refl Hg). cbn [shared_effect K upd_nth] in Heff. subst g'.
      apply Hearly; [unfold K; cbn [rank_main]; rewrite ?map_length, ?app_length; cbn [List.length]; unfold tmid; lia | reflexivity | cbn; auto].
    + (* M5 *) invo En q k. specialize (Heff I Hg). cbn [shared_effect K upd_nth nth_error] in Heff.
      destruct Heff as (v0 & Hv0 & ->). inversion Hv0; subst v0. apply Hearly; [unfold K; cbn [rank_main]; rewrite ?map_length, ?app_length; cbn [List.length]; unfold tmid; lia | reflexivity | cbn; auto].
    + (* M6: go func() { defer wg.Done(); writeFeaturesToTargets(..) }() = LMainStart *)
      invo En q k. specialize (Heff I Hg). cbn [shared_effect K upd_nth] in Heff. subst g'.
      exists (set_wgM (set_main (init cfg) MWait) 1). right. split; [exists LMainStart; reflexivity|].
      change (skel_rel cfg (MkG (map (th_of ts) [RoMain M7; RoRouter R0]) [false; false] [1%nat] None)
                       (set_wgM (set_main (init cfg) MWait) 1)).
      apply skel_rel_intro; [reflexivity|]. exists M7. split; [reflexivity|].
      split; [repeat constructor; cbn; intuition discriminate|]. cbn [is_early]. split; [reflexivity|].
      exists [], [], R0. split; [reflexivity|]. split; [reflexivity|]. split; [cbn; auto|]. split; [cbn; auto|].
      split; [reflexivity|]. exists []. split; [cbn; repeat split; reflexivity|]. split.
      * intros n Hi. cbn in Hi. destruct Hi as [H|[H|[]]]; discriminate.
      * cbn. intros i z Hi. destruct i; discriminate.
  - (* after the first go statement *)
    destruct Hph as (Hmain & Hlate).
    destruct Hlate as (wch & wrest & prt & Hchans & Hwgs & Hsn & Hrd & Hrt & Hrel). subst chans wgs.
    assert (Hgo : forall p' s', is_early p' = false -> s_main s' = main_st p' -> s_panic s' = None ->
              s_sn s' = s_sn s -> s_rd s' = s_rd s -> s_rt s' = s_rt s -> s_wr s' = s_wr s -> s_wgR s' = s_wgR s -> s_wgM s' = s_wgM s ->
              sn_clause p' roles s -> rd_clause cfg p' roles s ->
              coh cfg (upd_nth t (RoMain p') roles)
                  (rd_is_closed (s_rd s) :: sn_is_closed (s_sn s) :: wch) (s_wgM s :: wrest) s').
    { intros p' s' He' Hm' Hp' E1 E2 E3 E4 E5 E6 Hsn' Hrd'.
      apply (coh_late_intro _ _ _ _ _ p'); auto.
      - exact (lk_upd_same _ _ _ (RoMain p') Hnd Hn eq_refl).
      - now rewrite (kinds_upd _ _ _ (RoMain p') Hn eq_refl).
      - rewrite <- E1, <- E2, <- E6. apply (late_intro cfg p' _ s' wch wrest prt).
        + eapply sn_clause_other; [|exact E1|exact Hsn']. apply (lk_upd_other _ _ _ (RoMain p') KSnap Hn eq_refl). discriminate.
        + eapply rd_clause_other; [|exact E2|exact Hrd']. apply (lk_upd_other _ _ _ (RoMain p') KRead Hn eq_refl). discriminate.
        + rewrite (lk_upd_other _ _ _ (RoMain p') KRouter Hn eq_refl) by discriminate. exact Hrt.
        + rewrite E3, E4, E5. eapply rt_rel_ext; [|exact Hrel].
          apply (same_writers_upd _ _ _ (RoMain p') Hn eq_refl). intros n; discriminate. }
    destruct p; try discriminate Ee; cbn [next_main] in En; cbn [main_st] in Hmain.
    + (* M7: go processFeatures(..) — the Snapper is started *)
      invo En q k. specialize (Heff I Hg). cbn [shared_effect] in Heff; unfold K in Heff; cbn beta in Heff. subst g'. exists s.
      assert (Hnone : lk KSnap roles = None /\ s_sn s = SRecv).
      { unfold sn_clause in Hsn. destruct (lk KSnap roles) as [[]|]; try contradiction; [destruct Hsn as [H _]; congruence | tauto]. }
      destruct Hnone as [Hnone Hsn0].
      set (roles1 := upd_nth t (RoMain M8) roles).
      assert (Hk1 : map kind_of roles1 = map kind_of roles) by (apply (kinds_upd _ _ _ _ Hn); reflexivity).
      assert (Hnew : ~ In (kind_of (RoSnap S0)) (map kind_of roles1)) by (rewrite Hk1; now apply lk_none).
      change sn_start with (th_of ts (RoSnap S0)). rewrite map_th_app.
      apply rstep_silent; [|left; unfold roles1; eapply rank_sum_go; [exact Hn | cbn; lia]].
      apply (coh_late_intro _ _ _ _ _ M8); auto.
      * rewrite lk_app_other by discriminate. exact (lk_upd_same _ _ _ (RoMain M8) Hnd Hn eq_refl).
      * apply nodup_kinds_app; [unfold roles1 in *; now rewrite Hk1 | exact Hnew].
      * apply (late_intro cfg M8 _ s wch wrest prt).
        -- unfold sn_clause. rewrite (lk_app_new roles1 (RoSnap S0) Hnew : lk KSnap _ = _).
           split; [discriminate|]. split; [exact I | exact Hsn0].
        -- unfold rd_clause in *. rewrite lk_app_other by discriminate. unfold roles1.
           rewrite (lk_upd_other _ _ _ (RoMain M8) KRead Hn eq_refl) by discriminate.
           destruct (lk KRead roles) as [[]|]; try contradiction; [destruct Hrd as [H _]; congruence | tauto].
        -- rewrite lk_app_other by discriminate. unfold roles1.
           rewrite (lk_upd_other _ _ _ (RoMain M8) KRouter Hn eq_refl) by discriminate. exact Hrt.
        -- eapply rt_rel_ext; [|exact Hrel]. eapply same_writers_trans.
           ++ apply (same_writers_upd _ _ _ (RoMain M8) Hn eq_refl). intros n; discriminate.
           ++ apply same_writers_app. intros n; discriminate.
    + (* M8: go readFeaturesFromSource(..) — the Reader is started *)
      invo En q k. specialize (Heff I Hg). cbn [shared_effect] in Heff; unfold K in Heff; cbn beta in Heff. subst g'. exists s.
      assert (Hnone : lk KRead roles = None /\ s_rd s = RdRun (c_src cfg)).
      { unfold rd_clause in Hrd. destruct (lk KRead roles) as [[]|]; try contradiction; [destruct Hrd as (_ & H & _); congruence | tauto]. }
      destruct Hnone as [Hnone Hrd0].
      set (roles1 := upd_nth t (RoMain M9) roles).
      assert (Hk1 : map kind_of roles1 = map kind_of roles) by (apply (kinds_upd _ _ _ _ Hn); reflexivity).
      assert (Hnew : ~ In (kind_of (RoRead D0)) (map kind_of roles1)) by (rewrite Hk1; now apply lk_none).
      change (rstep cfg roles s (MkG (map (th_of ts) roles1 ++ [th_of ts (RoRead D0)])
                                (rd_is_closed (s_rd s) :: sn_is_closed (s_sn s) :: wch) (s_wgM s :: wrest) None) s).
      rewrite map_th_app. apply rstep_silent; [|left; unfold roles1; eapply rank_sum_go; [exact Hn | cbn; lia]].
      apply (coh_late_intro _ _ _ _ _ M9); auto.
      * rewrite lk_app_other by discriminate. exact (lk_upd_same _ _ _ (RoMain M9) Hnd Hn eq_refl).
      * apply nodup_kinds_app; [unfold roles1 in *; now rewrite Hk1 | exact Hnew].
      * apply (late_intro cfg M9 _ s wch wrest prt).
        -- unfold sn_clause in *. rewrite lk_app_other by discriminate. unfold roles1.
           rewrite (lk_upd_other _ _ _ (RoMain M9) KSnap Hn eq_refl) by discriminate.
           destruct (lk KSnap roles) as [[]|]; try contradiction; [|destruct Hsn as [H _]; discriminate].
           split; [discriminate | tauto].
        -- unfold rd_clause. rewrite (lk_app_new roles1 (RoRead D0) Hnew : lk KRead _ = _).
           split; [discriminate|]. split; [discriminate|]. cbn. eauto.
        -- rewrite lk_app_other by discriminate. unfold roles1.
           rewrite (lk_upd_other _ _ _ (RoMain M9) KRouter Hn eq_refl) by discriminate. exact Hrt.
        -- eapply rt_rel_ext; [|exact Hrel]. eapply same_writers_trans.
           ++ apply (same_writers_upd _ _ _ (RoMain M9) Hn eq_refl). intros n; discriminate.
           ++ apply same_writers_app. intros n; discriminate.
    + (* M9: wg.Wait() returns = LReturn *)
      invo En q k. specialize (Heff I Hg). cbn [shared_effect nth_error] in Heff; unfold K in Heff; cbn beta in Heff. destruct Heff as [Hv0 ->].
      inversion Hv0 as [Hw0]. exists (set_main s MRet). right. split.
      * exists LReturn. rewrite (step_late _ _ _ M9 Hpan Hmain). cbn. now rewrite Hmain, Hw0.
      * apply skel_rel_intro; [exact Hpan|]. apply (Hgo M10 (set_main s MRet)); auto.
        -- eapply sn_clause_pm; [| |exact Hsn]; discriminate.
        -- eapply rd_clause_pm; [| | | |exact Hrd]; discriminate.
    + (* M10: return *)
      invo En q k. specialize (Heff I Hg). cbn [shared_effect] in Heff; unfold K in Heff; cbn beta in Heff. subst g'. exists s. apply rstep_silent; [|left; eapply rank_sum_upd; [exact Hn | cbn; lia]].
      apply (Hgo M11 s); auto.
      * eapply sn_clause_pm; [| |exact Hsn]; discriminate.
      * eapply rd_clause_pm; [| | | |exact Hrd]; discriminate.
    + (* M11 *) discriminate.
Qed.
