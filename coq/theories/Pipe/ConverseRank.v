(** * Pipe/ConverseRank.v — ranks of program points: how many SILENT steps (steps that change nothing in the model state)
      a goroutine can take before its next step that is a step of the model — or before it blocks or ends.

    Definitions only.  Used for the termination clause of the converse source tie: along a run of the skeleton semantics
    a step either is a step of the model (the model's measure drops), or lowers the sum of the ranks, or is a step
    inside a call of processMultiPolygon / polygonsToMulti (loops over data the skeleton does not follow).
    A goroutine's rank includes the initial ranks of the goroutines it will still start with a silent step. *)
From Coq Require Import ZArith List String Bool.
From Texel Require Import Pipe.Model Pipe.Skeleton Pipe.SkeletonSem Pipe.SkeletonSim Pipe.ConversePc Pipe.ConversePcSn Pipe.Converse.
Import ListNotations.
Open Scope list_scope.

Definition rank_wr (pc : wpc) : nat :=
  match pc with
  | W0 => 5 | W1 => 4 | W2 => 3 | W3 => 2 | WRv => 1
  | WG true => 2 | WH => 1 | WS => 3
  | WG false => 5 | WF1 => 4 | WF2 => 3 | WF3 => 2 | WF4 => 1 | WF5 => 1 | WF6 => 0
  end.

Definition rank_rd (pc : dpc) : nat :=
  match pc with
  | D0 => 4 | D1 => 3 | DH => 2 | D2 => 1 | D3 => 3 | D4 => 1 | D5 => 3 | D6 => 2 | D7 => 1 | D8 => 0
  end.

Definition rank_sn (pc : snpc) : nat :=
  match pc with
  | S0 => 4 | S1 => 3 | SL => 2 | SRv => 1
  | SG false => 2 | SC0 => 1
  | SLg0 => 7 | SLg1 => 6 | SLg2 => 5 | SLg3 => 4 | SLg4 => 3 | SLg5 => 2 | SLg6 => 1 | SX => 0
  | SG true => 10 | SP1 => 9 | SP2 => 8
  | C0a => 6 | C0b => 5 | C0c => 4 | C0d => 3 | C0e => 2 | C0f => 1
  | C1a => 7 | C1b => 6 | SPure _ BC1 => 5 | C1c => 4 | C1d => 3 | C1e => 2 | C1f => 1
  | C2a => 3 | C2b => 2 | C2c => 1
  | SHd _ => 9 | IX _ _ => 10
  | I0a _ => 8 | I0b _ => 7 | I0p _ => 1 | I0c _ => 6 | I0d _ => 5 | I0e _ => 3 | I0g _ => 4 | SPure _ (BI0 _) => 3 | I0f _ => 2
  | IS _ _ => 1
  | SQ1 => 4 | SQ2 => 3
  end.

Definition rank_rt (ts : list tmid) (pc : rtpc) : nat :=
  let n := List.length ts in
  match pc with
  | R0 => 6 + 12 * n | R1 => 5 + 12 * n | T0 => 4 + 12 * n | T1 => 3 + 12 * n | T2 => 2 + 12 * n
  | TH _ todo _ => 1 + 12 * List.length todo
  | TS1 _ _ _ todo _ => 12 + 12 * List.length todo
  | TS2 _ _ _ todo _ => 11 + 12 * List.length todo
  | TS3 _ _ _ todo _ => 10 + 12 * List.length todo
  | TS4 _ _ _ todo _ => 9 + 12 * List.length todo
  | TS5 _ _ _ todo _ => 3 + 12 * List.length todo
  | T3 _ => 3 | TL _ => 2 | TRv _ => 1
  | TG1 _ true => 5 | TG2 _ => 4 | TG3 _ => 3 | TG4 _ _ => 2 | TG5 _ _ => 1 | TG6 _ _ => 3
  | TG1 _ false => 7 | TC0 _ => 6 | TCH _ _ => 5 | TC1 _ _ _ _ => 1 | TC2 _ _ _ _ => 6
  | TW _ => 4 | TX _ => 3 | RX1 => 2 | RX2 => 1 | RX3 => 1 | RX4 => 0
  end.

Definition rank_main (ts : list tmid) (pc : mpc) : nat :=
  let n := List.length ts in
  match pc with
  | M0 => 8 + 3 * n | M1 => 7 + 3 * n | M2 => 6 + 3 * n | M3 => 5 + 3 * n
  | MH todo => 4 + 3 * List.length todo
  | MB _ todo => 6 + 3 * List.length todo
  | MS _ todo => 5 + 3 * List.length todo
  | M4 => 3 | M5 => 2 | M6 => 1
  | M7 => 11 | M8 => 6 | M9 => 1 | M10 => 1 | M11 => 0
  end.

Definition rank_role (ts : list tmid) (ro : role) : nat :=
  match ro with
  | RoMain pc => rank_main ts pc
  | RoRouter pc => rank_rt ts pc
  | RoSnap pc => rank_sn pc
  | RoRead pc => rank_rd pc
  | RoWriter _ _ _ _ pc => rank_wr pc
  end.

Definition rank_sum (ts : list tmid) (roles : list role) : nat := list_sum (map (rank_role ts) roles).

(** the Snapper moves inside a call of processMultiPolygon / polygonsToMulti *)
Definition pure_move (roles roles' : list role) : Prop :=
  exists t fs fs' b, nth_error roles t = Some (RoSnap (SPure fs b)) /\ roles' = upd_nth t (RoSnap (SPure fs' b)) roles.

(** one step of the skeleton semantics from the state of [roles], coupled with the model: either SILENT (the model
    state stays; the ranks drop, or the step is inside a pure callee) or a step of the model *)
Definition rstep (cfg : config) (roles : list role) (s : state) (g' : gstate) (s' : state) : Prop :=
  (s' = s /\ exists roles', g' = MkG (map (th_of (c_targets cfg)) roles') (g_chans g') (g_wgs g') None
                            /\ coh cfg roles' (g_chans g') (g_wgs g') s
                            /\ (rank_sum (c_targets cfg) roles' < rank_sum (c_targets cfg) roles \/ pure_move roles roles'))
  \/ ((exists l, step cfg s l = Some s') /\ skel_rel cfg g' s').

(** ** Ranked coupled runs: the coupled runs of Pipe/Converse.v with the roles written out.

    [rrun Pg cfg R C W s acts k R2 C2 W2 s2]: from the state of the skeleton semantics with goroutines [map th_of R],
    channels [C] and wait groups [W], coupled with the model state [s], the actions [acts] lead to [R2 C2 W2] coupled
    with [s2]; no step panics; [k] of the steps are steps of the Snapper inside a call of processMultiPolygon /
    polygonsToMulti; every other step either is a step of the model or lowers the sum of the ranks. *)
Definition gst (ts : list tmid) (R : list role) (C : list bool) (W : list nat) : gstate := MkG (map (th_of ts) R) C W None.

Definition rmove (cfg : config) (R : list role) (s : state) (R1 : list role) (s1 : state) (pure : bool) : Prop :=
  (s1 = s /\ if pure then pure_move R R1 else rank_sum (c_targets cfg) R1 < rank_sum (c_targets cfg) R)
  \/ (pure = false /\ exists l, step cfg s l = Some s1).

Inductive rrun (Pg : list func) (cfg : config) :
  list role -> list bool -> list nat -> state -> list action -> nat -> list role -> list bool -> list nat -> state -> Prop :=
| rrun_nil : forall R C W s, rrun Pg cfg R C W s [] 0 R C W s
| rrun_cons : forall R C W s a ev R1 C1 W1 s1 pure acts k R2 C2 W2 s2,
    gstep Pg (gst (c_targets cfg) R C W) a = Some (gst (c_targets cfg) R1 C1 W1, ev) ->
    data_ok s (gst (c_targets cfg) R C W) a ->
    coh cfg R1 C1 W1 s1 -> s_panic s1 = None -> rmove cfg R s R1 s1 pure ->
    rrun Pg cfg R1 C1 W1 s1 acts k R2 C2 W2 s2 ->
    rrun Pg cfg R C W s (a :: acts) (Nat.b2n pure + k) R2 C2 W2 s2.

(** the bound on the sum of the ranks after the first go statement of Main *)
Definition rank_bound (ts : list tmid) : nat := 32 + 17 * List.length ts.
