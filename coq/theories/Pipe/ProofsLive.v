(** * Pipe/ProofsLive.v — C11: every step lowers a natural measure (so every execution is finite,
      under ANY scheduler, no fairness assumed), no reachable state other than the final one is stuck
      (no deadlock), hence every maximal execution ends in the unique final state. *)
From Coq Require Import ZArith NArith List Bool Lia.
From Texel Require Import Pipe.Model Pipe.ProofsBase Pipe.ProofsInv.
Import ListNotations.

(** ** The measure *)

Lemma sum_cost_new : forall ts, list_sum (map w_cost (map new_writer ts)) = 2 * length ts.
Proof.
  unfold list_sum. induction ts as [|t r IH]; cbn [map fold_right length]; [reflexivity|].
  rewrite IH. cbn. lia.
Qed.

Lemma sum_cost_close : forall tm ws,
  list_sum (map w_cost (upd_writer tm w_close ws)) = list_sum (map w_cost ws).
Proof.
  unfold list_sum. induction ws as [|v r IH]; cbn [upd_writer map fold_right]; [reflexivity|].
  destruct (Z.eqb (w_tm v) tm); cbn [map fold_right]; [reflexivity | now rewrite IH].
Qed.

Lemma list_sum_cons : forall x l, list_sum (x :: l) = x + list_sum l.
Proof. reflexivity. Qed.

Ltac m_cbn :=
  unfold measure;
  cbn [s_main s_wgM s_rd s_sn s_rt s_wgR s_wr s_panic
       set_main set_wgM set_rd set_sn set_rt set_wgR set_wr set_panic
       main_cost rd_cost sn_cost rt_cost feat_cost map length fst snd].

Lemma measure_started : forall cfg s l s', s_panic s = None ->
  step_started cfg s l = Some s' -> measure cfg s' < measure cfg s.
Proof.
  intros cfg s l s' Hp H. destruct s as [mn wgM rd sn rt wgR ws pn]. cbn in Hp. subst pn.
  destruct l; cbn [step_started] in H; st_cbn.
  - discriminate.
  - (* LReadSend *)
    destruct rd as [[|f r]| |]; try discriminate. destruct sn; try discriminate.
    inversion H; subst; clear H. m_cbn. rewrite list_sum_cons. unfold feat_cost. lia.
  - destruct rd as [[|f r]| |]; try discriminate. inversion H; subst; clear H. m_cbn. cbn. lia.
  - destruct rd as [r| |]; try discriminate. inversion H; subst; clear H. m_cbn. lia.
  - (* LSnapCompute *)
    destruct sn; try discriminate. inversion H; subst; clear H. m_cbn. lia.
  - (* LSnapSend *)
    destruct sn as [|f|id ord pending| | |]; try discriminate.
    destruct (take_pend ord tm pending) as [[og pending']|] eqn:Et; [|discriminate].
    apply take_pend_key in Et. apply take_key_length in Et.
    destruct og as [g|].
    + destruct rt; try discriminate. inversion H; subst; clear H. m_cbn. lia.
    + inversion H; subst; clear H. m_cbn. lia.
  - destruct sn as [|f|id ord [|e pending]| | |]; try discriminate. inversion H; subst; clear H. m_cbn. lia.
  - (* LSnapEof *)
    destruct sn; try discriminate. destruct rd; try discriminate; inversion H; subst; clear H; m_cbn; lia.
  - destruct sn; try discriminate. inversion H; subst; clear H. m_cbn. lia.
  - destruct sn; try discriminate. inversion H; subst; clear H. m_cbn. lia.
  - (* LRouterSpawn *)
    destruct rt; try discriminate. inversion H; subst; clear H. unfold measure. st_cbn.
    rewrite sum_cost_new. cbn [rt_cost]. lia.
  - (* LDeliver *)
    destruct rt as [| |tm m| |]; try discriminate.
    destruct (find_writer tm ws) as [w|] eqn:Ef.
    2:{ inversion H; subst; clear H. m_cbn. lia. }
    destruct (w_closed w).
    { inversion H; subst; clear H. m_cbn. lia. }
    destruct (w_st w) eqn:Ew; try discriminate. inversion H; subst; clear H.
    pose proof (sum_upd w_cost tm (w_set_st (WHold m)) ws w Ef) as Hs.
    assert (H1 : w_cost w = 2) by (unfold w_cost; rewrite Ew; reflexivity).
    change (w_cost (w_set_st (WHold m) w)) with 3 in Hs. rewrite H1 in Hs.
    m_cbn. lia.
  - (* LRouterEof *)
    destruct rt; try discriminate. destruct sn; try discriminate; inversion H; subst; clear H; m_cbn; lia.
  - (* LRouterClose *)
    destruct rt as [| | |todo|]; try discriminate.
    destruct (memz tm todo) eqn:Em; [|discriminate]. inversion H; subst; clear H.
    apply memz_In in Em. apply (remove_tm_length_lt tm) in Em.
    unfold measure. st_cbn. rewrite sum_cost_close. cbn [rt_cost]. lia.
  - (* LRouterWait *)
    destruct rt as [| | |[|t todo]|]; try discriminate. destruct wgR; [|discriminate].
    destruct wgM; inversion H; subst; clear H; m_cbn; lia.
  - (* LRecv *)
    destruct (find_writer tm ws) as [w|] eqn:Ef; [|discriminate].
    destruct (w_st w) eqn:Ew; try discriminate.
    destruct (msg_eqb m m0); [|discriminate]. inversion H; subst; clear H.
    pose proof (sum_upd w_cost tm (w_handle m0) ws w Ef) as Hs.
    assert (H1 : w_cost w = 3) by (unfold w_cost; rewrite Ew; reflexivity).
    change (w_cost (w_handle m0 w)) with 2 in Hs. rewrite H1 in Hs.
    m_cbn. lia.
  - (* LWriterEof *)
    destruct (find_writer tm ws) as [w|] eqn:Ef; [|discriminate].
    destruct (w_st w) eqn:Ew; try discriminate. destruct (w_closed w); [|discriminate].
    inversion H; subst; clear H.
    pose proof (sum_upd w_cost tm (w_set_st WFin) ws w Ef) as Hs.
    assert (H1 : w_cost w = 2) by (unfold w_cost; rewrite Ew; reflexivity).
    change (w_cost (w_set_st WFin w)) with 1 in Hs. rewrite H1 in Hs.
    m_cbn. lia.
  - (* LFinish *)
    destruct (find_writer tm ws) as [w|] eqn:Ef; [|discriminate].
    destruct (w_st w) eqn:Ew; try discriminate.
    pose proof (sum_upd w_cost tm (w_set_st WDone) ws w Ef) as Hs.
    assert (H1 : w_cost w = 1) by (unfold w_cost; rewrite Ew; reflexivity).
    change (w_cost (w_set_st WDone w)) with 0 in Hs. rewrite H1 in Hs.
    destruct wgR; inversion H; subst; clear H; m_cbn; lia.
  - (* LReturn *)
    destruct mn; try discriminate. destruct wgM; [|discriminate]. inversion H; subst; clear H. m_cbn. lia.
Qed.

(** C11: every step strictly lowers the measure — for every configuration, also ill-formed ones *)
Theorem measure_decreases : forall cfg s l s', step cfg s l = Some s' -> measure cfg s' < measure cfg s.
Proof.
  intros cfg s l s' H. unfold step in H. destruct (s_panic s) eqn:Ep; [discriminate|].
  destruct (s_main s) eqn:Em.
  - destruct l; try discriminate. inversion H; subst; clear H.
    destruct s as [mn wgM rd sn rt wgR ws pn]. cbn in Ep, Em. subst. m_cbn. lia.
  - now apply (measure_started cfg s l s' Ep).
  - now apply (measure_started cfg s l s' Ep).
Qed.

Lemma exec_measure : forall cfg s ls s', exec cfg s ls s' -> measure cfg s' + length ls <= measure cfg s.
Proof.
  induction 1 as [|s ls s1 l s2 _ IH Hs]; [cbn; lia|].
  apply measure_decreases in Hs. rewrite app_length. cbn [length]. lia.
Qed.

(** an execution from [s] has at most [measure cfg s] steps *)
Theorem exec_length_bound : forall cfg s ls s', exec cfg s ls s' -> length ls <= measure cfg s.
Proof. intros cfg s ls s' H. apply exec_measure in H. lia. Qed.

(** there is no infinite execution, whatever the scheduler does *)
Theorem no_infinite_execution : forall cfg (sts : nat -> state),
  ~ (forall n, exists l, step cfg (sts n) l = Some (sts (S n))).
Proof.
  intros cfg sts Hinf.
  assert (Hb : forall n, measure cfg (sts n) + n <= measure cfg (sts 0)).
  { induction n as [|n IH]; [lia|]. destruct (Hinf n) as [l Hl]. apply measure_decreases in Hl. lia. }
  specialize (Hb (S (measure cfg (sts 0)))). lia.
Qed.

(** ** No deadlock *)

Definition stuck (cfg : config) (s : state) : Prop := forall l, step cfg s l = None.

Lemma step_of_started : forall cfg s l, s_panic s = None -> s_main s <> MInit ->
  step cfg s l = step_started cfg s l.
Proof.
  intros cfg s l Hp Hm. unfold step. rewrite Hp. destruct (s_main s); [contradiction | reflexivity | reflexivity].
Qed.

Lemma live_pos_of_member : forall ws w, In w ws -> w_st w <> WDone -> list_sum (map w_live ws) <> 0.
Proof.
  unfold list_sum. induction ws as [|v r IH]; cbn [In map fold_right]; intros w Hin Hw; [tauto|].
  destruct Hin as [->|Hin].
  - unfold w_live at 1. destruct (w_st w); try congruence; cbn; lia.
  - specialize (IH w Hin Hw). lia.
Qed.

Lemma progress_started : forall cfg s, wf_config cfg -> Inv cfg s -> s_main s <> MInit -> final s = false ->
  exists l s', step_started cfg s l = Some s'.
Proof.
  intros cfg s Hwf HI Hst Hnf.
  destruct s as [mn wgM rd sn rt wgR ws pn]. inv_pre HI. subst pn.
  unfold final in Hnf. cbn in Hnf.
  assert (Hkeys' : rt <> TInit -> map w_tm ws = c_targets cfg) by (destruct rt; congruence).
  (* a writer is blocked receiving on an open channel, or done, or can move on its own *)
  assert (Hwstep : forall w, In w ws -> rt <> TInit ->
            (w_st w = WRecv /\ w_closed w = false) \/ w_st w = WDone
            \/ exists l s', step_started cfg (MkState mn wgM rd sn rt wgR ws None) l = Some s').
  { intros w Hw Hrt.
    assert (Hf : find_writer (w_tm w) ws = Some w)
      by (apply In_find_writer; [rewrite (Hkeys' Hrt); apply Hwf | exact Hw]).
    destruct (w_st w) eqn:Ew.
    - destruct (w_closed w) eqn:Ec.
      + right; right. exists (LWriterEof (w_tm w)). cbn [step_started s_wr]. rewrite Hf, Ew, Ec. eauto.
      + left. split; reflexivity.
    - right; right. exists (LRecv (w_tm w) m). cbn [step_started s_wr]. rewrite Hf, Ew, msg_eqb_refl. eauto.
    - right; right. exists (LFinish (w_tm w)). cbn [step_started s_wr s_wgR]. rewrite Hf, Ew.
      assert (Hpos : wgR <> 0) by (rewrite HwgR; apply (live_pos_of_member ws w Hw); congruence).
      destruct wgR; [contradiction | eauto].
    - right; left. reflexivity. }
  destruct rt as [| |tm m|todo|].
  - (* TInit *) exists LRouterSpawn. cbn [step_started s_rt]. eauto.
  - (* TRecv: the snapper or the reader can move, or the router sees the close *)
    destruct sn as [|f|id ord [|[k og] pending]| | |].
    + destruct rd as [[|f r]| |].
      * exists LReadClose. cbn [step_started s_rd]. eauto.
      * exists LReadSend. cbn [step_started s_rd s_sn]. eauto.
      * exists LSnapEof. cbn [step_started s_rd s_sn]. eauto.
      * exists LSnapEof. cbn [step_started s_rd s_sn]. eauto.
    + exists LSnapCompute. cbn [step_started s_sn]. eauto.
    + exists LSnapLoop. cbn [step_started s_sn]. eauto.
    + exists (LSnapSend k). cbn [step_started s_sn s_rt]. rewrite take_pend_head.
      destruct Hsnwf as (_ & _ & Hsome). inversion Hsome as [|? ? Hog _]; subst. cbn [snd] in Hog.
      destruct og; [eauto | congruence].
    + exists LSnapClose. cbn [step_started s_sn]. eauto.
    + exists LRouterEof. cbn [step_started s_sn s_rt]. eauto.
    + exists LRouterEof. cbn [step_started s_sn s_rt]. eauto.
  - (* THave: the target's writer takes the feature, or is still handling the previous one *)
    assert (Hrt : THave tm m <> TInit) by discriminate.
    destruct (find_writer_Some_ex tm ws) as [w Hf]; [rewrite (Hkeys' Hrt); exact Hhave|].
    destruct (Hwstep w (proj1 (find_writer_In _ _ _ Hf)) Hrt) as [[Ew Ec]|[Ew|Hex]].
    + exists LDeliver. cbn [step_started s_rt s_wr]. rewrite Hf, Ec, Ew. eauto.
    + destruct (Hwr _ _ Hf) as [Hc1 Hc2]. cbn [chan_closed] in Hc1.
      rewrite Hc2 in Hc1 by (now right). discriminate.
    + exact Hex.
  - (* TClosing *)
    destruct todo as [|t todo].
    + destruct wgR as [|n].
      * exists LRouterWait. cbn [step_started s_rt s_wgR s_wgM]. destruct wgM; eauto.
      * assert (Hrt : TClosing [] <> TInit) by discriminate.
        destruct (live_pos_ex ws) as (w & Hw & Hnd); [rewrite <- HwgR; discriminate|].
        destruct (Hwstep w Hw Hrt) as [[Ew Ec]|[Ew|Hex]].
        -- assert (Hf : find_writer (w_tm w) ws = Some w)
             by (apply In_find_writer; [rewrite (Hkeys' Hrt); apply Hwf | exact Hw]).
           destruct (Hwr _ _ Hf) as [Hc1 _]. cbn [chan_closed memz negb] in Hc1. congruence.
        -- contradiction.
        -- exact Hex.
    + exists (LRouterClose t). cbn [step_started s_rt memz]. rewrite Z.eqb_refl. cbn [orb]. eauto.
  - (* TDone *)
    destruct mn; [contradiction | |].
    + (* Main waiting: the outer wait group is at zero *)
      exists LReturn. cbn [step_started s_main s_wgM]. rewrite HwgM by discriminate. eauto.
    + (* Main returned: snapper and reader only have local steps left *)
      specialize (Hrtsn eq_refl).
      destruct sn; try discriminate.
      * exists LSnapExit. cbn [step_started s_sn]. eauto.
      * specialize (Hsnrd eq_refl). destruct rd; try discriminate.
        exists LReadExit. cbn [step_started s_rd]. eauto.
Qed.

(** C11: every reachable state that is not final has an enabled step *)
Theorem no_deadlock : forall cfg s, wf_config cfg -> reachable cfg s -> final s = false ->
  exists l s', step cfg s l = Some s'.
Proof.
  intros cfg s Hwf Hr Hnf. pose proof (reachable_inv cfg s Hwf Hr) as HI.
  destruct (s_main s) eqn:Em.
  - exists LMainStart. unfold step. rewrite (inv_nopanic _ _ HI), Em. eauto.
  - destruct (progress_started cfg s Hwf HI ltac:(congruence) Hnf) as (l & s' & Hl).
    exists l, s'. rewrite step_of_started; [exact Hl | exact (inv_nopanic _ _ HI) | congruence].
  - destruct (progress_started cfg s Hwf HI ltac:(congruence) Hnf) as (l & s' & Hl).
    exists l, s'. rewrite step_of_started; [exact Hl | exact (inv_nopanic _ _ HI) | congruence].
Qed.

(** a reachable state in which nothing can move is THE final state: every maximal execution
    (finite by [no_infinite_execution]) ends with every target having exactly its features *)
Theorem stuck_is_final : forall cfg s, wf_config cfg -> reachable cfg s -> stuck cfg s ->
  s = final_state cfg.
Proof.
  intros cfg s Hwf Hr Hstuck. destruct (final s) eqn:Ef.
  - now apply final_state_unique.
  - destruct (no_deadlock cfg s Hwf Hr Ef) as (l & s' & Hl). rewrite Hstuck in Hl. discriminate.
Qed.

Lemma final_stuck : forall cfg, stuck cfg (final_state cfg).
Proof.
  intros cfg l. unfold step, final_state. cbn [s_panic s_main].
  destruct l; cbn [step_started s_main s_wgM s_rd s_sn s_rt s_wgR s_wr]; try reflexivity.
  all: destruct (find_writer tm _) as [w|] eqn:E; [|reflexivity].
  all: apply find_writer_In in E as [E _]; apply in_map_iff in E as (t & <- & _); reflexivity.
Qed.

(** from every reachable state the final state can be reached; any way of continuing gets there *)
Theorem always_completes : forall cfg s, wf_config cfg -> reachable cfg s ->
  exists ls, exec cfg s ls (final_state cfg).
Proof.
  intros cfg s Hwf. remember (measure cfg s) as n eqn:En. revert s En.
  induction n as [n IH] using lt_wf_ind. intros s En Hr.
  destruct (final s) eqn:Ef.
  - exists []. rewrite <- (final_state_unique cfg s Hwf Hr Ef). constructor.
  - destruct (no_deadlock cfg s Hwf Hr Ef) as (l & s' & Hl).
    pose proof (measure_decreases _ _ _ _ Hl) as Hlt.
    destruct (IH (measure cfg s') ltac:(lia) s' eq_refl (reachable_step _ _ _ _ Hr Hl)) as [ls Hls].
    exists (l :: ls). apply exec_run. cbn [run]. rewrite Hl. now apply exec_run.
Qed.
