(** * Pipe/ProofsBase.v — list lemmas, decidable equalities, the fan-out computed with maps
      equals the declarative [deliver]. *)
From Coq Require Import ZArith NArith List Bool Lia.
From Texel Require Import Pipe.Model.
Import ListNotations.

(** ** booleans *)

Lemma memz_In : forall x l, memz x l = true <-> In x l.
Proof.
  induction l as [|y r IH]; cbn [memz In].
  - split; [discriminate | tauto].
  - rewrite orb_true_iff, Z.eqb_eq, IH. tauto.
Qed.

Lemma memz_false : forall x l, memz x l = false <-> ~ In x l.
Proof.
  intros x l. rewrite <- memz_In. destruct (memz x l); split; congruence.
Qed.

Lemma nodupz_NoDup : forall l, nodupz l = true -> NoDup l.
Proof.
  induction l as [|y r IH]; cbn [nodupz]; intros H; [constructor|].
  apply andb_true_iff in H as [H1 H2]. constructor; [|auto].
  apply negb_true_iff in H1. now apply memz_false.
Qed.

Lemma list_eqb_eq : forall {A} (eqb : A -> A -> bool),
  (forall a b, eqb a b = true <-> a = b) -> forall x y, list_eqb eqb x y = true <-> x = y.
Proof.
  intros A eqb Heq. induction x as [|a x IH]; destruct y as [|b y]; cbn [list_eqb];
    try (split; [discriminate | congruence]); [tauto|].
  rewrite andb_true_iff, Heq, IH. split; [intros [-> ->]; reflexivity | intros E; inversion E; auto].
Qed.

Lemma geom_eqb_eq : forall a b, geom_eqb a b = true <-> a = b.
Proof.
  destruct a, b; cbn [geom_eqb]; try (split; [discriminate | congruence]).
  - rewrite N.eqb_eq. split; congruence.
  - rewrite (list_eqb_eq N.eqb N.eqb_eq). split; congruence.
  - tauto.
  - rewrite N.eqb_eq. split; congruence.
Qed.

Lemma msg_eqb_eq : forall a b, msg_eqb a b = true <-> a = b.
Proof.
  intros [i g] [j h]. unfold msg_eqb. cbn [fst snd].
  rewrite andb_true_iff, N.eqb_eq, geom_eqb_eq. split; [intros [-> ->]; reflexivity | intros E; inversion E; auto].
Qed.

Lemma msg_eqb_refl : forall a, msg_eqb a a = true.
Proof. intros a. now apply msg_eqb_eq. Qed.

(** ** remove_tm *)

Lemma In_remove_tm : forall x y l, In y (remove_tm x l) <-> In y l /\ y <> x.
Proof.
  induction l as [|z r IH]; cbn [remove_tm In]; [tauto|].
  destruct (Z.eqb_spec z x) as [->|Hne]; cbn [In]; rewrite IH; intuition congruence.
Qed.

Lemma NoDup_remove_tm : forall x l, NoDup l -> NoDup (remove_tm x l).
Proof.
  induction l as [|z r IH]; cbn [remove_tm]; intros H; [constructor|].
  inversion H as [|? ? Hn Hr]; subst. destruct (Z.eqb z x); [auto|].
  constructor; [|auto]. rewrite In_remove_tm. tauto.
Qed.

Lemma remove_tm_length_le : forall x l, length (remove_tm x l) <= length l.
Proof.
  induction l as [|z r IH]; cbn [remove_tm length]; [lia|]. destruct (Z.eqb z x); cbn [length]; lia.
Qed.

Lemma remove_tm_length_lt : forall x l, In x l -> length (remove_tm x l) < length l.
Proof.
  induction l as [|z r IH]; cbn [remove_tm length In]; [tauto|]. intros [->|Hin].
  - rewrite Z.eqb_refl. pose proof (remove_tm_length_le x r). lia.
  - destruct (Z.eqb z x); cbn [length]; [pose proof (remove_tm_length_le x r); lia|]. specialize (IH Hin). lia.
Qed.

(** ** writers *)

Lemma find_writer_In : forall i ws w, find_writer i ws = Some w -> In w ws /\ w_tm w = i.
Proof.
  induction ws as [|v r IH]; cbn [find_writer]; intros w H; [discriminate|].
  destruct (Z.eqb_spec (w_tm v) i) as [E|E].
  - inversion H; subst. split; [now left | reflexivity].
  - destruct (IH _ H). split; [now right | assumption].
Qed.

Lemma find_writer_None : forall i ws, find_writer i ws = None <-> ~ In i (map w_tm ws).
Proof.
  induction ws as [|v r IH]; cbn [find_writer map In]; [tauto|].
  destruct (Z.eqb_spec (w_tm v) i) as [E|E].
  - split; [discriminate | tauto].
  - rewrite IH. tauto.
Qed.

Lemma find_writer_Some_ex : forall i ws, In i (map w_tm ws) -> exists w, find_writer i ws = Some w.
Proof.
  intros i ws H. destruct (find_writer i ws) eqn:E; [eauto|]. apply find_writer_None in E. tauto.
Qed.

Lemma In_find_writer : forall ws w, NoDup (map w_tm ws) -> In w ws -> find_writer (w_tm w) ws = Some w.
Proof.
  induction ws as [|v r IH]; cbn [find_writer map In]; intros w Hnd Hin; [tauto|].
  inversion Hnd as [|? ? Hn Hr]; subst.
  destruct Hin as [->|Hin]; [now rewrite Z.eqb_refl|].
  destruct (Z.eqb_spec (w_tm v) (w_tm w)) as [E|E]; [|auto].
  exfalso. apply Hn. rewrite E. now apply in_map.
Qed.

Lemma find_upd_same : forall tm g ws, (forall w, w_tm (g w) = w_tm w) ->
  find_writer tm (upd_writer tm g ws) = option_map g (find_writer tm ws).
Proof.
  intros tm g ws Hg. induction ws as [|v r IH]; cbn [find_writer upd_writer]; [reflexivity|].
  destruct (Z.eqb_spec (w_tm v) tm) as [E|E]; cbn [find_writer].
  - rewrite Hg. destruct (Z.eqb_spec (w_tm v) tm); [reflexivity | contradiction].
  - destruct (Z.eqb_spec (w_tm v) tm); [contradiction | assumption].
Qed.

Lemma find_upd_other : forall tm i g ws, (forall w, w_tm (g w) = w_tm w) -> i <> tm ->
  find_writer i (upd_writer tm g ws) = find_writer i ws.
Proof.
  intros tm i g ws Hg Hne. induction ws as [|v r IH]; cbn [find_writer upd_writer]; [reflexivity|].
  destruct (Z.eqb_spec (w_tm v) tm) as [E|E]; cbn [find_writer].
  - rewrite Hg. destruct (Z.eqb_spec (w_tm v) i); [congruence | reflexivity].
  - destruct (Z.eqb (w_tm v) i); [reflexivity | assumption].
Qed.

Lemma map_tm_upd : forall tm g ws, (forall w, w_tm (g w) = w_tm w) ->
  map w_tm (upd_writer tm g ws) = map w_tm ws.
Proof.
  intros tm g ws Hg. induction ws as [|v r IH]; cbn [upd_writer map]; [reflexivity|].
  destruct (Z.eqb (w_tm v) tm); cbn [map]; [now rewrite Hg | now rewrite IH].
Qed.

Lemma sum_upd : forall (c : writer -> nat) tm g ws w, find_writer tm ws = Some w ->
  list_sum (map c (upd_writer tm g ws)) + c w = list_sum (map c ws) + c (g w).
Proof.
  intros c tm g. unfold list_sum.
  induction ws as [|v r IH]; cbn [find_writer upd_writer]; intros w H; [discriminate|].
  destruct (Z.eqb (w_tm v) tm); cbn [map fold_right].
  - inversion H; subst. lia.
  - specialize (IH _ H). lia.
Qed.

Lemma find_new_writer : forall i ts, In i ts -> find_writer i (map new_writer ts) = Some (new_writer i).
Proof.
  induction ts as [|t r IH]; cbn [map find_writer In]; [tauto|]. intros H.
  cbn [new_writer w_tm]. destruct (Z.eqb_spec t i) as [->|E]; [reflexivity|].
  destruct H; [contradiction | auto].
Qed.

Lemma map_tm_new : forall ts, map w_tm (map new_writer ts) = ts.
Proof. induction ts as [|t r IH]; cbn; [reflexivity | now rewrite IH]. Qed.

Lemma w_tm_set_st : forall st w, w_tm (w_set_st st w) = w_tm w. Proof. reflexivity. Qed.
Lemma w_tm_close : forall w, w_tm (w_close w) = w_tm w. Proof. reflexivity. Qed.
Lemma w_tm_handle : forall m w, w_tm (w_handle m w) = w_tm w. Proof. reflexivity. Qed.

(** ** well-formedness: the boolean test is sound *)

Lemma wf_outcomeb_sound : forall ts o, wf_outcomeb ts o = true -> wf_outcome ts o.
Proof.
  intros ts o H. unfold wf_outcomeb in H. apply andb_true_iff in H as [H1 H2]. split.
  - now apply nodupz_NoDup.
  - intros k Hk. rewrite forallb_forall in H2. apply memz_In. now apply H2.
Qed.

Lemma wf_featureb_sound : forall ts f, wf_featureb ts f = true -> wf_feature ts f.
Proof.
  intros ts f. unfold wf_featureb, wf_feature. destruct (f_kind f) as [o|parts|]; intros H.
  - apply andb_true_iff in H as [H1 H2]. split; [now apply wf_outcomeb_sound|].
    apply Forall_forall. intros e He. rewrite forallb_forall in H2. specialize (H2 _ He).
    destruct (snd e); [discriminate | discriminate].
  - apply Forall_forall. intros o Ho. rewrite forallb_forall in H. now apply wf_outcomeb_sound, H.
  - exact I.
Qed.

Lemma wf_configb_sound : forall cfg, wf_configb cfg = true -> wf_config cfg.
Proof.
  intros cfg H. unfold wf_configb in H. apply andb_true_iff in H as [H1 H2]. split.
  - now apply nodupz_NoDup.
  - apply Forall_forall. intros f Hf. rewrite forallb_forall in H2. now apply wf_featureb_sound, H2.
Qed.

(** ** association lists *)

Lemma lookup_notin : forall i o, ~ In i (map fst o) -> lookup i o = [].
Proof.
  induction o as [|[k ps] r IH]; cbn [lookup map fst In]; intros H; [reflexivity|].
  destruct (Z.eqb_spec k i); [tauto | apply IH; tauto].
Qed.

Lemma lookup_upsert : forall i k ps m,
  lookup i (upsert k ps m) = if Z.eqb k i then lookup i m ++ ps else lookup i m.
Proof.
  induction m as [|[k' qs] r IH]; cbn [upsert lookup].
  - destruct (Z.eqb k i); reflexivity.
  - destruct (Z.eqb_spec k' k) as [->|E]; cbn [lookup].
    + destruct (Z.eqb k i); reflexivity.
    + destruct (Z.eqb_spec k' i) as [->|E'].
      * destruct (Z.eqb_spec k i); [congruence | reflexivity].
      * apply IH.
Qed.

Lemma keys_upsert : forall k ps m,
  map fst (upsert k ps m) = if memz k (map fst m) then map fst m else map fst m ++ [k].
Proof.
  induction m as [|[k' qs] r IH]; cbn [upsert map fst memz app]; [reflexivity|].
  destruct (Z.eqb_spec k' k) as [->|E]; cbn [map fst orb]; [reflexivity|].
  rewrite IH. destruct (memz k (map fst r)); reflexivity.
Qed.

Lemma NoDup_snoc : forall (k : Z) l, NoDup l -> ~ In k l -> NoDup (l ++ [k]).
Proof.
  induction l as [|x r IH]; cbn [app]; intros Hnd Hn; [constructor; [tauto | constructor]|].
  inversion Hnd; subst. constructor.
  - rewrite in_app_iff. cbn [In] in *. intuition congruence.
  - apply IH; [assumption | cbn [In] in Hn; tauto].
Qed.

Lemma NoDup_keys_upsert : forall k ps m, NoDup (map fst m) -> NoDup (map fst (upsert k ps m)).
Proof.
  intros k ps m H. rewrite keys_upsert. destruct (memz k (map fst m)) eqn:E; [assumption|].
  apply NoDup_snoc; [assumption | now apply memz_false].
Qed.

Lemma In_keys_upsert : forall x k ps m, In x (map fst (upsert k ps m)) -> x = k \/ In x (map fst m).
Proof.
  intros x k ps m H. rewrite keys_upsert in H. destruct (memz k (map fst m)); [tauto|].
  apply in_app_iff in H. cbn [In] in H. intuition.
Qed.

Lemma nonempty_upsert : forall k ps m, ps <> [] ->
  Forall (fun e : tmid * list poly => snd e <> []) m ->
  Forall (fun e : tmid * list poly => snd e <> []) (upsert k ps m).
Proof.
  induction m as [|[k' qs] r IH]; cbn [upsert]; intros Hps H.
  - constructor; [assumption | constructor].
  - inversion H; subst. destruct (Z.eqb k' k).
    + constructor; [|assumption]. cbn [snd] in *. destruct qs; [contradiction | discriminate].
    + constructor; [assumption | auto].
Qed.

(** the state of the merged map *)
Definition merged_ok (ts : list tmid) (m : outcome) : Prop :=
  NoDup (map fst m) /\ incl (map fst m) ts /\ Forall (fun e => snd e <> []) m.

Lemma add_entry_ok : forall ts m e, merged_ok ts m -> In (fst e) ts -> merged_ok ts (add_entry m e).
Proof.
  intros ts m [k ps] (H1 & H2 & H3) Hk. unfold add_entry. cbn [fst snd] in *.
  destruct ps as [|p ps]; [repeat split; assumption|].
  repeat split.
  - now apply NoDup_keys_upsert.
  - intros x Hx. apply In_keys_upsert in Hx as [->|Hx]; [assumption | now apply H2].
  - apply nonempty_upsert; [discriminate | assumption].
Qed.

Lemma lookup_add_entry : forall i m e,
  lookup i (add_entry m e) = lookup i m ++ (if Z.eqb (fst e) i then snd e else []).
Proof.
  intros i m [k ps]. unfold add_entry. cbn [fst snd]. destruct ps as [|p ps].
  - destruct (Z.eqb k i); now rewrite app_nil_r.
  - rewrite lookup_upsert. destruct (Z.eqb k i); [reflexivity | now rewrite app_nil_r].
Qed.

Lemma fold_add_entry : forall ts i o m, merged_ok ts m -> wf_outcome ts o ->
  merged_ok ts (fold_left add_entry o m) /\ lookup i (fold_left add_entry o m) = lookup i m ++ lookup i o.
Proof.
  intros ts i. induction o as [|[k ps] r IH]; cbn [fold_left lookup]; intros m Hm [Hnd Hin].
  - split; [assumption | now rewrite app_nil_r].
  - cbn [map fst] in Hnd, Hin. inversion Hnd as [|? ? Hn Hr]; subst.
    assert (Hk : In k ts) by (apply Hin; now left).
    assert (Hr' : wf_outcome ts r) by (split; [assumption | intros x Hx; apply Hin; now right]).
    destruct (IH (add_entry m (k, ps)) (add_entry_ok ts m (k, ps) Hm Hk) Hr') as [Hok Hl].
    split; [assumption|]. rewrite Hl, lookup_add_entry. cbn [fst snd].
    destruct (Z.eqb_spec k i) as [->|E].
    + rewrite (lookup_notin i r Hn), app_nil_r. reflexivity.
    + now rewrite app_nil_r.
Qed.

Lemma fold_parts : forall ts i parts m, merged_ok ts m -> Forall (wf_outcome ts) parts ->
  merged_ok ts (fold_left (fun m o => fold_left add_entry o m) parts m)
  /\ lookup i (fold_left (fun m o => fold_left add_entry o m) parts m) = lookup i m ++ flat_map (lookup i) parts.
Proof.
  intros ts i. induction parts as [|o r IH]; cbn [fold_left flat_map]; intros m Hm Hwf.
  - split; [assumption | now rewrite app_nil_r].
  - inversion Hwf; subst. destruct (fold_add_entry ts i o m Hm) as [Hok Hl]; [assumption|].
    destruct (IH _ Hok) as [Hok' Hl']; [assumption|]. split; [assumption|].
    now rewrite Hl', Hl, app_assoc.
Qed.

Lemma merge_parts_ok : forall ts i parts, Forall (wf_outcome ts) parts ->
  merged_ok ts (merge_parts parts) /\ lookup i (merge_parts parts) = flat_map (lookup i) parts.
Proof.
  intros ts i parts H. unfold merge_parts.
  assert (H0 : merged_ok ts []) by (repeat split; [constructor | intros x [] | constructor]).
  destruct (fold_parts ts i parts [] H0 H) as [Hok Hl]. split; [assumption | exact Hl].
Qed.

(** messages for [i] among the entries made from an association list with distinct keys *)
Lemma pend_msgs_notin : forall id i (l : list pend), ~ In i (map fst l) -> pend_msgs id i l = [].
Proof.
  induction l as [|[k og] r IH]; cbn [pend_msgs flat_map map fst In]; intros H; [reflexivity|].
  destruct (Z.eqb_spec k i); [tauto|]. cbn [app]. apply IH. tauto.
Qed.

Lemma pend_msgs_cons : forall id i k og r,
  pend_msgs id i ((k, og) :: r) = (if Z.eqb k i then opt_msgs id og else []) ++ pend_msgs id i r.
Proof. intros. unfold pend_msgs. cbn [flat_map fst snd]. destruct (Z.eqb k i); reflexivity. Qed.

Lemma pend_msgs_map : forall id i (h : list poly -> option geom) (m : outcome), NoDup (map fst m) ->
  pend_msgs id i (map (fun e => (fst e, h (snd e))) m)
  = if memz i (map fst m) then opt_msgs id (h (lookup i m)) else [].
Proof.
  intros id i h. induction m as [|[k ps] r IH]; cbn [map fst snd memz lookup]; intros Hnd; [reflexivity|].
  inversion Hnd as [|? ? Hn Hr]; subst. rewrite pend_msgs_cons.
  destruct (Z.eqb_spec k i) as [->|E]; cbn [orb].
  - rewrite pend_msgs_notin; [now rewrite app_nil_r|].
    rewrite map_map. cbn [fst]. exact Hn.
  - cbn [app]. now apply IH.
Qed.

Lemma keys_map_pend : forall (h : list poly -> option geom) (m : outcome),
  map fst (map (fun e : tmid * list poly => (fst e, h (snd e))) m) = map fst m.
Proof. intros. rewrite map_map. reflexivity. Qed.

Lemma pend_msgs_other : forall id i ts, NoDup ts -> In i ts ->
  pend_msgs id i (map (fun t => (t, Some GOrig)) ts) = [(id, GOrig)].
Proof.
  intros id i. induction ts as [|t r IH]; cbn [map In]; intros Hnd Hin; [tauto|].
  inversion Hnd as [|? ? Hn Hr]; subst. rewrite pend_msgs_cons. cbn [opt_msgs].
  destruct (Z.eqb_spec t i) as [->|E].
  - rewrite pend_msgs_notin; [reflexivity|]. rewrite map_map. cbn [fst]. now rewrite map_id.
  - cbn [app]. apply IH; [assumption|]. destruct Hin; [contradiction | assumption].
Qed.

(** the entries of a fan-out: distinct keys, all targets, none panics *)
Definition pend_ok (ts : list tmid) (l : list pend) : Prop :=
  NoDup (map fst l) /\ incl (map fst l) ts /\ Forall (fun e : pend => snd e <> None) l.

Lemma geom_of_polys_some : forall ps, ps <> [] -> geom_of_polys ps <> None.
Proof. intros [|p [|q r]] H; cbn; congruence. Qed.

Lemma fanout_ok : forall ts f, NoDup ts -> wf_feature ts f -> pend_ok ts (snd (fanout ts f)).
Proof.
  intros ts f Hts. unfold wf_feature, fanout. destruct (f_kind f) as [o|parts|]; cbn [snd].
  - intros [[Hnd Hin] Hne]. unfold pend_ok. rewrite keys_map_pend. repeat split; [assumption | assumption |].
    apply Forall_forall. intros e He. apply in_map_iff in He as (x & <- & Hx). cbn [snd].
    rewrite Forall_forall in Hne. apply geom_of_polys_some. now apply Hne.
  - intros Hwf. destruct (merge_parts_ok ts 0%Z parts Hwf) as [(H1 & H2 & H3) _].
    unfold pend_ok. rewrite (keys_map_pend (fun ps => Some (GMulti ps))). repeat split; [assumption | assumption |].
    apply Forall_forall. intros e He. apply in_map_iff in He as (x & <- & Hx). cbn [snd]. discriminate.
  - intros _. unfold pend_ok. rewrite map_map. cbn [fst]. rewrite map_id.
    repeat split; [assumption | apply incl_refl |].
    apply Forall_forall. intros e He. apply in_map_iff in He as (x & <- & Hx). cbn [snd]. discriminate.
Qed.

(** THE FAN-OUT LEMMA: what the map-based code sends for target [i] is what [deliver] says *)
Lemma fanout_deliver : forall ts f i, NoDup ts -> wf_feature ts f -> In i ts ->
  pend_msgs (f_id f) i (snd (fanout ts f)) = feat_msgs i f.
Proof.
  intros ts f i Hts. unfold wf_feature, fanout, feat_msgs, deliver.
  destruct (f_kind f) as [o|parts|]; cbn [snd]; intros Hwf Hi.
  - destruct Hwf as [[Hnd Hin] Hne]. rewrite pend_msgs_map by assumption.
    destruct (memz i (map fst o)) eqn:E; [reflexivity|].
    apply memz_false in E. rewrite (lookup_notin i o E). reflexivity.
  - destruct (merge_parts_ok ts i parts Hwf) as [(H1 & H2 & H3) Hl].
    rewrite (pend_msgs_map (f_id f) i (fun ps => Some (GMulti ps))) by assumption. rewrite Hl.
    destruct (memz i (map fst (merge_parts parts))) eqn:E.
    + (* the key exists: its list is not empty *)
      apply memz_In in E. apply in_map_iff in E as ([k ps] & Hk & He). cbn [fst] in Hk. subst k.
      rewrite Forall_forall in H3. specialize (H3 _ He). cbn [snd] in H3.
      assert (Hps : lookup i (merge_parts parts) = ps).
      { clear - H1 He. induction (merge_parts parts) as [|[k qs] r IH]; [destruct He|].
        cbn [map fst] in H1. inversion H1 as [|? ? Hn Hr]; subst. cbn [lookup].
        destruct He as [He|He].
        - inversion He; subst. now rewrite Z.eqb_refl.
        - destruct (Z.eqb_spec k i) as [->|E]; [|auto].
          exfalso. apply Hn. apply in_map_iff. exists (i, ps). split; [reflexivity | assumption]. }
      rewrite <- Hl, Hps. destruct ps; [contradiction | reflexivity].
    + apply memz_false in E. rewrite <- Hl, (lookup_notin i _ E). reflexivity.
  - now apply pend_msgs_other.
Qed.

(** ** taking one entry out of the pending list *)

Lemma take_pend_key : forall ord tm l x, take_pend ord tm l = Some x -> take_key tm l = Some x.
Proof.
  intros [|] tm l x; cbn [take_pend]; [|tauto].
  destruct l as [|[k og] r]; [discriminate|]. cbn [take_key]. destruct (Z.eqb k tm); [tauto | discriminate].
Qed.

Lemma take_pend_head : forall ord k og r, take_pend ord k ((k, og) :: r) = Some (og, r).
Proof. intros [|] k og r; cbn [take_pend take_key]; now rewrite Z.eqb_refl. Qed.

Lemma take_key_split : forall tm l og l', take_key tm l = Some (og, l') ->
  exists a b, l = a ++ (tm, og) :: b /\ l' = a ++ b /\ ~ In tm (map fst a).
Proof.
  induction l as [|[k x] r IH]; cbn [take_key]; intros og l' H; [discriminate|].
  destruct (Z.eqb_spec k tm) as [->|E].
  - inversion H; subst. exists [], l'. repeat split. intros [].
  - destruct (take_key tm r) as [[y r']|] eqn:Et; [|discriminate]. inversion H; subst.
    destruct (IH _ _ eq_refl) as (a & b & -> & -> & Hn).
    exists ((k, x) :: a), b. repeat split. cbn [map fst In]. intuition.
Qed.

Lemma take_key_length : forall tm l og l', take_key tm l = Some (og, l') -> length l = S (length l').
Proof.
  intros tm l og l' H. destruct (take_key_split _ _ _ _ H) as (a & b & -> & -> & _).
  rewrite !app_length. cbn [length]. lia.
Qed.

Lemma take_key_ok : forall ts tm l og l', take_key tm l = Some (og, l') -> pend_ok ts l ->
  pend_ok ts l' /\ In tm ts /\ og <> None.
Proof.
  intros ts tm l og l' H (H1 & H2 & H3). destruct (take_key_split _ _ _ _ H) as (a & b & -> & -> & _).
  rewrite map_app in H1, H2. cbn [map fst] in H1, H2.
  apply Forall_app in H3 as [Ha Hb]. inversion Hb as [|? ? Hog Hb']; subst. cbn [snd] in Hog.
  split; [|split].
  - split; [|split].
    + rewrite map_app. apply NoDup_remove_1 in H1. exact H1.
    + rewrite map_app. intros x Hx. apply H2. rewrite in_app_iff in *. cbn [In]. tauto.
    + apply Forall_app. split; assumption.
  - apply H2. rewrite in_app_iff. cbn [In]. tauto.
  - exact Hog.
Qed.

Lemma pend_msgs_app : forall id i a b, pend_msgs id i (a ++ b) = pend_msgs id i a ++ pend_msgs id i b.
Proof. intros. unfold pend_msgs. apply flat_map_app. Qed.

Lemma take_key_msgs : forall id i tm l og l', take_key tm l = Some (og, l') -> NoDup (map fst l) ->
  pend_msgs id i l = (if Z.eqb tm i then opt_msgs id og else []) ++ pend_msgs id i l'.
Proof.
  intros id i tm l og l' H Hnd. destruct (take_key_split _ _ _ _ H) as (a & b & -> & -> & Hna).
  rewrite !pend_msgs_app, pend_msgs_cons.
  destruct (Z.eqb_spec tm i) as [->|E]; [|reflexivity].
  rewrite (pend_msgs_notin id i a Hna). reflexivity.
Qed.

(** ** [expected] read back: the defining equations of [deliver], and source order / at most once *)

Lemma deliver_spec : forall i id,
  deliver i (MkFeature id KOther) = Some GOrig
  /\ (forall o, deliver i (MkFeature id (KPolygon o))
                = match lookup i o with
                  | [] => None                      (* dropped: nothing reaches the target *)
                  | [p] => Some (GPoly p)           (* kept: that polygon *)
                  | ps => Some (GMulti ps)          (* split: one multipolygon of all of them, in order *)
                  end)
  /\ (forall parts, deliver i (MkFeature id (KMulti parts))
                    = match flat_map (lookup i) parts with
                      | [] => None
                      | ps => Some (GMulti ps)      (* the parts' results for i, concatenated in part order *)
                      end).
Proof.
  intros i id. split; [reflexivity|]. split.
  - intros o. unfold deliver. cbn [f_kind]. unfold geom_of_polys. destruct (lookup i o) as [|p [|q r]]; reflexivity.
  - intros parts. reflexivity.
Qed.

Lemma expected_of_cons_base : forall i f r, expected_of i (f :: r) = feat_msgs i f ++ expected_of i r.
Proof. reflexivity. Qed.

Definition delivered (i : tmid) (f : feature) : bool :=
  match deliver i f with Some _ => true | None => false end.

(** the features a target gets are the source features that have a geometry for it: in source order,
    each one once *)
Lemma expected_ids : forall i src, map fst (expected_of i src) = map f_id (filter (delivered i) src).
Proof.
  intros i. induction src as [|f r IH]; [reflexivity|].
  rewrite expected_of_cons_base. unfold delivered at 1, feat_msgs. cbn [filter].
  destruct (deliver i f); cbn [map app fst]; now rewrite IH.
Qed.
