(** * Pipe/ProofsConverse6.v — converse source tie, part 6: the steps the Router takes on its own
      (the spawn loop = LRouterSpawn at its end, the receive loop, the close loop, wg.Wait and the deferred wg.Done). *)
From Coq Require Import ZArith List String Bool Lia Permutation.
From Texel Require Import Pipe.Model Pipe.ProofsBase Pipe.ProofsInv Pipe.ProofsLive Pipe.Skeleton Pipe.SkeletonSem Pipe.SkeletonSim
  Pipe.ProofsSkeleton Pipe.ConversePc Pipe.ConversePcSn Pipe.ProofsConversePc Pipe.ProofsConversePcSn Pipe.Converse Pipe.ConverseRank
  Pipe.ProofsConverse1 Pipe.ProofsConverse2 Pipe.ProofsConverse4 Pipe.ProofsConverse5.
Import ListNotations.
Open Scope string_scope.
Open Scope list_scope.

Lemma perm_nodup_mid : forall (ts done rem : list tmid) z, NoDup ts -> Permutation (done ++ [z] ++ rem) ts -> ~ In z done.
Proof.
  intros ts done rem z Hnd Hp. apply Permutation_sym in Hp. pose proof (Permutation_NoDup Hp Hnd) as H.
  apply NoDup_remove_2 in H. intros Hi. apply H. apply in_or_app. now left.
Qed.

(** the Writers in front of their first receive become the model's fresh writers *)
Lemma writers_pre_run : forall ts done roles, Permutation done ts -> writers_pre done roles ->
  writers_run done roles (repeat false (List.length done)) (map new_writer ts).
Proof.
  intros ts done roles Hp H i z Hi. destruct (H i z Hi) as (chm' & pc & Hl & Hpre).
  exists chm', pc, (new_writer z). split; [exact Hl|]. split; [|split].
  - apply find_new_writer. eapply Permutation_in; [exact Hp|]. eapply nth_error_In; eauto.
  - now apply prerecv_wr_rel.
  - cbn. apply nth_error_repeat. apply nth_error_Some. congruence.
Qed.

(** the entries of the map of channels at the start of the close loop *)
Lemma closing_start : forall ts done wch, NoDup ts -> Permutation done ts -> List.length wch = List.length done -> allopen wch ->
  closing done (chmap done) ts wch.
Proof.
  intros ts done wch Hnd Hp Hlen Hopen. unfold chmap.
  assert (Hndd : NoDup done) by (eapply Permutation_NoDup; [apply Permutation_sym; exact Hp | exact Hnd]).
  split; [now rewrite chmap_from_keys|]. split; [exact Hnd|]. split.
  - intros z. rewrite chmap_from_keys. split; intros Hi; [eapply Permutation_in; [apply Permutation_sym; exact Hp | exact Hi] | eapply Permutation_in; [exact Hp | exact Hi]].
  - intros z v Hi. destruct (chmap_from_entries _ _ _ _ Hi) as (i & Hz & ->). exists i. split; [exact Hz|]. split; [reflexivity|].
    destruct (nth_error wch i) as [b|] eqn:Eb.
    + now rewrite (allopen_nth _ _ _ Hopen Eb).
    + apply nth_error_None in Eb. assert (i < List.length done)%nat by (apply nth_error_Some; congruence). lia.
Qed.

(** one iteration of the close loop is taken out of the entries *)
Lemma closing_take : forall done todo tl wch z v todo', mtake z todo = Some (v, todo') ->
  closing done todo tl wch -> closing done ((z, v) :: todo') tl wch.
Proof.
  intros done todo tl wch z v todo' Hm (H1 & H2 & H3 & H4).
  destruct (mtake_split _ _ _ _ Hm) as (a & b & -> & -> & Hni).
  assert (Hperm : Permutation ((z, v) :: a ++ b) (a ++ (z, v) :: b)) by apply Permutation_middle.
  split; [|split; [exact H2|split]].
  - eapply Permutation_NoDup; [|exact H1]. apply Permutation_sym. apply (Permutation_map fst) in Hperm. exact Hperm.
  - intros z'. rewrite H3. pose proof (Permutation_map fst Hperm) as Hpm. split; intros Hi.
    + exact (Permutation_in _ (Permutation_sym Hpm) Hi).
    + exact (Permutation_in _ Hpm Hi).
  - intros z' v' Hi. apply H4. exact (Permutation_in _ Hperm Hi).
Qed.

(** the channel of the entry being visited is closed *)
Lemma closing_close : forall done todo tl wch z i, NoDup done -> nth_error done i = Some z ->
  closing done ((z, VChan (2 + i)) :: todo) tl wch -> closing done todo (remove_tm z tl) (upd_nth i true wch).
Proof.
  intros done todo tl wch z i Hnd Hz (H1 & H2 & H3 & H4). cbn [map fst] in H1. inversion H1 as [|? ? Hni Hnd']; subst.
  split; [exact Hnd'|]. split; [now apply NoDup_remove_tm|]. split.
  - intros z'. rewrite In_remove_tm, H3. cbn [map fst In]. split.
    + intros [[E|Hi] Hne]; [congruence | exact Hi].
    + intros Hi. split; [now right | intros ->; contradiction].
  - intros z' v' Hi. destruct (H4 z' v' (or_intror Hi)) as (j & Hj & -> & Hc). exists j. split; [exact Hj|]. split; [reflexivity|].
    rewrite nth_error_upd_nth_other; [exact Hc|]. intros ->.
    pose proof (eq_trans (eq_sym Hj) Hz) as E. inversion E; subst z'. apply Hni. apply (in_map fst) in Hi. exact Hi.
Qed.

(** ** A goroutine is started: a role of a new kind is appended *)

Lemma lk_app_other : forall k roles ro, kind_of ro <> k -> lk k (roles ++ [ro]) = lk k roles.
Proof.
  intros k roles ro H. rewrite lk_app. destruct (lk k roles); [reflexivity|]. now rewrite kind_eqb_neq.
Qed.

Lemma lk_app_new : forall roles ro, ~ In (kind_of ro) (map kind_of roles) -> lk (kind_of ro) (roles ++ [ro]) = Some ro.
Proof.
  intros roles ro H. rewrite lk_app. apply lk_none in H. rewrite H. now rewrite kind_eqb_refl.
Qed.

Lemma nodup_kinds_app : forall roles ro, NoDup (map kind_of roles) -> ~ In (kind_of ro) (map kind_of roles) ->
  NoDup (map kind_of (roles ++ [ro])).
Proof.
  intros roles ro Hnd Hni. rewrite map_app. cbn [map].
  induction (map kind_of roles) as [|k ks IH]; cbn.
  - constructor; [intros [] | constructor].
  - inversion Hnd; subst. constructor.
    + rewrite in_app_iff. cbn. intros [Hi|[E|[]]]; [contradiction|]. apply Hni. now left.
    + apply IH; [assumption|]. intros Hi. apply Hni. now right.
Qed.

Lemma map_th_app : forall ts roles ro, map (th_of ts) roles ++ [th_of ts ro] = map (th_of ts) (roles ++ [ro]).
Proof. intros. now rewrite map_app. Qed.

(** ** The Router *)

Lemma step_router : forall cfg roles chans wgs s t p c g' ev,
  NoDup (c_targets cfg) ->
  coh cfg roles chans wgs s -> s_panic s = None -> nth_error roles t = Some (RoRouter p) ->
  gstep P (MkG (map (th_of (c_targets cfg)) roles) chans wgs None) (ALocal t c) = Some (g', ev) ->
  choice_ok s (th_rt (c_targets cfg) p) c ->
  exists s', rstep cfg roles s g' s'.
Proof.
  intros cfg roles chans wgs s t p c g' ev Hndts Hcoh Hpan Hn Hg Hch.
  set (ts := c_targets cfg) in *.
  destruct (coh_inv_late _ _ _ _ _ _ _ Hcoh Hn) as (pm & Hm & Hnd & He & Hmain & Hlate); [discriminate|].
  destruct Hlate as (wch & wrest & prt & Hchans & Hwgs & Hsn & Hrd & Hrt & (done & Hcore & Hview)). subst chans wgs.
  pose proof (lk_nth _ _ _ Hnd Hn) as Hlk. cbn [kind_of] in Hlk. rewrite Hlk in Hrt. inversion Hrt; subst prt. clear Hrt.
  pose proof (rt_spec ts p c) as Hspec.
  destruct (next_rt ts p c) as [[q k]|] eqn:En; destruct (tstep P c (th_rt ts p)) as [[q' th']|] eqn:Et;
    cbn [spec] in Hspec; try contradiction.
  2: { exfalso. eapply (no_local_step ts roles (rd_is_closed (s_rd s) :: sn_is_closed (s_sn s) :: wch) (s_wgM s :: wrest) t c (RoRouter p)); eauto. }
  destruct Hspec as [-> Hpost].
  pose proof (local_effect ts roles (rd_is_closed (s_rd s) :: sn_is_closed (s_sn s) :: wch) (s_wgM s :: wrest) t c (RoRouter p) q th' (expect_rt p) (fun b => RoRouter (k b)) g' ev Hn Et Hpost) as Heff.
  (* rebuilding the relation after the Router has moved to [p'] *)
  assert (Hgo : forall p' s' wch' wrest',
            s_sn s' = s_sn s -> s_rd s' = s_rd s -> s_main s' = s_main s -> s_panic s' = None ->
            (exists done', rt_core ts p' done' wch' wrest' (s_rt s') (s_wr s') (s_wgR s') /\ wview p' done' roles wch' (s_wr s')) ->
            coh cfg (upd_nth t (RoRouter p') roles)
                (rd_is_closed (s_rd s) :: sn_is_closed (s_sn s) :: wch') (s_wgM s' :: wrest') s').
  { intros p' s' wch' wrest' E1 E2 E3 E4 (done' & Hc' & Hv').
    eapply coh_upd; eauto; [discriminate | congruence|].
    rewrite <- E1, <- E2. apply (late_intro cfg pm _ s' wch' wrest' p').
    - eapply sn_clause_other; [|exact E1|exact Hsn]. apply (lk_upd_other _ _ _ (RoRouter p') KSnap Hn eq_refl). discriminate.
    - eapply rd_clause_other; [|exact E2|exact Hrd]. apply (lk_upd_other _ _ _ (RoRouter p') KRead Hn eq_refl). discriminate.
    - exact (lk_upd_same _ _ _ (RoRouter p') Hnd Hn eq_refl).
    - exists done'. split; [exact Hc'|]. eapply wview_router_upd; eauto. }
  assert (Hrk : forall p', (rank_rt ts p' < rank_rt ts p)%nat ->
            (rank_sum ts (upd_nth t (RoRouter p') roles) < rank_sum ts roles)%nat \/ pure_move roles (upd_nth t (RoRouter p') roles)).
  { intros p' H. left. eapply rank_sum_upd; [exact Hn | exact H]. }
  assert (Htau : forall p', (rank_rt ts p' < rank_rt ts p)%nat ->
            (exists done', rt_core ts p' done' wch wrest (s_rt s) (s_wr s) (s_wgR s) /\ wview p' done' roles wch (s_wr s)) ->
            exists s', rstep cfg roles s (MkG (map (th_of ts) (upd_nth t (RoRouter p') roles)) (rd_is_closed (s_rd s) :: sn_is_closed (s_sn s) :: wch) (s_wgM s :: wrest) None) s').
  { intros p' Hr H. exists s. apply rstep_silent; [apply Hgo; auto | apply Hrk; exact Hr]. }
  destruct p; cbn [next_rt] in En; cbn [rt_core] in Hcore;
    try (invo En q k; specialize (Heff I Hg); cbn [shared_effect K] in Heff; subst g';
         (apply Htau; [unfold K; cbn [rank_rt]; rewrite ?map_length, ?app_length, ?map_length; cbn [List.length]; unfold tmid; lia|]); exists done; split; [exact Hcore | exact Hview]; fail).
  - (* T1: wg := sync.WaitGroup{} *)
    invo En q k. destruct Hcore as (-> & Hti & -> & ->).
    specialize (Heff eq_refl Hg). cbn [shared_effect K] in Heff. subst g'. exists s. apply rstep_silent; [|apply Hrk; unfold K; cbn [rank_rt]; rewrite ?map_length, ?app_length, ?map_length; cbn [List.length]; unfold tmid; lia].
    apply (Hgo T2 s [] [0%nat]); auto. exists []. split; [cbn; auto | exact Hview].
  - (* T2: the head statement of the spawn loop *)
    invo En q k. specialize (Heff I Hg). cbn [shared_effect K] in Heff. subst g'. destruct Hcore as (-> & Hti & -> & ->).
    apply Htau; [unfold K; cbn [rank_rt]; rewrite ?map_length, ?app_length, ?map_length; cbn [List.length]; unfold tmid; lia|]. exists []. split; [|exact Hview]. cbn. exists ts. repeat split; try apply Hti; reflexivity.
  - (* TH: head of the spawn loop *)
    destruct Hcore as (rem & (Hti & Hperm & -> & ->) & -> & -> & ->).
    destruct c as [| | |[z|]|]; try discriminate.
    + (* next target *)
      destruct (mtake z (map mkA rem)) as [[v todo']|] eqn:Em; [|discriminate].
      invo En q k. specialize (Heff I Hg). cbn [shared_effect K] in Heff. subst g'.
      destruct (mtake_split _ _ _ _ Em) as (a & b & Eab & -> & _).
      destruct (map_mkA_split _ _ _ _ _ Eab) as (r1 & r2 & -> & -> & -> & ->).
      apply Htau; [unfold K; cbn [rank_rt]; rewrite ?map_length, ?app_length, ?map_length; cbn [List.length]; unfold tmid; lia|]. exists done. split; [|exact Hview]. cbn. exists (r1 ++ r2).
      split; [|auto]. split; [exact Hti|]. split; [|split; [now rewrite map_app | reflexivity]].
      eapply Permutation_trans; [|exact Hperm]. apply Permutation_app_head. cbn. apply Permutation_middle.
    + (* end of the spawn loop = LRouterSpawn *)
      destruct rem as [|r0 rem]; [|discriminate]. cbn in En. invo En q k. specialize (Heff I Hg). cbn [shared_effect K] in Heff. subst g'.
      destruct Hti as (Hrt0 & Hws0 & HwgR0). cbn [app] in Hperm. rewrite app_nil_r in Hperm.
      exists (set_rt (set_wgR (set_wr s (map new_writer ts)) (s_wgR s + List.length ts)) TRecv). right. split.
      * exists LRouterSpawn. rewrite (step_late _ _ _ pm Hpan Hmain). cbn. fold ts. now rewrite Hrt0.
      * apply skel_rel_intro; [exact Hpan|]. apply (Hgo (T3 (chmap done)) (set_rt (set_wgR (set_wr s (map new_writer ts)) (s_wgR s + List.length ts)) TRecv)
                  (repeat false (List.length done)) [List.length done]); auto. cbn [s_rt s_wr s_wgR set_rt set_wgR set_wr].
        destruct Hview as [Hb Hv]. cbn in Hb, Hv. exists done. split.
        -- cbn. split; [|split; [reflexivity | split; [reflexivity | apply allopen_repeat]]].
           split; [exact Hperm|]. split; [rewrite HwgR0; cbn; now rewrite (Permutation_length Hperm)|].
           split; [apply repeat_length | apply map_tm_new].
        -- split; [exact Hb|]. cbn. now apply writers_pre_run.
  - (* TS1: make(chan) *)
    destruct Hcore as (rem & (Hti & Hperm & -> & ->) & -> & -> & -> & ->).
    invo En q k.
    assert (Hfresh : fresh_ok (QNewChan "targetChannel") (expect_rt (TS1 (chmap done) z VAny (map mkA rem) (2 + List.length done)))
                       (rd_is_closed (s_rd s) :: sn_is_closed (s_sn s) :: repeat false (List.length done)) [s_wgM s; List.length done])
      by (cbn; now rewrite repeat_length).
    specialize (Heff Hfresh Hg). cbn [shared_effect K] in Heff. subst g'. exists s. apply rstep_silent; [|apply Hrk; unfold K; cbn [rank_rt]; rewrite ?map_length, ?app_length, ?map_length; cbn [List.length]; unfold tmid; lia].
    cbn [app]. rewrite repeat_snoc. apply Hgo; auto. exists done. split; [|exact Hview].
    cbn. exists rem. repeat split; auto; try apply Hti.
  - (* TS2: targetChannels[tmID] = targetChannel *)
    destruct Hcore as (rem & (Hti & Hperm & -> & ->) & -> & -> & -> & ->).
    invo En q k. specialize (Heff I Hg). cbn [shared_effect K] in Heff. subst g'.
    apply Htau; [unfold K; cbn [rank_rt]; rewrite ?map_length, ?app_length, ?map_length; cbn [List.length]; unfold tmid; lia|]. exists done. split; [|exact Hview]. cbn. exists rem. repeat split; auto; try apply Hti.
    unfold chmap. rewrite <- mset_chmap_from by (eapply perm_nodup_mid; eauto). reflexivity.
  - (* TS3: wg.Add(1) *)
    destruct Hcore as (rem & (Hti & Hperm & -> & ->) & -> & -> & -> & ->).
    invo En q k. specialize (Heff I Hg). cbn [shared_effect K] in Heff. cbn [nth_error] in Heff.
    destruct Heff as (v0 & Hv0 & ->). inversion Hv0; subst v0. exists s. apply rstep_silent; [|apply Hrk; unfold K; cbn [rank_rt]; rewrite ?map_length, ?app_length, ?map_length; cbn [List.length]; unfold tmid; lia].
    cbn [upd_nth]. rewrite Nat.add_1_r. apply Hgo; auto. exists done. split; [|exact Hview].
    cbn. exists rem. repeat split; auto; try apply Hti.
  - (* TS4: go func(target Target) {..}(target) — a Writer is started *)
    destruct Hcore as (rem & (Hti & Hperm & -> & ->) & -> & -> & -> & ->).
    invo En q k. specialize (Heff I Hg). cbn [shared_effect K] in Heff. subst g'.
    destruct Hview as [Hb Hv]. cbn in Hb, Hv.
    set (p' := TS5 (chmap (done ++ [z])) z VAny (map mkA rem) (2 + List.length done)).
    set (wr := RoWriter (chmap (done ++ [z])) z VAny (2 + List.length done) W0).
    set (roles1 := upd_nth t (RoRouter p') roles).
    assert (Hk1 : map kind_of roles1 = map kind_of roles) by (apply (kinds_upd _ _ _ _ Hn); reflexivity).
    assert (Hnew : ~ In (kind_of wr) (map kind_of roles1)).
    { rewrite Hk1. cbn. intros Hi. apply Hb in Hi. lia. }
    exists s.
    change (rstep cfg roles s (MkG (map (th_of ts) roles1 ++ [th_of ts wr])
                              (rd_is_closed (s_rd s) :: sn_is_closed (s_sn s) :: repeat false (S (List.length done)))
                              [s_wgM s; S (List.length done)] None) s).
    rewrite map_th_app. apply rstep_silent; [|left; unfold roles1; eapply rank_sum_go; [exact Hn | unfold p', wr; cbn [rank_role rank_rt rank_wr]; rewrite ?map_length; lia]].
    apply (coh_late_intro _ _ _ _ _ pm); auto.
    + rewrite lk_app_other by discriminate. unfold roles1. rewrite (lk_upd_other _ _ _ (RoRouter p') KMain Hn eq_refl) by discriminate. exact Hm.
    + apply nodup_kinds_app; [now rewrite Hk1 | exact Hnew].
    + apply (late_intro cfg pm _ s _ _ p').
      * eapply sn_clause_other; [|reflexivity|exact Hsn]. rewrite lk_app_other by discriminate.
        apply (lk_upd_other _ _ _ (RoRouter p') KSnap Hn eq_refl). discriminate.
      * eapply rd_clause_other; [|reflexivity|exact Hrd]. rewrite lk_app_other by discriminate.
        apply (lk_upd_other _ _ _ (RoRouter p') KRead Hn eq_refl). discriminate.
      * rewrite lk_app_other by discriminate. exact (lk_upd_same _ _ _ (RoRouter p') Hnd Hn eq_refl).
      * exists done. split; [cbn; exists rem; repeat split; auto; try apply Hti|].
        split.
        -- cbn. rewrite app_length. cbn. intros n0 Hi. rewrite map_app, in_app_iff in Hi. destruct Hi as [Hi|[Hi|[]]].
           ++ rewrite Hk1 in Hi. apply Hb in Hi. lia.
           ++ inversion Hi. lia.
        -- cbn. intros i zi Hi.
           destruct (Nat.lt_ge_cases i (List.length done)) as [Hlt|Hge].
           ++ rewrite nth_error_app1 in Hi by exact Hlt. destruct (Hv i zi Hi) as (chm' & pc & Hl & Hpre).
              exists chm', pc. split; [|exact Hpre]. rewrite lk_app.
              unfold roles1. rewrite (lk_upd_other _ _ _ (RoRouter p') _ Hn eq_refl) by discriminate. now rewrite Hl.
           ++ rewrite nth_error_app2 in Hi by exact Hge. destruct (i - List.length done)%nat as [|d] eqn:Ed; [|destruct d; discriminate].
              inversion Hi; subst zi. assert (i = List.length done) by lia. subst i.
              exists (chmap (done ++ [z])), W0. split; [|reflexivity]. exact (lk_app_new roles1 wr Hnew).
  - (* TS5: end of the iteration *)
    destruct Hcore as (rem & (Hti & Hperm & -> & ->) & -> & -> & -> & ->).
    invo En q k. specialize (Heff I Hg). cbn [shared_effect K] in Heff. subst g'.
    apply Htau; [unfold K; cbn [rank_rt]; rewrite ?map_length, ?app_length, ?map_length; cbn [List.length]; unfold tmid; lia|]. exists (done ++ [z]). split.
    + cbn [rt_core]. exists rem. assert (El : List.length (done ++ [z]) = S (List.length done)) by (rewrite app_length; cbn; lia).
      rewrite El. split; [|auto]. split; [exact Hti|]. split; [|split; [reflexivity | lia]].
      cbn [app]. rewrite <- app_assoc. exact Hperm.
    + destruct Hview as [Hb Hv]. cbn in Hb, Hv. split; [exact Hb | exact Hv].
  - (* TRv: receive on the closed featuresAfter = LRouterEof *)
    invo En q k. specialize (Heff I Hg). cbn [shared_effect] in Heff. destruct Heff as [Hc ->].
    cbn in Hc. inversion Hc as [Hcl]. destruct Hcore as (Hrc & -> & Hrt0 & Hopen).
    exists (set_rt s (TClosing ts)). right. split.
    + exists LRouterEof. rewrite (step_late _ _ _ pm Hpan Hmain). cbn. fold ts. rewrite Hrt0.
      destruct (s_sn s); try discriminate; reflexivity.
    + apply skel_rel_intro; [exact Hpan|]. apply (Hgo (TG1 (chmap done) false) (set_rt s (TClosing ts)) wch wrest); auto.
      exists done. split; [cbn; auto | exact Hview].
  - (* TG1 *)
    destruct b; invo En q k; specialize (Heff I Hg); cbn [shared_effect K] in Heff; subst g'; (apply Htau; [unfold K; cbn [rank_rt]; rewrite ?map_length, ?app_length, ?map_length; cbn [List.length]; unfold tmid; lia|]); exists done;
      (split; [exact Hcore | exact Hview]).
  - (* TG3: channel := targetChannels[tmID] *)
    destruct Hcore as (tm & m & Hrc & -> & Hrt0 & Hopen).
    unfold choice_ok in Hch. cbn in Hch. rewrite Hrt0 in Hch. subst c.
    invo En q k. specialize (Heff I Hg). cbn [shared_effect K] in Heff. subst g'.
    apply Htau; [unfold K; cbn [rank_rt]; rewrite ?map_length, ?app_length, ?map_length; cbn [List.length]; unfold tmid; lia|]. exists done. split; [|exact Hview]. cbn. exists tm, m. auto.
  - (* TG4: if channel == nil { panic } *)
    destruct Hcore as (tm & m & Hrc & -> & Hrt0 & Hopen & ->).
    destruct (mget tm (chmap done)) eqn:Ev; try discriminate; invo En q k; specialize (Heff I Hg); cbn [shared_effect K] in Heff.
    + subst g'. apply Htau; [unfold K; cbn [rank_rt]; rewrite ?map_length, ?app_length, ?map_length; cbn [List.length]; unfold tmid; lia|]. exists done. split; [|exact Hview]. cbn. exists tm, m. rewrite Ev. auto.
    + (* no channel for this tile matrix = LDeliver without a writer *)
      destruct Hrc as (Hperm & _ & _ & Hkeys).
      exists (set_panic s (PanicNoChannel tm)). right. split.
      * exists LDeliver. rewrite (step_late _ _ _ pm Hpan Hmain). cbn. rewrite Hrt0.
        assert (Hnone : find_writer tm (s_wr s) = None).
        { apply find_writer_None. rewrite Hkeys. destruct (mget_chmap_from done 0 tm) as [[_ Hni]|(i & _ & Hv)].
          - intros Hi. apply Hni. eapply Permutation_in; [apply Permutation_sym; exact Hperm | exact Hi].
          - unfold chmap in Ev. congruence. }
        now rewrite Hnone.
      * apply skel_rel_panic; [exact Heff | discriminate].
  - (* TG5: a send on a closed target channel cannot happen before the close loop *)
    destruct Hcore as (tm & m & Hrc & -> & Hrt0 & Hopen & ->).
    destruct (mget tm (chmap done)) eqn:Ev; try discriminate. invo En q k. specialize (Heff I Hg). cbn [shared_effect] in Heff.
    destruct Heff as [Hc _]. exfalso.
    destruct (mget_chmap_from done 0 tm) as [[Hv _]|(i & _ & Hv)]; unfold chmap in Ev; rewrite Hv in Ev; [discriminate|].
    inversion Ev; subst c0. change (nth_error wch i = Some true) in Hc.
    pose proof (allopen_nth _ _ _ Hopen Hc). discriminate.
  - (* TC0: the head statement of the close loop *)
    destruct Hcore as (Hrc & -> & Hrt0 & Hopen).
    invo En q k. specialize (Heff I Hg). cbn [shared_effect K] in Heff. subst g'.
    apply Htau; [unfold K; cbn [rank_rt]; rewrite ?map_length, ?app_length, ?map_length; cbn [List.length]; unfold tmid; lia|]. exists done. split; [|exact Hview]. cbn [rt_core]. exists ts.
    split; [exact Hrc|]. split; [reflexivity|]. split; [exact Hrt0|].
    destruct Hrc as (Hperm & _ & Hlen & _). eapply closing_start; eauto.
  - (* TCH: head of the close loop *)
    destruct Hcore as (tl0 & Hrc & -> & Hrt0 & Hcl).
    destruct c as [| | |[z|]|]; try discriminate.
    + destruct (mtake z todo) as [[v todo']|] eqn:Em; [|discriminate].
      invo En q k. specialize (Heff I Hg). cbn [shared_effect K] in Heff. subst g'.
      apply Htau; [unfold K; cbn [rank_rt]; rewrite ?map_length, ?app_length, ?map_length; cbn [List.length]; unfold tmid; lia|]. exists done. split; [|exact Hview]. cbn [rt_core]. exists tl0.
      split; [exact Hrc|]. split; [reflexivity|]. split; [exact Hrt0|]. eapply closing_take; eauto.
    + destruct todo as [|e todo]; [|discriminate]. invo En q k. specialize (Heff I Hg). cbn [shared_effect K] in Heff. subst g'.
      apply Htau; [unfold K; cbn [rank_rt]; rewrite ?map_length, ?app_length, ?map_length; cbn [List.length]; unfold tmid; lia|]. exists done. split; [|exact Hview]. cbn. split; [exact Hrc|].
      destruct Hcl as (_ & _ & H3 & _). destruct tl0 as [|x tl0]; [exact Hrt0|]. exfalso. apply (H3 x). now left.
  - (* TC1: close(targetChannel) = LRouterClose *)
    destruct Hcore as (tl0 & Hrc & -> & Hrt0 & Hcl).
    pose proof Hcl as (_ & _ & H3 & H4). destruct (H4 z v (or_introl eq_refl)) as (i & Hzi & -> & Hci).
    invo En q k. specialize (Heff I Hg). cbn [shared_effect K] in Heff.
    change (nth_error (rd_is_closed (s_rd s) :: sn_is_closed (s_sn s) :: wch) (2 + i)) with (nth_error wch i) in Heff.
    destruct Heff as [[_ ->]|[Hc _]]; [|change (nth_error wch i = Some true) in Hc; congruence].
    destruct Hrc as (Hperm & Hwrest & Hlen & Hkeys).
    assert (Hndd : NoDup done) by (eapply Permutation_NoDup; [apply Permutation_sym; exact Hperm | exact Hndts]).
    destruct Hview as [Hb Hv]. cbn in Hb, Hv. destruct (Hv i z Hzi) as (chm' & pcw & w & Hlw & Hfw & Hrw & Hcw).
    exists (set_rt (set_wr s (upd_writer z w_close (s_wr s))) (TClosing (remove_tm z tl0))). right. split.
    + exists (LRouterClose z). rewrite (step_late _ _ _ pm Hpan Hmain). cbn. rewrite Hrt0.
      assert (Hmem : memz z tl0 = true) by (apply memz_In; apply H3; now left). now rewrite Hmem.
    + change (upd_nth (2 + i) true (rd_is_closed (s_rd s) :: sn_is_closed (s_sn s) :: wch))
        with (rd_is_closed (s_rd s) :: sn_is_closed (s_sn s) :: upd_nth i true wch).
      apply skel_rel_intro; [exact Hpan|]. apply (Hgo (TC2 (chmap done) z (VChan (2 + i)) todo)
               (set_rt (set_wr s (upd_writer z w_close (s_wr s))) (TClosing (remove_tm z tl0))) (upd_nth i true wch) wrest); auto.
      cbn [s_rt s_wr s_wgR set_rt set_wr]. exists done. split.
      * cbn. exists (remove_tm z tl0). split; [|split; [reflexivity | split; [reflexivity | now apply closing_close]]].
        split; [exact Hperm|]. split; [exact Hwrest|]. split; [now rewrite upd_nth_length | now rewrite map_tm_upd].
      * split; [exact Hb|]. cbn. eapply writers_run_close; eauto.
  - (* TW: wg.Wait() returns *)
    destruct Hcore as (Hrc & Hrt0). invo En q k. specialize (Heff I Hg). cbn [shared_effect K] in Heff.
    pose proof Hrc as (_ & -> & _). cbn [nth_error] in Heff. destruct Heff as [Hv0 ->]. inversion Hv0 as [Hw0].
    exists s. apply rstep_silent; [|apply Hrk; unfold K; cbn [rank_rt]; rewrite ?map_length, ?app_length, ?map_length; cbn [List.length]; unfold tmid; lia]. apply (Hgo (TX chm) s wch [s_wgR s]); auto.
    exists done. split; [cbn; auto | exact Hview].
  - (* RX2: the deferred wg.Done() of ProcessFeatures = LRouterWait *)
    destruct Hcore as (Hrc & Hrt0 & HwgR0). invo En q k. specialize (Heff I Hg). cbn [shared_effect K] in Heff.
    cbn [nth_error] in Heff. destruct Heff as [(v0 & Hv0 & ->)|[Hv0 Hp]]; inversion Hv0 as [Hw0].
    + exists (set_wgM (set_rt s TDone) v0). right. split.
      * exists LRouterWait. rewrite (step_late _ _ _ pm Hpan Hmain). cbn. now rewrite Hrt0, HwgR0, Hw0.
      * cbn [upd_nth]. apply skel_rel_intro; [exact Hpan|]. apply (Hgo RX3 (set_wgM (set_rt s TDone) v0) wch wrest); auto.
        exists done. split; [cbn; auto | exact Hview].
    + exists (set_panic s PanicWaitGroup). right. split.
      * exists LRouterWait. rewrite (step_late _ _ _ pm Hpan Hmain). cbn. now rewrite Hrt0, HwgR0, Hw0.
      * apply skel_rel_panic; [exact Hp | discriminate].
  - (* RX4 *) discriminate.
Qed.
