(** * Pipe/ProofsConverse11.v — converse source tie, part 11: no deadlock of the skeleton semantics.
      If every goroutine is at a blocking operation or has ended, the step the model can take ([no_deadlock]) names a
      rendezvous, a receive on a closed channel or a wg.Wait that is enabled in the skeleton semantics. *)
From Coq Require Import ZArith List String Bool Lia Permutation.
From Texel Require Import Pipe.Model Pipe.ProofsBase Pipe.ProofsInv Pipe.ProofsLive Pipe.Skeleton Pipe.SkeletonSem Pipe.SkeletonSim
  Pipe.ProofsSkeleton Pipe.ConversePc Pipe.ConversePcSn Pipe.ProofsConversePc Pipe.ProofsConversePcSn Pipe.Converse Pipe.ConverseRank
  Pipe.ProofsConverse1 Pipe.ProofsConverse2 Pipe.ProofsConverse4 Pipe.ProofsConverse5 Pipe.ProofsConverse8 Pipe.ProofsConverse9
  Pipe.ProofsConverse10.
Import ListNotations.
Open Scope string_scope.
Open Scope list_scope.

Definition enabled (s : state) (g : gstate) : Prop := exists a g1 ev, gstep P g a = Some (g1, ev) /\ data_ok s g a.

Lemma forallb_false_ex : forall {A} (f : A -> bool) l, forallb f l = false -> exists x, In x l /\ f x = false.
Proof.
  intros A f l. induction l as [|x r IH]; cbn; [discriminate|]. destruct (f x) eqn:E; cbn.
  - intros H. destruct (IH H) as (y & Hy & Hf). eauto.
  - intros _. eauto.
Qed.

Lemma sync_enabled : forall ts roles chans wgs sd rc a b c x ok ths' thr',
  nth_error roles sd = Some a -> nth_error roles rc = Some b -> sd <> rc ->
  tstep P CNone (th_of ts a) = Some (QSend c, ths') -> tstep P CNone (th_of ts b) = Some (QRecv c x ok, thr') ->
  nth_error chans c = Some false ->
  exists g1 ev, gstep P (MkG (map (th_of ts) roles) chans wgs None) (ASync sd rc) = Some (g1, ev).
Proof.
  intros ts roles chans wgs sd rc a b c x ok ths' thr' Ha Hb Hne Hs Hr Hc. unfold gstep. cbn [g_panic g_threads g_chans g_wgs].
  destruct (Nat.eqb_spec sd rc); [contradiction|].
  rewrite (map_nth_error (th_of ts) _ _ Ha), (map_nth_error (th_of ts) _ _ Hb), Hs, Hr, Nat.eqb_refl, Hc. eauto.
Qed.

Lemma lk_index : forall k roles ro, lk k roles = Some ro -> exists t, nth_error roles t = Some ro.
Proof. intros k roles ro H. apply lk_some_kind in H. destruct H as [_ Hi]. now apply In_nth_error. Qed.

Lemma find_final_writer : forall (f : tmid -> list msg) ts z w,
  find_writer z (map (fun t => MkWriter t true WDone (f t)) ts) = Some w -> w_st w = WDone.
Proof.
  intros f ts z w. induction ts as [|t r IH]; cbn; [discriminate|]. destruct (Z.eqb t z); [intros H; inversion H; reflexivity | exact IH].
Qed.

Lemma local_enabled_data : forall cfg s roles chans wgs t ro c q th',
  nth_error roles t = Some ro -> tstep P c (th_of (c_targets cfg) ro) = Some (q, th') ->
  choice_ok s (th_of (c_targets cfg) ro) c -> q_ready q chans wgs ->
  enabled s (MkG (map (th_of (c_targets cfg)) roles) chans wgs None).
Proof.
  intros cfg s roles chans wgs t ro c q th' Hn Ht Hc Hq.
  destruct (local_enabled (c_targets cfg) roles chans wgs t c ro q th' Hn Ht Hq) as (g1 & ev & Hg).
  exists (ALocal t c), g1, ev. split; [exact Hg|]. unfold data_ok. cbn [g_threads].
  now rewrite (map_nth_error (th_of (c_targets cfg)) _ _ Hn).
Qed.


Lemma sync_enabled_data : forall cfg s roles chans wgs sd rc a b c x ok ths' thr',
  nth_error roles sd = Some a -> nth_error roles rc = Some b -> a <> b ->
  tstep P CNone (th_of (c_targets cfg) a) = Some (QSend c, ths') ->
  tstep P CNone (th_of (c_targets cfg) b) = Some (QRecv c x ok, thr') ->
  nth_error chans c = Some false ->
  enabled s (MkG (map (th_of (c_targets cfg)) roles) chans wgs None).
Proof.
  intros cfg s roles chans wgs sd rc a b c x ok ths' thr' Ha Hb Hab Hs Hr Hc.
  assert (Hne : sd <> rc) by (intros ->; rewrite Ha in Hb; inversion Hb; contradiction).
  destruct (sync_enabled (c_targets cfg) roles chans wgs sd rc a b c x ok ths' thr' Ha Hb Hne Hs Hr Hc) as (g1 & ev & Hg).
  exists (ASync sd rc), g1, ev. split; [exact Hg | exact I].
Qed.

Theorem skel_progress : forall cfg g s, wf_config cfg -> reachable cfg s -> skel_rel cfg g s -> gfinal g = false ->
  enabled s g.
Proof.
  intros cfg g s Hwf Hreach Hrel Hnf.
  pose proof (no_panic cfg s Hwf Hreach) as Hpan.
  unfold skel_rel in Hrel. destruct g as [ths chans wgs pan]. cbn [g_panic g_threads g_chans g_wgs] in Hrel.
  rewrite Hpan in Hrel. destruct pan; [contradiction|]. destruct Hrel as (roles & -> & Hcoh).
  set (ts := c_targets cfg) in *.
  destruct (forallb waitingb roles) eqn:Ew.
  2: { (* some goroutine is neither blocked nor ended *)
       destruct (forallb_false_ex _ _ Ew) as (ro & Hi & Hw). apply In_nth_error in Hi. destruct Hi as [t Ht].
       destruct (ready_role cfg roles chans wgs s t ro Hcoh Ht Hw) as (c & q & th' & Hts & Hc & Hq).
       eapply local_enabled_data; eauto. }
  (* every goroutine is at a blocking operation or has ended *)
  rewrite forallb_forall in Ew.
  assert (Hwait : forall k ro, lk k roles = Some ro -> waitingb ro = true).
  { intros k ro Hl. apply Ew. apply lk_some_kind in Hl. tauto. }
  pose proof Hcoh as (pm & Hm & Hnd & Hph).
  pose proof (Hwait _ _ Hm) as Hwm.
  assert (He : is_early pm = false) by (destruct pm; try discriminate Hwm; reflexivity). rewrite He in Hph.
  destruct Hph as (Hmain & (wch & wrest & prt & Hchans & Hwgs & Hsn & Hrd & Hrt & (done & Hcore & Hview))).
  unfold sn_clause in Hsn. destruct (lk KSnap roles) as [[| |psn| |]|] eqn:Els; try contradiction;
    [|destruct Hsn as [Hsn _]; subst pm; discriminate].
  destruct Hsn as (_ & Hsok & Hsrel). pose proof (Hwait _ _ Els) as Hws.
  unfold rd_clause in Hrd. destruct (lk KRead roles) as [[| | |prd|]|] eqn:Elr; try contradiction;
    [|destruct Hrd as [[Hrd|Hrd] _]; subst pm; discriminate].
  destruct Hrd as (_ & _ & Hrrel). pose proof (Hwait _ _ Elr) as Hwr.
  pose proof (Hwait _ _ Hrt) as Hwt.
  assert (Hrun : rt_spawning prt = false) by (destruct prt; try discriminate Hwt; reflexivity).
  pose proof (rt_run_core _ _ _ _ _ _ _ _ Hrun Hcore) as (Hperm & Hwrest & Hlen & Hkeys).
  assert (Hndd : NoDup done) by (eapply Permutation_NoDup; [apply Permutation_sym; exact Hperm | apply Hwf]).
  pose proof Hview as [Hbound Hvrun]. rewrite Hrun in Hvrun.
  destruct (lk_index _ _ _ Hm) as [tm0 Htm0]. destruct (lk_index _ _ _ Els) as [tsn Htsn].
  destruct (lk_index _ _ _ Elr) as [trd Htrd]. destruct (lk_index _ _ _ Hrt) as [trt Htrt].
  (* the Writer of a target that has a model writer *)
  assert (Hwo : forall tm w, find_writer tm (s_wr s) = Some w ->
            exists i chm' pc t, nth_error done i = Some tm /\ nth_error roles t = Some (RoWriter chm' tm VAny (2 + i) pc)
                                /\ wr_rel pc (w_st w) /\ nth_error wch i = Some (w_closed w) /\ (pc = WRv \/ pc = WF6)).
  { intros tm w Hfw. destruct (find_writer_In _ _ _ Hfw) as [Hi Htm]. apply (in_map w_tm) in Hi. rewrite Hkeys, Htm in Hi.
    apply (Permutation_in _ (Permutation_sym Hperm)) in Hi. apply In_nth_error in Hi. destruct Hi as [i Hi].
    destruct (Hvrun i tm Hi) as (chm' & pc & w' & Hl & Hfw' & Hr' & Hc'). rewrite Hfw in Hfw'. inversion Hfw'; subst w'.
    pose proof (Hwait _ _ Hl) as Hww. destruct (lk_index _ _ _ Hl) as [t Ht].
    exists i, chm', pc, t. repeat split; auto. destruct pc; try discriminate Hww; auto. }
  (* the model state is not final: were it final, every goroutine would have ended *)
  assert (Hfin : final s = false).
  { destruct (final s) eqn:Ef; [|reflexivity]. exfalso.
    pose proof (final_state_unique cfg s Hwf Hreach Ef) as Efs.
    assert (Hs0 : s_main s = MRet) by (rewrite Efs; reflexivity).
    assert (Hs1 : s_sn s = SExit) by (rewrite Efs; reflexivity).
    assert (Hs2 : s_rd s = RdExit) by (rewrite Efs; reflexivity).
    assert (Hs3 : s_rt s = TDone) by (rewrite Efs; reflexivity).
    assert (Hall : forall ro, In ro roles -> th_of ts ro = []).
    { intros ro Hi. pose proof (Ew _ Hi) as Hw. apply In_nth_error in Hi. destruct Hi as [t Ht].
      pose proof (lk_nth _ _ _ Hnd Ht) as Hl. destruct ro as [p|p|p|p|chm z v n p]; cbn [kind_of] in Hl.
      - rewrite Hm in Hl. inversion Hl; subst p. rewrite Hs0 in Hmain. destruct pm; try discriminate Hwm; [discriminate Hmain | reflexivity].
      - rewrite Hrt in Hl. inversion Hl; subst p. rewrite Hs3 in Hcore.
        destruct prt; try discriminate Hw; cbn [rt_core] in Hcore; try reflexivity;
          repeat match goal with H : _ /\ _ |- _ => destruct H as [? H] | H : exists _, _ |- _ => destruct H as [? H] end; discriminate.
      - rewrite Els in Hl. inversion Hl; subst p. rewrite Hs1 in Hsrel.
        destruct psn; try discriminate Hw; cbn [sn_rel] in Hsrel; try reflexivity;
          repeat match goal with H : _ /\ _ |- _ => destruct H as [? H] | H : exists _, _ |- _ => destruct H as [? H] end; discriminate.
      - rewrite Elr in Hl. inversion Hl; subst p. rewrite Hs2 in Hrrel.
        destruct prd; try discriminate Hw; cbn [rd_rel] in Hrrel; try reflexivity;
          repeat match goal with H : _ /\ _ |- _ => destruct H as [? H] | H : exists _, _ |- _ => destruct H as [? H] end; discriminate.
      - destruct (writer_ident _ _ _ _ _ _ _ _ _ _ _ Hnd Ht Hview) as (i & -> & _ & -> & Hphase). rewrite Hrun in Hphase.
        destruct Hphase as (w & Hfw & Hwrl & _). rewrite Efs in Hfw. cbn [final_state s_wr] in Hfw.
        rewrite (find_final_writer _ _ _ _ Hfw) in Hwrl.
        destruct p; try discriminate Hw; cbn [wr_rel] in Hwrl; try reflexivity; discriminate. }
    unfold gfinal in Hnf. cbn [g_panic g_threads] in Hnf.
    assert (Ht : forallb (fun th : thread => match th with [] => true | _ => false end) (map (th_of ts) roles) = true).
    { apply forallb_forall. intros th Hth. apply in_map_iff in Hth. destruct Hth as (ro & <- & Hi). now rewrite (Hall ro Hi). }
    pose proof (eq_trans (eq_sym Ht) Hnf) as Habs. discriminate Habs. }
  (* the model can take a step *)
  destruct (no_deadlock cfg s Hwf Hreach Hfin) as (l & s' & Hstep).
  pose proof (no_panic cfg s' Hwf (reachable_step _ _ _ _ Hreach Hstep)) as Hpan'.
  rewrite (step_late cfg s l _ Hpan Hmain) in Hstep. subst chans wgs.
  destruct l; cbn [step_started] in Hstep.
  - (* LMainStart *) discriminate.
  - (* LReadSend *)
    destruct (s_rd s) as [[|f0 r0]| |] eqn:Erd; try discriminate. destruct (s_sn s) eqn:Esn; try discriminate.
    destruct prd; try discriminate Hwr; cbn [rd_rel] in Hrrel; [|discriminate].
    destruct psn; try discriminate Hws; cbn [sn_rel] in Hsrel;
      [| discriminate | destruct Hsrel as (? & ? & ? & ? & ? & Hx & _); discriminate].
    eapply (sync_enabled_data cfg s roles _ _ trd tsn (RoRead D2) (RoSnap SRv) 0%nat "feature" "hasMore");
      [exact Htrd | exact Htsn | discriminate | reflexivity | reflexivity | cbn; reflexivity].
  - (* LReadClose *)
    destruct (s_rd s) as [[|f0 r0]| |] eqn:Erd; try discriminate.
    destruct prd; try discriminate Hwr; cbn [rd_rel] in Hrrel; [destruct Hrrel as (? & ? & ?); discriminate | discriminate].
  - (* LReadExit *)
    destruct (s_rd s) as [[|f0 r0]| |] eqn:Erd; try discriminate.
    destruct prd; try discriminate Hwr; cbn [rd_rel] in Hrrel; [destruct Hrrel as (? & ? & ?); discriminate | discriminate].
  - (* LSnapCompute *)
    destruct (s_sn s) eqn:Esn; try discriminate.
    destruct psn; try discriminate Hws; cbn [sn_rel] in Hsrel;
      [discriminate | discriminate | destruct Hsrel as (? & ? & ? & ? & ? & Hx & _); discriminate].
  - (* LSnapSend *)
    destruct (s_sn s) eqn:Esn; try discriminate.
    destruct (take_pend ordered tm pending) as [[[g0|] pending']|] eqn:Etp; try discriminate;
      [|inversion Hstep; subst s'; discriminate Hpan'].
    destruct (s_rt s) eqn:Ert; try discriminate.
    destruct psn; try discriminate Hws; cbn [sn_rel] in Hsrel; [discriminate | discriminate | ].
    destruct prt; try discriminate Hwt; cbn [rt_core] in Hcore;
      [| destruct Hcore as (? & ? & _ & _ & Hx & _); discriminate | destruct Hcore as (_ & Hx); discriminate
       | destruct Hcore as (_ & Hx); discriminate].
    cbn in Hsok.
    destruct j as [|[|[|j]]]; [| | |lia];
      (eapply (sync_enabled_data cfg s roles _ _ tsn trt (RoSnap (IS _ z)) (RoRouter (TRv chm)) 1%nat "feature" "ok");
       [exact Htsn | exact Htrt | discriminate | reflexivity | reflexivity | cbn; reflexivity]).
  - (* LSnapLoop *)
    destruct (s_sn s) eqn:Esn; try discriminate. destruct pending; try discriminate.
    destruct psn; try discriminate Hws; cbn [sn_rel] in Hsrel; [discriminate | discriminate | ].
    destruct Hsrel as (? & ord' & pend' & ? & ? & Hx & _ & Htp). inversion Hx; subst. destruct ord'; discriminate.
  - (* LSnapEof *)
    destruct (s_sn s) eqn:Esn; try discriminate.
    destruct psn; try discriminate Hws; cbn [sn_rel] in Hsrel;
      [| discriminate | destruct Hsrel as (? & ? & ? & ? & ? & Hx & _); discriminate].
    eapply (local_enabled_data cfg s roles _ _ tsn (RoSnap SRv) CNone); [exact Htsn | reflexivity | exact I | cbn; destruct (s_rd s); try discriminate; reflexivity].
  - (* LSnapClose *)
    destruct (s_sn s) eqn:Esn; try discriminate.
    destruct psn; try discriminate Hws; cbn [sn_rel] in Hsrel;
      [discriminate | discriminate | destruct Hsrel as (? & ? & ? & ? & ? & Hx & _); discriminate].
  - (* LSnapExit *)
    destruct (s_sn s) eqn:Esn; try discriminate.
    destruct psn; try discriminate Hws; cbn [sn_rel] in Hsrel;
      [discriminate | discriminate | destruct Hsrel as (? & ? & ? & ? & ? & Hx & _); discriminate].
  - (* LRouterSpawn *)
    destruct (s_rt s) eqn:Ert; try discriminate.
    destruct prt; try discriminate Hwt; cbn [rt_core] in Hcore;
      [destruct Hcore as (_ & _ & Hx & _); discriminate | destruct Hcore as (? & ? & _ & _ & Hx & _); discriminate
       | destruct Hcore as (_ & Hx); discriminate | destruct Hcore as (_ & Hx); discriminate].
  - (* LDeliver *)
    destruct (s_rt s) eqn:Ert; try discriminate.
    destruct (find_writer tm (s_wr s)) as [w|] eqn:Efw; [|inversion Hstep; subst s'; discriminate Hpan'].
    destruct (w_closed w) eqn:Ecl; [inversion Hstep; subst s'; discriminate Hpan'|].
    destruct (w_st w) eqn:Est; try discriminate.
    destruct prt; try discriminate Hwt; cbn [rt_core] in Hcore;
      [destruct Hcore as (_ & _ & Hx & _); discriminate | | destruct Hcore as (_ & Hx); discriminate
       | destruct Hcore as (_ & Hx); discriminate].
    destruct Hcore as (tm' & m' & _ & -> & Hx & _ & ->). inversion Hx; subst tm' m'.
    destruct (Hwo tm w Efw) as (i & chm' & pc & t & Hi & Ht & Hwr0 & Hc0 & Hpc).
    rewrite Est in Hwr0. destruct Hpc as [->| ->]; [|discriminate Hwr0].
    destruct (mget_chmap_from done 0 tm) as [[_ Hni]|(i' & Hi' & Hv)]; [exfalso; apply Hni; eapply nth_error_In; eauto|].
    assert (i' = i) by (eapply nth_error_inj_nodup; eauto). subst i'. unfold chmap in Htrt. rewrite Hv in Htrt.
    eapply (sync_enabled_data cfg s roles _ _ trt t (RoRouter (TG5 _ (VChan (2 + (0 + i))))) (RoWriter chm' tm VAny (2 + i) WRv)
              (2 + i)%nat "feature" "ok");
      [exact Htrt | exact Ht | discriminate | reflexivity | reflexivity | cbn; rewrite Hc0, Ecl; reflexivity].
  - (* LRouterEof *)
    destruct (s_rt s) eqn:Ert; try discriminate.
    destruct prt; try discriminate Hwt; cbn [rt_core] in Hcore;
      [| destruct Hcore as (? & ? & _ & _ & Hx & _); discriminate | destruct Hcore as (_ & Hx); discriminate
       | destruct Hcore as (_ & Hx); discriminate].
    eapply (local_enabled_data cfg s roles _ _ trt (RoRouter (TRv chm)) CNone); [exact Htrt | reflexivity | exact I | cbn; destruct (s_sn s); try discriminate; reflexivity].
  - (* LRouterClose *)
    destruct (s_rt s) eqn:Ert; try discriminate.
    destruct prt; try discriminate Hwt; cbn [rt_core] in Hcore;
      [destruct Hcore as (_ & _ & Hx & _); discriminate | destruct Hcore as (? & ? & _ & _ & Hx & _); discriminate
       | | destruct Hcore as (_ & Hx); discriminate].
    destruct Hcore as (_ & Hx). inversion Hx; subst todo. discriminate.
  - (* LRouterWait *)
    destruct (s_rt s) eqn:Ert; try discriminate. destruct todo; try discriminate. destruct (s_wgR s) eqn:EwgR; try discriminate.
    destruct prt; try discriminate Hwt; cbn [rt_core] in Hcore;
      [destruct Hcore as (_ & _ & Hx & _); discriminate | destruct Hcore as (? & ? & _ & _ & Hx & _); discriminate
       | | destruct Hcore as (_ & Hx); discriminate].
    eapply (local_enabled_data cfg s roles _ _ trt (RoRouter (TW chm)) CNone); [exact Htrt | reflexivity | exact I | cbn; rewrite Hwrest; reflexivity].
  - (* LRecv *)
    destruct (find_writer tm (s_wr s)) as [w|] eqn:Efw; [|discriminate]. destruct (w_st w) eqn:Est; try discriminate.
    destruct (Hwo tm w Efw) as (i & chm' & pc & t & Hi & Ht & Hwr0 & Hc0 & Hpc).
    rewrite Est in Hwr0. destruct Hpc as [->| ->]; discriminate Hwr0.
  - (* LWriterEof *)
    destruct (find_writer tm (s_wr s)) as [w|] eqn:Efw; [|discriminate]. destruct (w_st w) eqn:Est; try discriminate.
    destruct (w_closed w) eqn:Ecl; try discriminate.
    destruct (Hwo tm w Efw) as (i & chm' & pc & t & Hi & Ht & Hwr0 & Hc0 & Hpc).
    rewrite Est in Hwr0. destruct Hpc as [->| ->]; [|discriminate Hwr0].
    eapply (local_enabled_data cfg s roles _ _ t (RoWriter chm' tm VAny (2 + i) WRv) CNone); [exact Ht | reflexivity | exact I | cbn; rewrite Hc0, Ecl; reflexivity].
  - (* LFinish *)
    destruct (find_writer tm (s_wr s)) as [w|] eqn:Efw; [|discriminate]. destruct (w_st w) eqn:Est; try discriminate.
    destruct (Hwo tm w Efw) as (i & chm' & pc & t & Hi & Ht & Hwr0 & Hc0 & Hpc).
    rewrite Est in Hwr0. destruct Hpc as [->| ->]; discriminate Hwr0.
  - (* LReturn *)
    destruct (s_main s) eqn:Emain; try discriminate. destruct (s_wgM s) eqn:EwgM; try discriminate.
    destruct pm; try discriminate Hwm; [|discriminate Hmain].
    eapply (local_enabled_data cfg s roles _ _ tm0 (RoMain M9) CNone); [exact Htm0 | reflexivity | exact I | cbn; reflexivity].
Qed.
