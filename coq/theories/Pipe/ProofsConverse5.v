(** * Pipe/ProofsConverse5.v — converse source tie, part 5: maps of channels, ranges over maps (lemmas for the Router). *)
From Coq Require Import ZArith List String Bool Lia Permutation.
From Texel Require Import Pipe.Model Pipe.ProofsBase Pipe.ProofsInv Pipe.ProofsLive Pipe.Skeleton Pipe.SkeletonSem Pipe.SkeletonSim
  Pipe.ProofsSkeleton Pipe.ConversePc Pipe.ConversePcSn Pipe.ProofsConversePc Pipe.ProofsConversePcSn Pipe.Converse Pipe.ConverseRank
  Pipe.ProofsConverse1 Pipe.ProofsConverse2 Pipe.ProofsConverse4.
Import ListNotations.
Open Scope string_scope.
Open Scope list_scope.

(** ** [mtake]: one iteration of a range over a map *)

Lemma mtake_split : forall z m v m', mtake z m = Some (v, m') ->
  exists a b, m = a ++ (z, v) :: b /\ m' = a ++ b /\ ~ In z (map fst a).
Proof.
  intros z m. induction m as [|[k w] r IH]; intros v m' H; cbn [mtake] in H; [discriminate|].
  destruct (Z.eqb_spec k z) as [->|Hne].
  - inversion H; subst v m'. exists [], r. cbn. auto.
  - destruct (mtake z r) as [[x r']|] eqn:E; [|discriminate]. inversion H; subst.
    destruct (IH _ _ eq_refl) as (a & b & -> & -> & Hni). exists ((k, w) :: a), b. cbn. repeat split; auto.
    intros [Hk|Hi]; [congruence | contradiction].
Qed.

Lemma map_mkA_split : forall rem a z v b, map mkA rem = a ++ (z, v) :: b ->
  exists r1 r2, rem = r1 ++ z :: r2 /\ a = map mkA r1 /\ b = map mkA r2 /\ v = VAny.
Proof.
  intros rem a z v b H. apply map_eq_app in H. destruct H as (r1 & r2' & -> & <- & H).
  destruct r2' as [|x r2]; cbn in H; [discriminate|]. inversion H; subst. exists r1, r2. auto.
Qed.

(** ** [chmap]: the map of channels after the targets [l] have been visited in this order *)

Lemma chmap_from_keys : forall l k, map fst (chmap_from k l) = l.
Proof. induction l as [|t r IH]; intros k; cbn; [reflexivity | now rewrite IH]. Qed.

Lemma chmap_from_entries : forall l k z v, In (z, v) (chmap_from k l) ->
  exists i, nth_error l i = Some z /\ v = VChan (2 + (k + i)).
Proof.
  induction l as [|t r IH]; intros k z v H; cbn in H; [destruct H|].
  destruct H as [H|H].
  - inversion H; subst. exists 0%nat. split; [reflexivity | now rewrite Nat.add_0_r].
  - destruct (IH _ _ _ H) as (i & Hi & ->). exists (S i). split; [exact Hi | f_equal; lia].
Qed.

Lemma mget_chmap_from : forall l k z,
  (mget z (chmap_from k l) = VNil /\ ~ In z l)
  \/ exists i, nth_error l i = Some z /\ mget z (chmap_from k l) = VChan (2 + (k + i)).
Proof.
  induction l as [|t r IH]; intros k z; cbn [chmap_from mget]; [left; split; [reflexivity | intros []]|].
  destruct (Z.eqb_spec t z) as [->|Hne].
  - right. exists 0%nat. split; [reflexivity | now rewrite Nat.add_0_r].
  - destruct (IH (S k) z) as [[H1 H2]|(i & Hi & H)].
    + left. split; [exact H1 | intros [E|Hi]; [congruence | contradiction]].
    + right. exists (S i). split; [exact Hi|]. rewrite H. f_equal. lia.
Qed.

Lemma mset_chmap_from : forall l k z, ~ In z l ->
  mset z (VChan (2 + (k + List.length l))) (chmap_from k l) = chmap_from k (l ++ [z]).
Proof.
  induction l as [|t r IH]; intros k z Hni; cbn [chmap_from mset app List.length].
  - now rewrite Nat.add_0_r.
  - destruct (Z.eqb_spec t z) as [->|Hne]; [exfalso; apply Hni; now left|].
    f_equal. rewrite <- IH by (intros Hi; apply Hni; now right). do 3 f_equal. lia.
Qed.

Lemma repeat_snoc : forall {A} (x : A) n, repeat x n ++ [x] = repeat x (S n).
Proof. intros A x n. now rewrite <- repeat_cons. Qed.

Lemma nth_error_upd_nth_other : forall {A} (l : list A) i j x, i <> j -> nth_error (upd_nth i x l) j = nth_error l j.
Proof.
  induction l as [|y r IH]; intros [|i] [|j] x H; cbn; try reflexivity; try congruence. apply IH. congruence.
Qed.

Lemma nth_error_repeat : forall {A} (x : A) n i, (i < n)%nat -> nth_error (repeat x n) i = Some x.
Proof. induction n as [|n IH]; intros [|i] H; cbn; try lia; [reflexivity | apply IH; lia]. Qed.

Lemma prerecv_wr_rel : forall pc, prerecv pc = true -> wr_rel pc WRecv.
Proof. destruct pc; try discriminate; reflexivity. Qed.

(** the Router itself moves: Writers and their view are as before *)
Lemma wview_router_upd : forall p p' done' roles t p0 wch' ws',
  nth_error roles t = Some (RoRouter p0) ->
  wview p' done' roles wch' ws' -> wview p' done' (upd_nth t (RoRouter p) roles) wch' ws'.
Proof.
  intros p p' done' roles t p0 wch' ws' Hn H. eapply wview_ext; [|exact H].
  apply (same_writers_upd _ _ _ (RoRouter p) Hn eq_refl). intros n; discriminate.
Qed.

(** a channel is closed: the model writer of its target is closed, nothing else changes *)
Lemma writers_run_close : forall done roles wch ws i z w,
  NoDup done -> nth_error done i = Some z -> find_writer z ws = Some w ->
  writers_run done roles wch ws -> writers_run done roles (upd_nth i true wch) (upd_writer z w_close ws).
Proof.
  intros done roles wch ws i z w Hnd Hz Hf H j zj Hj.
  destruct (H j zj Hj) as (chm' & pc & wj & Hl & Hfj & Hr & Hc).
  destruct (Nat.eq_dec i j) as [<-|Hne].
  - pose proof (eq_trans (eq_sym Hj) Hz) as E. inversion E; subst zj.
    exists chm', pc, (w_close wj). split; [exact Hl|]. split; [|split].
    + rewrite find_upd_same by reflexivity. now rewrite Hfj.
    + exact Hr.
    + cbn. apply nth_error_upd_nth_same. apply nth_error_Some. congruence.
  - exists chm', pc, wj. split; [exact Hl|]. split; [|split; [exact Hr|]].
    + rewrite find_upd_other; [exact Hfj | reflexivity |]. intros ->. apply Hne. eapply nth_error_inj_nodup; eauto.
    + rewrite nth_error_upd_nth_other by exact Hne. exact Hc.
Qed.
