(** * Pipe/ProofsConverse12.v — converse source tie, part 12: termination.
      Ranked coupled runs are coupled runs, can be extended by every data-consistent enabled action, and are bounded:
      length <= steps inside pure callees + rank of the start + (rank_bound + 1) * measure of the model. *)
From Coq Require Import ZArith List String Bool Lia Permutation.
From Texel Require Import Pipe.Model Pipe.ProofsBase Pipe.ProofsInv Pipe.ProofsLive Pipe.Skeleton Pipe.SkeletonSem Pipe.SkeletonSim
  Pipe.ProofsSkeleton Pipe.ConversePc Pipe.ConversePcSn Pipe.ProofsConversePc Pipe.ProofsConversePcSn Pipe.Converse Pipe.ConverseRank
  Pipe.ProofsConverse1 Pipe.ProofsConverse2 Pipe.ProofsConverse4 Pipe.ProofsConverse5 Pipe.ProofsConverse8 Pipe.ProofsConverse9.
Import ListNotations.
Open Scope string_scope.
Open Scope list_scope.

(** ** A step inside a pure callee keeps the ranks *)

Lemma pure_move_rank : forall ts R R1, pure_move R R1 -> rank_sum ts R1 = rank_sum ts R.
Proof.
  intros ts R R1 (t & fs & fs' & b & Hn & ->).
  pose proof (rank_sum_upd_eq ts R t _ (RoSnap (SPure fs' b)) Hn) as H. cbn [rank_role] in H.
  assert (rank_sn (SPure fs' b) = rank_sn (SPure fs b)) by (destruct b; reflexivity). lia.
Qed.

(** ** After a step of the model Main has started *)

Lemma step_started_main : forall cfg s l s1, step_started cfg s l = Some s1 -> s_main s1 = s_main s \/ s_main s1 = MRet.
Proof.
  intros cfg s l s1 H. destruct l; cbn [step_started] in H;
    repeat match type of H with
           | context [match ?x with _ => _ end] => destruct x
           end; try discriminate; inversion H; subst; cbn; auto.
Qed.

Lemma step_not_init : forall cfg s l s1, step cfg s l = Some s1 -> s_main s1 <> MInit.
Proof.
  intros cfg s l s1 H. unfold step in H. destruct (s_panic s); [discriminate|]. destruct (s_main s) eqn:E.
  - destruct l; try discriminate. inversion H; subst. cbn. discriminate.
  - destruct (step_started_main _ _ _ _ H) as [E1|E1]; rewrite E1; [rewrite E|]; discriminate.
  - destruct (step_started_main _ _ _ _ H) as [E1|E1]; rewrite E1; [rewrite E|]; discriminate.
Qed.

(** ** The sum of the ranks is bounded once Main has started *)

Definition kbound (n : nat) (k : kind) : nat :=
  match k with KMain => 11 | KRouter => 7 + 12 * n | KSnap => 10 | KRead => 4 | KWriter _ => 5 end.

Definition all_kinds (n : nat) : list kind := [KMain; KRouter; KSnap; KRead] ++ map KWriter (seq 2 n).

Lemma list_sum_incl : forall (f : kind -> nat) l K, NoDup l -> incl l K -> (list_sum (map f l) <= list_sum (map f K))%nat.
Proof.
  intros f l. induction l as [|x r IH]; intros K Hnd Hi; [cbn; lia|].
  inversion Hnd; subst. assert (Hx : In x K) by (apply Hi; now left).
  apply in_split in Hx. destruct Hx as (a & b & ->).
  assert (Hr : incl r (a ++ b)).
  { intros y Hy. assert (Hy' : In y (a ++ x :: b)) by (apply Hi; now right).
    rewrite in_app_iff in *. cbn in Hy'. destruct Hy' as [?|[->|?]]; auto. contradiction. }
  specialize (IH (a ++ b) H2 Hr). rewrite !map_app, !list_sum_app in *. cbn [map]. rewrite !list_sum_cons. lia.
Qed.

Lemma sum_writer_bounds : forall n m i, list_sum (map (kbound n) (map KWriter (seq i m))) = (5 * m)%nat.
Proof. intros n m. induction m as [|m IH]; intros i; [reflexivity|]. cbn [seq map]. rewrite list_sum_cons, IH. cbn. lia. Qed.

Lemma spawned_length : forall ts p done wch wrest rt ws wgR, rt_core ts p done wch wrest rt ws wgR ->
  (List.length (spawned p done) <= List.length ts)%nat.
Proof.
  intros ts p done wch wrest rt ws wgR H.
  destruct (rt_spawning p) eqn:Ep.
  - destruct p; try discriminate; cbn [rt_core spawned] in *;
      try (destruct H as (-> & _); cbn; lia);
      destruct H as (rem & (_ & Hp & _) & _); apply Permutation_length in Hp; rewrite !app_length in *; cbn in *; lia.
  - rewrite (spawned_run _ _ Ep). destruct (rt_run_core _ _ _ _ _ _ _ _ Ep H) as (Hp & _). apply Permutation_length in Hp. lia.
Qed.

Lemma rank_rt_bound : forall ts p done wch wrest rt ws wgR, rt_core ts p done wch wrest rt ws wgR ->
  (rank_rt ts p <= 7 + 12 * List.length ts)%nat.
Proof.
  intros ts p done wch wrest rt ws wgR H.
  destruct p; unfold rank_rt; cbv zeta; try lia; try (destruct b; lia); cbn [rt_core] in H;
    destruct H as (rem & (_ & Hp & -> & _) & _); apply Permutation_length in Hp; rewrite !app_length, ?map_length in *;
    cbn in *; unfold tmid in *; lia.
Qed.

Lemma rank_sum_bound : forall cfg R C W s, coh cfg R C W s -> s_main s <> MInit ->
  (rank_sum (c_targets cfg) R <= rank_bound (c_targets cfg))%nat.
Proof.
  intros cfg R C W s (pm & Hm & Hnd & Hph) Hmain. set (ts := c_targets cfg) in *. set (n := List.length ts).
  destruct (is_early pm) eqn:Ee; [destruct Hph as (_ & -> & _); exfalso; apply Hmain; reflexivity|].
  destruct Hph as (_ & (wch & wrest & prt & _ & _ & _ & _ & Hrt & (done & Hcore & (Hbound & _)))).
  pose proof (spawned_length _ _ _ _ _ _ _ _ Hcore) as Hsp.
  assert (HA : forall ro, In ro R -> (rank_role ts ro <= kbound n (kind_of ro))%nat).
  { intros ro Hi. apply In_nth_error in Hi. destruct Hi as [t Ht]. pose proof (lk_nth _ _ _ Hnd Ht) as Hl.
    destruct ro as [p|p|p|p|chm z v m p]; cbn [kind_of kbound rank_role] in *.
    - rewrite Hm in Hl. inversion Hl; subst p. destruct pm; try discriminate Ee; cbn; lia.
    - rewrite Hrt in Hl. inversion Hl; subst p. eapply rank_rt_bound; eauto.
    - destruct p; cbn; try lia; try (destruct b; lia).
    - destruct p; cbn; lia.
    - destruct p; cbn; try lia; destruct b; lia. }
  assert (HB : incl (map kind_of R) (all_kinds n)).
  { intros k Hk. unfold all_kinds. destruct k; try (cbn; tauto).
    apply Hbound in Hk. apply in_or_app. right. apply in_map. apply in_seq. fold ts in Hsp. unfold n. lia. }
  unfold rank_sum.
  assert (H1 : (list_sum (map (rank_role ts) R) <= list_sum (map (kbound n) (map kind_of R)))%nat).
  { clear - HA. induction R as [|r rs IH]; [cbn; lia|]. cbn [map]. rewrite !list_sum_cons.
    specialize (HA r (or_introl eq_refl)) as Hr. assert (IH' := IH (fun ro Hi => HA ro (or_intror Hi))). lia. }
  pose proof (list_sum_incl (kbound n) _ _ Hnd HB) as H2.
  unfold all_kinds in H2. rewrite map_app, list_sum_app, sum_writer_bounds in H2. cbn [map kbound] in H2.
  rewrite !list_sum_cons in H2. cbn [list_sum fold_right] in H2. unfold rank_bound. fold ts. fold n. lia.
Qed.

(** ** Ranked runs are bounded *)

Theorem rrun_bound : forall cfg R C W s acts k R2 C2 W2 s2, rrun P cfg R C W s acts k R2 C2 W2 s2 ->
  (List.length acts <= k + rank_sum (c_targets cfg) R + (rank_bound (c_targets cfg) + 1) * measure cfg s)%nat.
Proof.
  intros cfg R C W s acts k R2 C2 W2 s2 H.
  induction H as [|R C W s a ev R1 C1 W1 s1 pure acts k R2 C2 W2 s2 Hg Hd Hcoh Hpan Hmv Hr IH]; [cbn; lia|].
  cbn [List.length]. destruct Hmv as [[-> Hs]|[-> (l & Hl)]].
  - destruct pure; cbn [Nat.b2n].
    + rewrite <- (pure_move_rank (c_targets cfg) _ _ Hs). lia.
    + lia.
  - cbn [Nat.b2n]. pose proof (measure_decreases cfg s l s1 Hl) as Hm.
    pose proof (rank_sum_bound cfg R1 C1 W1 s1 Hcoh (step_not_init _ _ _ _ Hl)) as Hb.
    assert (measure cfg s = S (measure cfg s - 1))%nat by lia. nia.
Qed.

(** ** Ranked runs are coupled runs *)

Lemma rmove_mstep : forall cfg R s R1 s1 pure, rmove cfg R s R1 s1 pure -> mstep cfg s s1.
Proof. intros cfg R s R1 s1 pure [[-> _]|[_ H]]; [now left | now right]. Qed.

Theorem rrun_crun : forall cfg R C W s acts k R2 C2 W2 s2, rrun P cfg R C W s acts k R2 C2 W2 s2 ->
  exists evs, crun P cfg (gst (c_targets cfg) R C W) s acts evs (gst (c_targets cfg) R2 C2 W2) s2.
Proof.
  intros cfg R C W s acts k R2 C2 W2 s2 H.
  induction H as [|R C W s a ev R1 C1 W1 s1 pure acts k R2 C2 W2 s2 Hg Hd Hcoh Hpan Hmv Hr [evs IH]].
  - exists []. constructor.
  - exists (ev ++ evs). econstructor; eauto; [eapply rmove_mstep; eauto | now apply skel_rel_intro].
Qed.

Lemma rrun_snoc : forall cfg R C W s acts k R2 C2 W2 s2 a ev R3 C3 W3 s3 pure,
  rrun P cfg R C W s acts k R2 C2 W2 s2 ->
  gstep P (gst (c_targets cfg) R2 C2 W2) a = Some (gst (c_targets cfg) R3 C3 W3, ev) ->
  data_ok s2 (gst (c_targets cfg) R2 C2 W2) a -> coh cfg R3 C3 W3 s3 -> s_panic s3 = None -> rmove cfg R2 s2 R3 s3 pure ->
  rrun P cfg R C W s (acts ++ [a]) (k + Nat.b2n pure) R3 C3 W3 s3.
Proof.
  intros cfg R C W s acts k R2 C2 W2 s2 a ev R3 C3 W3 s3 pure H.
  induction H as [|R C W s a0 ev0 R1 C1 W1 s1 pure0 acts k R2 C2 W2 s2 Hg Hd Hcoh Hpan Hmv Hr IH]; intros Hg3 Hd3 Hc3 Hp3 Hm3.
  - cbn [app]. replace (0 + Nat.b2n pure)%nat with (Nat.b2n pure + 0)%nat by lia. econstructor; eauto. constructor.
  - cbn [app]. replace (Nat.b2n pure0 + k + Nat.b2n pure)%nat with (Nat.b2n pure0 + (k + Nat.b2n pure))%nat by lia.
    econstructor; eauto.
Qed.

Lemma rrun_end : forall cfg R C W s acts k R2 C2 W2 s2, rrun P cfg R C W s acts k R2 C2 W2 s2 ->
  coh cfg R C W s -> s_panic s = None -> coh cfg R2 C2 W2 s2 /\ s_panic s2 = None.
Proof. induction 1; auto. Qed.

(** a ranked run from the start can be extended by EVERY enabled action whose data choice follows the model state *)
Theorem rrun_extend : forall cfg acts k R2 C2 W2 s2 a g3 ev, wf_config cfg ->
  rrun P cfg [RoMain M0] [] [] (init cfg) acts k R2 C2 W2 s2 ->
  gstep P (gst (c_targets cfg) R2 C2 W2) a = Some (g3, ev) -> data_ok s2 (gst (c_targets cfg) R2 C2 W2) a ->
  exists R3 C3 W3 s3 pure, g3 = gst (c_targets cfg) R3 C3 W3
                           /\ rrun P cfg [RoMain M0] [] [] (init cfg) (acts ++ [a]) (k + Nat.b2n pure) R3 C3 W3 s3.
Proof.
  intros cfg acts k R2 C2 W2 s2 a g3 ev Hwf Hr Hg Hd.
  assert (Hc0 : coh cfg [RoMain M0] [] [] (init cfg)).
  { exists M0. split; [reflexivity|]. split; [repeat constructor; intros []|]. cbn. auto. }
  destruct (rrun_end _ _ _ _ _ _ _ _ _ _ _ Hr Hc0 eq_refl) as [Hc2 Hp2].
  destruct (rrun_crun _ _ _ _ _ _ _ _ _ _ _ Hr) as [evs Hcr].
  assert (Hreach : reachable cfg s2) by (eapply (crun_reachable cfg acts evs); exact Hcr).
  destruct (conv_step_ranked cfg R2 C2 W2 s2 a g3 ev (proj1 Hwf) Hc2 Hp2 Hg Hd) as (s3 & Hrs).
  destruct Hrs as [(-> & R3 & Hg3 & Hc3 & Hrk)|[(l & Hl) Hrel]].
  - exists R3, (g_chans g3), (g_wgs g3), s2. destruct Hrk as [Hrk|Hpm].
    + exists false. split; [exact Hg3|]. eapply rrun_snoc; eauto; [unfold gst at 2; rewrite <- Hg3; exact Hg | left; auto].
    + exists true. split; [exact Hg3|]. eapply rrun_snoc; eauto; [unfold gst at 2; rewrite <- Hg3; exact Hg | left; auto].
  - pose proof (no_panic cfg s3 Hwf (reachable_step _ _ _ _ Hreach Hl)) as Hp3.
    unfold skel_rel in Hrel. rewrite Hp3 in Hrel. destruct (g_panic g3) eqn:Eg; [contradiction|].
    destruct Hrel as (R3 & Hth & Hc3). exists R3, (g_chans g3), (g_wgs g3), s3, false.
    assert (Hg3 : g3 = gst (c_targets cfg) R3 (g_chans g3) (g_wgs g3)) by (destruct g3; cbn in *; unfold gst; congruence).
    split; [exact Hg3|]. eapply rrun_snoc; eauto; [rewrite <- Hg3; exact Hg | right; eauto].
Qed.
