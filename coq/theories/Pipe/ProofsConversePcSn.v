(** * Pipe/ProofsConversePcSn.v — [tstep] follows the control-flow graph of the Snapper (Pipe/ConversePcSn.v);
      pure frames take only silent steps and stay pure. *)
From Coq Require Import ZArith List String Bool Lia.
From Texel Require Import Pipe.Model Pipe.Skeleton Pipe.SkeletonSem Pipe.SkeletonSim Pipe.ConversePc Pipe.ConversePcSn
  Pipe.ProofsConversePc.
Import ListNotations.
Open Scope string_scope.
Open Scope list_scope.

(** ** A step only looks at the innermost frame *)

Definition unexit (q : req) : req := match q with QExit => QTau | _ => q end.

Lemma tstep_stmt_frame : forall Pg c fr rest s k,
  tstep_stmt Pg c fr rest s k =
  match tstep_stmt Pg c fr [] s k with Some (q, new) => Some (q, new ++ rest) | None => None end.
Proof.
  intros Pg c fr rest s k. destruct s; cbn [tstep_stmt];
  repeat match goal with
         | |- context [match ?x with _ => _ end] => destruct x eqn:?
         end; try reflexivity; try discriminate.
Qed.

Lemma tstep_frame : forall Pg c fr rest, rest <> [] ->
  tstep Pg c (fr :: rest) =
  match tstep Pg c [fr] with Some (q, new) => Some (unexit q, new ++ rest) | None => None end.
Proof.
  intros Pg c fr rest Hr. unfold tstep. destruct (fr_k fr) as [|ss k|d k|body k|body k|kx vx body k|kx vx todo body k].
  - destruct (fr_defers fr); [|reflexivity]. destruct rest; [congruence | reflexivity].
  - destruct ss as [|s ss]; [reflexivity|]. rewrite tstep_stmt_frame.
    destruct (tstep_stmt Pg c fr [] s (kseq ss k)) as [[q new]|] eqn:E; [|reflexivity].
    assert (Hq : unexit q = q).
    { destruct q; try reflexivity. exfalso. destruct s; cbn [tstep_stmt] in E;
      repeat match type of E with
             | context [match ?x with _ => _ end] => destruct x eqn:?
             end; discriminate. }
    now rewrite Hq.
  - reflexivity.
  - reflexivity.
  - destruct c as [|[|]| | |]; reflexivity.
  - destruct c as [| | |[z|]|]; reflexivity.
  - destruct c as [| | |[z|]|]; try reflexivity.
    + destruct (mtake z todo) as [[v todo']|]; reflexivity.
    + destruct todo; reflexivity.
Qed.

(** ** Pure frames *)

Lemma pure_kseq : forall ss k, pure_kont (kseq ss k) = forallb pure_stmt ss && pure_kont k.
Proof. intros [|s ss] k; reflexivity. Qed.

Lemma get_pure : forall e x, pure_env e = true -> mem_s x ranged = true -> get e x = VAny.
Proof.
  induction e as [|[y v] r IH]; intros x He Hx; [reflexivity|]. cbn [pure_env forallb fst snd] in He.
  apply andb_prop in He. destruct He as [Hy Hr]. cbn [get]. destruct (String.eqb_spec y x) as [->|Hne].
  - rewrite Hx in Hy. destruct v; try discriminate. reflexivity.
  - now apply IH.
Qed.

Lemma pure_env_bind : forall e x v, pure_env e = true -> (mem_s x ranged = true -> v = VAny) -> pure_env (bind x v e) = true.
Proof.
  intros e x v He Hv. unfold bind. destruct (is_blank x); [exact He|]. unfold pure_env in *. cbn [forallb fst snd]. rewrite He, andb_true_r.
  destruct (mem_s x ranged); [now rewrite Hv | reflexivity].
Qed.

Lemma forallb_skipn : forall {A} (f : A -> bool) n l, forallb f l = true -> forallb f (skipn n l) = true.
Proof.
  intros A f n. induction n as [|n IH]; intros l H; [exact H|]. destruct l as [|x r]; [reflexivity|].
  cbn [forallb] in H. apply andb_prop in H. cbn [skipn]. apply IH. tauto.
Qed.

Lemma pure_env_trunc : forall e d, pure_env e = true -> pure_env (trunc d e) = true.
Proof. intros e d H. unfold trunc, pure_env. now apply forallb_skipn. Qed.

Lemma pure_frame_intro : forall e k, pure_kont k = true -> pure_env e = true -> pure_frame (MkFrame e [] k) = true.
Proof. intros e k Hk He. unfold pure_frame. cbn [fr_defers fr_k fr_env]. now rewrite Hk, He. Qed.

Lemma pure_step : forall c fr q new, pure_frame fr = true -> tstep P c [fr] = Some (q, new) ->
  (q = QTau \/ q = QExit) /\ forallb pure_frame new = true.
Proof.
  intros c [e ds k] q new Hp H. unfold pure_frame in Hp. cbn [fr_defers fr_k fr_env] in Hp. destruct ds; [|discriminate].
  apply andb_prop in Hp. destruct Hp as [Hp He].
  unfold tstep in H. cbn [fr_k fr_defers fr_env] in H.
  assert (Hone : forall e' k', pure_kont k' = true -> pure_env e' = true -> forallb pure_frame [MkFrame e' [] k'] = true).
  { intros e' k' H1 H2. cbn [forallb]. now rewrite pure_frame_intro. }
  destruct k as [|ss k|d k|body k|body k|kx vx body k|kx vx todo body k]; cbn [pure_kont] in Hp.
  - inversion H; subst. split; [now right | reflexivity].
  - destruct ss as [|s ss].
    + inversion H; subst. split; [now left|]. cbn in Hp. now apply Hone.
    + cbn [forallb] in Hp. apply andb_prop in Hp. destruct Hp as [Hp Hk]. apply andb_prop in Hp. destruct Hp as [Hs Hss].
      assert (Hkk : pure_kont (kseq ss k) = true) by (rewrite pure_kseq, Hss, Hk; reflexivity).
      destruct s; cbn [pure_stmt] in Hs; try discriminate; cbn [tstep_stmt] in H.
      * inversion H; subst. split; [now left|]. now apply Hone.
      * inversion H; subst. split; [now left|]. apply Hone; [|exact He]. cbn [pure_kont]. now rewrite Hs, Hkk.
      * cbn [fr_env] in H. apply andb_prop in Hs. destruct Hs as [Hr Hb]. unfold range_ok in Hr.
        apply andb_prop in Hr. destruct Hr as [Hr Hv]. apply andb_prop in Hr. destruct Hr as [Ho Hkx].
        rewrite (get_pure _ _ He Ho) in H. inversion H; subst. split; [now left|]. apply Hone; [|exact He].
        cbn [pure_kont]. now rewrite Hkx, Hv, Hb, Hkk.
      * destruct c; try discriminate. apply andb_prop in Hs. destruct Hs as [Hs Hb]. apply andb_prop in Hs. destruct Hs as [_ Ha].
        inversion H; subst. split; [now left|]. unfold enter_block. apply Hone; [|exact He].
        rewrite pure_kseq. cbn [pure_kont]. rewrite Hkk. destruct b; [now rewrite Ha | now rewrite Hb].
      * inversion H; subst. split; [now left|]. now apply Hone.
  - inversion H; subst. split; [now left|]. apply Hone; [exact Hp | now apply pure_env_trunc].
  - discriminate.
  - apply andb_prop in Hp. destruct Hp as [Hb Hk]. destruct c as [|[|]| | |]; try discriminate; inversion H; subst;
      (split; [now left|]); unfold enter_block; (apply Hone; [|exact He]); [|exact Hk].
    rewrite pure_kseq. cbn [pure_kont]. now rewrite Hb, Hk.
  - apply andb_prop in Hp. destruct Hp as [Hp Hk]. apply andb_prop in Hp. destruct Hp as [Hp Hb].
    apply andb_prop in Hp. destruct Hp as [Hkx Hv].
    destruct c as [| | |[z|]|]; try discriminate; inversion H; subst; (split; [now left|]).
    + unfold enter_iter. apply Hone.
      * rewrite pure_kseq. cbn [pure_kont]. now rewrite Hb, Hkx, Hv, Hk.
      * apply pure_env_bind; [|reflexivity]. apply pure_env_bind; [exact He|]. intros Hm. rewrite Hm in Hkx. discriminate.
    + now apply Hone.
  - discriminate.
Qed.

(** a pure frame can always take a step (with a suitable choice) *)
Lemma pure_can_step : forall fr, pure_frame fr = true -> exists c q new, tstep P c [fr] = Some (q, new).
Proof.
  intros [e ds k] Hp. unfold pure_frame in Hp. cbn [fr_defers fr_k fr_env] in Hp. destruct ds; [|discriminate].
  apply andb_prop in Hp. destruct Hp as [Hp He]. unfold tstep. cbn [fr_k fr_defers fr_env].
  destruct k as [|ss k|d k|body k|body k|kx vx body k|kx vx todo body k]; cbn [pure_kont] in Hp; try discriminate.
  - exists CNone. eauto.
  - destruct ss as [|s ss]; [exists CNone; eauto|].
    cbn [forallb] in Hp. apply andb_prop in Hp. destruct Hp as [Hp _]. apply andb_prop in Hp. destruct Hp as [Hs _].
    destruct s; cbn [pure_stmt] in Hs; try discriminate; cbn [tstep_stmt].
    + exists CNone. eauto.
    + exists CNone. eauto.
    + cbn [fr_env]. apply andb_prop in Hs. destruct Hs as [Hr _]. unfold range_ok in Hr.
      apply andb_prop in Hr. destruct Hr as [Hr _]. apply andb_prop in Hr. destruct Hr as [Ho _].
      rewrite (get_pure _ _ He Ho). exists CNone. eauto.
    + exists (CBool true). eauto.
    + exists CNone. eauto.
  - exists CNone. eauto.
  - exists (CBool false). eauto.
  - exists (CIter None). eauto.
Qed.

Lemma th_mkpure : forall fs b, th_sn (mkpure fs b) = fs ++ th_base b.
Proof. intros [|fr fs] b; [destruct b; reflexivity | reflexivity]. Qed.

Lemma th_base_nonempty : forall b, th_base b <> [].
Proof. destruct b; discriminate. Qed.

Ltac sn_done := first [ exact I | split; [reflexivity | intros b; try destruct b; reflexivity] ].

Lemma sn_spec : forall pc c m, sn_ok pc -> spec th_sn (next_sn pc c) (tstep P c (th_sn pc)) m.
Proof.
  intros pc c m Hok. destruct pc; try (cbn; sn_done).
  - (* SG *) destruct b; cbn; sn_done.
  - (* SLg2 *) destruct c as [|[|]| | |]; cbn; sn_done.
  - (* SP2 *) destruct c as [| |[|[|[|i]]]| |]; cbn; try sn_done.
    destruct i; cbn; sn_done.
  - (* C0c *) destruct c as [|[|]| | |]; cbn; sn_done.
  - (* C1c *) destruct c as [|[|]| | |]; cbn; sn_done.
  - (* SHd *) cbn in Hok. destruct j as [|[|[|j]]]; [| | |lia]; destruct c as [| | |[z|]|]; cbn; sn_done.
  - (* I0b *) destruct c as [|[|]| | |]; cbn; sn_done.
  - (* I0d *) destruct c as [|[|]| | |]; cbn; sn_done.
  - (* IS *) cbn in Hok. destruct j as [|[|[|j]]]; [| | |lia]; cbn; sn_done.
  - (* IX *) cbn in Hok. destruct j as [|[|[|j]]]; [| | |lia]; cbn; sn_done.
  - (* SPure *)
    cbn in Hok. destruct Hok as [Hne Hpure]. destruct fs as [|fr fs']; [congruence|].
    cbn [forallb] in Hpure. apply andb_prop in Hpure. destruct Hpure as [Hfr Hfs].
    cbn [th_sn next_sn app]. rewrite (tstep_frame P c fr (fs' ++ th_base b)) by (destruct fs'; cbn [app]; [apply th_base_nonempty | discriminate]).
    destruct (tstep P c [fr]) as [[q new]|] eqn:E; [|exact I].
    destruct (pure_step _ _ _ _ Hfr E) as [Hq _]. cbn [spec].
    split; [destruct Hq; subst; reflexivity|]. intros b0. unfold K. rewrite th_mkpure, app_assoc. reflexivity.
Qed.

Lemma sn_ok_next : forall pc c q k b, sn_ok pc -> next_sn pc c = Some (Out q k) -> sn_ok (k b).
Proof.
  intros pc c q k b0 Hok H.
  destruct pc; cbn [next_sn] in H;
    try (inversion H; subst; cbn; solve [exact I | lia | split; [discriminate | reflexivity]]).
  - destruct b; inversion H; subst; exact I.
  - destruct c as [|[|]| | |]; inversion H; subst; exact I.
  - destruct c as [| |[|[|[|i]]]| |]; inversion H; subst; exact I.
  - destruct c as [|[|]| | |]; inversion H; subst; exact I.
  - destruct c as [|[|]| | |]; inversion H; subst; exact I.
  - cbn in Hok. destruct j as [|[|[|j]]]; [| | |lia]; destruct c as [| | |[z|]|]; inversion H; subst; cbn; solve [exact I | lia].
  - destruct c as [|[|]| | |]; inversion H; subst; exact I.
  - destruct c as [|[|]| | |]; inversion H; subst; exact I.
  - cbn in Hok. destruct j as [|[|[|j]]]; [| | |lia]; inversion H; subst; cbn; lia.
  - cbn in Hok. destruct j as [|[|[|j]]]; [| | |lia]; inversion H; subst; cbn; lia.
  - cbn in Hok. destruct Hok as [Hne Hpure]. destruct fs as [|fr fs']; [discriminate|].
    cbn [forallb] in Hpure. apply andb_prop in Hpure. destruct Hpure as [Hfr Hfs].
    destruct (tstep P c [fr]) as [[q' new]|] eqn:E; [|discriminate]. inversion H; subst.
    destruct (pure_step _ _ _ _ Hfr E) as [_ Hnew]. unfold K, mkpure.
    assert (Hall : forallb pure_frame (new ++ fs') = true) by (rewrite forallb_app, Hnew, Hfs; reflexivity).
    destruct (new ++ fs') as [|f l]; [destruct b; exact I|]. split; [discriminate | exact Hall].
Qed.
