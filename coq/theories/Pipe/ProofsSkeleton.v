(** * Pipe/ProofsSkeleton.v — every run of the model (Pipe/Model.v) is a run of the skeleton semantics
      (Pipe/SkeletonSem.v) of the skeleton of processing.go, with the communication actions its labels stand for.

    Trusted mappings: none (the skeleton is the regenerated term, see Properties/C11.v); the contracts of
    Source.ReadFeatures and Target.WriteFeatures (Pipe/Skeleton.v) describe code outside processing.go. *)
From Coq Require Import ZArith NArith List String Bool Lia.
From Texel Require Import Pipe.Model Pipe.ProofsBase Pipe.ProofsInv Pipe.Skeleton Pipe.SkeletonSem Pipe.SkeletonSim.
Import ListNotations.
Open Scope string_scope.
Open Scope list_scope.

(** ** Runs *)

Lemma grun_app : forall acts1 acts2 g,
  grun P g (acts1 ++ acts2) =
  match grun P g acts1 with
  | Some (g', e1) => match grun P g' acts2 with Some (g'', e2) => Some (g'', e1 ++ e2) | None => None end
  | None => None
  end.
Proof.
  induction acts1 as [|a r IH]; intros acts2 g; cbn [app grun].
  - destruct (grun P g acts2) as [[g'' e2]|]; reflexivity.
  - destruct (gstep P g a) as [[g' ev]|]; [|reflexivity].
    rewrite IH. destruct (grun P g' r) as [[g1 e1]|]; [|reflexivity].
    destruct (grun P g1 acts2) as [[g2 e2]|]; [|reflexivity]. now rewrite app_assoc.
Qed.

Lemma grun_app_some : forall acts1 acts2 g g1 e1 g2 e2,
  grun P g acts1 = Some (g1, e1) -> grun P g1 acts2 = Some (g2, e2) ->
  grun P g (acts1 ++ acts2) = Some (g2, e1 ++ e2).
Proof. intros * H1 H2. now rewrite grun_app, H1, H2. Qed.

Lemma L_app : forall t a b, L t (a ++ b) = L t a ++ L t b.
Proof. intros. unfold L. apply map_app. Qed.

(** ** Lists *)

Lemma nth_error_upd_nth_same : forall {A} (l : list A) n x, (n < List.length l)%nat -> nth_error (upd_nth n x l) n = Some x.
Proof. induction l as [|y r IH]; intros [|n] x H; cbn in *; try lia; [reflexivity | apply IH; lia]. Qed.

Lemma upd_nth_length : forall {A} (l : list A) n x, List.length (upd_nth n x l) = List.length l.
Proof. induction l as [|y r IH]; intros [|n] x; cbn; try reflexivity; now rewrite IH. Qed.

Lemma upd_nth_upd_nth : forall {A} (l : list A) n x y, upd_nth n x (upd_nth n y l) = upd_nth n x l.
Proof. induction l as [|z r IH]; intros [|n] x y; cbn; try reflexivity; now rewrite IH. Qed.

Lemma upd_nth_app_l : forall {A} (l l' : list A) n x, (n < List.length l)%nat -> upd_nth n x (l ++ l') = upd_nth n x l ++ l'.
Proof. induction l as [|z r IH]; intros l' [|n] x H; cbn in *; try lia; [reflexivity | rewrite IH by lia; reflexivity]. Qed.

Lemma nth_error_app_l : forall {A} (l l' : list A) n, (n < List.length l)%nat -> nth_error (l ++ l') n = nth_error l n.
Proof. intros. now apply nth_error_app1. Qed.

Lemma upd_nth_same : forall {A} (l : list A) n x, nth_error l n = Some x -> upd_nth n x l = l.
Proof. induction l as [|y r IH]; intros [|n] x H; cbn in *; try discriminate; [now inversion H | now rewrite IH]. Qed.

Lemma nth_error_lt : forall {A} (l : list A) n x, nth_error l n = Some x -> (n < List.length l)%nat.
Proof. intros. apply nth_error_Some. congruence. Qed.

(** ** A frame rule: steps one goroutine takes on its own only need that goroutine and the shared state *)

Record lst := MkL { l_th : thread; l_chans : list bool; l_wgs : list nat; l_new : list thread; l_pan : option string }.

Definition lpanic (x : lst) (what : string) : option (lst * list event) :=
  Some (MkL (l_th x) (l_chans x) (l_wgs x) (l_new x) (Some what), [EvPanic what]).

Definition lstep (n t : nat) (c : choice) (x : lst) : option (lst * list event) :=
  match l_pan x with
  | Some _ => None
  | None =>
      let chans := l_chans x in
      let wgs := l_wgs x in
      let new := l_new x in
      match tstep P c (l_th x) with
      | None => None
      | Some (q, th') =>
          match q with
          | QTau => Some (MkL th' chans wgs new None, [])
          | QExit => Some (MkL th' chans wgs new None, [EvExit t])
          | QNewChan y => Some (MkL (bind_top y (VChan (List.length chans)) th') (chans ++ [false]) wgs new None,
                                [EvNewChan (List.length chans)])
          | QNewWg y => Some (MkL (bind_top y (VWg (List.length wgs)) th') chans (wgs ++ [0%nat]) new None,
                              [EvNewWg (List.length wgs)])
          | QWgAdd w k => match nth_error wgs w with
                          | Some v => Some (MkL th' chans (upd_nth w (v + k)%nat wgs) new None, [EvWgAdd w k])
                          | None => None
                          end
          | QWgDone w => match nth_error wgs w with
                         | Some (S v) => Some (MkL th' chans (upd_nth w v wgs) new None, [EvWgDone w])
                         | Some O => lpanic x panic_negative_wg
                         | None => None
                         end
          | QWgWait w => match nth_error wgs w with
                         | Some O => Some (MkL th' chans wgs new None, [EvWgWait w])
                         | _ => None
                         end
          | QGo th2 => Some (MkL th' chans wgs (new ++ [th2]) None, [EvGo (n + List.length new)])
          | QSend c0 => match nth_error chans c0 with Some true => lpanic x panic_send_closed | _ => None end
          | QRecv c0 y ok => match nth_error chans c0 with
                             | Some true => Some (MkL (bind_top ok (VBool false) (bind_top y VAny th')) chans wgs new None,
                                                  [EvRecvClosed c0])
                             | _ => None
                             end
          | QClose c0 => match nth_error chans c0 with
                         | Some false => Some (MkL th' (upd_nth c0 true chans) wgs new None, [EvClose c0])
                         | Some true => lpanic x panic_close_closed
                         | None => None
                         end
          | QPanic what => lpanic x what
          end
      end
  end.

Fixpoint lrun (n t : nat) (cs : list choice) (x : lst) : option (lst * list event) :=
  match cs with
  | [] => Some (x, [])
  | c :: r => match lstep n t c x with
              | Some (x', ev) => match lrun n t r x' with Some (x'', ev') => Some (x'', ev ++ ev') | None => None end
              | None => None
              end
  end.

Definition lglobal (ths : list thread) (t : nat) (x : lst) : gstate :=
  MkG (upd_nth t (l_th x) ths ++ l_new x) (l_chans x) (l_wgs x) (l_pan x).

Lemma gstep_lstep : forall ths t c x x' ev,
  (t < List.length ths)%nat -> lstep (List.length ths) t c x = Some (x', ev) ->
  gstep P (lglobal ths t x) (ALocal t c) = Some (lglobal ths t x', ev).
Proof.
  intros ths t c [th chans wgs new pan] x' ev Ht H. unfold lstep in H. cbn [l_pan l_th l_chans l_wgs l_new] in H.
  unfold gstep, lglobal. cbn [g_panic g_threads g_chans g_wgs l_pan l_th l_chans l_wgs l_new].
  destruct pan; [discriminate|].
  rewrite nth_error_app_l by (rewrite upd_nth_length; exact Ht).
  rewrite nth_error_upd_nth_same by exact Ht.
  assert (Hu : forall y, upd_nth t y (upd_nth t th ths ++ new) = upd_nth t y ths ++ new).
  { intros y. rewrite upd_nth_app_l by (rewrite upd_nth_length; exact Ht). now rewrite upd_nth_upd_nth. }
  assert (Hl : List.length (upd_nth t th ths ++ new) = (List.length ths + List.length new)%nat).
  { now rewrite app_length, upd_nth_length. }
  destruct (tstep P c th) as [[q th']|]; [|discriminate].
  destruct q; unfold lpanic, gpanic in *; cbn [l_pan l_th l_chans l_wgs l_new g_threads g_chans g_wgs] in *.
  - inversion H; subst; cbn. now rewrite Hu.
  - inversion H; subst; cbn. now rewrite Hu.
  - inversion H; subst; cbn. now rewrite Hu.
  - inversion H; subst; cbn. now rewrite Hu.
  - destruct (nth_error wgs w); [|discriminate]. inversion H; subst; cbn. now rewrite Hu.
  - destruct (nth_error wgs w) as [[|v]|]; [| |discriminate]; inversion H; subst; cbn; [reflexivity | now rewrite Hu].
  - destruct (nth_error wgs w) as [[|v]|]; try discriminate. inversion H; subst; cbn. now rewrite Hu.
  - inversion H; subst; cbn. rewrite Hu, Hl. now rewrite app_assoc.
  - destruct (nth_error chans c0) as [[|]|]; try discriminate. inversion H; subst; cbn. reflexivity.
  - destruct (nth_error chans c0) as [[|]|]; try discriminate. inversion H; subst; cbn. now rewrite Hu.
  - destruct (nth_error chans c0) as [[|]|]; try discriminate; inversion H; subst; cbn; [reflexivity | now rewrite Hu].
  - inversion H; subst; cbn. reflexivity.
Qed.

Lemma grun_lrun : forall cs ths t x x' evs,
  (t < List.length ths)%nat -> lrun (List.length ths) t cs x = Some (x', evs) ->
  grun P (lglobal ths t x) (L t cs) = Some (lglobal ths t x', evs).
Proof.
  induction cs as [|c r IH]; intros ths t x x' evs Ht H; cbn [lrun L map grun] in *.
  - now inversion H.
  - destruct (lstep (List.length ths) t c x) as [[x1 ev]|] eqn:E; [|discriminate].
    rewrite (gstep_lstep _ _ _ _ _ _ Ht E).
    destruct (lrun (List.length ths) t r x1) as [[x2 ev']|] eqn:E2; [|discriminate].
    inversion H; subst. fold (L t r). now rewrite (IH _ _ _ _ _ Ht E2).
Qed.

(** the form in which it is used: goroutine [t] of a running program *)
Lemma grun_local : forall cs ths chans wgs t th x' evs,
  nth_error ths t = Some th ->
  lrun (List.length ths) t cs (MkL th chans wgs [] None) = Some (x', evs) ->
  grun P (MkG ths chans wgs None) (L t cs) = Some (lglobal ths t x', evs).
Proof.
  intros * Hn H. pose proof (nth_error_lt _ _ _ Hn) as Ht.
  rewrite <- (grun_lrun _ _ _ _ _ _ Ht H). unfold lglobal. cbn [l_th l_new l_chans l_wgs l_pan].
  now rewrite (upd_nth_same _ _ _ Hn), app_nil_r.
Qed.

(** ** Writers: the goroutine / channel of target [tm] sits at the position of [tm] among the targets *)

Lemma find_writer_nth : forall ws tm w, find_writer tm ws = Some w -> nth_error ws (idx tm (map w_tm ws)) = Some w.
Proof.
  induction ws as [|x r IH]; intros tm w H; cbn [find_writer map idx] in *; [discriminate|].
  destruct (Z.eqb (w_tm x) tm); [now inversion H | now apply IH].
Qed.

Lemma upd_writer_nth : forall ws tm g w, find_writer tm ws = Some w ->
  upd_writer tm g ws = upd_nth (idx tm (map w_tm ws)) (g w) ws.
Proof.
  induction ws as [|x r IH]; intros tm g w H; cbn [find_writer upd_writer map idx] in *; [discriminate|].
  destruct (Z.eqb (w_tm x) tm); [now inversion H | cbn [upd_nth]; now rewrite (IH _ _ _ H)].
Qed.

Lemma find_writer_none_upd : forall ws tm g, find_writer tm ws = None -> upd_writer tm g ws = ws.
Proof.
  induction ws as [|x r IH]; intros tm g H; cbn [find_writer upd_writer] in *; [reflexivity|].
  destruct (Z.eqb (w_tm x) tm); [discriminate | now rewrite IH].
Qed.

Lemma wr_ths_nth : forall ws ts0 i0 n w, nth_error ws n = Some w ->
  nth_error (wr_ths ts0 i0 ws) n = Some (wr_th ts0 (i0 + n) w).
Proof.
  induction ws as [|x r IH]; intros ts0 i0 [|n] w H; cbn [nth_error wr_ths] in *; try discriminate.
  - inversion H; subst. now rewrite Nat.add_0_r.
  - rewrite (IH _ _ _ _ H). f_equal. f_equal. lia.
Qed.

Lemma wr_ths_upd : forall ws ts0 i0 n w', 
  upd_nth n (wr_th ts0 (i0 + n) w') (wr_ths ts0 i0 ws) = wr_ths ts0 i0 (upd_nth n w' ws).
Proof.
  induction ws as [|x r IH]; intros ts0 i0 [|n] w'; cbn [upd_nth wr_ths]; try reflexivity.
  - now rewrite Nat.add_0_r.
  - f_equal. rewrite <- IH. f_equal. f_equal. lia.
Qed.

Lemma wr_ths_app : forall a b ts0 i0, wr_ths ts0 i0 (a ++ b) = wr_ths ts0 i0 a ++ wr_ths ts0 (i0 + List.length a) b.
Proof.
  induction a as [|x r IH]; intros b ts0 i0; cbn [app wr_ths List.length].
  - now rewrite Nat.add_0_r.
  - rewrite IH. do 3 f_equal. lia.
Qed.

Lemma wr_ths_length : forall ws ts0 i0, List.length (wr_ths ts0 i0 ws) = List.length ws.
Proof. induction ws as [|x r IH]; intros; cbn; [reflexivity | now rewrite IH]. Qed.

Lemma map_closed_nth : forall ws n (w : writer), nth_error ws n = Some w -> nth_error (map w_closed ws) n = Some (w_closed w).
Proof. intros. now apply map_nth_error. Qed.

Lemma map_upd_nth : forall {A B} (f : A -> B) l n x, map f (upd_nth n x l) = upd_nth n (f x) (map f l).
Proof. induction l as [|y r IH]; intros [|n] x; cbn; try reflexivity; now rewrite IH. Qed.

Lemma idx_lt : forall tm ts, In tm ts -> (idx tm ts < List.length ts)%nat.
Proof.
  induction ts as [|t r IH]; intros H; cbn [idx List.length]; [destruct H|].
  destruct (Z.eqb_spec t tm); [lia|]. destruct H; [congruence|]. specialize (IH H). lia.
Qed.

Lemma idx_app_fresh : forall tm a b, ~ In tm a -> idx tm (a ++ tm :: b) = List.length a.
Proof.
  induction a as [|t r IH]; intros b H; cbn [app idx List.length].
  - now rewrite Z.eqb_refl.
  - destruct (Z.eqb_spec t tm); [exfalso; apply H; now left|]. rewrite IH; [reflexivity|]. intros Hi. apply H. now right.
Qed.

(** ** The invariant the simulation needs (no well-formedness of the features: panics are simulated too) *)

Record SInv (cfg : config) (gh : nat) (s : state) : Prop := {
  si_init : s_main s = MInit -> s = init cfg;
  si_tinit : s_rt s = TInit -> s_wr s = [] /\ s_wgR s = 0%nat;
  si_keys : s_rt s <> TInit -> map w_tm (s_wr s) = c_targets cfg;
  si_open : forall w, In w (s_wr s) -> w_closed w = true ->
            match s_rt s with TClosing todo => ~ In (w_tm w) todo | TDone => True | _ => False end;
  si_todo : forall todo, s_rt s = TClosing todo -> NoDup todo /\ incl todo (c_targets cfg);
  si_gh : forall id ord pending, s_sn s = Model.SSend id ord pending ->
            (gh <= 2)%nat /\ (gh <> 0%nat -> Forall (fun e : pend => snd e <> None) pending)
}.

Lemma sinv_init : forall cfg, SInv cfg 0 (init cfg).
Proof.
  intros cfg. constructor; cbn; try tauto; try discriminate; try (intros; discriminate).
Qed.

Lemma in_upd_writer : forall ws tm g (w' : writer), In w' (upd_writer tm g ws) -> In w' ws \/ exists w, In w ws /\ w_tm w = tm /\ w' = g w.
Proof.
  induction ws as [|x r IH]; intros tm g w' H; cbn [upd_writer] in H; [destruct H|].
  destruct (Z.eqb_spec (w_tm x) tm).
  - destruct H as [H|H]; [right; exists x; repeat split; [now left | assumption | now symmetry] | left; now right].
  - destruct H as [H|H]; [left; now left|]. destruct (IH _ _ _ H) as [Hi|[w [Hi [Ht He]]]]; [left; now right|].
    right. exists w. repeat split; [now right | assumption | assumption].
Qed.

Lemma take_key_Forall : forall (Q : pend -> Prop) tm l x l', take_key tm l = Some (x, l') -> Forall Q l -> Forall Q l'.
Proof.
  induction l as [|[k og] r IH]; intros x l' H HF; cbn [take_key] in H; [discriminate|].
  inversion HF; subst. destruct (Z.eqb k tm); [inversion H; now subst|].
  destruct (take_key tm r) as [[y r']|] eqn:E; [|discriminate]. inversion H; subst. constructor; [assumption|]. eapply IH; eauto.
Qed.

Lemma take_pend_Forall : forall (Q : pend -> Prop) ord tm l x l', take_pend ord tm l = Some (x, l') -> Forall Q l -> Forall Q l'.
Proof.
  intros Q [|] tm l x l' H HF; cbn [take_pend] in H; [|eapply take_key_Forall; eauto].
  destruct l as [|[k og] r]; [discriminate|]. destruct (Z.eqb k tm); [|discriminate]. inversion H; subst. now inversion HF.
Qed.

Lemma fanout_some : forall ts f, kind_case (f_kind f) <> 0%nat -> Forall (fun e : pend => snd e <> None) (snd (fanout ts f)).
Proof.
  intros ts [id k] H. unfold fanout. cbn [f_kind] in *. destruct k as [o|parts|]; cbn [kind_case snd] in *; [congruence| |].
  - apply Forall_forall. intros e Hi. apply in_map_iff in Hi. destruct Hi as [x [<- _]]. discriminate.
  - apply Forall_forall. intros e Hi. apply in_map_iff in Hi. destruct Hi as [x [<- _]]. discriminate.
Qed.

Lemma kind_case_le : forall k, (kind_case k <= 2)%nat.
Proof. destruct k; cbn; lia. Qed.

(** the invariant is kept by every step that does not panic *)
Ltac inv_some H := inversion H; subst; clear H.

Lemma in_upd_closed : forall ws tm g (w' : writer), (forall w, w_closed (g w) = w_closed w) -> (forall w, w_tm (g w) = w_tm w) ->
  In w' (upd_writer tm g ws) -> exists w, In w ws /\ w_tm w = w_tm w' /\ w_closed w = w_closed w'.
Proof.
  intros ws tm g w' Hc Ht H. destruct (in_upd_writer _ _ _ _ H) as [Hi|[w [Hi [_ ->]]]].
  - exists w'. auto.
  - exists w. rewrite Hc, Ht. auto.
Qed.

Ltac fin Ikeys :=
  cbn; auto; try discriminate; try (intros; congruence);
  try (intros _; first [ apply Ikeys; discriminate | rewrite map_tm_upd by reflexivity; apply Ikeys; first [discriminate | assumption] ]).

Lemma sinv_step_started : forall cfg gh m wgM rd sn rt wgR wr l s', NoDup (c_targets cfg) -> m <> MInit ->
  let s := MkState m wgM rd sn rt wgR wr None in
  SInv cfg gh s -> step_started cfg s l = Some s' -> s_panic s' = None -> SInv cfg (next_gh gh s l) s'.
Proof.
  intros cfg gh m wgM rd sn rt wgR wr l s' Hnd Hm s HI Hs Hp'. subst s.
  destruct HI as [Iinit Itinit Ikeys Iopen Itodo Igh]. cbn [s_main s_rt s_wr s_wgR s_sn] in *.
  assert (Hfin : forall tm g, (forall w, w_closed (g w) = w_closed w) -> (forall w, w_tm (g w) = w_tm w) ->
            forall w, In w (upd_writer tm g wr) -> w_closed w = true ->
            match rt with TClosing todo => ~ In (w_tm w) todo | TDone => True | _ => False end).
  { intros tm g Hc Ht w Hi Hcl. destruct (in_upd_closed _ _ _ _ Hc Ht Hi) as [w0 [Hi0 [Et Ec]]].
    rewrite <- Et. apply Iopen; [assumption | congruence]. }
  unfold step_started in Hs; destruct l; cbn [s_main s_rt s_wr s_wgR s_sn s_rd s_wgM s_panic next_gh] in *.
  - (* LMainStart *) discriminate.
  - (* LReadSend *)
    destruct rd as [[|f r]| |]; try discriminate. destruct sn; try discriminate. inv_some Hs.
    constructor; fin Ikeys.
  - (* LReadClose *)
    destruct rd as [[|f r]| |]; try discriminate. inv_some Hs.
    constructor; fin Ikeys.
  - (* LReadExit *)
    destruct rd; try discriminate. inv_some Hs.
    constructor; fin Ikeys.
  - (* LSnapCompute *)
    destruct sn; try discriminate. inv_some Hs.
    constructor; fin Ikeys.
    intros id ord pending H. inv_some H. split; [apply kind_case_le | apply fanout_some].
  - (* LSnapSend *)
    destruct sn as [| |id ord pending| | |]; try discriminate.
    destruct (take_pend ord tm pending) as [[[g|] pending']|] eqn:Et; try discriminate.
    + destruct rt; try discriminate. inv_some Hs.
      constructor; fin Ikeys.
      * intros id0 ord0 p0 H. inv_some H. destruct (Igh _ _ _ eq_refl) as [Hle Hf]. split; [assumption|].
        intros Hg. eapply take_pend_Forall; eauto.
    + inv_some Hs. discriminate.
  - (* LSnapLoop *)
    destruct sn as [| |id ord [|]| | |]; try discriminate. inv_some Hs.
    constructor; fin Ikeys.
  - (* LSnapEof *)
    destruct sn; try discriminate. destruct rd; try discriminate; inv_some Hs;
      (constructor; fin Ikeys).
  - (* LSnapClose *)
    destruct sn; try discriminate. inv_some Hs.
    constructor; fin Ikeys.
  - (* LSnapExit *)
    destruct sn; try discriminate. inv_some Hs.
    constructor; fin Ikeys.
  - (* LRouterSpawn *)
    destruct rt; try discriminate. inv_some Hs. destruct (Itinit eq_refl) as [-> ->].
    constructor; fin Ikeys.
    + intros _. apply map_tm_new.
    + intros w Hi Hc. apply in_map_iff in Hi. destruct Hi as [t [<- _]]. discriminate.
  - (* LDeliver *)
    destruct rt as [| |tm msg| |]; try discriminate.
    destruct (find_writer tm wr) as [w|] eqn:Ef; [|inv_some Hs; discriminate].
    destruct (w_closed w); [inv_some Hs; discriminate|].
    destruct (w_st w); try discriminate. inv_some Hs.
    constructor; fin Ikeys.
    + apply Hfin; reflexivity.
  - (* LRouterEof *)
    destruct rt; try discriminate. destruct sn; try discriminate; inv_some Hs;
      (constructor; fin Ikeys;
       [ intros w Hi Hc; destruct (Iopen w Hi Hc)
       | intros todo H; inv_some H; split; [assumption | apply incl_refl] ]).
  - (* LRouterClose *)
    destruct rt as [| | |todo|]; try discriminate. destruct (memz tm todo) eqn:Em; [|discriminate]. inv_some Hs.
    destruct (Itodo _ eq_refl) as [Hnd' Hincl].
    constructor; fin Ikeys.
    + intros w0 Hi Hc. destruct (in_upd_writer _ _ _ _ Hi) as [Hi0|[w1 [Hi1 [Ht ->]]]].
      * intros Hin. apply In_remove_tm in Hin. destruct Hin as [Hin _]. exact (Iopen w0 Hi0 Hc Hin).
      * cbn [w_close w_tm]. intros Hin. apply In_remove_tm in Hin. destruct Hin as [_ Hne]. congruence.
    + intros todo0 H. inv_some H. split; [now apply NoDup_remove_tm|].
      intros x Hx. apply In_remove_tm in Hx. apply Hincl. tauto.
  - (* LRouterWait *)
    destruct rt as [| | |[|]|]; try discriminate. destruct wgR; try discriminate. destruct wgM; inv_some Hs; [discriminate|].
    constructor; fin Ikeys.
  - (* LRecv *)
    destruct (find_writer tm wr) as [w|] eqn:Ef; [|discriminate]. destruct (w_st w); try discriminate.
    destruct (msg_eqb m0 m1); [|discriminate]. inv_some Hs.
    assert (Hrt : rt <> TInit). { intros ->. destruct (Itinit eq_refl) as [-> _]. discriminate. }
    constructor; fin Ikeys.
    + apply Hfin; reflexivity.
  - (* LWriterEof *)
    destruct (find_writer tm wr) as [w|] eqn:Ef; [|discriminate]. destruct (w_st w); try discriminate.
    destruct (w_closed w); [|discriminate]. inv_some Hs.
    assert (Hrt : rt <> TInit). { intros ->. destruct (Itinit eq_refl) as [-> _]. discriminate. }
    constructor; fin Ikeys.
    + apply Hfin; reflexivity.
  - (* LFinish *)
    destruct (find_writer tm wr) as [w|] eqn:Ef; [|discriminate]. destruct (w_st w); try discriminate.
    destruct wgR; inv_some Hs; [discriminate|].
    assert (Hrt : rt <> TInit). { intros ->. destruct (Itinit eq_refl) as [-> _]. discriminate. }
    constructor; fin Ikeys.
    + apply Hfin; reflexivity.
  - (* LReturn *)
    destruct m; try discriminate. destruct wgM; try discriminate. inv_some Hs.
    constructor; fin Ikeys.
Qed.

Lemma sinv_step : forall cfg gh s l s', NoDup (c_targets cfg) -> s_panic s = None -> SInv cfg gh s ->
  step cfg s l = Some s' -> s_panic s' = None -> SInv cfg (next_gh gh s l) s'.
Proof.
  intros cfg gh s l s' Hnd Hp HI Hs Hp'.
  destruct s as [m wgM rd sn rt wgR wr pn]. cbn [s_panic] in Hp. subst pn.
  unfold step in Hs. cbn [s_panic s_main] in Hs.
  destruct m.
  - destruct l; try discriminate. inversion Hs; subst s'; clear Hs.
    pose proof (si_init _ _ _ HI eq_refl) as Ei. inversion Ei; subst.
    constructor; cbn; try tauto; try discriminate; try (intros; discriminate).
  - eapply sinv_step_started; eauto. discriminate.
  - eapply sinv_step_started; eauto. discriminate.
Qed.

(** ** The map of channels *)

Lemma entries_from : forall l pre, NoDup (pre ++ l) ->
  map (fun t => (t, VChan (chan_of (pre ++ l) t))) l = chmap_from (List.length pre) l.
Proof.
  induction l as [|t r IH]; intros pre Hnd; cbn [map chmap_from]; [reflexivity|].
  f_equal.
  - unfold chan_of. rewrite idx_app_fresh; [reflexivity|].
    intros Hi. apply NoDup_remove_2 in Hnd. apply Hnd. apply in_or_app. now left.
  - specialize (IH (pre ++ [t])). rewrite <- app_assoc in IH. cbn [app] in IH.
    rewrite IH by assumption. rewrite app_length. cbn. f_equal. lia.
Qed.

Lemma entries_all : forall ts, NoDup ts -> entries ts ts = chmap ts.
Proof. intros ts H. exact (entries_from ts [] H). Qed.

Lemma mget_chmap_from : forall tm l j, In tm l -> mget tm (chmap_from j l) = VChan (2 + (j + idx tm l)).
Proof.
  induction l as [|t r IH]; intros j H; [destruct H|]. cbn [chmap_from mget idx].
  destruct (Z.eqb_spec t tm); [now rewrite Nat.add_0_r|].
  destruct H; [congruence|]. rewrite IH by assumption. do 2 f_equal. lia.
Qed.

Lemma mget_chmap : forall tm ts, In tm ts -> mget tm (chmap ts) = VChan (chan_of ts tm).
Proof. intros. unfold chmap, chan_of. now rewrite mget_chmap_from. Qed.

Lemma mget_chmap_from_none : forall tm l j, ~ In tm l -> mget tm (chmap_from j l) = VNil.
Proof.
  induction l as [|t r IH]; intros j H; [reflexivity|]. cbn [chmap_from mget].
  destruct (Z.eqb_spec t tm); [exfalso; apply H; now left|]. apply IH. intros Hi. apply H. now right.
Qed.

Lemma mget_chmap_none : forall tm ts, ~ In tm ts -> mget tm (chmap ts) = VNil.
Proof. intros. now apply mget_chmap_from_none. Qed.

Lemma remove_tm_notin : forall tm l, ~ In tm l -> remove_tm tm l = l.
Proof.
  induction l as [|t r IH]; intros H; [reflexivity|]. cbn [remove_tm].
  destruct (Z.eqb_spec t tm); [exfalso; apply H; now left|]. rewrite IH; [reflexivity|]. intros Hi. apply H. now right.
Qed.

Lemma mtake_entries : forall ts tm todo, NoDup todo -> In tm todo ->
  mtake tm (entries ts todo) = Some (VChan (chan_of ts tm), entries ts (remove_tm tm todo)).
Proof.
  intros ts tm. induction todo as [|t r IH]; intros Hnd Hi; [destruct Hi|].
  inversion Hnd as [|? ? Hni Hnd']; subst. cbn [entries map mtake remove_tm]. fold (entries ts r).
  destruct (Z.eqb_spec t tm) as [->|Hne].
  - now rewrite remove_tm_notin.
  - destruct Hi as [|Hi]; [congruence|]. rewrite (IH Hnd' Hi). reflexivity.
Qed.

Lemma mset_chmap_from : forall t l j, ~ In t l ->
  mset t (VChan (2 + (j + List.length l))) (chmap_from j l) = chmap_from j (l ++ [t]).
Proof.
  induction l as [|x r IH]; intros j H; cbn [chmap_from mset app List.length].
  - now rewrite Nat.add_0_r.
  - destruct (Z.eqb_spec x t); [exfalso; apply H; now left|]. f_equal.
    rewrite <- IH by (intros Hi; apply H; now right). do 3 f_equal. lia.
Qed.

Lemma wr_ths_close : forall ws ts0 i0 tm, wr_ths ts0 i0 (upd_writer tm w_close ws) = wr_ths ts0 i0 ws.
Proof.
  induction ws as [|x r IH]; intros ts0 i0 tm; cbn [upd_writer wr_ths]; [reflexivity|].
  destruct (Z.eqb (w_tm x) tm); cbn [wr_ths]; [reflexivity | now rewrite IH].
Qed.

(** ** Single steps *)

Lemma gstep_tau : forall ths chans wgs t c th th',
  nth_error ths t = Some th -> tstep P c th = Some (QTau, th') ->
  gstep P (MkG ths chans wgs None) (ALocal t c) = Some (MkG (upd_nth t th' ths) chans wgs None, []).
Proof. intros * Hn Ht. unfold gstep. cbn [g_panic g_threads g_chans g_wgs]. now rewrite Hn, Ht. Qed.

Lemma gstep_close : forall ths chans wgs t c th th' c0,
  nth_error ths t = Some th -> tstep P c th = Some (QClose c0, th') -> nth_error chans c0 = Some false ->
  gstep P (MkG ths chans wgs None) (ALocal t c) = Some (MkG (upd_nth t th' ths) (upd_nth c0 true chans) wgs None, [EvClose c0]).
Proof. intros * Hn Ht Hc. unfold gstep. cbn [g_panic g_threads g_chans g_wgs]. now rewrite Hn, Ht, Hc. Qed.

Lemma gstep_recv_closed : forall ths chans wgs t c th th' c0 x ok,
  nth_error ths t = Some th -> tstep P c th = Some (QRecv c0 x ok, th') -> nth_error chans c0 = Some true ->
  gstep P (MkG ths chans wgs None) (ALocal t c)
  = Some (MkG (upd_nth t (bind_top ok (VBool false) (bind_top x VAny th')) ths) chans wgs None, [EvRecvClosed c0]).
Proof. intros * Hn Ht Hc. unfold gstep. cbn [g_panic g_threads g_chans g_wgs]. now rewrite Hn, Ht, Hc. Qed.

Lemma gstep_send_closed : forall ths chans wgs t c th th' c0,
  nth_error ths t = Some th -> tstep P c th = Some (QSend c0, th') -> nth_error chans c0 = Some true ->
  gstep P (MkG ths chans wgs None) (ALocal t c) = Some (MkG ths chans wgs (Some panic_send_closed), [EvPanic panic_send_closed]).
Proof. intros * Hn Ht Hc. unfold gstep. cbn [g_panic g_threads g_chans g_wgs]. now rewrite Hn, Ht, Hc. Qed.

Lemma gstep_sync : forall ths chans wgs s r ths_ thr_ ths' thr' c0 x ok,
  s <> r -> nth_error ths s = Some ths_ -> nth_error ths r = Some thr_ ->
  tstep P CNone ths_ = Some (QSend c0, ths') -> tstep P CNone thr_ = Some (QRecv c0 x ok, thr') ->
  nth_error chans c0 = Some false ->
  gstep P (MkG ths chans wgs None) (ASync s r)
  = Some (MkG (upd_nth r (bind_top ok (VBool true) (bind_top x VAny thr')) (upd_nth s ths' ths)) chans wgs None, [EvSend c0]).
Proof.
  intros * Hne Hs Hr Hts Htr Hc. unfold gstep. cbn [g_panic g_threads g_chans g_wgs].
  apply Nat.eqb_neq in Hne. rewrite Hne, Hs, Hr, Hts, Htr, Nat.eqb_refl, Hc. reflexivity.
Qed.

Lemma tstep_rangemap : forall e ds kx vx E body k rest z v E',
  mtake z E = Some (v, E') ->
  tstep P (CIter (Some z)) (MkFrame e ds (KRangeMap kx vx E body k) :: rest)
  = Some (QTau, enter_iter (MkFrame e ds (KRangeMap kx vx E body k)) kx vx z v body (KRangeMap kx vx E' body k) :: rest).
Proof. intros * H. cbn [tstep fr_k fr_env]. now rewrite H. Qed.

(** ** One label of the model = these steps of the skeleton semantics *)

Definition simres (cfg : config) (gh : nat) (s : state) (l : label) (s' : state) (g' : gstate) : Prop :=
  match s_panic s' with
  | Some _ => g_panic g' <> None
  | None => g' = abs (c_targets cfg) (next_gh gh s l) s'
  end.

Lemma take_key_In : forall tm l og l', take_key tm l = Some (og, l') -> In (tm, og) l.
Proof.
  induction l as [|[k x] r IH]; intros og l' H; cbn [take_key] in H; [discriminate|].
  destruct (Z.eqb_spec k tm); [inversion H; subst; now left|].
  destruct (take_key tm r) as [[y r']|] eqn:E; [|discriminate]. inversion H; subst. right. eapply IH; eauto.
Qed.

Lemma take_pend_In : forall ord tm l og l', take_pend ord tm l = Some (og, l') -> In (tm, og) l.
Proof. intros ord tm l og l' H. apply take_pend_key in H. eapply take_key_In; eauto. Qed.

Ltac crunch := vm_compute; reflexivity.
Ltac done_ok :=
  match goal with
  | |- exists g', _ /\ simres ?cfg ?gh ?s ?l ?s' g' =>
      exists (abs (c_targets cfg) (next_gh gh s l) s'); split; [crunch | reflexivity]
  end.

Lemma sim_started_easy : forall cfg gh m wgM rd sn rt wgR wr l s', NoDup (c_targets cfg) -> m <> MInit ->
  let s := MkState m wgM rd sn rt wgR wr None in
  SInv cfg gh s -> step_started cfg s l = Some s' ->
  match l with LRouterSpawn | LDeliver | LRouterEof | LRouterClose _ | LRecv _ _ | LWriterEof _ | LFinish _ => True
  | _ => exists g', grun P (abs (c_targets cfg) gh s) (impl (c_targets cfg) gh s l) = Some (g', label_events cfg s l)
                 /\ simres cfg gh s l s' g' end.
Proof.
  intros cfg gh m wgM rd sn rt wgR wr l s' Hnd Hm s HI Hs. subst s.
  set (ts := c_targets cfg) in *.
  destruct HI as [Iinit Itinit Ikeys Iopen Itodo Igh]. cbn [s_main s_rt s_wr s_wgR s_sn] in *.
  unfold step_started in Hs; destruct l; cbn [s_main s_rt s_wr s_wgR s_sn s_rd s_wgM s_panic] in *; try exact I.
  - discriminate.
  - (* LReadSend *)
    destruct rd as [[|f r]| |]; try discriminate. destruct sn; try discriminate. inv_some Hs.
    destruct m; [congruence| |]; done_ok.
  - (* LReadClose *)
    destruct rd as [[|f r]| |]; try discriminate. inv_some Hs. destruct m; [congruence| |]; done_ok.
  - (* LReadExit *)
    destruct rd; try discriminate. inv_some Hs. destruct m; [congruence| |]; done_ok.
  - (* LSnapCompute *)
    destruct sn; try discriminate. inv_some Hs. destruct f as [id k].
    destruct k as [o|parts|].
    + destruct o; (destruct m; [congruence| |]; done_ok).
    + cbn [impl s_sn f_kind]. destruct (merge_parts parts) eqn:Emp; (destruct m; [congruence| |]; done_ok).
    + destruct m; [congruence| |]; done_ok.
  - (* LSnapSend *)
    destruct sn as [| |id ord pending| | |]; try discriminate.
    unfold impl, label_events. cbn [s_sn].
    destruct (Igh _ _ _ eq_refl) as [Hle Hf].
    destruct (take_pend ord tm pending) as [[[g|] pending']|] eqn:Et; try discriminate.
    + destruct rt; try discriminate. inv_some Hs.
      destruct gh as [|[|[|]]]; [| | |lia]; destruct g; (destruct m; [congruence| |]; done_ok).
    + inv_some Hs. destruct gh as [|gh].
      * destruct m; [congruence| |]; (eexists; split; [crunch | unfold simres; cbn; discriminate]).
      * exfalso. specialize (Hf ltac:(discriminate)). apply take_pend_In in Et.
        rewrite Forall_forall in Hf. exact (Hf _ Et eq_refl).
  - (* LSnapLoop *)
    destruct sn as [| |id ord [|]| | |]; try discriminate. inv_some Hs.
    destruct (Igh _ _ _ eq_refl) as [Hle _].
    destruct gh as [|[|[|]]]; [| | |lia]; (destruct m; [congruence| |]; done_ok).
  - (* LSnapEof *)
    destruct sn; try discriminate. destruct rd; try discriminate; inv_some Hs; (destruct m; [congruence| |]; done_ok).
  - (* LSnapClose *)
    destruct sn; try discriminate. inv_some Hs. destruct m; [congruence| |]; done_ok.
  - (* LSnapExit *)
    destruct sn; try discriminate. inv_some Hs. destruct m; [congruence| |]; done_ok.
  - (* LRouterWait *)
    destruct rt as [| | |[|]|]; try discriminate. destruct wgR; try discriminate. destruct wgM; inv_some Hs.
    + destruct m; [congruence| |]; (eexists; split; [crunch | unfold simres; cbn; discriminate]).
    + destruct m; [congruence| |]; done_ok.
  - (* LReturn *)
    destruct m; try discriminate. destruct wgM; try discriminate. inv_some Hs. done_ok.
Qed.

(** the pool of a started program *)
Lemma pool_writer : forall (a b c d : thread) ts ws i w, nth_error ws i = Some w ->
  nth_error (a :: b :: c :: d :: wr_ths ts 0 ws) (4 + i) = Some (wr_th ts i w).
Proof. intros. cbn [Nat.add nth_error]. now rewrite (wr_ths_nth _ _ _ _ _ H). Qed.

Lemma pool_writer_upd : forall (a b c d : thread) ts ws i w',
  upd_nth (4 + i) (wr_th ts i w') (a :: b :: c :: d :: wr_ths ts 0 ws) = a :: b :: c :: d :: wr_ths ts 0 (upd_nth i w' ws).
Proof. intros. cbn [Nat.add upd_nth]. do 4 f_equal. exact (wr_ths_upd ws ts 0 i w'). Qed.

Lemma map_closed_upd : forall ws i w (g : writer -> writer), nth_error ws i = Some w -> w_closed (g w) = w_closed w ->
  map w_closed (upd_nth i (g w) ws) = map w_closed ws.
Proof.
  intros ws i w g Hn Hc. rewrite map_upd_nth, Hc. apply upd_nth_same. now apply map_nth_error.
Qed.

Lemma lrun_wr_recv : forall n ts i wtm wcl m0 wgot chans wgs,
  lrun n (4 + i) (Tau 4) (MkL (wr_th ts i (MkWriter wtm wcl (WHold m0) wgot)) chans wgs [] None)
  = Some (MkL (wr_th ts i (w_handle m0 (MkWriter wtm wcl (WHold m0) wgot))) chans wgs [] None, []).
Proof. intros. crunch. Qed.

Lemma sim_LRecv : forall cfg gh m wgM rd sn rt wgR wr tm msg s', NoDup (c_targets cfg) -> m <> MInit ->
  let s := MkState m wgM rd sn rt wgR wr None in
  SInv cfg gh s -> step_started cfg s (LRecv tm msg) = Some s' ->
  exists g', grun P (abs (c_targets cfg) gh s) (impl (c_targets cfg) gh s (LRecv tm msg)) = Some (g', label_events cfg s (LRecv tm msg))
             /\ simres cfg gh s (LRecv tm msg) s' g'.
Proof.
  intros cfg gh m wgM rd sn rt wgR wr tm msg s' Hnd Hm s HI Hs. subst s.
  set (ts := c_targets cfg) in *.
  destruct HI as [Iinit Itinit Ikeys Iopen Itodo Igh]. cbn [s_main s_rt s_wr s_wgR s_sn] in *.
  unfold step_started in Hs. cbn [s_wr] in Hs.
  destruct (find_writer tm wr) as [w|] eqn:Ef; [|discriminate]. destruct (w_st w) eqn:Est; try discriminate.
  destruct (msg_eqb msg m0); [|discriminate]. inv_some Hs.
  assert (Hrt : rt <> TInit). { intros ->. destruct (Itinit eq_refl) as [-> _]. discriminate. }
  pose proof (find_writer_nth _ _ _ Ef) as Hn. rewrite (Ikeys Hrt) in Hn. fold ts in Hn.
  exists (abs ts gh (set_wr (MkState m wgM rd sn rt wgR wr None) (upd_writer tm (w_handle m0) wr))).
  split; [|reflexivity].
  unfold impl, label_events, writer_of, abs. cbn [s_main s_rt s_wr s_wgR s_sn s_rd s_wgM set_wr].
  rewrite (upd_writer_nth _ _ (w_handle m0) _ Ef), (Ikeys Hrt). fold ts.
  rewrite (map_closed_upd _ _ _ (w_handle m0) Hn eq_refl).
  destruct w as [wtm wcl wst wgot]; cbn [w_st] in Est; subst wst.
  destruct m; [congruence| |].
  all: rewrite (grun_local _ _ _ _ _ _ _ _ (pool_writer _ _ _ _ _ _ _ _ Hn) (lrun_wr_recv _ _ _ _ _ _ _ _ _));
       unfold lglobal; cbn [l_th l_new l_chans l_wgs l_pan]; rewrite app_nil_r, pool_writer_upd; reflexivity.
Qed.

(** the writer goroutine at its receive *)
Lemma wr_recv_step : forall ts i wtm wcl got, exists th',
  tstep P CNone (wr_th ts i (MkWriter wtm wcl WRecv got)) = Some (QRecv (2 + i) "feature" "ok", th')
  /\ (forall m0, bind_top "ok" (VBool true) (bind_top "feature" VAny th') = wr_th ts i (MkWriter wtm wcl (WHold m0) got))
  /\ bind_top "ok" (VBool false) (bind_top "feature" VAny th') = wr_th ts i (MkWriter wtm wcl WFin got).
Proof. intros. eexists. split; [crunch|]. split; [intros m0|]; crunch. Qed.

Lemma chans_writer : forall (a b : bool) ws i (w : writer), nth_error ws i = Some w ->
  nth_error (a :: b :: map w_closed ws) (2 + i) = Some (w_closed w).
Proof. intros. cbn [Nat.add nth_error]. now apply map_nth_error. Qed.

Lemma sim_LWriterEof : forall cfg gh m wgM rd sn rt wgR wr tm s', NoDup (c_targets cfg) -> m <> MInit ->
  let s := MkState m wgM rd sn rt wgR wr None in
  SInv cfg gh s -> step_started cfg s (LWriterEof tm) = Some s' ->
  exists g', grun P (abs (c_targets cfg) gh s) (impl (c_targets cfg) gh s (LWriterEof tm)) = Some (g', label_events cfg s (LWriterEof tm))
             /\ simres cfg gh s (LWriterEof tm) s' g'.
Proof.
  intros cfg gh m wgM rd sn rt wgR wr tm s' Hnd Hm s HI Hs. subst s.
  set (ts := c_targets cfg) in *.
  destruct HI as [Iinit Itinit Ikeys Iopen Itodo Igh]. cbn [s_main s_rt s_wr s_wgR s_sn] in *.
  unfold step_started in Hs. cbn [s_wr] in Hs.
  destruct (find_writer tm wr) as [w|] eqn:Ef; [|discriminate]. destruct (w_st w) eqn:Est; try discriminate.
  destruct (w_closed w) eqn:Ec; [|discriminate]. inv_some Hs.
  assert (Hrt : rt <> TInit). { intros ->. destruct (Itinit eq_refl) as [-> _]. discriminate. }
  pose proof (find_writer_nth _ _ _ Ef) as Hn. rewrite (Ikeys Hrt) in Hn. fold ts in Hn.
  exists (abs ts gh (set_wr (MkState m wgM rd sn rt wgR wr None) (upd_writer tm (w_set_st WFin) wr))).
  split; [|reflexivity].
  unfold impl, label_events, writer_of, chan_of, abs. cbn [s_main s_rt s_wr s_wgR s_sn s_rd s_wgM set_wr].
  rewrite (upd_writer_nth _ _ (w_set_st WFin) _ Ef), (Ikeys Hrt). fold ts.
  rewrite (map_closed_upd _ _ _ (w_set_st WFin) Hn eq_refl).
  destruct w as [wtm wcl wst wgot]; cbn [w_st w_closed] in Est, Ec; subst wst wcl.
  destruct (wr_recv_step ts (idx tm ts) wtm true wgot) as [th' [Hst [_ Hfin]]].
  cbn [L Tau repeat map grun].
  destruct m; [congruence| |].
  all: rewrite (gstep_recv_closed _ _ _ _ _ _ _ _ _ _ (pool_writer _ _ _ _ _ _ _ _ Hn) Hst (chans_writer _ _ _ _ _ Hn));
       rewrite Hfin, pool_writer_upd; reflexivity.
Qed.

Lemma lrun_wr_finish : forall n ts i wtm wcl wgot chans wgM wgR,
  lrun n (4 + i) (Tau 6) (MkL (wr_th ts i (MkWriter wtm wcl WFin wgot)) chans [wgM; S wgR] [] None)
  = Some (MkL (wr_th ts i (w_set_st WDone (MkWriter wtm wcl WFin wgot))) chans [wgM; wgR] [] None, [EvWgDone 1; EvExit (4 + i)]).
Proof. intros. crunch. Qed.

Lemma lrun_wr_finish_panic : forall n ts i wtm wcl wgot chans wgM, exists th',
  lrun n (4 + i) (Tau 5) (MkL (wr_th ts i (MkWriter wtm wcl WFin wgot)) chans [wgM; 0%nat] [] None)
  = Some (MkL th' chans [wgM; 0%nat] [] (Some panic_negative_wg), [EvPanic panic_negative_wg]).
Proof. intros. eexists. crunch. Qed.

Lemma sim_LFinish : forall cfg gh m wgM rd sn rt wgR wr tm s', NoDup (c_targets cfg) -> m <> MInit ->
  let s := MkState m wgM rd sn rt wgR wr None in
  SInv cfg gh s -> step_started cfg s (LFinish tm) = Some s' ->
  exists g', grun P (abs (c_targets cfg) gh s) (impl (c_targets cfg) gh s (LFinish tm)) = Some (g', label_events cfg s (LFinish tm))
             /\ simres cfg gh s (LFinish tm) s' g'.
Proof.
  intros cfg gh m wgM rd sn rt wgR wr tm s' Hnd Hm s HI Hs. subst s.
  set (ts := c_targets cfg) in *.
  destruct HI as [Iinit Itinit Ikeys Iopen Itodo Igh]. cbn [s_main s_rt s_wr s_wgR s_sn] in *.
  unfold step_started in Hs. cbn [s_wr s_wgR] in Hs.
  destruct (find_writer tm wr) as [w|] eqn:Ef; [|discriminate]. destruct (w_st w) eqn:Est; try discriminate.
  assert (Hrt : rt <> TInit). { intros ->. destruct (Itinit eq_refl) as [-> _]. discriminate. }
  pose proof (find_writer_nth _ _ _ Ef) as Hn. rewrite (Ikeys Hrt) in Hn. fold ts in Hn.
  assert (Ewg : forall x : nat, match rt with TInit => [] | _ => [x] end = [x]) by (intros x; destruct rt; congruence).
  destruct w as [wtm wcl wst wgot]; cbn [w_st w_closed] in Est; subst wst.
  destruct wgR as [|wgR]; inv_some Hs.
  - (* negative wait group counter *)
    destruct (lrun_wr_finish_panic (List.length (main_th ts m :: rt_th ts rt :: sn_th gh sn :: rd_th rd :: wr_ths ts 0 wr))
                ts (idx tm ts) wtm wcl wgot (rd_is_closed rd :: sn_is_closed sn :: map w_closed wr) wgM) as [th' Hl].
    exists (lglobal (main_th ts m :: rt_th ts rt :: sn_th gh sn :: rd_th rd :: wr_ths ts 0 wr) (4 + idx tm ts)
              (MkL th' (rd_is_closed rd :: sn_is_closed sn :: map w_closed wr) [wgM; 0%nat] [] (Some panic_negative_wg))).
    split; [|unfold simres; cbn; discriminate].
    unfold impl, label_events, writer_of, abs. cbn [s_main s_rt s_wr s_wgR s_sn s_rd s_wgM]. rewrite Ewg.
    destruct m; [congruence| |].
    all: rewrite (grun_local _ _ _ _ _ _ _ _ (pool_writer _ _ _ _ _ _ _ _ Hn) Hl); reflexivity.
  - exists (abs ts gh (set_wgR (set_wr (MkState m wgM rd sn rt (S wgR) wr None) (upd_writer tm (w_set_st WDone) wr)) wgR)).
    split; [|reflexivity].
    unfold impl, label_events, writer_of, abs. cbn [s_main s_rt s_wr s_wgR s_sn s_rd s_wgM set_wr set_wgR].
    rewrite (upd_writer_nth _ _ (w_set_st WDone) _ Ef), (Ikeys Hrt). fold ts.
    rewrite (map_closed_upd _ _ _ (w_set_st WDone) Hn eq_refl).
    rewrite !Ewg.
    destruct m; [congruence| |].
    all: rewrite (grun_local _ _ _ _ _ _ _ _ (pool_writer _ _ _ _ _ _ _ _ Hn) (lrun_wr_finish _ _ _ _ _ _ _ _ _));
         unfold lglobal; cbn [l_th l_new l_chans l_wgs l_pan]; rewrite app_nil_r, pool_writer_upd; reflexivity.
Qed.


(** the Router between its program points *)
Definition rt_have (ts : list tmid) (v : val) : thread :=
  [MkFrame ([("channel", v); ("ok", VBool true); ("feature", VAny)] ++ rt_env ts (chmap ts)) []
     (KSeq (skipn 4 rt_loop) rt_kloop); rt_outer ts].
Definition rt_send (ts : list tmid) (v : val) : thread :=
  [MkFrame ([("channel", v); ("ok", VBool true); ("feature", VAny)] ++ rt_env ts (chmap ts)) []
     (KSeq (skipn 5 rt_loop) rt_kloop); rt_outer ts].
Definition rt_sent (ts : list tmid) (v : val) : thread :=
  [MkFrame ([("channel", v); ("ok", VBool true); ("feature", VAny)] ++ rt_env ts (chmap ts)) [] rt_kloop; rt_outer ts].
Definition rt_closing (ts : list tmid) (E : list (Z * val)) : thread :=
  [MkFrame (rt_env ts (chmap ts)) [] (KRangeMap "_" "targetChannel" E rt_close (KSeq [SWgWait "wg"] KStop)); rt_outer ts].
Definition rt_closing_k (ts : list tmid) (E : list (Z * val)) : kont :=
  KScope 4 (KRangeMap "_" "targetChannel" E rt_close (KSeq [SWgWait "wg"] KStop)).
Definition rt_closing_in (ts : list tmid) (v : val) (E : list (Z * val)) : thread :=
  [MkFrame ([("targetChannel", v)] ++ rt_env ts (chmap ts)) [] (KSeq rt_close (rt_closing_k ts E)); rt_outer ts].
Definition rt_closing_out (ts : list tmid) (v : val) (E : list (Z * val)) : thread :=
  [MkFrame ([("targetChannel", v)] ++ rt_env ts (chmap ts)) [] (rt_closing_k ts E); rt_outer ts].

Lemma rt_have_eq : forall ts tm msg, rt_th ts (THave tm msg) = rt_have ts (mget tm (chmap ts)).
Proof. reflexivity. Qed.
Lemma rt_closing_eq : forall ts todo, rt_th ts (TClosing todo) = rt_closing ts (entries ts todo).
Proof. reflexivity. Qed.

Lemma lrun_rt_nil : forall n ts chans wgs,
  lrun n 1 (Tau 1) (MkL (rt_have ts VNil) chans wgs [] None)
  = Some (MkL (rt_have ts VNil) chans wgs [] (Some panic_no_channel), [EvPanic panic_no_channel]).
Proof. intros. crunch. Qed.

Lemma tstep_rt_check : forall ts c, tstep P CNone (rt_have ts (VChan c)) = Some (QTau, rt_send ts (VChan c)).
Proof. intros. crunch. Qed.
Lemma tstep_rt_send : forall ts c, tstep P CNone (rt_send ts (VChan c)) = Some (QSend c, rt_sent ts (VChan c)).
Proof. intros. crunch. Qed.
Lemma lrun_rt_sent : forall n ts c chans wgs,
  lrun n 1 (Tau 2) (MkL (rt_sent ts (VChan c)) chans wgs [] None) = Some (MkL (rt_th ts TRecv) chans wgs [] None, []).
Proof. intros. crunch. Qed.

Definition rt_at_loop (ts : list tmid) : thread :=
  [MkFrame (rt_env ts (chmap ts)) [] (KLoop rt_loop (KSeq rt_after KStop)); rt_outer ts].
Lemma tstep_rt_pop : forall ts v, tstep P CNone (rt_sent ts v) = Some (QTau, rt_at_loop ts).
Proof. intros. crunch. Qed.
Lemma tstep_rt_loop : forall ts, tstep P CNone (rt_at_loop ts) = Some (QTau, rt_th ts TRecv).
Proof. intros. crunch. Qed.

Lemma sim_LDeliver : forall cfg gh m wgM rd sn rt wgR wr s', NoDup (c_targets cfg) -> m <> MInit ->
  let s := MkState m wgM rd sn rt wgR wr None in
  SInv cfg gh s -> step_started cfg s LDeliver = Some s' ->
  exists g', grun P (abs (c_targets cfg) gh s) (impl (c_targets cfg) gh s LDeliver) = Some (g', label_events cfg s LDeliver)
             /\ simres cfg gh s LDeliver s' g'.
Proof.
  intros cfg gh m wgM rd sn rt wgR wr s' Hnd Hm s HI Hs. subst s.
  set (ts := c_targets cfg) in *.
  destruct HI as [Iinit Itinit Ikeys Iopen Itodo Igh]. cbn [s_main s_rt s_wr s_wgR s_sn] in *.
  unfold step_started in Hs. cbn [s_wr s_rt] in Hs.
  destruct rt as [| |tm msg| |]; try discriminate.
  assert (Hk : map w_tm wr = ts) by (apply Ikeys; discriminate).
  unfold impl, label_events, abs. cbn [s_main s_rt s_wr s_wgR s_sn s_rd s_wgM]. rewrite rt_have_eq.
  destruct (find_writer tm wr) as [w|] eqn:Ef.
  - destruct (w_closed w) eqn:Ec; [destruct (Iopen w (proj1 (find_writer_In _ _ _ Ef)) Ec)|].
    destruct (w_st w) eqn:Est; try discriminate. inv_some Hs.
    destruct (find_writer_In _ _ _ Ef) as [Hin Htm].
    pose proof (find_writer_nth _ _ _ Ef) as Hn. rewrite Hk in Hn.
    assert (Hits : In tm ts). { rewrite <- Hk. apply in_map_iff. exists w. split; [exact Htm | exact Hin]. }
    rewrite (mget_chmap _ _ Hits). unfold writer_of, chan_of.
    exists (abs ts gh (set_rt (set_wr (MkState m wgM rd sn (THave tm msg) wgR wr None) (upd_writer tm (w_set_st (WHold msg)) wr)) TRecv)).
    split; [|reflexivity].
    unfold abs. cbn [s_main s_rt s_wr s_wgR s_sn s_rd s_wgM set_wr set_rt].
    rewrite (upd_writer_nth _ _ (w_set_st (WHold msg)) _ Ef), Hk.
    rewrite (map_closed_upd _ _ _ (w_set_st (WHold msg)) Hn eq_refl).
    destruct w as [wtm wcl wst wgot]; cbn [w_st w_closed] in Est, Ec; subst wst wcl.
    destruct (wr_recv_step ts (idx tm ts) wtm false wgot) as [th' [Hst [Hhold _]]].
    destruct m; [congruence| |].
    all: cbn [L Tau repeat map app grun].
    all: erewrite gstep_tau; [ | reflexivity | apply tstep_rt_check ]; cbn [upd_nth].
    all: erewrite gstep_sync; [ | discriminate | reflexivity | apply pool_writer; exact Hn | apply tstep_rt_send | exact Hst
                               | apply chans_writer with (w := MkWriter wtm false WRecv wgot); exact Hn ].
    all: rewrite (Hhold msg).
    all: cbn [upd_nth Nat.add].
    all: erewrite gstep_tau; [ | reflexivity | apply tstep_rt_pop ]; cbn [upd_nth].
    all: erewrite gstep_tau; [ | reflexivity | apply tstep_rt_loop ]; cbn [upd_nth].
    all: rewrite <- (wr_ths_upd wr ts 0 (idx tm ts)); reflexivity.
  - (* no channel for this tile matrix *)
    inv_some Hs.
    assert (Hni : ~ In tm ts). { rewrite <- Hk. now apply find_writer_None. }
    rewrite (mget_chmap_none _ _ Hni).
    destruct m; [congruence| |].
    all: eexists; split; [eapply grun_local; [reflexivity | apply lrun_rt_nil] | unfold simres; cbn; discriminate].
Qed.

Lemma tstep_rt_close : forall ts c E,
  tstep P CNone (rt_closing_in ts (VChan c) E) = Some (QClose c, rt_closing_out ts (VChan c) E).
Proof. intros. crunch. Qed.
Lemma tstep_rt_close_pop : forall ts v E, tstep P CNone (rt_closing_out ts v E) = Some (QTau, rt_closing ts E).
Proof. intros. crunch. Qed.

Lemma chans_close : forall (a b : bool) ws tm (w : writer), find_writer tm ws = Some w ->
  upd_nth (2 + idx tm (map w_tm ws)) true (a :: b :: map w_closed ws) = a :: b :: map w_closed (upd_writer tm w_close ws).
Proof.
  intros a b ws tm w Ef. cbn [Nat.add upd_nth]. do 2 f_equal.
  rewrite (upd_writer_nth _ _ w_close _ Ef), map_upd_nth. reflexivity.
Qed.

Lemma sim_LRouterClose : forall cfg gh m wgM rd sn rt wgR wr tm s', NoDup (c_targets cfg) -> m <> MInit ->
  let s := MkState m wgM rd sn rt wgR wr None in
  SInv cfg gh s -> step_started cfg s (LRouterClose tm) = Some s' ->
  exists g', grun P (abs (c_targets cfg) gh s) (impl (c_targets cfg) gh s (LRouterClose tm)) = Some (g', label_events cfg s (LRouterClose tm))
             /\ simres cfg gh s (LRouterClose tm) s' g'.
Proof.
  intros cfg gh m wgM rd sn rt wgR wr tm s' Hnd Hm s HI Hs. subst s.
  set (ts := c_targets cfg) in *.
  destruct HI as [Iinit Itinit Ikeys Iopen Itodo Igh]. cbn [s_main s_rt s_wr s_wgR s_sn] in *.
  unfold step_started in Hs. cbn [s_wr s_rt] in Hs.
  destruct rt as [| | |todo|]; try discriminate. destruct (memz tm todo) eqn:Em; [|discriminate]. inv_some Hs.
  assert (Hk : map w_tm wr = ts) by (apply Ikeys; discriminate).
  destruct (Itodo _ eq_refl) as [Hnd' Hincl]. apply memz_In in Em.
  assert (Hits : In tm ts) by (apply Hincl; exact Em).
  destruct (find_writer_Some_ex tm wr) as [w Ef]; [now rewrite Hk|].
  destruct (find_writer_In _ _ _ Ef) as [Hin Htm].
  assert (Ec : w_closed w = false).
  { destruct (w_closed w) eqn:Ec; [|reflexivity]. exfalso. apply (Iopen w Hin Ec). now rewrite Htm. }
  pose proof (find_writer_nth _ _ _ Ef) as Hn. rewrite Hk in Hn.
  exists (abs ts gh (set_rt (set_wr (MkState m wgM rd sn (TClosing todo) wgR wr None) (upd_writer tm w_close wr)) (TClosing (remove_tm tm todo)))).
  split; [|reflexivity].
  unfold impl, label_events, abs, chan_of. cbn [s_main s_rt s_wr s_wgR s_sn s_rd s_wgM set_wr set_rt].
  rewrite !rt_closing_eq, wr_ths_close. rewrite <- (chans_close _ _ _ _ _ Ef), Hk.
  destruct m; [congruence| |].
  all: cbn [L Tau repeat map app grun].
  all: erewrite gstep_tau; [ | reflexivity | apply tstep_rangemap; apply mtake_entries; assumption ]; cbn [upd_nth].
  all: change (enter_iter _ _ _ _ _ _ _ :: _) with (rt_closing_in ts (VChan (chan_of ts tm)) (entries ts (remove_tm tm todo))).
  all: erewrite gstep_close; [ | reflexivity | apply tstep_rt_close | rewrite <- Ec; apply chans_writer; exact Hn ]; cbn [upd_nth].
  all: erewrite gstep_tau; [ | reflexivity | apply tstep_rt_close_pop ]; cbn [upd_nth].
  all: reflexivity.
Qed.

Lemma sim_LRouterEof : forall cfg gh m wgM rd sn rt wgR wr s', NoDup (c_targets cfg) -> m <> MInit ->
  let s := MkState m wgM rd sn rt wgR wr None in
  SInv cfg gh s -> step_started cfg s LRouterEof = Some s' ->
  exists g', grun P (abs (c_targets cfg) gh s) (impl (c_targets cfg) gh s LRouterEof) = Some (g', label_events cfg s LRouterEof)
             /\ simres cfg gh s LRouterEof s' g'.
Proof.
  intros cfg gh m wgM rd sn rt wgR wr s' Hnd Hm s HI Hs. subst s.
  unfold step_started in Hs. cbn [s_sn s_rt] in Hs.
  destruct rt; try discriminate.
  destruct sn; try discriminate; inv_some Hs.
  all: eexists; split; [|unfold simres; cbn [s_panic set_rt]; reflexivity].
  all: unfold abs; cbn [s_main s_rt s_wr s_wgR s_sn s_rd s_wgM set_rt]; rewrite rt_closing_eq, (entries_all _ Hnd).
  all: destruct m; [congruence| |]; crunch.
Qed.

Lemma gstep_newchan : forall ths chans wgs t c th th' x,
  nth_error ths t = Some th -> tstep P c th = Some (QNewChan x, th') ->
  gstep P (MkG ths chans wgs None) (ALocal t c)
  = Some (MkG (upd_nth t (bind_top x (VChan (List.length chans)) th') ths) (chans ++ [false]) wgs None, [EvNewChan (List.length chans)]).
Proof. intros * Hn Ht. unfold gstep. cbn [g_panic g_threads g_chans g_wgs]. now rewrite Hn, Ht. Qed.

Lemma gstep_wgadd : forall ths chans wgs t c th th' w k v,
  nth_error ths t = Some th -> tstep P c th = Some (QWgAdd w k, th') -> nth_error wgs w = Some v ->
  gstep P (MkG ths chans wgs None) (ALocal t c) = Some (MkG (upd_nth t th' ths) chans (upd_nth w (v + k)%nat wgs) None, [EvWgAdd w k]).
Proof. intros * Hn Ht Hw. unfold gstep. cbn [g_panic g_threads g_chans g_wgs]. now rewrite Hn, Ht, Hw. Qed.

Lemma gstep_go : forall ths chans wgs t c th th' th2,
  nth_error ths t = Some th -> tstep P c th = Some (QGo th2, th') ->
  gstep P (MkG ths chans wgs None) (ALocal t c) = Some (MkG (upd_nth t th' ths ++ [th2]) chans wgs None, [EvGo (List.length ths)]).
Proof. intros * Hn Ht. unfold gstep. cbn [g_panic g_threads g_chans g_wgs]. now rewrite Hn, Ht. Qed.

Lemma mtake_head : forall z (v : val) E, mtake z ((z, v) :: E) = Some (v, E).
Proof. intros. cbn [mtake]. now rewrite Z.eqb_refl. Qed.

(** ** The spawn loop of the Router *)

Definition tsmap (l : list tmid) : list (Z * val) := map (fun t => (t, VAny)) l.

Definition rt_spawning (ts : list tmid) (chm E : list (Z * val)) : thread :=
  [MkFrame (rt_env ts chm) [] (KRangeMap "tmID" "target" E rt_spawn (KSeq (skipn 3 rt_body) KStop)); rt_outer ts].
Definition rt_spawn_k (E : list (Z * val)) : kont :=
  KScope 4 (KRangeMap "tmID" "target" E rt_spawn (KSeq (skipn 3 rt_body) KStop)).
Definition it_env (ts : list tmid) (chm : list (Z * val)) (t : tmid) : env := [("target", VAny); ("tmID", VKey t)] ++ rt_env ts chm.
Definition rt_it0 ts chm t E : thread := [MkFrame (it_env ts chm t) [] (KSeq rt_spawn (rt_spawn_k E)); rt_outer ts].
Definition rt_it1 ts chm t c E : thread :=
  [MkFrame (("targetChannel", VChan c) :: it_env ts chm t) [] (KSeq (skipn 1 rt_spawn) (rt_spawn_k E)); rt_outer ts].
Definition rt_it2 ts chm t c E : thread :=
  [MkFrame (("targetChannel", VChan c) :: it_env ts chm t) [] (KSeq (skipn 2 rt_spawn) (rt_spawn_k E)); rt_outer ts].
Definition rt_it3 ts chm t c E : thread :=
  [MkFrame (("targetChannel", VChan c) :: it_env ts chm t) [] (KSeq (skipn 3 rt_spawn) (rt_spawn_k E)); rt_outer ts].
Definition rt_it4 ts chm t c E : thread :=
  [MkFrame (("targetChannel", VChan c) :: it_env ts chm t) [] (rt_spawn_k E); rt_outer ts].
Definition wr_frame ts chm t c : frame :=
  MkFrame (("target", VAny) :: ("targetChannel", VChan c) :: it_env ts chm t) [SWgDone "wg"] KStop.
Definition wr_start ts chm t c : thread :=
  [MkFrame (("target", VAny) :: ("targetChannel", VChan c) :: it_env ts chm t) [] (KSeq wr_closure KStop)].
Definition wr_at_recv ts chm t c : thread :=
  [MkFrame [("features", VChan c)] [] (KSeq wr_loop wr_kloop); wr_frame ts chm t c].

Lemma tstep_it0 : forall ts chm t E,
  tstep P (CIter (Some t)) (rt_spawning ts chm ((t, VAny) :: E)) = Some (QTau, rt_it0 ts chm t E).
Proof. intros. unfold rt_spawning. rewrite (tstep_rangemap _ _ _ _ _ _ _ _ _ _ _ (mtake_head t VAny E)). reflexivity. Qed.
Lemma tstep_it1 : forall ts chm t E, exists th',
  tstep P CNone (rt_it0 ts chm t E) = Some (QNewChan "targetChannel", th')
  /\ forall c, bind_top "targetChannel" (VChan c) th' = rt_it1 ts chm t c E.
Proof. intros. eexists. split; [crunch | intros; crunch]. Qed.
Lemma tstep_it2 : forall ts chm t c E,
  tstep P CNone (rt_it1 ts chm t c E) = Some (QTau, rt_it2 ts (mset t (VChan c) chm) t c E).
Proof. intros. crunch. Qed.
Lemma tstep_it3 : forall ts chm t c E, tstep P CNone (rt_it2 ts chm t c E) = Some (QWgAdd 1 1, rt_it3 ts chm t c E).
Proof. intros. crunch. Qed.
Lemma tstep_it4 : forall ts chm t c E, tstep P CNone (rt_it3 ts chm t c E) = Some (QGo (wr_start ts chm t c), rt_it4 ts chm t c E).
Proof. intros. crunch. Qed.
Lemma tstep_it5 : forall ts chm t c E, tstep P CNone (rt_it4 ts chm t c E) = Some (QTau, rt_spawning ts chm E).
Proof. intros. crunch. Qed.
Lemma lrun_wr_start : forall n i ts chm t c chans wgs,
  lrun n i (Tau 4) (MkL (wr_start ts chm t c) chans wgs [] None) = Some (MkL (wr_at_recv ts chm t c) chans wgs [] None, []).
Proof. intros. crunch. Qed.

Lemma nth_error_snoc : forall {A} (W : list A) x, nth_error (W ++ [x]) (List.length W) = Some x.
Proof. intros. rewrite nth_error_app2 by lia. now rewrite Nat.sub_diag. Qed.
Lemma upd_nth_snoc : forall {A} (W : list A) x y, upd_nth (List.length W) y (W ++ [x]) = W ++ [y].
Proof. induction W as [|z r IH]; intros; cbn; [reflexivity | now rewrite IH]. Qed.

Lemma upd_nth_snoc' : forall {A} (W : list A) k x y, List.length W = k -> upd_nth k y (W ++ [x]) = W ++ [y].
Proof. intros; subst; apply upd_nth_snoc. Qed.

Lemma spawn_iter : forall ts chm t E a c d W c0 c1 cl wgM k, List.length W = k -> List.length cl = k ->
  grun P (MkG (a :: rt_spawning ts chm ((t, VAny) :: E) :: c :: d :: W) (c0 :: c1 :: cl) [wgM; k] None)
         (L 1 ([CIter (Some t)] ++ Tau 4) ++ L (4 + k) (Tau 4) ++ L 1 (Tau 1))
  = Some (MkG (a :: rt_spawning ts (mset t (VChan (2 + k)) chm) E :: c :: d
                 :: (W ++ [wr_at_recv ts (mset t (VChan (2 + k)) chm) t (2 + k)]))
              (c0 :: c1 :: (cl ++ [false])) [wgM; (k + 1)%nat] None,
          [EvNewChan (2 + k); EvWgAdd 1 1; EvGo (4 + k)]).
Proof.
  intros ts chm t E a c d W c0 c1 cl wgM k HW Hcl.
  destruct (tstep_it1 ts chm t E) as [th1 [Ht1 Hb1]].
  set (chm' := mset t (VChan (2 + k)) chm).
  assert (H1 : grun P (MkG (a :: rt_spawning ts chm ((t, VAny) :: E) :: c :: d :: W) (c0 :: c1 :: cl) [wgM; k] None)
                 (L 1 ([CIter (Some t)] ++ Tau 4))
               = Some (MkG (a :: rt_it4 ts chm' t (2 + k) E :: c :: d :: (W ++ [wr_start ts chm' t (2 + k)]))
                           (c0 :: c1 :: (cl ++ [false])) [wgM; (k + 1)%nat] None,
                       [EvNewChan (2 + k); EvWgAdd 1 1; EvGo (4 + k)])).
  { cbn [L Tau repeat map app grun].
    erewrite gstep_tau; [ | reflexivity | apply tstep_it0 ]; cbn [upd_nth].
    erewrite gstep_newchan; [ | reflexivity | exact Ht1 ]; cbn [upd_nth]. rewrite Hb1.
    cbn [List.length]. rewrite Hcl.
    erewrite gstep_tau; [ | reflexivity | apply tstep_it2 ]; cbn [upd_nth].
    erewrite gstep_wgadd; [ | reflexivity | apply tstep_it3 | reflexivity ]; cbn [upd_nth].
    erewrite gstep_go; [ | reflexivity | apply tstep_it4 ]; cbn [upd_nth app List.length]. rewrite HW.
    reflexivity. }
  assert (Hn : nth_error (a :: rt_it4 ts chm' t (2 + k) E :: c :: d :: W ++ [wr_start ts chm' t (2 + k)]) (4 + k)
               = Some (wr_start ts chm' t (2 + k))).
  { cbn [Nat.add nth_error]. rewrite <- HW. apply nth_error_snoc. }
  rewrite grun_app, H1, grun_app.
  rewrite (grun_local _ _ _ _ _ _ _ _ Hn (lrun_wr_start _ _ _ _ _ _ _ _)).
  unfold lglobal. cbn [l_th l_new l_chans l_wgs l_pan]. rewrite app_nil_r.
  cbn [Nat.add upd_nth]. rewrite (upd_nth_snoc' _ _ _ _ HW).
  cbn [L Tau repeat map grun].
  erewrite gstep_tau; [ | reflexivity | apply tstep_it5 ]; cbn [upd_nth].
  reflexivity.
Qed.

Lemma firstn_snoc : forall {A} (done : list A) t rest, firstn (S (List.length done)) (done ++ t :: rest) = done ++ [t].
Proof.
  induction done as [|x r IH]; intros; [reflexivity|].
  change (x :: firstn (S (List.length r)) (r ++ t :: rest) = x :: r ++ [t]). now rewrite IH.
Qed.

Lemma wr_at_recv_eq : forall ts done t rest, ts = done ++ t :: rest ->
  wr_at_recv ts (chmap (done ++ [t])) t (2 + List.length done) = wr_th ts (List.length done) (new_writer t).
Proof.
  intros ts done t rest E. unfold wr_at_recv, wr_th, wr_frame, wr_outer, it_env. cbn [new_writer w_st w_tm].
  replace (firstn (S (List.length done)) ts) with (done ++ [t]) by (rewrite E; symmetry; apply firstn_snoc).
  reflexivity.
Qed.

Definition spawn_acts (ts : list tmid) (t : tmid) : list action :=
  L 1 ([CIter (Some t)] ++ Tau 4) ++ L (writer_of ts t) (Tau 4) ++ L 1 (Tau 1).

Lemma spawn_loop : forall ts a c d c0 c1 wgM rest done, ts = done ++ rest -> NoDup ts ->
  grun P (MkG (a :: rt_spawning ts (chmap done) (tsmap rest) :: c :: d :: wr_ths ts 0 (map new_writer done))
              (c0 :: c1 :: map w_closed (map new_writer done)) [wgM; List.length done] None)
         (flat_map (spawn_acts ts) rest)
  = Some (MkG (a :: rt_spawning ts (chmap ts) [] :: c :: d :: wr_ths ts 0 (map new_writer ts))
              (c0 :: c1 :: map w_closed (map new_writer ts)) [wgM; List.length ts] None,
          spawn_events (List.length done) (List.length rest)).
Proof.
  intros ts a c d c0 c1 wgM. induction rest as [|t r IH]; intros done E Hnd.
  - rewrite app_nil_r in E. subst done. reflexivity.
  - cbn [flat_map]. rewrite grun_app.
    assert (Hfresh : ~ In t done).
    { rewrite E in Hnd. apply NoDup_remove_2 in Hnd. intros Hi. apply Hnd. apply in_or_app. now left. }
    unfold spawn_acts at 1. unfold writer_of.
    replace (idx t ts) with (List.length done) by (rewrite E; symmetry; apply idx_app_fresh; exact Hfresh).
    cbn [tsmap map].
    rewrite (spawn_iter ts (chmap done) t (tsmap r) a c d _ c0 c1 _ wgM (List.length done));
      [ | now rewrite wr_ths_length, map_length | now rewrite !map_length ].
    assert (E' : ts = (done ++ [t]) ++ r) by (rewrite <- app_assoc; exact E).
    specialize (IH (done ++ [t]) E' Hnd).
    assert (Hchm : mset t (VChan (2 + List.length done)) (chmap done) = chmap (done ++ [t])).
    { exact (mset_chmap_from t done 0 Hfresh). }
    rewrite Hchm.
    rewrite (wr_at_recv_eq ts done t r E).
    replace (wr_ths ts 0 (map new_writer done) ++ [wr_th ts (List.length done) (new_writer t)])
      with (wr_ths ts 0 (map new_writer (done ++ [t]))).
    2:{ rewrite map_app, wr_ths_app, map_length. reflexivity. }
    replace (map w_closed (map new_writer done) ++ [false]) with (map w_closed (map new_writer (done ++ [t]))).
    2:{ now rewrite !map_app. }
    replace (List.length done + 1)%nat with (List.length (done ++ [t])) by (rewrite app_length; reflexivity).
    rewrite IH. cbn [List.length spawn_events]. rewrite app_length. cbn [List.length].
    replace (List.length done + 1)%nat with (S (List.length done)) by lia. reflexivity.
Qed.

Lemma lrun_rt_start : forall n ts chans wgM,
  lrun n 1 (Tau 5) (MkL (rt_th ts TInit) chans [wgM] [] None)
  = Some (MkL (rt_spawning ts [] (tsmap ts)) chans [wgM; 0%nat] [] None, [EvNewWg 1]).
Proof. intros. crunch. Qed.

Lemma lrun_rt_spawned : forall n ts chans wgs,
  lrun n 1 ([CIter None] ++ Tau 2) (MkL (rt_spawning ts (chmap ts) []) chans wgs [] None)
  = Some (MkL (rt_th ts TRecv) chans wgs [] None, []).
Proof. intros. crunch. Qed.

Lemma sim_LRouterSpawn : forall cfg gh m wgM rd sn rt wgR wr s', NoDup (c_targets cfg) -> m <> MInit ->
  let s := MkState m wgM rd sn rt wgR wr None in
  SInv cfg gh s -> step_started cfg s LRouterSpawn = Some s' ->
  exists g', grun P (abs (c_targets cfg) gh s) (impl (c_targets cfg) gh s LRouterSpawn) = Some (g', label_events cfg s LRouterSpawn)
             /\ simres cfg gh s LRouterSpawn s' g'.
Proof.
  intros cfg gh m wgM rd sn rt wgR wr s' Hnd Hm s HI Hs. subst s.
  destruct HI as [Iinit Itinit Ikeys Iopen Itodo Igh]. cbn [s_main s_rt s_wr s_wgR s_sn] in *.
  unfold step_started in Hs. cbn [s_rt] in Hs.
  destruct rt; try discriminate. destruct (Itinit eq_refl) as [-> ->]. inv_some Hs.
  eexists. split; [|unfold simres; cbn [s_panic set_rt set_wgR set_wr]; reflexivity].
  set (ts := c_targets cfg) in *.
  unfold impl, label_events, abs. cbn [s_main s_rt s_wr s_wgR s_sn s_rd s_wgM set_rt set_wgR set_wr wr_ths map Nat.add].
  change (flat_map _ ts) with (flat_map (spawn_acts ts) ts).
  destruct m; [congruence| |].
  all: rewrite grun_app; erewrite grun_local; [ | reflexivity | apply lrun_rt_start ].
  all: unfold lglobal; cbn [l_th l_new l_chans l_wgs l_pan upd_nth app].
  all: rewrite grun_app.
  all: rewrite (spawn_loop ts _ _ _ _ _ wgM ts [] eq_refl Hnd).
  all: erewrite grun_local; [ | reflexivity | apply lrun_rt_spawned ].
  all: unfold lglobal; cbn [l_th l_new l_chans l_wgs l_pan upd_nth app List.length]; rewrite !app_nil_r; reflexivity.
Qed.

(** ** ProcessFeatures up to its wg.Wait() *)

Definition main_start (ts : list tmid) : thread :=
  [MkFrame [("f", VAny); ("targets", targets_val ts); ("source", VAny)] [] (KSeq main_body KStop)].
Definition main_env0 (ts : list tmid) : env :=
  [("featuresAfter", VChan 1); ("featuresBefore", VChan 0); ("f", VAny); ("targets", targets_val ts); ("source", VAny)].
Definition main_range_body : list stmt := Eval cbv in range_body (nth_error main_body 3).
Definition main_k (E : list (Z * val)) : kont := KRangeMap "tmID" "" E main_range_body (KSeq (skipn 4 main_body) KStop).
Definition main_ranging (ts : list tmid) (E : list (Z * val)) : thread := [MkFrame (main_env0 ts) [] (main_k E)].
Definition main_it0 (ts : list tmid) (t : tmid) (E : list (Z * val)) : thread :=
  [MkFrame (("tmID", VKey t) :: main_env0 ts) [] (KSeq main_range_body (KScope 5 (main_k E)))].
Definition main_it1 (ts : list tmid) (t : tmid) (E : list (Z * val)) : thread :=
  [MkFrame (("tmID", VKey t) :: main_env0 ts) [] (KScope 5 (main_k E))].

Lemma ginit_eq : forall ts, ginit P ts = MkG [main_start ts] [] [] None.
Proof. intros. reflexivity. Qed.

Lemma lrun_main_start : forall n ts,
  lrun n 0 (Tau 4) (MkL (main_start ts) [] [] [] None)
  = Some (MkL (main_ranging ts (tsmap ts)) [false; false] [] [] None, [EvNewChan 0; EvNewChan 1]).
Proof. intros. crunch. Qed.

Lemma tstep_main_it0 : forall ts t E,
  tstep P (CIter (Some t)) (main_ranging ts ((t, VAny) :: E)) = Some (QTau, main_it0 ts t E).
Proof. intros. unfold main_ranging, main_k. rewrite (tstep_rangemap _ _ _ _ _ _ _ _ _ _ _ (mtake_head t VAny E)). reflexivity. Qed.
Lemma tstep_main_it1 : forall ts t E, tstep P CNone (main_it0 ts t E) = Some (QTau, main_it1 ts t E).
Proof. intros. crunch. Qed.
Lemma tstep_main_it2 : forall ts t E, tstep P CNone (main_it1 ts t E) = Some (QTau, main_ranging ts E).
Proof. intros. crunch. Qed.

Lemma main_loop : forall ts chans wgs l,
  grun P (MkG [main_ranging ts (tsmap l)] chans wgs None) (L 0 (flat_map (fun t => [CIter (Some t); CNone; CNone]) l))
  = Some (MkG [main_ranging ts []] chans wgs None, []).
Proof.
  intros ts chans wgs. induction l as [|t r IH]; [reflexivity|].
  cbn [flat_map app L map tsmap grun]. fold (tsmap r).
  erewrite gstep_tau; [ | reflexivity | apply tstep_main_it0 ]; cbn [upd_nth].
  erewrite gstep_tau; [ | reflexivity | apply tstep_main_it1 ]; cbn [upd_nth].
  erewrite gstep_tau; [ | reflexivity | apply tstep_main_it2 ]; cbn [upd_nth].
  fold (L 0 (flat_map (fun t => [CIter (Some t); CNone; CNone]) r)). rewrite IH. reflexivity.
Qed.

Lemma main_rest : forall ts gh src,
  grun P (MkG [main_ranging ts []] [false; false] [] None) (L 0 ([CIter None] ++ Tau 5) ++ L 2 (Tau 3) ++ L 3 (Tau 2))
  = Some (abs ts gh (MkState MWait 1 (RdRun src) SRecv TInit 0 [] None),
          [EvNewWg 0; EvWgAdd 0 1; EvGo 1; EvGo 2; EvGo 3]).
Proof. intros. crunch. Qed.

Lemma sim_LMainStart : forall cfg gh,
  grun P (abs (c_targets cfg) gh (init cfg)) (impl (c_targets cfg) gh (init cfg) LMainStart)
  = Some (abs (c_targets cfg) gh (set_wgM (set_main (init cfg) MWait) 1), label_events cfg (init cfg) LMainStart).
Proof.
  intros cfg gh. set (ts := c_targets cfg).
  unfold impl, label_events. unfold abs at 1. cbn [init s_main]. rewrite ginit_eq.
  rewrite !L_app, <- !app_assoc.
  rewrite grun_app. erewrite grun_local; [ | reflexivity | apply lrun_main_start ].
  unfold lglobal; cbn [l_th l_new l_chans l_wgs l_pan upd_nth app].
  rewrite grun_app, main_loop.
  rewrite !app_assoc, <- L_app, <- !app_assoc.
  unfold set_wgM, set_main, init. cbn [s_main s_wgM s_rd s_sn s_rt s_wgR s_wr s_panic].
  rewrite (main_rest ts gh (c_src cfg)). reflexivity.
Qed.

(** ** Every step of the model *)

Lemma sim_step : forall cfg gh s l s', NoDup (c_targets cfg) -> s_panic s = None -> SInv cfg gh s ->
  step cfg s l = Some s' ->
  exists g', grun P (abs (c_targets cfg) gh s) (impl (c_targets cfg) gh s l) = Some (g', label_events cfg s l)
             /\ simres cfg gh s l s' g'.
Proof.
  intros cfg gh s l s' Hnd Hp HI Hs.
  destruct s as [m wgM rd sn rt wgR wr pn]. cbn [s_panic] in Hp. subst pn.
  unfold step in Hs. cbn [s_panic s_main] in Hs.
  destruct m.
  - destruct l; try discriminate. inversion Hs; subst s'; clear Hs.
    pose proof (si_init _ _ _ HI eq_refl) as Ei. rewrite Ei.
    eexists. split; [apply sim_LMainStart | reflexivity].
  - assert (Hm : MWait <> MInit) by discriminate.
    pose proof (sim_started_easy cfg gh MWait wgM rd sn rt wgR wr l s' Hnd Hm HI Hs) as He.
    destruct l; try exact He.
    + eapply sim_LRouterSpawn; eauto.
    + eapply sim_LDeliver; eauto.
    + eapply sim_LRouterEof; eauto.
    + eapply sim_LRouterClose; eauto.
    + eapply sim_LRecv; eauto.
    + eapply sim_LWriterEof; eauto.
    + eapply sim_LFinish; eauto.
  - assert (Hm : MRet <> MInit) by discriminate.
    pose proof (sim_started_easy cfg gh MRet wgM rd sn rt wgR wr l s' Hnd Hm HI Hs) as He.
    destruct l; try exact He.
    + eapply sim_LRouterSpawn; eauto.
    + eapply sim_LDeliver; eauto.
    + eapply sim_LRouterEof; eauto.
    + eapply sim_LRouterClose; eauto.
    + eapply sim_LRecv; eauto.
    + eapply sim_LWriterEof; eauto.
    + eapply sim_LFinish; eauto.
Qed.

(** ** Every run of the model *)

(** what a state of the skeleton semantics has to be for a state of the model *)
Definition stands_for (cfg : config) (gh : nat) (s : state) (g : gstate) : Prop :=
  match s_panic s with
  | Some _ => g_panic g <> None                        (* the program has panicked *)
  | None => g = abs (c_targets cfg) gh s
  end.

Lemma step_panicked : forall cfg s l, s_panic s <> None -> step cfg s l = None.
Proof. intros cfg s l H. unfold step. destruct (s_panic s); [reflexivity | congruence]. Qed.

Lemma sim_run : forall cfg ls gh s s', NoDup (c_targets cfg) -> s_panic s = None -> SInv cfg gh s ->
  run cfg s ls = Some s' ->
  exists g', grun P (abs (c_targets cfg) gh s) (impl_run cfg gh s ls) = Some (g', events_run cfg s ls)
             /\ stands_for cfg (gh_run cfg gh s ls) s' g'
             /\ (s_panic s' = None -> SInv cfg (gh_run cfg gh s ls) s').
Proof.
  intros cfg. induction ls as [|l r IH]; intros gh s s' Hnd Hp HI Hr; cbn [run impl_run events_run gh_run] in *.
  - inversion Hr; subst s'. eexists. split; [reflexivity|]. split; [unfold stands_for; now rewrite Hp | intros _; exact HI].
  - destruct (step cfg s l) as [s1|] eqn:Es; [|discriminate].
    destruct (sim_step cfg gh s l s1 Hnd Hp HI Es) as [g1 [Hg1 Hres]].
    unfold simres in Hres.
    destruct (s_panic s1) as [pn|] eqn:Ep1.
    + (* the step panicked: nothing follows *)
      destruct r as [|l2 r2].
      * cbn [run] in Hr. inversion Hr; subst s'. cbn [impl_run events_run gh_run].
        exists g1. rewrite !app_nil_r. split; [exact Hg1|]. split; [unfold stands_for; now rewrite Ep1 | intros Hc; congruence].
      * cbn [run] in Hr. rewrite step_panicked in Hr by congruence. discriminate.
    + pose proof (sinv_step cfg gh s l s1 Hnd Hp HI Es Ep1) as HI1.
      destruct (IH (next_gh gh s l) s1 s' Hnd Ep1 HI1 Hr) as [g' [Hg' [Hst Hinv]]].
      exists g'. split; [|split; assumption].
      subst g1. exact (grun_app_some _ _ _ _ _ _ _ Hg1 Hg').
Qed.

(** Every run of the model of the pipeline (Pipe/Model.v) — any configuration whose targets are the keys of a map,
    any schedule, including the runs that end in one of the model's panics — is a run of the skeleton semantics of
    the skeleton of processing.go from its initial state: the steps are [impl_run], the communication actions
    performed are exactly those the labels stand for ([events_run]), and the state reached is the one the model
    state stands for ([abs]: the program point and variables of every goroutine, every channel, both wait groups). *)
Theorem model_run_is_skeleton_run : forall cfg ls s, NoDup (c_targets cfg) -> exec cfg (init cfg) ls s ->
  exists g, grun P (ginit P (c_targets cfg)) (impl_run cfg 0 (init cfg) ls) = Some (g, events_run cfg (init cfg) ls)
            /\ stands_for cfg (gh_run cfg 0 (init cfg) ls) s g.
Proof.
  intros cfg ls s Hnd He. apply exec_run in He.
  destruct (sim_run cfg ls 0%nat (init cfg) s Hnd eq_refl (sinv_init cfg) He) as [g [Hg [Hst _]]].
  exists g. split; [exact Hg | exact Hst].
Qed.

(** a complete run of the model: every goroutine of the skeleton semantics has returned *)
Lemma wr_ths_done : forall ts i (ws : list writer), Forall (fun w => w_st w = WDone) ws ->
  forallb (fun th : thread => match th with [] => true | _ => false end) (wr_ths ts i ws) = true.
Proof.
  intros ts i ws. revert i. induction ws as [|w r IH]; intros i H; [reflexivity|].
  inversion H; subst. cbn [wr_ths forallb]. unfold wr_th. rewrite H2. now rewrite IH.
Qed.

Theorem complete_model_run_is_complete_skeleton_run : forall cfg ls s, wf_config cfg ->
  exec cfg (init cfg) ls s -> final s = true ->
  exists g, grun P (ginit P (c_targets cfg)) (impl_run cfg 0 (init cfg) ls) = Some (g, events_run cfg (init cfg) ls)
            /\ gfinal g = true.
Proof.
  intros cfg ls s Hwf He Hf.
  destruct (model_run_is_skeleton_run cfg ls s (proj1 Hwf) He) as [g [Hg Hst]].
  exists g. split; [exact Hg|].
  assert (Hs : s = final_state cfg) by (apply final_state_unique; [assumption | exists ls; assumption | assumption]).
  unfold stands_for in Hst. rewrite Hs in Hst. cbn [final_state s_panic] in Hst. subst g.
  unfold abs, gfinal. cbn [final_state s_main s_rt s_sn s_rd s_wr g_panic g_threads main_th rt_th sn_th rd_th forallb].
  apply wr_ths_done. apply Forall_forall. intros w Hi. apply in_map_iff in Hi. destruct Hi as [t [<- _]]. reflexivity.
Qed.
