(** * Pipe/GoData.v — vocabulary of the regenerated DATA side of processing/processing.go (gen/PipeDataGen.v,
      translator/pipedata.go; property C10).

    Definitions only; TRUSTED (they say what the Go constructs the translator emits them for mean).

    - [ggeometry P]: a non-nil value of the interface type [geom.Geometry] (= interface{}) as far as processing.go can
      tell values apart: its dynamic type is [geom.Polygon], [geom.MultiPolygon], or anything else (points, lines,
      pointers to polygons, collections ...: the [default] branch of the type switch); the nil interface is [None].
      A polygon is a value of the abstract type [P]: processing.go never looks inside one (it hands polygons to the
      processPolygonFunc, stores them in slices and maps, and hands them on), so every generated function is
      polymorphic in [P].  Slices are VALUES ([geom.MultiPolygon] and [[]geom.Polygon] are both [list P]; a nil slice
      is []): the slices processing.go writes to are the ones it has just made itself.
    - the columns of a feature ([[]interface{}]) are a value of the abstract type [C].
    - an interface whose methods have no parameters ([Feature]) is the record of the results of its methods
      (regenerated from interface.go): calling a method twice gives the same value (the implementations are getters).
    - [gpanic]: the explicit panics of processing.go ([panic(fmt.Errorf(text, tmID))]: the text is kept) and the run-time
      panic of a failed type assertion [x.(T)].  A function in which they occur returns
      (the variables it has assigned so far — among them the list of values sent on its output channel —, [Some panic]);
      index errors stay [Err IndexOutOfRange] of Prelude/Base.v.
    - [uint64_inc]: [x++] on a uint64.
    - [go_make_slice zero n]: [make([]T, n)].
    - [iface_is_nil], [chan_is_nil]: [x == nil].
    - a Go map keyed by tms20.TMID (= int) is an association list used through [gm_get] / [gm_get_or] / [gm_set] /
      [gm_len] of Prelude/GoAssoc.v with [Z.eqb]; its [range] iterates over [ord site (map fst m)]: the ORDER is a
      parameter of every generated function, one site per execution of the statement, and the theorems quantify over
      every order that permutes ([ord_ok]).  The representation invariant of such a list is [gomap_wf]: no key twice. *)
From Coq Require Import ZArith NArith List Bool String Permutation.
From Texel Require Import Prelude.Base Prelude.GoAssoc.
Import ListNotations.
Open Scope Z_scope.

Inductive ggeometry (P : Type) : Type :=
| GoPolygon (p : P)
| GoMultiPolygon (ps : list P)
| GoOtherGeom (code : N).
Arguments GoPolygon {P} p.
Arguments GoMultiPolygon {P} ps.
Arguments GoOtherGeom {P} code.

Inductive gpanic : Type :=
| GoPanicf (text : string) (arg : Z)
| GoTypeAssertion (want : string).

Definition uint64_inc (x : Z) : Z := (x + 1) mod 2 ^ 64.

Definition go_make_slice {A : Type} (zero : A) (n : Z) : res (list A) :=
  if n <? 0 then Err SliceBounds else Ok (repeat zero (Z.to_nat n)).

Definition iface_is_nil {A : Type} (x : option A) : bool := match x with None => true | Some _ => false end.

Definition gomap_wf {V : Type} (m : gomap Z V) : Prop := NoDup (map fst m).

Definition ord_ok {S : Type} (ord : S -> list Z -> list Z) : Prop := forall s l, Permutation (ord s l) l.
