(** * Pipe/ProofsConverse9.v — converse source tie, part 9: runs.  Every run of the skeleton semantics whose data
      choices follow the coupled model state is matched by a run of the model; what the model's theorems then say
      about the states of the skeleton semantics (no panic, delivery at the end, Main returns last). *)
From Coq Require Import ZArith List String Bool Lia Permutation.
From Texel Require Import Pipe.Model Pipe.ProofsBase Pipe.ProofsInv Pipe.ProofsLive Pipe.Skeleton Pipe.SkeletonSem Pipe.SkeletonSim
  Pipe.ProofsSkeleton Pipe.ConversePc Pipe.ConversePcSn Pipe.ProofsConversePc Pipe.ProofsConversePcSn Pipe.Converse Pipe.ConverseRank
  Pipe.ProofsConverse1 Pipe.ProofsConverse2 Pipe.ProofsConverse4 Pipe.ProofsConverse8.
Import ListNotations.
Open Scope string_scope.
Open Scope list_scope.

(** ** Coupled runs *)

Lemma crun_grun : forall cfg g s acts evs g' s', crun P cfg g s acts evs g' s' -> grun P g acts = Some (g', evs).
Proof.
  induction 1 as [|g s a g1 ev s1 acts evs g2 s2 Hg Hd Hm Hr Hc IH]; [reflexivity|].
  cbn [grun]. now rewrite Hg, IH.
Qed.

Lemma crun_rel : forall cfg g s acts evs g' s', crun P cfg g s acts evs g' s' -> skel_rel cfg g s -> skel_rel cfg g' s'.
Proof. induction 1; auto. Qed.

Lemma mstep_run : forall cfg s s', mstep cfg s s' -> exists ls, run cfg s ls = Some s' /\ (List.length ls <= 1)%nat.
Proof.
  intros cfg s s' [->|[l Hl]]; [exists []; split; [reflexivity | cbn; lia] | exists [l]; split; [cbn; now rewrite Hl | cbn; lia]].
Qed.

Lemma crun_exec : forall cfg g s acts evs g' s', crun P cfg g s acts evs g' s' ->
  exists ls, run cfg s ls = Some s' /\ (List.length ls <= List.length acts)%nat.
Proof.
  induction 1 as [|g s a g1 ev s1 acts evs g2 s2 Hg Hd Hm Hr Hc IH]; [exists []; split; [reflexivity | cbn; lia]|].
  destruct (mstep_run _ _ _ Hm) as (l1 & Hl1 & Hn1). destruct IH as (l2 & Hl2 & Hn2).
  exists (l1 ++ l2). split; [now rewrite run_app, Hl1 | rewrite app_length; cbn; lia].
Qed.

Lemma crun_snoc : forall cfg g s acts evs g1 s1 a g2 ev s2, crun P cfg g s acts evs g1 s1 ->
  gstep P g1 a = Some (g2, ev) -> data_ok s1 g1 a -> mstep cfg s1 s2 -> skel_rel cfg g2 s2 ->
  crun P cfg g s (acts ++ [a]) (evs ++ ev) g2 s2.
Proof.
  induction 1 as [|g s a0 g0 ev0 s0 acts evs g1 s1 Hg Hd Hm Hr Hc IH]; intros Hg2 Hd2 Hm2 Hr2.
  - cbn [app]. rewrite <- (app_nil_r ev). econstructor; eauto. constructor.
  - cbn [app]. rewrite <- app_assoc. econstructor; eauto.
Qed.

(** a coupled run can be extended by EVERY step of the skeleton semantics whose data choice follows the model state:
    no schedule is left out *)
Theorem crun_extend : forall cfg g s acts evs g1 s1 a g2 ev, NoDup (c_targets cfg) -> skel_rel cfg g s ->
  crun P cfg g s acts evs g1 s1 -> gstep P g1 a = Some (g2, ev) -> data_ok s1 g1 a ->
  exists s2, crun P cfg g s (acts ++ [a]) (evs ++ ev) g2 s2.
Proof.
  intros cfg g s acts evs g1 s1 a g2 ev Hnd Hr Hc Hg Hd.
  destruct (conv_step cfg g1 s1 a g2 ev Hnd (crun_rel _ _ _ _ _ _ _ Hc Hr) Hg Hd) as (s2 & Hm & Hr2).
  exists s2. eapply crun_snoc; eauto.
Qed.

(** every coupled run from the start is a run of the skeleton semantics, is matched by an execution of the model that
    is not longer, and ends in related states *)
Theorem skeleton_run_is_model_run : forall cfg acts evs g s,
  crun P cfg (ginit P (c_targets cfg)) (init cfg) acts evs g s ->
  grun P (ginit P (c_targets cfg)) acts = Some (g, evs)
  /\ (exists ls, exec cfg (init cfg) ls s /\ (List.length ls <= List.length acts)%nat)
  /\ skel_rel cfg g s.
Proof.
  intros cfg acts evs g s Hc. split; [eapply crun_grun; eauto|]. split.
  - destruct (crun_exec _ _ _ _ _ _ _ Hc) as (ls & Hl & Hn). exists ls. split; [now apply exec_run | exact Hn].
  - eapply crun_rel; eauto. apply skel_rel_init.
Qed.

Lemma crun_reachable : forall cfg acts evs g s, crun P cfg (ginit P (c_targets cfg)) (init cfg) acts evs g s -> reachable cfg s.
Proof. intros cfg acts evs g s Hc. destruct (skeleton_run_is_model_run _ _ _ _ _ Hc) as (_ & (ls & Hl & _) & _). now exists ls. Qed.

(** ** What related states have in common *)

Lemma skel_rel_panic_iff : forall cfg g s, skel_rel cfg g s -> (g_panic g = None <-> s_panic s = None).
Proof.
  intros cfg g s H. unfold skel_rel in H. destruct (g_panic g), (s_panic s); try contradiction; split; congruence.
Qed.

Lemma th_of_nil : forall ts ro, role_ok ro -> th_of ts ro = [] ->
  ro = RoMain M11 \/ ro = RoRouter RX4 \/ ro = RoSnap SX \/ ro = RoRead D8 \/ exists chm z v n, ro = RoWriter chm z v n WF6.
Proof.
  intros ts ro Hok H. destruct ro as [pc|pc|pc|pc|chm z v n pc]; cbn [th_of] in H.
  - destruct pc; try discriminate. auto.
  - destruct pc; try discriminate. auto.
  - destruct pc; try discriminate; [auto|]. cbn in H. apply app_eq_nil in H. destruct H as [_ H]. destruct b; discriminate.
  - destruct pc; try discriminate. auto 6.
  - destruct pc; try discriminate. right. right. right. right. eauto.
Qed.

(** every goroutine of the skeleton semantics has returned  =>  the model state is final *)
Lemma gfinal_final : forall cfg g s, skel_rel cfg g s -> gfinal g = true -> final s = true.
Proof.
  intros cfg g s Hrel Hf. unfold gfinal in Hf. unfold skel_rel in Hrel.
  destruct (g_panic g); [discriminate|]. destruct (s_panic s) eqn:Hpan; [contradiction|].
  destruct Hrel as (roles & Hths & Hcoh). rewrite Hths in Hf. rewrite forallb_forall in Hf.
  assert (Hnil : forall t ro, nth_error roles t = Some ro -> th_of (c_targets cfg) ro = []).
  { intros t ro Hn. specialize (Hf (th_of (c_targets cfg) ro) (in_map _ _ _ (nth_error_In _ _ Hn))).
    destruct (th_of (c_targets cfg) ro); [reflexivity | discriminate]. }
  assert (Hrole : forall k ro, lk k roles = Some ro -> th_of (c_targets cfg) ro = [] /\ role_ok ro).
  { intros k ro Hl. apply lk_some_kind in Hl. destruct Hl as [_ Hi]. apply In_nth_error in Hi. destruct Hi as [t Ht].
    split; [eapply Hnil; eauto | eapply coh_role_ok; eauto]. }
  pose proof Hcoh as (pm & Hm & Hnd & Hph).
  destruct (Hrole _ _ Hm) as [Hm0 _]. cbn [th_of] in Hm0. destruct pm; try discriminate. cbn [is_early] in Hph.
  destruct Hph as (Hmain & (wch & wrest & prt & _ & _ & Hsn & Hrd & Hrt & (done & Hcore & _))).
  unfold sn_clause in Hsn. destruct (lk KSnap roles) as [[| |p| |]|] eqn:Els; try contradiction; [|destruct Hsn; discriminate].
  destruct (Hrole _ _ Els) as [Hs0 Hsok]. destruct (th_of_nil _ _ Hsok Hs0) as [H|[H|[H|[H|(?&?&?&?&H)]]]]; try discriminate.
  inversion H; subst p. destruct Hsn as (_ & _ & Hsn). cbn in Hsn.
  unfold rd_clause in Hrd. destruct (lk KRead roles) as [[| | |p|]|] eqn:Elr; try contradiction; [|destruct Hrd as [[?|?] _]; discriminate].
  destruct (Hrole _ _ Elr) as [Hr0 Hrok]. destruct (th_of_nil _ _ Hrok Hr0) as [H1|[H1|[H1|[H1|(?&?&?&?&H1)]]]]; try discriminate.
  inversion H1; subst p. destruct Hrd as (_ & _ & Hrd). cbn in Hrd.
  destruct (Hrole _ _ Hrt) as [Ht0 Htok]. destruct (th_of_nil _ _ Htok Ht0) as [H2|[H2|[H2|[H2|(?&?&?&?&H2)]]]]; try discriminate.
  inversion H2; subst prt. cbn in Hcore. destruct Hcore as [_ Hrt0].
  unfold final. cbn [main_st] in Hmain. now rewrite Hmain, Hrd, Hsn, Hrt0, Hpan.
Qed.

(** ** Transfer of the model's theorems (well-formed configurations) *)

Theorem skeleton_no_panic : forall cfg acts evs g s, wf_config cfg ->
  crun P cfg (ginit P (c_targets cfg)) (init cfg) acts evs g s -> g_panic g = None.
Proof.
  intros cfg acts evs g s Hwf Hc. destruct (skeleton_run_is_model_run _ _ _ _ _ Hc) as (_ & _ & Hrel).
  apply (skel_rel_panic_iff _ _ _ Hrel). apply (no_panic cfg s Hwf). eapply crun_reachable; eauto.
Qed.

Theorem skeleton_final_delivery : forall cfg acts evs g s, wf_config cfg ->
  crun P cfg (ginit P (c_targets cfg)) (init cfg) acts evs g s -> gfinal g = true ->
  s = final_state cfg /\ forall i, In i (c_targets cfg) -> recvd i s = expected cfg i /\ finished i s = true.
Proof.
  intros cfg acts evs g s Hwf Hc Hf. destruct (skeleton_run_is_model_run _ _ _ _ _ Hc) as (_ & _ & Hrel).
  pose proof (crun_reachable _ _ _ _ _ Hc) as Hr. pose proof (gfinal_final _ _ _ Hrel Hf) as Hfin.
  split; [now apply final_state_unique | now apply final_delivery].
Qed.
