(** * Pipe/ConversePc.v — the program points of the goroutines of the pipeline skeleton (C10, C11: converse source tie).

    Definitions only (proofs: Pipe/ProofsConversePc.v).  For each process of processing.go (Main = ProcessFeatures,
    Router = the first goroutine literal + writeFeaturesToTargets, Snapper = processFeatures, Reader =
    readFeaturesFromSource inside the contract of Source.ReadFeatures, Writer = the per-target goroutine literal inside
    the contract of Target.WriteFeatures) this file lists EVERY call stack the goroutine can have under the small-step
    semantics Pipe/SkeletonSem.v ([th_*]: program point -> thread) and the control-flow graph between them ([next_*]:
    program point -> choice -> request made of the shared state and the program point afterwards).
    Pipe/ProofsConversePc.v proves that [tstep] of the semantics follows these graphs exactly (nothing is assumed). *)
From Coq Require Import ZArith List String Bool.
From Texel Require Import Pipe.Model Pipe.Skeleton Pipe.SkeletonSem Pipe.SkeletonSim.
Import ListNotations.
Open Scope string_scope.
Open Scope list_scope.

(** what a step asks of the shared state, and the program point afterwards ([b]: the ok flag of a receive) *)
Inductive out (pc : Type) := Out (q : req) (k : bool -> pc).
Arguments Out {pc}.
Definition K {pc : Type} (p : pc) : bool -> pc := fun _ => p.

(** what [gstep] does to the goroutine after its own step: the fresh channel / wait group [n] or the received flag *)
Definition post (q : req) (th : thread) (n : nat) (okb : bool) : thread :=
  match q with
  | QNewChan x => bind_top x (VChan n) th
  | QNewWg x => bind_top x (VWg n) th
  | QRecv _ x ok => bind_top ok (VBool okb) (bind_top x VAny th)
  | _ => th
  end.

(** ** Writer of one target: key [z] (value [v] in the targets map), channel [n], started when targetChannels was [chm] *)

Inductive wpc := W0 | W1 | W2 | W3 | WRv | WG (b : bool) | WH | WS | WF1 | WF2 | WF3 | WF4 | WF5 | WF6.

Definition it_env (z : Z) (v : val) : env := [("target", v); ("tmID", VKey z)].
Definition wenv (ts : list tmid) (chm : list (Z * val)) (z : Z) (v : val) (n : nat) : env :=
  [("target", v); ("targetChannel", VChan n)] ++ it_env z v ++ rt_env ts chm.
Definition wouter (ts : list tmid) (chm : list (Z * val)) (z : Z) (v : val) (n : nat) : frame :=
  MkFrame (wenv ts chm z v n) [SWgDone "wg"] KStop.
Definition wenv_in (n : nat) : env := [("features", VChan n)].
Definition wenv_got (n : nat) (ok : bool) : env := [("ok", VBool ok); ("feature", VAny)] ++ wenv_in n.

Definition th_wr (ts : list tmid) (chm : list (Z * val)) (z : Z) (v : val) (n : nat) (pc : wpc) : thread :=
  let o := wouter ts chm z v n in
  match pc with
  | W0 => [MkFrame (wenv ts chm z v n) [] (KSeq wr_closure KStop)]
  | W1 => [MkFrame (wenv ts chm z v n) [SWgDone "wg"] (KSeq (tl wr_closure) KStop)]
  | W2 => [MkFrame (wenv_in n) [] (KSeq (fn_body target_contract) KStop); o]
  | W3 => [MkFrame (wenv_in n) [] (KLoop wr_loop (KSeq [SReturn ""] KStop)); o]
  | WRv => [MkFrame (wenv_in n) [] (KSeq wr_loop wr_kloop); o]
  | WG b => [MkFrame (wenv_got n b) [] (KSeq (tl wr_loop) wr_kloop); o]
  | WH => [MkFrame (wenv_got n true) [] (KSeq (skipn 2 wr_loop) wr_kloop); o]
  | WS => [MkFrame (wenv_got n true) [] wr_kloop; o]
  | WF1 => [MkFrame (wenv_in n) [] (KSeq [SReturn ""] KStop); o]
  | WF2 => [MkFrame (wenv_in n) [] KStop; o]
  | WF3 => [o]
  | WF4 => [MkFrame (wenv ts chm z v n) [] (KSeq [SWgDone "wg"] KStop)]
  | WF5 => [MkFrame (wenv ts chm z v n) [] KStop]
  | WF6 => []
  end.

Definition next_wr (n : nat) (pc : wpc) (c : choice) : option (out wpc) :=
  match pc with
  | W0 => Some (Out QTau (K W1))
  | W1 => Some (Out QTau (K W2))
  | W2 => Some (Out QTau (K W3))
  | W3 => Some (Out QTau (K WRv))
  | WRv => Some (Out (QRecv n "feature" "ok") WG)
  | WG true => Some (Out QTau (K WH))
  | WG false => Some (Out QTau (K WF1))
  | WH => Some (Out QTau (K WS))
  | WS => Some (Out QTau (K W3))
  | WF1 => Some (Out QTau (K WF2))
  | WF2 => Some (Out QTau (K WF3))
  | WF3 => Some (Out QTau (K WF4))
  | WF4 => Some (Out (QWgDone 1) (K WF5))
  | WF5 => Some (Out QExit (K WF6))
  | WF6 => None
  end.

(** ** Reader *)

Inductive dpc := D0 | D1 | DH | D2 | D3 | D4 | D5 | D6 | D7 | D8.

Definition denv_in : env := [("features", VChan 0)].
Definition d_after : kont := KSeq [SClose "features"; SReturn ""] KStop.
Definition d_head : kont := KRangeAny "_" "feature" rd_loop d_after.

Definition th_rd (pc : dpc) : thread :=
  match pc with
  | D0 => [MkFrame [("features", VChan 0); ("source", VAny)] [] (KSeq (body_of "readFeaturesFromSource") KStop)]
  | D1 => [MkFrame denv_in [] (KSeq (fn_body source_contract) KStop); rd_outer]
  | DH => [MkFrame denv_in [] d_head; rd_outer]
  | D2 => [MkFrame (("feature", VAny) :: denv_in) [] (KSeq rd_loop (KScope 1 d_head)); rd_outer]
  | D3 => [MkFrame (("feature", VAny) :: denv_in) [] (KScope 1 d_head); rd_outer]
  | D4 => [MkFrame denv_in [] d_after; rd_outer]
  | D5 => [MkFrame denv_in [] (KSeq [SReturn ""] KStop); rd_outer]
  | D6 => [MkFrame denv_in [] KStop; rd_outer]
  | D7 => [rd_outer]
  | D8 => []
  end.

Definition next_rd (pc : dpc) (c : choice) : option (out dpc) :=
  match pc with
  | D0 => Some (Out QTau (K D1))
  | D1 => Some (Out QTau (K DH))
  | DH => match c with
          | CIter (Some _) => Some (Out QTau (K D2))
          | CIter None => Some (Out QTau (K D4))
          | _ => None
          end
  | D2 => Some (Out (QSend 0) (K D3))
  | D3 => Some (Out QTau (K DH))
  | D4 => Some (Out (QClose 0) (K D5))
  | D5 => Some (Out QTau (K D6))
  | D6 => Some (Out QTau (K D7))
  | D7 => Some (Out QExit (K D8))
  | D8 => None
  end.

(** ** Router: the goroutine literal of ProcessFeatures, then writeFeaturesToTargets.
    [chm]: the value of targetChannels; [todo]: the entries a range has still to visit; [n]: the next fresh channel *)

Inductive rtpc :=
| R0 | R1 | T0 | T1 | T2
| TH (chm todo : list (Z * val)) (n : nat)
| TS1 (chm : list (Z * val)) (z : Z) (v : val) (todo : list (Z * val)) (n : nat)
| TS2 (chm : list (Z * val)) (z : Z) (v : val) (todo : list (Z * val)) (n : nat)
| TS3 (chm : list (Z * val)) (z : Z) (v : val) (todo : list (Z * val)) (n : nat)
| TS4 (chm : list (Z * val)) (z : Z) (v : val) (todo : list (Z * val)) (n : nat)
| TS5 (chm : list (Z * val)) (z : Z) (v : val) (todo : list (Z * val)) (n : nat)
| T3 (chm : list (Z * val)) | TL (chm : list (Z * val)) | TRv (chm : list (Z * val))
| TG1 (chm : list (Z * val)) (b : bool) | TG2 (chm : list (Z * val)) | TG3 (chm : list (Z * val))
| TG4 (chm : list (Z * val)) (v : val) | TG5 (chm : list (Z * val)) (v : val) | TG6 (chm : list (Z * val)) (v : val)
| TC0 (chm : list (Z * val)) | TCH (chm todo : list (Z * val))
| TC1 (chm : list (Z * val)) (z : Z) (v : val) (todo : list (Z * val)) | TC2 (chm : list (Z * val)) (z : Z) (v : val) (todo : list (Z * val))
| TW (chm : list (Z * val)) | TX (chm : list (Z * val)) | RX1 | RX2 | RX3 | RX4.

Definition r0env (ts : list tmid) : env := [("targets", targets_val ts); ("featuresForTileMatrices", VChan 1)].
Definition rk (j : nat) : kont := kseq (skipn j rt_body) KStop.
Definition sp_head (todo : list (Z * val)) : kont := KRangeMap "tmID" "target" todo rt_spawn (rk 3).
Definition cl_head (todo : list (Z * val)) : kont := KRangeMap "_" "targetChannel" todo rt_close (KSeq [SWgWait "wg"] KStop).
Definition rgot (ts : list tmid) (chm : list (Z * val)) (b : bool) : env :=
  [("ok", VBool b); ("feature", VAny)] ++ rt_env ts chm.
Definition sp_env (ts : list tmid) (chm : list (Z * val)) (z : Z) (v : val) (n : nat) : env :=
  ("targetChannel", VChan n) :: it_env z v ++ rt_env ts chm.

Definition th_rt (ts : list tmid) (pc : rtpc) : thread :=
  let o := rt_outer ts in
  match pc with
  | R0 => [MkFrame (main_env ts) [] (KSeq rt_closure KStop)]
  | R1 => [MkFrame (main_env ts) [SWgDone "wg"] (KSeq (tl rt_closure) KStop)]
  | T0 => [MkFrame (r0env ts) [] (rk 0); o]
  | T1 => [MkFrame (("targetChannels", VMap []) :: r0env ts) [] (rk 1); o]
  | T2 => [MkFrame (rt_env ts []) [] (rk 2); o]
  | TH chm todo _ => [MkFrame (rt_env ts chm) [] (sp_head todo); o]
  | TS1 chm z v todo _ => [MkFrame (it_env z v ++ rt_env ts chm) [] (KSeq rt_spawn (KScope 4 (sp_head todo))); o]
  | TS2 chm z v todo n => [MkFrame (sp_env ts chm z v n) [] (KSeq (skipn 1 rt_spawn) (KScope 4 (sp_head todo))); o]
  | TS3 chm z v todo n => [MkFrame (sp_env ts chm z v n) [] (KSeq (skipn 2 rt_spawn) (KScope 4 (sp_head todo))); o]
  | TS4 chm z v todo n => [MkFrame (sp_env ts chm z v n) [] (KSeq (skipn 3 rt_spawn) (KScope 4 (sp_head todo))); o]
  | TS5 chm z v todo n => [MkFrame (sp_env ts chm z v n) [] (KScope 4 (sp_head todo)); o]
  | T3 chm => [MkFrame (rt_env ts chm) [] (rk 3); o]
  | TL chm => [MkFrame (rt_env ts chm) [] (KLoop rt_loop (KSeq rt_after KStop)); o]
  | TRv chm => [MkFrame (rt_env ts chm) [] (KSeq rt_loop rt_kloop); o]
  | TG1 chm b => [MkFrame (rgot ts chm b) [] (KSeq (tl rt_loop) rt_kloop); o]
  | TG2 chm => [MkFrame (rgot ts chm true) [] (KSeq (skipn 2 rt_loop) rt_kloop); o]
  | TG3 chm => [MkFrame (rgot ts chm true) [] (KSeq (skipn 3 rt_loop) rt_kloop); o]
  | TG4 chm v => [MkFrame (("channel", v) :: rgot ts chm true) [] (KSeq (skipn 4 rt_loop) rt_kloop); o]
  | TG5 chm v => [MkFrame (("channel", v) :: rgot ts chm true) [] (KSeq (skipn 5 rt_loop) rt_kloop); o]
  | TG6 chm v => [MkFrame (("channel", v) :: rgot ts chm true) [] rt_kloop; o]
  | TC0 chm => [MkFrame (rt_env ts chm) [] (KSeq rt_after KStop); o]
  | TCH chm todo => [MkFrame (rt_env ts chm) [] (cl_head todo); o]
  | TC1 chm _ v todo => [MkFrame (("targetChannel", v) :: rt_env ts chm) [] (KSeq rt_close (KScope 4 (cl_head todo))); o]
  | TC2 chm _ v todo => [MkFrame (("targetChannel", v) :: rt_env ts chm) [] (KScope 4 (cl_head todo)); o]
  | TW chm => [MkFrame (rt_env ts chm) [] (KSeq [SWgWait "wg"] KStop); o]
  | TX chm => [MkFrame (rt_env ts chm) [] KStop; o]
  | RX1 => [o]
  | RX2 => [MkFrame (main_env ts) [] (KSeq [SWgDone "wg"] KStop)]
  | RX3 => [MkFrame (main_env ts) [] KStop]
  | RX4 => []
  end.

Definition next_rt (ts : list tmid) (pc : rtpc) (c : choice) : option (out rtpc) :=
  match pc with
  | R0 => Some (Out QTau (K R1))
  | R1 => Some (Out QTau (K T0))
  | T0 => Some (Out QTau (K T1))
  | T1 => Some (Out (QNewWg "wg") (K T2))
  | T2 => Some (Out QTau (K (TH [] (map (fun t => (t, VAny)) ts) 2)))
  | TH chm todo n =>
      match c with
      | CIter (Some z) => match mtake z todo with
                          | Some (v, todo') => Some (Out QTau (K (TS1 chm z v todo' n)))
                          | None => None
                          end
      | CIter None => match todo with [] => Some (Out QTau (K (T3 chm))) | _ => None end
      | _ => None
      end
  | TS1 chm z v todo n => Some (Out (QNewChan "targetChannel") (K (TS2 chm z v todo n)))
  | TS2 chm z v todo n => Some (Out QTau (K (TS3 (mset z (VChan n) chm) z v todo n)))
  | TS3 chm z v todo n => Some (Out (QWgAdd 1 1) (K (TS4 chm z v todo n)))
  | TS4 chm z v todo n => Some (Out (QGo (th_wr ts chm z v n W0)) (K (TS5 chm z v todo n)))
  | TS5 chm z v todo n => Some (Out QTau (K (TH chm todo (S n))))
  | T3 chm => Some (Out QTau (K (TL chm)))
  | TL chm => Some (Out QTau (K (TRv chm)))
  | TRv chm => Some (Out (QRecv 1 "feature" "ok") (TG1 chm))
  | TG1 chm true => Some (Out QTau (K (TG2 chm)))
  | TG1 chm false => Some (Out QTau (K (TC0 chm)))
  | TG2 chm => Some (Out QTau (K (TG3 chm)))
  | TG3 chm => match c with CKey z => Some (Out QTau (K (TG4 chm (mget z chm)))) | _ => None end
  | TG4 chm v => match v with
                 | VNil => Some (Out (QPanic panic_no_channel) (K (TG4 chm v)))
                 | VChan _ => Some (Out QTau (K (TG5 chm v)))
                 | _ => None
                 end
  | TG5 chm v => match v with VChan c0 => Some (Out (QSend c0) (K (TG6 chm v))) | _ => None end
  | TG6 chm v => Some (Out QTau (K (TL chm)))
  | TC0 chm => Some (Out QTau (K (TCH chm chm)))
  | TCH chm todo =>
      match c with
      | CIter (Some z) => match mtake z todo with
                          | Some (v, todo') => Some (Out QTau (K (TC1 chm z v todo')))
                          | None => None
                          end
      | CIter None => match todo with [] => Some (Out QTau (K (TW chm))) | _ => None end
      | _ => None
      end
  | TC1 chm z v todo => match v with
                      | VChan c0 => Some (Out (QClose c0) (K (TC2 chm z v todo)))
                      | VNil => Some (Out (QPanic "close of nil channel") (K (TC1 chm z v todo)))
                      | _ => None
                      end
  | TC2 chm _ v todo => Some (Out QTau (K (TCH chm todo)))
  | TW chm => Some (Out (QWgWait 1) (K (TX chm)))
  | TX chm => Some (Out QTau (K RX1))
  | RX1 => Some (Out QTau (K RX2))
  | RX2 => Some (Out (QWgDone 0) (K RX3))
  | RX3 => Some (Out QExit (K RX4))
  | RX4 => None
  end.

(** the fresh channel / wait group a step expects *)
Definition expect_rt (pc : rtpc) : nat := match pc with T1 => 1 | TS1 _ _ _ _ n => n | _ => 0 end.

(** ** Main = ProcessFeatures *)

Inductive mpc := M0 | M1 | M2 | M3 | MH (todo : list (Z * val)) | MB (z : Z) (todo : list (Z * val)) | MS (z : Z) (todo : list (Z * val))
               | M4 | M5 | M6 | M7 | M8 | M9 | M10 | M11.

Definition menv0 (ts : list tmid) : env := [("f", VAny); ("targets", targets_val ts); ("source", VAny)].
Definition menv2 (ts : list tmid) : env := [("featuresAfter", VChan 1); ("featuresBefore", VChan 0)] ++ menv0 ts.
Definition mk (j : nat) : kont := kseq (skipn j main_body) KStop.
Definition m_loop : list stmt := Eval cbv in range_body (nth_error main_body 3).
Definition m_head (todo : list (Z * val)) : kont := KRangeMap "tmID" "" todo m_loop (mk 4).

Definition th_main (ts : list tmid) (pc : mpc) : thread :=
  match pc with
  | M0 => [MkFrame (menv0 ts) [] (mk 0)]
  | M1 => [MkFrame (("featuresBefore", VChan 0) :: menv0 ts) [] (mk 1)]
  | M2 => [MkFrame (menv2 ts) [] (mk 2)]
  | M3 => [MkFrame (menv2 ts) [] (mk 3)]
  | MH todo => [MkFrame (menv2 ts) [] (m_head todo)]
  | MB z todo => [MkFrame (("tmID", VKey z) :: menv2 ts) [] (KSeq m_loop (KScope 5 (m_head todo)))]
  | MS z todo => [MkFrame (("tmID", VKey z) :: menv2 ts) [] (KScope 5 (m_head todo))]
  | M4 => [MkFrame (menv2 ts) [] (mk 4)]
  | M5 => [MkFrame (main_env ts) [] (mk 5)]
  | M6 => [MkFrame (main_env ts) [] (mk 6)]
  | M7 => [MkFrame (main_env ts) [] (mk 7)]
  | M8 => [MkFrame (main_env ts) [] (mk 8)]
  | M9 => [MkFrame (main_env ts) [] (mk 9)]
  | M10 => [MkFrame (main_env ts) [] KStop]
  | M11 => []
  end.

Definition sn_start : thread := [MkFrame sn_env [] (KSeq sn_body KStop)].

Definition next_main (ts : list tmid) (pc : mpc) (c : choice) : option (out mpc) :=
  match pc with
  | M0 => Some (Out (QNewChan "featuresBefore") (K M1))
  | M1 => Some (Out (QNewChan "featuresAfter") (K M2))
  | M2 => Some (Out QTau (K M3))
  | M3 => Some (Out QTau (K (MH (map (fun t => (t, VAny)) ts))))
  | MH todo =>
      match c with
      | CIter (Some z) => match mtake z todo with
                          | Some (_, todo') => Some (Out QTau (K (MB z todo')))
                          | None => None
                          end
      | CIter None => match todo with [] => Some (Out QTau (K M4)) | _ => None end
      | _ => None
      end
  | MB z todo => Some (Out QTau (K (MS z todo)))
  | MS z todo => Some (Out QTau (K (MH todo)))
  | M4 => Some (Out (QNewWg "wg") (K M5))
  | M5 => Some (Out (QWgAdd 0 1) (K M6))
  | M6 => Some (Out (QGo (th_rt ts R0)) (K M7))
  | M7 => Some (Out (QGo sn_start) (K M8))
  | M8 => Some (Out (QGo (th_rd D0)) (K M9))
  | M9 => Some (Out (QWgWait 0) (K M10))
  | M10 => Some (Out QExit (K M11))
  | M11 => None
  end.

Definition expect_main (pc : mpc) : nat := match pc with M1 => 1 | _ => 0 end.
