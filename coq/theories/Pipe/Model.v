(** * Pipe/Model.v — executable model of /repo/processing/processing.go (C10, C11).

    Definitions only (FRAMEWORK.md): data, the per-feature fan-out exactly as
    [processFeatures] computes it, the labelled transition system of DESIGN.md 4.5
    (Reader, Snapper, Router, Writer_i, Main; unbuffered channels = rendezvous steps;
    close; the two wait groups), a measure, and the history monitor.  Proofs are in
    Pipe/Proofs*.v.

    Source lines refer to processing/processing.go. *)
From Coq Require Import ZArith NArith List Bool.
Import ListNotations.

(** ** Data *)

Definition tmid := Z.          (* tms20.TMID = int *)
Definition fid := N.           (* identity of a source feature (stands for its Columns()) *)
Definition poly := N.          (* identity of one polygon returned by the processPolygonFunc *)

(** geometry carried by a wrapped feature ([featureForTileMatrixWrapper.Geometry()]) *)
Inductive geom :=
| GPoly (p : poly)             (* exactly one resulting polygon: delivered as that polygon *)
| GMulti (ps : list poly)      (* polygonsToMulti / processMultiPolygon: one multipolygon, in order *)
| GOrig                        (* newGeometry = nil: the wrapped feature's own geometry, untouched *)
| GAlien (code : N).           (* never produced by the model; lets the harness print any observation *)

Definition msg := (fid * geom)%type.           (* what a target receives: original columns + a geometry *)

(** the map returned by one call of the processPolygonFunc: tile matrix id -> resulting polygons.
    A Go map: keys are distinct ([wf_outcome]); an absent key = nothing for that tile matrix. *)
Definition outcome := list (tmid * list poly).

Inductive gkind :=
| KPolygon (o : outcome)              (* geom.Polygon, and what f returns for it *)
| KMulti (parts : list outcome)       (* geom.MultiPolygon, and what f returns for each part, in part order *)
| KOther.                             (* the default branch: nil, points, lines, pointers, collections ... *)

Record feature := MkFeature { f_id : fid; f_kind : gkind }.

(** targets = the keys of the [targets] map in the order the [range] of ProcessFeatures:139 yields them
    (arbitrary, fixed per run; a map, so no duplicates) *)
Record config := MkConfig { c_targets : list tmid; c_src : list feature }.

(** ** Decidable equalities *)

Fixpoint list_eqb {A} (eqb : A -> A -> bool) (a b : list A) : bool :=
  match a, b with
  | [], [] => true
  | x :: a', y :: b' => eqb x y && list_eqb eqb a' b'
  | _, _ => false
  end.

Definition geom_eqb (a b : geom) : bool :=
  match a, b with
  | GPoly p, GPoly q => N.eqb p q
  | GMulti ps, GMulti qs => list_eqb N.eqb ps qs
  | GOrig, GOrig => true
  | GAlien x, GAlien y => N.eqb x y
  | _, _ => false
  end.

Definition msg_eqb (a b : msg) : bool := N.eqb (fst a) (fst b) && geom_eqb (snd a) (snd b).

Fixpoint memz (x : tmid) (l : list tmid) : bool :=
  match l with [] => false | y :: r => Z.eqb y x || memz x r end.

Fixpoint nodupz (l : list tmid) : bool :=
  match l with [] => true | y :: r => negb (memz y r) && nodupz r end.

Fixpoint remove_tm (x : tmid) (l : list tmid) : list tmid :=
  match l with [] => [] | y :: r => if Z.eqb y x then remove_tm x r else y :: remove_tm x r end.

(** ** What target [i] must get for feature [f] — the declarative reading of the property *)

Fixpoint lookup (i : tmid) (o : outcome) : list poly :=
  match o with
  | [] => []
  | (k, ps) :: r => if Z.eqb k i then ps else lookup i r
  end.

Definition geom_of_polys (ps : list poly) : option geom :=
  match ps with
  | [] => None                     (* dropped *)
  | [p] => Some (GPoly p)          (* kept *)
  | _ => Some (GMulti ps)          (* split: several polygons delivered as one multipolygon *)
  end.

Definition deliver (i : tmid) (f : feature) : option geom :=
  match f_kind f with
  | KOther => Some GOrig
  | KPolygon o => geom_of_polys (lookup i o)
  | KMulti parts => match flat_map (lookup i) parts with
                    | [] => None
                    | ps => Some (GMulti ps)
                    end
  end.

Definition feat_msgs (i : tmid) (f : feature) : list msg :=
  match deliver i f with Some g => [(f_id f, g)] | None => [] end.

Definition expected_of (i : tmid) (src : list feature) : list msg := flat_map (feat_msgs i) src.
Definition expected (cfg : config) (i : tmid) : list msg := expected_of i (c_src cfg).

(** ** The fan-out as processFeatures computes it (maps as association lists) *)

(** one iteration target of the send loops :36-52, :59-61, :65-67; [None] = the entry on which
    line 39 panics ("no new polygon for level") *)
Definition pend := (tmid * option geom)%type.

(** newMultiPolygonPerTileMatrix[tmID] = append(newMultiPolygonPerTileMatrix[tmID], newPolygon) :124-127 *)
Fixpoint upsert (k : tmid) (ps : list poly) (m : outcome) : outcome :=
  match m with
  | [] => [(k, ps)]
  | (k', qs) :: r => if Z.eqb k' k then (k', qs ++ ps) :: r else (k', qs) :: upsert k ps r
  end.

(** an entry with no polygons runs the inner loop zero times: no key is created *)
Definition add_entry (m : outcome) (e : tmid * list poly) : outcome :=
  match snd e with [] => m | ps => upsert (fst e) ps m end.

Definition merge_parts (parts : list outcome) : outcome :=
  fold_left (fun m o => fold_left add_entry o m) parts [].

(** (ordered?, entries).  Polygon / MultiPolygon results are sent while ranging over a map: any order.
    Other geometries are sent in the order of the tmIDs slice. *)
Definition fanout (ts : list tmid) (f : feature) : bool * list pend :=
  match f_kind f with
  | KPolygon o => (false, map (fun e => (fst e, geom_of_polys (snd e))) o)
  | KMulti parts => (false, map (fun e => (fst e, Some (GMulti (snd e)))) (merge_parts parts))
  | KOther => (true, map (fun t => (t, Some GOrig)) ts)
  end.

(** pick the entry for [tm]; in an ordered loop only the head can be next *)
Fixpoint take_key (tm : tmid) (l : list pend) : option (option geom * list pend) :=
  match l with
  | [] => None
  | (k, og) :: r =>
      if Z.eqb k tm then Some (og, r)
      else match take_key tm r with
           | Some (x, r') => Some (x, (k, og) :: r')
           | None => None
           end
  end.

Definition take_pend (ordered : bool) (tm : tmid) (l : list pend) : option (option geom * list pend) :=
  if ordered then
    match l with
    | (k, og) :: r => if Z.eqb k tm then Some (og, r) else None
    | [] => None
    end
  else take_key tm l.

(** messages for target [i] among pending entries of feature [id] *)
Definition pend_msgs (id : fid) (i : tmid) (l : list pend) : list msg :=
  flat_map (fun e : pend => if Z.eqb (fst e) i
                            then match snd e with Some g => [(id, g)] | None => [] end
                            else []) l.

(** ** Well-formed inputs: the contract of Go maps and of the processPolygonFunc.
    Outside it the real code panics (lines 39 and 104); the model has those panics too. *)

Definition wf_outcome (ts : list tmid) (o : outcome) : Prop :=
  NoDup (map fst o) /\ incl (map fst o) ts.

Definition wf_feature (ts : list tmid) (f : feature) : Prop :=
  match f_kind f with
  | KPolygon o => wf_outcome ts o /\ Forall (fun e => snd e <> []) o
  | KMulti parts => Forall (wf_outcome ts) parts
  | KOther => True
  end.

Definition wf_config (cfg : config) : Prop :=
  NoDup (c_targets cfg) /\ Forall (wf_feature (c_targets cfg)) (c_src cfg).

Definition wf_outcomeb (ts : list tmid) (o : outcome) : bool :=
  nodupz (map fst o) && forallb (fun k => memz k ts) (map fst o).

Definition wf_featureb (ts : list tmid) (f : feature) : bool :=
  match f_kind f with
  | KPolygon o => wf_outcomeb ts o && forallb (fun e => match snd e with [] => false | _ => true end) o
  | KMulti parts => forallb (wf_outcomeb ts) parts
  | KOther => true
  end.

Definition wf_configb (cfg : config) : bool :=
  nodupz (c_targets cfg) && forallb (wf_featureb (c_targets cfg)) (c_src cfg).

(** ** Processes *)

Inductive mstate := MInit | MWait | MRet.                         (* ProcessFeatures :136-154 *)

Inductive rdstate :=                                              (* source.ReadFeatures(featuresBefore) *)
| RdRun (rest : list feature)       (* still to send; then close *)
| RdClosed                          (* channel closed, goroutine not yet returned *)
| RdExit.

Inductive snstate :=                                              (* processFeatures :22-79 *)
| SRecv                                           (* blocked in <-featuresIn :26 *)
| SHave (f : feature)                             (* got a feature; calls f / processMultiPolygon *)
| SSend (id : fid) (ordered : bool) (pending : list pend)   (* inside one of the send loops *)
| SEof                                            (* hasMore = false: about to close(featuresOut) :68 *)
| SLog                                            (* featuresOut closed; the log.Printf lines :70-78 *)
| SExit.

Inductive rtstate :=                                              (* writeFeaturesToTargets :84-117 *)
| TInit                                           (* before the spawn loop :87-96 *)
| TRecv                                           (* blocked in <-featuresForTileMatrices :100 *)
| THave (tm : tmid) (m : msg)                     (* about to send on targetChannels[tm] :109 *)
| TClosing (todo : list tmid)                     (* close loop :113-115; [TClosing []] = in wg.Wait() :117 *)
| TDone.

Inductive wrstate :=                                              (* target.WriteFeatures(targetChannel) *)
| WRecv                                           (* blocked receiving *)
| WHold (m : msg)                                 (* received, not yet handled *)
| WFin                                            (* saw the close: last writing *)
| WDone.                                          (* returned; wg.Done() :92 *)

Record writer := MkWriter { w_tm : tmid; w_closed : bool; w_st : wrstate; w_got : list msg }.

Inductive panic :=
| PanicNoPolygon (tm : tmid)        (* :39 *)
| PanicNoChannel (tm : tmid)        (* :107 *)
| PanicSendOnClosed (tm : tmid)     (* runtime: send on closed channel *)
| PanicWaitGroup.                   (* runtime: negative WaitGroup counter *)

Record state := MkState {
  s_main : mstate;
  s_wgM : nat;                 (* wg of ProcessFeatures :144 *)
  s_rd : rdstate;
  s_sn : snstate;
  s_rt : rtstate;
  s_wgR : nat;                 (* wg of writeFeaturesToTargets :86 *)
  s_wr : list writer;          (* one per target once spawned; its channel's closed flag inside *)
  s_panic : option panic
}.

Definition set_main s v := MkState v (s_wgM s) (s_rd s) (s_sn s) (s_rt s) (s_wgR s) (s_wr s) (s_panic s).
Definition set_wgM s v := MkState (s_main s) v (s_rd s) (s_sn s) (s_rt s) (s_wgR s) (s_wr s) (s_panic s).
Definition set_rd s v := MkState (s_main s) (s_wgM s) v (s_sn s) (s_rt s) (s_wgR s) (s_wr s) (s_panic s).
Definition set_sn s v := MkState (s_main s) (s_wgM s) (s_rd s) v (s_rt s) (s_wgR s) (s_wr s) (s_panic s).
Definition set_rt s v := MkState (s_main s) (s_wgM s) (s_rd s) (s_sn s) v (s_wgR s) (s_wr s) (s_panic s).
Definition set_wgR s v := MkState (s_main s) (s_wgM s) (s_rd s) (s_sn s) (s_rt s) v (s_wr s) (s_panic s).
Definition set_wr s v := MkState (s_main s) (s_wgM s) (s_rd s) (s_sn s) (s_rt s) (s_wgR s) v (s_panic s).
Definition set_panic s p := MkState (s_main s) (s_wgM s) (s_rd s) (s_sn s) (s_rt s) (s_wgR s) (s_wr s) (Some p).

Definition init (cfg : config) : state :=
  MkState MInit 0 (RdRun (c_src cfg)) SRecv TInit 0 [] None.

Definition new_writer (t : tmid) : writer := MkWriter t false WRecv [].

Fixpoint find_writer (tm : tmid) (ws : list writer) : option writer :=
  match ws with
  | [] => None
  | w :: r => if Z.eqb (w_tm w) tm then Some w else find_writer tm r
  end.

Fixpoint upd_writer (tm : tmid) (g : writer -> writer) (ws : list writer) : list writer :=
  match ws with
  | [] => []
  | w :: r => if Z.eqb (w_tm w) tm then g w :: r else w :: upd_writer tm g r
  end.

Definition w_set_st (st : wrstate) (w : writer) := MkWriter (w_tm w) (w_closed w) st (w_got w).
Definition w_close (w : writer) := MkWriter (w_tm w) true (w_st w) (w_got w).
Definition w_handle (m : msg) (w : writer) := MkWriter (w_tm w) (w_closed w) WRecv (w_got w ++ [m]).

(** ** Labels.  One label = one atomic step of one process, or one rendezvous of two. *)

Inductive label :=
| LMainStart                (* make both channels, wg.Add(1), the three go statements :137-151 *)
| LReadSend                 (* rendezvous on featuresBefore: reader -> snapper *)
| LReadClose                (* the source closes featuresBefore after its last feature *)
| LReadExit                 (* ReadFeatures returns *)
| LSnapCompute              (* type switch, f(polygon, tmIDs) / processMultiPolygon: the fan-out is fixed *)
| LSnapSend (tm : tmid)     (* rendezvous on featuresAfter: snapper -> router, entry of [tm]; line 39 may panic *)
| LSnapLoop                 (* send loop exhausted: back to the top of the for :25 *)
| LSnapEof                  (* receive on the closed featuresBefore: hasMore = false *)
| LSnapClose                (* close(featuresOut) :68 *)
| LSnapExit                 (* log lines, return *)
| LRouterSpawn              (* per target: make channel, wg.Add(1), go WriteFeatures :87-96 *)
| LDeliver                  (* rendezvous on targetChannels[tm]: router -> writer tm; :107 may panic *)
| LRouterEof                (* receive on the closed featuresAfter :101 *)
| LRouterClose (tm : tmid)  (* close(targetChannel), ranging over a map: any order :113-115 *)
| LRouterWait               (* wg.Wait() returns :117; deferred wg.Done() of ProcessFeatures :147 *)
| LRecv (tm : tmid) (m : msg)   (* OBSERVABLE: target tm handles the feature it received *)
| LWriterEof (tm : tmid)    (* target tm sees its channel closed *)
| LFinish (tm : tmid)       (* OBSERVABLE: WriteFeatures of target tm returns; wg.Done() :92 *)
| LReturn.                  (* OBSERVABLE: wg.Wait() :153 returns, ProcessFeatures returns *)

Definition step_started (cfg : config) (s : state) (l : label) : option state :=
  let ts := c_targets cfg in
  match l with
  | LMainStart => None
  | LReadSend =>
      match s_rd s, s_sn s with
      | RdRun (f :: r), SRecv => Some (set_sn (set_rd s (RdRun r)) (SHave f))
      | _, _ => None
      end
  | LReadClose =>
      match s_rd s with RdRun [] => Some (set_rd s RdClosed) | _ => None end
  | LReadExit =>
      match s_rd s with RdClosed => Some (set_rd s RdExit) | _ => None end
  | LSnapCompute =>
      match s_sn s with
      | SHave f => Some (set_sn s (SSend (f_id f) (fst (fanout ts f)) (snd (fanout ts f))))
      | _ => None
      end
  | LSnapSend tm =>
      match s_sn s with
      | SSend id ord pending =>
          match take_pend ord tm pending with
          | Some (None, _) => Some (set_panic s (PanicNoPolygon tm))
          | Some (Some g, pending') =>
              match s_rt s with
              | TRecv => Some (set_rt (set_sn s (SSend id ord pending')) (THave tm (id, g)))
              | _ => None
              end
          | None => None
          end
      | _ => None
      end
  | LSnapLoop =>
      match s_sn s with SSend _ _ [] => Some (set_sn s SRecv) | _ => None end
  | LSnapEof =>
      match s_sn s, s_rd s with
      | SRecv, RdClosed | SRecv, RdExit => Some (set_sn s SEof)
      | _, _ => None
      end
  | LSnapClose =>
      match s_sn s with SEof => Some (set_sn s SLog) | _ => None end
  | LSnapExit =>
      match s_sn s with SLog => Some (set_sn s SExit) | _ => None end
  | LRouterSpawn =>
      match s_rt s with
      | TInit => Some (set_rt (set_wgR (set_wr s (map new_writer ts)) (s_wgR s + length ts)) TRecv)
      | _ => None
      end
  | LDeliver =>
      match s_rt s with
      | THave tm m =>
          match find_writer tm (s_wr s) with
          | None => Some (set_panic s (PanicNoChannel tm))
          | Some w =>
              if w_closed w then Some (set_panic s (PanicSendOnClosed tm))
              else match w_st w with
                   | WRecv => Some (set_rt (set_wr s (upd_writer tm (w_set_st (WHold m)) (s_wr s))) TRecv)
                   | _ => None
                   end
          end
      | _ => None
      end
  | LRouterEof =>
      match s_rt s, s_sn s with
      | TRecv, SLog | TRecv, SExit => Some (set_rt s (TClosing ts))
      | _, _ => None
      end
  | LRouterClose tm =>
      match s_rt s with
      | TClosing todo =>
          if memz tm todo
          then Some (set_rt (set_wr s (upd_writer tm w_close (s_wr s))) (TClosing (remove_tm tm todo)))
          else None
      | _ => None
      end
  | LRouterWait =>
      match s_rt s, s_wgR s with
      | TClosing [], O =>
          match s_wgM s with
          | O => Some (set_panic s PanicWaitGroup)
          | S n => Some (set_wgM (set_rt s TDone) n)
          end
      | _, _ => None
      end
  | LRecv tm m =>
      match find_writer tm (s_wr s) with
      | Some w =>
          match w_st w with
          | WHold m' => if msg_eqb m m' then Some (set_wr s (upd_writer tm (w_handle m') (s_wr s))) else None
          | _ => None
          end
      | None => None
      end
  | LWriterEof tm =>
      match find_writer tm (s_wr s) with
      | Some w =>
          match w_st w, w_closed w with
          | WRecv, true => Some (set_wr s (upd_writer tm (w_set_st WFin) (s_wr s)))
          | _, _ => None
          end
      | None => None
      end
  | LFinish tm =>
      match find_writer tm (s_wr s) with
      | Some w =>
          match w_st w with
          | WFin =>
              match s_wgR s with
              | O => Some (set_panic s PanicWaitGroup)
              | S n => Some (set_wgR (set_wr s (upd_writer tm (w_set_st WDone) (s_wr s))) n)
              end
          | _ => None
          end
      | None => None
      end
  | LReturn =>
      match s_main s, s_wgM s with
      | MWait, O => Some (set_main s MRet)
      | _, _ => None
      end
  end.

(** [step cfg s l = Some s'] : label [l] is enabled in [s] and leads to [s'] (deterministic per label).
    After a panic the program is gone; before [LMainStart] nothing else exists. *)
Definition step (cfg : config) (s : state) (l : label) : option state :=
  match s_panic s with
  | Some _ => None
  | None =>
      match s_main s with
      | MInit => match l with LMainStart => Some (set_wgM (set_main s MWait) 1) | _ => None end
      | _ => step_started cfg s l
      end
  end.

Fixpoint run (cfg : config) (s : state) (ls : list label) : option state :=
  match ls with
  | [] => Some s
  | l :: r => match step cfg s l with Some s' => run cfg s' r | None => None end
  end.

(** all goroutines of the call are gone *)
Definition final (s : state) : bool :=
  match s_main s, s_rd s, s_sn s, s_rt s, s_panic s with
  | MRet, RdExit, SExit, TDone, None => true
  | _, _, _, _, _ => false
  end.

Definition final_state (cfg : config) : state :=
  MkState MRet 0 RdExit SExit TDone 0
          (map (fun t => MkWriter t true WDone (expected cfg t)) (c_targets cfg)) None.

(** ** Enabled labels, and two simple schedulers (used by the Examples and for testing the model) *)

Definition candidates (cfg : config) (s : state) : list label :=
  [LMainStart; LReadSend; LReadClose; LReadExit; LSnapCompute; LSnapLoop; LSnapEof; LSnapClose; LSnapExit;
   LRouterSpawn; LDeliver; LRouterEof; LRouterWait; LReturn]
  ++ flat_map (fun t => [LSnapSend t; LRouterClose t; LWriterEof t; LFinish t]) (c_targets cfg)
  ++ flat_map (fun w => match w_st w with WHold m => [LRecv (w_tm w) m] | _ => [] end) (s_wr s).

Definition enabled (cfg : config) (s : state) : list label :=
  filter (fun l => match step cfg s l with Some _ => true | None => false end) (candidates cfg s).

(** run a scheduler [pick] (a choice among the enabled labels) for at most [fuel] steps;
    returns the labels taken and the state reached *)
Fixpoint run_sched (cfg : config) (pick : list label -> option label) (fuel : nat) (s : state)
  : list label * state :=
  match fuel with
  | O => ([], s)
  | S k =>
      match pick (enabled cfg s) with
      | Some l =>
          match step cfg s l with
          | Some s' => let '(ls, s'') := run_sched cfg pick k s' in (l :: ls, s'')
          | None => ([], s)
          end
      | None => ([], s)
      end
  end.

Definition pick_first (ls : list label) : option label := hd_error ls.
Definition pick_last (ls : list label) : option label := hd_error (rev ls).

(** ** State projections used in the statements *)

Definition opt_msgs (id : fid) (og : option geom) : list msg :=
  match og with Some g => [(id, g)] | None => [] end.

(** what target [i] has handled so far *)
Definition recvd (i : tmid) (s : state) : list msg :=
  match find_writer i (s_wr s) with Some w => w_got w | None => [] end.

Definition finished (i : tmid) (s : state) : bool :=
  match find_writer i (s_wr s) with
  | Some w => match w_st w with WDone => true | _ => false end
  | None => false
  end.

Definition w_hold (i : tmid) (s : state) : list msg :=
  match find_writer i (s_wr s) with
  | Some w => match w_st w with WHold m => [m] | _ => [] end
  | None => []
  end.

Definition rt_hold (i : tmid) (s : state) : list msg :=
  match s_rt s with THave tm m => if Z.eqb tm i then [m] else [] | _ => [] end.

Definition sn_hold (i : tmid) (s : state) : list msg :=
  match s_sn s with
  | SHave f => feat_msgs i f
  | SSend id _ pending => pend_msgs id i pending
  | _ => []
  end.

(** in flight towards target [i]: in its writer's hands, in the router's, in the snapper's — in that order *)
Definition inflight (i : tmid) (s : state) : list msg := w_hold i s ++ rt_hold i s ++ sn_hold i s.

(** still in the source *)
Definition future (i : tmid) (s : state) : list msg :=
  match s_rd s with RdRun rest => expected_of i rest | _ => [] end.

(** ** Measure: the number of steps still to be taken.  Every step lowers it (Proofs). *)

Definition feat_cost (ts : list tmid) (f : feature) : nat := 3 + 3 * length (snd (fanout ts f)).

Definition rd_cost (ts : list tmid) (r : rdstate) : nat :=
  match r with
  | RdRun rest => 2 + list_sum (map (feat_cost ts) rest)
  | RdClosed => 1
  | RdExit => 0
  end.

Definition sn_cost (ts : list tmid) (x : snstate) : nat :=
  match x with
  | SRecv => 3
  | SHave f => 3 + (2 + 3 * length (snd (fanout ts f)))
  | SSend _ _ pending => 3 + (1 + 3 * length pending)
  | SEof => 2
  | SLog => 1
  | SExit => 0
  end.

Definition rt_cost (ts : list tmid) (x : rtstate) : nat :=
  match x with
  | TInit => 1 + 2 * length ts + (2 + length ts)
  | TRecv => 2 + length ts
  | THave _ _ => 2 + (2 + length ts)
  | TClosing todo => 1 + length todo
  | TDone => 0
  end.

Definition w_cost (w : writer) : nat :=
  match w_st w with WRecv => 2 | WHold _ => 3 | WFin => 1 | WDone => 0 end.

Definition main_cost (m : mstate) : nat :=
  match m with MInit => 2 | MWait => 1 | MRet => 0 end.

Definition measure (cfg : config) (s : state) : nat :=
  match s_panic s with
  | Some _ => 0
  | None =>
      let ts := c_targets cfg in
      1 + main_cost (s_main s) + rd_cost ts (s_rd s) + sn_cost ts (s_sn s) + rt_cost ts (s_rt s)
      + list_sum (map w_cost (s_wr s))
  end.

(** ** Observable histories and the monitor *)

Inductive event :=
| ERecv (tm : tmid) (m : msg)     (* fake target tm handled feature m *)
| EFinish (tm : tmid)             (* WriteFeatures of target tm is about to return *)
| EReturn.                        (* ProcessFeatures returned *)

Definition obs (l : label) : list event :=
  match l with
  | LRecv tm m => [ERecv tm m]
  | LFinish tm => [EFinish tm]
  | LReturn => [EReturn]
  | _ => []
  end.

Definition obs_trace (ls : list label) : list event := flat_map obs ls.

(** monitor state: per target what it still has to receive, who finished, whether Main returned *)
Record mon := MkMon { m_rem : list (tmid * list msg); m_fin : list tmid; m_ret : bool }.

Definition mon_init (cfg : config) : mon :=
  MkMon (map (fun t => (t, expected cfg t)) (c_targets cfg)) [] false.

Fixpoint rem_find (i : tmid) (l : list (tmid * list msg)) : option (list msg) :=
  match l with
  | [] => None
  | (k, x) :: r => if Z.eqb k i then Some x else rem_find i r
  end.

Fixpoint rem_set (i : tmid) (v : list msg) (l : list (tmid * list msg)) : list (tmid * list msg) :=
  match l with
  | [] => []
  | (k, x) :: r => if Z.eqb k i then (k, v) :: r else (k, x) :: rem_set i v r
  end.

Definition mon_step (cfg : config) (m : mon) (e : event) : option mon :=
  if m_ret m then None                       (* nothing may follow the return *)
  else match e with
       | ERecv i x =>
           if memz i (m_fin m) then None     (* receive after finish *)
           else match rem_find i (m_rem m) with
                | Some (y :: r) =>
                    if msg_eqb x y then Some (MkMon (rem_set i r (m_rem m)) (m_fin m) (m_ret m))
                    else None                (* wrong feature, wrong geometry, reordered, duplicated *)
                | _ => None                  (* nothing (more) expected, or not a target *)
                end
       | EFinish i =>
           if memz i (m_fin m) then None     (* finished twice *)
           else match rem_find i (m_rem m) with
                | Some [] => Some (MkMon (m_rem m) (i :: m_fin m) (m_ret m))
                | _ => None                  (* finished before having received everything *)
                end
       | EReturn =>
           if forallb (fun t => memz t (m_fin m)) (c_targets cfg)
           then Some (MkMon (m_rem m) (m_fin m) true)
           else None                         (* returned before every target finished *)
       end.

Fixpoint mon_run (cfg : config) (m : mon) (h : list event) : option mon :=
  match h with
  | [] => Some m
  | e :: r => match mon_step cfg m e with Some m' => mon_run cfg m' r | None => None end
  end.

(** a prefix of a history of the system *)
Definition accepts_prefix (cfg : config) (h : list event) : bool :=
  match mon_run cfg (mon_init cfg) h with Some _ => true | None => false end.

(** a complete history: ends with the return *)
Definition accepts (cfg : config) (h : list event) : bool :=
  match mon_run cfg (mon_init cfg) h with Some m => m_ret m | None => false end.

(** projections of a history *)
Definition recvs_of (i : tmid) (h : list event) : list msg :=
  flat_map (fun e => match e with ERecv k m => if Z.eqb k i then [m] else [] | _ => [] end) h.

Definition is_finish (i : tmid) (e : event) : bool :=
  match e with EFinish k => Z.eqb k i | _ => false end.

Definition is_recv (i : tmid) (e : event) : bool :=
  match e with ERecv k _ => Z.eqb k i | _ => false end.

Definition is_return (e : event) : bool :=
  match e with EReturn => true | _ => false end.

Definition event_tm (e : event) : option tmid :=
  match e with ERecv k _ => Some k | EFinish k => Some k | EReturn => None end.

(** content-only check (C10): every target's received sequence is the expected one and no event
    names a tile matrix that is not a target *)
Definition recv_ok (cfg : config) (h : list event) : bool :=
  forallb (fun t => list_eqb msg_eqb (recvs_of t h) (expected cfg t)) (c_targets cfg)
  && forallb (fun e => match event_tm e with Some k => memz k (c_targets cfg) | None => true end) h.

(** ** What C10 and C11 say about a complete observed history *)

Definition no_return (h : list event) : Prop := forall e, In e h -> is_return e = false.
Definition no_finish (i : tmid) (h : list event) : Prop := forall e, In e h -> is_finish i e = false.
Definition quiet (i : tmid) (h : list event) : Prop :=
  forall e, In e h -> is_finish i e = false /\ is_recv i e = false.

Definition history_ok (cfg : config) (h : list event) : Prop :=
  (* C10: every target handled exactly its expected sequence: each feature once, in source order,
     with the geometry of its own tile matrix, nothing for a dropped feature *)
  (forall i, In i (c_targets cfg) -> recvs_of i h = expected cfg i)
  (* nothing was delivered to, or finished by, something that is not a target *)
  /\ (forall e k, In e h -> event_tm e = Some k -> In k (c_targets cfg))
  (* C11: ProcessFeatures returned exactly once and nothing happened afterwards *)
  /\ (exists h0, h = h0 ++ [EReturn] /\ no_return h0)
  (* C11: every target finished exactly once, after its last feature and before the return *)
  /\ (forall i, In i (c_targets cfg) ->
        exists a b, h = a ++ EFinish i :: b ++ [EReturn] /\ no_finish i a /\ quiet i b).

(** a scheduler that postpones the exit of reader and snapper as long as anything else can move
    (used to exhibit that ProcessFeatures does not wait for them) *)
Definition is_exit (l : label) : bool :=
  match l with LSnapExit | LReadExit => true | _ => false end.

Definition pick_lazy_exit (ls : list label) : option label :=
  match filter (fun l => negb (is_exit l)) ls with
  | l :: _ => Some l
  | [] => hd_error ls
  end.

Fixpoint upto_return (ls : list label) : list label :=
  match ls with
  | [] => []
  | LReturn :: _ => [LReturn]
  | l :: r => l :: upto_return r
  end.
