(** * Pipe/ProofsConversePc.v — [tstep] of Pipe/SkeletonSem.v follows the control-flow graphs of Pipe/ConversePc.v. *)
From Coq Require Import ZArith List String Bool Lia.
From Texel Require Import Pipe.Model Pipe.Skeleton Pipe.SkeletonSem Pipe.SkeletonSim Pipe.ConversePc.
Import ListNotations.
Open Scope string_scope.
Open Scope list_scope.

(** the step [r] the semantics takes is the edge [nx] of the graph; [n]: the fresh channel / wait group, if one is made *)
Definition spec {pc : Type} (th_of : pc -> thread) (nx : option (out pc)) (r : option (req * thread)) (n : nat) : Prop :=
  match nx, r with
  | Some (Out q k), Some (q', th') => q' = q /\ forall b, post q th' n b = th_of (k b)
  | None, None => True
  | _, _ => False
  end.

Ltac spec_done := first [ exact I | split; [reflexivity | intros b; try destruct b; reflexivity] ].

Lemma wr_spec : forall ts chm z v n pc c m, spec (th_wr ts chm z v n) (next_wr n pc c) (tstep P c (th_wr ts chm z v n pc)) m.
Proof.
  intros ts chm z v n pc c m. destruct pc as [| | | | |[|]| | | | | | | |]; cbn; spec_done.
Qed.

Lemma rd_spec : forall pc c m, spec th_rd (next_rd pc c) (tstep P c (th_rd pc)) m.
Proof.
  intros pc c m. destruct pc; try (cbn; spec_done).
  destruct c as [| | |[z|]|]; cbn; spec_done.
Qed.

Lemma main_spec : forall ts pc c, spec (th_main ts) (next_main ts pc c) (tstep P c (th_main ts pc)) (expect_main pc).
Proof.
  intros ts pc c. destruct pc; try (cbn; spec_done).
  destruct c as [| | |[z|]|]; cbn; try spec_done.
  - destruct (mtake z todo) as [[v todo']|]; cbn; spec_done.
  - destruct todo; cbn; spec_done.
Qed.

Lemma rt_spec : forall ts pc c, spec (th_rt ts) (next_rt ts pc c) (tstep P c (th_rt ts pc)) (expect_rt pc).
Proof.
  intros ts pc c. destruct pc; try (cbn; spec_done).
  - (* TH *) destruct c as [| | |[z|]|]; cbn; try spec_done.
    + destruct (mtake z todo) as [[v todo']|]; cbn; spec_done.
    + destruct todo; cbn; spec_done.
  - (* TG1 *) destruct b; cbn; spec_done.
  - (* TG3 *) destruct c; cbn; spec_done.
  - (* TG4 *) destruct v; cbn; spec_done.
  - (* TG5 *) destruct v; cbn; spec_done.
  - (* TCH *) destruct c as [| | |[z|]|]; cbn; try spec_done.
    + destruct (mtake z todo) as [[v todo']|]; cbn; spec_done.
    + destruct todo; cbn; spec_done.
  - (* TC1 *) destruct v; cbn; spec_done.
Qed.
