(** * Pipe/SkeletonLang.v — the statement language of concurrency skeletons (C10, C11 source tie).

    A skeleton is a deep-embedded copy of a Go function body in which every statement that takes part
    in the concurrency (make(chan), go, defer, sync.WaitGroup, send, receive, close, the loops and branches
    around them, panics, calls of other skeleton functions) has its own constructor, and every other
    statement is kept as [SOther] with its printed source text.  The translator (translator/pipe.go)
    produces such terms from the AST of /repo/processing/processing.go (coq/gen/PipeGen.v); the
    hand-written transcription the Pipe model was made from is Pipe/Skeleton.v; Pipe/SkeletonSem.v gives
    the language a small-step semantics.

    All names and expressions are the printed source text ([string]).  Definitions only. *)
From Coq Require Import List String.
Import ListNotations.

(** what a [range] runs over: a Go map (any order, every key once) or a slice (index order) *)
Inductive rkind := RMap | RSlice.

Inductive stmt :=
| SOther (text : string)
    (* a statement without channel operation, go, defer, sync.*, panic, function literal, call of a
       skeleton function, and without any mention of a channel / wait group / channel-map variable
       (checked by the translator): declarations, assignments, counters, log lines, pure calls *)
| SMakeChan (x elem buf : string)          (* x := make(chan elem)  [buf = ""]   /   x := make(chan elem, buf) *)
| SMakeChanMap (x ty : string)             (* x := make(ty), ty a map type whose values are channels *)
| SMapSet (m k v : string)                 (* m[k] = v, m a channel map, v a channel variable *)
| SMapGet (x m k : string)                 (* x := m[k], m a channel map *)
| SWgNew (x : string)                      (* x := sync.WaitGroup{} *)
| SWgAdd (x n : string)                    (* x.Add(n) *)
| SWgDone (x : string)                     (* x.Done() *)
| SWgWait (x : string)                     (* x.Wait() *)
| SGoFunc (params : list (string * string)) (body : list stmt) (args : list string)
                                           (* go func(params) { body }(args); the body sees the enclosing variables *)
| SGoCall (f : string) (args : list string)          (* go f(args), f a skeleton function *)
| SDefer (s : stmt)                        (* defer <call statement> *)
| SSend (ch what : string)                 (* ch <- what *)
| SRecvOk (x ok ch : string)               (* x, ok := <-ch *)
| SIfNotBreak (ok : string)                (* if !ok { break } *)
| SIfNilPanic (x what : string)            (* if x == nil { panic(what) }, x a channel variable *)
| SClose (ch : string)                     (* close(ch) *)
| SForever (body : list stmt)              (* for { body } *)
| SFor (init cond post : string) (body : list stmt)  (* for init; cond; post { body }, clauses as SOther *)
| SRange (kind : rkind) (k v over : string) (body : list stmt)
                                           (* for k, v := range over { body }; "" for an absent variable *)
| SSwitchType (x : string) (cases : list (string * list stmt))
                                           (* switch x { case T: .. }; x = "e.(type)"; "default" for default *)
| SIf (cond : string) (thn els : list stmt)
| SPanic (what : string)                   (* panic(what) *)
| SCall (lhs f : string) (args : list string)
                                           (* [lhs] f(args), f a skeleton function; lhs = "" / "x :=" / "x =" *)
| SCallMethod (recv ty meth : string) (args : list string)
                                           (* recv.meth(args): recv of interface type ty, a channel among args:
                                              behaviour given by the interface contract, not by this file *)
| SReturn (what : string).                 (* return what *)

(** one function: name, parameters (name, printed type), printed result types, body *)
Record func := MkFunc {
  fn_name : string;
  fn_params : list (string * string);
  fn_results : string;
  fn_body : list stmt
}.

(** what the translator extracts from processing.go and interface.go *)
Record skeleton := MkSkeleton {
  sk_funcs : list func;
  (** interface methods called with a channel: ("Source.ReadFeatures", printed signature) *)
  sk_methods : list (string * string);
  (** every OTHER function or method of package processing that contains a channel operation, go,
      defer, select, sync.* or a channel type: must be empty *)
  sk_outside : list string
}.

Fixpoint find_func (name : string) (fs : list func) : option func :=
  match fs with
  | [] => None
  | f :: r => if String.eqb (fn_name f) name then Some f else find_func name r
  end.

(** * The skeleton Pipe/Model.v was written from.

    [model_skeleton] is the hand-written transcription of processing.go that the labelled transition system
    of Pipe/Model.v models; each statement carries the label(s) / process state(s) of Pipe/Model.v that stand
    for it.  Properties/C11.v proves [gen_pipe_skeleton = model_skeleton] (the term regenerated from the
    source on every run), so an edit of one of these functions — wg.Add moved into the goroutine, a buffered
    channel, an early return without close, a send inside a select, a changed loop — breaks that theorem (or
    the translator refuses the source).  Pipe/SkeletonSem.v runs this term.

    Processes of the model: Main = ProcessFeatures; Reader = readFeaturesFromSource; Snapper = processFeatures;
    Router = the first goroutine of ProcessFeatures (writeFeaturesToTargets and the deferred wg.Done);
    Writer tm = the goroutine started per target by writeFeaturesToTargets. *)
Open Scope string_scope.

Definition model_ProcessFeatures : func :=
  MkFunc "ProcessFeatures"
    [("source", "Source"); ("targets", "map[tms20.TMID]Target"); ("f", "processPolygonFunc")]
    ""
    [ (* --- all of the following up to the last go statement: label LMainStart (MInit -> MWait) --- *)
      SMakeChan "featuresBefore" "Feature" "";                (* unbuffered: LReadSend is a rendezvous *)
      SMakeChan "featuresAfter" "FeatureForTileMatrix" "";    (* unbuffered: LSnapSend is a rendezvous *)
      SOther "tileMatrixIDs := make([]tms20.TMID, 0, len(targets))";
      SRange RMap "tmID" "" "targets" [                        (* c_targets: the keys in the order of this range *)
        SOther "tileMatrixIDs = append(tileMatrixIDs, tmID)" ];
      SWgNew "wg";                                             (* s_wgM = 0 *)
      SWgAdd "wg" "1";                                         (* LMainStart: s_wgM := 1, BEFORE the go statement *)
      SGoFunc [] [                                             (* process Router, started in state TInit *)
          SDefer (SWgDone "wg");                               (* second half of LRouterWait: s_wgM decremented *)
          SCall "" "writeFeaturesToTargets" ["featuresAfter"; "targets"] ] [];
      SGoCall "processFeatures" ["featuresBefore"; "featuresAfter"; "tileMatrixIDs"; "f"];  (* process Snapper, state SRecv *)
      SGoCall "readFeaturesFromSource" ["source"; "featuresBefore"];                        (* process Reader, state RdRun (c_src) *)
      SWgWait "wg" ].                                          (* LReturn (MWait -> MRet), enabled when s_wgM = 0: neither
                                                                  Snapper nor Reader is waited for *)

Definition model_readFeaturesFromSource : func :=
  MkFunc "readFeaturesFromSource"
    [("source", "Source"); ("features", "chan<- Feature")]
    ""
    [ (* contract of Source ([source_contract]): LReadSend per feature, LReadClose, LReadExit *)
      SCallMethod "source" "Source" "ReadFeatures" ["features"] ].

Definition model_processFeatures : func :=
  MkFunc "processFeatures"
    [("featuresIn", "<-chan Feature"); ("featuresOut", "chan<- FeatureForTileMatrix"); ("tmIDs", "[]tms20.TMID"); ("f", "processPolygonFunc")]
    ""
    [ SOther "var preCount, postCount, nonPolygonCount, multiPolygonCount uint64";
      SForever [
        SRecvOk "feature" "hasMore" "featuresIn";              (* state SRecv; LReadSend (-> SHave f) or LSnapEof (-> SEof) *)
        SIfNotBreak "hasMore";                                 (* SEof leaves the loop *)
        SOther "preCount++";
        SSwitchType "feature.Geometry().(type)" [              (* LSnapCompute: SHave f -> SSend id ordered (fanout ts f), by f_kind *)
          ("geom.Polygon", [                                   (* KPolygon o: entries of o, unordered *)
            SOther "polygon := feature.Geometry().(geom.Polygon)";
            SOther "newPolygonsPerTileMatrix := f(polygon, tmIDs)";
            SIf "len(newPolygonsPerTileMatrix) > 0" [
              SOther "postCount++" ] [];
            SRange RMap "tmID" "newPolygons" "newPolygonsPerTileMatrix" [   (* state SSend id false pending; LSnapSend tm per entry; LSnapLoop at the end *)
              SOther "var newGeometry geom.Geometry";
              SIf "len(newPolygons) == 0" [
                SPanic "fmt.Errorf(""no new polygon for level %v"", tmID)" ] [];   (* LSnapSend tm on an entry None: PanicNoPolygon tm *)
              SIf "len(newPolygons) == 1" [
                SOther "newGeometry = newPolygons[0]" ] [                           (* geom_of_polys [p] = GPoly p *)
                SCall "newGeometry =" "polygonsToMulti" ["newPolygons"] ];          (* geom_of_polys ps = GMulti ps *)
              SSend "featuresOut" "wrapFeatureForTileMatrix(feature, tmID, newGeometry)" ] ]);   (* LSnapSend tm: rendezvous with the Router in TRecv *)
          ("geom.MultiPolygon", [                              (* KMulti parts: entries of merge_parts parts, unordered *)
            SOther "multiPolygon := feature.Geometry().(geom.MultiPolygon)";
            SCall "newMultiPolygonPerTileMatrix :=" "processMultiPolygon" ["multiPolygon"; "tmIDs"; "f"];   (* merge_parts *)
            SIf "len(newMultiPolygonPerTileMatrix) > 0" [
              SOther "postCount++" ] [];
            SRange RMap "tmID" "newMultiPolygon" "newMultiPolygonPerTileMatrix" [   (* state SSend id false pending *)
              SSend "featuresOut" "wrapFeatureForTileMatrix(feature, tmID, newMultiPolygon)" ] ]);   (* LSnapSend tm *)
          ("default", [                                        (* KOther: one entry GOrig per target, in the order of tmIDs *)
            SOther "postCount++";
            SOther "nonPolygonCount++";
            SRange RSlice "_" "tmID" "tmIDs" [                 (* state SSend id true pending *)
              SSend "featuresOut" "wrapFeatureForTileMatrix(feature, tmID, nil)" ] ]) ] ];       (* LSnapSend tm *)
      SClose "featuresOut";                                    (* LSnapClose: SEof -> SLog *)
      SOther "log.Printf(""    total features: %d"", preCount)";          (* state SLog ... *)
      SOther "log.Printf(""      non-polygons: %d"", nonPolygonCount)";
      SIf "preCount != nonPolygonCount" [
        SOther "log.Printf(""     multipolygons: %d"", multiPolygonCount)" ] [];
      SOther "log.Printf(""              kept: %d"", postCount)" ].        (* ... LSnapExit: SLog -> SExit *)

Definition model_writeFeaturesToTargets : func :=
  MkFunc "writeFeaturesToTargets"
    [("featuresForTileMatrices", "<-chan FeatureForTileMatrix"); ("targets", "map[int]Target")]
    ""
    [ (* --- up to the end of the first range: label LRouterSpawn (TInit -> TRecv) --- *)
      SMakeChanMap "targetChannels" "map[int]chan<- Feature";  (* s_wr: one writer record per key *)
      SWgNew "wg";                                             (* s_wgR = 0 *)
      SRange RMap "tmID" "target" "targets" [
        SMakeChan "targetChannel" "Feature" "";                (* unbuffered: LDeliver is a rendezvous; w_closed = false *)
        SMapSet "targetChannels" "tmID" "targetChannel";       (* find_writer tmID *)
        SWgAdd "wg" "1";                                       (* s_wgR + length ts, in the Router, BEFORE the go statement *)
        SGoFunc [("target", "Target")] [                       (* process Writer tmID = new_writer tmID, state WRecv *)
            SDefer (SWgDone "wg");                             (* LFinish tm: s_wgR decremented when WriteFeatures has returned *)
            SCallMethod "target" "Target" "WriteFeatures" ["targetChannel"] ] ["target"] ];   (* contract of Target ([target_contract]):
                                                                  LRecv tm m per feature, LWriterEof tm, LFinish tm *)
      SForever [
        SRecvOk "feature" "ok" "featuresForTileMatrices";      (* state TRecv; LSnapSend tm (-> THave tm m) or LRouterEof (-> TClosing ts) *)
        SIfNotBreak "ok";
        SOther "tmID := feature.TileMatrixID()";               (* the tm of THave tm m *)
        SMapGet "channel" "targetChannels" "tmID";             (* find_writer tm (s_wr s) *)
        SIfNilPanic "channel" "fmt.Errorf(`no target channel for %v`, tmID)";   (* LDeliver with no writer: PanicNoChannel tm *)
        SSend "channel" "feature" ];                           (* LDeliver: rendezvous with Writer tm in WRecv (-> WHold m), Router -> TRecv *)
      SRange RMap "_" "targetChannel" "targetChannels" [       (* state TClosing todo, any order *)
        SClose "targetChannel" ];                              (* LRouterClose tm: w_closed := true *)
      SWgWait "wg" ].                                          (* first half of LRouterWait (TClosing [] -> TDone), enabled when s_wgR = 0 *)

Definition model_processMultiPolygon : func :=
  MkFunc "processMultiPolygon"
    [("multiPolygon", "geom.MultiPolygon"); ("tileMatrixIDs", "[]tms20.TMID"); ("f", "processPolygonFunc")]
    "map[tms20.TMID]geom.MultiPolygon"
    [ (* merge_parts parts, inside LSnapCompute: no communication *)
      SOther "newMultiPolygonPerTileMatrix := make(map[tms20.TMID]geom.MultiPolygon, len(tileMatrixIDs))";   (* fold_left .. [] *)
      SRange RSlice "_" "polygon" "multiPolygon" [             (* outer fold_left over parts, in part order *)
        SOther "newPolygonsPerTileMatrix := f(polygon, tileMatrixIDs)";
        SRange RMap "tmID" "newPolygons" "newPolygonsPerTileMatrix" [       (* inner fold_left add_entry over the outcome *)
          SRange RSlice "_" "newPolygon" "newPolygons" [       (* add_entry: no polygons = no key; upsert appends in order *)
            SOther "newMultiPolygonPerTileMatrix[tmID] = append(newMultiPolygonPerTileMatrix[tmID], newPolygon)" ] ] ];
      SReturn "newMultiPolygonPerTileMatrix" ].

Definition model_polygonsToMulti : func :=
  MkFunc "polygonsToMulti"
    [("polygons", "[]geom.Polygon")]
    "geom.MultiPolygon"
    [ (* GMulti ps: the polygons in order, inside LSnapSend's computation of the geometry: no communication *)
      SOther "l := len(polygons)";
      SOther "multiPolygon := make(geom.MultiPolygon, l)";
      SFor "i := 0" "i < l" "i++" [
        SOther "multiPolygon[i] = polygons[i]" ];
      SReturn "multiPolygon" ].

Definition model_funcs : list func :=
  [ model_ProcessFeatures; model_readFeaturesFromSource; model_processFeatures; model_writeFeaturesToTargets;
    model_processMultiPolygon; model_polygonsToMulti ].

(** the two interface methods that are handed a channel; their behaviour is NOT in processing.go: the model
    (and Pipe/SkeletonSem.v) assume the contracts below *)
Definition model_methods : list (string * string) :=
  [("Source.ReadFeatures", "func(chan<- Feature)"); ("Target.WriteFeatures", "func(<-chan Feature)")].

(** no other function, method or package-level variable of package processing touches a channel, a goroutine,
    defer, select or sync.* *)
Definition model_skeleton : skeleton := MkSkeleton model_funcs model_methods [].

(** ** Contracts of the two interfaces, in the same language (trusted: they describe code outside processing.go;
    harness_pipe's fake source / targets and the real gpkg source / target are held to them by C10-C13).

    Source.ReadFeatures(features): sends every feature of the source once, in order, then closes the channel
    and returns.  Model: RdRun rest, LReadSend per feature, LReadClose (RdRun [] -> RdClosed), LReadExit. *)
Definition source_contract : func :=
  MkFunc "Source.ReadFeatures" [("features", "chan<- Feature")] ""
    [ SRange RSlice "_" "feature" "source.features" [
        SSend "features" "feature" ];                          (* LReadSend *)
      SClose "features";                                       (* LReadClose *)
      SReturn "" ].                                            (* LReadExit *)

(** Target.WriteFeatures(features): receives until the channel is closed, handling each feature before
    receiving the next, then returns.  Model: WRecv, LDeliver (-> WHold m), LRecv tm m (-> WRecv, the observable
    "target tm handled m"), LWriterEof tm (-> WFin), LFinish tm (-> WDone, with the deferred wg.Done of the caller). *)
Definition target_contract : func :=
  MkFunc "Target.WriteFeatures" [("features", "<-chan Feature")] ""
    [ SForever [
        SRecvOk "feature" "ok" "features";                     (* WRecv: LDeliver or LWriterEof *)
        SIfNotBreak "ok";                                      (* WFin leaves the loop *)
        SOther "handle(feature)" ];                            (* LRecv tm m *)
      SReturn "" ].                                            (* LFinish tm (return; then the caller's deferred wg.Done) *)

Definition contracts : list func := [source_contract; target_contract].
