(** * Pipe/ProofsGenSkeleton.v — the source tie of the pipeline model (C10, C11).

    [gen_pipe_skeleton] (coq/gen/PipeGen.v) is regenerated from /repo/processing/processing.go and interface.go on
    every run by translator/pipe.go: every statement of ProcessFeatures, readFeaturesFromSource, processFeatures,
    writeFeaturesToTargets (with the two goroutine function literals), processMultiPolygon, polygonsToMulti as a term
    of the skeleton language (Pipe/Skeleton.v), the signatures of the interface methods that are handed a channel, and
    the list of other functions of the package that contain any concurrency construct.

    Level 1: it is, term for term, the skeleton the model was written from ([model_skeleton], annotated with the
    labels / states of Pipe/Model.v).
    Level 2: under the small-step semantics of the skeleton language (Pipe/SkeletonSem.v) every run of the model is
    a run of the regenerated skeleton with the communication actions the labels stand for (Pipe/ProofsSkeleton.v).

    Trusted (not regenerated): the contracts of Source.ReadFeatures / Target.WriteFeatures ([source_contract],
    [target_contract] in Pipe/Skeleton.v: code outside processing.go), the semantics itself, the reading of the
    labels as communication actions ([label_events]), and the translator's table "a range over geom.MultiPolygon /
    geom.Polygon ranges over a slice". *)
From Coq Require Import ZArith NArith List String Bool.
From Texel Require Import Pipe.Model Pipe.ProofsBase Pipe.ProofsInv Pipe.Skeleton Pipe.SkeletonSem Pipe.SkeletonSim Pipe.ProofsSkeleton.
From Texel.Gen Require Import PipeGen.
Import ListNotations.

Open Scope string_scope.

(** function by function, so that a broken tie names the function that was edited (plain [reflexivity]: a failure
    prints two names, not two terms) *)
Lemma gen_ProcessFeatures : find_func "ProcessFeatures" gen_pipe_funcs = Some model_ProcessFeatures.
Proof. reflexivity. Qed.
Lemma gen_readFeaturesFromSource : find_func "readFeaturesFromSource" gen_pipe_funcs = Some model_readFeaturesFromSource.
Proof. reflexivity. Qed.
Lemma gen_processFeatures : find_func "processFeatures" gen_pipe_funcs = Some model_processFeatures.
Proof. reflexivity. Qed.
Lemma gen_writeFeaturesToTargets : find_func "writeFeaturesToTargets" gen_pipe_funcs = Some model_writeFeaturesToTargets.
Proof. reflexivity. Qed.
Lemma gen_processMultiPolygon : find_func "processMultiPolygon" gen_pipe_funcs = Some model_processMultiPolygon.
Proof. reflexivity. Qed.
Lemma gen_polygonsToMulti : find_func "polygonsToMulti" gen_pipe_funcs = Some model_polygonsToMulti.
Proof. reflexivity. Qed.
Lemma gen_interface_methods : gen_pipe_methods = model_methods.
Proof. reflexivity. Qed.
Lemma gen_nothing_outside : gen_pipe_outside = [].
Proof. reflexivity. Qed.

Lemma gen_skeleton_is_model : gen_pipe_skeleton = model_skeleton.
Proof. reflexivity. Qed.

Lemma gen_program : program gen_pipe_skeleton = P.
Proof. unfold P. now rewrite gen_skeleton_is_model. Qed.

Theorem gen_model_run_is_skeleton_run : forall cfg ls s, NoDup (c_targets cfg) -> exec cfg (init cfg) ls s ->
  exists g, grun (program gen_pipe_skeleton) (ginit (program gen_pipe_skeleton) (c_targets cfg))
                 (impl_run cfg 0 (init cfg) ls) = Some (g, events_run cfg (init cfg) ls)
            /\ stands_for cfg (gh_run cfg 0 (init cfg) ls) s g.
Proof. rewrite gen_program. exact model_run_is_skeleton_run. Qed.

Theorem gen_complete_model_run_is_complete_skeleton_run : forall cfg ls s, wf_config cfg ->
  exec cfg (init cfg) ls s -> final s = true ->
  exists g, grun (program gen_pipe_skeleton) (ginit (program gen_pipe_skeleton) (c_targets cfg))
                 (impl_run cfg 0 (init cfg) ls) = Some (g, events_run cfg (init cfg) ls)
            /\ gfinal g = true.
Proof. rewrite gen_program. exact complete_model_run_is_complete_skeleton_run. Qed.
