(** * Pipe/ProofsConverse2.v — converse source tie, part 2: rebuilding the relation after one role has moved;
      the steps of the Reader. *)
From Coq Require Import ZArith List String Bool Lia Permutation.
From Texel Require Import Pipe.Model Pipe.ProofsBase Pipe.ProofsInv Pipe.ProofsLive Pipe.Skeleton Pipe.SkeletonSem Pipe.SkeletonSim Pipe.ProofsSkeleton
  Pipe.ConversePc Pipe.ConversePcSn Pipe.ProofsConversePc Pipe.ProofsConversePcSn Pipe.Converse Pipe.ConverseRank Pipe.ProofsConverse1.
Import ListNotations.
Open Scope string_scope.
Open Scope list_scope.

(** ** coh: elimination and introduction in the late phase *)

Lemma coh_inv_late : forall cfg roles chans wgs s t ro,
  coh cfg roles chans wgs s -> nth_error roles t = Some ro -> kind_of ro <> KMain ->
  exists pm, lk KMain roles = Some (RoMain pm) /\ NoDup (map kind_of roles) /\ is_early pm = false
             /\ s_main s = main_st pm /\ late cfg pm roles chans wgs s.
Proof.
  intros cfg roles chans wgs s t ro [pm [Hm [Hnd H]]] Hn Hk. exists pm.
  destruct (is_early pm) eqn:E.
  - exfalso. destruct H as [Hr _]. subst roles. destruct t as [|[|t]]; cbn in Hn; try discriminate.
    inversion Hn; subst. now apply Hk.
  - destruct H as [H1 H2]. auto.
Qed.

Lemma coh_late_intro : forall cfg roles chans wgs s pm,
  lk KMain roles = Some (RoMain pm) -> NoDup (map kind_of roles) -> is_early pm = false ->
  s_main s = main_st pm -> late cfg pm roles chans wgs s -> coh cfg roles chans wgs s.
Proof. intros cfg roles chans wgs s pm Hm Hnd He Hs Hl. exists pm. rewrite He. auto. Qed.

Lemma skel_rel_intro : forall cfg roles chans wgs s,
  s_panic s = None -> coh cfg roles chans wgs s ->
  skel_rel cfg (MkG (map (th_of (c_targets cfg)) roles) chans wgs None) s.
Proof. intros cfg roles chans wgs s Hp Hc. unfold skel_rel. cbn. rewrite Hp. exists roles. auto. Qed.

Lemma skel_rel_panic : forall cfg g s, panicked g -> s_panic s <> None -> skel_rel cfg g s.
Proof.
  intros cfg g s Hg Hs. unfold skel_rel, panicked in *. destruct (g_panic g); [|congruence]. destruct (s_panic s); [exact I | congruence].
Qed.

(** ** One role of a kind that is not a Writer moves *)

Lemma late_rd_upd : forall cfg pm roles chans wgs s t p p' s' chans',
  NoDup (map kind_of roles) -> nth_error roles t = Some (RoRead p) -> late cfg pm roles chans wgs s ->
  s_sn s' = s_sn s -> s_rt s' = s_rt s -> s_wr s' = s_wr s -> s_wgR s' = s_wgR s -> s_wgM s' = s_wgM s ->
  rd_rel p' (s_rd s') -> chans' = rd_is_closed (s_rd s') :: tl chans ->
  late cfg pm (upd_nth t (RoRead p') roles) chans' wgs s'.
Proof.
  intros cfg pm roles chans wgs s t p p' s' chans' Hnd Hn (wch & wrest & prt & Hch & Hwg & Hsn & Hrd & Hrt & Hrel)
    Esn Ert Ewr EwgR EwgM Hp' ->.
  pose proof (lk_nth _ _ _ Hnd Hn) as Hlk. cbn [kind_of] in Hlk.
  exists wch, wrest, prt. subst chans. cbn [tl]. rewrite Esn, Ert, Ewr, EwgR, EwgM.
  split; [reflexivity|]. split; [exact Hwg|].
  split; [|split; [|split]].
  - unfold sn_clause in *. rewrite (lk_upd_other _ _ _ (RoRead p') KSnap Hn eq_refl) by discriminate. now rewrite Esn.
  - unfold rd_clause in *. rewrite Hlk in Hrd.
    rewrite (lk_upd_same _ _ _ (RoRead p') Hnd Hn eq_refl : lk KRead _ = _). tauto.
  - rewrite (lk_upd_other _ _ _ (RoRead p') KRouter Hn eq_refl) by discriminate. exact Hrt.
  - eapply rt_rel_ext; [|exact Hrel]. apply (same_writers_upd _ _ _ (RoRead p') Hn eq_refl). intros n; discriminate.
Qed.

Lemma late_sn_upd : forall cfg pm roles chans wgs s t p p' s' chans',
  NoDup (map kind_of roles) -> nth_error roles t = Some (RoSnap p) -> late cfg pm roles chans wgs s ->
  s_rd s' = s_rd s -> s_rt s' = s_rt s -> s_wr s' = s_wr s -> s_wgR s' = s_wgR s -> s_wgM s' = s_wgM s ->
  sn_ok p' -> sn_rel p' (s_sn s') -> chans' = hd false chans :: sn_is_closed (s_sn s') :: tl (tl chans) ->
  late cfg pm (upd_nth t (RoSnap p') roles) chans' wgs s'.
Proof.
  intros cfg pm roles chans wgs s t p p' s' chans' Hnd Hn (wch & wrest & prt & Hch & Hwg & Hsn & Hrd & Hrt & Hrel)
    Erd Ert Ewr EwgR EwgM Hok Hp' ->.
  pose proof (lk_nth _ _ _ Hnd Hn) as Hlk. cbn [kind_of] in Hlk.
  exists wch, wrest, prt. subst chans. cbn [tl hd]. rewrite Erd, Ert, Ewr, EwgR, EwgM.
  split; [reflexivity|]. split; [exact Hwg|].
  split; [|split; [|split]].
  - unfold sn_clause in *. rewrite Hlk in Hsn.
    rewrite (lk_upd_same _ _ _ (RoSnap p') Hnd Hn eq_refl : lk KSnap _ = _). tauto.
  - unfold rd_clause in *. rewrite (lk_upd_other _ _ _ (RoSnap p') KRead Hn eq_refl) by discriminate. now rewrite Erd.
  - rewrite (lk_upd_other _ _ _ (RoSnap p') KRouter Hn eq_refl) by discriminate. exact Hrt.
  - eapply rt_rel_ext; [|exact Hrel]. apply (same_writers_upd _ _ _ (RoSnap p') Hn eq_refl). intros n; discriminate.
Qed.

(** the rest of coh when a role other than Main has been replaced by one of the same kind *)
Lemma coh_upd : forall cfg roles t ro ro' chans' wgs' s' pm,
  lk KMain roles = Some (RoMain pm) -> NoDup (map kind_of roles) -> is_early pm = false ->
  nth_error roles t = Some ro -> kind_of ro' = kind_of ro -> kind_of ro <> KMain ->
  s_main s' = main_st pm -> late cfg pm (upd_nth t ro' roles) chans' wgs' s' ->
  coh cfg (upd_nth t ro' roles) chans' wgs' s'.
Proof.
  intros cfg roles t ro ro' chans' wgs' s' pm Hm Hnd He Hn Hk Hne Hs Hl.
  apply (coh_late_intro _ _ _ _ _ pm); auto.
  - rewrite (lk_upd_other _ _ _ _ KMain Hn Hk); [exact Hm | congruence].
  - now rewrite (kinds_upd _ _ _ _ Hn Hk).
Qed.

(** ** Ranks and classified steps *)

Lemma rank_sum_upd_eq : forall ts roles t ro ro', nth_error roles t = Some ro ->
  (rank_sum ts (upd_nth t ro' roles) + rank_role ts ro = rank_sum ts roles + rank_role ts ro')%nat.
Proof.
  unfold rank_sum. induction roles as [|r rs IH]; intros [|t] ro ro' Hn; cbn [nth_error upd_nth map] in *; try discriminate.
  - inversion Hn; subst. rewrite !list_sum_cons. lia.
  - specialize (IH _ _ ro' Hn). rewrite !list_sum_cons. lia.
Qed.

Lemma rank_sum_upd : forall ts roles t ro ro', nth_error roles t = Some ro ->
  (rank_role ts ro' < rank_role ts ro)%nat -> (rank_sum ts (upd_nth t ro' roles) < rank_sum ts roles)%nat.
Proof. intros ts roles t ro ro' Hn H. pose proof (rank_sum_upd_eq ts roles t ro ro' Hn). lia. Qed.

Lemma rank_sum_app : forall ts roles ro, rank_sum ts (roles ++ [ro]) = (rank_sum ts roles + rank_role ts ro)%nat.
Proof. intros. unfold rank_sum. rewrite map_app, list_sum_app. cbn. lia. Qed.

Lemma rank_sum_go : forall ts roles t ro ro' new, nth_error roles t = Some ro ->
  (rank_role ts ro' + rank_role ts new < rank_role ts ro)%nat ->
  (rank_sum ts (upd_nth t ro' roles ++ [new]) < rank_sum ts roles)%nat.
Proof.
  intros ts roles t ro ro' new Hn H. rewrite rank_sum_app. pose proof (rank_sum_upd_eq ts roles t ro ro' Hn). lia.
Qed.

Lemma rstep_silent : forall cfg roles roles' chans wgs s,
  coh cfg roles' chans wgs s ->
  (rank_sum (c_targets cfg) roles' < rank_sum (c_targets cfg) roles)%nat \/ pure_move roles roles' ->
  rstep cfg roles s (MkG (map (th_of (c_targets cfg)) roles') chans wgs None) s.
Proof. intros. left. split; [reflexivity|]. exists roles'. cbn. auto. Qed.

Lemma rstep_label : forall cfg roles s g' s' l, step cfg s l = Some s' -> skel_rel cfg g' s' -> rstep cfg roles s g' s'.
Proof. intros. right. split; [eauto | assumption]. Qed.

Lemma rstep_mstep : forall cfg roles s g' s', s_panic s = None -> rstep cfg roles s g' s' ->
  mstep cfg s s' /\ skel_rel cfg g' s'.
Proof.
  intros cfg roles s g' s' Hp [(-> & roles' & -> & Hc & _)|[(l & Hl) Hr]].
  - split; [now left|]. now apply skel_rel_intro.
  - split; [right; eauto | exact Hr].
Qed.

(** ** Preliminaries shared by the steps of every role *)

Lemma main_st_not_init : forall pm, main_st pm <> MInit.
Proof. destruct pm; discriminate. Qed.

Lemma step_late : forall cfg s l pm, s_panic s = None -> s_main s = main_st pm -> step cfg s l = step_started cfg s l.
Proof.
  intros cfg s l pm Hp Hm. apply step_of_started; [exact Hp|]. rewrite Hm. apply main_st_not_init.
Qed.

Lemma no_local_step : forall ts roles chans wgs t c ro g' ev,
  nth_error roles t = Some ro -> tstep P c (th_of ts ro) = None ->
  gstep P (MkG (map (th_of ts) roles) chans wgs None) (ALocal t c) = Some (g', ev) -> False.
Proof.
  intros ts roles chans wgs t c ro g' ev Hn Ht Hg. unfold gstep in Hg. cbn [g_panic g_threads g_chans g_wgs] in Hg.
  rewrite (map_nth_error (th_of ts) _ _ Hn), Ht in Hg. discriminate.
Qed.

Lemma late_chans : forall cfg pm roles chans wgs s, late cfg pm roles chans wgs s ->
  chans = rd_is_closed (s_rd s) :: sn_is_closed (s_sn s) :: tl (tl chans).
Proof. intros cfg pm roles chans wgs s (wch & wrest & prt & -> & _). reflexivity. Qed.

Lemma late_wgs : forall cfg pm roles chans wgs s, late cfg pm roles chans wgs s -> wgs = s_wgM s :: tl wgs.
Proof. intros cfg pm roles chans wgs s (wch & wrest & prt & _ & -> & _). reflexivity. Qed.

(** ** The Reader *)

Lemma step_read : forall cfg roles chans wgs s t p c g' ev,
  coh cfg roles chans wgs s -> s_panic s = None -> nth_error roles t = Some (RoRead p) ->
  gstep P (MkG (map (th_of (c_targets cfg)) roles) chans wgs None) (ALocal t c) = Some (g', ev) ->
  choice_ok s (th_rd p) c ->
  exists s', rstep cfg roles s g' s'.
Proof.
  intros cfg roles chans wgs s t p c g' ev Hcoh Hpan Hn Hg Hch.
  destruct (coh_inv_late _ _ _ _ _ _ _ Hcoh Hn) as (pm & Hm & Hnd & He & Hmain & Hlate); [discriminate|].
  pose proof (lk_nth _ _ _ Hnd Hn) as Hlk. cbn [kind_of] in Hlk.
  assert (Hrel : rd_rel p (s_rd s)).
  { destruct Hlate as (wch & wrest & prt & _ & _ & _ & Hrd & _). unfold rd_clause in Hrd. rewrite Hlk in Hrd. tauto. }
  pose proof (late_chans _ _ _ _ _ _ Hlate) as Hchans.
  pose proof (rd_spec p c 0) as Hspec.
  destruct (next_rd p c) as [[q k]|] eqn:En; destruct (tstep P c (th_rd p)) as [[q' th']|] eqn:Et;
    cbn [spec] in Hspec; try contradiction.
  2: { exfalso. eapply (no_local_step (c_targets cfg) roles chans wgs t c (RoRead p)); eauto. }
  destruct Hspec as [-> Hpost].
  pose proof (local_effect (c_targets cfg) roles chans wgs t c (RoRead p) q th' 0 (fun b => RoRead (k b)) g' ev Hn Et Hpost) as Heff.
  assert (Htau : forall p', (rank_rd p' < rank_rd p)%nat -> rd_rel p' (s_rd s) ->
            rstep cfg roles s (MkG (map (th_of (c_targets cfg)) (upd_nth t (RoRead p') roles)) chans wgs None) s).
  { intros p' Hrk Hp'. apply rstep_silent; [|left; eapply rank_sum_upd; [exact Hn | exact Hrk]].
    eapply coh_upd; eauto; [discriminate|].
    eapply late_rd_upd; eauto. rewrite Hchans; reflexivity. }
  destruct p; cbn [next_rd] in En.
  - (* D0 *) inversion En; subst q k. specialize (Heff I Hg). cbn in Heff. subst g'. exists s. apply Htau; [cbn; lia | exact Hrel].
  - (* D1 *) inversion En; subst q k. specialize (Heff I Hg). cbn in Heff. subst g'. exists s. apply Htau; [cbn; lia | exact Hrel].
  - (* DH *)
    unfold choice_ok in Hch. cbn in Hch. destruct Hrel as [rest Hrest]. rewrite Hrest in Hch.
    destruct c as [| | |[z|]|]; try discriminate; inversion En; subst q k; specialize (Heff I Hg); cbn in Heff; subst g';
      exists s; (apply Htau; [cbn; lia|]); cbn.
    + destruct rest as [|f r]; [discriminate | eauto].
    + destruct rest as [|f r]; [exact Hrest | congruence].
  - (* D2 *) inversion En; subst q k. specialize (Heff I Hg). cbn in Heff. destruct Heff as [Hc _].
    destruct Hrel as (f & r & Hr). rewrite Hchans, Hr in Hc. discriminate.
  - (* D3 *) inversion En; subst q k. specialize (Heff I Hg). cbn in Heff. subst g'. exists s. apply Htau; [cbn; lia | exact Hrel].
  - (* D4 *) inversion En; subst q k. specialize (Heff I Hg). cbn in Heff. cbn in Hrel.
    destruct Heff as [[Hc ->]|[Hc _]]; [|rewrite Hchans, Hrel in Hc; discriminate].
    exists (set_rd s RdClosed). right. split.
    + exists LReadClose. rewrite (step_late _ _ _ pm Hpan Hmain). cbn. now rewrite Hrel.
    + apply skel_rel_intro; [exact Hpan|].
      eapply coh_upd; eauto; [discriminate|].
      eapply late_rd_upd; eauto; try reflexivity. cbn. rewrite Hchans; reflexivity.
  - (* D5 *) inversion En; subst q k. specialize (Heff I Hg). cbn in Heff. subst g'. exists s. apply Htau; [cbn; lia | exact Hrel].
  - (* D6 *) inversion En; subst q k. specialize (Heff I Hg). cbn in Heff. subst g'. exists s. apply Htau; [cbn; lia | exact Hrel].
  - (* D7 *) inversion En; subst q k. specialize (Heff I Hg). cbn in Heff. subst g'. cbn in Hrel.
    exists (set_rd s RdExit). right. split.
    + exists LReadExit. rewrite (step_late _ _ _ pm Hpan Hmain). cbn. now rewrite Hrel.
    + apply skel_rel_intro; [exact Hpan|].
      eapply coh_upd; eauto; [discriminate|].
      eapply late_rd_upd; eauto; try reflexivity. cbn. rewrite Hrel in *. rewrite Hchans; reflexivity.
  - (* D8 *) discriminate.
Qed.
