(** * Pipe/ProofsGenData.v — the regenerated DATA side of processing.go (gen/PipeDataGen.v) computes what the
      pipeline model (Pipe/Model.v) says, for EVERY iteration order of every Go map involved.

    Statements in Properties/C10.v ([C10_source_tie_data_*]). *)
From Coq Require Import String ZArith NArith List Bool Lia Permutation.
From Texel Require Import Prelude.Base Prelude.GoLoop Prelude.GoAssoc Pipe.GoData Pipe.Model Pipe.ProofsBase Pipe.DataTie.
From Texel.Gen Require Import PipeDataGen.
Import ListNotations.
Open Scope Z_scope.

(** ** Go maps as association lists *)
Section GoMapFacts.
  Context {V : Type}.
  Implicit Types m : gomap Z V.

  Lemma gm_get_notin : forall m k, ~ In k (map fst m) -> gm_get Z.eqb m k = None.
  Proof.
    induction m as [|[k' v] r IH]; cbn [gm_get map fst In]; intros k H; [reflexivity|].
    destruct (Z.eqb_spec k k') as [->|E]; [tauto | apply IH; tauto].
  Qed.

  Lemma gm_get_none_notin : forall m k, gm_get Z.eqb m k = None -> ~ In k (map fst m).
  Proof.
    induction m as [|[k' v] r IH]; intros k H Hin; cbn [gm_get map fst In] in *; [exact Hin|].
    destruct (Z.eqb_spec k k') as [Ek|Ne]; [discriminate|]. destruct Hin as [Hk|Hk]; [congruence | exact (IH k H Hk)].
  Qed.

  Lemma gm_get_In : forall m k v, gm_get Z.eqb m k = Some v -> In (k, v) m.
  Proof.
    induction m as [|[k' v'] r IH]; cbn [gm_get In]; intros k v H; [discriminate|].
    destruct (Z.eqb_spec k k') as [->|E]; [injection H as ->; now left | right; now apply IH].
  Qed.

  Lemma In_gm_get : forall m k v, NoDup (map fst m) -> In (k, v) m -> gm_get Z.eqb m k = Some v.
  Proof.
    induction m as [|[k' v'] r IH]; cbn [gm_get In map fst]; intros k v ND H; [contradiction|].
    inversion ND as [|? ? Hn Hr]; subst. destruct H as [H|H].
    - injection H as -> ->. now rewrite Z.eqb_refl.
    - destruct (Z.eqb_spec k k') as [->|E]; [|now apply IH].
      exfalso. apply Hn. change k' with (fst (k', v)). now apply in_map.
  Qed.

  Lemma gm_get_some_key : forall m k v, gm_get Z.eqb m k = Some v -> In k (map fst m).
  Proof. intros m k v H. apply gm_get_In in H. change k with (fst (k, v)). now apply in_map. Qed.

  Lemma gm_get_perm : forall m m' k, Permutation m' m -> NoDup (map fst m) -> gm_get Z.eqb m' k = gm_get Z.eqb m k.
  Proof.
    intros m m' k Hp ND.
    assert (ND' : NoDup (map fst m')) by (eapply Permutation_NoDup; [apply Permutation_map, Permutation_sym, Hp | exact ND]).
    destruct (gm_get Z.eqb m k) as [v|] eqn:E.
    - apply In_gm_get; [exact ND'|]. apply gm_get_In in E. eapply Permutation_in; [apply Permutation_sym, Hp | exact E].
    - destruct (gm_get Z.eqb m' k) as [v|] eqn:E'; [|reflexivity].
      apply gm_get_In in E'. apply (Permutation_in _ Hp) in E'. apply In_gm_get in E'; [congruence | exact ND].
  Qed.

  Lemma gm_get_set : forall m k v k', gm_get Z.eqb (gm_set Z.eqb m k v) k' = if Z.eqb k' k then Some v else gm_get Z.eqb m k'.
  Proof.
    induction m as [|[k0 v0] r IH]; intros k v k'; cbn [gm_set gm_get].
    - destruct (Z.eqb k' k); reflexivity.
    - destruct (Z.eqb_spec k k0) as [->|E]; cbn [gm_get].
      + destruct (Z.eqb k' k0); reflexivity.
      + rewrite IH. destruct (Z.eqb_spec k' k0) as [->|E']; [|reflexivity].
        destruct (Z.eqb_spec k0 k); [congruence | reflexivity].
  Qed.

  Lemma gm_keys_set : forall m k v,
    map fst (gm_set Z.eqb m k v) = if gm_has Z.eqb m k then map fst m else map fst m ++ [k].
  Proof.
    unfold gm_has. induction m as [|[k0 v0] r IH]; intros k v; cbn [gm_set gm_get map fst app]; [reflexivity|].
    destruct (Z.eqb_spec k k0) as [->|E]; cbn [map fst]; [reflexivity|].
    rewrite IH. destruct (gm_get Z.eqb r k); reflexivity.
  Qed.

  Lemma gm_set_NoDup : forall m k v, NoDup (map fst m) -> NoDup (map fst (gm_set Z.eqb m k v)).
  Proof.
    intros m k v ND. rewrite gm_keys_set. unfold gm_has. destruct (gm_get Z.eqb m k) eqn:E; [exact ND|].
    apply NoDup_snoc; [exact ND|]. intro H. apply in_map_iff in H as ([k' v'] & Hk & Hin). cbn [fst] in Hk. subst k'.
    apply In_gm_get in Hin; [congruence | exact ND].
  Qed.

  Lemma gm_set_set : forall m k v v', gm_set Z.eqb (gm_set Z.eqb m k v) k v' = gm_set Z.eqb m k v'.
  Proof.
    induction m as [|[k0 v0] r IH]; intros k v v'; cbn [gm_set].
    - now rewrite Z.eqb_refl.
    - destruct (Z.eqb_spec k k0) as [->|E]; cbn [gm_set].
      + now rewrite Z.eqb_refl.
      + destruct (Z.eqb_spec k k0); [congruence|]. now rewrite IH.
  Qed.

  (** two Go maps with the same entries are the same up to the (unobservable) order of the list *)
  Lemma gm_same_get_perm : forall m m', NoDup (map fst m) -> NoDup (map fst m') ->
    (forall k, gm_get Z.eqb m k = gm_get Z.eqb m' k) -> Permutation m m'.
  Proof.
    intros m m' ND ND' H.
    apply NoDup_Permutation.
    - eapply NoDup_map_inv; exact ND.
    - eapply NoDup_map_inv; exact ND'.
    - intros [k v]. split; intro Hin.
      + apply gm_get_In. rewrite <- H. now apply In_gm_get.
      + apply gm_get_In. rewrite H. now apply In_gm_get.
  Qed.

  (** reading the entries of a map back in the order of its own key list gives the map *)
  Lemma entries_self : forall (zero : V) m, NoDup (map fst m) ->
    map (fun k => (k, gm_get_or Z.eqb zero m k)) (map fst m) = m.
  Proof.
    intros zero. induction m as [|[k v] r IH]; cbn [map fst]; intros ND; [reflexivity|].
    inversion ND as [|? ? Hn Hr]; subst. f_equal.
    - unfold gm_get_or. cbn [gm_get]. now rewrite Z.eqb_refl.
    - transitivity (map (fun k0 => (k0, gm_get_or Z.eqb zero r k0)) (map fst r)); [|exact (IH Hr)]. apply map_ext_in. intros a Ha. f_equal. unfold gm_get_or. cbn [gm_get].
      destruct (Z.eqb_spec a k) as [->|E]; [contradiction | reflexivity].
  Qed.
End GoMapFacts.

Lemma entries_in_order_perm : forall {P} (o : gomap Z (list P)) keys,
  gomap_wf o -> Permutation keys (map fst o) -> Permutation (entries_in_order o keys) o.
Proof.
  intros P o keys ND Hp. unfold entries_in_order.
  eapply perm_trans; [apply Permutation_map, Hp|]. rewrite (entries_self (@nil P) o ND). apply Permutation_refl.
Qed.

Lemma entries_in_order_id : forall {P} (o : gomap Z (list P)), gomap_wf o -> entries_in_order o (map fst o) = o.
Proof. intros P o ND. apply entries_self, ND. Qed.

(** ** Slices *)

Lemma idx_app_mid : forall {A} (a : list A) x b, idx (a ++ x :: b) (zlen a) = Ok x.
Proof.
  intros A a x b. unfold idx, zlen. destruct (Z.ltb_spec (Z.of_nat (length a)) 0); [lia|].
  rewrite Nat2Z.id, nth_error_app2, Nat.sub_diag; [reflexivity | lia].
Qed.

Lemma set_nth_app_mid : forall {A} (a : list A) y b x, set_nth (a ++ y :: b) (length a) x = Some (a ++ x :: b).
Proof.
  induction a as [|h t IH]; intros y b x; cbn [app length set_nth]; [reflexivity|]. now rewrite IH.
Qed.

Lemma setidx_app_mid : forall {A} (a : list A) y b x, setidx (a ++ y :: b) (zlen a) x = Ok (a ++ x :: b).
Proof.
  intros A a y b x. unfold setidx, zlen. destruct (Z.ltb_spec (Z.of_nat (length a)) 0); [lia|].
  now rewrite Nat2Z.id, set_nth_app_mid.
Qed.

Lemma zlen_app_one : forall {A} (a : list A) x, zlen (a ++ [x]) = zlen a + 1.
Proof. intros. unfold zlen. rewrite app_length. cbn [length]. lia. Qed.

(** ** polygonsToMulti: a copy of its argument *)

Lemma polygonsToMulti_loop : forall {P} (nilp : P) (rest done : list P) fuel, (length rest < fuel)%nat ->
  gen_polygonsToMulti_for1 (done ++ rest) (zlen (done ++ rest)) fuel (done ++ repeat nilp (length rest), zlen done)
  = Ok (Next (done ++ rest, zlen (done ++ rest))).
Proof.
  intros P nilp. induction rest as [|x r IH]; intros done fuel Hf; (destruct fuel as [|fuel]; [cbn [length] in Hf; lia|]);
    cbn [gen_polygonsToMulti_for1 length repeat].
  - rewrite app_nil_r. now rewrite Z.ltb_irrefl.
  - assert (Hlt : (zlen done <? zlen (done ++ x :: r)) = true).
    { apply Z.ltb_lt. unfold zlen. rewrite app_length. cbn [length]. lia. }
    rewrite Hlt, idx_app_mid. cbn [bind]. rewrite setidx_app_mid. cbn [bind].
    replace (done ++ x :: r) with ((done ++ [x]) ++ r) by (now rewrite <- app_assoc).
    replace (done ++ x :: repeat nilp (length r)) with ((done ++ [x]) ++ repeat nilp (length r)) by (now rewrite <- app_assoc).
    rewrite <- (zlen_app_one done x). apply IH. cbn [length] in Hf. lia.
Qed.

Lemma gen_polygonsToMulti_copy : forall {P} (nilp : P) (ps : list P), gen_polygonsToMulti nilp ps = Ok ps.
Proof.
  intros P nilp ps. unfold gen_polygonsToMulti, go_make_slice.
  destruct (Z.ltb_spec (zlen ps) 0) as [H|_]; [unfold zlen in H; lia|]. cbn [bind].
  pose proof (polygonsToMulti_loop nilp ps [] (S (Z.to_nat (zlen ps - 0)))) as L. cbn [app] in L.
  unfold zlen at 4 in L. cbn [length] in L. change (Z.of_nat 0) with 0 in L.
  replace (Z.to_nat (zlen ps)) with (length ps) by (unfold zlen; now rewrite Nat2Z.id).
  rewrite L; [reflexivity|]. unfold zlen. rewrite Z.sub_0_r, Nat2Z.id. lia.
Qed.

(** ** processMultiPolygon *)

Section MergeGeneric.
  Context {P : Type}.
  Implicit Types m o : gomap Z (list P).

  Definition step_append (k : Z) m (x : P) : gomap Z (list P) :=
    gm_set Z.eqb m k (gm_get_or Z.eqb [] m k ++ [x]).

  Lemma gm_get_or_set_same : forall m k v, gm_get_or Z.eqb (@nil P) (gm_set Z.eqb m k v) k = v.
  Proof. intros. unfold gm_get_or. now rewrite gm_get_set, Z.eqb_refl. Qed.

  Lemma fold_step_append : forall k ps m, fold_left (step_append k) ps m = g_add_entry m (k, ps).
  Proof.
    intros k. induction ps as [|x r IH]; intros m; cbn [fold_left]; [reflexivity|].
    rewrite IH. unfold g_add_entry, step_append. cbn [fst snd]. destruct r as [|y r]; [reflexivity|].
    rewrite gm_get_or_set_same, gm_set_set, <- app_assoc. reflexivity.
  Qed.

  (** the innermost loop: append the polygons of one entry one by one *)
  Lemma inner_loop : forall k ps m,
    range_loop (R := gomap Z (list P)) (gen_processMultiPolygon_range3 k) ps m = Ok (Next (g_add_entry m (k, ps))).
  Proof.
    intros k ps m. rewrite <- fold_step_append. revert m.
    induction ps as [|x r IH]; intros m; cbn [range_loop fold_left]; [reflexivity|].
    unfold gen_processMultiPolygon_range3 at 1. apply IH.
  Qed.

  (** the loop over the entries of one result of f, in the order [keys] *)
  Lemma middle_loop : forall i o keys m,
    range_loop (R := gomap Z (list P)) (gen_processMultiPolygon_range2 i o) keys m
    = Ok (Next (fold_left g_add_entry (entries_in_order o keys) m)).
  Proof.
    intros i o. induction keys as [|k r IH]; intros m; cbn [range_loop entries_in_order map fold_left]; [reflexivity|].
    unfold gen_processMultiPolygon_range2 at 1. rewrite inner_loop. cbn [bind]. apply IH.
  Qed.

  Lemma outer_loop : forall ord ts f (l : list (Z * P)) m,
    range_loop (R := gomap Z (list P)) (gen_processMultiPolygon_range1 ord ts f) l m
    = Ok (Next (fold_left (fun m o => fold_left g_add_entry o m)
                  (map (fun ip => entries_in_order (f (snd ip) ts) (ord (GSite1 (fst ip)) (map fst (f (snd ip) ts)))) l) m)).
  Proof.
    intros ord ts f. induction l as [|[i p] r IH]; intros m; cbn [range_loop map fold_left]; [reflexivity|].
    unfold gen_processMultiPolygon_range1 at 1. cbn [fst snd]. rewrite middle_loop. cbn [bind]. apply IH.
  Qed.

  (** no hypothesis: the loop nest IS the fold of the model over the entries in the order they are visited *)
  Lemma gen_processMultiPolygon_fold : forall ord (mp : list P) ts f,
    gen_processMultiPolygon ord mp ts f = Ok (g_merge_parts (visited ord ts f mp)).
  Proof. intros. unfold gen_processMultiPolygon. rewrite outer_loop. reflexivity. Qed.

  (** *** what the fold computes, entry by entry *)

  Definition sel (k : Z) o : list P := flat_map (fun e : Z * list P => if Z.eqb (fst e) k then snd e else []) o.

  Definition merged_wf m : Prop := NoDup (map fst m) /\ Forall (fun e : Z * list P => snd e <> []) m.

  Lemma gm_get_or_add_entry : forall m e k,
    gm_get_or Z.eqb [] (g_add_entry m e) k = gm_get_or Z.eqb [] m k ++ (if Z.eqb (fst e) k then snd e else []).
  Proof.
    intros m [k0 ps] k. unfold g_add_entry. cbn [fst snd]. destruct ps as [|p ps].
    - destruct (Z.eqb k0 k); now rewrite app_nil_r.
    - unfold gm_get_or at 1. rewrite gm_get_set. rewrite (Z.eqb_sym k k0).
      destruct (Z.eqb_spec k0 k) as [->|E]; [reflexivity|]. now rewrite app_nil_r.
  Qed.

  Lemma Forall_nonempty_set : forall m k (v : list P), v <> [] ->
    Forall (fun e : Z * list P => snd e <> []) m -> Forall (fun e : Z * list P => snd e <> []) (gm_set Z.eqb m k v).
  Proof.
    induction m as [|[k0 v0] r IH]; intros k v Hv H; cbn [gm_set].
    - constructor; [exact Hv | constructor].
    - inversion H; subst. destruct (Z.eqb k k0); constructor; cbn [snd]; auto.
  Qed.

  Lemma add_entry_wf : forall m e, merged_wf m -> merged_wf (g_add_entry m e).
  Proof.
    intros m [k ps] [ND NE]. unfold g_add_entry. cbn [fst snd]. destruct ps as [|p ps]; [split; assumption|]. split.
    - now apply gm_set_NoDup.
    - apply Forall_nonempty_set; [|exact NE]. intro H. apply app_eq_nil in H as [_ H]. discriminate.
  Qed.

  Lemma fold_add_entry_g : forall o m k, merged_wf m ->
    merged_wf (fold_left g_add_entry o m)
    /\ gm_get_or Z.eqb [] (fold_left g_add_entry o m) k = gm_get_or Z.eqb [] m k ++ sel k o.
  Proof.
    induction o as [|e r IH]; intros m k Hm; cbn [fold_left sel flat_map].
    - split; [exact Hm | now rewrite app_nil_r].
    - destruct (IH (g_add_entry m e) k (add_entry_wf m e Hm)) as [Hw Hg]. split; [exact Hw|].
      rewrite Hg, gm_get_or_add_entry, <- app_assoc. reflexivity.
  Qed.

  Lemma sel_nodup : forall k o, gomap_wf o -> sel k o = gm_get_or Z.eqb [] o k.
  Proof.
    unfold gomap_wf. intros k. induction o as [|[k0 ps] r IH]; intros ND; cbn [sel flat_map fst snd]; [reflexivity|].
    cbn [map fst] in ND. inversion ND as [|? ? Hn Hr]; subst. unfold gm_get_or. cbn [gm_get]. rewrite (Z.eqb_sym k k0).
    destruct (Z.eqb_spec k0 k) as [->|E].
    - fold (sel k r). rewrite (IH Hr). unfold gm_get_or. rewrite (gm_get_notin r k Hn). now rewrite app_nil_r.
    - cbn [app]. exact (IH Hr).
  Qed.

  Lemma sel_perm : forall k o o', gomap_wf o -> Permutation o' o -> sel k o' = gm_get_or Z.eqb [] o k.
  Proof.
    intros k o o' ND Hp.
    assert (ND' : gomap_wf o') by (eapply Permutation_NoDup; [apply Permutation_map, Permutation_sym, Hp | exact ND]).
    rewrite (sel_nodup k o' ND'). unfold gm_get_or. now rewrite (gm_get_perm o o' k Hp ND).
  Qed.

  Lemma fold_parts_g : forall (parts' parts : list (gomap Z (list P))) m k, merged_wf m ->
    Forall2 (fun o' o => gomap_wf o /\ Permutation o' o) parts' parts ->
    merged_wf (fold_left (fun m o => fold_left g_add_entry o m) parts' m)
    /\ gm_get_or Z.eqb [] (fold_left (fun m o => fold_left g_add_entry o m) parts' m) k
       = gm_get_or Z.eqb [] m k ++ flat_map (fun o => gm_get_or Z.eqb [] o k) parts.
  Proof.
    intros parts' parts m k Hm H. revert m Hm.
    induction H as [|o' o r' r [ND Hp] Hr IH]; intros m Hm; cbn [fold_left flat_map].
    - split; [exact Hm | now rewrite app_nil_r].
    - destruct (fold_add_entry_g o' m k Hm) as [Hw Hg]. destruct (IH _ Hw) as [Hw' Hg']. split; [exact Hw'|].
      rewrite Hg', Hg, (sel_perm k o o' ND Hp), <- app_assoc. reflexivity.
  Qed.

  Lemma merged_wf_get : forall m k, merged_wf m ->
    gm_get Z.eqb m k = match gm_get_or Z.eqb [] m k with [] => None | ps => Some ps end.
  Proof.
    intros m k [ND NE]. unfold gm_get_or. destruct (gm_get Z.eqb m k) as [v|] eqn:E; [|reflexivity].
    apply gm_get_In in E. rewrite Forall_forall in NE. specialize (NE _ E). cbn [snd] in NE. destruct v; [contradiction | reflexivity].
  Qed.

  Lemma merged_wf_nil : merged_wf (@nil (Z * list P)).
  Proof. split; constructor. Qed.

  Lemma visited_perm : forall ord ts f (mp : list P), ord_ok ord -> (forall p, gomap_wf (f p ts)) ->
    Forall2 (fun o' o => gomap_wf o /\ Permutation o' o) (visited ord ts f mp) (map (fun p => f p ts) mp).
  Proof.
    intros ord ts f mp Ho Hf. unfold visited. generalize 0. induction mp as [|p r IH]; intros i; cbn [indexed_from map]; constructor.
    - cbn [fst snd]. split; [apply Hf|]. apply entries_in_order_perm; [apply Hf | apply Ho].
    - apply IH.
  Qed.

  (** for EVERY iteration order: the result is a Go map (no key twice) in which tile matrix id [k] has the
      concatenation, in part order, of the polygons f returned for [k], and no entry when there are none *)
  Theorem gen_processMultiPolygon_spec : forall ord (mp : list P) ts f,
    ord_ok ord -> (forall p, gomap_wf (f p ts)) ->
    exists m, gen_processMultiPolygon ord mp ts f = Ok m /\ gomap_wf m
      /\ forall k, gm_get Z.eqb m k
                   = match flat_map (fun p => gm_get_or Z.eqb [] (f p ts) k) mp with [] => None | ps => Some ps end.
  Proof.
    intros ord mp ts f Ho Hf. exists (g_merge_parts (visited ord ts f mp)). split; [apply gen_processMultiPolygon_fold|].
    unfold g_merge_parts. split.
    - exact (proj1 (proj1 (fold_parts_g _ _ [] 0 merged_wf_nil (visited_perm ord ts f mp Ho Hf)))).
    - intros k. destruct (fold_parts_g _ _ [] k merged_wf_nil (visited_perm ord ts f mp Ho Hf)) as [Hw Hg].
      pose proof (merged_wf_get _ k Hw) as E. rewrite Hg in E. unfold gm_get_or at 1 in E. cbn [gm_get app] in E.
      etransitivity; [exact E|]. now rewrite flat_map_concat_map, map_map, <- flat_map_concat_map.
  Qed.

  Lemma visited_id : forall ts f (mp : list P), (forall p, gomap_wf (f p ts)) ->
    visited ord_id ts f mp = map (fun p => f p ts) mp.
  Proof.
    intros ts f mp Hf. unfold visited, ord_id. generalize 0. induction mp as [|p r IH]; intros i; cbn [indexed_from map]; [reflexivity|].
    cbn [fst snd]. rewrite entries_in_order_id by apply Hf. f_equal. apply IH.
  Qed.

  (** same entries whatever the order: the results for two orders are permutations of each other *)
  Lemma g_merge_parts_perm : forall (parts' parts : list (gomap Z (list P))),
    Forall2 (fun o' o => gomap_wf o /\ Permutation o' o) parts' parts ->
    Permutation (g_merge_parts parts') (g_merge_parts parts).
  Proof.
    intros parts' parts H.
    assert (Hself : Forall2 (fun o' o : gomap Z (list P) => gomap_wf o /\ Permutation o' o) parts parts).
    { clear -H. induction H as [|o' o r' r [ND _] _ IH]; constructor; [split; [exact ND | apply Permutation_refl] | exact IH]. }
    unfold g_merge_parts. apply gm_same_get_perm.
    - exact (proj1 (proj1 (fold_parts_g _ _ [] 0 merged_wf_nil H))).
    - exact (proj1 (proj1 (fold_parts_g _ _ [] 0 merged_wf_nil Hself))).
    - intros k. destruct (fold_parts_g _ _ [] k merged_wf_nil H) as [Hw Hg].
      destruct (fold_parts_g _ _ [] k merged_wf_nil Hself) as [Hw' Hg'].
      pose proof (merged_wf_get _ k Hw) as E. rewrite Hg in E. pose proof (merged_wf_get _ k Hw') as E'. rewrite Hg' in E'.
      etransitivity; [exact E|]. symmetry. exact E'.
  Qed.
End MergeGeneric.

(** at the model's polygon type the generic merge IS the model's [merge_parts] *)
Lemma gm_set_is_upsert : forall (m : outcome) k ps,
  gm_set Z.eqb m k (gm_get_or Z.eqb [] m k ++ ps) = upsert k ps m.
Proof.
  induction m as [|[k0 qs] r IH]; intros k ps; cbn [gm_set upsert]; [reflexivity|].
  unfold gm_get_or. cbn [gm_get]. rewrite (Z.eqb_sym k k0). destruct (Z.eqb_spec k0 k) as [->|E]; [reflexivity|].
  f_equal. apply IH.
Qed.

Lemma g_add_entry_model : forall (m : outcome) e, g_add_entry m e = add_entry m e.
Proof.
  intros m [k ps]. unfold g_add_entry, add_entry. cbn [fst snd]. destruct ps as [|p ps]; [reflexivity|]. apply gm_set_is_upsert.
Qed.

Lemma fold_add_entry_model : forall (o m : outcome), fold_left g_add_entry o m = fold_left add_entry o m.
Proof. induction o as [|e o IH]; intros m; cbn [fold_left]; [reflexivity|]. now rewrite g_add_entry_model, IH. Qed.

Lemma fold_parts_model : forall (parts : list outcome) (m : outcome),
  fold_left (fun m o => fold_left g_add_entry o m) parts m = fold_left (fun m o => fold_left add_entry o m) parts m.
Proof. induction parts as [|o r IH]; intros m; cbn [fold_left]; [reflexivity|]. now rewrite fold_add_entry_model, IH. Qed.

Lemma g_merge_parts_model : forall parts : list outcome, g_merge_parts parts = merge_parts parts.
Proof. intros parts. exact (fold_parts_model parts []). Qed.

Lemma lookup_is_get_or : forall (o : outcome) k, lookup k o = gm_get_or Z.eqb [] o k.
Proof.
  intros o k. unfold gm_get_or. induction o as [|[k0 ps] r IH]; cbn [lookup gm_get]; [reflexivity|].
  rewrite (Z.eqb_sym k k0). destruct (Z.eqb k0 k); [reflexivity | exact IH].
Qed.

(** the model's merge of parts, for every order *)
Theorem gen_processMultiPolygon_model : forall ord (mp : list poly) ts (f : poly -> list tmid -> outcome),
  ord_ok ord -> (forall p, gomap_wf (f p ts)) ->
  exists m, gen_processMultiPolygon ord mp ts f = Ok m
    /\ Permutation m (merge_parts (map (fun p => f p ts) mp))
    /\ gomap_wf m
    /\ (forall k, lookup k m = flat_map (lookup k) (map (fun p => f p ts) mp))
    /\ (forall k, In k (map fst m) <-> flat_map (lookup k) (map (fun p => f p ts) mp) <> []).
Proof.
  intros ord mp ts f Ho Hf. destruct (gen_processMultiPolygon_spec ord mp ts f Ho Hf) as (m & Hm & ND & Hg).
  exists m. split; [exact Hm|]. split; [|split; [exact ND|]].
  - rewrite gen_processMultiPolygon_fold in Hm. injection Hm as <-. rewrite <- g_merge_parts_model.
    apply g_merge_parts_perm. now apply visited_perm.
  - assert (Hfm : forall k, flat_map (lookup k) (map (fun p => f p ts) mp) = flat_map (fun p => gm_get_or Z.eqb [] (f p ts) k) mp).
    { intros k. rewrite !flat_map_concat_map, map_map. f_equal. apply map_ext. intros p. apply lookup_is_get_or. }
    split; intros k; rewrite Hfm.
    + rewrite lookup_is_get_or. unfold gm_get_or. rewrite Hg. now destruct (flat_map _ mp).
    + specialize (Hg k). split.
      * intros Hin H. rewrite H in Hg. apply in_map_iff in Hin as ([k' v] & Hk & Hin). cbn [fst] in Hk. subst k'.
        apply In_gm_get in Hin; [congruence | exact ND].
      * intros H. destruct (flat_map _ mp) eqn:E; [contradiction|]. eapply gm_get_some_key, Hg.
Qed.

(** when every range visits the entries in the order of the association list, the result is the model's list itself *)
Theorem gen_processMultiPolygon_model_id : forall (mp : list poly) ts (f : poly -> list tmid -> outcome),
  (forall p, gomap_wf (f p ts)) ->
  gen_processMultiPolygon ord_id mp ts f = Ok (merge_parts (map (fun p => f p ts) mp)).
Proof.
  intros mp ts f Hf. rewrite gen_processMultiPolygon_fold, visited_id by exact Hf. now rewrite g_merge_parts_model.
Qed.

(** ** The wrapper *)

Theorem wrapper_methods : forall {C P} (ft : gen_Feature C P) (tm : Z) (g : option (ggeometry P)),
  let w := gen_wrapFeatureForTileMatrix ft tm g in
  gen_featureForTileMatrixWrapper_Columns w = Feature_Columns ft
  /\ gen_featureForTileMatrixWrapper_TileMatrixID w = tm
  /\ gen_featureForTileMatrixWrapper_Geometry w = match g with Some x => Some x | None => Feature_Geometry ft end
  /\ featureForTileMatrixWrapper_wrapped w = ft.
Proof. intros C P ft tm [x|]; cbn; repeat split; reflexivity. Qed.

(** ** The per-feature body of processFeatures *)

Lemma zlen_nil_eqb : forall {A}, (zlen (@nil A) =? 0) = true.
Proof. reflexivity. Qed.

Lemma zlen_cons_eqb0 : forall {A} (x : A) l, (zlen (x :: l) =? 0) = false.
Proof. intros. apply Z.eqb_neq. unfold zlen. cbn [length]. lia. Qed.

Lemma zlen_two_eqb1 : forall {A} (x y : A) l, (zlen (x :: y :: l) =? 1) = false.
Proof. intros. apply Z.eqb_neq. unfold zlen. cbn [length]. lia. Qed.

Section PolygonLoop.
  Context {C P : Type} (nilp : P) (c1 c2 c3 : Z) (ft : gen_Feature C P) (m : gomap Z (list P)).

  Let body := gen_processFeatures_body_range1 nilp c1 c2 c3 ft m.
  Let sendOf (k : Z) := gen_wrapFeatureForTileMatrix ft k (poly_geometry (gm_get_or Z.eqb [] m k)).

  Lemma polygon_step_ok : forall k out, gm_get_or Z.eqb [] m k <> [] -> body k out = Ok (Cont (out ++ [sendOf k])).
  Proof.
    intros k out H. unfold body, sendOf, gen_processFeatures_body_range1.
    destruct (gm_get_or Z.eqb [] m k) as [|p [|q r]] eqn:E; [contradiction| |].
    - rewrite zlen_cons_eqb0. change (zlen [p] =? 1) with true. cbv iota. unfold idx. cbn. reflexivity.
    - rewrite zlen_cons_eqb0, zlen_two_eqb1. cbv iota. rewrite gen_polygonsToMulti_copy. reflexivity.
  Qed.

  Lemma polygon_step_panic : forall k out, gm_get_or Z.eqb [] m k = [] ->
    body k out = Ok (RRet ((out, c1, c2, c3), Some (GoPanicf "no new polygon for level %v" k))).
  Proof. intros k out H. unfold body, gen_processFeatures_body_range1. rewrite H. reflexivity. Qed.

  Lemma polygon_loop_ok : forall ks out, Forall (fun k => gm_get_or Z.eqb [] m k <> []) ks ->
    range_loop body ks out = Ok (Next (out ++ map sendOf ks)).
  Proof.
    induction ks as [|k r IH]; intros out H; cbn [range_loop map].
    - now rewrite app_nil_r.
    - inversion H; subst. rewrite polygon_step_ok by assumption. rewrite IH by assumption. now rewrite <- app_assoc.
  Qed.

  Lemma polygon_loop_panic : forall ks1 k ks2 out, Forall (fun k => gm_get_or Z.eqb [] m k <> []) ks1 ->
    gm_get_or Z.eqb [] m k = [] ->
    range_loop body (ks1 ++ k :: ks2) out
    = Ok (Ret ((out ++ map sendOf ks1, c1, c2, c3), Some (GoPanicf "no new polygon for level %v" k))).
  Proof.
    induction ks1 as [|k1 r IH]; intros k ks2 out H Hk; cbn [range_loop map app].
    - rewrite polygon_step_panic by assumption. now rewrite app_nil_r.
    - inversion H; subst. rewrite polygon_step_ok by assumption. rewrite IH by assumption. now rewrite <- app_assoc.
  Qed.
End PolygonLoop.

Lemma multi_loop : forall {C P} (ft : gen_Feature C P) (m : gomap Z (list P)) ks out,
  range_loop (R := ((list (gen_featureForTileMatrixWrapper C P) * Z * Z * Z) * option gpanic)%type)
             (gen_processFeatures_body_range2 ft m) ks out
  = Ok (Next (out ++ map (fun k => gen_wrapFeatureForTileMatrix ft k (Some (GoMultiPolygon (gm_get_or Z.eqb [] m k)))) ks)).
Proof.
  intros C P ft m. induction ks as [|k r IH]; intros out; cbn [range_loop map].
  - now rewrite app_nil_r.
  - unfold gen_processFeatures_body_range2 at 1. rewrite IH. now rewrite <- app_assoc.
Qed.

Lemma other_loop : forall {C P} (ft : gen_Feature C P) ks out,
  range_loop (R := ((list (gen_featureForTileMatrixWrapper C P) * Z * Z * Z) * option gpanic)%type)
             (gen_processFeatures_body_range3 ft) ks out
  = Ok (Next (out ++ map (fun k => gen_wrapFeatureForTileMatrix ft k None) ks)).
Proof.
  intros C P ft. induction ks as [|k r IH]; intros out; cbn [range_loop map].
  - now rewrite app_nil_r.
  - unfold gen_processFeatures_body_range3 at 1. rewrite IH. now rewrite <- app_assoc.
Qed.

Lemma geom_of_polys_abs : forall ps : list poly, ps <> [] -> geom_of_polys ps = Some (abs_geom (poly_geometry ps)).
Proof. intros [|p [|q r]] H; [contradiction | reflexivity | reflexivity]. Qed.

Lemma first_empty : forall {P} (m : gomap Z (list P)) ks, Exists (fun k => gm_get_or Z.eqb [] m k = []) ks ->
  exists ks1 k ks2, ks = ks1 ++ k :: ks2 /\ Forall (fun k => gm_get_or Z.eqb [] m k <> []) ks1 /\ gm_get_or Z.eqb [] m k = [].
Proof.
  intros P m. induction ks as [|k r IH]; intros H; [inversion H|].
  destruct (gm_get_or Z.eqb [] m k) as [|p ps] eqn:E.
  - exists [], k, r. repeat split; [constructor | exact E].
  - assert (Hr : Exists (fun k => gm_get_or Z.eqb [] m k = []) r) by (inversion H; subst; [congruence | assumption]).
    destruct (IH Hr) as (ks1 & k' & ks2 & -> & H1 & H2). exists (k :: ks1), k', ks2. repeat split; [|exact H2].
    constructor; [congruence | exact H1].
Qed.

Lemma gm_len_pos : forall {V} (m : gomap Z V), (0 <? gm_len m) = match m with [] => false | _ => true end.
Proof. intros V [|e r]; [reflexivity|]. apply Z.ltb_lt. unfold gm_len. cbn [length]. lia. Qed.

Lemma perm_nil_match : forall {A B} (a : list A) (b : list B) (x y : Z), length a = length b ->
  match a with [] => x | _ => y end = match b with [] => x | _ => y end.
Proof. intros A B [|? ?] [|? ?] x y H; cbn in H; congruence. Qed.

Lemma post_bind : forall {V A} (m : gomap Z V) (c2 : Z) (k : Z -> res A),
  bind (if 0 <? gm_len m then (let v := uint64_inc c2 in Ok v) else Ok c2) k
  = k (match m with [] => c2 | _ => uint64_inc c2 end).
Proof. intros V A m c2 k. rewrite gm_len_pos. destruct m; reflexivity. Qed.

Section Body.
  Variable nilp : poly.
  Variable ord : gen_site -> list Z -> list Z.
  Hypothesis Ho : ord_ok ord.
  Variable ts : list tmid.
  Variable f : poly -> list tmid -> outcome.
  Hypothesis Hf : forall p, gomap_wf (f p ts).

  Let pend_of_poly := fun e : tmid * list poly => ((fst e, geom_of_polys (snd e)) : pend).
  Let pend_of_multi := fun e : tmid * list poly => ((fst e, Some (GMulti (snd e))) : pend).

  Lemma abs_pend_wrap : forall ft k g, abs_pend (gen_wrapFeatureForTileMatrix ft k g) = (k, Some (abs_geom g)).
  Proof. reflexivity. Qed.

  Lemma polygon_sends_abs : forall ft (o : outcome) ks, Forall (fun k => gm_get_or Z.eqb [] o k <> []) ks ->
    map abs_pend (map (fun k => gen_wrapFeatureForTileMatrix ft k (poly_geometry (gm_get_or Z.eqb [] o k))) ks)
    = map pend_of_poly (entries_in_order o ks).
  Proof.
    intros ft o ks H. unfold entries_in_order. rewrite !map_map. apply map_ext_in. intros k Hk.
    rewrite Forall_forall in H. unfold pend_of_poly. cbn [fst snd]. rewrite abs_pend_wrap.
    now rewrite geom_of_polys_abs by (apply H, Hk).
  Qed.

  Lemma nonempty_keys : forall (o : outcome) ks, gomap_wf o -> Permutation ks (map fst o) ->
    Forall (fun e : pend => snd e <> None) (map pend_of_poly o) ->
    Forall (fun k => gm_get_or Z.eqb [] o k <> []) ks.
  Proof.
    intros o ks ND Hp H. apply Forall_forall. intros k Hk Hget.
    apply (Permutation_in _ Hp) in Hk. apply in_map_iff in Hk as ([k' ps] & Hk' & Hin). cbn [fst] in Hk'. subst k'.
    rewrite Forall_forall in H. specialize (H (pend_of_poly (k, ps)) (in_map _ _ _ Hin)).
    unfold gm_get_or in Hget. rewrite (In_gm_get o k ps ND Hin) in Hget. subst ps. apply H. reflexivity.
  Qed.

  (** no entry without polygons: everything is sent, nothing panics; the sends are the model's fan-out — in the order
      of tmIDs for a non-polygon, in SOME order (that of the map iteration) for a polygon / multipolygon *)
  Theorem body_ok : forall ft out c1 c2 c3,
    let mf := model_feature ts f ft in
    Forall (fun e : pend => snd e <> None) (snd (fanout ts mf)) ->
    exists sent,
      gen_processFeatures_body nilp ord ts f ft (out, c1, c2, c3)
      = Ok ((out ++ sent, uint64_inc c1, post_after ts mf c2, nonp_after mf c3), None)
      /\ Forall (fun w => featureForTileMatrixWrapper_wrapped w = ft) sent
      /\ (if fst (fanout ts mf) then map abs_pend sent = snd (fanout ts mf)
          else Permutation (map abs_pend sent) (snd (fanout ts mf))).
  Proof.
    intros ft out c1 c2 c3 mf. subst mf. unfold model_feature, fanout, post_after, nonp_after. cbn [f_kind f_id snd fst].
    unfold gen_processFeatures_body. destruct (Feature_Geometry ft) as [[p|ps|code]|] eqn:EG; cbn [model_kind fanout f_kind f_id snd fst].
    - (* Polygon *)
      intros Hne. set (o := f p ts) in *. set (ks := ord GSite2 (map fst o)).
      assert (Hks : Forall (fun k => gm_get_or Z.eqb [] o k <> []) ks) by (apply nonempty_keys; [apply Hf | apply Ho | exact Hne]).
      eexists. split; [|split].
      + rewrite post_bind. cbv beta. fold ks. rewrite (polygon_loop_ok nilp _ _ _ ft o ks out Hks). cbn [bind].
        rewrite (perm_nil_match (map _ o) o c2 (uint64_inc c2) (map_length _ o)). reflexivity.
      + apply Forall_forall. intros w Hw. apply in_map_iff in Hw as (k & <- & _). reflexivity.
      + rewrite polygon_sends_abs by exact Hks. apply Permutation_map. apply entries_in_order_perm; [apply Hf | apply Ho].
    - (* MultiPolygon *)
      intros _. destruct (gen_processMultiPolygon_model ord ps ts f Ho Hf) as (m & Hm & Hp & ND & _).
      set (parts := map (fun p => f p ts) ps) in *. set (ks := ord GSite3 (map fst m)).
      eexists. split; [|split].
      + rewrite Hm. cbn [bind]. rewrite post_bind. cbv beta. fold ks. rewrite multi_loop. cbn [bind].
        rewrite (perm_nil_match (map _ (merge_parts parts)) m c2 (uint64_inc c2))
          by (rewrite map_length; symmetry; apply Permutation_length, Hp).
        reflexivity.
      + apply Forall_forall. intros w Hw. apply in_map_iff in Hw as (k & <- & _). reflexivity.
      + rewrite map_map.
        replace (map (fun k => abs_pend (gen_wrapFeatureForTileMatrix ft k (Some (GoMultiPolygon (gm_get_or Z.eqb [] m k))))) ks)
          with (map pend_of_multi (entries_in_order m ks)) by (unfold entries_in_order; rewrite map_map; reflexivity).
        apply Permutation_map. eapply perm_trans; [apply entries_in_order_perm; [exact ND | apply Ho] | exact Hp].
    - (* another dynamic type *)
      intros _. eexists. split; [|split].
      + rewrite other_loop. cbn [bind]. reflexivity.
      + apply Forall_forall. intros w Hw. apply in_map_iff in Hw as (k & <- & _). reflexivity.
      + rewrite map_map. reflexivity.
    - (* the nil interface *)
      intros _. eexists. split; [|split].
      + rewrite other_loop. cbn [bind]. reflexivity.
      + apply Forall_forall. intros w Hw. apply in_map_iff in Hw as (k & <- & _). reflexivity.
      + rewrite map_map. reflexivity.
  Qed.

  (** an entry without polygons (only a Polygon feature can have one): the panic of line 39, for such an entry, after
      the sends of the entries visited before it *)
  Theorem body_panic : forall ft out c1 c2 c3,
    let mf := model_feature ts f ft in
    Exists (fun e : pend => snd e = None) (snd (fanout ts mf)) ->
    exists sent tm rest,
      gen_processFeatures_body nilp ord ts f ft (out, c1, c2, c3)
      = Ok ((out ++ sent, uint64_inc c1, post_after ts mf c2, nonp_after mf c3),
            Some (GoPanicf "no new polygon for level %v" tm))
      /\ Forall (fun w => featureForTileMatrixWrapper_wrapped w = ft) sent
      /\ Permutation (snd (fanout ts mf)) (map abs_pend sent ++ (tm, None) :: rest).
  Proof.
    intros ft out c1 c2 c3 mf. subst mf. unfold model_feature, fanout, post_after, nonp_after. cbn [f_kind f_id snd fst].
    unfold gen_processFeatures_body. destruct (Feature_Geometry ft) as [[p|ps|code]|] eqn:EG; cbn [model_kind fanout f_kind f_id snd fst].
    - intros Hex. set (o := f p ts) in *. pose (ks := ord GSite2 (map (@fst Z (list poly)) o)).
      assert (Hperm : Permutation (entries_in_order o ks) o) by (apply entries_in_order_perm; [apply Hf | apply Ho]).
      assert (Hex' : Exists (fun k => gm_get_or Z.eqb [] o k = []) ks).
      { apply Exists_exists in Hex as (e & He & Hn). apply in_map_iff in He as ([k qs] & <- & Hin). cbn [fst snd] in Hn.
        destruct qs as [|q [|q' r]]; cbn in Hn; try discriminate.
        apply Exists_exists. exists k. split.
        - apply (Permutation_in _ (Permutation_sym (Ho GSite2 (map fst o)))). change k with (fst (k, @nil poly)). now apply in_map.
        - unfold gm_get_or. now rewrite (In_gm_get o k [] (Hf p) Hin). }
      destruct (first_empty o (ord GSite2 (map (@fst Z (list poly)) o)) Hex') as (ks1 & k & ks2 & Eks & H1 & Hk).
      exists (map (fun k => gen_wrapFeatureForTileMatrix ft k (poly_geometry (gm_get_or Z.eqb [] o k))) ks1), k,
             (map pend_of_poly (entries_in_order o ks2)).
      split; [|split].
      + rewrite post_bind. cbv beta. rewrite Eks. rewrite (polygon_loop_panic nilp _ _ _ ft o ks1 k ks2 out H1 Hk). cbn [bind].
        rewrite (perm_nil_match (map _ o) o c2 (uint64_inc c2) (map_length _ o)). reflexivity.
      + apply Forall_forall. intros w Hw. apply in_map_iff in Hw as (k' & <- & _). reflexivity.
      + rewrite polygon_sends_abs by exact H1.
        eapply perm_trans; [apply Permutation_map, Permutation_sym, Hperm|]. unfold ks. rewrite Eks.
        unfold entries_in_order. rewrite !map_app. cbn [map]. unfold pend_of_poly at 2. cbn [fst snd]. rewrite Hk.
        apply Permutation_refl.
    - intros Hex. exfalso. apply Exists_exists in Hex as (e & He & Hn). apply in_map_iff in He as (x & <- & _). discriminate.
    - intros Hex. exfalso. apply Exists_exists in Hex as (e & He & Hn). apply in_map_iff in He as (x & <- & _). discriminate.
    - intros Hex. exfalso. apply Exists_exists in Hex as (e & He & Hn). apply in_map_iff in He as (x & <- & _). discriminate.
  Qed.

  (** with the identity order the sends are the model's fan-out list itself *)
  Lemma pend_msgs_In : forall id i og (l : list pend), NoDup (map fst l) -> In (i, og) l -> pend_msgs id i l = opt_msgs id og.
  Proof.
    intros id i og. induction l as [|[k og'] r IH]; cbn [map fst In]; intros ND H; [contradiction|].
    inversion ND as [|? ? Hn Hr]; subst. rewrite pend_msgs_cons. destruct H as [H|H].
    - injection H as -> ->. rewrite Z.eqb_refl. rewrite (pend_msgs_notin id i r Hn). unfold opt_msgs. now rewrite app_nil_r.
    - destruct (Z.eqb_spec k i) as [->|E].
      + exfalso. apply Hn. change i with (fst (i, og)). now apply in_map.
      + cbn [app]. now apply IH.
  Qed.

  Lemma pend_msgs_perm : forall id i (l l' : list pend), NoDup (map fst l) -> Permutation l' l ->
    pend_msgs id i l' = pend_msgs id i l.
  Proof.
    intros id i l l' ND Hp.
    assert (ND' : NoDup (map fst l')) by (eapply Permutation_NoDup; [apply Permutation_map, Permutation_sym, Hp | exact ND]).
    destruct (in_dec Z.eq_dec i (map fst l)) as [Hin|Hn].
    - apply in_map_iff in Hin as ([k og] & Hk & Hin). cbn [fst] in Hk. subst k.
      rewrite (pend_msgs_In id i og l ND Hin). apply pend_msgs_In; [exact ND'|]. now apply (Permutation_in _ (Permutation_sym Hp)).
    - rewrite (pend_msgs_notin id i l Hn). apply pend_msgs_notin. intro H. apply Hn.
      now apply (Permutation_in _ (Permutation_map fst Hp)).
  Qed.

  (** per target, exactly: what the regenerated body sends under tile matrix id [i] is what the model delivers to [i] *)
  Theorem body_delivers : forall ft out c1 c2 c3 i,
    let mf := model_feature ts f ft in
    NoDup ts -> wf_feature ts mf -> In i ts ->
    exists sent,
      gen_processFeatures_body nilp ord ts f ft (out, c1, c2, c3)
      = Ok ((out ++ sent, uint64_inc c1, post_after ts mf c2, nonp_after mf c3), None)
      /\ pend_msgs (Feature_Columns ft) i (map abs_pend sent) = feat_msgs i mf
      /\ Forall (fun w => observed w = (Feature_Columns ft,
                                        match featureForTileMatrixWrapper_newGeometry w with
                                        | Some g => Some g | None => Feature_Geometry ft end)) sent.
  Proof.
    intros ft out c1 c2 c3 i mf Hts Hwf Hi.
    destruct (fanout_ok ts mf Hts Hwf) as (ND & _ & Hne).
    destruct (body_ok ft out c1 c2 c3 Hne) as (sent & Hrun & Hw & Hsent). fold mf in Hrun, Hsent.
    exists sent. split; [exact Hrun|]. split.
    - rewrite <- (fanout_deliver ts mf i Hts Hwf Hi). change (f_id mf) with (Feature_Columns ft).
      destruct (fst (fanout ts mf)); [now rewrite Hsent | now apply pend_msgs_perm].
    - apply Forall_forall. intros w Hin. rewrite Forall_forall in Hw. specialize (Hw w Hin).
      unfold observed, gen_featureForTileMatrixWrapper_Columns, gen_featureForTileMatrixWrapper_Geometry. rewrite Hw.
      now destruct (featureForTileMatrixWrapper_newGeometry w).
  Qed.
End Body.

(** with the identity order the sends are the model's fan-out list itself, also for polygons and multipolygons *)
Theorem body_ok_id : forall nilp ts f ft out c1 c2 c3, (forall p, gomap_wf (f p ts)) ->
  let mf := model_feature ts f ft in
  Forall (fun e : pend => snd e <> None) (snd (fanout ts mf)) ->
  exists sent,
    gen_processFeatures_body nilp ord_id ts f ft (out, c1, c2, c3)
    = Ok ((out ++ sent, uint64_inc c1, post_after ts mf c2, nonp_after mf c3), None)
    /\ map abs_pend sent = snd (fanout ts mf).
Proof.
  intros nilp ts f ft out c1 c2 c3 Hf mf. subst mf. unfold model_feature, fanout, post_after, nonp_after. cbn [f_kind f_id snd fst].
  unfold gen_processFeatures_body. destruct (Feature_Geometry ft) as [[p|ps|code]|] eqn:EG; cbn [model_kind fanout f_kind f_id snd fst].
  - intros Hne. set (o := f p ts) in *.
    assert (Hks : Forall (fun k => gm_get_or Z.eqb [] o k <> []) (ord_id GSite2 (map fst o))).
    { apply (nonempty_keys o); [apply Hf | apply Permutation_refl | exact Hne]. }
    eexists. split.
    + rewrite post_bind. cbv beta. rewrite (polygon_loop_ok nilp _ _ _ ft o _ out Hks). cbn [bind].
      rewrite (perm_nil_match (map _ o) o c2 (uint64_inc c2) (map_length _ o)). reflexivity.
    + rewrite (polygon_sends_abs ft o _ Hks). unfold ord_id. now rewrite entries_in_order_id by apply Hf.
  - intros _. rewrite gen_processMultiPolygon_model_id by exact Hf. set (m := merge_parts (map (fun p => f p ts) ps)).
    assert (ND : gomap_wf m).
    { destruct (gen_processMultiPolygon_model ord_id ps ts f (fun s l => Permutation_refl l) Hf) as (m' & Hm & _ & ND & _).
      rewrite gen_processMultiPolygon_model_id in Hm by exact Hf. injection Hm as <-. exact ND. }
    eexists. split.
    + cbn [bind]. rewrite post_bind. cbv beta. rewrite multi_loop. cbn [bind].
      rewrite (perm_nil_match (map _ m) m c2 (uint64_inc c2) (map_length _ m)). reflexivity.
    + transitivity (map (fun e : tmid * list poly => ((fst e, Some (GMulti (snd e))) : pend)) (entries_in_order m (map fst m))).
      * unfold entries_in_order, ord_id. rewrite !map_map. reflexivity.
      * now rewrite entries_in_order_id by exact ND.
  - intros _. eexists. split; [rewrite other_loop; cbn [bind]; reflexivity | rewrite map_map; reflexivity].
  - intros _. eexists. split; [rewrite other_loop; cbn [bind]; reflexivity | rewrite map_map; reflexivity].
Qed.

(** ** The distribution step of writeFeaturesToTargets *)

Theorem route_spec : forall {C P CH} (chans : gomap Z CH) (w : gen_featureForTileMatrixWrapper C P) routed,
  gen_writeFeaturesToTargets_body chans w routed
  = Ok (match gm_get Z.eqb chans (featureForTileMatrixWrapper_tileMatrixID w) with
        | Some c => (routed ++ [(c, w)], None)
        | None => (routed, Some (GoPanicf "no target channel for %v" (featureForTileMatrixWrapper_tileMatrixID w)))
        end).
Proof.
  intros. unfold gen_writeFeaturesToTargets_body, gen_featureForTileMatrixWrapper_TileMatrixID.
  destruct (gm_get Z.eqb chans (featureForTileMatrixWrapper_tileMatrixID w)); reflexivity.
Qed.

(** the channel map has one entry per target (the spawn loop ranges over the targets map: in any order): the lookup
    fails exactly when the model's Router finds no writer, i.e. panics with [PanicNoChannel] *)
Theorem route_panics_like_model : forall {C P CH} (chans : gomap Z CH) (ts : list tmid)
    (w : gen_featureForTileMatrixWrapper C P) routed,
  Permutation (map fst chans) ts ->
  (exists st p, gen_writeFeaturesToTargets_body chans w routed = Ok (st, Some p))
  <-> find_writer (gen_featureForTileMatrixWrapper_TileMatrixID w) (map new_writer ts) = None.
Proof.
  intros C P CH chans ts w routed Hp. rewrite route_spec. unfold gen_featureForTileMatrixWrapper_TileMatrixID.
  set (tm := featureForTileMatrixWrapper_tileMatrixID w). rewrite find_writer_None, map_tm_new. split.
  - intros (st & p & H) Hin. destruct (gm_get Z.eqb chans tm) eqn:E; [discriminate|].
    apply (Permutation_in _ (Permutation_sym Hp)) in Hin. exact (gm_get_none_notin chans tm E Hin).
  - intros Hn. destruct (gm_get Z.eqb chans tm) eqn:E.
    + exfalso. apply Hn. apply (Permutation_in _ Hp). eapply gm_get_some_key, E.
    + eexists. eexists. reflexivity.
Qed.
