(** * Pipe/ProofsConverse3.v — converse source tie, part 3: the steps the Snapper takes on its own. *)
From Coq Require Import ZArith List String Bool Lia Permutation.
From Texel Require Import Pipe.Model Pipe.ProofsBase Pipe.ProofsInv Pipe.ProofsLive Pipe.Skeleton Pipe.SkeletonSem Pipe.SkeletonSim
  Pipe.ProofsSkeleton Pipe.ConversePc Pipe.ConversePcSn Pipe.ProofsConversePc Pipe.ProofsConversePcSn Pipe.Converse Pipe.ConverseRank
  Pipe.ProofsConverse1 Pipe.ProofsConverse2.
Import ListNotations.
Open Scope string_scope.
Open Scope list_scope.

Ltac invo H q k := inversion H; try subst q; try subst k.

Lemma sn_rel_mkpure : forall fs fs' b x, sn_rel (SPure fs b) x -> sn_rel (mkpure fs' b) x.
Proof. intros fs fs' b x H. destruct fs'; destruct b; exact H. Qed.

Lemma take_pend_some : forall ord z pending og r,
  Forall (fun e : pend => snd e <> None) pending -> take_pend ord z pending = Some (og, r) -> exists g0, og = Some g0.
Proof.
  intros ord z pending og r HF H. apply take_pend_key in H. apply take_key_split in H.
  destruct H as (a & b & -> & _). apply Forall_app in HF. destruct HF as [_ HF]. inversion HF; subst.
  cbn in H1. destruct og; [eauto | congruence].
Qed.

Lemma fanout_cls : forall ts f, cls (kind_case (f_kind f)) (fst (fanout ts f)) (snd (fanout ts f)).
Proof.
  intros ts f. split.
  - unfold fanout. destruct (f_kind f); reflexivity.
  - intros H. now apply fanout_some.
Qed.

Lemma step_snap : forall cfg roles chans wgs s t p c g' ev,
  coh cfg roles chans wgs s -> s_panic s = None -> nth_error roles t = Some (RoSnap p) ->
  gstep P (MkG (map (th_of (c_targets cfg)) roles) chans wgs None) (ALocal t c) = Some (g', ev) ->
  choice_ok s (th_sn p) c ->
  exists s', rstep cfg roles s g' s'.
Proof.
  intros cfg roles chans wgs s t p c g' ev Hcoh Hpan Hn Hg Hch.
  destruct (coh_inv_late _ _ _ _ _ _ _ Hcoh Hn) as (pm & Hm & Hnd & He & Hmain & Hlate); [discriminate|].
  pose proof (lk_nth _ _ _ Hnd Hn) as Hlk. cbn [kind_of] in Hlk.
  assert (Hrel : sn_ok p /\ sn_rel p (s_sn s)).
  { destruct Hlate as (wch & wrest & prt & _ & _ & Hsn & _). unfold sn_clause in Hsn. rewrite Hlk in Hsn. tauto. }
  destruct Hrel as [Hok Hrel].
  pose proof (late_chans _ _ _ _ _ _ Hlate) as Hchans.
  pose proof (sn_spec p c 0 Hok) as Hspec.
  destruct (next_sn p c) as [[q k]|] eqn:En; destruct (tstep P c (th_sn p)) as [[q' th']|] eqn:Et;
    cbn [spec] in Hspec; try contradiction.
  2: { exfalso. eapply (no_local_step (c_targets cfg) roles chans wgs t c (RoSnap p)); eauto. }
  destruct Hspec as [-> Hpost].
  pose proof (local_effect (c_targets cfg) roles chans wgs t c (RoSnap p) q th' 0 (fun b => RoSnap (k b)) g' ev Hn Et Hpost) as Heff.
  pose proof (fun b => sn_ok_next p c q k b Hok En) as Hok'.
  (* a step that changes only the Snapper's component of the model state *)
  assert (Hupd : forall p' x chans', sn_ok p' -> sn_rel p' x ->
            chans' = hd false chans :: sn_is_closed x :: tl (tl chans) ->
            coh cfg (upd_nth t (RoSnap p') roles) chans' wgs (set_sn s x)).
  { intros p' x chans' Hp' Hx ->.
    eapply coh_upd; eauto; [discriminate|].
    eapply late_sn_upd; eauto. }
  assert (Htau : forall p',
            ((rank_sn p' < rank_sn p)%nat \/ exists fs fs' b, p = SPure fs b /\ p' = SPure fs' b) ->
            sn_ok p' -> sn_rel p' (s_sn s) ->
            exists s', rstep cfg roles s (MkG (map (th_of (c_targets cfg)) (upd_nth t (RoSnap p') roles)) chans wgs None) s').
  { intros p' Hrk Hp' Hx. exists s.
    assert (Es : set_sn s (s_sn s) = s) by (destruct s; reflexivity).
    assert (Ec : chans = hd false chans :: sn_is_closed (s_sn s) :: tl (tl chans)) by (rewrite Hchans; reflexivity).
    pose proof (Hupd p' (s_sn s) chans Hp' Hx Ec) as H. rewrite Es in H.
    apply rstep_silent; [exact H|]. destruct Hrk as [Hrk|(fs0 & fs1 & b0 & -> & ->)].
    - left. eapply rank_sum_upd; [exact Hn | exact Hrk].
    - right. exists t, fs0, fs1, b0. auto. }
  assert (Hlab : forall p' x l, sn_ok p' -> sn_rel p' x -> step_started cfg s l = Some (set_sn s x) ->
            sn_is_closed x = sn_is_closed (s_sn s) ->
            exists s', rstep cfg roles s (MkG (map (th_of (c_targets cfg)) (upd_nth t (RoSnap p') roles)) chans wgs None) s').
  { intros p' x l Hp' Hx Hl Hcl. exists (set_sn s x). apply (rstep_label _ _ _ _ _ l).
    - now rewrite (step_late _ _ _ pm Hpan Hmain).
    - apply skel_rel_intro; [exact Hpan|]. apply Hupd; auto. rewrite Hcl. rewrite Hchans; reflexivity. }
  destruct p; cbn [next_sn] in En;
    try (invo En q k; specialize (Heff I Hg); cbn [shared_effect K] in Heff; subst g';
         (apply Htau; [left; cbn; lia | |]); [exact (Hok' true) | cbn in Hrel |- *; solve [exact Hrel | eauto]]; fail).
  - (* SRv: receive on the closed featuresBefore *)
    invo En q k. specialize (Heff I Hg). cbn [shared_effect] in Heff. destruct Heff as [Hc ->].
    cbn in Hrel. rewrite Hchans in Hc. cbn in Hc. inversion Hc as [Hc0].
    apply (Hlab (SG false) SEof LSnapEof); [exact I | reflexivity | | now rewrite Hrel].
    cbn. rewrite Hrel. destruct (s_rd s); [discriminate | reflexivity | reflexivity].
  - (* SG *)
    destruct b; invo En q k; specialize (Heff I Hg); cbn [shared_effect K] in Heff; subst g';
      (apply Htau; [left; cbn; lia | |]); [exact I | exact Hrel | exact I | exact Hrel].
  - (* SC0: close(featuresOut) *)
    invo En q k. specialize (Heff I Hg). cbn [shared_effect K] in Heff. cbn in Hrel.
    destruct Heff as [[Hc ->]|[Hc _]]; [|rewrite Hchans, Hrel in Hc; discriminate].
    exists (set_sn s SLog). right. split.
    + exists LSnapClose. rewrite (step_late _ _ _ pm Hpan Hmain). cbn. now rewrite Hrel.
    + apply skel_rel_intro; [exact Hpan|]. apply Hupd; [exact I | reflexivity|]. rewrite Hchans; reflexivity.
  - (* SLg2 *)
    destruct c as [|[|]| | |]; try discriminate; invo En q k; specialize (Heff I Hg);
      cbn [shared_effect K] in Heff; subst g'; (apply Htau; [left; cbn; lia | |]); [exact I | exact Hrel | exact I | exact Hrel].
  - (* SLg6: return *)
    invo En q k. specialize (Heff I Hg). cbn [shared_effect K] in Heff. subst g'. cbn in Hrel.
    apply (Hlab SX SExit LSnapExit); [exact I | reflexivity | | now rewrite Hrel].
    cbn. now rewrite Hrel.
  - (* SX *) discriminate.
  - (* SP2: the type switch *)
    unfold choice_ok in Hch. cbn in Hch. cbn in Hrel. destruct Hrel as [f Hf]. rewrite Hf in Hch. subst c.
    destruct (kind_case (f_kind f)) as [|[|[|i]]] eqn:Ek; try discriminate; invo En q k;
      specialize (Heff I Hg); cbn [shared_effect K] in Heff; subst g'; (apply Htau; [left; cbn; lia | |]); try exact I; exists f; auto.
  - (* C0c *)
    destruct c as [|[|]| | |]; try discriminate; invo En q k; specialize (Heff I Hg);
      cbn [shared_effect K] in Heff; subst g'; (apply Htau; [left; cbn; lia | |]); [exact I | exact Hrel | exact I | exact Hrel].
  - (* C0f: the head statement of the send loop = LSnapCompute *)
    invo En q k. specialize (Heff I Hg). cbn [shared_effect K] in Heff. subst g'. cbn in Hrel.
    destruct Hrel as (f & Hf & Ek).
    apply (Hlab (SHd 0) (Model.SSend (f_id f) (fst (fanout (c_targets cfg) f)) (snd (fanout (c_targets cfg) f))) LSnapCompute).
    + cbn. lia.
    + cbn. do 3 eexists. split; [reflexivity|]. rewrite <- Ek. apply fanout_cls.
    + cbn. now rewrite Hf.
    + now rewrite Hf.
  - (* C1c *)
    destruct c as [|[|]| | |]; try discriminate; invo En q k; specialize (Heff I Hg);
      cbn [shared_effect K] in Heff; subst g'; (apply Htau; [left; cbn; lia | |]); [exact I | exact Hrel | exact I | exact Hrel].
  - (* C1f *)
    invo En q k. specialize (Heff I Hg). cbn [shared_effect K] in Heff. subst g'. cbn in Hrel.
    destruct Hrel as (f & Hf & Ek).
    apply (Hlab (SHd 1) (Model.SSend (f_id f) (fst (fanout (c_targets cfg) f)) (snd (fanout (c_targets cfg) f))) LSnapCompute).
    + cbn. lia.
    + cbn. do 3 eexists. split; [reflexivity|]. rewrite <- Ek. apply fanout_cls.
    + cbn. now rewrite Hf.
    + now rewrite Hf.
  - (* C2c *)
    invo En q k. specialize (Heff I Hg). cbn [shared_effect K] in Heff. subst g'. cbn in Hrel.
    destruct Hrel as (f & Hf & Ek).
    apply (Hlab (SHd 2) (Model.SSend (f_id f) (fst (fanout (c_targets cfg) f)) (snd (fanout (c_targets cfg) f))) LSnapCompute).
    + cbn. lia.
    + cbn. do 3 eexists. split; [reflexivity|]. rewrite <- Ek. apply fanout_cls.
    + cbn. now rewrite Hf.
    + now rewrite Hf.
  - (* SHd: the head of a send loop *)
    cbn in Hok. cbn in Hrel. destruct Hrel as (id & ord & pending & Hx & Hcls).
    assert (Hd : dpoint_of (th_sn (SHd j)) = DSnapHead) by (destruct j as [|[|[|j]]]; [reflexivity | reflexivity | reflexivity | lia]).
    unfold choice_ok in Hch. rewrite Hd, Hx in Hch.
    destruct c as [| | |[z|]|]; try discriminate.
    + (* next key *)
      destruct (take_pend ord z pending) as [[og r]|] eqn:Etp; [|congruence].
      destruct j as [|[|[|j]]]; [| | |lia]; invo En q k; specialize (Heff I Hg);
        cbn [shared_effect K] in Heff; subst g'; (apply Htau; [left; cbn; lia | |]); try exact I; try (cbn; lia).
      * destruct Hcls as [Hord _]. cbn in Hord. subst ord. cbn. exists id, pending, og, r. auto.
      * destruct Hcls as [Hord HF]. destruct (take_pend_some _ _ _ _ _ (HF ltac:(discriminate)) Etp) as [g0 ->].
        cbn. exists id, ord, pending, g0, r. repeat split; auto.
      * destruct Hcls as [Hord HF]. destruct (take_pend_some _ _ _ _ _ (HF ltac:(discriminate)) Etp) as [g0 ->].
        cbn. exists id, ord, pending, g0, r. repeat split; auto.
    + (* end of the loop = LSnapLoop *)
      subst pending.
      assert (Hl : step_started cfg s LSnapLoop = Some (set_sn s SRecv)) by (cbn; now rewrite Hx).
      destruct j as [|[|[|j]]]; [| | |lia]; invo En q k; specialize (Heff I Hg);
        cbn [shared_effect K] in Heff; subst g'; apply (Hlab SQ1 SRecv LSnapLoop); try exact I; try reflexivity; auto;
        now rewrite Hx.
  - (* I0b: `if len(newPolygons) == 0` *)
    unfold choice_ok in Hch. change (dpoint_of (th_sn (I0b z))) with (DIfEmpty (VKey z)) in Hch. cbv beta iota in Hch.
    cbn in Hrel. destruct Hrel as (id & pending & og & r & Hx & Etp & _).
    rewrite Hx, Etp in Hch. subst c.
    destruct og as [g0|]; cbn [is_none] in En; invo En q k; specialize (Heff I Hg);
      cbn [shared_effect K] in Heff; subst g'; (apply Htau; [left; cbn; lia | |]); try exact I; cbn; exists id, pending; eauto 8.
  - (* I0p: panic("no new polygon for level") = LSnapSend on an entry without polygons *)
    invo En q k. specialize (Heff I Hg). cbn [shared_effect] in Heff. cbn in Hrel.
    destruct Hrel as (id & pending & og & r & Hx & Etp & Hog). inversion Hog; subst og.
    exists (set_panic s (PanicNoPolygon z)). right. split.
    + exists (LSnapSend z). rewrite (step_late _ _ _ pm Hpan Hmain). cbn. rewrite Hx. now rewrite Etp.
    + apply skel_rel_panic; [exact Heff | discriminate].
  - (* I0d *)
    destruct c as [|[|]| | |]; try discriminate; invo En q k; specialize (Heff I Hg);
      cbn [shared_effect K] in Heff; subst g'; (apply Htau; [left; cbn; lia | |]); [exact I | exact Hrel | exact I | exact Hrel].
  - (* I0f *)
    invo En q k. specialize (Heff I Hg). cbn [shared_effect K] in Heff. subst g'.
    (apply Htau; [left; cbn; lia | |]); [cbn; lia|]. cbn in Hrel |- *. destruct Hrel as (id & pending & og & r & Hx & Etp & [g0 Hog]).
    inversion Hog; subst og. exists id, false, pending, g0, r. repeat split; auto. intros H; congruence.
  - (* IS: a send on the closed featuresAfter cannot happen *)
    cbn in Hok. destruct j as [|[|[|j]]]; [| | |lia]; invo En q k; specialize (Heff I Hg);
      cbn [shared_effect] in Heff; destruct Heff as [Hc _]; cbn in Hrel;
      destruct Hrel as (id & ord & pending & g0 & r & Hx & _); rewrite Hchans, Hx in Hc; discriminate.
  - (* IX *)
    cbn in Hok. destruct j as [|[|[|j]]]; [| | |lia]; invo En q k; specialize (Heff I Hg);
      cbn [shared_effect K] in Heff; subst g'; (apply Htau; [left; cbn; lia | |]); try (cbn; lia); exact Hrel.
  - (* SPure *)
    destruct fs as [|fr fs']; [discriminate|]. destruct (tstep P c [fr]) as [[q1 new]|]; [|discriminate].
    invo En q k. specialize (Heff I Hg). cbn [shared_effect K] in Heff. subst g'.
    apply Htau; [unfold K, mkpure; destruct (new ++ fs'); [left; destruct b; cbn; lia | right; eauto] | exact (Hok' true) | eapply sn_rel_mkpure; eauto].
Qed.
