(** * Pipe/ProofsConverse4.v — converse source tie, part 4: the steps a Writer takes on its own. *)
From Coq Require Import ZArith List String Bool Lia Permutation.
From Texel Require Import Pipe.Model Pipe.ProofsBase Pipe.ProofsInv Pipe.ProofsLive Pipe.Skeleton Pipe.SkeletonSem Pipe.SkeletonSim
  Pipe.ProofsSkeleton Pipe.ConversePc Pipe.ConversePcSn Pipe.ProofsConversePc Pipe.ProofsConversePcSn Pipe.Converse Pipe.ConverseRank
  Pipe.ProofsConverse1 Pipe.ProofsConverse2.
Import ListNotations.
Open Scope string_scope.
Open Scope list_scope.

Ltac invo H q k := inversion H; try subst q; try subst k.

(** ** Putting the late phase together *)

Lemma late_intro : forall cfg pm roles s wch wrest prt,
  sn_clause pm roles s -> rd_clause cfg pm roles s -> lk KRouter roles = Some (RoRouter prt) ->
  rt_rel (c_targets cfg) prt roles wch wrest (s_rt s) (s_wr s) (s_wgR s) ->
  late cfg pm roles (rd_is_closed (s_rd s) :: sn_is_closed (s_sn s) :: wch) (s_wgM s :: wrest) s.
Proof. intros. exists wch, wrest, prt. auto 10. Qed.

Lemma sn_clause_other : forall pm roles roles' s s', lk KSnap roles' = lk KSnap roles -> s_sn s' = s_sn s ->
  sn_clause pm roles s -> sn_clause pm roles' s'.
Proof. intros pm roles roles' s s' Hl Hs H. unfold sn_clause in *. now rewrite Hl, Hs. Qed.

Lemma rd_clause_other : forall cfg pm roles roles' s s', lk KRead roles' = lk KRead roles -> s_rd s' = s_rd s ->
  rd_clause cfg pm roles s -> rd_clause cfg pm roles' s'.
Proof. intros cfg pm roles roles' s s' Hl Hs H. unfold rd_clause in *. now rewrite Hl, Hs. Qed.

(** ** The Router's own part, by phase *)

Lemma allopen_repeat : forall n, allopen (repeat false n).
Proof. intros n. apply Forall_forall. intros b Hb. now apply repeat_spec in Hb. Qed.

Lemma rt_spawning_core : forall ts p done wch wrest rt ws wgR, rt_spawning p = true ->
  rt_core ts p done wch wrest rt ws wgR -> tinit rt ws wgR /\ allopen wch.
Proof.
  intros ts p done wch wrest rt ws wgR Hp H. destruct p; try discriminate; cbn [rt_core] in H.
  1-5: destruct H as (_ & Ht & -> & _); split; [exact Ht | constructor].
  all: destruct H as (rem & (Ht & _) & H); split; [exact Ht|];
    repeat match goal with H : _ /\ _ |- _ => destruct H as [? H] end; subst; apply allopen_repeat.
Qed.

Lemma rt_run_core : forall ts p done wch wrest rt ws wgR, rt_spawning p = false ->
  rt_core ts p done wch wrest rt ws wgR -> runcore ts done wch wrest ws wgR.
Proof.
  intros ts p done wch wrest rt ws wgR Hp H. destruct p; try discriminate; cbn [rt_core] in H;
    repeat match goal with
           | b : bool |- _ => destruct b
           | H : exists _, _ |- _ => destruct H as [? H]
           | H : _ /\ _ |- _ => destruct H as [? H]
           end; assumption.
Qed.

(** in the running phase the Router's part looks at the writers' keys and its wait group counter only *)
Lemma rt_core_run_upd : forall ts p done wch wrest rt ws wgR ws' wgR', rt_spawning p = false ->
  rt_core ts p done wch wrest rt ws wgR -> map w_tm ws' = map w_tm ws -> (wgR' = wgR \/ wgR <> 0%nat) ->
  rt_core ts p done wch [wgR'] rt ws' wgR'.
Proof.
  intros ts p done wch wrest rt ws wgR ws' wgR' Hp H Hm Hw.
  assert (Hrc : forall wr0, runcore ts done wch wr0 ws wgR -> runcore ts done wch [wgR'] ws' wgR').
  { intros wr0 (H1 & H2 & H3 & H4). repeat split; auto. now rewrite Hm. }
  destruct p; try discriminate; cbn [rt_core] in *;
    repeat match goal with
           | b : bool |- _ => destruct b
           | H : exists _, _ |- _ => destruct H as [? H]
           | H : _ /\ _ |- _ => destruct H as [? H]
           end;
    repeat match goal with
           | |- exists _, _ => eexists
           | |- _ /\ _ => split
           end; eauto; try (destruct Hw; congruence).
Qed.

(** ** Which Writer a role is *)

Lemma lk_writer_upd : forall roles t ro ro' n m, NoDup (map kind_of roles) -> nth_error roles t = Some ro ->
  kind_of ro = KWriter n -> kind_of ro' = KWriter n ->
  lk (KWriter m) (upd_nth t ro' roles) = if Nat.eqb m n then Some ro' else lk (KWriter m) roles.
Proof.
  intros roles t ro ro' n m Hnd Hn Hk Hk'. destruct (Nat.eqb_spec m n) as [->|Hne].
  - rewrite <- Hk. apply lk_upd_same; auto. congruence.
  - apply (lk_upd_other _ _ _ _ _ Hn); congruence.
Qed.

Lemma spawned_run : forall p done, rt_spawning p = false -> spawned p done = done.
Proof. intros p done H. destruct p; try discriminate; reflexivity. Qed.

Lemma writer_ident : forall roles t chm z v n pc p done wch ws,
  NoDup (map kind_of roles) -> nth_error roles t = Some (RoWriter chm z v n pc) -> wview p done roles wch ws ->
  exists i, n = (2 + i)%nat /\ nth_error (spawned p done) i = Some z /\ v = VAny
    /\ if rt_spawning p then prerecv pc = true
       else exists w, find_writer z ws = Some w /\ wr_rel pc (w_st w) /\ nth_error wch i = Some (w_closed w).
Proof.
  intros roles t chm z v n pc p done wch ws Hnd Hn [Hb Hv].
  pose proof (lk_nth _ _ _ Hnd Hn) as Hlk. cbn [kind_of] in Hlk.
  assert (Hin : In (KWriter n) (map kind_of roles)).
  { apply (in_map kind_of) in Hn || (apply nth_error_In in Hn; apply (in_map kind_of) in Hn). exact Hn. }
  apply Hb in Hin. exists (n - 2)%nat.
  assert (En : n = (2 + (n - 2))%nat) by lia. split; [exact En|].
  destruct (nth_error (spawned p done) (n - 2)) as [z'|] eqn:Ez; [|apply nth_error_None in Ez; lia].
  destruct (rt_spawning p) eqn:Ep.
  - destruct (Hv _ _ Ez) as (chm' & pc' & Hl & Hpre). rewrite <- En, Hlk in Hl. inversion Hl; subst. auto.
  - rewrite (spawned_run _ _ Ep) in Ez. destruct (Hv _ _ Ez) as (chm' & pc' & w & Hl & Hf & Hr & Hc).
    rewrite <- En, Hlk in Hl. inversion Hl; subst. split; [reflexivity|]. split; [reflexivity|].
    exists w. auto.
Qed.

Lemma nth_error_inj_nodup : forall {A} (l : list A) i j x, NoDup l -> nth_error l i = Some x -> nth_error l j = Some x -> i = j.
Proof.
  intros A l i j x Hnd Hi Hj. rewrite NoDup_nth_error in Hnd. apply Hnd; [apply nth_error_Some; congruence | congruence].
Qed.

(** a Writer moves and stays in front of its first receive *)
Lemma writers_pre_upd : forall sp roles t chm z v i pc pc',
  NoDup (map kind_of roles) -> nth_error roles t = Some (RoWriter chm z v (2 + i) pc) -> v = VAny ->
  nth_error sp i = Some z -> prerecv pc' = true ->
  writers_pre sp roles -> writers_pre sp (upd_nth t (RoWriter chm z v (2 + i) pc') roles).
Proof.
  intros sp roles t chm z v i pc pc' Hnd Hn -> Hz Hpre H j zj Hj.
  rewrite (lk_writer_upd _ _ _ (RoWriter chm z VAny (2 + i) pc') (2 + i) (2 + j) Hnd Hn eq_refl eq_refl).
  destruct (Nat.eqb_spec (2 + j) (2 + i)) as [E|E].
  - assert (Eji : j = i) by lia. rewrite Eji in Hj |- *. pose proof (eq_trans (eq_sym Hj) Hz) as Hzz. inversion Hzz; subst zj. eauto.
  - exact (H j zj Hj).
Qed.

(** a Writer moves; its model writer becomes [w'] *)
Lemma writers_run_upd : forall done roles wch ws ws' t chm z v i pc pc' w',
  NoDup (map kind_of roles) -> NoDup done -> nth_error roles t = Some (RoWriter chm z v (2 + i) pc) -> v = VAny ->
  nth_error done i = Some z ->
  find_writer z ws' = Some w' -> wr_rel pc' (w_st w') -> nth_error wch i = Some (w_closed w') ->
  (forall z', z' <> z -> find_writer z' ws' = find_writer z' ws) ->
  writers_run done roles wch ws -> writers_run done (upd_nth t (RoWriter chm z v (2 + i) pc') roles) wch ws'.
Proof.
  intros done roles wch ws ws' t chm z v i pc pc' w' Hnd Hndd Hn -> Hz Hf Hr Hc Hoth H j zj Hj.
  rewrite (lk_writer_upd _ _ _ (RoWriter chm z VAny (2 + i) pc') (2 + i) (2 + j) Hnd Hn eq_refl eq_refl).
  destruct (Nat.eqb_spec (2 + j) (2 + i)) as [E|E].
  - assert (Eji : j = i) by lia. rewrite Eji in Hj |- *. pose proof (eq_trans (eq_sym Hj) Hz) as Hzz. inversion Hzz; subst zj. exists chm, pc', w'. auto.
  - destruct (H j zj Hj) as (chm' & pcj & w & Hl & Hfw & Hrw & Hcw). exists chm', pcj, w.
    rewrite Hoth; [auto|]. intros ->. apply E. f_equal. eapply nth_error_inj_nodup; eauto.
Qed.

Lemma writers_bound_upd : forall n roles t ro ro', nth_error roles t = Some ro -> kind_of ro' = kind_of ro ->
  writers_bound n roles -> writers_bound n (upd_nth t ro' roles).
Proof. intros n roles t ro ro' Hn Hk H m Hm. rewrite (kinds_upd _ _ _ _ Hn Hk) in Hm. now apply H. Qed.

Lemma nth_chans_writer : forall (c0 c1 : bool) wch i, nth_error (c0 :: c1 :: wch) (2 + i) = nth_error wch i.
Proof. reflexivity. Qed.

Lemma allopen_nth : forall wch i b, allopen wch -> nth_error wch i = Some b -> b = false.
Proof. intros wch i b H Hn. apply nth_error_In in Hn. unfold allopen in H. rewrite Forall_forall in H. now apply H. Qed.

(** ** The Writers *)

Lemma step_writer : forall cfg roles chans wgs s t chm z v n pc c g' ev,
  NoDup (c_targets cfg) ->
  coh cfg roles chans wgs s -> s_panic s = None -> nth_error roles t = Some (RoWriter chm z v n pc) ->
  gstep P (MkG (map (th_of (c_targets cfg)) roles) chans wgs None) (ALocal t c) = Some (g', ev) ->
  exists s', rstep cfg roles s g' s'.
Proof.
  intros cfg roles chans wgs s t chm z v n pc c g' ev Hndts Hcoh Hpan Hn Hg.
  destruct (coh_inv_late _ _ _ _ _ _ _ Hcoh Hn) as (pm & Hm & Hnd & He & Hmain & Hlate); [discriminate|].
  destruct Hlate as (wch & wrest & prt & Hch & Hwg & Hsn & Hrd & Hrt & (done & Hcore & Hview)).
  destruct (writer_ident _ _ _ _ _ _ _ _ _ _ _ Hnd Hn Hview) as (i & -> & Hsp & -> & Hphase).
  pose proof (wr_spec (c_targets cfg) chm z VAny (2 + i) pc c 0) as Hspec.
  destruct (next_wr (2 + i) pc c) as [[q k]|] eqn:En;
    destruct (tstep P c (th_wr (c_targets cfg) chm z VAny (2 + i) pc)) as [[q' th']|] eqn:Et;
    cbn [spec] in Hspec; try contradiction.
  2: { exfalso. eapply (no_local_step (c_targets cfg) roles chans wgs t c (RoWriter chm z VAny (2 + i) pc)); eauto. }
  destruct Hspec as [-> Hpost].
  pose proof (local_effect (c_targets cfg) roles chans wgs t c (RoWriter chm z VAny (2 + i) pc) q th' 0
                (fun b => RoWriter chm z VAny (2 + i) (k b)) g' ev Hn Et Hpost) as Heff.
  set (ro' := fun pc' => RoWriter chm z VAny (2 + i) pc').
  (* the parts of the relation a Writer's step cannot touch *)
  assert (Hrest : forall pc' s', s_sn s' = s_sn s -> s_rd s' = s_rd s ->
            sn_clause pm (upd_nth t (ro' pc') roles) s' /\ rd_clause cfg pm (upd_nth t (ro' pc') roles) s'
            /\ lk KRouter (upd_nth t (ro' pc') roles) = Some (RoRouter prt)).
  { intros pc' s' E1 E2. split; [|split].
    - eapply sn_clause_other; [|exact E1|exact Hsn]. apply (lk_upd_other _ _ _ (ro' pc') KSnap Hn eq_refl). discriminate.
    - eapply rd_clause_other; [|exact E2|exact Hrd]. apply (lk_upd_other _ _ _ (ro' pc') KRead Hn eq_refl). discriminate.
    - rewrite (lk_upd_other _ _ _ (ro' pc') KRouter Hn eq_refl) by discriminate. exact Hrt. }
  destruct (rt_spawning prt) eqn:Ep.
  - (* the Router is still in its spawn loop: the Writer is in front of its first receive *)
    destruct (rt_spawning_core _ _ _ _ _ _ _ _ Ep Hcore) as [_ Hopen].
    assert (Htau : forall pc', prerecv pc' = true ->
              coh cfg (upd_nth t (ro' pc') roles) chans wgs s).
    { intros pc' Hpre.
      eapply coh_upd; eauto; [discriminate|]. subst chans wgs.
      destruct (Hrest pc' s eq_refl eq_refl) as (H1 & H2 & H3).
      apply (late_intro cfg pm _ s wch wrest prt H1 H2 H3). exists done. split; [exact Hcore|].
      destruct Hview as [Hb Hv]. split; [eapply writers_bound_upd; eauto|].
      rewrite Ep in *. eapply writers_pre_upd; eauto. }
    destruct pc; try discriminate Hphase; cbn [next_wr] in En; invo En q k; specialize (Heff I Hg);
      cbn [shared_effect K] in Heff.
    1-4: subst g'; exists s; (apply rstep_silent; [apply Htau; reflexivity | left; eapply rank_sum_upd; [exact Hn | cbn; lia]]).
    destruct Heff as [Hc _]. subst chans. change (nth_error wch i = Some true) in Hc.
    pose proof (allopen_nth _ _ _ Hopen Hc). discriminate.
  - (* the Router has left its spawn loop *)
    destruct Hphase as (w & Hfw & Hwr & Hwc).
    rewrite (spawned_run _ _ Ep) in Hsp.
    pose proof (rt_run_core _ _ _ _ _ _ _ _ Ep Hcore) as (Hperm & Hwrest & Hlen & Hkeys).
    assert (Hndd : NoDup done) by (eapply Permutation_NoDup; [apply Permutation_sym; exact Hperm | exact Hndts]).
    assert (Hgo : forall pc' ws' wgR' w',
              find_writer z ws' = Some w' -> wr_rel pc' (w_st w') -> w_closed w' = w_closed w ->
              (forall z', z' <> z -> find_writer z' ws' = find_writer z' (s_wr s)) ->
              map w_tm ws' = map w_tm (s_wr s) -> (wgR' = s_wgR s \/ s_wgR s <> 0%nat) ->
              coh cfg (upd_nth t (ro' pc') roles) chans (s_wgM s :: [wgR']) (set_wgR (set_wr s ws') wgR')).
    { intros pc' ws' wgR' w' H1 H2 H3 H4 H5 H6.
      eapply coh_upd; eauto; [discriminate|]. subst chans.
      destruct (Hrest pc' (set_wgR (set_wr s ws') wgR') eq_refl eq_refl) as (R1 & R2 & R3).
      apply (late_intro cfg pm _ (set_wgR (set_wr s ws') wgR') wch [wgR'] prt R1 R2 R3). cbn [s_rt s_wr s_wgR set_wgR set_wr].
      exists done. split; [eapply rt_core_run_upd; eauto|].
      destruct Hview as [Hb Hv]. split; [eapply writers_bound_upd; eauto|].
      rewrite Ep in *. eapply writers_run_upd; eauto. now rewrite H3. }
    assert (Htau : forall pc', (rank_wr pc' < rank_wr pc)%nat -> wr_rel pc' (w_st w) ->
              exists s', rstep cfg roles s (MkG (map (th_of (c_targets cfg)) (upd_nth t (ro' pc') roles)) chans wgs None) s').
    { intros pc' Hrk Hr. exists s.
      pose proof (Hgo pc' (s_wr s) (s_wgR s) w Hfw Hr eq_refl (fun _ _ => eq_refl) eq_refl (or_introl eq_refl)) as H.
      replace (set_wgR (set_wr s (s_wr s)) (s_wgR s)) with s in H by (destruct s; reflexivity).
      subst wgs wrest. apply rstep_silent; [exact H|]. left. eapply rank_sum_upd; [exact Hn | exact Hrk]. }
    assert (Hupd : forall g0, (forall x, w_tm (g0 x) = w_tm x) ->
              (forall z', z' <> z -> find_writer z' (upd_writer z g0 (s_wr s)) = find_writer z' (s_wr s))
              /\ map w_tm (upd_writer z g0 (s_wr s)) = map w_tm (s_wr s)
              /\ find_writer z (upd_writer z g0 (s_wr s)) = Some (g0 w)).
    { intros g0 Hg0. split; [|split].
      - intros z' Hz'. now apply find_upd_other.
      - now apply map_tm_upd.
      - rewrite find_upd_same by exact Hg0. now rewrite Hfw. }
    destruct pc; cbn [next_wr] in En; cbn [wr_rel] in Hwr;
      try (invo En q k; specialize (Heff I Hg); cbn [shared_effect K] in Heff; subst g';
           apply Htau; [cbn; lia | cbn [wr_rel]; solve [exact Hwr | eauto]]; fail).
    + (* WRv: receive on the closed channel = LWriterEof *)
      invo En q k. specialize (Heff I Hg). cbn [shared_effect] in Heff. destruct Heff as [Hc ->].
      subst chans. change (nth_error wch i = Some true) in Hc. rewrite Hwc in Hc. inversion Hc as [Hcl].
      destruct (Hupd (w_set_st WFin) (fun _ => eq_refl)) as (U1 & U2 & U3).
      exists (set_wr s (upd_writer z (w_set_st WFin) (s_wr s))). right. split.
      * exists (LWriterEof z). rewrite (step_late _ _ _ pm Hpan Hmain). cbn. rewrite Hfw, Hwr, Hcl. reflexivity.
      * apply skel_rel_intro; [exact Hpan|]. pose proof (Hgo (WG false) _ (s_wgR s) _ U3 eq_refl eq_refl U1 U2 (or_introl eq_refl)) as H.
        replace (set_wgR (set_wr s (upd_writer z (w_set_st WFin) (s_wr s))) (s_wgR s))
          with (set_wr s (upd_writer z (w_set_st WFin) (s_wr s))) in H by (destruct s; reflexivity).
        subst wgs wrest. exact H.
    + (* WG *)
      destruct b; invo En q k; specialize (Heff I Hg); cbn [shared_effect K] in Heff; subst g'; (apply Htau; [cbn; lia | exact Hwr]).
    + (* WH: handle(feature) = LRecv *)
      invo En q k. specialize (Heff I Hg). cbn [shared_effect K] in Heff. subst g'. destruct Hwr as [m Hm0].
      destruct (Hupd (w_handle m) (fun _ => eq_refl)) as (U1 & U2 & U3).
      exists (set_wr s (upd_writer z (w_handle m) (s_wr s))). right. split.
      * exists (LRecv z m). rewrite (step_late _ _ _ pm Hpan Hmain). cbn. rewrite Hfw, Hm0, msg_eqb_refl. reflexivity.
      * apply skel_rel_intro; [exact Hpan|]. pose proof (Hgo WS _ (s_wgR s) _ U3 eq_refl eq_refl U1 U2 (or_introl eq_refl)) as H.
        replace (set_wgR (set_wr s (upd_writer z (w_handle m) (s_wr s))) (s_wgR s))
          with (set_wr s (upd_writer z (w_handle m) (s_wr s))) in H by (destruct s; reflexivity).
        subst wgs wrest. exact H.
    + (* WF4: the deferred wg.Done() = LFinish *)
      invo En q k. specialize (Heff I Hg). cbn [shared_effect K] in Heff.
      subst wgs wrest. cbn [nth_error] in Heff.
      destruct Heff as [(v0 & Hv0 & ->)|[Hv0 Hp]]; inversion Hv0 as [Hw0].
      * destruct (Hupd (w_set_st WDone) (fun _ => eq_refl)) as (U1 & U2 & U3).
        exists (set_wgR (set_wr s (upd_writer z (w_set_st WDone) (s_wr s))) v0). right. split.
        -- exists (LFinish z). rewrite (step_late _ _ _ pm Hpan Hmain). cbn. rewrite Hfw, Hwr, Hw0. reflexivity.
        -- cbn [upd_nth]. apply skel_rel_intro; [exact Hpan|]. apply (Hgo WF5 _ v0 _ U3 eq_refl eq_refl U1 U2). right. lia.
      * exists (set_panic s PanicWaitGroup). right. split.
        -- exists (LFinish z). rewrite (step_late _ _ _ pm Hpan Hmain). cbn. rewrite Hfw, Hwr, Hw0. reflexivity.
        -- apply skel_rel_panic; [exact Hp | discriminate].
    + (* WF6 *) discriminate.
Qed.
