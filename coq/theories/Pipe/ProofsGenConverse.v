(** * Pipe/ProofsGenConverse.v — the converse source tie stated of the REGENERATED skeleton (coq/gen/PipeGen.v):
      every step / run of the skeleton semantics of [program gen_pipe_skeleton] whose data choices follow the coupled
      model state is matched by the model of Pipe/Model.v; no deadlock, no panic, no goroutine left, delivery. *)
From Coq Require Import ZArith NArith List String Bool Lia.
From Texel Require Import Pipe.Model Pipe.ProofsBase Pipe.ProofsInv Pipe.ProofsLive Pipe.Skeleton Pipe.SkeletonSem Pipe.SkeletonSim
  Pipe.ProofsSkeleton Pipe.ProofsGenSkeleton Pipe.Converse Pipe.ConverseRank Pipe.ProofsConverse8 Pipe.ProofsConverse9 Pipe.ProofsConverse11 Pipe.ProofsConverse12 Pipe.ConversePc.
From Texel.Gen Require Import PipeGen.
Import ListNotations.
Open Scope list_scope.

Definition Pg : list func := program gen_pipe_skeleton.

Theorem gen_rel_init : forall cfg, skel_rel cfg (ginit Pg (c_targets cfg)) (init cfg).
Proof. unfold Pg. rewrite gen_program. exact skel_rel_init. Qed.

Theorem gen_conv_step : forall cfg g s a g' ev, NoDup (c_targets cfg) ->
  skel_rel cfg g s -> gstep Pg g a = Some (g', ev) -> data_ok s g a ->
  exists s', mstep cfg s s' /\ skel_rel cfg g' s'.
Proof. unfold Pg. rewrite gen_program. exact conv_step. Qed.

Theorem gen_crun_extend : forall cfg acts evs g1 s1 a g2 ev, NoDup (c_targets cfg) ->
  crun Pg cfg (ginit Pg (c_targets cfg)) (init cfg) acts evs g1 s1 -> gstep Pg g1 a = Some (g2, ev) -> data_ok s1 g1 a ->
  exists s2, crun Pg cfg (ginit Pg (c_targets cfg)) (init cfg) (acts ++ [a]) (evs ++ ev) g2 s2.
Proof.
  unfold Pg. rewrite gen_program. intros cfg acts evs g1 s1 a g2 ev Hnd Hc Hg Hd.
  eapply crun_extend; eauto. apply skel_rel_init.
Qed.

Theorem gen_skeleton_run_is_model_run : forall cfg acts evs g s,
  crun Pg cfg (ginit Pg (c_targets cfg)) (init cfg) acts evs g s ->
  grun Pg (ginit Pg (c_targets cfg)) acts = Some (g, evs)
  /\ (exists ls, exec cfg (init cfg) ls s /\ (List.length ls <= List.length acts)%nat)
  /\ skel_rel cfg g s.
Proof. unfold Pg. rewrite gen_program. exact skeleton_run_is_model_run. Qed.

Theorem gen_gfinal_final : forall cfg g s, skel_rel cfg g s -> gfinal g = true -> final s = true.
Proof. exact gfinal_final. Qed.

Theorem gen_skeleton_no_panic : forall cfg acts evs g s, wf_config cfg ->
  crun Pg cfg (ginit Pg (c_targets cfg)) (init cfg) acts evs g s -> g_panic g = None.
Proof. unfold Pg. rewrite gen_program. exact skeleton_no_panic. Qed.

Theorem gen_skeleton_final_delivery : forall cfg acts evs g s, wf_config cfg ->
  crun Pg cfg (ginit Pg (c_targets cfg)) (init cfg) acts evs g s -> gfinal g = true ->
  s = final_state cfg /\ forall i, In i (c_targets cfg) -> recvd i s = expected cfg i /\ finished i s = true.
Proof. unfold Pg. rewrite gen_program. exact skeleton_final_delivery. Qed.

Theorem gen_skeleton_no_deadlock : forall cfg acts evs g s, wf_config cfg ->
  crun Pg cfg (ginit Pg (c_targets cfg)) (init cfg) acts evs g s -> gfinal g = false ->
  exists a g1 ev, gstep Pg g a = Some (g1, ev) /\ data_ok s g a.
Proof.
  unfold Pg. rewrite gen_program. intros cfg acts evs g s Hwf Hc Hf.
  destruct (skeleton_run_is_model_run _ _ _ _ _ Hc) as (_ & _ & Hrel).
  exact (skel_progress cfg g s Hwf (crun_reachable _ _ _ _ _ Hc) Hrel Hf).
Qed.

(** a coupled run that cannot be continued has ended: every goroutine has returned, every target has its features *)
Theorem gen_skeleton_stuck_is_final : forall cfg acts evs g s, wf_config cfg ->
  crun Pg cfg (ginit Pg (c_targets cfg)) (init cfg) acts evs g s ->
  (forall a g1 ev, gstep Pg g a = Some (g1, ev) -> ~ data_ok s g a) ->
  gfinal g = true /\ s = final_state cfg.
Proof.
  intros cfg acts evs g s Hwf Hc Hstuck. destruct (gfinal g) eqn:Ef.
  - split; [reflexivity|]. exact (proj1 (gen_skeleton_final_delivery cfg acts evs g s Hwf Hc Ef)).
  - exfalso. destruct (gen_skeleton_no_deadlock cfg acts evs g s Hwf Hc Ef) as (a & g1 & ev & Hg & Hd). exact (Hstuck a g1 ev Hg Hd).
Qed.

(** coupled runs exist, of every length up to the end: the hypotheses of the theorems above are satisfiable *)
Theorem gen_coupled_runs_exist : forall cfg n, wf_config cfg ->
  exists acts evs g s, crun Pg cfg (ginit Pg (c_targets cfg)) (init cfg) acts evs g s
                       /\ (List.length acts = n \/ gfinal g = true).
Proof.
  intros cfg n Hwf. induction n as [|n IH].
  - exists [], [], (ginit Pg (c_targets cfg)), (init cfg). split; [constructor | now left].
  - destruct IH as (acts & evs & g & s & Hc & [Hl|Hf]); [|exists acts, evs, g, s; auto].
    destruct (gfinal g) eqn:Ef; [exists acts, evs, g, s; auto|].
    destruct (gen_skeleton_no_deadlock cfg acts evs g s Hwf Hc Ef) as (a & g1 & ev & Hg & Hd).
    destruct (gen_crun_extend cfg acts evs g s a g1 ev (proj1 Hwf) Hc Hg Hd) as (s2 & Hc2).
    exists (acts ++ [a]), (evs ++ ev), g1, s2. split; [exact Hc2|]. left. rewrite app_length. cbn. lia.
Qed.

(** the model execution matched to a coupled run obeys the model's bound on the number of steps *)
Theorem gen_model_steps_bounded : forall cfg acts evs g s,
  crun Pg cfg (ginit Pg (c_targets cfg)) (init cfg) acts evs g s ->
  exists ls, exec cfg (init cfg) ls s /\ (List.length ls <= measure cfg (init cfg))%nat.
Proof.
  intros cfg acts evs g s H. destruct (gen_skeleton_run_is_model_run cfg acts evs g s H) as (_ & (ls & Hl & _) & _).
  exists ls. split; [exact Hl | exact (exec_length_bound cfg _ _ _ Hl)].
Qed.

(** ** Termination: ranked coupled runs (Pipe/ConverseRank.v) *)

Theorem gen_rrun_is_crun : forall cfg acts k R2 C2 W2 s2,
  rrun Pg cfg [RoMain M0] [] [] (init cfg) acts k R2 C2 W2 s2 ->
  exists evs, crun Pg cfg (ginit Pg (c_targets cfg)) (init cfg) acts evs (gst (c_targets cfg) R2 C2 W2) s2.
Proof. unfold Pg. rewrite gen_program. intros cfg acts k R2 C2 W2 s2 H. exact (rrun_crun _ _ _ _ _ _ _ _ _ _ _ H). Qed.

Theorem gen_rrun_extend : forall cfg acts k R2 C2 W2 s2 a g3 ev, wf_config cfg ->
  rrun Pg cfg [RoMain M0] [] [] (init cfg) acts k R2 C2 W2 s2 ->
  gstep Pg (gst (c_targets cfg) R2 C2 W2) a = Some (g3, ev) -> data_ok s2 (gst (c_targets cfg) R2 C2 W2) a ->
  exists R3 C3 W3 s3 pure, g3 = gst (c_targets cfg) R3 C3 W3
                           /\ rrun Pg cfg [RoMain M0] [] [] (init cfg) (acts ++ [a]) (k + Nat.b2n pure) R3 C3 W3 s3.
Proof. unfold Pg. rewrite gen_program. exact rrun_extend. Qed.

Theorem gen_rrun_bound : forall cfg acts k R2 C2 W2 s2,
  rrun Pg cfg [RoMain M0] [] [] (init cfg) acts k R2 C2 W2 s2 ->
  (List.length acts <= k + (8 + 3 * List.length (c_targets cfg))
                       + (33 + 17 * List.length (c_targets cfg)) * measure cfg (init cfg))%nat.
Proof.
  unfold Pg. rewrite gen_program. intros cfg acts k R2 C2 W2 s2 H.
  pose proof (rrun_bound _ _ _ _ _ _ _ _ _ _ _ H) as Hb. unfold rank_bound in Hb.
  change (rank_sum (c_targets cfg) [RoMain M0]) with (8 + 3 * List.length (c_targets cfg) + 0)%nat in Hb. lia.
Qed.

(** the model state coupled to a run of the skeleton semantics is a reachable state of the model: every theorem about
    reachable model states (Properties/C10.v, C11.v) holds of it *)
Theorem gen_crun_reachable : forall cfg acts evs g s,
  crun Pg cfg (ginit Pg (c_targets cfg)) (init cfg) acts evs g s -> reachable cfg s /\ skel_rel cfg g s.
Proof.
  intros cfg acts evs g s H. destruct (gen_skeleton_run_is_model_run cfg acts evs g s H) as (_ & (ls & Hl & _) & Hr).
  split; [now exists ls | exact Hr].
Qed.
