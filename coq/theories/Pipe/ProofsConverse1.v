(** * Pipe/ProofsConverse1.v — converse source tie, part 1: roles in a list of goroutines, what a local step of the
      skeleton semantics does to the shared state, and the parts of the relation that do not look at a changed role. *)
From Coq Require Import ZArith List String Bool Lia Permutation.
From Texel Require Import Pipe.Model Pipe.ProofsBase Pipe.Skeleton Pipe.SkeletonSem Pipe.SkeletonSim Pipe.ProofsSkeleton
  Pipe.ConversePc Pipe.ConversePcSn Pipe.ProofsConversePc Pipe.ProofsConversePcSn Pipe.Converse.
Import ListNotations.
Open Scope string_scope.
Open Scope list_scope.

(** ** Kinds and lookups *)

Lemma kind_eqb_eq : forall a b, kind_eqb a b = true <-> a = b.
Proof.
  intros a b. destruct a, b; cbn; try (split; [discriminate | congruence]); try tauto.
  rewrite Nat.eqb_eq. split; congruence.
Qed.

Lemma kind_eqb_refl : forall a, kind_eqb a a = true.
Proof. intros a. now apply kind_eqb_eq. Qed.

Lemma kind_eqb_neq : forall a b, a <> b -> kind_eqb a b = false.
Proof. intros a b H. destruct (kind_eqb a b) eqn:E; [apply kind_eqb_eq in E; congruence | reflexivity]. Qed.

Lemma lk_some_kind : forall k roles ro, lk k roles = Some ro -> kind_of ro = k /\ In ro roles.
Proof.
  intros k roles ro H. unfold lk in H. apply find_some in H. destruct H as [Hi He]. apply kind_eqb_eq in He. auto.
Qed.

Lemma lk_none : forall k roles, lk k roles = None <-> ~ In k (map kind_of roles).
Proof.
  intros k roles. unfold lk. induction roles as [|r rs IH]; cbn; [tauto|].
  destruct (kind_eqb (kind_of r) k) eqn:E.
  - apply kind_eqb_eq in E. split; [discriminate | intros H; exfalso; apply H; now left].
  - rewrite IH. assert (kind_of r <> k) by (intros E2; rewrite E2, kind_eqb_refl in E; discriminate). tauto.
Qed.

Lemma lk_nth : forall roles t ro, NoDup (map kind_of roles) -> nth_error roles t = Some ro -> lk (kind_of ro) roles = Some ro.
Proof.
  unfold lk. induction roles as [|r rs IH]; intros [|t] ro Hnd Hn; cbn in *; try discriminate.
  - inversion Hn; subst. now rewrite kind_eqb_refl.
  - inversion Hnd; subst. destruct (kind_eqb (kind_of r) (kind_of ro)) eqn:E.
    + apply kind_eqb_eq in E. exfalso. apply H1. rewrite E. apply in_map. eapply nth_error_In; eauto.
    + eapply IH; eauto.
Qed.

Lemma kinds_upd : forall roles t ro ro', nth_error roles t = Some ro -> kind_of ro' = kind_of ro ->
  map kind_of (upd_nth t ro' roles) = map kind_of roles.
Proof.
  induction roles as [|r rs IH]; intros [|t] ro ro' Hn Hk; cbn in *; try discriminate.
  - inversion Hn; subst. now rewrite Hk.
  - f_equal. eapply IH; eauto.
Qed.

Lemma lk_upd_other : forall roles t ro ro' k, nth_error roles t = Some ro -> kind_of ro' = kind_of ro -> k <> kind_of ro ->
  lk k (upd_nth t ro' roles) = lk k roles.
Proof.
  unfold lk. induction roles as [|r rs IH]; intros [|t] ro ro' k Hn Hk Hne; cbn in *; try discriminate.
  - inversion Hn; subst. rewrite Hk. rewrite kind_eqb_neq by congruence. reflexivity.
  - destruct (kind_eqb (kind_of r) k); [reflexivity|]. eapply IH; eauto.
Qed.

Lemma lk_upd_same : forall roles t ro ro', NoDup (map kind_of roles) -> nth_error roles t = Some ro -> kind_of ro' = kind_of ro ->
  lk (kind_of ro) (upd_nth t ro' roles) = Some ro'.
Proof.
  intros roles t ro ro' Hnd Hn Hk. rewrite <- Hk.
  apply (lk_nth (upd_nth t ro' roles) t ro').
  - rewrite (kinds_upd _ _ _ _ Hn Hk). exact Hnd.
  - apply nth_error_upd_nth_same. eapply nth_error_lt; eauto.
Qed.

Lemma lk_app : forall k roles ro, lk k (roles ++ [ro]) =
  match lk k roles with Some x => Some x | None => if kind_eqb (kind_of ro) k then Some ro else None end.
Proof.
  intros k roles ro. unfold lk. induction roles as [|r rs IH]; cbn; [reflexivity|].
  destruct (kind_eqb (kind_of r) k); [reflexivity | exact IH].
Qed.

Lemma nth_map_inv : forall {A B} (f : A -> B) l t y, nth_error (map f l) t = Some y -> exists x, nth_error l t = Some x /\ y = f x.
Proof.
  intros A B f l. induction l as [|a l IH]; intros [|t] y H; cbn in *; try discriminate.
  - inversion H; subst. eauto.
  - eauto.
Qed.

(** ** What a local step does to the shared state *)

Definition panicked (g : gstate) : Prop := g_panic g <> None.

Definition shared_effect (ts : list tmid) (q : req) (roles : list role) (chans : list bool) (wgs : list nat)
  (t : nat) (k : bool -> role) (g' : gstate) : Prop :=
  let ths b := map (th_of ts) (upd_nth t (k b) roles) in
  match q with
  | QTau | QExit => g' = MkG (ths true) chans wgs None
  | QNewChan _ => g' = MkG (ths true) (chans ++ [false]) wgs None
  | QNewWg _ => g' = MkG (ths true) chans (wgs ++ [0%nat]) None
  | QWgAdd w m => exists v, nth_error wgs w = Some v /\ g' = MkG (ths true) chans (upd_nth w (v + m)%nat wgs) None
  | QWgDone w => (exists v, nth_error wgs w = Some (S v) /\ g' = MkG (ths true) chans (upd_nth w v wgs) None)
                 \/ (nth_error wgs w = Some 0%nat /\ panicked g')
  | QWgWait w => nth_error wgs w = Some 0%nat /\ g' = MkG (ths true) chans wgs None
  | QGo th2 => g' = MkG (ths true ++ [th2]) chans wgs None
  | QSend c0 => nth_error chans c0 = Some true /\ panicked g'
  | QRecv c0 _ _ => nth_error chans c0 = Some true /\ g' = MkG (ths false) chans wgs None
  | QClose c0 => (nth_error chans c0 = Some false /\ g' = MkG (ths true) (upd_nth c0 true chans) wgs None)
                 \/ (nth_error chans c0 = Some true /\ panicked g')
  | QPanic _ => panicked g'
  end.

Definition fresh_ok (q : req) (n : nat) (chans : list bool) (wgs : list nat) : Prop :=
  match q with
  | QNewChan _ => n = List.length chans
  | QNewWg _ => n = List.length wgs
  | _ => True
  end.

Lemma local_effect : forall ts roles chans wgs t c ro q th' n (k : bool -> role) g' ev,
  nth_error roles t = Some ro ->
  tstep P c (th_of ts ro) = Some (q, th') ->
  (forall b, post q th' n b = th_of ts (k b)) ->
  fresh_ok q n chans wgs ->
  gstep P (MkG (map (th_of ts) roles) chans wgs None) (ALocal t c) = Some (g', ev) ->
  shared_effect ts q roles chans wgs t k g'.
Proof.
  intros ts roles chans wgs t c ro q th' n k g' ev Hn Ht Hpost Hfresh Hg.
  unfold gstep in Hg. cbn [g_panic g_threads g_chans g_wgs] in Hg.
  rewrite (map_nth_error (th_of ts) _ _ Hn), Ht in Hg.
  assert (Hu : forall b, upd_nth t (th_of ts (k b)) (map (th_of ts) roles) = map (th_of ts) (upd_nth t (k b) roles))
    by (intros b; now rewrite map_upd_nth).
  unfold shared_effect, gpanic, panicked in *.
  destruct q; cbn [post fresh_ok] in *.
  - inversion Hg; subst. now rewrite <- Hu, <- Hpost.
  - inversion Hg; subst. now rewrite <- Hu, <- Hpost.
  - inversion Hg; subst. now rewrite <- Hu, <- Hpost.
  - inversion Hg; subst. now rewrite <- Hu, <- Hpost.
  - destruct (nth_error wgs w) as [v|]; [|discriminate]. inversion Hg; subst. exists v. now rewrite <- Hu, <- Hpost.
  - destruct (nth_error wgs w) as [[|v]|]; [| |discriminate]; inversion Hg; subst.
    + right. split; [reflexivity | cbn; discriminate].
    + left. exists v. now rewrite <- Hu, <- Hpost.
  - destruct (nth_error wgs w) as [[|v]|]; try discriminate. inversion Hg; subst. now rewrite <- Hu, <- Hpost.
  - inversion Hg; subst. now rewrite <- Hu, <- Hpost.
  - destruct (nth_error chans c0) as [[|]|]; try discriminate. inversion Hg; subst. split; [reflexivity | cbn; discriminate].
  - destruct (nth_error chans c0) as [[|]|]; try discriminate. inversion Hg; subst. split; [reflexivity|].
    now rewrite <- Hu, <- Hpost.
  - destruct (nth_error chans c0) as [[|]|]; try discriminate; inversion Hg; subst.
    + right. split; [reflexivity | cbn; discriminate].
    + left. split; [reflexivity|]. now rewrite <- Hu, <- Hpost.
  - inversion Hg; subst. cbn. discriminate.
Qed.

(** ** The relation of the Router does not look at roles that are not Writers *)

Definition same_writers (roles roles' : list role) : Prop :=
  (forall n, lk (KWriter n) roles' = lk (KWriter n) roles)
  /\ (forall n, In (KWriter n) (map kind_of roles') <-> In (KWriter n) (map kind_of roles)).

Lemma writers_pre_ext : forall done roles roles', same_writers roles roles' -> writers_pre done roles -> writers_pre done roles'.
Proof. intros done roles roles' [Hl _] H i z Hi. rewrite Hl. exact (H i z Hi). Qed.

Lemma writers_bound_ext : forall n roles roles', same_writers roles roles' -> writers_bound n roles -> writers_bound n roles'.
Proof. intros n roles roles' [_ Hk] H m Hm. apply H. now apply Hk. Qed.

Lemma writers_run_ext : forall done roles roles' wch ws, same_writers roles roles' ->
  writers_run done roles wch ws -> writers_run done roles' wch ws.
Proof. intros done roles roles' wch ws [Hl _] H i z Hi. rewrite Hl. exact (H i z Hi). Qed.

Lemma wview_ext : forall p done roles roles' wch ws, same_writers roles roles' ->
  wview p done roles wch ws -> wview p done roles' wch ws.
Proof.
  intros p done roles roles' wch ws Hs [Hb Hv]. split; [eapply writers_bound_ext; eauto|].
  destruct (rt_spawning p); [eapply writers_pre_ext; eauto | eapply writers_run_ext; eauto].
Qed.

Lemma rt_rel_ext : forall ts p roles roles' wch wrest rt ws wgR, same_writers roles roles' ->
  rt_rel ts p roles wch wrest rt ws wgR -> rt_rel ts p roles' wch wrest rt ws wgR.
Proof.
  intros ts p roles roles' wch wrest rt ws wgR Hs [done [Hc Hv]]. exists done. split; [exact Hc | eapply wview_ext; eauto].
Qed.

Lemma same_writers_upd : forall roles t ro ro', nth_error roles t = Some ro -> kind_of ro' = kind_of ro ->
  (forall n, kind_of ro <> KWriter n) -> same_writers roles (upd_nth t ro' roles).
Proof.
  intros roles t ro ro' Hn Hk Hw. split.
  - intros n. apply (lk_upd_other _ _ _ _ _ Hn Hk). intros E. exact (Hw n (eq_sym E)).
  - intros n. now rewrite (kinds_upd _ _ _ _ Hn Hk).
Qed.

Lemma same_writers_app : forall roles ro, (forall n, kind_of ro <> KWriter n) -> same_writers roles (roles ++ [ro]).
Proof.
  intros roles ro Hw. split.
  - intros n. rewrite lk_app. destruct (lk (KWriter n) roles); [reflexivity|].
    rewrite kind_eqb_neq by apply Hw. reflexivity.
  - intros n. rewrite map_app, in_app_iff. cbn. split; [|tauto]. intros [H|[H|[]]]; [exact H | exfalso; exact (Hw n H)].
Qed.

Lemma same_writers_trans : forall a b c, same_writers a b -> same_writers b c -> same_writers a c.
Proof.
  intros a b c [H1 H2] [H3 H4]. split; intros n; [now rewrite H3, H1 | now rewrite H4, H2].
Qed.
