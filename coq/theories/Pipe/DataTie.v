(** * Pipe/DataTie.v — how the values of the regenerated data side of processing.go (gen/PipeDataGen.v) are read as
      values of the pipeline model (Pipe/Model.v).  Definitions only; the proofs are in Pipe/ProofsGenData.v.

    The model abstracts a polygon to an identity ([poly]) and the columns of a feature to an identity ([fid]); the
    regenerated functions are polymorphic in both, so they are compared with the model at those types.

    - [g_add_entry], [g_merge_parts]: [add_entry] / [merge_parts] of the model for any polygon type, written with the
      operations of Go maps ([gm_set] / [gm_get_or]); at [poly] they ARE the model's ([g_merge_parts_model]).
    - [visited ord ts f mp]: what processMultiPolygon sees of the results of f: per part (in part order) the entries of
      the map f returned, in the order in which that execution of the range statement visits them.
    - [model_feature ts f ft]: the model's feature for the Go feature [ft]: its kind with the outcomes of f baked in.
    - [abs_geom], [abs_pend]: a value sent by processFeatures (a wrapper) as the model's pending entry
      (tile matrix id, geometry); the nil newGeometry is [GOrig]: "the wrapped feature's own geometry". *)
From Coq Require Import ZArith NArith List Bool.
From Texel Require Import Prelude.Base Prelude.GoAssoc Pipe.GoData Pipe.Model.
From Texel.Gen Require Import PipeDataGen.
Import ListNotations.
Open Scope Z_scope.

Definition g_add_entry {P : Type} (m : gomap Z (list P)) (e : Z * list P) : gomap Z (list P) :=
  match snd e with
  | [] => m
  | ps => gm_set Z.eqb m (fst e) (gm_get_or Z.eqb [] m (fst e) ++ ps)
  end.

Definition g_merge_parts {P : Type} (parts : list (gomap Z (list P))) : gomap Z (list P) :=
  fold_left (fun m o => fold_left g_add_entry o m) parts [].

(** the entries of map [o] in the order [keys] *)
Definition entries_in_order {P : Type} (o : gomap Z (list P)) (keys : list Z) : gomap Z (list P) :=
  map (fun k => (k, gm_get_or Z.eqb [] o k)) keys.

Definition visited {P : Type} (ord : gen_site -> list Z -> list Z) (ts : list Z) (f : P -> list Z -> gomap Z (list P))
                   (mp : list P) : list (gomap Z (list P)) :=
  map (fun ip => entries_in_order (f (snd ip) ts) (ord (GSite1 (fst ip)) (map fst (f (snd ip) ts)))) (indexed_from 0 mp).

(** the identity order: every range over a Go map visits the entries in the order of the association list *)
Definition ord_id : gen_site -> list Z -> list Z := fun _ l => l.
(** another one: the reverse *)
Definition ord_rev : gen_site -> list Z -> list Z := fun _ l => rev l.

Definition model_kind (ts : list tmid) (f : poly -> list tmid -> outcome) (g : option (ggeometry poly)) : gkind :=
  match g with
  | Some (GoPolygon p) => KPolygon (f p ts)
  | Some (GoMultiPolygon ps) => KMulti (map (fun p => f p ts) ps)
  | _ => KOther
  end.

Definition model_feature (ts : list tmid) (f : poly -> list tmid -> outcome) (ft : gen_Feature fid poly) : feature :=
  MkFeature (Feature_Columns ft) (model_kind ts f (Feature_Geometry ft)).

Definition abs_geom (g : option (ggeometry poly)) : geom :=
  match g with
  | None => GOrig
  | Some (GoPolygon p) => GPoly p
  | Some (GoMultiPolygon ps) => GMulti ps
  | Some (GoOtherGeom c) => GAlien c
  end.

Definition gwrapper := gen_featureForTileMatrixWrapper fid poly.

Definition abs_pend (w : gwrapper) : pend :=
  (gen_featureForTileMatrixWrapper_TileMatrixID w, Some (abs_geom (featureForTileMatrixWrapper_newGeometry w))).

(** what a target observes of a wrapper through the interface: (Columns(), Geometry()) *)
Definition observed (w : gwrapper) : fid * option (ggeometry poly) :=
  (gen_featureForTileMatrixWrapper_Columns w, gen_featureForTileMatrixWrapper_Geometry w).

(** the geometry processFeatures makes of a non-empty list of resulting polygons: the polygon itself if there is one,
    one multipolygon otherwise *)
Definition poly_geometry {P : Type} (ps : list P) : option (ggeometry P) :=
  match ps with
  | [p] => Some (GoPolygon p)
  | _ => Some (GoMultiPolygon ps)
  end.

(** the counters of processFeatures after one feature: postCount ("kept") and nonPolygonCount; preCount is incremented *)
Definition post_after (ts : list tmid) (mf : feature) (post : Z) : Z :=
  match f_kind mf with
  | KOther => uint64_inc post
  | _ => match snd (fanout ts mf) with [] => post | _ => uint64_inc post end
  end.

Definition nonp_after (mf : feature) (nonp : Z) : Z :=
  match f_kind mf with KOther => uint64_inc nonp | _ => nonp end.
