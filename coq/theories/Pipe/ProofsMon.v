(** * Pipe/ProofsMon.v — the history monitor is sound for the transition system:
      every trace of the system is accepted ([trace_accepted], [trace_prefix_accepted]) and an
      accepted complete history satisfies the C10/C11 statements ([accepted_complete_ok]). *)
From Coq Require Import ZArith NArith List Bool Lia.
From Texel Require Import Pipe.Model Pipe.ProofsBase Pipe.ProofsInv.
Import ListNotations.

(** ** What one step does to the observable part of the state *)

Definition returned (s : state) : bool := match s_main s with MRet => true | _ => false end.

Lemma recvd_wr : forall i s s', s_wr s' = s_wr s -> recvd i s' = recvd i s.
Proof. intros i s s' H. unfold recvd. now rewrite H. Qed.

Lemma finished_wr : forall i s s', s_wr s' = s_wr s -> finished i s' = finished i s.
Proof. intros i s s' H. unfold finished. now rewrite H. Qed.

(** effect of an update of writer [tm] that keeps [w_got] and changes the state from [st0] to [st1] *)
Lemma upd_effect : forall tm g ws w,
  (forall v, w_tm (g v) = w_tm v) -> find_writer tm ws = Some w ->
  forall i, find_writer i (upd_writer tm g ws) = if Z.eqb i tm then Some (g w) else find_writer i ws.
Proof.
  intros tm g ws w Hg Hf i. destruct (Z.eqb_spec i tm) as [->|Hne].
  - rewrite find_upd_same by assumption. now rewrite Hf.
  - now apply find_upd_other.
Qed.

Definition tau_effect (s s' : state) : Prop :=
  (forall i, recvd i s' = recvd i s) /\ (forall i, finished i s' = finished i s) /\ returned s' = returned s.

Lemma tau_of_wr : forall s s', s_wr s' = s_wr s -> s_main s' = s_main s -> tau_effect s s'.
Proof.
  intros s s' Hw Hm. split; [|split].
  - intros i. now apply recvd_wr.
  - intros i. now apply finished_wr.
  - unfold returned. now rewrite Hm.
Qed.

Definition effect_of (l : label) (s s' : state) : Prop :=
  match l with
  | LRecv tm m =>
      (forall i, recvd i s' = if Z.eqb i tm then recvd i s ++ [m] else recvd i s)
      /\ (forall i, finished i s' = finished i s) /\ finished tm s = false
      /\ returned s' = returned s /\ In tm (map w_tm (s_wr s))
  | LFinish tm =>
      (forall i, recvd i s' = recvd i s)
      /\ (forall i, finished i s' = if Z.eqb i tm then true else finished i s) /\ finished tm s = false
      /\ returned s' = returned s
      /\ exists w, find_writer tm (s_wr s) = Some w /\ w_st w = WFin
  | LReturn =>
      (forall i, recvd i s' = recvd i s) /\ (forall i, finished i s' = finished i s)
      /\ s_main s = MWait /\ s_main s' = MRet /\ s_wgM s = 0
  | _ => tau_effect s s'
  end.

Ltac tau_wr := apply tau_of_wr; reflexivity.

Lemma step_effect_started : forall cfg s l s', Inv cfg s ->
  step_started cfg s l = Some s' -> s_panic s' = None -> effect_of l s s'.
Proof.
  intros cfg s l s' HI H Hp'.
  destruct s as [mn wgM rd sn rt wgR ws pn].
  pose proof (inv_keys _ _ HI) as Hkeys; cbn [s_wr s_rt] in Hkeys.
  destruct l; cbn [step_started] in H; st_cbn; cbn [effect_of].
  - discriminate.
  - destruct rd as [[|f r]| |]; try discriminate. destruct sn; try discriminate. inversion H; subst. tau_wr.
  - destruct rd as [[|f r]| |]; try discriminate. inversion H; subst. tau_wr.
  - destruct rd; try discriminate. inversion H; subst. tau_wr.
  - destruct sn; try discriminate. inversion H; subst. tau_wr.
  - destruct sn as [|f|id ord pending| | |]; try discriminate.
    destruct (take_pend ord tm pending) as [[[g|] pending']|]; try discriminate.
    + destruct rt; try discriminate. inversion H; subst. tau_wr.
    + inversion H; subst. discriminate.
  - destruct sn as [|f|id ord [|e pending]| | |]; try discriminate. inversion H; subst. tau_wr.
  - destruct sn; try discriminate. destruct rd; try discriminate; inversion H; subst; tau_wr.
  - destruct sn; try discriminate. inversion H; subst. tau_wr.
  - destruct sn; try discriminate. inversion H; subst. tau_wr.
  - (* LRouterSpawn *)
    destruct rt; try discriminate. inversion H; subst; clear H.
    destruct ws; [|discriminate].
    split; [|split]; [ intros i | intros i | reflexivity ].
    + unfold recvd. cbn [s_wr find_writer set_rt set_wgR set_wr].
      destruct (find_writer i (map new_writer (c_targets cfg))) as [w|] eqn:E; [|reflexivity].
      apply find_writer_In in E as [E _]. apply in_map_iff in E as (t & <- & _). reflexivity.
    + unfold finished. cbn [s_wr find_writer set_rt set_wgR set_wr].
      destruct (find_writer i (map new_writer (c_targets cfg))) as [w|] eqn:E; [|reflexivity].
      apply find_writer_In in E as [E _]. apply in_map_iff in E as (t & <- & _). reflexivity.
  - (* LDeliver *)
    destruct rt as [| |tm m| |]; try discriminate.
    destruct (find_writer tm ws) as [w|] eqn:Ef; [|inversion H; subst; discriminate].
    destruct (w_closed w); [inversion H; subst; discriminate|].
    destruct (w_st w) eqn:Ew; try discriminate. inversion H; subst; clear H.
    split; [|split]; [ intros i | intros i | reflexivity ].
    + unfold recvd. cbn [s_wr set_rt set_wr]. rewrite (upd_effect tm _ ws w (w_tm_set_st _) Ef).
      destruct (Z.eqb_spec i tm) as [->|Hne]; [rewrite Ef; reflexivity | reflexivity].
    + unfold finished. cbn [s_wr set_rt set_wr]. rewrite (upd_effect tm _ ws w (w_tm_set_st _) Ef).
      destruct (Z.eqb_spec i tm) as [->|Hne]; [rewrite Ef, Ew; reflexivity | reflexivity].
  - destruct rt; try discriminate. destruct sn; try discriminate; inversion H; subst; tau_wr.
  - (* LRouterClose *)
    destruct rt as [| | |todo|]; try discriminate.
    destruct (memz tm todo); [|discriminate]. inversion H; subst; clear H.
    assert (Hfw : forall i, option_map w_got (find_writer i (upd_writer tm w_close ws)) = option_map w_got (find_writer i ws)
                         /\ option_map w_st (find_writer i (upd_writer tm w_close ws)) = option_map w_st (find_writer i ws)).
    { intros i. destruct (Z.eq_dec i tm) as [->|Hne].
      - rewrite find_upd_same by apply w_tm_close. destruct (find_writer tm ws); split; reflexivity.
      - rewrite find_upd_other by (try apply w_tm_close; assumption). split; reflexivity. }
    split; [|split]; [ intros i | intros i | reflexivity ].
    + unfold recvd. cbn [s_wr set_rt set_wr]. destruct (Hfw i) as [H1 _].
      destruct (find_writer i (upd_writer tm w_close ws)), (find_writer i ws); cbn in H1; congruence.
    + unfold finished. cbn [s_wr set_rt set_wr]. destruct (Hfw i) as [_ H2].
      destruct (find_writer i (upd_writer tm w_close ws)), (find_writer i ws); cbn in H2; try congruence.
      inversion H2 as [H3]. now rewrite H3.
  - destruct rt as [| | |[|t todo]|]; try discriminate. destruct wgR; [|discriminate].
    destruct wgM; inversion H; subst; [discriminate | tau_wr].
  - (* LRecv *)
    destruct (find_writer tm ws) as [w|] eqn:Ef; [|discriminate].
    destruct (w_st w) eqn:Ew; try discriminate.
    destruct (msg_eqb m m0) eqn:Eq; [|discriminate]. apply msg_eqb_eq in Eq. subst m0.
    inversion H; subst; clear H.
    split; [|split; [|split; [|split]]].
    + intros i. unfold recvd. cbn [s_wr set_wr]. rewrite (upd_effect tm _ ws w (w_tm_handle _) Ef).
      destruct (Z.eqb_spec i tm) as [->|Hne]; [rewrite Ef; reflexivity | reflexivity].
    + intros i. unfold finished. cbn [s_wr set_wr]. rewrite (upd_effect tm _ ws w (w_tm_handle _) Ef).
      destruct (Z.eqb_spec i tm) as [->|Hne]; [rewrite Ef, Ew; reflexivity | reflexivity].
    + unfold finished. cbn [s_wr]. rewrite Ef, Ew. reflexivity.
    + reflexivity.
    + cbn [s_wr]. apply find_writer_In in Ef as [Ef <-]. now apply in_map.
  - (* LWriterEof *)
    destruct (find_writer tm ws) as [w|] eqn:Ef; [|discriminate].
    destruct (w_st w) eqn:Ew; try discriminate. destruct (w_closed w); [|discriminate].
    inversion H; subst; clear H.
    split; [|split]; [ intros i | intros i | reflexivity ].
    + unfold recvd. cbn [s_wr set_wr]. rewrite (upd_effect tm _ ws w (w_tm_set_st _) Ef).
      destruct (Z.eqb_spec i tm) as [->|Hne]; [rewrite Ef; reflexivity | reflexivity].
    + unfold finished. cbn [s_wr set_wr]. rewrite (upd_effect tm _ ws w (w_tm_set_st _) Ef).
      destruct (Z.eqb_spec i tm) as [->|Hne]; [rewrite Ef, Ew; reflexivity | reflexivity].
  - (* LFinish *)
    destruct (find_writer tm ws) as [w|] eqn:Ef; [|discriminate].
    destruct (w_st w) eqn:Ew; try discriminate.
    destruct wgR; [inversion H; subst; discriminate|]. inversion H; subst; clear H.
    split; [|split; [|split; [|split]]].
    + intros i. unfold recvd. cbn [s_wr set_wr set_wgR]. rewrite (upd_effect tm _ ws w (w_tm_set_st _) Ef).
      destruct (Z.eqb_spec i tm) as [->|Hne]; [rewrite Ef; reflexivity | reflexivity].
    + intros i. unfold finished. cbn [s_wr set_wr set_wgR]. rewrite (upd_effect tm _ ws w (w_tm_set_st _) Ef).
      destruct (Z.eqb_spec i tm) as [->|Hne]; reflexivity.
    + unfold finished. cbn [s_wr]. rewrite Ef, Ew. reflexivity.
    + reflexivity.
    + exists w. cbn [s_wr]. split; assumption.
  - (* LReturn *)
    destruct mn; try discriminate. destruct wgM; [|discriminate]. inversion H; subst; clear H.
    repeat split; reflexivity.
Qed.

Lemma step_effect : forall cfg s l s', Inv cfg s -> step cfg s l = Some s' -> s_panic s' = None ->
  effect_of l s s'.
Proof.
  intros cfg s l s' HI H Hp'. unfold step in H. rewrite (inv_nopanic _ _ HI) in H.
  destruct (s_main s) eqn:Em.
  - destruct l; try discriminate. inversion H; subst; clear H. cbn [effect_of].
    split; [|split]; try reflexivity. unfold returned. cbn. now rewrite Em.
  - now apply (step_effect_started cfg).
  - now apply (step_effect_started cfg).
Qed.

(** ** The simulation between system and monitor *)

Definition rest (i : tmid) (s : state) : list msg := inflight i s ++ future i s.

Record Sim (cfg : config) (s : state) (m : mon) : Prop := {
  sim_rem : m_rem m = map (fun t => (t, rest t s)) (c_targets cfg);
  sim_fin : forall i, memz i (m_fin m) = finished i s;
  sim_ret : m_ret m = returned s
}.

Lemma rem_find_map : forall (f : tmid -> list msg) i ts, In i ts ->
  rem_find i (map (fun t => (t, f t)) ts) = Some (f i).
Proof.
  induction ts as [|t r IH]; cbn [map rem_find In]; [tauto|]. intros H.
  destruct (Z.eqb_spec t i) as [->|E]; [reflexivity|]. destruct H; [contradiction | auto].
Qed.

Lemma rem_find_map_none : forall (f : tmid -> list msg) i ts, ~ In i ts ->
  rem_find i (map (fun t => (t, f t)) ts) = None.
Proof.
  induction ts as [|t r IH]; cbn [map rem_find In]; [reflexivity|]. intros H.
  destruct (Z.eqb_spec t i) as [->|E]; [tauto | apply IH; tauto].
Qed.

Lemma rem_set_map : forall (f g : tmid -> list msg) i v ts, NoDup ts ->
  g i = v -> (forall t, In t ts -> t <> i -> g t = f t) ->
  rem_set i v (map (fun t => (t, f t)) ts) = map (fun t => (t, g t)) ts.
Proof.
  intros f g i v. induction ts as [|t r IH]; cbn [map rem_set]; intros Hnd Hi Ho; [reflexivity|].
  inversion Hnd as [|? ? Hn Hr]; subst.
  destruct (Z.eqb_spec t i) as [->|E].
  - f_equal. apply map_ext_in. intros t Ht. rewrite Ho; [reflexivity | now right |]. intros ->. contradiction.
  - rewrite (Ho t) by (try (now left); assumption). f_equal. apply IH; [assumption | reflexivity |].
    intros t' Ht' Hne. apply Ho; [now right | assumption].
Qed.

Lemma rest_same : forall cfg s s' i, Inv cfg s -> Inv cfg s' -> In i (c_targets cfg) ->
  recvd i s' = recvd i s -> rest i s' = rest i s.
Proof.
  intros cfg s s' i HI HI' Hi Hr. pose proof (inv_data _ _ HI i Hi) as H1. pose proof (inv_data _ _ HI' i Hi) as H2.
  rewrite Hr, <- H1 in H2. apply app_inv_head in H2. exact H2.
Qed.

Lemma rest_recv : forall cfg s s' i m, Inv cfg s -> Inv cfg s' -> In i (c_targets cfg) ->
  recvd i s' = recvd i s ++ [m] -> rest i s = m :: rest i s'.
Proof.
  intros cfg s s' i m HI HI' Hi Hr. pose proof (inv_data _ _ HI i Hi) as H1. pose proof (inv_data _ _ HI' i Hi) as H2.
  rewrite Hr, <- H1, <- app_assoc in H2. apply app_inv_head in H2. cbn [app] in H2. symmetry. exact H2.
Qed.

Lemma mon_run_app : forall cfg h1 h2 m,
  mon_run cfg m (h1 ++ h2) = match mon_run cfg m h1 with Some m' => mon_run cfg m' h2 | None => None end.
Proof.
  induction h1 as [|e r IH]; cbn [mon_run app]; intros h2 m; [reflexivity|].
  destruct (mon_step cfg m e); [apply IH | reflexivity].
Qed.

Lemma obs_trace_app : forall a b, obs_trace (a ++ b) = obs_trace a ++ obs_trace b.
Proof. intros. unfold obs_trace. apply flat_map_app. Qed.

Lemma sim_tau : forall cfg s s' m, Inv cfg s -> Inv cfg s' -> tau_effect s s' -> Sim cfg s m -> Sim cfg s' m.
Proof.
  intros cfg s s' m HI HI' (Hr & Hf & Hret) [S1 S2 S3]. constructor.
  - rewrite S1. apply map_ext_in. intros t Ht. f_equal. symmetry. apply (rest_same cfg s s' t HI HI' Ht (Hr t)).
  - intros i. now rewrite S2, Hf.
  - now rewrite S3, Hret.
Qed.

Lemma targets_of_writer : forall cfg s tm, Inv cfg s -> In tm (map w_tm (s_wr s)) -> In tm (c_targets cfg).
Proof.
  intros cfg s tm HI Hin. pose proof (inv_keys _ _ HI) as Hk.
  destruct (s_rt s); rewrite Hk in Hin; try exact Hin. destruct Hin.
Qed.

(** one step of the system is matched by the monitor *)
Lemma sim_step : forall cfg s l s' m, wf_config cfg -> Inv cfg s -> step cfg s l = Some s' -> Sim cfg s m ->
  exists m', mon_run cfg m (obs l) = Some m' /\ Sim cfg s' m'.
Proof.
  intros cfg s l s' m Hwf HI Hs HS.
  pose proof (inv_step cfg s l s' Hwf HI Hs) as HI'.
  pose proof (step_effect cfg s l s' HI Hs (inv_nopanic _ _ HI')) as He.
  destruct l; cbn [obs mon_run effect_of] in *;
    try (exists m; split; [reflexivity | now apply (sim_tau cfg s s' m HI HI' He)]).
  - (* LRecv *)
    destruct He as (Hr & Hf & Hnf & Hret & Hin). destruct HS as [S1 S2 S3].
    assert (Htm : In tm (c_targets cfg)) by (apply (targets_of_writer cfg s); assumption).
    assert (Hnr : returned s = false).
    { unfold returned. destruct (s_main s) eqn:Em; try reflexivity.
      destruct (router_done_all cfg s Hwf HI (inv_ret _ _ HI Em) tm Htm) as (w & Hw & Hst & _).
      unfold finished in Hnf. rewrite Hw, Hst in Hnf. discriminate. }
    unfold mon_step. rewrite S3, Hnr, S2, Hnf, S1. rewrite (rem_find_map (fun t => rest t s) tm _ Htm).
    pose proof (Hr tm) as Hrt. rewrite Z.eqb_refl in Hrt.
    rewrite (rest_recv cfg s s' tm _ HI HI' Htm Hrt). rewrite msg_eqb_refl.
    eexists; split; [reflexivity|]. constructor; cbn [m_rem m_fin m_ret].
    + apply rem_set_map; [apply Hwf | reflexivity |].
      intros t Ht Hne. apply (rest_same cfg s s' t HI HI' Ht). rewrite Hr.
      destruct (Z.eqb_spec t tm); [contradiction | reflexivity].
    + intros i. now rewrite S2, Hf.
    + now rewrite Hret.
  - (* LFinish *)
    destruct He as (Hr & Hf & Hnf & Hret & (w & Hw & Hst)). destruct HS as [S1 S2 S3].
    assert (Htm : In tm (c_targets cfg)).
    { apply (targets_of_writer cfg s); [assumption|]. apply find_writer_In in Hw as [Hw <-]. now apply in_map. }
    assert (Hnr : returned s = false).
    { unfold returned. destruct (s_main s) eqn:Em; try reflexivity.
      destruct (router_done_all cfg s Hwf HI (inv_ret _ _ HI Em) tm Htm) as (v & Hv & Hvst & _).
      rewrite Hw in Hv. inversion Hv; subst v. congruence. }
    assert (Hrest : rest tm s = []).
    { destruct (inv_writers _ _ HI _ _ Hw) as [Hc1 Hc2]. rewrite Hc2 in Hc1 by (now left).
      assert (Hpe : rt_past_eof (s_rt s) = true) by (destruct (s_rt s); try discriminate; reflexivity).
      pose proof (inv_rt_sn _ _ HI Hpe) as Hsn.
      assert (Hse : sn_past_eof (s_sn s) = true) by (destruct (s_sn s); try discriminate; reflexivity).
      pose proof (inv_sn_rd _ _ HI Hse) as Hrd.
      unfold rest, inflight, w_hold, rt_hold, sn_hold, future. rewrite Hw, Hst.
      destruct (s_rt s); try discriminate; destruct (s_sn s); try discriminate; destruct (s_rd s); try discriminate;
        reflexivity. }
    unfold mon_step. rewrite S3, Hnr, S2, Hnf, S1. rewrite (rem_find_map (fun t => rest t s) tm _ Htm), Hrest.
    eexists; split; [reflexivity|]. constructor; cbn [m_rem m_fin m_ret].
    + apply map_ext_in. intros t Ht. f_equal. symmetry. apply (rest_same cfg s s' t HI HI' Ht (Hr t)).
    + intros i. cbn [memz]. rewrite Hf, S2. rewrite Z.eqb_sym. destruct (Z.eqb i tm); reflexivity.
    + now rewrite Hret.
  - (* LReturn *)
    destruct He as (Hr & Hf & Hm & Hm' & Hwg). destruct HS as [S1 S2 S3].
    assert (Hnr : returned s = false) by (unfold returned; now rewrite Hm).
    assert (Hrt : s_rt s = TDone).
    { pose proof (inv_wgM _ _ HI) as H0. rewrite Hm in H0. specialize (H0 ltac:(discriminate)).
      rewrite Hwg in H0. destruct (s_rt s); try discriminate; reflexivity. }
    assert (Hall : forallb (fun t => memz t (m_fin m)) (c_targets cfg) = true).
    { apply forallb_forall. intros t Ht. rewrite S2.
      destruct (router_done_all cfg s Hwf HI Hrt t Ht) as (w & Hw & Hst & _).
      unfold finished. now rewrite Hw, Hst. }
    unfold mon_step. rewrite S3, Hnr, Hall.
    eexists; split; [reflexivity|]. constructor; cbn [m_rem m_fin m_ret].
    + rewrite S1. apply map_ext_in. intros t Ht. f_equal. symmetry. apply (rest_same cfg s s' t HI HI' Ht (Hr t)).
    + intros i. now rewrite S2, Hf.
    + unfold returned. now rewrite Hm'.
Qed.

Lemma sim_init : forall cfg, wf_config cfg -> Sim cfg (init cfg) (mon_init cfg).
Proof.
  intros cfg Hwf. constructor; cbn [mon_init m_rem m_fin m_ret].
  - reflexivity.
  - intros i. reflexivity.
  - reflexivity.
Qed.

Lemma exec_sim : forall cfg ls s, wf_config cfg -> exec cfg (init cfg) ls s ->
  exists m, mon_run cfg (mon_init cfg) (obs_trace ls) = Some m /\ Sim cfg s m.
Proof.
  intros cfg ls s Hwf H. remember (init cfg) as s0 eqn:E0.
  induction H as [s0|s0 ls s1 l s2 Hex IH Hs]; subst.
  - exists (mon_init cfg). split; [reflexivity | now apply sim_init].
  - destruct (IH eq_refl) as (m & Hm & HS).
    assert (HI : Inv cfg s1) by (apply reachable_inv; [assumption | now exists ls]).
    destruct (sim_step cfg s1 l s2 m Hwf HI Hs HS) as (m' & Hm' & HS').
    exists m'. split; [|assumption].
    rewrite obs_trace_app, mon_run_app, Hm. unfold obs_trace. cbn [flat_map]. now rewrite app_nil_r.
Qed.

(** EVERY TRACE OF THE SYSTEM IS ACCEPTED (as a prefix) *)
Theorem trace_prefix_accepted : forall cfg ls s, wf_config cfg -> exec cfg (init cfg) ls s ->
  accepts_prefix cfg (obs_trace ls) = true.
Proof.
  intros cfg ls s Hwf H. destruct (exec_sim cfg ls s Hwf H) as (m & Hm & _).
  unfold accepts_prefix. now rewrite Hm.
Qed.

(** ... and the trace of a complete execution (one after which Main has returned) is accepted as complete *)
Theorem trace_accepted : forall cfg ls s, wf_config cfg -> exec cfg (init cfg) ls s -> s_main s = MRet ->
  accepts cfg (obs_trace ls) = true.
Proof.
  intros cfg ls s Hwf H Hm. destruct (exec_sim cfg ls s Hwf H) as (m & Hrun & HS).
  unfold accepts. rewrite Hrun, (sim_ret _ _ _ HS). unfold returned. now rewrite Hm.
Qed.

(** ** What an accepted history looks like (about the monitor alone) *)

Lemma rem_find_set : forall i k v l,
  rem_find i (rem_set k v l)
  = if Z.eqb k i then match rem_find i l with Some _ => Some v | None => None end else rem_find i l.
Proof.
  induction l as [|[k' x] r IH]; cbn [rem_set rem_find].
  - destruct (Z.eqb k i); reflexivity.
  - destruct (Z.eqb_spec k' k) as [->|E]; cbn [rem_find].
    + destruct (Z.eqb_spec k i) as [->|E']; [reflexivity|]. reflexivity.
    + destruct (Z.eqb_spec k' i) as [->|E'].
      * destruct (Z.eqb_spec k i); [congruence | reflexivity].
      * exact IH.
Qed.

Lemma mon_run_after_return : forall cfg m h m', m_ret m = true -> mon_run cfg m h = Some m' -> h = [] /\ m' = m.
Proof.
  intros cfg m [|e r] m' Hr H; cbn [mon_run] in H.
  - inversion H. tauto.
  - unfold mon_step in H. rewrite Hr in H. discriminate.
Qed.

Record run_spec (cfg : config) (m : mon) (h : list event) (m' : mon) : Prop := {
  rs_rem : forall i, rem_find i (m_rem m)
                     = match rem_find i (m_rem m') with Some y => Some (recvs_of i h ++ y) | None => None end;
  rs_fin_before : forall i, memz i (m_fin m) = true -> quiet i h /\ memz i (m_fin m') = true;
  rs_fin_during : forall i, memz i (m_fin m) = false -> memz i (m_fin m') = true ->
      exists a b, h = a ++ EFinish i :: b /\ no_finish i a /\ quiet i b /\ rem_find i (m_rem m') = Some [];
  rs_ret : (m_ret m' = false /\ no_return h)
           \/ (m_ret m' = true /\ exists h0, h = h0 ++ [EReturn] /\ no_return h0
               /\ forallb (fun t => memz t (m_fin m')) (c_targets cfg) = true);
  rs_keys : forall e k, In e h -> event_tm e = Some k -> rem_find k (m_rem m) <> None
}.

Lemma run_spec_nil : forall cfg m, m_ret m = false -> run_spec cfg m [] m.
Proof.
  intros cfg m Hr. constructor.
  - intros i. cbn. destruct (rem_find i (m_rem m)); reflexivity.
  - intros i Hi. split; [intros e [] | assumption].
  - intros i H1 H2. congruence.
  - left. split; [assumption | intros e []].
  - intros e k [].
Qed.

Lemma no_return_cons : forall e h, is_return e = false -> no_return h -> no_return (e :: h).
Proof. intros e h He Hh x [<-|Hx]; auto. Qed.

Lemma quiet_cons : forall i e h, is_finish i e = false -> is_recv i e = false -> quiet i h -> quiet i (e :: h).
Proof. intros i e h H1 H2 Hh x [<-|Hx]; auto. Qed.

Lemma no_finish_cons : forall i e h, is_finish i e = false -> no_finish i h -> no_finish i (e :: h).
Proof. intros i e h H1 Hh x [<-|Hx]; auto. Qed.

Lemma mon_run_spec : forall cfg h m m', mon_run cfg m h = Some m' -> m_ret m = false -> run_spec cfg m h m'.
Proof.
  intros cfg. induction h as [|e r IH]; intros m m' H Hr; cbn [mon_run] in H.
  - inversion H; subst. now apply run_spec_nil.
  - destruct (mon_step cfg m e) as [m1|] eqn:Es; [|discriminate].
    unfold mon_step in Es. rewrite Hr in Es.
    destruct e as [k x|k|].
    + (* ERecv *)
      destruct (memz k (m_fin m)) eqn:Ek; [discriminate|].
      destruct (rem_find k (m_rem m)) as [[|y r0]|] eqn:Ef; try discriminate.
      destruct (msg_eqb x y) eqn:Exy; [|discriminate]. apply msg_eqb_eq in Exy. subst y.
      inversion Es; subst m1; clear Es.
      specialize (IH _ _ H eq_refl). destruct IH as [I1 I2 I3 I4 I5]. cbn [m_rem m_fin m_ret] in *.
      constructor.
      * intros i. specialize (I1 i). rewrite rem_find_set in I1. cbn [recvs_of flat_map].
        destruct (Z.eqb_spec k i) as [->|Hne].
        -- rewrite Ef in *. destruct (rem_find i (m_rem m')) as [y'|]; [|discriminate].
           inversion I1; subst. reflexivity.
        -- exact I1.
      * intros i Hi. destruct (I2 i Hi) as [Hq Hm]. split; [|assumption].
        apply quiet_cons; [reflexivity | | assumption]. cbn [is_recv].
        destruct (Z.eqb_spec k i) as [->|]; [congruence | reflexivity].
      * intros i H1 H2. destruct (I3 i H1 H2) as (a & b & -> & Ha & Hb & Hrem).
        exists (ERecv k x :: a), b. split; [reflexivity|]. split; [now apply no_finish_cons|]. split; assumption.
      * destruct I4 as [[Hf Hn]|(Hf & h0 & -> & Hn & Hall)].
        -- left. split; [assumption | now apply no_return_cons].
        -- right. split; [assumption|]. exists (ERecv k x :: h0). split; [reflexivity|].
           split; [now apply no_return_cons | assumption].
      * intros e k' [<-|He] Hk'.
        -- cbn in Hk'. inversion Hk'; subst. congruence.
        -- specialize (I5 e k' He Hk'). rewrite rem_find_set in I5.
           destruct (Z.eqb k k'); [|assumption]. destruct (rem_find k' (m_rem m)); congruence.
    + (* EFinish *)
      destruct (memz k (m_fin m)) eqn:Ek; [discriminate|].
      destruct (rem_find k (m_rem m)) as [[|y r0]|] eqn:Ef; try discriminate.
      inversion Es; subst m1; clear Es.
      specialize (IH _ _ H eq_refl). destruct IH as [I1 I2 I3 I4 I5]. cbn [m_rem m_fin m_ret memz] in *.
      constructor.
      * intros i. exact (I1 i).
      * intros i Hi. assert (Hne : k <> i) by congruence.
        destruct (I2 i) as [Hq Hm]; [rewrite Hi; apply orb_true_r|]. split; [|assumption].
        apply quiet_cons; [|reflexivity | assumption]. cbn [is_finish]. now apply Z.eqb_neq.
      * intros i H1 H2. destruct (Z.eqb_spec k i) as [->|Hne].
        -- destruct (I2 i) as [Hq _]; [now rewrite Z.eqb_refl|].
           exists [], r. split; [reflexivity|]. split; [intros e []|]. split; [assumption|].
           specialize (I1 i). rewrite Ef in I1. destruct (rem_find i (m_rem m')) as [y'|]; [|discriminate].
           inversion I1 as [Hy]. symmetry in Hy. apply app_eq_nil in Hy as [_ ->]. reflexivity.
        -- destruct (I3 i) as (a & b & -> & Ha & Hb & Hrem); [|assumption|].
           ++ apply Z.eqb_neq in Hne. rewrite Hne. exact H1.
           ++ exists (EFinish k :: a), b. split; [reflexivity|]. split; [|split; assumption].
              apply no_finish_cons; [|assumption]. cbn [is_finish]. now apply Z.eqb_neq.
      * destruct I4 as [[Hf Hn]|(Hf & h0 & -> & Hn & Hall)].
        -- left. split; [assumption | now apply no_return_cons].
        -- right. split; [assumption|]. exists (EFinish k :: h0). split; [reflexivity|].
           split; [now apply no_return_cons | assumption].
      * intros e k' [<-|He] Hk'.
        -- cbn in Hk'. inversion Hk'; subst. congruence.
        -- exact (I5 e k' He Hk').
    + (* EReturn *)
      destruct (forallb (fun t => memz t (m_fin m)) (c_targets cfg)) eqn:Eall; [|discriminate].
      inversion Es; subst m1; clear Es.
      destruct (mon_run_after_return cfg (MkMon (m_rem m) (m_fin m) true) r m' eq_refl H) as [-> ->].
      constructor; cbn [m_rem m_fin m_ret].
      * intros i. cbn. destruct (rem_find i (m_rem m)); reflexivity.
      * intros i Hi. split; [|assumption]. intros e [<-|[]]. split; reflexivity.
      * intros i H1 H2. congruence.
      * right. split; [reflexivity|]. exists []. split; [reflexivity|]. split; [intros e [] | assumption].
      * intros e k [<-|[]] Hk. discriminate.
Qed.

Lemma last_split : forall (a b0 h0 : list event) x y, a ++ x :: b0 = h0 ++ [y] -> x <> y ->
  exists b, b0 = b ++ [y].
Proof.
  intros a b0 h0 x y H Hne. induction b0 as [|z b1 _] using rev_ind.
  - change (a ++ [x] = h0 ++ [y]) in H. apply app_inj_tail in H as [_ H]. contradiction.
  - exists b1. replace (a ++ x :: b1 ++ [z]) with ((a ++ x :: b1) ++ [z]) in H
      by (rewrite <- app_assoc; reflexivity).
    apply app_inj_tail in H as [_ ->]. reflexivity.
Qed.

Lemma rem_find_init : forall cfg i, In i (c_targets cfg) ->
  rem_find i (m_rem (mon_init cfg)) = Some (expected cfg i).
Proof. intros cfg i Hi. cbn [mon_init m_rem]. now apply (rem_find_map (expected cfg)). Qed.

Lemma rem_find_init_none : forall cfg i, ~ In i (c_targets cfg) -> rem_find i (m_rem (mon_init cfg)) = None.
Proof. intros cfg i Hi. cbn [mon_init m_rem]. now apply (rem_find_map_none (expected cfg)). Qed.

(** AN ACCEPTED COMPLETE HISTORY SATISFIES THE C10 AND C11 STATEMENTS *)
Theorem accepted_complete_ok : forall cfg h, accepts cfg h = true -> history_ok cfg h.
Proof.
  intros cfg h Hacc. unfold accepts in Hacc.
  destruct (mon_run cfg (mon_init cfg) h) as [m'|] eqn:Hrun; [|discriminate].
  destruct (mon_run_spec cfg h _ _ Hrun eq_refl) as [I1 I2 I3 I4 I5].
  destruct I4 as [[Hf _]|(_ & h0 & Hh & Hn & Hall)]; [congruence|].
  rewrite forallb_forall in Hall.
  assert (Hfin : forall i, In i (c_targets cfg) ->
            exists a b, h = a ++ EFinish i :: b /\ no_finish i a /\ quiet i b /\ rem_find i (m_rem m') = Some []).
  { intros i Hi. apply I3; [reflexivity | now apply Hall]. }
  split; [|split; [|split]].
  - intros i Hi. destruct (Hfin i Hi) as (_ & _ & _ & _ & _ & Hrem).
    specialize (I1 i). rewrite rem_find_init, Hrem in I1 by assumption.
    inversion I1 as [H1]. rewrite app_nil_r in H1. symmetry. exact H1.
  - intros e k He Hk. specialize (I5 e k He Hk).
    destruct (in_dec Z.eq_dec k (c_targets cfg)) as [Hin|Hnin]; [assumption|].
    rewrite rem_find_init_none in I5 by assumption. congruence.
  - exists h0. split; assumption.
  - intros i Hi. destruct (Hfin i Hi) as (a & b0 & Hab & Ha & Hb & _).
    destruct (last_split a b0 h0 (EFinish i) EReturn) as [b ->]; [congruence | discriminate|].
    exists a, b. split; [assumption|]. split; [assumption|].
    intros e He. apply Hb. apply in_or_app. now left.
Qed.

(** the content-only check used for C10 *)
Lemma recv_ok_sound : forall cfg h, recv_ok cfg h = true ->
  (forall i, In i (c_targets cfg) -> recvs_of i h = expected cfg i)
  /\ (forall e k, In e h -> event_tm e = Some k -> In k (c_targets cfg)).
Proof.
  intros cfg h H. unfold recv_ok in H. apply andb_true_iff in H as [H1 H2].
  rewrite forallb_forall in H1, H2. split.
  - intros i Hi. apply (list_eqb_eq msg_eqb msg_eqb_eq). now apply H1.
  - intros e k He Hk. specialize (H2 e He). rewrite Hk in H2. now apply memz_In.
Qed.

Lemma history_ok_recv_ok : forall cfg h, history_ok cfg h -> recv_ok cfg h = true.
Proof.
  intros cfg h (H1 & H2 & _). unfold recv_ok. apply andb_true_iff. split; apply forallb_forall.
  - intros i Hi. apply (list_eqb_eq msg_eqb msg_eqb_eq). now apply H1.
  - intros e He. destruct (event_tm e) as [k|] eqn:Ek; [|reflexivity]. apply memz_In. now apply (H2 e k).
Qed.

(** the two together: every complete run of the system produces a history with the C10/C11 shape *)
Theorem complete_trace_ok : forall cfg ls s, wf_config cfg -> exec cfg (init cfg) ls s -> s_main s = MRet ->
  history_ok cfg (obs_trace ls).
Proof. intros cfg ls s Hwf H Hm. apply accepted_complete_ok. now apply (trace_accepted cfg ls s). Qed.
