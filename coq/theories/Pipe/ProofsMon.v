(** * Pipe/ProofsMon.v — the history monitor is sound for the transition system:
      every trace of the system is accepted ([trace_accepted], [trace_prefix_accepted]) and an
      accepted complete history satisfies the C10/C11 statements ([accepted_complete_ok]). *)
From Coq Require Import ZArith NArith List Bool Lia.
From Texel Require Import Pipe.Model Pipe.ProofsBase Pipe.ProofsInv.
Import ListNotations.

(** ** What one step does to the observable part of the state *)

Definition returned (s : state) : bool := match s_main s with MRet => true | _ => false end.

Lemma recvd_wr : forall i s s', s_wr s' = s_wr s -> recvd i s' = recvd i s.
Proof. intros i s s' H. unfold recvd. now rewrite H. Qed.

Lemma finished_wr : forall i s s', s_wr s' = s_wr s -> finished i s' = finished i s.
Proof. intros i s s' H. unfold finished. now rewrite H. Qed.

(** effect of an update of writer [tm] that keeps [w_got] and changes the state from [st0] to [st1] *)
Lemma upd_effect : forall tm g ws w,
  (forall v, w_tm (g v) = w_tm v) -> find_writer tm ws = Some w ->
  forall i, find_writer i (upd_writer tm g ws) = if Z.eqb i tm then Some (g w) else find_writer i ws.
Proof.
  intros tm g ws w Hg Hf i. destruct (Z.eqb_spec i tm) as [->|Hne].
  - rewrite find_upd_same by assumption. now rewrite Hf.
  - now apply find_upd_other.
Qed.

Definition tau_effect (s s' : state) : Prop :=
  (forall i, recvd i s' = recvd i s) /\ (forall i, finished i s' = finished i s) /\ returned s' = returned s.

Lemma tau_of_wr : forall s s', s_wr s' = s_wr s -> s_main s' = s_main s -> tau_effect s s'.
Proof.
  intros s s' Hw Hm. split; [|split].
  - intros i. now apply recvd_wr.
  - intros i. now apply finished_wr.
  - unfold returned. now rewrite Hm.
Qed.

Lemma step_effect : forall cfg s l s', Inv cfg s -> step cfg s l = Some s' -> s_panic s' = None ->
  match l with
  | LRecv tm m =>
      (forall i, recvd i s' = if Z.eqb i tm then recvd i s ++ [m] else recvd i s)
      /\ (forall i, finished i s' = finished i s) /\ finished tm s = false
      /\ returned s' = returned s /\ In tm (map w_tm (s_wr s))
  | LFinish tm =>
      (forall i, recvd i s' = recvd i s)
      /\ (forall i, finished i s' = if Z.eqb i tm then true else finished i s) /\ finished tm s = false
      /\ returned s' = returned s
      /\ exists w, find_writer tm (s_wr s) = Some w /\ w_st w = WFin
  | LReturn =>
      (forall i, recvd i s' = recvd i s) /\ (forall i, finished i s' = finished i s)
      /\ s_main s = MWait /\ s_main s' = MRet /\ s_wgM s = 0
  | _ => tau_effect s s'
  end.
Proof.
  intros cfg s l s' HI H Hp'. unfold step in H. rewrite (inv_nopanic _ _ HI) in H.
  destruct (s_main s) eqn:Em.
  { destruct l; try discriminate. inversion H; subst; clear H.
    split; [|split]; try reflexivity. unfold returned. cbn. now rewrite Em. }
  all: destruct s as [mn wgM rd sn rt wgR ws pn]; cbn [s_main] in Em; subst mn.
  all: pose proof (inv_keys _ _ HI) as Hkeys; cbn [s_wr s_rt] in Hkeys.
  all: destruct l; cbn [step_started] in H; st_cbn; try discriminate.
  (* the labels that do not touch the writers *)
  all: try (match type of H with
            | context [find_writer] => fail 1
            | context [upd_writer] => fail 1
            | context [new_writer] => fail 1
            | _ => idtac
            end;
            repeat match type of H with
                   | context [match ?x with _ => _ end] => destruct x; try discriminate
                   end;
            inversion H; subst; clear H; try discriminate;
            first [ apply tau_of_wr; reflexivity
                  | repeat split; reflexivity ]).
  (* LRouterSpawn, twice *)
  1,7: destruct rt; try discriminate; inversion H; subst; clear H;
       destruct ws; [|discriminate];
       (split; [|split]; [ intros i | intros i | reflexivity ]);
       unfold recvd, finished; cbn [s_wr find_writer];
       (destruct (find_writer i (map new_writer (c_targets cfg))) as [w|] eqn:E; [|reflexivity]);
       apply find_writer_In in E as [E _]; apply in_map_iff in E as (t & <- & _); reflexivity.
  (* LDeliver, twice *)
  1,6: destruct rt as [| |tm m| |]; try discriminate;
       (destruct (find_writer tm ws) as [w|] eqn:Ef; [|inversion H; subst; discriminate]);
       (destruct (w_closed w); [inversion H; subst; discriminate|]);
       destruct (w_st w) eqn:Ew; try discriminate; inversion H; subst; clear H;
       (split; [|split]; [ intros i | intros i | reflexivity ]);
       unfold recvd, finished; cbn [s_wr];
       rewrite (upd_effect tm _ ws w (w_tm_set_st _) Ef);
       (destruct (Z.eqb_spec i tm) as [->|Hne]; [rewrite Ef; cbn; now rewrite ?Ew | reflexivity]).
  (* LRouterClose, twice *)
  1,5: destruct rt as [| | |todo|]; try discriminate;
       (destruct (memz tm todo); [|discriminate]); inversion H; subst; clear H;
       (split; [|split]; [ intros i | intros i | reflexivity ]);
       unfold recvd, finished; cbn [s_wr];
       (destruct (find_writer tm ws) as [w|] eqn:Ef;
        [ rewrite (upd_effect tm _ ws w w_tm_close Ef);
          destruct (Z.eqb_spec i tm) as [->|Hne]; [rewrite Ef; reflexivity | reflexivity]
        | destruct (Z.eq_dec i tm) as [->|Hne];
          [ rewrite find_upd_same by apply w_tm_close; rewrite Ef; reflexivity
          | rewrite find_upd_other by (try apply w_tm_close; assumption); reflexivity ] ]).
  (* LRecv, twice *)
  1,4: (destruct (find_writer tm ws) as [w|] eqn:Ef; [|discriminate]);
       destruct (w_st w) eqn:Ew; try discriminate;
       (destruct (msg_eqb m m0) eqn:Eq; [|discriminate]); apply msg_eqb_eq in Eq; subst m0;
       inversion H; subst; clear H;
       (split; [|split; [|split; [|split]]]);
       [ intros i; unfold recvd; cbn [s_wr]; rewrite (upd_effect tm _ ws w (w_tm_handle _) Ef);
         destruct (Z.eqb_spec i tm) as [->|Hne]; [rewrite Ef; reflexivity | reflexivity]
       | intros i; unfold finished; cbn [s_wr]; rewrite (upd_effect tm _ ws w (w_tm_handle _) Ef);
         destruct (Z.eqb_spec i tm) as [->|Hne]; [rewrite Ef, Ew; reflexivity | reflexivity]
       | unfold finished; cbn [s_wr]; rewrite Ef, Ew; reflexivity
       | reflexivity
       | cbn [s_wr]; apply find_writer_In in Ef as [Ef <-]; now apply in_map ].
  (* LWriterEof, twice *)
  1,3: (destruct (find_writer tm ws) as [w|] eqn:Ef; [|discriminate]);
       destruct (w_st w) eqn:Ew; try discriminate; (destruct (w_closed w); [|discriminate]);
       inversion H; subst; clear H;
       (split; [|split]; [ intros i | intros i | reflexivity ]);
       unfold recvd, finished; cbn [s_wr];
       rewrite (upd_effect tm _ ws w (w_tm_set_st _) Ef);
       (destruct (Z.eqb_spec i tm) as [->|Hne]; [rewrite Ef; cbn; now rewrite ?Ew | reflexivity]).
  (* LFinish, twice *)
  all: (destruct (find_writer tm ws) as [w|] eqn:Ef; [|discriminate]);
       destruct (w_st w) eqn:Ew; try discriminate;
       (destruct wgR; [inversion H; subst; discriminate|]); inversion H; subst; clear H;
       (split; [|split; [|split; [|split]]]);
       [ intros i; unfold recvd; cbn [s_wr]; rewrite (upd_effect tm _ ws w (w_tm_set_st _) Ef);
         destruct (Z.eqb_spec i tm) as [->|Hne]; [rewrite Ef; reflexivity | reflexivity]
       | intros i; unfold finished; cbn [s_wr]; rewrite (upd_effect tm _ ws w (w_tm_set_st _) Ef);
         destruct (Z.eqb_spec i tm) as [->|Hne]; reflexivity
       | unfold finished; cbn [s_wr]; rewrite Ef, Ew; reflexivity
       | reflexivity
       | exists w; cbn [s_wr]; split; assumption ].
Qed.

(** ** The simulation between system and monitor *)

Definition rest (i : tmid) (s : state) : list msg := inflight i s ++ future i s.

Record Sim (cfg : config) (s : state) (m : mon) : Prop := {
  sim_rem : m_rem m = map (fun t => (t, rest t s)) (c_targets cfg);
  sim_fin : forall i, memz i (m_fin m) = finished i s;
  sim_ret : m_ret m = returned s
}.

Lemma rem_find_map : forall (f : tmid -> list msg) i ts, In i ts ->
  rem_find i (map (fun t => (t, f t)) ts) = Some (f i).
Proof.
  induction ts as [|t r IH]; cbn [map rem_find In]; [tauto|]. intros H.
  destruct (Z.eqb_spec t i) as [->|E]; [reflexivity|]. destruct H; [contradiction | auto].
Qed.

Lemma rem_find_map_none : forall (f : tmid -> list msg) i ts, ~ In i ts ->
  rem_find i (map (fun t => (t, f t)) ts) = None.
Proof.
  induction ts as [|t r IH]; cbn [map rem_find In]; [reflexivity|]. intros H.
  destruct (Z.eqb_spec t i) as [->|E]; [tauto | apply IH; tauto].
Qed.

Lemma rem_set_map : forall (f g : tmid -> list msg) i v ts, NoDup ts ->
  g i = v -> (forall t, In t ts -> t <> i -> g t = f t) ->
  rem_set i v (map (fun t => (t, f t)) ts) = map (fun t => (t, g t)) ts.
Proof.
  intros f g i v. induction ts as [|t r IH]; cbn [map rem_set]; intros Hnd Hi Ho; [reflexivity|].
  inversion Hnd as [|? ? Hn Hr]; subst.
  destruct (Z.eqb_spec t i) as [->|E].
  - f_equal. apply map_ext_in. intros t Ht. rewrite Ho; [reflexivity | now right |]. intros ->. contradiction.
  - rewrite Ho by (try (now left); assumption). f_equal. apply IH; [assumption | reflexivity |].
    intros t' Ht' Hne. apply Ho; [now right | assumption].
Qed.

Lemma rest_same : forall cfg s s' i, Inv cfg s -> Inv cfg s' -> In i (c_targets cfg) ->
  recvd i s' = recvd i s -> rest i s' = rest i s.
Proof.
  intros cfg s s' i HI HI' Hi Hr. pose proof (inv_data _ _ HI i Hi) as H1. pose proof (inv_data _ _ HI' i Hi) as H2.
  rewrite Hr, <- H1 in H2. apply app_inv_head in H2. exact H2.
Qed.

Lemma rest_recv : forall cfg s s' i m, Inv cfg s -> Inv cfg s' -> In i (c_targets cfg) ->
  recvd i s' = recvd i s ++ [m] -> rest i s = m :: rest i s'.
Proof.
  intros cfg s s' i m HI HI' Hi Hr. pose proof (inv_data _ _ HI i Hi) as H1. pose proof (inv_data _ _ HI' i Hi) as H2.
  rewrite Hr, <- H1, <- app_assoc in H2. apply app_inv_head in H2. cbn [app] in H2. symmetry. exact H2.
Qed.

Lemma mon_run_app : forall cfg h1 h2 m,
  mon_run cfg m (h1 ++ h2) = match mon_run cfg m h1 with Some m' => mon_run cfg m' h2 | None => None end.
Proof.
  induction h1 as [|e r IH]; cbn [mon_run app]; intros h2 m; [reflexivity|].
  destruct (mon_step cfg m e); [apply IH | reflexivity].
Qed.

Lemma obs_trace_app : forall a b, obs_trace (a ++ b) = obs_trace a ++ obs_trace b.
Proof. intros. unfold obs_trace. apply flat_map_app. Qed.

Lemma sim_tau : forall cfg s s' m, Inv cfg s -> Inv cfg s' -> tau_effect s s' -> Sim cfg s m -> Sim cfg s' m.
Proof.
  intros cfg s s' m HI HI' (Hr & Hf & Hret) [S1 S2 S3]. constructor.
  - rewrite S1. apply map_ext_in. intros t Ht. f_equal. symmetry. apply (rest_same cfg s s' t HI HI' Ht (Hr t)).
  - intros i. now rewrite S2, Hf.
  - now rewrite S3, Hret.
Qed.

