(** * Pipe/ProofsInv.v — executions, reachable states, and the invariant of the pipeline
      (all streams, all target sets, all outcomes, all schedules). *)
From Coq Require Import ZArith NArith List Bool Lia.
From Texel Require Import Pipe.Model Pipe.ProofsBase.
Import ListNotations.

(** ** Executions: any sequence of enabled steps *)

Inductive exec (cfg : config) : state -> list label -> state -> Prop :=
| exec_nil : forall s, exec cfg s [] s
| exec_snoc : forall s ls s' l s'', exec cfg s ls s' -> step cfg s' l = Some s'' -> exec cfg s (ls ++ [l]) s''.

Definition reachable (cfg : config) (s : state) : Prop := exists ls, exec cfg (init cfg) ls s.

Lemma run_app : forall cfg ls1 ls2 s,
  run cfg s (ls1 ++ ls2) = match run cfg s ls1 with Some s' => run cfg s' ls2 | None => None end.
Proof.
  induction ls1 as [|l r IH]; cbn [run app]; intros ls2 s; [reflexivity|].
  destruct (step cfg s l); [apply IH | reflexivity].
Qed.

Lemma exec_run : forall cfg s ls s', exec cfg s ls s' <-> run cfg s ls = Some s'.
Proof.
  intros cfg s ls s'. split.
  - induction 1 as [|s ls s1 l s2 _ IH Hs]; [reflexivity|].
    rewrite run_app, IH. cbn [run]. now rewrite Hs.
  - revert s'. induction ls as [|l r IH] using rev_ind; intros s' H.
    + cbn [run] in H. inversion H; subst. constructor.
    + rewrite run_app in H. destruct (run cfg s r) as [s1|] eqn:E; [|discriminate].
      cbn [run] in H. destruct (step cfg s1 l) as [s2|] eqn:Es; [|discriminate]. inversion H; subst.
      econstructor; [apply IH; reflexivity | exact Es].
Qed.

Lemma reachable_init : forall cfg, reachable cfg (init cfg).
Proof. intros cfg. exists []. constructor. Qed.

Lemma reachable_step : forall cfg s l s', reachable cfg s -> step cfg s l = Some s' -> reachable cfg s'.
Proof. intros cfg s l s' [ls H] Hs. exists (ls ++ [l]). econstructor; eassumption. Qed.

(** ** The invariant *)

Definition rd_closed (r : rdstate) : bool := match r with RdRun _ => false | _ => true end.
Definition sn_past_eof (x : snstate) : bool := match x with SEof | SLog | SExit => true | _ => false end.
Definition sn_closed (x : snstate) : bool := match x with SLog | SExit => true | _ => false end.
Definition rt_past_eof (x : rtstate) : bool := match x with TClosing _ | TDone => true | _ => false end.
Definition chan_closed (x : rtstate) (i : tmid) : bool :=
  match x with TClosing todo => negb (memz i todo) | TDone => true | _ => false end.
Definition w_live (w : writer) : nat := match w_st w with WDone => 0 | _ => 1 end.

Record Inv (cfg : config) (s : state) : Prop := {
  inv_nopanic : s_panic s = None;
  inv_init : s_main s = MInit -> s = init cfg;
  inv_wgM : s_main s <> MInit -> s_wgM s = match s_rt s with TDone => 0 | _ => 1 end;
  inv_ret : s_main s = MRet -> s_rt s = TDone;
  inv_keys : map w_tm (s_wr s) = match s_rt s with TInit => [] | _ => c_targets cfg end;
  inv_wgR : s_wgR s = list_sum (map w_live (s_wr s));
  inv_done : s_rt s = TDone -> s_wgR s = 0;
  inv_sn_rd : sn_past_eof (s_sn s) = true -> rd_closed (s_rd s) = true;
  inv_rt_sn : rt_past_eof (s_rt s) = true -> sn_closed (s_sn s) = true;
  inv_writers : forall i w, find_writer i (s_wr s) = Some w ->
      w_closed w = chan_closed (s_rt s) i /\ (w_st w = WFin \/ w_st w = WDone -> w_closed w = true);
  inv_rd_wf : match s_rd s with RdRun rest => Forall (wf_feature (c_targets cfg)) rest | _ => True end;
  inv_sn_wf : match s_sn s with
              | SHave f => wf_feature (c_targets cfg) f
              | SSend _ _ l => pend_ok (c_targets cfg) l
              | _ => True
              end;
  inv_rt_have : match s_rt s with THave tm _ => In tm (c_targets cfg) | _ => True end;
  (** C10: handled ++ in flight ++ still in the source = what the target must get *)
  inv_data : forall i, In i (c_targets cfg) ->
      recvd i s ++ inflight i s ++ future i s = expected cfg i
}.

Lemma inv_init_state : forall cfg, wf_config cfg -> Inv cfg (init cfg).
Proof.
  intros cfg [Hnd Hwf]. constructor; cbn; try reflexivity; try tauto; try discriminate;
    try (intros; discriminate); try exact Hwf.
Qed.

(** writers after an update of one of them *)
Lemma writers_upd : forall (P Q : tmid -> writer -> Prop) tm g ws,
  (forall w, w_tm (g w) = w_tm w) ->
  (forall i w, find_writer i ws = Some w -> P i w) ->
  (forall w, find_writer tm ws = Some w -> P tm w -> Q tm (g w)) ->
  (forall i w, i <> tm -> P i w -> Q i w) ->
  forall i w, find_writer i (upd_writer tm g ws) = Some w -> Q i w.
Proof.
  intros P Q tm g ws Hg HP Hsame Hother i w H.
  destruct (Z.eq_dec i tm) as [->|Hne].
  - rewrite find_upd_same in H by assumption.
    destruct (find_writer tm ws) as [v|] eqn:E; [|discriminate]. cbn in H. inversion H; subst. auto.
  - rewrite find_upd_other in H by assumption. auto.
Qed.

Lemma memz_remove_tm : forall i tm l, i <> tm -> memz i (remove_tm tm l) = memz i l.
Proof.
  intros i tm l Hne. destruct (memz i l) eqn:E.
  - apply memz_In. apply In_remove_tm. split; [now apply memz_In | assumption].
  - apply memz_false. rewrite In_remove_tm. apply memz_false in E. tauto.
Qed.

Lemma memz_remove_tm_same : forall tm l, memz tm (remove_tm tm l) = false.
Proof. intros. apply memz_false. rewrite In_remove_tm. tauto. Qed.

Lemma expected_of_cons : forall i f r, expected_of i (f :: r) = feat_msgs i f ++ expected_of i r.
Proof. reflexivity. Qed.

(** data projections of a state, on its components *)
Definition got_of (ow : option writer) : list msg := match ow with Some w => w_got w | None => [] end.
Definition hold_of (ow : option writer) : list msg :=
  match ow with Some w => match w_st w with WHold m => [m] | _ => [] end | None => [] end.

Lemma data_unfold : forall i s,
  recvd i s ++ inflight i s ++ future i s
  = got_of (find_writer i (s_wr s)) ++ (hold_of (find_writer i (s_wr s)) ++ rt_hold i s ++ sn_hold i s) ++ future i s.
Proof. reflexivity. Qed.

Lemma sum_live_new : forall ts, list_sum (map w_live (map new_writer ts)) = length ts.
Proof.
  unfold list_sum. induction ts as [|t r IH]; cbn [map fold_right length]; [reflexivity|].
  rewrite IH. reflexivity.
Qed.

Lemma sum_live_close : forall tm ws,
  list_sum (map w_live (upd_writer tm w_close ws)) = list_sum (map w_live ws).
Proof.
  unfold list_sum. induction ws as [|v r IH]; cbn [upd_writer map fold_right]; [reflexivity|].
  destruct (Z.eqb (w_tm v) tm); cbn [map fold_right]; [reflexivity | now rewrite IH].
Qed.

Ltac inv_pre HI :=
  destruct HI as [Hnp Hin HwgM Hret Hkeys HwgR Hdone Hsnrd Hrtsn Hwr Hrdwf Hsnwf Hhave Hdata];
  cbn [s_main s_wgM s_rd s_sn s_rt s_wgR s_wr s_panic] in *.

Ltac st_cbn :=
  cbn [s_main s_wgM s_rd s_sn s_rt s_wgR s_wr s_panic
       set_main set_wgM set_rd set_sn set_rt set_wgR set_wr set_panic] in *.

Ltac data_cbn :=
  cbn [future sn_hold rt_hold s_main s_wgM s_rd s_sn s_rt s_wgR s_wr s_panic
       set_main set_wgM set_rd set_sn set_rt set_wgR set_wr set_panic] in *.

Ltac inv_auto :=
  constructor; st_cbn; auto; try (intros; discriminate); try (intros; contradiction); try tauto;
  try (match goal with
       | H : ?m = MRet -> _ |- ?m = MRet -> _ => let HX := fresh in intros HX; specialize (H HX); discriminate
       end).

(** The step relation after [LMainStart] preserves the invariant. *)
Lemma inv_step_started : forall cfg s l s', wf_config cfg -> Inv cfg s -> s_main s <> MInit ->
  step_started cfg s l = Some s' -> Inv cfg s'.
Proof.
  intros cfg s l s' [Hts Hsrc] HI Hstarted H.
  destruct s as [mn wgM rd sn rt wgR ws pn].
  inv_pre HI. subst pn.
  destruct l; cbn [step_started] in H; st_cbn.
  - (* LMainStart *) discriminate.
  - (* LReadSend *)
    destruct rd as [[|f r]| |]; try discriminate. destruct sn; try discriminate.
    inversion H; subst; clear H. inversion Hrdwf as [|? ? Hf Hr]; subst.
    inv_auto.
    + intros i Hi. specialize (Hdata i Hi). rewrite data_unfold in *.
      data_cbn. rewrite expected_of_cons in Hdata.
      rewrite <- Hdata. rewrite <- !app_assoc. cbn [app]. reflexivity.
  - (* LReadClose *)
    destruct rd as [[|f r]| |]; try discriminate. inversion H; subst; clear H.
    inv_auto.
  - (* LReadExit *)
    destruct rd as [r| |]; try discriminate. inversion H; subst; clear H.
    inv_auto.
  - (* LSnapCompute *)
    destruct sn; try discriminate. inversion H; subst; clear H.
    inv_auto.
    + now apply fanout_ok.
    + intros i Hi. specialize (Hdata i Hi). rewrite data_unfold in *.
      data_cbn.
      rewrite fanout_deliver by assumption. exact Hdata.
  - (* LSnapSend *)
    destruct sn as [|f|id ord pending| | |]; try discriminate.
    destruct (take_pend ord tm pending) as [[og pending']|] eqn:Et; [|discriminate].
    apply take_pend_key in Et.
    destruct (take_key_ok _ _ _ _ _ Et Hsnwf) as (Hok' & Htm & Hog).
    destruct og as [g|]; [|congruence].
    destruct rt; try discriminate. inversion H; subst; clear H.
    inv_auto.
    + intros i Hi. specialize (Hdata i Hi). rewrite data_unfold in *.
      data_cbn.
      destruct Hsnwf as (Hnd & _ & _).
      rewrite (take_key_msgs id i tm _ _ _ Et Hnd) in Hdata. cbn [opt_msgs] in Hdata.
      rewrite <- Hdata. destruct (Z.eqb tm i); reflexivity.
  - (* LSnapLoop *)
    destruct sn as [|f|id ord [|e pending]| | |]; try discriminate. inversion H; subst; clear H.
    inv_auto.
  - (* LSnapEof *)
    destruct sn; try discriminate.
    assert (Hc : rd_closed rd = true) by (destruct rd; [discriminate | reflexivity | reflexivity]).
    assert (Hs' : s' = MkState mn wgM rd SEof rt wgR ws None) by (destruct rd; [discriminate | |]; now inversion H).
    subst s'. clear H.
    inv_auto.
  - (* LSnapClose *)
    destruct sn; try discriminate. inversion H; subst; clear H.
    inv_auto.
  - (* LSnapExit *)
    destruct sn; try discriminate. inversion H; subst; clear H.
    inv_auto.
  - (* LRouterSpawn *)
    destruct rt; try discriminate. inversion H; subst; clear H.
    destruct ws; [|discriminate].
    inv_auto.
    + apply map_tm_new.
    + rewrite sum_live_new. reflexivity.
    + intros i w Hf. cbn [chan_closed].
      apply find_writer_In in Hf as [Hf _]. apply in_map_iff in Hf as (t & <- & _). cbn.
      split; [reflexivity | intros [E|E]; discriminate].
    + intros i Hi. specialize (Hdata i Hi). rewrite data_unfold in *.
      data_cbn.
      rewrite (find_new_writer i _ Hi). cbn. exact Hdata.
  - (* LDeliver *)
    destruct rt as [| |tm m| |]; try discriminate.
    destruct (find_writer tm ws) as [w|] eqn:Ef.
    2:{ exfalso. apply find_writer_None in Ef. rewrite Hkeys in Ef. contradiction. }
    destruct (Hwr _ _ Ef) as [Hcl Hst]. cbn [chan_closed] in Hcl. rewrite Hcl in H.
    destruct (w_st w) eqn:Ew; try discriminate. inversion H; subst; clear H.
    inv_auto.
    + rewrite map_tm_upd by apply w_tm_set_st. exact Hkeys.
    + pose proof (sum_upd w_live tm (w_set_st (WHold m)) ws w Ef) as Hs.
      assert (Hl1 : w_live w = 1) by (unfold w_live; rewrite Ew; reflexivity).
      change (w_live (w_set_st (WHold m) w)) with 1 in Hs. rewrite Hl1 in Hs. lia.
    + apply (writers_upd (fun i w => w_closed w = false /\ (w_st w = WFin \/ w_st w = WDone -> w_closed w = true)));
        [apply w_tm_set_st | exact Hwr | | ].
      * intros v Hv [Hv1 Hv2]. cbn. split; [assumption | intros [E|E]; discriminate].
      * intros i v _ Hv. exact Hv.
    + intros i Hi. specialize (Hdata i Hi). rewrite data_unfold in *.
      data_cbn.
      destruct (Z.eqb_spec tm i) as [->|Hne].
      * rewrite find_upd_same by apply w_tm_set_st. rewrite Ef in *. cbn [option_map got_of hold_of w_set_st w_st w_got] in *.
        rewrite Ew in Hdata. exact Hdata.
      * rewrite find_upd_other by (try apply w_tm_set_st; congruence). exact Hdata.
  - (* LRouterEof *)
    destruct rt; try discriminate.
    assert (Hc : sn_closed sn = true) by (destruct sn; try discriminate; reflexivity).
    assert (Hs' : s' = MkState mn wgM rd sn (TClosing (c_targets cfg)) wgR ws None)
      by (destruct sn; try discriminate; now inversion H).
    subst s'. clear H.
    inv_auto.
    + intros i w Hf. destruct (Hwr _ _ Hf) as [Hcl Hst]. cbn [chan_closed] in *. split; [|assumption].
      rewrite Hcl. symmetry. apply negb_false_iff. apply memz_In.
      apply find_writer_In in Hf as [Hf <-]. rewrite <- Hkeys. now apply in_map.
  - (* LRouterClose *)
    destruct rt as [| | |todo|]; try discriminate.
    destruct (memz tm todo) eqn:Em; [|discriminate]. inversion H; subst; clear H.
    inv_auto.
    + rewrite map_tm_upd by apply w_tm_close. exact Hkeys.
    + symmetry. apply sum_live_close.
    + apply (writers_upd (fun i w => w_closed w = negb (memz i todo) /\ (w_st w = WFin \/ w_st w = WDone -> w_closed w = true)));
        [apply w_tm_close | exact Hwr | | ].
      * intros v Hv [Hv1 Hv2]. cbn. rewrite memz_remove_tm_same. split; [reflexivity | reflexivity].
      * intros i v Hne [Hv1 Hv2]. cbn [chan_closed]. rewrite memz_remove_tm by assumption. split; assumption.
    + intros i Hi. specialize (Hdata i Hi). rewrite data_unfold in *.
      data_cbn.
      destruct (Z.eq_dec i tm) as [->|Hne].
      * rewrite find_upd_same by apply w_tm_close. destruct (find_writer tm ws); exact Hdata.
      * rewrite find_upd_other by (try apply w_tm_close; assumption). exact Hdata.
  - (* LRouterWait *)
    destruct rt as [| | |[|t todo]|]; try discriminate. destruct wgR; [|discriminate].
    rewrite HwgM in H by assumption. inversion H; subst; clear H.
    inv_auto.
  - (* LRecv *)
    destruct (find_writer tm ws) as [w|] eqn:Ef; [|discriminate].
    destruct (w_st w) eqn:Ew; try discriminate.
    destruct (msg_eqb m m0) eqn:Em; [|discriminate]. apply msg_eqb_eq in Em. subst m0.
    inversion H; subst; clear H.
    inv_auto.
    + rewrite map_tm_upd by apply w_tm_handle. exact Hkeys.
    + pose proof (sum_upd w_live tm (w_handle m) ws w Ef) as Hs.
      assert (Hl1 : w_live w = 1) by (unfold w_live; rewrite Ew; reflexivity).
      change (w_live (w_handle m w)) with 1 in Hs. rewrite Hl1 in Hs. lia.
    + apply (writers_upd (fun i w => w_closed w = chan_closed rt i /\ (w_st w = WFin \/ w_st w = WDone -> w_closed w = true)));
        [apply w_tm_handle | exact Hwr | | ].
      * intros v Hv [Hv1 Hv2]. cbn. split; [assumption | intros [E|E]; discriminate].
      * intros i v _ Hv. exact Hv.
    + intros i Hi. specialize (Hdata i Hi). rewrite data_unfold in *.
      data_cbn.
      destruct (Z.eq_dec i tm) as [->|Hne].
      * rewrite find_upd_same by apply w_tm_handle. rewrite Ef in *.
        cbn [option_map got_of hold_of w_handle w_st w_got] in *. rewrite Ew in Hdata.
        rewrite <- Hdata. rewrite <- !app_assoc. reflexivity.
      * rewrite find_upd_other by (try apply w_tm_handle; assumption). exact Hdata.
  - (* LWriterEof *)
    destruct (find_writer tm ws) as [w|] eqn:Ef; [|discriminate].
    destruct (w_st w) eqn:Ew; try discriminate. destruct (w_closed w) eqn:Ec; [|discriminate].
    inversion H; subst; clear H.
    inv_auto.
    + rewrite map_tm_upd by apply w_tm_set_st. exact Hkeys.
    + pose proof (sum_upd w_live tm (w_set_st WFin) ws w Ef) as Hs.
      assert (Hl1 : w_live w = 1) by (unfold w_live; rewrite Ew; reflexivity).
      change (w_live (w_set_st WFin w)) with 1 in Hs. rewrite Hl1 in Hs. lia.
    + apply (writers_upd (fun i w => w_closed w = chan_closed rt i /\ (w_st w = WFin \/ w_st w = WDone -> w_closed w = true)));
        [apply w_tm_set_st | exact Hwr | | ].
      * intros v Hv [Hv1 Hv2]. rewrite Ef in Hv. inversion Hv; subst v. cbn. split; [assumption | intros _; assumption].
      * intros i v _ Hv. exact Hv.
    + intros i Hi. specialize (Hdata i Hi). rewrite data_unfold in *.
      data_cbn.
      destruct (Z.eq_dec i tm) as [->|Hne].
      * rewrite find_upd_same by apply w_tm_set_st. rewrite Ef in *.
        cbn [option_map got_of hold_of w_set_st w_st w_got] in *. rewrite Ew in Hdata. exact Hdata.
      * rewrite find_upd_other by (try apply w_tm_set_st; assumption). exact Hdata.
  - (* LFinish *)
    destruct (find_writer tm ws) as [w|] eqn:Ef; [|discriminate].
    destruct (w_st w) eqn:Ew; try discriminate.
    pose proof (sum_upd w_live tm (w_set_st WDone) ws w Ef) as Hs.
      assert (Hl1 : w_live w = 1) by (unfold w_live; rewrite Ew; reflexivity).
      change (w_live (w_set_st WDone w)) with 0 in Hs. rewrite Hl1 in Hs.
    destruct wgR as [|n]; [lia|]. inversion H; subst; clear H.
    inv_auto.
    + rewrite map_tm_upd by apply w_tm_set_st. exact Hkeys.
    + lia.
    + intros E. specialize (Hdone E). discriminate.
    + apply (writers_upd (fun i w => w_closed w = chan_closed rt i /\ (w_st w = WFin \/ w_st w = WDone -> w_closed w = true)));
        [apply w_tm_set_st | exact Hwr | | ].
      * intros v Hv [Hv1 Hv2]. rewrite Ef in Hv. inversion Hv; subst v. cbn. split; [assumption | intros _; apply Hv2; now left].
      * intros i v _ Hv. exact Hv.
    + intros i Hi. specialize (Hdata i Hi). rewrite data_unfold in *.
      data_cbn.
      destruct (Z.eq_dec i tm) as [->|Hne].
      * rewrite find_upd_same by apply w_tm_set_st. rewrite Ef in *.
        cbn [option_map got_of hold_of w_set_st w_st w_got] in *. rewrite Ew in Hdata. exact Hdata.
      * rewrite find_upd_other by (try apply w_tm_set_st; assumption). exact Hdata.
  - (* LReturn *)
    destruct mn; try discriminate. destruct wgM; [|discriminate]. inversion H; subst; clear H.
    assert (Hrt : rt = TDone).
    { specialize (HwgM Hstarted). destruct rt; try discriminate; reflexivity. }
    subst rt.
    inv_auto.
Qed.

Lemma inv_step : forall cfg s l s', wf_config cfg -> Inv cfg s -> step cfg s l = Some s' -> Inv cfg s'.
Proof.
  intros cfg s l s' Hwf HI H. unfold step in H. rewrite (inv_nopanic _ _ HI) in H.
  destruct (s_main s) eqn:Em.
  - destruct l; try discriminate. inversion H; subst; clear H.
    rewrite (inv_init _ _ HI Em). destruct Hwf as [Hts Hsrc].
    constructor; cbn; try reflexivity; try tauto; try discriminate; try (intros; discriminate); try exact Hsrc.
  - apply (inv_step_started cfg s l s' Hwf HI); [congruence | exact H].
  - apply (inv_step_started cfg s l s' Hwf HI); [congruence | exact H].
Qed.

Theorem reachable_inv : forall cfg s, wf_config cfg -> reachable cfg s -> Inv cfg s.
Proof.
  intros cfg s Hwf [ls H]. remember (init cfg) as s0 eqn:E0.
  induction H as [s0|s0 ls s1 l s2 _ IH Hs]; subst.
  - now apply inv_init_state.
  - eapply inv_step; eauto.
Qed.

(** ** Consequences *)

(** C10, the invariant itself *)
Theorem data_invariant : forall cfg s, wf_config cfg -> reachable cfg s ->
  forall i, In i (c_targets cfg) -> recvd i s ++ inflight i s ++ future i s = expected cfg i.
Proof. intros cfg s Hwf Hr. exact (inv_data _ _ (reachable_inv cfg s Hwf Hr)). Qed.

(** no panic is reachable: no "no new polygon", no missing channel, no send on a closed channel,
    no negative wait group counter *)
Theorem no_panic : forall cfg s, wf_config cfg -> reachable cfg s -> s_panic s = None.
Proof. intros cfg s Hwf Hr. exact (inv_nopanic _ _ (reachable_inv cfg s Hwf Hr)). Qed.

Lemma live_zero_done : forall ws, list_sum (map w_live ws) = 0 -> forall w, In w ws -> w_st w = WDone.
Proof.
  induction ws as [|v r IH]; cbn [map list_sum fold_right In]; intros H w Hin; [tauto|].
  destruct Hin as [->|Hin].
  - unfold w_live in H. destruct (w_st w); try reflexivity; cbn in H; lia.
  - apply IH; [|assumption]. unfold list_sum. lia.
Qed.

Lemma live_pos_ex : forall ws, list_sum (map w_live ws) <> 0 -> exists w, In w ws /\ w_st w <> WDone.
Proof.
  induction ws as [|v r IH]; cbn [map list_sum fold_right In]; intros H; [lia|].
  destruct (w_st v) eqn:E.
  1-3: exists v; split; [now left | congruence].
  unfold w_live at 1 in H. rewrite E in H. cbn in H. destruct (IH H) as (w & Hin & Hw).
  exists w. split; [now right | assumption].
Qed.

(** when the router has returned every target has finished and has handled exactly its features *)
Lemma router_done_all : forall cfg s, wf_config cfg -> Inv cfg s -> s_rt s = TDone ->
  forall i, In i (c_targets cfg) ->
    exists w, find_writer i (s_wr s) = Some w /\ w_st w = WDone /\ w_closed w = true /\ w_got w = expected cfg i
              /\ inflight i s = [] /\ future i s = [].
Proof.
  intros cfg s [Hts _] HI Hrt i Hi.
  pose proof (inv_keys _ _ HI) as Hkeys. rewrite Hrt in Hkeys.
  destruct (find_writer_Some_ex i (s_wr s)) as [w Hf]; [now rewrite Hkeys|].
  pose proof (inv_done _ _ HI Hrt) as H0. rewrite (inv_wgR _ _ HI) in H0.
  pose proof (live_zero_done _ H0 w (proj1 (find_writer_In _ _ _ Hf))) as Hst.
  destruct (inv_writers _ _ HI _ _ Hf) as [Hcl _]. rewrite Hrt in Hcl. cbn in Hcl.
  pose proof (inv_rt_sn _ _ HI) as Hsn. rewrite Hrt in Hsn. specialize (Hsn eq_refl).
  pose proof (inv_sn_rd _ _ HI) as Hrd.
  assert (Hpe : sn_past_eof (s_sn s) = true) by (destruct (s_sn s); try discriminate; reflexivity).
  specialize (Hrd Hpe).
  assert (Hfl : inflight i s = []).
  { unfold inflight, w_hold, rt_hold, sn_hold. rewrite Hf, Hst, Hrt. destruct (s_sn s); try discriminate; reflexivity. }
  assert (Hfu : future i s = []).
  { unfold future. destruct (s_rd s); try discriminate; reflexivity. }
  pose proof (inv_data _ _ HI i Hi) as Hd. rewrite Hfl, Hfu in Hd. cbn [app] in Hd. rewrite app_nil_r in Hd.
  unfold recvd in Hd. rewrite Hf in Hd.
  exists w. repeat split; assumption.
Qed.

(** C11: ProcessFeatures returns only when every target has finished and has handled everything *)
Theorem return_after_finish : forall cfg s, wf_config cfg -> reachable cfg s -> s_main s = MRet ->
  forall i, In i (c_targets cfg) -> finished i s = true /\ recvd i s = expected cfg i.
Proof.
  intros cfg s Hwf Hr Hm i Hi. pose proof (reachable_inv cfg s Hwf Hr) as HI.
  destruct (router_done_all cfg s Hwf HI (inv_ret _ _ HI Hm) i Hi) as (w & Hf & Hst & _ & Hg & _).
  unfold finished, recvd. rewrite Hf, Hst. split; [reflexivity | exact Hg].
Qed.

(** C11: when ProcessFeatures returns, reader and snapper have no blocking operation left:
    both channels they write to are closed; only local steps (log lines, return) remain *)
Theorem quiescent_after_return : forall cfg s, wf_config cfg -> reachable cfg s -> s_main s = MRet ->
  (s_sn s = SLog \/ s_sn s = SExit) /\ (s_rd s = RdClosed \/ s_rd s = RdExit) /\ s_rt s = TDone.
Proof.
  intros cfg s Hwf Hr Hm. pose proof (reachable_inv cfg s Hwf Hr) as HI.
  pose proof (inv_ret _ _ HI Hm) as Hrt.
  pose proof (inv_rt_sn _ _ HI) as Hsn. rewrite Hrt in Hsn. specialize (Hsn eq_refl).
  pose proof (inv_sn_rd _ _ HI) as Hrd.
  assert (Hpe : sn_past_eof (s_sn s) = true) by (destruct (s_sn s); try discriminate; reflexivity).
  specialize (Hrd Hpe).
  repeat split; [destruct (s_sn s); try discriminate; tauto | destruct (s_rd s); try discriminate; tauto | assumption].
Qed.

(** the final state is unique: whatever the schedule, every target ends with exactly its sequence *)
Theorem final_state_unique : forall cfg s, wf_config cfg -> reachable cfg s -> final s = true ->
  s = final_state cfg.
Proof.
  intros cfg s Hwf Hr Hf. pose proof (reachable_inv cfg s Hwf Hr) as HI.
  destruct s as [mn wgM rd sn rt wgR ws pn]. unfold final in Hf. cbn in Hf.
  destruct mn, rd, sn, rt, pn; try discriminate. clear Hf.
  pose proof (inv_wgM _ _ HI) as H1. cbn in H1. rewrite H1 by discriminate.
  pose proof (inv_done _ _ HI eq_refl) as H2. cbn in H2. subst wgR.
  unfold final_state. f_equal.
  pose proof (inv_keys _ _ HI) as Hkeys. cbn in Hkeys.
  assert (Hall : forall w, In w ws -> w = MkWriter (w_tm w) true WDone (expected cfg (w_tm w))).
  { intros w Hin.
    assert (Hi : In (w_tm w) (c_targets cfg)) by (rewrite <- Hkeys; now apply in_map).
    destruct (router_done_all cfg _ Hwf HI eq_refl _ Hi) as (v & Hv & Hst & Hcl & Hg & _). cbn in Hv.
    rewrite In_find_writer in Hv; [|rewrite Hkeys; apply Hwf | assumption]. inversion Hv; subst v.
    destruct w as [t c st g]. cbn in *. subst. reflexivity. }
  rewrite <- Hkeys. clear - Hall. induction ws as [|v r IH]; cbn [map]; [reflexivity|].
  rewrite <- IH by (intros w Hw; apply Hall; now right). f_equal. apply Hall. now left.
Qed.

(** C10 at the end: source order, exactly once, only its own tile matrix's geometry, nothing for
    a dropped feature — [expected] says all of that by definition ([deliver]) *)
Theorem final_delivery : forall cfg s, wf_config cfg -> reachable cfg s -> final s = true ->
  forall i, In i (c_targets cfg) -> recvd i s = expected cfg i /\ finished i s = true.
Proof.
  intros cfg s Hwf Hr Hf i Hi.
  assert (Hm : s_main s = MRet) by (unfold final in Hf; destruct (s_main s); try discriminate; reflexivity).
  destruct (return_after_finish cfg s Hwf Hr Hm i Hi). tauto.
Qed.

(** at every moment a target has handled a prefix of its expected sequence: nothing duplicated,
    nothing reordered, nothing foreign, at any point of any schedule *)
Theorem received_prefix : forall cfg s, wf_config cfg -> reachable cfg s ->
  forall i, In i (c_targets cfg) -> exists rest, expected cfg i = recvd i s ++ rest.
Proof.
  intros cfg s Hwf Hr i Hi. exists (inflight i s ++ future i s). symmetry. now apply data_invariant.
Qed.
