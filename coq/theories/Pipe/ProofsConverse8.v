(** * Pipe/ProofsConverse8.v — converse source tie, part 8: the rendezvous steps (LReadSend, LSnapSend, LDeliver),
      and the step lemma of the refinement. *)
From Coq Require Import ZArith List String Bool Lia Permutation.
From Texel Require Import Pipe.Model Pipe.ProofsBase Pipe.ProofsInv Pipe.ProofsLive Pipe.Skeleton Pipe.SkeletonSem Pipe.SkeletonSim
  Pipe.ProofsSkeleton Pipe.ConversePc Pipe.ConversePcSn Pipe.ProofsConversePc Pipe.ProofsConversePcSn Pipe.Converse Pipe.ConverseRank
  Pipe.ProofsConverse1 Pipe.ProofsConverse2 Pipe.ProofsConverse3 Pipe.ProofsConverse4 Pipe.ProofsConverse5 Pipe.ProofsConverse6
  Pipe.ProofsConverse7.
Import ListNotations.
Open Scope string_scope.
Open Scope list_scope.

(** ** Who can send, who can receive *)

Definition role_ok (ro : role) : Prop := match ro with RoSnap p => sn_ok p | _ => True end.

Lemma send_inv : forall ts ro c1 th', role_ok ro -> tstep P CNone (th_of ts ro) = Some (QSend c1, th') ->
  (ro = RoRead D2 /\ c1 = 0%nat /\ th' = th_of ts (RoRead D3))
  \/ (exists j z, ro = RoSnap (IS j z) /\ (j <= 2)%nat /\ c1 = 1%nat /\ th' = th_of ts (RoSnap (IX j z)))
  \/ (exists chm, ro = RoRouter (TG5 chm (VChan c1)) /\ th' = th_of ts (RoRouter (TG6 chm (VChan c1)))).
Proof.
  intros ts ro c1 th' Hok H. destruct ro as [pc|pc|pc|pc|chm z v n pc]; cbn [th_of] in H.
  - exfalso. pose proof (main_spec ts pc CNone) as S. rewrite H in S.
    destruct (next_main ts pc CNone) as [[q k]|] eqn:En; cbn [spec] in S; [|contradiction]. destruct S as [Eq _]. subst q.
    destruct pc; cbn [next_main] in En; try discriminate; inversion En; subst; discriminate.
  - right. right. pose proof (rt_spec ts pc CNone) as S. rewrite H in S.
    destruct (next_rt ts pc CNone) as [[q k]|] eqn:En; cbn [spec] in S; [|contradiction]. destruct S as [Eq Hp]. subst q.
    destruct pc; cbn [next_rt] in En; try discriminate;
      try (inversion En; subst; discriminate);
      try (destruct b; inversion En; subst; discriminate);
      try (destruct v; inversion En; subst; discriminate).
    destruct v; try discriminate. inversion En; subst. exists chm. split; [reflexivity|].
    specialize (Hp true). cbn [post K] in Hp. exact Hp.
  - right. left. cbn [role_ok] in Hok. pose proof (sn_spec pc CNone 0 Hok) as S. rewrite H in S.
    destruct (next_sn pc CNone) as [[q k]|] eqn:En; cbn [spec] in S; [|contradiction]. destruct S as [Eq Hp]. subst q.
    destruct pc; cbn [next_sn] in En; try discriminate;
      try (inversion En; subst; discriminate);
      try (destruct b; inversion En; subst; discriminate).
    + cbn in Hok. destruct j as [|[|[|j]]]; [| | |lia]; inversion En; subst;
        eexists _, z; (split; [reflexivity|]); (split; [lia|]); (split; [reflexivity|]); specialize (Hp true); exact Hp.
    + destruct fs as [|fr fs]; [discriminate|]. destruct (tstep P CNone [fr]) as [[q1 new]|]; [|discriminate].
      inversion En; subst; discriminate.
  - left. pose proof (rd_spec pc CNone 0) as S. rewrite H in S.
    destruct (next_rd pc CNone) as [[q k]|] eqn:En; cbn [spec] in S; [|contradiction]. destruct S as [Eq Hp]. subst q.
    destruct pc; cbn [next_rd] in En; try discriminate; inversion En; subst. split; [reflexivity|]. split; [reflexivity|]. specialize (Hp true). exact Hp.
  - exfalso. pose proof (wr_spec ts chm z v n pc CNone 0) as S. rewrite H in S.
    destruct (next_wr n pc CNone) as [[q k]|] eqn:En; cbn [spec] in S; [|contradiction]. destruct S as [Eq _]. subst q.
    destruct pc; cbn [next_wr] in En; try discriminate; try (inversion En; subst; discriminate);
      destruct b; inversion En; subst; discriminate.
Qed.

Lemma recv_inv : forall ts ro c2 x ok th', role_ok ro -> tstep P CNone (th_of ts ro) = Some (QRecv c2 x ok, th') ->
  let got := bind_top ok (VBool true) (bind_top x VAny th') in
  (ro = RoSnap SRv /\ c2 = 0%nat /\ got = th_of ts (RoSnap (SG true)))
  \/ (exists chm, ro = RoRouter (TRv chm) /\ c2 = 1%nat /\ got = th_of ts (RoRouter (TG1 chm true)))
  \/ (exists chm z v, ro = RoWriter chm z v c2 WRv /\ got = th_of ts (RoWriter chm z v c2 (WG true))).
Proof.
  intros ts ro c2 x ok th' Hok H got. subst got.
  change (bind_top ok (VBool true) (bind_top x VAny th')) with (post (QRecv c2 x ok) th' 0 true).
  destruct ro as [pc|pc|pc|pc|chm z v n pc]; cbn [th_of] in H.
  - exfalso. pose proof (main_spec ts pc CNone) as S. rewrite H in S.
    destruct (next_main ts pc CNone) as [[q k]|] eqn:En; cbn [spec] in S; [|contradiction]. destruct S as [Eq _]. subst q.
    destruct pc; cbn [next_main] in En; try discriminate; inversion En; subst; discriminate.
  - right. left. pose proof (rt_spec ts pc CNone) as S. rewrite H in S.
    destruct (next_rt ts pc CNone) as [[q k]|] eqn:En; cbn [spec] in S; [|contradiction]. destruct S as [Eq Hp]. subst q.
    destruct pc; cbn [next_rt] in En; try discriminate;
      try (inversion En; subst; discriminate);
      try (destruct b; inversion En; subst; discriminate);
      try (destruct v; inversion En; subst; discriminate).
    inversion En; subst. exists chm. split; [reflexivity|]. split; [reflexivity|].
    specialize (Hp true). cbn [post] in Hp |- *. exact Hp.
  - left. cbn [role_ok] in Hok. pose proof (sn_spec pc CNone 0 Hok) as S. rewrite H in S.
    destruct (next_sn pc CNone) as [[q k]|] eqn:En; cbn [spec] in S; [|contradiction]. destruct S as [Eq Hp]. subst q.
    destruct pc; cbn [next_sn] in En; try discriminate;
      try (inversion En; subst; discriminate);
      try (destruct b; inversion En; subst; discriminate).
    1: { inversion En; subst. split; [reflexivity|]. split; [reflexivity|].
         specialize (Hp true). cbn [post] in Hp |- *. exact Hp. }
    all: try (destruct j as [|[|[|j]]]; try discriminate; inversion En; subst; discriminate).
    destruct fs as [|fr fs]; [discriminate|]. destruct (tstep P CNone [fr]) as [[q1 new]|]; [|discriminate].
    inversion En; subst; discriminate.
  - exfalso. pose proof (rd_spec pc CNone 0) as S. rewrite H in S.
    destruct (next_rd pc CNone) as [[q k]|] eqn:En; cbn [spec] in S; [|contradiction]. destruct S as [Eq _]. subst q.
    destruct pc; cbn [next_rd] in En; try discriminate; inversion En; subst; discriminate.
  - right. right. pose proof (wr_spec ts chm z v n pc CNone 0) as S. rewrite H in S.
    destruct (next_wr n pc CNone) as [[q k]|] eqn:En; cbn [spec] in S; [|contradiction]. destruct S as [Eq Hp]. subst q.
    destruct pc; cbn [next_wr] in En; try discriminate; try (inversion En; subst; discriminate);
      try (destruct b; inversion En; subst; discriminate).
    inversion En; subst. exists chm, z, v. split; [reflexivity|].
    specialize (Hp true). cbn [post] in Hp |- *. exact Hp.
Qed.

(** ** Two roles move together *)

Lemma sync_threads : forall ts roles sd rc a b ths' thr',
  ths' = th_of ts a -> thr' = th_of ts b ->
  upd_nth rc thr' (upd_nth sd ths' (map (th_of ts) roles)) = map (th_of ts) (upd_nth rc b (upd_nth sd a roles)).
Proof. intros. subst. now rewrite !map_upd_nth. Qed.

Lemma coh_upd2 : forall cfg roles sd rc a b a' b' chans' wgs' s' pm,
  lk KMain roles = Some (RoMain pm) -> NoDup (map kind_of roles) -> is_early pm = false ->
  nth_error roles sd = Some a -> nth_error roles rc = Some b -> sd <> rc ->
  kind_of a' = kind_of a -> kind_of b' = kind_of b -> kind_of a <> KMain -> kind_of b <> KMain ->
  s_main s' = main_st pm -> late cfg pm (upd_nth rc b' (upd_nth sd a' roles)) chans' wgs' s' ->
  coh cfg (upd_nth rc b' (upd_nth sd a' roles)) chans' wgs' s'.
Proof.
  intros cfg roles sd rc a b a' b' chans' wgs' s' pm Hm Hnd He Ha Hb Hne Hka Hkb Hna Hnb Hs Hl.
  assert (Hb1 : nth_error (upd_nth sd a' roles) rc = Some b) by (now rewrite nth_error_upd_nth_other).
  apply (coh_late_intro _ _ _ _ _ pm); auto.
  - rewrite (lk_upd_other _ _ _ _ KMain Hb1 Hkb) by congruence. rewrite (lk_upd_other _ _ _ _ KMain Ha Hka) by congruence. exact Hm.
  - rewrite (kinds_upd _ _ _ _ Hb1 Hkb), (kinds_upd _ _ _ _ Ha Hka). exact Hnd.
Qed.

Lemma late_rt_upd : forall cfg pm roles s t p p' s' wch' wrest',
  NoDup (map kind_of roles) -> nth_error roles t = Some (RoRouter p) ->
  sn_clause pm roles s -> rd_clause cfg pm roles s -> s_sn s' = s_sn s -> s_rd s' = s_rd s ->
  (exists done', rt_core (c_targets cfg) p' done' wch' wrest' (s_rt s') (s_wr s') (s_wgR s')
                 /\ wview p' done' roles wch' (s_wr s')) ->
  late cfg pm (upd_nth t (RoRouter p') roles)
       (rd_is_closed (s_rd s') :: sn_is_closed (s_sn s') :: wch') (s_wgM s' :: wrest') s'.
Proof.
  intros cfg pm roles s t p p' s' wch' wrest' Hnd Hn Hsn Hrd E1 E2 (done' & Hc' & Hv').
  apply (late_intro cfg pm _ s' wch' wrest' p').
  - eapply sn_clause_other; [|exact E1|exact Hsn]. apply (lk_upd_other _ _ _ (RoRouter p') KSnap Hn eq_refl). discriminate.
  - eapply rd_clause_other; [|exact E2|exact Hrd]. apply (lk_upd_other _ _ _ (RoRouter p') KRead Hn eq_refl). discriminate.
  - exact (lk_upd_same _ _ _ (RoRouter p') Hnd Hn eq_refl).
  - exists done'. split; [exact Hc'|]. eapply wview_router_upd; eauto.
Qed.

Lemma coh_role_ok : forall cfg roles chans wgs s t ro, coh cfg roles chans wgs s -> nth_error roles t = Some ro -> role_ok ro.
Proof.
  intros cfg roles chans wgs s t ro Hcoh Hn. destruct ro; try exact I. cbn.
  destruct (coh_inv_late _ _ _ _ _ _ _ Hcoh Hn) as (pm & Hm & Hnd & He & Hmain & Hlate); [discriminate|].
  pose proof (lk_nth _ _ _ Hnd Hn) as Hlk. cbn [kind_of] in Hlk.
  destruct Hlate as (wch & wrest & prt & _ & _ & Hsn & _). unfold sn_clause in Hsn. rewrite Hlk in Hsn. tauto.
Qed.

Lemma step_sync : forall cfg roles chans wgs s sd rc g' ev,
  NoDup (c_targets cfg) ->
  coh cfg roles chans wgs s -> s_panic s = None ->
  gstep P (MkG (map (th_of (c_targets cfg)) roles) chans wgs None) (ASync sd rc) = Some (g', ev) ->
  exists s', rstep cfg roles s g' s'.
Proof.
  intros cfg roles chans wgs s sd rc g' ev Hndts Hcoh Hpan Hg.
  set (ts := c_targets cfg) in *.
  unfold gstep in Hg. cbn [g_panic g_threads g_chans g_wgs] in Hg.
  destruct (Nat.eqb_spec sd rc) as [|Hne]; [discriminate|].
  destruct (nth_error (map (th_of ts) roles) sd) as [ths_|] eqn:Es; [|discriminate].
  destruct (nth_error (map (th_of ts) roles) rc) as [thr_|] eqn:Er; [|discriminate].
  destruct (nth_map_inv _ _ _ _ Es) as (a & Ha & ->). destruct (nth_map_inv _ _ _ _ Er) as (b & Hb & ->).
  destruct (tstep P CNone (th_of ts a)) as [[qs ths']|] eqn:Ets; [|discriminate]. destruct qs; try discriminate.
  destruct (tstep P CNone (th_of ts b)) as [[qr thr']|] eqn:Etr; [|discriminate]. destruct qr; try discriminate.
  destruct (Nat.eqb_spec c c0) as [<-|]; [|discriminate].
  destruct (nth_error chans c) as [[|]|] eqn:Ec; try discriminate. inversion Hg; subst g' ev. clear Hg.
  pose proof (send_inv ts a c ths' (coh_role_ok _ _ _ _ _ _ _ Hcoh Ha) Ets) as Hsend.
  pose proof (recv_inv ts b c x ok thr' (coh_role_ok _ _ _ _ _ _ _ Hcoh Hb) Etr) as Hrecv. cbn zeta in Hrecv.
  assert (Hka : kind_of a <> KMain) by (destruct Hsend as [(-> & _)|[(j & z & -> & _)|(chm & -> & _)]]; discriminate).
  destruct (coh_inv_late _ _ _ _ _ _ _ Hcoh Ha Hka) as (pm & Hm & Hnd & He & Hmain & Hlate).
  pose proof (late_chans _ _ _ _ _ _ Hlate) as Hchans.
  destruct Hsend as [(-> & -> & Hs')|[(j & z & -> & Hj & -> & Hs')|(chm & -> & Hs')]].
  - (* the Reader sends: the Snapper receives = LReadSend *)
    destruct Hrecv as [(-> & _ & Hr')|[(chm & -> & Hc1 & _)|(chm & zw & vw & -> & Hr')]]; [|discriminate|].
    2: { exfalso. destruct Hlate as (wch & wrest & prt & _ & _ & _ & _ & _ & (done & _ & Hview)).
         destruct (writer_ident _ _ _ _ _ _ _ _ _ _ _ Hnd Hb Hview) as (i & Hi & _). discriminate. }
    rewrite (sync_threads ts roles sd rc _ _ _ _ Hs' Hr').
    pose proof (lk_nth _ _ _ Hnd Ha) as Hlka. pose proof (lk_nth _ _ _ Hnd Hb) as Hlkb. cbn [kind_of] in Hlka, Hlkb.
    assert (Hrd : exists f r, s_rd s = RdRun (f :: r)).
    { destruct Hlate as (wch & wrest & prt & _ & _ & _ & Hrd & _). unfold rd_clause in Hrd. rewrite Hlka in Hrd. apply Hrd. }
    assert (Hsn : s_sn s = SRecv).
    { destruct Hlate as (wch & wrest & prt & _ & _ & Hsn & _). unfold sn_clause in Hsn. rewrite Hlkb in Hsn. apply Hsn. }
    destruct Hrd as (f & r & Hrd).
    exists (set_sn (set_rd s (RdRun r)) (SHave f)). right. split.
    + exists LReadSend. rewrite (step_late _ _ _ pm Hpan Hmain). cbn. now rewrite Hrd, Hsn.
    + apply skel_rel_intro; [exact Hpan|].
      eapply (coh_upd2 cfg roles sd rc (RoRead D2) (RoSnap SRv)); eauto; try discriminate.
      assert (L1 : late cfg pm (upd_nth sd (RoRead D3) roles) chans wgs (set_rd s (RdRun r))).
      { eapply late_rd_upd; eauto; try reflexivity; [cbn; eauto|]. cbn. rewrite Hchans, Hrd. reflexivity. }
      eapply late_sn_upd; [| |exact L1| | | | | | | |]; try reflexivity.
      * rewrite (kinds_upd _ _ _ (RoRead D3) Ha eq_refl). exact Hnd.
      * rewrite nth_error_upd_nth_other by exact Hne. exact Hb.
      * cbn. eauto.
      * cbn. rewrite Hchans, Hsn. reflexivity.
  - (* the Snapper sends: the Router receives = LSnapSend *)
    destruct Hrecv as [(-> & Hc0 & _)|[(chm & -> & _ & Hr')|(chm & zw & vw & -> & Hr')]]; [discriminate| |].
    2: { exfalso. destruct Hlate as (wch & wrest & prt & _ & _ & _ & _ & _ & (done & _ & Hview)).
         destruct (writer_ident _ _ _ _ _ _ _ _ _ _ _ Hnd Hb Hview) as (i & Hi & _). discriminate. }
    rewrite (sync_threads ts roles sd rc _ _ _ _ Hs' Hr').
    pose proof (lk_nth _ _ _ Hnd Ha) as Hlka. pose proof (lk_nth _ _ _ Hnd Hb) as Hlkb. cbn [kind_of] in Hlka, Hlkb.
    assert (Hsn : sn_rel (IS j z) (s_sn s)).
    { destruct Hlate as (wch & wrest & prt & _ & _ & Hsn & _). unfold sn_clause in Hsn. rewrite Hlka in Hsn. apply Hsn. }
    cbn [sn_rel] in Hsn. destruct Hsn as (id & ord & pending & g0 & r & Hsn & Hcls & Htp).
    assert (L1 : late cfg pm (upd_nth sd (RoSnap (IX j z)) roles) chans wgs (set_sn s (Model.SSend id ord r))).
    { eapply late_sn_upd; eauto; try reflexivity.
      - cbn. exists id, ord, r. split; [reflexivity|]. destruct Hcls as [H1 H2]. split; [exact H1|].
        intros H0. eapply take_pend_Forall; [exact Htp | exact (H2 H0)].
      - cbn. rewrite Hchans, Hsn. reflexivity. }
    assert (Hnd1 : NoDup (map kind_of (upd_nth sd (RoSnap (IX j z)) roles))) by (now rewrite (kinds_upd _ _ _ (RoSnap (IX j z)) Ha eq_refl)).
    assert (Hb1 : nth_error (upd_nth sd (RoSnap (IX j z)) roles) rc = Some (RoRouter (TRv chm)))
      by (now rewrite nth_error_upd_nth_other).
    destruct L1 as (wch & wrest & prt & Hch1 & Hwg1 & Hsn1 & Hrd1 & Hrt1 & (done & Hcore & Hview)).
    rewrite (lk_nth _ _ _ Hnd1 Hb1 : lk KRouter _ = _) in Hrt1. inversion Hrt1; subst prt. clear Hrt1.
    cbn [rt_core s_rt s_wr s_wgR set_sn] in Hcore. destruct Hcore as (Hrc & -> & Hrt0 & Hopen).
    exists (set_rt (set_sn s (Model.SSend id ord r)) (THave z (id, g0))). right. split.
    + exists (LSnapSend z). rewrite (step_late _ _ _ pm Hpan Hmain). cbn. now rewrite Hsn, Htp, Hrt0.
    + apply skel_rel_intro; [exact Hpan|].
      eapply (coh_upd2 cfg roles sd rc (RoSnap (IS j z)) (RoRouter (TRv (chmap done)))); eauto; try discriminate.
      rewrite Hch1, Hwg1.
      apply (late_rt_upd cfg pm _ (set_sn s (Model.SSend id ord r)) rc (TRv (chmap done)) (TG1 (chmap done) true)
               (set_rt (set_sn s (Model.SSend id ord r)) (THave z (id, g0))) wch wrest Hnd1 Hb1 Hsn1 Hrd1 eq_refl eq_refl).
      exists done. split; [|exact Hview]. cbn. exists z, (id, g0). auto.
  - (* the Router sends: the Writer of that channel receives = LDeliver *)
    destruct Hlate as (wch & wrest & prt & Hch1 & Hwg1 & Hsn1 & Hrd1 & Hrt1 & (done & Hcore & Hview)).
    rewrite (lk_nth _ _ _ Hnd Ha : lk KRouter _ = _) in Hrt1. inversion Hrt1; subst prt. clear Hrt1.
    cbn [rt_core] in Hcore. destruct Hcore as (tm & m & Hrc & -> & Hrt0 & Hopen & Hv).
    destruct (mget_chmap_from done 0 tm) as [[Hnil _]|(i & Hzi & Hget)]; unfold chmap in Hv; [congruence|].
    rewrite Hget in Hv. inversion Hv; subst c. cbn [Nat.add] in *.
    destruct Hrecv as [(-> & Hc0 & _)|[(chm & -> & Hc0 & _)|(chm & zw & vw & -> & Hr')]]; [discriminate|discriminate|].
    rewrite (sync_threads ts roles sd rc _ _ _ _ Hs' Hr').
    destruct (writer_ident _ _ _ _ _ _ _ _ _ _ _ Hnd Hb Hview) as (i' & Hi' & Hz' & -> & (w & Hfw & Hwr & Hwc)).
    assert (i' = i) by lia. subst i'. cbn [spawned] in Hz'.
    pose proof (eq_trans (eq_sym Hz') Hzi) as Ez. inversion Ez; subst zw. clear Ez.
    subst chans. change (nth_error wch i = Some false) in Ec. rewrite Hwc in Ec. inversion Ec as [Hcl].
    cbn [wr_rel] in Hwr.
    destruct Hrc as (Hperm & Hwrest & Hlen & Hkeys).
    assert (Hndd : NoDup done) by (eapply Permutation_NoDup; [apply Permutation_sym; exact Hperm | exact Hndts]).
    set (ws' := upd_writer tm (w_set_st (WHold m)) (s_wr s)).
    exists (set_rt (set_wr s ws') TRecv). right. split.
    + exists LDeliver. rewrite (step_late _ _ _ pm Hpan Hmain). cbn. now rewrite Hrt0, Hfw, Hcl, Hwr.
    + apply skel_rel_intro; [exact Hpan|].
      set (ra := RoRouter (TG6 (chmap_from 0 done) (VChan (2 + i)))).
      set (rb := RoWriter chm tm VAny (2 + i) (WG true)).
      assert (Hb1 : nth_error (upd_nth sd ra roles) rc = Some (RoWriter chm tm VAny (2 + i) WRv))
        by (now rewrite nth_error_upd_nth_other).
      assert (Hnd1 : NoDup (map kind_of (upd_nth sd ra roles))) by (now rewrite (kinds_upd _ _ _ ra Ha eq_refl)).
      eapply (coh_upd2 cfg roles sd rc _ _ ra rb); eauto; try discriminate.
      subst wgs. apply (late_intro cfg pm _ (set_rt (set_wr s ws') TRecv) wch wrest (TG6 (chmap_from 0 done) (VChan (2 + i)))).
      * eapply sn_clause_other; [|reflexivity|exact Hsn1].
        rewrite (lk_upd_other _ _ _ rb KSnap Hb1 eq_refl) by discriminate.
        apply (lk_upd_other _ _ _ ra KSnap Ha eq_refl). discriminate.
      * eapply rd_clause_other; [|reflexivity|exact Hrd1].
        rewrite (lk_upd_other _ _ _ rb KRead Hb1 eq_refl) by discriminate.
        apply (lk_upd_other _ _ _ ra KRead Ha eq_refl). discriminate.
      * rewrite (lk_upd_other _ _ _ rb KRouter Hb1 eq_refl) by discriminate.
        exact (lk_upd_same _ _ _ ra Hnd Ha eq_refl).
      * cbn [s_rt s_wr s_wgR set_rt set_wr]. exists done. split.
        -- cbn. split; [|auto]. split; [exact Hperm|]. split; [exact Hwrest|]. split; [exact Hlen|].
           unfold ws'. now rewrite map_tm_upd.
        -- destruct Hview as [Hbd Hv0]. cbn in Hbd, Hv0. split.
           ++ cbn. eapply writers_bound_upd; [exact Hb1 | reflexivity|]. eapply writers_bound_upd; [exact Ha | reflexivity | exact Hbd].
           ++ cbn. eapply (writers_run_upd done (upd_nth sd ra roles) wch (s_wr s) ws' rc chm tm VAny i WRv (WG true) (w_set_st (WHold m) w));
                eauto.
              ** unfold ws'. rewrite find_upd_same by reflexivity. now rewrite Hfw.
              ** cbn. eauto.
              ** intros z' Hz'0. unfold ws'. now apply find_upd_other.
              ** eapply writers_run_ext; [|exact Hv0]. apply (same_writers_upd _ _ _ ra Ha eq_refl). intros n0; discriminate.
Qed.

(** ** The step lemma of the refinement: every step of the skeleton semantics whose data choice is the one the model
    state dictates is matched by at most one step of the model.  Ranked form: a step that leaves the model state
    unchanged lowers the sum of the ranks of the goroutines (Pipe/ConverseRank.v) or is inside a pure callee. *)

Theorem conv_step_ranked : forall cfg roles chans wgs s a g' ev, NoDup (c_targets cfg) ->
  coh cfg roles chans wgs s -> s_panic s = None ->
  gstep P (MkG (map (th_of (c_targets cfg)) roles) chans wgs None) a = Some (g', ev) ->
  data_ok s (MkG (map (th_of (c_targets cfg)) roles) chans wgs None) a ->
  exists s', rstep cfg roles s g' s'.
Proof.
  intros cfg roles chans wgs s a g' ev Hnd Hcoh Hpan Hg Hd.
  destruct a as [t c|sd rc].
  - assert (Hin : exists ro, nth_error roles t = Some ro).
    { unfold gstep in Hg. cbn [g_panic g_threads] in Hg. destruct (nth_error (map (th_of (c_targets cfg)) roles) t) eqn:E; [|discriminate].
      destruct (nth_map_inv _ _ _ _ E) as (ro & Hro & _). eauto. }
    destruct Hin as (ro & Hro). unfold data_ok in Hd. cbn [g_threads] in Hd.
    rewrite (map_nth_error (th_of (c_targets cfg)) _ _ Hro) in Hd.
    destruct ro as [p|p|p|p|chm z v n p]; cbn [th_of] in Hd.
    + eapply step_main; eauto.
    + eapply step_router; eauto.
    + eapply step_snap; eauto.
    + eapply step_read; eauto.
    + eapply step_writer; eauto.
  - eapply step_sync; eauto.
Qed.

Theorem conv_step : forall cfg g s a g' ev, NoDup (c_targets cfg) ->
  skel_rel cfg g s -> gstep P g a = Some (g', ev) -> data_ok s g a ->
  exists s', mstep cfg s s' /\ skel_rel cfg g' s'.
Proof.
  intros cfg g s a g' ev Hnd Hrel Hg Hd. unfold skel_rel in Hrel.
  destruct g as [ths chans wgs pan]. cbn [g_panic g_threads g_chans g_wgs] in Hrel.
  destruct pan as [what|]; [unfold gstep in Hg; cbn in Hg; discriminate|].
  destruct (s_panic s) eqn:Hpan; [contradiction|]. destruct Hrel as (roles & -> & Hcoh).
  destruct (conv_step_ranked cfg roles chans wgs s a g' ev Hnd Hcoh Hpan Hg Hd) as (s' & Hr).
  exists s'. eapply rstep_mstep; eauto.
Qed.

Lemma skel_rel_init : forall cfg, skel_rel cfg (ginit P (c_targets cfg)) (init cfg).
Proof.
  intros cfg. unfold skel_rel. cbn. exists [RoMain M0]. split; [reflexivity|].
  exists M0. split; [reflexivity|]. split; [repeat constructor; intros []|]. cbn. auto.
Qed.
