(** * Pipe/SkeletonSim.v — how the labelled transition system of Pipe/Model.v sits on the skeleton semantics.

    Definitions only (proofs: Pipe/ProofsSkeleton.v).
      - [label_events]: the communication actions each label of Pipe/Model.v stands for (its comment in Model.v,
        made formal): channel / wait group / goroutine numbers are those of the skeleton semantics
        (channel 0 = featuresBefore, 1 = featuresAfter, 2+i = the channel of the i-th target; wait group 0 = the one
        of ProcessFeatures, 1 = the one of writeFeaturesToTargets; goroutine 0 = Main, 1 = Router, 2 = Snapper,
        3 = Reader, 4+i = Writer of the i-th target);
      - [abs]: the state of the skeleton semantics that a state of the model stands for (program counters and
        environments of all goroutines, channels, wait groups);
      - [impl]: the steps of the skeleton semantics that one label of the model stands for. *)
From Coq Require Import ZArith NArith List String Bool.
From Texel Require Import Pipe.Model Pipe.Skeleton Pipe.SkeletonSem.
Import ListNotations.
Open Scope string_scope.
Open Scope list_scope.

(** the program: the skeleton the model was written from (= the generated one, Properties/C11.v) + the contracts *)
Definition P : list func := program model_skeleton.

(** position of a target in the range order of the targets map *)
Fixpoint idx (tm : tmid) (ts : list tmid) : nat :=
  match ts with
  | [] => O
  | t :: r => if Z.eqb t tm then O else S (idx tm r)
  end.

Definition chan_of (ts : list tmid) (tm : tmid) : nat := 2 + idx tm ts.
Definition writer_of (ts : list tmid) (tm : tmid) : nat := 4 + idx tm ts.

(** ** The communication actions of a label *)

Definition panic_no_polygon : string := "fmt.Errorf(""no new polygon for level %v"", tmID)".
Definition panic_no_channel : string := "fmt.Errorf(`no target channel for %v`, tmID)".

Fixpoint spawn_events (i n : nat) : list event :=
  match n with
  | O => []
  | S n' => [EvNewChan (2 + i); EvWgAdd 1 1; EvGo (4 + i)] ++ spawn_events (S i) n'
  end.

Definition label_events (cfg : config) (s : state) (l : label) : list event :=
  let ts := c_targets cfg in
  match l with
  | LMainStart => [EvNewChan 0; EvNewChan 1; EvNewWg 0; EvWgAdd 0 1; EvGo 1; EvGo 2; EvGo 3]
  | LReadSend => [EvSend 0]
  | LReadClose => [EvClose 0]
  | LReadExit => [EvExit 3]
  | LSnapCompute => []
  | LSnapSend tm =>
      match s_sn s with
      | Model.SSend _ ord pending =>
          match take_pend ord tm pending with
          | Some (None, _) => [EvPanic panic_no_polygon]
          | _ => [EvSend 1]
          end
      | _ => []
      end
  | LSnapLoop => []
  | LSnapEof => [EvRecvClosed 0]
  | LSnapClose => [EvClose 1]
  | LSnapExit => [EvExit 2]
  | LRouterSpawn => EvNewWg 1 :: spawn_events 0 (List.length ts)
  | LDeliver =>
      match s_rt s with
      | THave tm _ =>
          match find_writer tm (s_wr s) with
          | None => [EvPanic panic_no_channel]
          | Some w => if w_closed w then [EvPanic panic_send_closed] else [EvSend (chan_of ts tm)]
          end
      | _ => []
      end
  | LRouterEof => [EvRecvClosed 1]
  | LRouterClose tm => [EvClose (chan_of ts tm)]
  | LRouterWait =>
      match s_wgM s with
      | O => [EvWgWait 1; EvPanic panic_negative_wg]
      | S _ => [EvWgWait 1; EvWgDone 0; EvExit 1]
      end
  | LRecv _ _ => []
  | LWriterEof tm => [EvRecvClosed (chan_of ts tm)]
  | LFinish tm =>
      match s_wgR s with
      | O => [EvPanic panic_negative_wg]
      | S _ => [EvWgDone 1; EvExit (writer_of ts tm)]
      end
  | LReturn => [EvWgWait 0; EvExit 0]
  end.

(** ** Program points.  Sub-terms of the skeleton, by position. *)

Definition body_of (name : string) : list stmt :=
  match find_func name P with Some f => fn_body f | None => [] end.

Definition main_body := Eval cbv in body_of "ProcessFeatures".
Definition sn_body := Eval cbv in body_of "processFeatures".
Definition rt_body := Eval cbv in body_of "writeFeaturesToTargets".

Definition forever_body (s : option stmt) : list stmt := match s with Some (SForever b) => b | _ => [] end.
Definition range_body (s : option stmt) : list stmt := match s with Some (SRange _ _ _ _ b) => b | _ => [] end.
Definition gofunc_body (s : option stmt) : list stmt := match s with Some (SGoFunc _ b _) => b | _ => [] end.

Definition sn_loop := Eval cbv in forever_body (nth_error sn_body 1).
Definition sn_after := Eval cbv in skipn 2 sn_body.                 (* close(featuresOut); the log lines *)
Definition sn_log := Eval cbv in skipn 3 sn_body.
Definition sn_cases : list (string * list stmt) :=
  Eval cbv in match nth_error sn_loop 3 with Some (SSwitchType _ cs) => cs | _ => [] end.
(** the send loop of clause j of the type switch: its variables and body *)
Definition sn_range (j : nat) : string * string * list stmt :=
  match nth_error sn_cases j with
  | Some (_, b) => match last b (SOther "") with SRange _ kx vx _ body => (kx, vx, body) | _ => ("", "", []) end
  | None => ("", "", [])
  end.

Definition rt_closure := Eval cbv in gofunc_body (nth_error main_body 6).
Definition rt_spawn := Eval cbv in range_body (nth_error rt_body 2).
Definition rt_loop := Eval cbv in forever_body (nth_error rt_body 3).
Definition rt_after := Eval cbv in skipn 4 rt_body.                 (* the close loop; wg.Wait() *)
Definition rt_close := Eval cbv in range_body (nth_error rt_body 4).
Definition wr_closure := Eval cbv in gofunc_body (nth_error rt_spawn 3).

Definition rd_loop := Eval cbv in range_body (nth_error (fn_body source_contract) 0).
Definition wr_loop := Eval cbv in forever_body (nth_error (fn_body target_contract) 0).

(** ** Goroutines of the skeleton semantics, per process state of the model *)

(** Main = ProcessFeatures *)
Definition main_env (ts : list tmid) : env :=
  [("wg", VWg 0); ("featuresAfter", VChan 1); ("featuresBefore", VChan 0);
   ("f", VAny); ("targets", targets_val ts); ("source", VAny)].

Definition main_th (ts : list tmid) (m : mstate) : thread :=
  match m with
  | MInit => []                                                    (* not used: see [abs] *)
  | MWait => [MkFrame (main_env ts) [] (KSeq [SWgWait "wg"] KStop)]   (* blocked in wg.Wait() *)
  | MRet => []
  end.

(** Reader = readFeaturesFromSource, inside the contract of Source.ReadFeatures *)
Definition rd_outer : frame := MkFrame [("features", VChan 0); ("source", VAny)] [] KStop.
Definition rd_th (r : rdstate) : thread :=
  match r with
  | RdRun _ => [MkFrame [("features", VChan 0)] []
                  (KRangeAny "_" "feature" rd_loop (KSeq [SClose "features"; SReturn ""] KStop)); rd_outer]
  | RdClosed => [MkFrame [("features", VChan 0)] [] (KSeq [SReturn ""] KStop); rd_outer]
  | RdExit => []
  end.

(** Snapper = processFeatures.  [gh] (a ghost of the simulation): the clause of the type switch the snapper is in *)
Definition sn_env : env := [("f", VAny); ("tmIDs", VAny); ("featuresOut", VChan 1); ("featuresIn", VChan 0)].
Definition sn_env_got (more : bool) : env := [("hasMore", VBool more); ("feature", VAny)] ++ sn_env.
Definition sn_kloop : kont := KScope 4 (KLoop sn_loop (KSeq sn_after KStop)).

Definition sn_th (gh : nat) (x : snstate) : thread :=
  match x with
  | SRecv => [MkFrame sn_env [] (KSeq sn_loop sn_kloop)]
  | SHave _ => [MkFrame (sn_env_got true) [] (KSeq (tl sn_loop) sn_kloop)]
  | Model.SSend _ _ _ =>
      let '(kx, vx, body) := sn_range gh in
      [MkFrame (sn_env_got true) [] (KRangeAny kx vx body (KScope 6 sn_kloop))]
  | SEof => [MkFrame (sn_env_got false) [] (KSeq (tl sn_loop) sn_kloop)]
  | SLog => [MkFrame sn_env [] (KSeq sn_log KStop)]
  | SExit => []
  end.

(** Router = the goroutine `go func() { defer wg.Done(); writeFeaturesToTargets(featuresAfter, targets) }()` *)
Fixpoint chmap_from (i : nat) (ts : list tmid) : list (Z * val) :=
  match ts with
  | [] => []
  | t :: r => (t, VChan (2 + i)) :: chmap_from (S i) r
  end.
(** targetChannels once every target has its channel *)
Definition chmap (ts : list tmid) : list (Z * val) := chmap_from 0 ts.

(** the entries the close loop has still to visit *)
Definition entries (ts todo : list tmid) : list (Z * val) := map (fun t => (t, VChan (chan_of ts t))) todo.

Definition rt_env (ts : list tmid) (chm : list (Z * val)) : env :=
  [("wg", VWg 1); ("targetChannels", VMap chm); ("targets", targets_val ts); ("featuresForTileMatrices", VChan 1)].
Definition rt_outer (ts : list tmid) : frame := MkFrame (main_env ts) [SWgDone "wg"] KStop.
Definition rt_kloop : kont := KScope 4 (KLoop rt_loop (KSeq rt_after KStop)).

Definition rt_th (ts : list tmid) (x : rtstate) : thread :=
  match x with
  | TInit => [MkFrame (main_env ts) [] (KSeq rt_closure KStop)]
  | TRecv => [MkFrame (rt_env ts (chmap ts)) [] (KSeq rt_loop rt_kloop); rt_outer ts]
  | THave tm _ =>
      [MkFrame ([("channel", mget tm (chmap ts)); ("ok", VBool true); ("feature", VAny)] ++ rt_env ts (chmap ts)) []
         (KSeq (skipn 4 rt_loop) rt_kloop); rt_outer ts]
  | TClosing todo =>
      [MkFrame (rt_env ts (chmap ts)) []
         (KRangeMap "_" "targetChannel" (entries ts todo) rt_close (KSeq [SWgWait "wg"] KStop)); rt_outer ts]
  | TDone => []
  end.

(** Writer of the i-th target = `go func(target Target) { defer wg.Done(); target.WriteFeatures(targetChannel) }(target)`,
    inside the contract of Target.WriteFeatures.  Its function literal has captured the variables of the
    iteration that started it. *)
Definition wr_outer (ts : list tmid) (i : nat) (tm : tmid) : frame :=
  MkFrame ([("target", VAny); ("targetChannel", VChan (2 + i)); ("target", VAny); ("tmID", VKey tm)]
           ++ rt_env ts (chmap (firstn (S i) ts)))
          [SWgDone "wg"] KStop.
Definition wr_kloop : kont := KScope 1 (KLoop wr_loop (KSeq [SReturn ""] KStop)).
Definition wr_env_got (i : nat) (ok : bool) : env := [("ok", VBool ok); ("feature", VAny); ("features", VChan (2 + i))].

Definition wr_th (ts : list tmid) (i : nat) (w : writer) : thread :=
  match w_st w with
  | WRecv => [MkFrame [("features", VChan (2 + i))] [] (KSeq wr_loop wr_kloop); wr_outer ts i (w_tm w)]
  | WHold _ => [MkFrame (wr_env_got i true) [] (KSeq (tl wr_loop) wr_kloop); wr_outer ts i (w_tm w)]
  | WFin => [MkFrame (wr_env_got i false) [] (KSeq (tl wr_loop) wr_kloop); wr_outer ts i (w_tm w)]
  | WDone => []
  end.

Fixpoint wr_ths (ts : list tmid) (i : nat) (ws : list writer) : list thread :=
  match ws with
  | [] => []
  | w :: r => wr_th ts i w :: wr_ths ts (S i) r
  end.

Definition rd_is_closed (r : rdstate) : bool := match r with RdRun _ => false | _ => true end.
Definition sn_is_closed (x : snstate) : bool := match x with SLog | SExit => true | _ => false end.

(** the state of the skeleton semantics a (not panicked) model state stands for *)
Definition abs (ts : list tmid) (gh : nat) (s : state) : gstate :=
  match s_main s with
  | MInit => ginit P ts
  | m =>
      MkG (main_th ts m :: rt_th ts (s_rt s) :: sn_th gh (s_sn s) :: rd_th (s_rd s) :: wr_ths ts 0 (s_wr s))
          (rd_is_closed (s_rd s) :: sn_is_closed (s_sn s) :: map w_closed (s_wr s))
          (s_wgM s :: match s_rt s with TInit => [] | _ => [s_wgR s] end)
          None
  end.

(** ** The steps of the skeleton semantics a label stands for *)

Definition L (t : nat) (cs : list choice) : list action := map (ALocal t) cs.
Definition Tau (n : nat) : list choice := repeat CNone n.

Definition kind_case (k : gkind) : nat := match k with KPolygon _ => 0 | KMulti _ => 1 | KOther => 2 end.

(** the ghost after a label *)
Definition next_gh (gh : nat) (s : state) (l : label) : nat :=
  match l, s_sn s with
  | LSnapCompute, SHave f => kind_case (f_kind f)
  | _, _ => gh
  end.

Definition is_nil {A} (l : list A) : bool := match l with [] => true | _ => false end.

(** `if len(m) > 0 { postCount++ }` *)
Definition if_counted (nonempty : bool) : list choice :=
  if nonempty then [CBool true; CNone; CNone] else [CBool false; CNone].

Definition impl (ts : list tmid) (gh : nat) (s : state) (l : label) : list action :=
  match l with
  | LMainStart =>
      (* two channels, the tmIDs loop, the wait group, Add(1), three go statements; then Snapper and Reader run up
         to their first blocking operation (the Router's start is LRouterSpawn) *)
      L 0 (Tau 4 ++ flat_map (fun t => [CIter (Some t); CNone; CNone]) ts ++ [CIter None] ++ Tau 5)
      ++ L 2 (Tau 3) ++ L 3 (Tau 2)
  | LReadSend => [ALocal 3 (CIter (Some 0%Z)); ASync 3 2; ALocal 3 CNone]
  | LReadClose => [ALocal 3 (CIter None); ALocal 3 CNone]
  | LReadExit => L 3 (Tau 3)
  | LSnapCompute =>
      match s_sn s with
      | SHave f =>
          L 2 (Tau 2 ++ [CCase (kind_case (f_kind f))]
               ++ match f_kind f with
                  | KPolygon o => Tau 2 ++ if_counted (negb (is_nil o)) ++ Tau 1
                  | KMulti parts =>
                      (* processMultiPolygon: the skeleton does not follow the polygons; its loops are left at once *)
                      Tau 1 ++ Tau 3 ++ [CIter None] ++ Tau 2 ++ if_counted (negb (is_nil (merge_parts parts))) ++ Tau 1
                  | KOther => Tau 3
                  end)
      | _ => []
      end
  | LSnapSend tm =>
      match s_sn s with
      | Model.SSend _ ord pending =>
          match take_pend ord tm pending with
          | Some (None, _) => L 2 [CIter (Some tm); CNone; CBool true; CNone]
          | Some (Some g, _) =>
              L 2 ([CIter (Some tm)]
                   ++ match gh with
                      | 0 => [CNone; CBool false; CNone]
                             ++ match g with
                                | GPoly _ => [CBool true; CNone; CNone]
                                | _ => (* polygonsToMulti: its loop is left at once *)
                                       [CBool false; CNone] ++ Tau 3 ++ [CBool false] ++ Tau 2 ++ [CNone]
                                end
                      | _ => []
                      end)
              ++ [ASync 2 1] ++ L 2 (Tau 1)
              ++ L 1 (Tau 2 ++ [CKey tm])
          | None => []
          end
      | _ => []
      end
  | LSnapLoop => L 2 ([CIter None] ++ Tau 3)
  | LSnapEof => L 2 (Tau 1)
  | LSnapClose => L 2 (Tau 2)
  | LSnapExit => L 2 (Tau 2 ++ [CBool false] ++ Tau 3)
  | LRouterSpawn =>
      L 1 (Tau 5)
      ++ flat_map (fun t => L 1 ([CIter (Some t)] ++ Tau 4) ++ L (writer_of ts t) (Tau 4) ++ L 1 (Tau 1)) ts
      ++ L 1 ([CIter None] ++ Tau 2)
  | LDeliver =>
      match s_rt s with
      | THave tm _ =>
          match find_writer tm (s_wr s) with
          | None => L 1 (Tau 1)
          | Some w => if w_closed w then L 1 (Tau 2)
                      else L 1 (Tau 1) ++ [ASync 1 (writer_of ts tm)] ++ L 1 (Tau 2)
          end
      | _ => []
      end
  | LRouterEof => L 1 (Tau 3)
  | LRouterClose tm => L 1 ([CIter (Some tm)] ++ Tau 2)
  | LRouterWait => L 1 ([CIter None] ++ Tau (match s_wgM s with O => 4 | S _ => 5 end))   (* a panic is the last step *)
  | LRecv tm _ => L (writer_of ts tm) (Tau 4)
  | LWriterEof tm => L (writer_of ts tm) (Tau 1)
  | LFinish tm => L (writer_of ts tm) (Tau (match s_wgR s with O => 5 | S _ => 6 end))
  | LReturn => L 0 (Tau 2)
  end.

(** run a sequence of labels on both sides *)
Fixpoint impl_run (cfg : config) (gh : nat) (s : state) (ls : list label) : list action :=
  match ls with
  | [] => []
  | l :: r =>
      impl (c_targets cfg) gh s l
      ++ match step cfg s l with
         | Some s' => impl_run cfg (next_gh gh s l) s' r
         | None => []
         end
  end.

Fixpoint events_run (cfg : config) (s : state) (ls : list label) : list event :=
  match ls with
  | [] => []
  | l :: r =>
      label_events cfg s l
      ++ match step cfg s l with
         | Some s' => events_run cfg s' r
         | None => []
         end
  end.

Fixpoint gh_run (cfg : config) (gh : nat) (s : state) (ls : list label) : nat :=
  match ls with
  | [] => gh
  | l :: r => match step cfg s l with
              | Some s' => gh_run cfg (next_gh gh s l) s' r
              | None => gh
              end
  end.

(** ** Which statements a run executes (for the coverage examples of Properties/C11.v) *)

Fixpoint stmts_of (s : stmt) : list stmt :=
  s :: match s with
       | SGoFunc _ b _ | SForever b | SFor _ _ _ b | SRange _ _ _ _ b => flat_map stmts_of b
       | SDefer d => stmts_of d
       | SSwitchType _ cs => flat_map (fun c => match c with (_, b) => flat_map stmts_of b end) cs
       | SIf _ a b => flat_map stmts_of a ++ flat_map stmts_of b
       | _ => []
       end.

Definition cat (l : list string) : string := fold_right String.append "" l.

(** a name for every statement that takes part in the concurrency (None: SOther, loops, branches, return) *)
Definition stmt_key (s : stmt) : option string :=
  match s with
  | SMakeChan x _ _ => Some (cat ["make "; x])
  | SMakeChanMap x _ => Some (cat ["makemap "; x])
  | SMapSet m _ _ => Some (cat ["mapset "; m])
  | SMapGet x m _ => Some (cat ["mapget "; x; " "; m])
  | SWgNew x => Some (cat ["wgnew "; x])
  | SWgAdd x n => Some (cat ["wgadd "; x; " "; n])
  | SWgDone x => Some (cat ["wgdone "; x])
  | SWgWait x => Some (cat ["wgwait "; x])
  | SGoFunc ps _ _ => Some (cat ("gofunc" :: map (fun p => String.append " " (fst p)) ps))
  | SGoCall f _ => Some (cat ["go "; f])
  | SDefer _ => Some "defer"
  | SSend ch what => Some (cat ["send "; ch; " <- "; what])
  | SRecvOk _ _ ch => Some (cat ["recv "; ch])
  | SIfNotBreak ok => Some (cat ["ifnotbreak "; ok])
  | SIfNilPanic x _ => Some (cat ["ifnilpanic "; x])
  | SClose ch => Some (cat ["close "; ch])
  | SPanic w => Some (cat ["panic "; w])
  | SCall _ f _ => Some (cat ["call "; f])
  | SCallMethod r _ m _ => Some (cat ["callmethod "; r; "."; m])
  | _ => None
  end.

Definition keys_of_funcs (fs : list func) : list string :=
  flat_map (fun f => flat_map (fun s => match stmt_key s with Some k => [k] | None => [] end)
                              (flat_map stmts_of (fn_body f))) fs.

(** the statement a goroutine executes next (None: a loop head, the end of a block or function) *)
Definition next_stmt (th : thread) : option stmt :=
  match th with
  | fr :: _ => match fr_k fr with KSeq (s :: _) _ => Some s | _ => None end
  | [] => None
  end.

Definition acting (a : action) : list nat := match a with ALocal t _ => [t] | ASync s r => [s; r] end.

(** the names of the statements executed along a run *)
Fixpoint grun_keys (Pg : list func) (g : gstate) (acts : list action) : list string :=
  match acts with
  | [] => []
  | a :: r =>
      flat_map (fun t => match nth_error (g_threads g) t with
                         | Some th => match next_stmt th with
                                      | Some s => match stmt_key s with Some k => [k] | None => [] end
                                      | None => []
                                      end
                         | None => []
                         end) (acting a)
      ++ match gstep Pg g a with Some (g', _) => grun_keys Pg g' r | None => [] end
  end.

Fixpoint mem_str (x : string) (l : list string) : bool :=
  match l with [] => false | y :: r => String.eqb x y || mem_str x r end.
Definition covered (want have : list string) : list string := filter (fun k => negb (mem_str k have)) want.
