(** * Pipe/SkeletonSem.v — an executable small-step semantics of the skeleton language (Pipe/Skeleton.v).

    Definitions only.  A program is a list of skeleton functions (those of processing.go plus the contracts of
    the two interface methods).  A goroutine is a call stack of frames (environment, deferred calls,
    continuation); the shared state is the list of channels (all UNBUFFERED: a send and a receive happen
    together, [ASync]; a channel has a closed flag) and the list of wait group counters.

    Data is NOT followed: the only values are channels, wait groups, maps with integer keys (the map of
    targets, the map of channels), keys and the ok flag of a receive; everything else is [VAny].  Where the
    control flow depends on data the skeleton does not follow (an [SIf] / [SSwitchType] / [SFor] on [SOther] data,
    a [range] over [VAny], a map key that is [VAny]) the step takes the decision from a [choice] in the action: the
    semantics is nondeterministic there (every choice is a possible run).  A [range] over a known map visits
    every key exactly once in any order (the choice names the next key).

    Outside the fragment (no step): a buffered channel, a send / receive on a variable that holds no channel,
    an arity mismatch, an unknown function.  A send or receive on a nil channel blocks forever (no step).
    A panic stops the whole program ([g_panic]); deferred calls are not run then (nothing recovers). *)
From Coq Require Import ZArith List String Bool Ascii.
From Texel Require Import Pipe.Skeleton.
Import ListNotations.
Open Scope string_scope.
Open Scope list_scope.

(** ** Values and environments *)

Inductive val :=
| VChan (c : nat)                (* a channel, by its index in [g_chans] *)
| VNil                           (* the nil channel *)
| VWg (w : nat)                  (* a wait group, by its index in [g_wgs] *)
| VMap (m : list (Z * val))      (* a Go map with integer keys; keys distinct *)
| VKey (k : Z)
| VBool (b : bool)
| VAny.                          (* data the skeleton does not follow *)

Definition env := list (string * val).

Fixpoint get (e : env) (x : string) : val :=
  match e with
  | [] => VAny
  | (y, v) :: r => if String.eqb y x then v else get r x
  end.

Definition is_blank (x : string) : bool := String.eqb x "" || String.eqb x "_".

(** declaration [x := v]: a new variable, shadowing an older one of that name *)
Definition bind (x : string) (v : val) (e : env) : env := if is_blank x then e else (x, v) :: e.

(** assignment to the (innermost) existing variable [x] *)
Fixpoint upd (x : string) (v : val) (e : env) : option env :=
  match e with
  | [] => None
  | (y, w) :: r => if String.eqb y x then Some ((y, v) :: r)
                   else match upd x v r with Some r' => Some ((y, w) :: r') | None => None end
  end.

(** leaving a block: the variables declared inside it (the newest ones) go away *)
Definition trunc (d : nat) (e : env) : env := skipn (List.length e - d) e.

Fixpoint mget (k : Z) (m : list (Z * val)) : val :=
  match m with
  | [] => VNil                   (* m[k] of an absent key of a channel map: the nil channel *)
  | (k', v) :: r => if Z.eqb k' k then v else mget k r
  end.

Fixpoint mset (k : Z) (v : val) (m : list (Z * val)) : list (Z * val) :=
  match m with
  | [] => [(k, v)]
  | (k', w) :: r => if Z.eqb k' k then (k', v) :: r else (k', w) :: mset k v r
  end.

(** take the entry of key [k] out of the entries still to be visited by a range *)
Fixpoint mtake (k : Z) (m : list (Z * val)) : option (val * list (Z * val)) :=
  match m with
  | [] => None
  | (k', v) :: r => if Z.eqb k' k then Some (v, r)
                    else match mtake k r with Some (x, r') => Some (x, (k', v) :: r') | None => None end
  end.

Fixpoint parse_nat_aux (s : string) (acc : nat) : option nat :=
  match s with
  | EmptyString => Some acc
  | String c r => let n := nat_of_ascii c in
                  if (48 <=? n)%nat && (n <=? 57)%nat then parse_nat_aux r (10 * acc + (n - 48)) else None
  end.
Definition parse_nat (s : string) : option nat :=
  match s with EmptyString => None | _ => parse_nat_aux s 0 end.

(** ** Continuations, frames, goroutines *)

Inductive kont :=
| KStop                                                   (* end of the function body: run the deferred calls, return *)
| KSeq (ss : list stmt) (k : kont)
| KScope (depth : nat) (k : kont)                         (* end of a block: forget its variables *)
| KLoop (body : list stmt) (k : kont)                     (* head of `for { body }`; k = after the loop *)
| KFor (body : list stmt) (k : kont)                      (* head of a 3-clause for *)
| KRangeAny (kx vx : string) (body : list stmt) (k : kont)        (* head of a range over data not followed *)
| KRangeMap (kx vx : string) (todo : list (Z * val)) (body : list stmt) (k : kont).   (* head of a range over a map *)

Definition kseq (ss : list stmt) (k : kont) : kont := match ss with [] => k | _ => KSeq ss k end.

Record frame := MkFrame { fr_env : env; fr_defers : list stmt; fr_k : kont }.

(** a goroutine: its call stack, innermost frame first; [[]] = it has ended *)
Definition thread := list frame.

Inductive choice :=
| CNone
| CBool (b : bool)               (* SIf, SFor: the condition *)
| CCase (i : nat)                (* SSwitchType: which clause *)
| CIter (k : option Z)           (* a range head: the next key, or the end of the loop *)
| CKey (k : Z).                  (* SMapGet with a key the skeleton does not follow *)

(** what a goroutine asks of the shared state when it takes its next step *)
Inductive req :=
| QTau                           (* nothing shared *)
| QExit                          (* nothing shared; the goroutine has returned from its outermost function *)
| QNewChan (x : string)          (* make an unbuffered channel and bind it to x *)
| QNewWg (x : string)
| QWgAdd (w n : nat)
| QWgDone (w : nat)
| QWgWait (w : nat)              (* blocks while the counter is not zero *)
| QGo (th : thread)
| QSend (c : nat)                (* blocks until a receiver is there; panics on a closed channel *)
| QRecv (c : nat) (x ok : string)   (* blocks until a sender is there; ok = false at once on a closed channel *)
| QClose (c : nat)
| QPanic (what : string).

Definition with_k (fr : frame) (k : kont) : frame := MkFrame (fr_env fr) (fr_defers fr) k.
Definition with_env_k (fr : frame) (e : env) (k : kont) : frame := MkFrame e (fr_defers fr) k.

(** enter a block: its variables live until the matching [KScope] *)
Definition enter_block (fr : frame) (body : list stmt) (k : kont) : frame :=
  with_k fr (kseq body (KScope (List.length (fr_env fr)) k)).

(** one iteration of a range: the loop variables are declared for this iteration only *)
Definition enter_iter (fr : frame) (kx vx : string) (z : Z) (v : val) (body : list stmt) (head : kont) : frame :=
  with_env_k fr (bind vx v (bind kx (VKey z) (fr_env fr))) (kseq body (KScope (List.length (fr_env fr)) head)).

Fixpoint bind_params (ps : list (string * string)) (vs : list val) (e : env) : option env :=
  match ps, vs with
  | [], [] => Some e
  | (x, _) :: ps', v :: vs' => bind_params ps' vs' (bind x v e)
  | _, _ => None
  end.

Definition call_frame (f : func) (vs : list val) : option frame :=
  match bind_params (fn_params f) vs [] with
  | Some e => Some (MkFrame e [] (kseq (fn_body f) KStop))
  | None => None
  end.

(** [break]: leave the innermost loop; [d] = depth of the outermost block left on the way *)
Fixpoint break_to (k : kont) (d : option nat) : option (kont * option nat) :=
  match k with
  | KStop => None
  | KSeq _ k' => break_to k' d
  | KScope d' k' => break_to k' (Some d')
  | KLoop _ k' | KFor _ k' | KRangeAny _ _ _ k' | KRangeMap _ _ _ _ k' => Some (k', d)
  end.

(** ** One step of one goroutine *)

Definition tstep_stmt (P : list func) (c : choice) (fr : frame) (rest : thread) (s : stmt) (k : kont)
  : option (req * thread) :=
  let e := fr_env fr in
  let go_on := with_k fr k :: rest in
  match s with
  | SOther _ => Some (QTau, go_on)
  | SMakeChan x _ buf => if String.eqb buf "" then Some (QNewChan x, go_on) else None
  | SMakeChanMap x _ => Some (QTau, with_env_k fr (bind x (VMap []) e) k :: rest)
  | SMapSet m kx vx =>
      match get e m, get e kx, get e vx with
      | VMap mm, VKey z, VChan c0 =>
          match upd m (VMap (mset z (VChan c0) mm)) e with
          | Some e' => Some (QTau, with_env_k fr e' k :: rest)
          | None => None
          end
      | _, _, _ => None
      end
  | SMapGet x m kx =>
      match get e m with
      | VMap mm =>
          match (match get e kx with
                 | VKey z => Some z
                 | VAny => match c with CKey z => Some z | _ => None end
                 | _ => None
                 end) with
          | Some z => Some (QTau, with_env_k fr (bind x (mget z mm) e) k :: rest)
          | None => None
          end
      | _ => None
      end
  | SWgNew x => Some (QNewWg x, go_on)
  | SWgAdd x n =>
      match get e x, parse_nat n with
      | VWg w, Some n' => Some (QWgAdd w n', go_on)
      | _, _ => None
      end
  | SWgDone x => match get e x with VWg w => Some (QWgDone w, go_on) | _ => None end
  | SWgWait x => match get e x with VWg w => Some (QWgWait w, go_on) | _ => None end
  | SGoFunc ps body args =>
      (* the function literal sees the variables of the enclosing function (none of them is assigned later) *)
      match bind_params ps (map (get e) args) e with
      | Some e' => Some (QGo [MkFrame e' [] (kseq body KStop)], go_on)
      | None => None
      end
  | SGoCall f args =>
      match find_func f P with
      | Some fd => match call_frame fd (map (get e) args) with
                   | Some fr' => Some (QGo [fr'], go_on)
                   | None => None
                   end
      | None => None
      end
  | SDefer d => Some (QTau, MkFrame e (d :: fr_defers fr) k :: rest)
  | SSend ch _ => match get e ch with VChan c0 => Some (QSend c0, go_on) | _ => None end
  | SRecvOk x ok ch => match get e ch with VChan c0 => Some (QRecv c0 x ok, go_on) | _ => None end
  | SIfNotBreak ok =>
      match get e ok with
      | VBool true => Some (QTau, go_on)
      | VBool false =>
          match break_to k None with
          | Some (k', Some d) => Some (QTau, with_env_k fr (trunc d e) k' :: rest)
          | Some (k', None) => Some (QTau, with_k fr k' :: rest)
          | None => None
          end
      | _ => None
      end
  | SIfNilPanic x what =>
      match get e x with
      | VNil => Some (QPanic what, fr :: rest)
      | VChan _ => Some (QTau, go_on)
      | _ => None
      end
  | SClose ch =>
      match get e ch with
      | VChan c0 => Some (QClose c0, go_on)
      | VNil => Some (QPanic "close of nil channel", fr :: rest)
      | _ => None
      end
  | SForever body => Some (QTau, with_k fr (KLoop body k) :: rest)
  | SFor _ _ _ body => Some (QTau, with_k fr (KFor body k) :: rest)
  | SRange _ kx vx over body =>
      match get e over with
      | VMap m => Some (QTau, with_k fr (KRangeMap kx vx m body k) :: rest)
      | VAny => Some (QTau, with_k fr (KRangeAny kx vx body k) :: rest)
      | _ => None
      end
  | SSwitchType _ cases =>
      match c with
      | CCase i => match nth_error cases i with
                   | Some (_, body) => Some (QTau, enter_block fr body k :: rest)
                   | None => None
                   end
      | _ => None
      end
  | SIf _ thn els =>
      match c with
      | CBool b => Some (QTau, enter_block fr (if b then thn else els) k :: rest)
      | _ => None
      end
  | SPanic what => Some (QPanic what, fr :: rest)
  | SCall _ f args =>
      match find_func f P with
      | Some fd => match call_frame fd (map (get e) args) with
                   | Some fr' => Some (QTau, fr' :: go_on)
                   | None => None
                   end
      | None => None
      end
  | SCallMethod _ ty meth args =>
      (* the contract of the interface method *)
      match find_func (String.append ty (String.append "." meth)) P with
      | Some fd => match call_frame fd (map (get e) args) with
                   | Some fr' => Some (QTau, fr' :: go_on)
                   | None => None
                   end
      | None => None
      end
  | SReturn _ => Some (QTau, with_k fr KStop :: rest)
  end.

Definition tstep (P : list func) (c : choice) (th : thread) : option (req * thread) :=
  match th with
  | [] => None
  | fr :: rest =>
      let e := fr_env fr in
      match fr_k fr with
      | KStop =>
          match fr_defers fr with
          | d :: ds => Some (QTau, MkFrame e ds (KSeq [d] KStop) :: rest)      (* deferred calls, last first *)
          | [] => Some (match rest with [] => QExit | _ => QTau end, rest)     (* return to the caller *)
          end
      | KScope d k => Some (QTau, with_env_k fr (trunc d e) k :: rest)
      | KLoop body k => Some (QTau, enter_block fr body (KLoop body k) :: rest)
      | KFor body k =>
          match c with
          | CBool true => Some (QTau, enter_block fr body (KFor body k) :: rest)
          | CBool false => Some (QTau, with_k fr k :: rest)
          | _ => None
          end
      | KRangeAny kx vx body k =>
          match c with
          | CIter (Some z) => Some (QTau, enter_iter fr kx vx z VAny body (KRangeAny kx vx body k) :: rest)
          | CIter None => Some (QTau, with_k fr k :: rest)
          | _ => None
          end
      | KRangeMap kx vx todo body k =>
          match c with
          | CIter (Some z) =>
              match mtake z todo with
              | Some (v, todo') => Some (QTau, enter_iter fr kx vx z v body (KRangeMap kx vx todo' body k) :: rest)
              | None => None
              end
          | CIter None => match todo with [] => Some (QTau, with_k fr k :: rest) | _ => None end
          | _ => None
          end
      | KSeq [] k => Some (QTau, with_k fr k :: rest)
      | KSeq (s :: ss) k => tstep_stmt P c fr rest s (kseq ss k)
      end
  end.

(** ** The shared state and the steps of the whole program *)

Record gstate := MkG {
  g_threads : list thread;       (* goroutines in the order they were started; 0 = the caller of ProcessFeatures *)
  g_chans : list bool;           (* per channel: closed? *)
  g_wgs : list nat;              (* per wait group: the counter *)
  g_panic : option string
}.

Inductive action :=
| ALocal (t : nat) (c : choice)  (* goroutine t takes a step on its own (everything but a rendezvous) *)
| ASync (s r : nat).             (* goroutine s sends, goroutine r receives, on the same open channel *)

(** what happens to the shared state: the communication actions *)
Inductive event :=
| EvNewChan (c : nat)
| EvNewWg (w : nat)
| EvGo (t : nat)                 (* goroutine t is started *)
| EvSend (c : nat)               (* a value passes over channel c *)
| EvRecvClosed (c : nat)         (* a receive finds channel c closed *)
| EvClose (c : nat)
| EvWgAdd (w n : nat)
| EvWgDone (w : nat)
| EvWgWait (w : nat)             (* a Wait returns *)
| EvExit (t : nat)               (* goroutine t has returned *)
| EvPanic (what : string).

Fixpoint upd_nth {A} (n : nat) (x : A) (l : list A) : list A :=
  match l, n with
  | [], _ => []
  | _ :: r, O => x :: r
  | y :: r, S n' => y :: upd_nth n' x r
  end.

Definition bind_top (x : string) (v : val) (th : thread) : thread :=
  match th with
  | fr :: rest => with_env_k fr (bind x v (fr_env fr)) (fr_k fr) :: rest
  | [] => []
  end.

Definition panic_negative_wg : string := "sync: negative WaitGroup counter".
Definition panic_send_closed : string := "send on closed channel".
Definition panic_close_closed : string := "close of closed channel".

Definition gpanic (g : gstate) (what : string) : option (gstate * list event) :=
  Some (MkG (g_threads g) (g_chans g) (g_wgs g) (Some what), [EvPanic what]).

Definition gstep (P : list func) (g : gstate) (a : action) : option (gstate * list event) :=
  match g_panic g with
  | Some _ => None
  | None =>
      let ths := g_threads g in
      let chans := g_chans g in
      let wgs := g_wgs g in
      match a with
      | ALocal t c =>
          match nth_error ths t with
          | None => None
          | Some th =>
              match tstep P c th with
              | None => None
              | Some (q, th') =>
                  match q with
                  | QTau => Some (MkG (upd_nth t th' ths) chans wgs None, [])
                  | QExit => Some (MkG (upd_nth t th' ths) chans wgs None, [EvExit t])
                  | QNewChan x =>
                      Some (MkG (upd_nth t (bind_top x (VChan (List.length chans)) th') ths) (chans ++ [false]) wgs None,
                            [EvNewChan (List.length chans)])
                  | QNewWg x =>
                      Some (MkG (upd_nth t (bind_top x (VWg (List.length wgs)) th') ths) chans (wgs ++ [0]) None,
                            [EvNewWg (List.length wgs)])
                  | QWgAdd w n =>
                      match nth_error wgs w with
                      | Some v => Some (MkG (upd_nth t th' ths) chans (upd_nth w (v + n) wgs) None, [EvWgAdd w n])
                      | None => None
                      end
                  | QWgDone w =>
                      match nth_error wgs w with
                      | Some (S v) => Some (MkG (upd_nth t th' ths) chans (upd_nth w v wgs) None, [EvWgDone w])
                      | Some O => gpanic g panic_negative_wg
                      | None => None
                      end
                  | QWgWait w =>
                      match nth_error wgs w with
                      | Some O => Some (MkG (upd_nth t th' ths) chans wgs None, [EvWgWait w])
                      | _ => None
                      end
                  | QGo th2 => Some (MkG (upd_nth t th' ths ++ [th2]) chans wgs None, [EvGo (List.length ths)])
                  | QSend c0 =>
                      match nth_error chans c0 with
                      | Some true => gpanic g panic_send_closed
                      | _ => None                                     (* open: needs a receiver, [ASync] *)
                      end
                  | QRecv c0 x ok =>
                      match nth_error chans c0 with
                      | Some true =>
                          Some (MkG (upd_nth t (bind_top ok (VBool false) (bind_top x VAny th')) ths) chans wgs None,
                                [EvRecvClosed c0])
                      | _ => None                                     (* open: needs a sender, [ASync] *)
                      end
                  | QClose c0 =>
                      match nth_error chans c0 with
                      | Some false => Some (MkG (upd_nth t th' ths) (upd_nth c0 true chans) wgs None, [EvClose c0])
                      | Some true => gpanic g panic_close_closed
                      | None => None
                      end
                  | QPanic what => gpanic g what
                  end
              end
          end
      | ASync s r =>
          if Nat.eqb s r then None
          else match nth_error ths s, nth_error ths r with
               | Some ths_, Some thr_ =>
                   match tstep P CNone ths_, tstep P CNone thr_ with
                   | Some (QSend c1, ths'), Some (QRecv c2 x ok, thr') =>
                       match Nat.eqb c1 c2, nth_error chans c1 with
                       | true, Some false =>
                           Some (MkG (upd_nth r (bind_top ok (VBool true) (bind_top x VAny thr')) (upd_nth s ths' ths))
                                     chans wgs None,
                                 [EvSend c1])
                       | _, _ => None
                       end
                   | _, _ => None
                   end
               | _, _ => None
               end
      end
  end.

Fixpoint grun (P : list func) (g : gstate) (acts : list action) : option (gstate * list event) :=
  match acts with
  | [] => Some (g, [])
  | a :: r =>
      match gstep P g a with
      | Some (g', ev) => match grun P g' r with Some (g'', ev') => Some (g'', ev ++ ev') | None => None end
      | None => None
      end
  end.

(** every goroutine has ended *)
Definition gfinal (g : gstate) : bool :=
  match g_panic g with
  | Some _ => false
  | None => forallb (fun th => match th with [] => true | _ => false end) (g_threads g)
  end.

(** ** The program and its initial state: ProcessFeatures(source, targets, f) called with a map whose keys are [ts] *)

Definition program (sk : skeleton) : list func := sk_funcs sk ++ contracts.

Definition targets_val (ts : list Z) : val := VMap (map (fun t => (t, VAny)) ts).

Definition ginit (P : list func) (ts : list Z) : gstate :=
  MkG (match find_func "ProcessFeatures" P with
       | Some fd => match call_frame fd [VAny; targets_val ts; VAny] with Some fr => [[fr]] | None => [] end
       | None => []
       end) [] [] None.
