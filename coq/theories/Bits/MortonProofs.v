(** * The generated Morton programs meet the specification, for every input.

    Method: the shape check [lin] shows each generated program is lor-linear;
    a [vm_compute] sweep shows it agrees with the specification on the unit
    vectors; the extension lemma lifts this to all words.  A changed mask,
    shift or loop bound in morton.go changes [MortonGen.v] and makes one of the
    two computations return [false], so [Qed] fails. *)
From Coq Require Import NArith List Bool Lia.
From Texel Require Import Bits.Bexpr Bits.MortonSpec Bits.Morton.
From Texel.Gen Require Import MortonGen.
Import ListNotations.
Open Scope N_scope.

Lemma eval_ext e v w : (forall n, v n = w n) -> eval e v = eval e w.
Proof. intro H. induction e; simpl; rewrite ?IHe, ?IHe1, ?IHe2; auto. Qed.

(** ** ToZ *)
Definition toZ_fx (x : N) : N := eval gen_toZ_z (env2 x 0).
Definition toZ_fy (y : N) : N := eval gen_toZ_z (env2 0 y).

Lemma toZ_shape : lin gen_toZ_z = true.
Proof. vm_compute. reflexivity. Qed.

Lemma toZ_split x y : eval gen_toZ_z (env2 x y) = N.lor (toZ_fx x) (toZ_fy y).
Proof.
  unfold toZ_fx, toZ_fy. rewrite <- (lin_lor _ toZ_shape).
  apply eval_ext. intros [| n]; unfold elor, env2; simpl; [apply eq_sym, N.lor_0_r | reflexivity].
Qed.

Lemma toZ_fx_lor a b : toZ_fx (N.lor a b) = N.lor (toZ_fx a) (toZ_fx b).
Proof.
  unfold toZ_fx. rewrite <- (lin_lor _ toZ_shape). apply eval_ext.
  intros [| n]; unfold elor, env2; simpl; reflexivity.
Qed.

Lemma toZ_fy_lor a b : toZ_fy (N.lor a b) = N.lor (toZ_fy a) (toZ_fy b).
Proof.
  unfold toZ_fy. rewrite <- (lin_lor _ toZ_shape). apply eval_ext.
  intros [| n]; unfold elor, env2; simpl; reflexivity.
Qed.

Lemma toZ_fx_0 : toZ_fx 0 = 0.
Proof. unfold toZ_fx. rewrite <- (lin_zero _ toZ_shape). apply eval_ext. intros [| n]; reflexivity. Qed.

Lemma toZ_fy_0 : toZ_fy 0 = 0.
Proof. unfold toZ_fy. rewrite <- (lin_zero _ toZ_shape). apply eval_ext. intros [| n]; reflexivity. Qed.

Lemma toZ_fx_units : units_agree 32 toZ_fx spread = true.
Proof. vm_compute. reflexivity. Qed.

Lemma toZ_fy_units : units_agree 32 toZ_fy (fun y => N.double (spread y)) = true.
Proof. vm_compute. reflexivity. Qed.

Lemma toZ_fx_spec x : x < 2 ^ 32 -> toZ_fx x = spread x.
Proof.
  apply (ext_below toZ_fx spread 32 toZ_fx_lor spread_lor toZ_fx_0 eq_refl).
  apply (units_agree_spec 32 _ _ toZ_fx_units).
Qed.

Lemma toZ_fy_spec y : y < 2 ^ 32 -> toZ_fy y = N.double (spread y).
Proof.
  apply (ext_below toZ_fy (fun y => N.double (spread y)) 32 toZ_fy_lor).
  - intros a b. now rewrite spread_lor, double_lor.
  - apply toZ_fy_0.
  - reflexivity.
  - apply (units_agree_spec 32 _ _ toZ_fy_units).
Qed.

Lemma toZ_ok_spec x y : snd (toZ x y) = true <-> x < 2 ^ 32 /\ y < 2 ^ 32.
Proof.
  unfold toZ. cbn [snd]. unfold gen_toZ_ok. cbn [evalc eval env2].
  rewrite andb_true_iff, !N.leb_le. change (2 ^ 32) with 4294967296. lia.
Qed.

Theorem toZ_spec x y : x < 2 ^ 32 -> y < 2 ^ 32 -> toZ x y = (interleave x y, true).
Proof.
  intros Hx Hy. rewrite (surjective_pairing (toZ x y)). f_equal.
  - unfold toZ. cbn [fst]. rewrite toZ_split, toZ_fx_spec, toZ_fy_spec by assumption. reflexivity.
  - apply toZ_ok_spec. split; assumption.
Qed.

(** ** FromZ *)
Definition fromZ_fx (z : N) : N := eval gen_fromZ_x (env1 z).
Definition fromZ_fy (z : N) : N := eval gen_fromZ_y (env1 z).

Lemma fromZ_x_shape : lin gen_fromZ_x = true.
Proof. vm_compute. reflexivity. Qed.
Lemma fromZ_y_shape : lin gen_fromZ_y = true.
Proof. vm_compute. reflexivity. Qed.

Lemma env1_lor e (H : lin e = true) a b :
  eval e (env1 (N.lor a b)) = N.lor (eval e (env1 a)) (eval e (env1 b)).
Proof. rewrite <- (lin_lor _ H). apply eval_ext. intro n. reflexivity. Qed.

Lemma env1_zero e (H : lin e = true) : eval e (env1 0) = 0.
Proof. rewrite <- (lin_zero _ H) at 2. apply eval_ext. intro n. reflexivity. Qed.

Lemma fromZ_fx_units : units_agree 64 fromZ_fx evens = true.
Proof. vm_compute. reflexivity. Qed.
Lemma fromZ_fy_units : units_agree 64 fromZ_fy odds = true.
Proof. vm_compute. reflexivity. Qed.

Theorem fromZ_spec z : z < 2 ^ 64 -> fromZ z = (evens z, odds z).
Proof.
  intro Hz. unfold fromZ. f_equal.
  - apply (ext_below fromZ_fx evens 64 (env1_lor _ fromZ_x_shape) evens_lor
             (env1_zero _ fromZ_x_shape) eq_refl (units_agree_spec 64 _ _ fromZ_fx_units) z Hz).
  - apply (ext_below fromZ_fy odds 64 (env1_lor _ fromZ_y_shape) odds_lor
             (env1_zero _ fromZ_y_shape) eq_refl (units_agree_spec 64 _ _ fromZ_fy_units) z Hz).
Qed.

(** ** Bounds *)
Lemma pow2_pos n : 0 < 2 ^ n.
Proof. apply N.neq_0_lt_0, N.pow_nonzero. discriminate. Qed.
Lemma spread_pos_size p : (Pos.size_nat (spread_pos p) <= 2 * Pos.size_nat p)%nat.
Proof. induction p; simpl; lia. Qed.

Lemma N_lt_pow2_size p n : (Pos.size_nat p <= n)%nat -> Npos p < 2 ^ N.of_nat n.
Proof.
  revert n. induction p as [p IH | p IH |]; intros [| n] H; simpl in H; try lia.
  - specialize (IH n ltac:(lia)). rewrite Nat2N.inj_succ, N.pow_succ_r'. lia.
  - specialize (IH n ltac:(lia)). rewrite Nat2N.inj_succ, N.pow_succ_r'. lia.
  - rewrite Nat2N.inj_succ, N.pow_succ_r'. assert (0 < 2 ^ N.of_nat n) by (apply pow2_pos). lia.
Qed.

Lemma size_of_lt p n : Npos p < 2 ^ N.of_nat n -> (Pos.size_nat p <= n)%nat.
Proof.
  revert n. induction p as [p IH | p IH |]; intros [| n] H; simpl.
  - simpl in H. lia.
  - rewrite Nat2N.inj_succ, N.pow_succ_r' in H. specialize (IH n ltac:(lia)). lia.
  - simpl in H. lia.
  - rewrite Nat2N.inj_succ, N.pow_succ_r' in H. specialize (IH n ltac:(lia)). lia.
  - simpl in H. lia.
  - lia.
Qed.

Lemma spread_bound x n : x < 2 ^ N.of_nat n -> spread x < 2 ^ N.of_nat (2 * n).
Proof.
  destruct x as [| p]; intro H; simpl.
  - apply pow2_pos.
  - apply N_lt_pow2_size. pose proof (spread_pos_size p). apply size_of_lt in H. lia.
Qed.

Lemma lor_bound a b n : a < 2 ^ n -> b < 2 ^ n -> N.lor a b < 2 ^ n.
Proof.
  intros Ha Hb. destruct (N.eq_dec (N.lor a b) 0) as [E | E]; [rewrite E; apply pow2_pos |].
  apply N.log2_lt_pow2; [lia |]. rewrite N.log2_lor.
  destruct (N.eq_dec a 0) as [-> | Ha0]; destruct (N.eq_dec b 0) as [-> | Hb0]; simpl in *;
    try (apply N.max_lub_lt; apply N.log2_lt_pow2; lia).
  - exfalso. apply E. reflexivity.
  - rewrite N.max_r by lia. apply N.log2_lt_pow2; lia.
  - rewrite N.max_l by lia. apply N.log2_lt_pow2; lia.
Qed.

Lemma spread_pos_size_eq p : (Pos.size_nat (spread_pos p) = 2 * Pos.size_nat p - 1)%nat.
Proof.
  induction p as [p IH | p IH |]; simpl; [rewrite IH | rewrite IH | reflexivity];
    pose proof (Pos.size_nat_monotone 1 p); destruct p; simpl in *; lia.
Qed.

Lemma spread_bound_sharp y : y < 2 ^ 32 -> N.double (spread y) < 2 ^ 64.
Proof.
  intro H. destruct y as [| p]; [reflexivity |]. simpl.
  change (N.pos (spread_pos p)~0 < 2 ^ N.of_nat 64). apply N_lt_pow2_size. simpl.
  change (2 ^ 32) with (2 ^ N.of_nat 32) in H. apply size_of_lt in H.
  rewrite spread_pos_size_eq. lia.
Qed.

Lemma interleave_bound x y : x < 2 ^ 32 -> y < 2 ^ 32 -> interleave x y < 2 ^ 64.
Proof.
  intros Hx Hy. unfold interleave.
  pose proof (spread_bound x 32 Hx) as Bx. change (N.of_nat (2 * 32)) with 64 in Bx.
  apply lor_bound; [exact Bx | apply spread_bound_sharp; exact Hy].
Qed.

(** ** Corollaries used by the properties *)
Theorem roundtrip x y : x < 2 ^ 32 -> y < 2 ^ 32 ->
  fromZ (fst (toZ x y)) = (x, y) /\ snd (toZ x y) = true.
Proof.
  intros Hx Hy. rewrite (toZ_spec x y Hx Hy). cbn [fst snd]. split; [| reflexivity].
  rewrite fromZ_spec by (apply interleave_bound; assumption).
  now rewrite evens_interleave, odds_interleave.
Qed.

Theorem injective x y x' y' :
  x < 2 ^ 32 -> y < 2 ^ 32 -> x' < 2 ^ 32 -> y' < 2 ^ 32 ->
  fst (toZ x y) = fst (toZ x' y') -> x = x' /\ y = y'.
Proof.
  intros Hx Hy Hx' Hy' H. rewrite (toZ_spec x y Hx Hy), (toZ_spec x' y' Hx' Hy') in H.
  apply interleave_injective. exact H.
Qed.

Theorem parent x y : x < 2 ^ 32 -> y < 2 ^ 32 ->
  fst (toZ (x / 2) (y / 2)) = fst (toZ x y) / 4.
Proof.
  intros Hx Hy.
  assert (Hx2 : x / 2 < 2 ^ 32) by (apply N.div_lt_upper_bound; lia).
  assert (Hy2 : y / 2 < 2 ^ 32) by (apply N.div_lt_upper_bound; lia).
  rewrite (toZ_spec _ _ Hx2 Hy2), (toZ_spec _ _ Hx Hy). cbn [fst].
  rewrite <- !div2_half, interleave_parent. apply div2_div2_div4.
Qed.

Theorem parent_shiftr x y : x < 2 ^ 32 -> y < 2 ^ 32 ->
  fst (toZ (x / 2) (y / 2)) = N.shiftr (fst (toZ x y)) 2.
Proof. intros Hx Hy. rewrite parent by assumption. now rewrite N.shiftr_div_pow2. Qed.

Theorem not_encodable x y : snd (toZ x y) = false <-> 2 ^ 32 <= x \/ 2 ^ 32 <= y.
Proof.
  destruct (snd (toZ x y)) eqn:E.
  - apply toZ_ok_spec in E. split; [discriminate | lia].
  - split; [intros _ | reflexivity].
    destruct (N.lt_ge_cases x (2 ^ 32)) as [Hx | Hx]; [| now left].
    destruct (N.lt_ge_cases y (2 ^ 32)) as [Hy | Hy]; [| now right].
    assert (T : snd (toZ x y) = true) by (apply toZ_ok_spec; split; assumption). congruence.
Qed.

Theorem mustToZ_panics_iff x y : mustToZ x y = None <-> 2 ^ 32 <= x \/ 2 ^ 32 <= y.
Proof.
  rewrite <- not_encodable. unfold mustToZ. destruct (toZ x y) as [z ok]. cbn [snd].
  destruct ok; split; congruence.
Qed.

(** Children of a pixel (pointindex.getQuadrantZs): the four keys 4z .. 4z+3, in
    the order bottom-left, bottom-right, top-left, top-right. *)
Theorem children px py : px < 2 ^ 31 -> py < 2 ^ 31 ->
  let z := fst (toZ px py) in
  getQuadrantZs z = [Some (4 * z); Some (4 * z + 1); Some (4 * z + 2); Some (4 * z + 3)].
Proof.
  intros Hx Hy z.
  assert (Hx' : px < 2 ^ 32) by (change (2 ^ 32) with (2 * 2 ^ 31); lia).
  assert (Hy' : py < 2 ^ 32) by (change (2 ^ 32) with (2 * 2 ^ 31); lia).
  unfold getQuadrantZs. subst z.
  destruct (roundtrip px py Hx' Hy') as [R _]. rewrite R.
  rewrite (toZ_spec px py Hx' Hy'). cbn [fst].
  assert (Hc : forall a b : bool,
             mustToZ (w64 (w64 (px * 2) + bit a)) (w64 (w64 (py * 2) + bit b))
             = Some (4 * interleave px py + bit a + 2 * bit b)).
  { intros a b. unfold w64, W64.
    assert (Ba : bit a <= 1) by (destruct a; simpl; lia).
    assert (Bb : bit b <= 1) by (destruct b; simpl; lia).
    change (2 ^ 31) with 2147483648 in *. change (2 ^ 32) with 4294967296 in *.
    rewrite (N.mod_small (px * 2)) by lia. rewrite (N.mod_small (py * 2)) by lia.
    rewrite (N.mod_small (px * 2 + bit a)) by lia. rewrite (N.mod_small (py * 2 + bit b)) by lia.
    unfold mustToZ. rewrite toZ_spec by (change (2 ^ 32) with 4294967296; lia).
    rewrite (N.mul_comm px 2), (N.mul_comm py 2), interleave_child. reflexivity. }
  cbn [map]. unfold oneIfRight, oneIfTop.
  change (N.land 0 1) with (bit false). change (N.shiftr (N.land 0 2) 1) with (bit false).
  change (N.land 1 1) with (bit true). change (N.shiftr (N.land 1 2) 1) with (bit false).
  change (N.land 2 1) with (bit false). change (N.shiftr (N.land 2 2) 1) with (bit true).
  change (N.land 3 1) with (bit true). change (N.shiftr (N.land 3 2) 1) with (bit true).
  rewrite !Hc. cbn [bit].
  repeat match goal with
         | |- _ :: _ = _ :: _ => f_equal
         | |- Some _ = Some _ => f_equal; lia
         end.
Qed.
