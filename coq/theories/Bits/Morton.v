(** * Executable model of package morton: the generated programs, evaluated.

    No proofs here, so that the model still runs when a proof breaks. *)
From Coq Require Import NArith List Bool.
From Texel Require Import Bits.Bexpr.
From Texel.Gen Require Import MortonGen.
Import ListNotations.
Open Scope N_scope.

(** morton.ToZ(x, y) = (z, ok) *)
Definition toZ (x y : N) : N * bool :=
  (eval gen_toZ_z (env2 x y), evalc gen_toZ_ok (env2 x y)).

(** morton.FromZ(z) = (x, y) *)
Definition fromZ (z : N) : N * N :=
  (eval gen_fromZ_x (env1 z), eval gen_fromZ_y (env1 z)).

(** morton.MustToZ: [None] is the panic. *)
Definition mustToZ (x y : N) : option N :=
  let '(z, ok) := toZ x y in if ok then Some z else None.

(** pointindex.getQuadrantZs (hand-written from pointindex.go:347-357; compared
    with the implementation by the correspondence check of C17). *)
Definition oneIfRight (i : N) : N := N.land i 1.
Definition oneIfTop (i : N) : N := N.shiftr (N.land i 2) 1.
Definition getQuadrantZs (parentZ : N) : list (option N) :=
  let '(px, py) := fromZ parentZ in
  map (fun i => mustToZ (w64 (w64 (px * 2) + oneIfRight i)) (w64 (w64 (py * 2) + oneIfTop i))) [0; 1; 2; 3].
