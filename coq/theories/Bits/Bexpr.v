(** * 64-bit word expressions, deep embedding (target of translator G1)

    [bexpr] is the expression language into which /verif/translator turns the
    bodies of morton.ToZ and morton.FromZ.  Words are [N] with the wrap-around
    of Go's [uint] written in explicitly: every left shift and every addition is
    reduced modulo 2^64.  [bcond] is the language of the boolean result. *)
From Coq Require Import NArith Lia List Bool.
Import ListNotations.
Open Scope N_scope.

Definition W64 : N := 18446744073709551616. (* 2^64 *)
Definition w64 (x : N) : N := x mod W64.

Inductive bexpr :=
| BVar (n : nat)
| BConst (c : N)
| BOr (a b : bexpr)
| BAnd (a b : bexpr)
| BXor (a b : bexpr)
| BAdd (a b : bexpr)
| BShl (a : bexpr) (k : N)
| BShr (a : bexpr) (k : N).

Inductive bcond :=
| CLe (a b : bexpr)
| CLt (a b : bexpr)
| CAnd (a b : bcond)
| COr (a b : bcond).

Definition env := nat -> N.

Fixpoint eval (e : bexpr) (v : env) : N :=
  match e with
  | BVar n => v n
  | BConst c => c
  | BOr a b => N.lor (eval a v) (eval b v)
  | BAnd a b => N.land (eval a v) (eval b v)
  | BXor a b => N.lxor (eval a v) (eval b v)
  | BAdd a b => w64 (eval a v + eval b v)
  | BShl a k => w64 (N.shiftl (eval a v) k)
  | BShr a k => N.shiftr (eval a v) k
  end.

Fixpoint evalc (c : bcond) (v : env) : bool :=
  match c with
  | CLe a b => eval a v <=? eval b v
  | CLt a b => eval a v <? eval b v
  | CAnd a b => evalc a v && evalc b v
  | COr a b => evalc a v || evalc b v
  end.

Definition env1 (x : N) : env := fun _ => x.
Definition env2 (x y : N) : env := fun n => match n with O => x | _ => y end.

(** ** Lor-linear shape

    An expression of this shape denotes a function that distributes over
    bitwise or and maps 0 to 0 — whatever the masks and shift amounts are. *)
Fixpoint lin (e : bexpr) : bool :=
  match e with
  | BVar _ => true
  | BConst _ => false
  | BOr a b => lin a && lin b
  | BAnd a (BConst _) => lin a
  | BAnd _ _ => false
  | BXor _ _ => false
  | BAdd _ _ => false
  | BShl a _ => lin a
  | BShr a _ => lin a
  end.

Definition elor (v w : env) : env := fun n => N.lor (v n) (w n).
Definition ezero : env := fun _ => 0.

Lemma w64_land x : w64 x = N.land x (N.ones 64).
Proof. unfold w64, W64. change 18446744073709551616 with (2^64). now rewrite N.land_ones. Qed.

Lemma lin_lor e : lin e = true ->
  forall v w, eval e (elor v w) = N.lor (eval e v) (eval e w).
Proof.
  induction e as [n | c | a IHa b IHb | a IHa b IHb | a IHa b IHb | a IHa b IHb | a IHa k | a IHa k];
    simpl; intros H v w; try discriminate.
  - reflexivity.
  - apply andb_true_iff in H as [Ha Hb]. rewrite IHa, IHb by assumption.
    apply N.bits_inj; intro n. rewrite !N.lor_spec.
    destruct (N.testbit _ n), (N.testbit _ n), (N.testbit _ n), (N.testbit _ n); reflexivity.
  - destruct b; try discriminate. simpl. rewrite IHa by assumption.
    apply N.bits_inj; intro n. rewrite ?N.lor_spec, ?N.land_spec, ?N.lor_spec.
    destruct (N.testbit _ n), (N.testbit _ n), (N.testbit c n); reflexivity.
  - rewrite IHa by assumption. rewrite !w64_land. apply N.bits_inj; intro n.
    rewrite ?N.land_spec, ?N.lor_spec, ?N.land_spec.
    destruct (N.lt_ge_cases n k).
    + rewrite !N.shiftl_spec_low by assumption. reflexivity.
    + rewrite !N.shiftl_spec_high' by assumption. rewrite N.lor_spec.
      destruct (N.testbit _ _), (N.testbit _ _), (N.testbit _ n); reflexivity.
  - rewrite IHa by assumption. apply N.bits_inj; intro n.
    rewrite ?N.lor_spec, !N.shiftr_spec', N.lor_spec. reflexivity.
Qed.

Lemma lin_zero e : lin e = true -> eval e ezero = 0.
Proof.
  induction e as [n | c | a IHa b IHb | a IHa b IHb | a IHa b IHb | a IHa b IHb | a IHa k | a IHa k];
    simpl; intros H; try discriminate.
  - reflexivity.
  - apply andb_true_iff in H as [Ha Hb]. now rewrite IHa, IHb.
  - destruct b; try discriminate. simpl. now rewrite IHa.
  - rewrite IHa by assumption. now rewrite N.shiftl_0_l.
  - rewrite IHa by assumption. now rewrite N.shiftr_0_l.
Qed.

(** ** Bit decomposition and the extension lemma *)
Definition bitat (x n : N) : N := if N.testbit x n then 2 ^ n else 0.

Lemma decomp x n : x mod 2 ^ (N.succ n) = N.lor (x mod 2 ^ n) (bitat x n).
Proof.
  apply N.bits_inj; intro m. rewrite N.lor_spec. unfold bitat.
  assert (Hb : N.testbit (if N.testbit x n then 2 ^ n else 0) m = (N.eqb m n && N.testbit x n)%bool).
  { destruct (N.testbit x n).
    - rewrite N.pow2_bits_eqb, andb_true_r. apply N.eqb_sym.
    - now rewrite N.bits_0, andb_false_r. }
  rewrite Hb. clear Hb.
  destruct (N.lt_ge_cases m (N.succ n)) as [Hlt | Hge].
  - rewrite N.mod_pow2_bits_low by assumption.
    destruct (N.eqb_spec m n) as [-> | Hne]; simpl.
    + rewrite N.mod_pow2_bits_high by lia. reflexivity.
    + rewrite N.mod_pow2_bits_low by lia. now rewrite orb_false_r.
  - rewrite !N.mod_pow2_bits_high by lia. destruct (N.eqb_spec m n); [lia | reflexivity].
Qed.

(** Two lor-linear functions that agree on the unit vectors 2^n, n < bits, agree
    on every word below 2^bits. *)
Section Ext.
  Variables f g : N -> N.
  Variable bits : N.
  Hypothesis fl : forall a b, f (N.lor a b) = N.lor (f a) (f b).
  Hypothesis gl : forall a b, g (N.lor a b) = N.lor (g a) (g b).
  Hypothesis f0 : f 0 = 0.
  Hypothesis g0 : g 0 = 0.
  Hypothesis units : forall n, n < bits -> f (2 ^ n) = g (2 ^ n).

  Lemma ext_mod : forall n, n <= bits -> forall x, f (x mod 2 ^ n) = g (x mod 2 ^ n).
  Proof.
    induction n using N.peano_ind; intros Hn x.
    - now rewrite N.pow_0_r, N.mod_1_r, f0, g0.
    - rewrite decomp, fl, gl, IHn by lia. f_equal. unfold bitat.
      destruct (N.testbit x n); [apply units; lia | now rewrite f0, g0].
  Qed.

  Lemma ext_below x : x < 2 ^ bits -> f x = g x.
  Proof. intro H. rewrite <- (N.mod_small x (2 ^ bits)) by assumption. apply ext_mod. lia. Qed.
End Ext.

(** The unit-vector agreement as a computation. *)
Definition units_agree (bits : nat) (f g : N -> N) : bool :=
  forallb (fun n => N.eqb (f (2 ^ n)) (g (2 ^ n))) (map N.of_nat (seq 0 bits)).

Lemma units_agree_spec bits f g :
  units_agree bits f g = true -> forall n, n < N.of_nat bits -> f (2 ^ n) = g (2 ^ n).
Proof.
  unfold units_agree. rewrite forallb_forall. intros H n Hn. apply N.eqb_eq, H, in_map_iff.
  exists (N.to_nat n). split; [lia |]. apply in_seq. lia.
Qed.
