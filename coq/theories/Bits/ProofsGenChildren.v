(** * Tie G2: pointindex.getQuadrantZs REGENERATED from pointindex.go on every run (gen/ChildrenGen.v)
      is the model's [getQuadrantZs] (Bits/Morton.v).

    The generated definition is written with the same [fromZ] / [mustToZ] as the model (the evaluation of the
    programs regenerated from morton.go, G1), uint arithmetic modulo 2^64 ([w64]), the regenerated
    [gen_oneIfRight] / [gen_oneIfTop] of PointIndexGen.v converted with Go's [uint(int)], and Go's panic
    semantics: the first [MustToZ] that panics ends the function ([None]).  The model keeps one [option] per
    child; [all_some] is the function-level panic of that list. *)
From Coq Require Import ZArith NArith List Bool.
From Texel Require Import Bits.Bexpr Bits.Morton Bits.MortonProofs Index.MachineInt.
From Texel.Gen Require Import PointIndexGen ChildrenGen.
Import ListNotations.
Open Scope N_scope.

(** the whole function panics iff one of the calls does; otherwise the values in order *)
Fixpoint all_some {A : Type} (l : list (option A)) : option (list A) :=
  match l with
  | [] => Some []
  | None :: _ => None
  | Some x :: r => match all_some r with Some r' => Some (x :: r') | None => None end
  end.

Lemma all_some_Some {A : Type} (l : list (option A)) (r : list A) : all_some l = Some r <-> l = map Some r.
Proof.
  revert r. induction l as [| [x |] l IH]; intro r; cbn [all_some].
  - split; [intros [= <-]; reflexivity | destruct r; [reflexivity | discriminate]].
  - destruct (all_some l) as [r' |] eqn:E.
    + split.
      * intros [= <-]. cbn [map]. f_equal. apply IH. reflexivity.
      * destruct r as [| y r]; [discriminate |]. cbn [map]. intros [= -> H]. apply IH in H. congruence.
    + split; [discriminate |]. destruct r as [| y r]; [discriminate |]. cbn [map]. intros [= -> H].
      apply IH in H. discriminate.
  - split; [discriminate | destruct r; discriminate].
Qed.

Lemma all_some_None {A : Type} (l : list (option A)) : all_some l = None <-> In None l.
Proof.
  induction l as [| [x |] l IH]; cbn [all_some In].
  - split; [discriminate | intros []].
  - destruct (all_some l); split.
    + discriminate.
    + intros [H | H]; [discriminate | apply IH in H; discriminate].
    + intros _. right. apply IH. reflexivity.
    + reflexivity.
  - split; [left; reflexivity | reflexivity].
Qed.

(** Go's uint(oneIfRight(i)), uint(oneIfTop(i)) for the four unrolled values of i *)
Lemma oneIf_values :
  (Z.to_N (u64 (gen_oneIfRight 0)) = oneIfRight 0 /\ Z.to_N (u64 (gen_oneIfTop 0)) = oneIfTop 0) /\
  (Z.to_N (u64 (gen_oneIfRight 1)) = oneIfRight 1 /\ Z.to_N (u64 (gen_oneIfTop 1)) = oneIfTop 1) /\
  (Z.to_N (u64 (gen_oneIfRight 2)) = oneIfRight 2 /\ Z.to_N (u64 (gen_oneIfTop 2)) = oneIfTop 2) /\
  (Z.to_N (u64 (gen_oneIfRight 3)) = oneIfRight 3 /\ Z.to_N (u64 (gen_oneIfTop 3)) = oneIfTop 3).
Proof. vm_compute. repeat split; reflexivity. Qed.

Theorem gen_getQuadrantZs_spec (z : N) : gen_getQuadrantZs z = all_some (getQuadrantZs z).
Proof.
  unfold gen_getQuadrantZs, getQuadrantZs. destruct (fromZ z) as [px py]. cbv beta zeta. cbn [map].
  destruct oneIf_values as [[R0 T0] [[R1 T1] [[R2 T2] [R3 T3]]]].
  rewrite R0, T0, R1, T1, R2, T2, R3, T3.
  set (c0 := mustToZ _ _). set (c1 := mustToZ _ _). set (c2 := mustToZ _ _). set (c3 := mustToZ _ _).
  destruct c0; [| reflexivity]. destruct c1; [| reflexivity]. destruct c2; [| reflexivity].
  destruct c3; reflexivity.
Qed.

(** with the model's theorem about the children: for a parent pixel below 2^31 the regenerated function does not
    panic and returns the keys 4z .. 4z+3 in order *)
Corollary gen_getQuadrantZs_children px py : px < 2 ^ 31 -> py < 2 ^ 31 ->
  let z := fst (toZ px py) in
  gen_getQuadrantZs z = Some [4 * z; 4 * z + 1; 4 * z + 2; 4 * z + 3].
Proof.
  intros Hx Hy z. rewrite gen_getQuadrantZs_spec. apply all_some_Some. exact (children px py Hx Hy).
Qed.
