(** * Specification of Z-order (Morton) keys, by structural recursion on binary
      numbers: no bound on the number of bits.

    [spread x] puts bit i of x at position 2i; [interleave x y] is the key of
    pixel address (x, y); [evens]/[odds] are its inverses. *)
From Coq Require Import NArith PArith Lia Bool.
Open Scope N_scope.

Fixpoint spread_pos (p : positive) : positive :=
  match p with
  | xH => xH
  | xO q => xO (xO (spread_pos q))
  | xI q => xI (xO (spread_pos q))
  end.

Definition spread (x : N) : N :=
  match x with N0 => 0 | Npos p => Npos (spread_pos p) end.

Definition interleave (x y : N) : N := N.lor (spread x) (N.double (spread y)).

(** [pick true p]: bits 0, 2, 4, ... of p; [pick false p]: bits 1, 3, 5, ... *)
Fixpoint pick (take : bool) (p : positive) : N :=
  match p with
  | xH => if take then 1 else 0
  | xO q => if take then N.double (pick false q) else pick true q
  | xI q => if take then N.succ_double (pick false q) else pick true q
  end.

Definition evens (z : N) : N := match z with N0 => 0 | Npos p => pick true p end.
Definition odds (z : N) : N := match z with N0 => 0 | Npos p => pick false p end.

(** ** Small facts about double / succ_double / lor *)
Lemma double_lor a b : N.double (N.lor a b) = N.lor (N.double a) (N.double b).
Proof. destruct a, b; reflexivity. Qed.

Lemma succ_double_lor a b : N.succ_double (N.lor a b) = N.lor (N.succ_double a) (N.succ_double b).
Proof. destruct a, b; reflexivity. Qed.

Lemma succ_double_lor_l a b : N.succ_double (N.lor a b) = N.lor (N.succ_double a) (N.double b).
Proof. destruct a, b; reflexivity. Qed.

Lemma succ_double_lor_r a b : N.succ_double (N.lor a b) = N.lor (N.double a) (N.succ_double b).
Proof. destruct a, b; reflexivity. Qed.

(** ** spread distributes over lor *)
Lemma spread_pos_lor p q : spread_pos (Pos.lor p q) = Pos.lor (spread_pos p) (spread_pos q).
Proof.
  revert q. induction p as [p IH | p IH |]; intros [q | q |]; simpl; try rewrite IH; reflexivity.
Qed.

Lemma spread_lor a b : spread (N.lor a b) = N.lor (spread a) (spread b).
Proof. destruct a, b; simpl; try reflexivity. now rewrite spread_pos_lor. Qed.

Lemma spread_double x : spread (N.double x) = N.double (N.double (spread x)).
Proof. destruct x; reflexivity. Qed.

Lemma spread_succ_double x : spread (N.succ_double x) = N.succ_double (N.double (spread x)).
Proof. destruct x; reflexivity. Qed.

(** ** evens / odds distribute over lor *)
Lemma pick_lor t p q : pick t (Pos.lor p q) = N.lor (pick t p) (pick t q).
Proof.
  revert t q. induction p as [p IH | p IH |]; intros t [q | q |]; destruct t; simpl; rewrite ?IH;
    repeat match goal with |- context [pick ?t ?p] => destruct (pick t p) end; reflexivity.
Qed.

Lemma evens_lor a b : evens (N.lor a b) = N.lor (evens a) (evens b).
Proof. destruct a, b; simpl; try reflexivity; [now rewrite N.lor_0_r | apply pick_lor]. Qed.

Lemma odds_lor a b : odds (N.lor a b) = N.lor (odds a) (odds b).
Proof. destruct a, b; simpl; try reflexivity; [now rewrite N.lor_0_r | apply pick_lor]. Qed.

Lemma evens_double z : evens (N.double z) = N.double (odds z).
Proof. destruct z; reflexivity. Qed.

Lemma odds_double z : odds (N.double z) = evens z.
Proof. destruct z; reflexivity. Qed.

Lemma odds_div2 z : odds z = evens (N.div2 z).
Proof. destruct z as [| [p | p |]]; reflexivity. Qed.

(** ** Round trip *)
Lemma pick_spread_pos p : pick true (spread_pos p) = Npos p /\ pick false (spread_pos p) = 0.
Proof.
  induction p as [p [IH1 IH2] | p [IH1 IH2] |]; simpl; rewrite ?IH1, ?IH2; split; reflexivity.
Qed.

Lemma evens_spread x : evens (spread x) = x.
Proof. destruct x; simpl; [reflexivity | apply pick_spread_pos]. Qed.

Lemma odds_spread x : odds (spread x) = 0.
Proof. destruct x; simpl; [reflexivity | apply pick_spread_pos]. Qed.

Theorem evens_interleave x y : evens (interleave x y) = x.
Proof.
  unfold interleave. rewrite evens_lor, evens_double, odds_spread, evens_spread. simpl.
  apply N.lor_0_r.
Qed.

Theorem odds_interleave x y : odds (interleave x y) = y.
Proof.
  unfold interleave. rewrite odds_lor, odds_double, odds_spread, evens_spread. reflexivity.
Qed.

Theorem interleave_injective x y x' y' : interleave x y = interleave x' y' -> x = x' /\ y = y'.
Proof.
  intro H. split.
  - rewrite <- (evens_interleave x y), H. apply evens_interleave.
  - rewrite <- (odds_interleave x y), H. apply odds_interleave.
Qed.

(** ** Hierarchy: parent and children *)
Lemma spread_div2 x : spread (N.div2 x) = N.div2 (N.div2 (spread x)).
Proof. destruct x as [| [p | p |]]; reflexivity. Qed.

Lemma div2_spread_even x : N.div2 (spread x) = N.double (N.div2 (N.div2 (spread x))).
Proof. destruct x as [| [p | p |]]; reflexivity. Qed.

Lemma div2_lor a b : N.div2 (N.lor a b) = N.lor (N.div2 a) (N.div2 b).
Proof. rewrite !N.div2_spec. apply N.shiftr_lor. Qed.

Lemma div2_double a : N.div2 (N.double a) = a.
Proof. destruct a; reflexivity. Qed.

Theorem interleave_parent x y :
  interleave (N.div2 x) (N.div2 y) = N.div2 (N.div2 (interleave x y)).
Proof.
  unfold interleave. rewrite !div2_lor, div2_double, !spread_div2.
  f_equal. symmetry. apply div2_spread_even.
Qed.

Lemma shiftr2_div2 z : N.shiftr z 2 = N.div2 (N.div2 z).
Proof. change 2 with (N.succ (N.succ 0)). rewrite !N.shiftr_succ_r, N.shiftr_0_r. reflexivity. Qed.

Lemma div2_div2_div4 z : N.div2 (N.div2 z) = z / 4.
Proof. rewrite <- shiftr2_div2, N.shiftr_div_pow2. reflexivity. Qed.

Lemma div2_half x : N.div2 x = x / 2.
Proof. rewrite N.div2_spec, N.shiftr_div_pow2. reflexivity. Qed.

(** Children: the key of child (2x+a, 2y+b) is 4*key + a + 2b. *)
Definition bit (b : bool) : N := if b then 1 else 0.

Lemma spread_child x (a : bool) : spread (2 * x + bit a) = 4 * spread x + bit a.
Proof.
  destruct a; unfold bit.
  - replace (2 * x + 1) with (N.succ_double x) by (rewrite N.succ_double_spec; lia).
    rewrite spread_succ_double. destruct (spread x); reflexivity.
  - replace (2 * x + 0) with (N.double x) by (rewrite N.double_spec; lia).
    rewrite spread_double. destruct (spread x); reflexivity.
Qed.

Lemma lor_spread_add s t (a b : bool) :
  N.lor (4 * s + bit a) (N.double (4 * t + bit b)) = 4 * N.lor s (N.double t) + bit a + 2 * bit b.
Proof.
  destruct a, b; unfold bit; destruct s as [| p], t as [| q]; try reflexivity;
    simpl; try reflexivity.
Qed.

Lemma interleave_child x y (a b : bool) :
  interleave (2 * x + bit a) (2 * y + bit b) = 4 * interleave x y + bit a + 2 * bit b.
Proof. unfold interleave. rewrite !spread_child. apply lor_spread_add. Qed.
