(** * Micro-models of the two map containers the translated [dedupeInnersOuters] (gen/DedupeGen.v) uses.

    [imap] : a Go builtin [map[int]bool] of which the translated code uses only
             [make(map[int]T)], [m[k] = v], [_, ok := m[k]] and [len(m)]:
             an association list without duplicate keys (the order has no meaning and is never observed:
             the translator refuses [range] over such a map).
    [omap] : [*orderedmap.OrderedMap[int, bool]] of github.com/wk8/go-ordered-map/v2 (v2.1.8):
             [New] + [WithInitialData] (= [Set] of every pair in turn), [Set] (an existing key keeps its
             position and gets the new value; a new key goes to the back), [Len], and the iteration
             [for p := m.Oldest(); p != nil; p = p.Next()] = the entries from front to back.
    These definitions are part of the trusted base of the source tie (they say what the library does). *)
From Coq Require Import ZArith List Bool.
From Texel Require Import Prelude.Base.
Import ListNotations.
Open Scope Z_scope.

Definition imap := list (Z * bool).
Definition omap := list (Z * bool).

Definition assoc_has (m : list (Z * bool)) (k : Z) : bool := existsb (fun e => fst e =? k) m.

Definition assoc_set (m : list (Z * bool)) (k : Z) (v : bool) : list (Z * bool) :=
  if assoc_has m k then map (fun e => if fst e =? k then (k, v) else e) m else m ++ [(k, v)].

(** builtin map *)
Definition imap_has : imap -> Z -> bool := assoc_has.
Definition imap_set : imap -> Z -> bool -> imap := assoc_set.
Definition imap_len (m : imap) : Z := zlen m.

(** go-ordered-map *)
Definition omap_set : omap -> Z -> bool -> omap := assoc_set.
Definition omap_len (m : omap) : Z := zlen m.
