(** * Library functions and operators the regenerated ring helpers (gen/RingHelpersGen.v) call.

    [go_rem]: Go's [x % y] on [int]: a run-time panic for [y = 0], otherwise the remainder of the TRUNCATING
    division ([Z.rem], not [Z.modulo]).
    [slices_index]: [slices.Index(s, v)]: the first index at which [v] occurs, or -1.
    [zseq n]: the indices [0; 1; ..; n-1] a [for i := range s] loop walks (the length is read once).
    [is_nil]: [s == nil] on a slice; the model does not distinguish nil from empty slices (both are []). *)
From Coq Require Import ZArith List Bool.
From Texel Require Import Prelude.Base.
Import ListNotations.
Open Scope Z_scope.

Definition go_rem (x y : Z) : res Z := if y =? 0 then Err DivZero else Ok (Z.rem x y).

Fixpoint index_from {A} (eqb : A -> A -> bool) (l : list A) (x : A) (k : Z) : Z :=
  match l with
  | [] => -1
  | a :: r => if eqb a x then k else index_from eqb r x (k + 1)
  end.

Definition slices_index {A} (eqb : A -> A -> bool) (l : list A) (x : A) : Z := index_from eqb l x 0.

Definition zseq (n : nat) : list Z := map Z.of_nat (seq 0 n).

Definition is_nil {A} (l : list A) : bool := match l with [] => true | _ :: _ => false end.
