(** * Go maps, for the generated files gen/FindGen.v, gen/HitsGen.v, gen/DescentGen.v (tie G2, pointindex.go).

    Hand-written support: the translator emits calls to these helpers, nothing else.  A map that the translated
    code uses ONLY through [m[k]], [v, ok := m[k]], [m[k] = v], [len(m)] and [make] (never [range], never
    [delete]) is an association list:
    - [gm_get]     the entry of k, [None] when there is none;
    - [gm_get_ok]  [v, ok := m[k]]: the zero value of the element type and false when there is no entry;
    - [gm_get_or]  [m[k]] in a value context: the zero value when there is no entry;
    - [gm_set]     [m[k] = v]: the entry of k is replaced where it stands, a new key is added at the end
                   (the position is not observable by the operations above; it makes the representation canonical);
    - [gm_len]     [len(m)] (one entry per key: [gm_set] never duplicates a key);
    - [gm_has]     [m[k] != nil] for a map of maps: there is an entry (an entry of a map of maps is never nil: only
                   results of [make] are stored);
    - [make(map[K]V, n)] and the nil map (for reading) are [[]].
    Keys are compared by the decidable equality of the key type ([Z.eqb] for int, [N.eqb] for uint,
    [pt_eqb] for intgeom.Point = [2]int64).  Go's map iteration order is NOT modelled: a [range] over a
    map is a translation failure. *)
From Coq Require Import ZArith NArith List Bool.
From Texel Require Import Prelude.Base.
Import ListNotations.

Definition gomap (K V : Type) : Type := list (K * V).

Section GoMap.
  Context {K V : Type} (eqb : K -> K -> bool).

  Fixpoint gm_get (m : gomap K V) (k : K) : option V :=
    match m with
    | [] => None
    | (k', v) :: r => if eqb k k' then Some v else gm_get r k
    end.

  Definition gm_get_ok (zero : V) (m : gomap K V) (k : K) : V * bool :=
    match gm_get m k with Some v => (v, true) | None => (zero, false) end.

  Definition gm_get_or (zero : V) (m : gomap K V) (k : K) : V :=
    match gm_get m k with Some v => v | None => zero end.

  Fixpoint gm_set (m : gomap K V) (k : K) (v : V) : gomap K V :=
    match m with
    | [] => [(k, v)]
    | (k', v') :: r => if eqb k k' then (k', v) :: r else (k', v') :: gm_set r k v
    end.

  Definition gm_len (m : gomap K V) : Z := Z.of_nat (length m).

  Definition gm_has (m : gomap K V) (k : K) : bool :=
    match gm_get m k with Some _ => true | None => false end.
End GoMap.

(** [for i, x := range s]: the elements with their indices i, i+1, .. *)
Fixpoint indexed_from {A : Type} (i : Z) (l : list A) : list (Z * A) :=
  match l with
  | [] => []
  | x :: r => (i, x) :: indexed_from (i + 1) r
  end.

(** Go's [uint] (64 bit) as [N]: [a - b] modulo 2^64, [a / b] with the division-by-zero panic
    ([+] and [*] are [w64 (..)] of Bits/Bexpr.v) *)
Definition usubN (a b : N) : N := ((a + 2 ^ 64 - b mod 2 ^ 64) mod 2 ^ 64)%N.
Definition udivN (a b : N) : res N := if (b =? 0)%N then Err DivZero else Ok (a / b)%N.
