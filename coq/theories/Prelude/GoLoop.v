(** * Support for the translated Go loops (gen/KmpGen.v, gen/SnapSmallGen.v, gen/KmpDedupGen.v).

    [ctl]: outcome of one run of a translated [for] loop: the loop ended (condition false or [break]) with the
    final values of the variables it assigns, or its body returned from the function.
    [range_loop]: [for _, x := range l { body }] over the variables the body assigns; the body says
    [Cont] (next element; also [continue]), [Brk] ([break]) or [RRet] ([return]).
    [go_copy]: the builtin [copy(dst, src)] as a value: the first min(len dst, len src) elements of dst are
    replaced by those of src. *)
From Coq Require Import List.
From Texel Require Import Prelude.Base.
Import ListNotations.

Inductive ctl (S R : Type) : Type :=
| Next (s : S)   (* the loop is over; s = the variables the loop assigns *)
| Ret (r : R).   (* [return r] inside the loop *)
Arguments Next {S R} s.
Arguments Ret {S R} r.

Inductive rctl (S R : Type) : Type :=
| Cont (s : S)
| Brk (s : S)
| RRet (r : R).
Arguments Cont {S R} s.
Arguments Brk {S R} s.
Arguments RRet {S R} r.

Fixpoint range_loop {A S R : Type} (body : A -> S -> res (rctl S R)) (l : list A) (s : S) : res (ctl S R) :=
  match l with
  | [] => Ok (Next s)
  | x :: l' =>
      match body x s with
      | Err e => Err e
      | Ok (Cont s') => range_loop body l' s'
      | Ok (Brk s') => Ok (Next s')
      | Ok (RRet r) => Ok (Ret r)
      end
  end.

Definition go_copy {A : Type} (dst src : list A) : list A :=
  firstn (length dst) src ++ skipn (length src) dst.
