(** * Outcome of one run of a translated Go loop (gen/KmpGen.v): the loop ended (condition false or
      [break]) with the final values of the variables it assigns, or its body returned from the function. *)
Inductive ctl (S R : Type) : Type :=
| Next (s : S)   (* the loop is over; s = the variables the loop assigns *)
| Ret (r : R).   (* [return r] inside the loop *)
Arguments Next {S R} s.
Arguments Ret {S R} r.
