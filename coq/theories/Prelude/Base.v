(** * Common definitions of the executable model: error values for Go panics,
      checked slice / index operations (no silent defaults). *)
From Coq Require Import ZArith List Bool.
Import ListNotations.
Open Scope Z_scope.

(** Every explicit [panic], every slice or index expression and every integer
    division of the modelled Go code that can fail maps to one of these. *)
Inductive err :=
| NoPointsFound          (* snap.panicNoPointsFoundForVertices *)
| PartialRingsOnStack    (* snap.panicPartialRingsRemainingOnStack *)
| OutsideGrid            (* pointindex.OutsideGridError turned into a panic by SnapPolygon *)
| IndexOutOfRange        (* runtime error: index out of range *)
| SliceBounds            (* runtime error: slice bounds out of range *)
| DivZero
| OutOfFuel              (* the model's loop fuel ran out: stands for "does not terminate" *)
| MustToZ.               (* morton.MustToZ panic *)

Inductive res (A : Type) :=
| Ok (a : A)
| Err (e : err).
Arguments Ok {A} a.
Arguments Err {A} e.

Definition bind {A B} (r : res A) (f : A -> res B) : res B :=
  match r with Ok a => f a | Err e => Err e end.
Notation "'do' x <- r ; k" := (bind r (fun x => k)) (at level 200, x pattern, r at level 100, k at level 200).

Definition err_eqb (a b : err) : bool :=
  match a, b with
  | NoPointsFound, NoPointsFound | PartialRingsOnStack, PartialRingsOnStack
  | OutsideGrid, OutsideGrid | IndexOutOfRange, IndexOutOfRange | SliceBounds, SliceBounds
  | DivZero, DivZero | OutOfFuel, OutOfFuel | MustToZ, MustToZ => true
  | _, _ => false
  end.

Definition is_ok {A} (r : res A) : bool := match r with Ok _ => true | Err _ => false end.

(** monadic map / fold over lists *)
Fixpoint mapM {A B} (f : A -> res B) (l : list A) : res (list B) :=
  match l with
  | [] => Ok []
  | a :: r => do b <- f a; do bs <- mapM f r; Ok (b :: bs)
  end.

Fixpoint foldM {A S} (f : S -> A -> res S) (l : list A) (s : S) : res S :=
  match l with
  | [] => Ok s
  | a :: r => do s' <- f s a; foldM f r s'
  end.

(** ** Checked list access: Go's [s[i]] and [s[a:b]] (bounded by len; cf. DESIGN 4.4) *)
Definition zlen {A} (l : list A) : Z := Z.of_nat (length l).

Definition idx {A} (l : list A) (i : Z) : res A :=
  if i <? 0 then Err IndexOutOfRange
  else match nth_error l (Z.to_nat i) with Some a => Ok a | None => Err IndexOutOfRange end.

(** [slice l a b] = Go's [l[a:b]] *)
Definition slice {A} (l : list A) (a b : Z) : res (list A) :=
  if (a <? 0) || (b <? a) || (zlen l <? b) then Err SliceBounds
  else Ok (firstn (Z.to_nat (b - a)) (skipn (Z.to_nat a) l)).

Definition last_opt {A} (l : list A) : option A :=
  match rev l with [] => None | a :: _ => Some a end.

(** set index i of a list (Go's [t[i] = v]) *)
Fixpoint set_nth {A} (l : list A) (n : nat) (v : A) : option (list A) :=
  match l, n with
  | [], _ => None
  | _ :: r, O => Some (v :: r)
  | a :: r, S n' => match set_nth r n' v with Some r' => Some (a :: r') | None => None end
  end.

Definition setidx {A} (l : list A) (i : Z) (v : A) : res (list A) :=
  if i <? 0 then Err IndexOutOfRange
  else match set_nth l (Z.to_nat i) v with Some l' => Ok l' | None => Err IndexOutOfRange end.

(** points are pairs of integers (units of 1e-10, as intgeom.Point) *)
Definition pt := (Z * Z)%type.
Definition pt_eqb (p q : pt) : bool := (fst p =? fst q) && (snd p =? snd q).

Fixpoint mem_pt (p : pt) (l : list pt) : bool :=
  match l with [] => false | q :: r => pt_eqb p q || mem_pt p r end.

Fixpoint list_eqb {A} (eqb : A -> A -> bool) (l1 l2 : list A) : bool :=
  match l1, l2 with
  | [], [] => true
  | a :: r1, b :: r2 => eqb a b && list_eqb eqb r1 r2
  | _, _ => false
  end.

Definition ring := list pt.
Definition ring_eqb : ring -> ring -> bool := list_eqb pt_eqb.
Definition rings_eqb : list ring -> list ring -> bool := list_eqb ring_eqb.
Definition polys_eqb : list (list ring) -> list (list ring) -> bool := list_eqb rings_eqb.
