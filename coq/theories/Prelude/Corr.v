(** * Correspondence check plumbing: indices of the cases on which the model's
      result differs from the result observed on the implementation. *)
From Coq Require Import NArith List.
Import ListNotations.

Fixpoint mismatches_from {A} (chk : A -> bool) (i : N) (l : list A) : list N :=
  match l with
  | [] => []
  | c :: r => if chk c then mismatches_from chk (N.succ i) r
              else i :: mismatches_from chk (N.succ i) r
  end.
