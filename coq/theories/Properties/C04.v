(** placeholder until the C04 theorems are in place *)
From Texel Require Import Prelude.Base.
