(** * C04 — shape fidelity: nothing moves more than half a pixel, nothing is lost.

    Clause 1 (every output vertex is the pixel centre of an input vertex): FULL, [C04_clause1_vertex_provenance]
    at the end of this file (provenance through every stage of snap.go joined with the index lemma
    "routed points are centroids of pixels of input vertices").

    Clause 2 (every point of every output edge within half a pixel, Chebyshev, of the input boundary):
    - TRUE for routed edges, i.e. for the edges between consecutive centres of the chain an input edge is
      replaced by (and more generally between any two centres of that chain): [C04_clause2_routed_edges],
      [C04_clause2_routed_chain]; hence for the whole output whenever every output edge is a routed edge;
    - TRUE END TO END ON THE CLASS OF C18 (no routed-and-cleaned ring visits a centre at three positions), for
      snapPolygon, every requested level, every configuration, every point of every returned edge:
      [C04_clause2_on_class] (section at the end of this file);
    - FALSE in general for the faithful model and the implementation (finding F5, kmpDeduplicate invents an
      edge): [C04_refuted], witness replayed on the real code.

    Clause 3 (coverage away from the boundary) is decided by search only, except for finding F16 (REPAIRED): a hole inside
    a "cancelled" polygon (outer ring equal to an inner ring: the two halves of a band thinner than a pixel) was attached
    to that zero-area polygon and the shell around it covered the hole.  After the repair a cancelled polygon takes no
    hole but its twin ([C04_cancelled_polygon_takes_no_other_hole], all inputs) and the witness comes back with the hole
    in the shell ([C04_regression_F16]); section at the end of this file.

    Vocabulary: see Properties/C01.v.  [segPt a b t] = a + t (b - a); [between c1 c2 lam] = (1 - lam) c1 + lam c2;
    [ChebLe H p q]: |px - qx| <= H and |py - qy| <= H; [halfSpan g L] = half the pixel size of level L;
    [ExactMiddle g L]: L above the deepest level or even resolution (centroids are exact middles). *)
From Coq Require Import ZArith QArith List Bool.
From Texel Require Import Prelude.Base Index.Model Index.ProofsInsert Index.ProofsLine Index.ProofsRouting
  Snap.Model Geom.Polygon Geom.ClosedBox Snap.ProofsGeomTieRoute Snap.ProofsGeomTieRefute.
Import ListNotations.
Open Scope Z_scope.

(** ** clause 2 for routed edges *)

(** two pixels met by the closed segment a b: every point between their centroids is within half a pixel of a
    point of a b *)
Theorem C04_clause2_routed_edges : forall g L a b q1 q2 lam, ExactMiddle g L ->
  Meets a b (pixExt g L q1) -> Meets a b (pixExt g L q2) -> (0 <= lam -> lam <= 1 ->
  exists t, 0 <= t /\ t <= 1 /\
    ChebLe (halfSpan g L) (between (pixCen g L q1) (pixCen g L q2) lam) (segPt a b t))%Q.
Proof. exact routed_edge_close. Qed.
Print Assumptions C04_clause2_routed_edges.

(** without exact middles the bound is half a unit (0.5e-10) larger *)
Theorem C04_clause2_routed_edges_general : forall g L a b q1 q2 lam,
  Meets a b (pixExt g L q1) -> Meets a b (pixExt g L q2) -> (0 <= lam -> lam <= 1 ->
  exists t, 0 <= t /\ t <= 1 /\
    ChebLe (halfSpan g L + (1 # 2)) (between (pixCen g L q1) (pixCen g L q2) lam) (segPt a b t))%Q.
Proof. exact routed_edge_close_general. Qed.
Print Assumptions C04_clause2_routed_edges_general.

(** for an edge a b of the indexed polygon (any grid whose stored extent covers its pixels): any two centres
    c1 c2 that snapClosestPoints returns for it ... *)
Theorem C04_clause2_routed_chain : forall g P hs a b L c1 c2 lam,
  0 < gres g -> RootCovers g -> insertPolygon g P = Ok hs -> In a (concat P) -> In b (concat P) ->
  (L <= gdeep g)%nat -> ExactMiddle g L ->
  In c1 (snapClosestPoints g (hotLevels g hs) a b L) -> In c2 (snapClosestPoints g (hotLevels g hs) a b L) ->
  (0 <= lam -> lam <= 1 ->
   exists t, 0 <= t /\ t <= 1 /\ ChebLe (halfSpan g L) (between c1 c2 lam) (segPt a b t))%Q.
Proof. exact routed_chain_close. Qed.
Print Assumptions C04_clause2_routed_chain.

(** ... in particular two consecutive ones: every edge of the routed chain is within half a pixel of the
    polygon edge it comes from *)
Theorem C04_clause2_routed_chain_edge : forall g P hs a b L l1 c1 c2 l2 lam,
  0 < gres g -> RootCovers g -> insertPolygon g P = Ok hs -> In a (concat P) -> In b (concat P) ->
  (L <= gdeep g)%nat -> ExactMiddle g L ->
  snapClosestPoints g (hotLevels g hs) a b L = l1 ++ c1 :: c2 :: l2 ->
  (0 <= lam -> lam <= 1 ->
   exists t, 0 <= t /\ t <= 1 /\ ChebLe (halfSpan g L) (between c1 c2 lam) (segPt a b t))%Q.
Proof. exact routed_chain_edge_close. Qed.
Print Assumptions C04_clause2_routed_chain_edge.

(** ** the oracle for "within h (Chebyshev) of the closed segment" is exact *)
Theorem C04_closed_box_oracle_exact : forall a b c h,
  seg_meets_closed_box a b c h = true <->
  exists t : Q, (0 <= t /\ t <= 1 /\
    - inject_Z h <= co (fst a) (fst b) t - inject_Z (fst c) /\ co (fst a) (fst b) t - inject_Z (fst c) <= inject_Z h /\
    - inject_Z h <= co (snd a) (snd b) t - inject_Z (snd c) /\ co (snd a) (snd b) t - inject_Z (snd c) <= inject_Z h)%Q.
Proof. exact seg_meets_closed_box_spec. Qed.
Print Assumptions C04_closed_box_oracle_exact.

(** on doubled coordinates it decides "some point of the input edge f is within half a pixel of the midpoint of
    the output edge e" *)
Theorem C04_edge_near_mid_exact : forall (g : grid) (L : nat) (e f : edge),
  edge_near_mid_b (quadSpan g L) e f = true <->
  exists t : Q, (0 <= t /\ t <= 1 /\
    ChebLe (halfSpan g L) (between (fst e) (snd e) (1 # 2)) (segPt (fst f) (snd f) t))%Q.
Proof. exact edge_near_mid_spec. Qed.
Print Assumptions C04_edge_near_mid_exact.

(** ** clause 2 refuted (F5).  Grid 16 x 16 px of 1.0, level 4, all flags off; the 10-vertex polygon [PC04] is
    valid and inside the grid; the result is the triangle (6.5,5.5) (5.5,6.5) (5.5,5.5); the midpoint (6,6) of its
    edge (6.5,5.5)-(5.5,6.5) is farther than half a pixel from every point of every input edge. *)
Theorem C04_refuted :
  exists g P levels cfg r L ps e,
    valid_polygon P /\ Forall (insideGrid g) (concat P) /\
    snapPolygon g P levels cfg = Ok r /\ In (L, ps) r /\ In e (edges ps) /\
    forall f, In f (flat_map ring_edges P) -> forall t : Q, (0 <= t -> t <= 1 ->
      ~ ChebLe (halfSpan g L) (between (fst e) (snd e) (1 # 2)) (segPt (fst f) (snd f) t))%Q.
Proof. exact half_pixel_refuted. Qed.
Print Assumptions C04_refuted.

(** the same with the executable oracles only *)
Theorem C04_refuted_witness :
  exists g P levels cfg r L ps e,
    valid_polygon_b P = true /\ Forall (insideGrid g) (concat P) /\
    snapPolygon g P levels cfg = Ok r /\ In (L, ps) r /\ In e (edges ps) /\
    forall f, In f (flat_map ring_edges P) -> edge_near_mid_b (quadSpan g L) e f = false.
Proof. exact far_witness. Qed.
Print Assumptions C04_refuted_witness.

(** ** non-vacuity *)
Example C04_witness :
  valid_polygon_b PC04 = true /\
  snapPolygon gC04 PC04 [4%nat] cfg0 = Ok [(4%nat, [[ringC04]])] /\
  ringC04 = [(65000000000, 55000000000); (55000000000, 65000000000); (55000000000, 55000000000)] /\
  In eC04 (edges [[ringC04]]) /\
  padd (fst eC04) (snd eC04) = (120000000000, 120000000000) /\       (* twice the midpoint (6, 6) *)
  quadSpan gC04 4 = 10000000000 /\
  length (flat_map ring_edges PC04) = 10%nat /\
  forallb (fun f => negb (edge_near_mid_b (quadSpan gC04 4) eC04 f)) (flat_map ring_edges PC04) = true /\
  (* while the other two output edges are fine at their midpoints *)
  existsb (edge_near_mid_b (quadSpan gC04 4) ((55000000000, 65000000000), (55000000000, 55000000000))) (flat_map ring_edges PC04) = true /\
  existsb (edge_near_mid_b (quadSpan gC04 4) ((55000000000, 55000000000), (65000000000, 55000000000))) (flat_map ring_edges PC04) = true.
Proof.
  split; [exact C04_witness_valid |]. split; [exact C04_witness_result |].
  vm_compute. repeat split; try reflexivity. left. reflexivity.
Qed.

(** the closed-box oracle on small values: touching the border of the square counts, beyond it does not *)
Example C04_closed_box_examples :
  seg_meets_closed_box (0, 0) (10, 0) (5, 3) 3 = true /\
  seg_meets_closed_box (0, 0) (10, 0) (5, 4) 3 = false /\
  seg_meets_closed_box (0, 0) (2, 2) (5, 5) 3 = true /\
  seg_meets_closed_box (0, 0) (1, 1) (5, 5) 3 = false /\
  seg_meets_closed_box (7, 7) (7, 7) (5, 5) 2 = true.
Proof. vm_compute. repeat split; reflexivity. Qed.

(** the hypotheses of the routed-chain theorem hold on a concrete polygon edge (C02 example) *)
Example C04_routed_chain_example :
  let g := mkGrid (mkExtent 0 0 160000000000 160000000000) 10000000000 4 in
  let P := [[(70000000000, 55000000000); (50000000000, 65000000000); (65000000000, 65000000000); (55000000000, 55000000000)]] in
  0 < gres g /\ RootCovers g /\ ExactMiddle g 4 /\
  insertPolygon g P = Ok [(7, 5); (5, 6); (6, 6); (5, 5)] /\
  snapClosestPoints g (hotLevels g [(7, 5); (5, 6); (6, 6); (5, 5)]) (70000000000, 55000000000) (50000000000, 65000000000) 4
    = [(75000000000, 55000000000); (65000000000, 65000000000); (55000000000, 65000000000)].
Proof.
  cbv zeta. split; [reflexivity |]. split; [vm_compute; repeat split; discriminate |].
  split; [right; reflexivity |]. vm_compute. split; reflexivity.
Qed.

(** ** clause 1: every output vertex is the pixel centre of some vertex of the input polygon — for every
    polygon (valid or not), every requested level 0 < L <= deepest, every configuration.
    [pixelOf g L v] is the level-L pixel containing v, [quadCentroid] its centre. *)
From Texel Require Import Index.ProofsGrid Snap.ProofsJoinC04.
Theorem C04_clause1_vertex_provenance : forall g P levels cfg r L ps p,
  0 < gres g -> snapPolygon g P levels cfg = Ok r -> In (L, ps) r -> (0 < L <= gdeep g)%nat ->
  In p (concat (concat ps)) ->
  exists v, In v (concat P) /\
            p = quadCentroid g L (fst (pixelOf g L v)) (snd (pixelOf g L v)) /\
            containsPoint v (quadExtent g L (fst (pixelOf g L v)) (snd (pixelOf g L v))) = true.
Proof. exact output_vertex_is_pixel_centre_of_input_vertex. Qed.
Print Assumptions C04_clause1_vertex_provenance.

(** ** clause 2 ON THE CLASS OF C18, end to end.

    The class: at every requested level, every routed-and-cleaned ring (the argument of kmpDeduplicate,
    [routedClean], Properties/C18.v) visits no pixel centre at three positions ([le2]).  Then — for every list of
    rings inside a grid whose stored extent covers its pixels, every requested level within the index, every
    configuration — every point (1 - lam) p + lam q, lam rational in [0,1], of every cyclic edge (p, q) of every
    returned ring (kept lines included, in both directions) is within half a pixel of that level (Chebyshev, closed)
    of a point of an edge of the input polygon.  Composition of [C18_snapPolygon_edges_are_routed_steps] (on the
    class every returned edge is, up to direction, a step between two consecutive centres of the chain one polygon
    edge is replaced by) with [C04_clause2_routed_chain].  [ExactMiddle g L] (L above the deepest level, or an even
    resolution) is what makes the centre the exact middle of the pixel; without it the bound is half a unit larger.
    OUTSIDE the class the statement is false: [C04_refuted] (F5, a centre visited four times). *)
From Texel Require Import Snap.ProofsJoinC18 Snap.ProofsJoinC04b.
From Texel Require Snap.ProofsKmpEdges Snap.ProofsKmpLe2.

Theorem C04_clause2_on_class : forall g P levels cfg res hs, 0 < gres g -> RootCovers g ->
  (forall L, In L levels -> (L <= gdeep g)%nat) -> insertPolygon g P = Ok hs ->
  (forall L idx r c, In L levels -> nth_error P idx = Some r ->
     routedClean g (hotLevels g hs) L idx r = Ok c -> ProofsKmpLe2.le2 c) ->
  snapPolygon g P levels cfg = Ok res ->
  forall L ps poly x e lam, In (L, ps) res -> In poly ps -> In x poly -> In e (ProofsKmpEdges.cedges x) ->
    ExactMiddle g L -> (0 <= lam -> lam <= 1 ->
    exists f t, In f (flat_map ring_edges P) /\ 0 <= t /\ t <= 1 /\
                ChebLe (halfSpan g L) (between (fst e) (snd e) lam) (segPt (fst f) (snd f) t))%Q.
Proof. exact clause2_on_class. Qed.
Print Assumptions C04_clause2_on_class.

(** the same without [ExactMiddle]: half a unit (0.5e-10) more *)
Theorem C04_clause2_on_class_general : forall g P levels cfg res hs, 0 < gres g -> RootCovers g ->
  (forall L, In L levels -> (L <= gdeep g)%nat) -> insertPolygon g P = Ok hs ->
  (forall L idx r c, In L levels -> nth_error P idx = Some r ->
     routedClean g (hotLevels g hs) L idx r = Ok c -> ProofsKmpLe2.le2 c) ->
  snapPolygon g P levels cfg = Ok res ->
  forall L ps poly x e lam, In (L, ps) res -> In poly ps -> In x poly -> In e (ProofsKmpEdges.cedges x) ->
    (0 <= lam -> lam <= 1 ->
    exists f t, In f (flat_map ring_edges P) /\ 0 <= t /\ t <= 1 /\
                ChebLe (halfSpan g L + (1 # 2)) (between (fst e) (snd e) lam) (segPt (fst f) (snd f) t))%Q.
Proof. exact clause2_on_class_general. Qed.
Print Assumptions C04_clause2_on_class_general.

(** in the vocabulary of [C04_refuted] ([edges ps]: all rings of all polygons taken cyclically): on the class the
    refuted statement holds, at every parameter and not only at the midpoint *)
Theorem C04_clause2_on_class_edges : forall g P levels cfg res hs, 0 < gres g -> RootCovers g ->
  (forall L, In L levels -> (L <= gdeep g)%nat) -> insertPolygon g P = Ok hs ->
  (forall L idx r c, In L levels -> nth_error P idx = Some r ->
     routedClean g (hotLevels g hs) L idx r = Ok c -> ProofsKmpLe2.le2 c) ->
  snapPolygon g P levels cfg = Ok res ->
  forall L ps e lam, In (L, ps) res -> In e (edges ps) -> ExactMiddle g L -> (0 <= lam -> lam <= 1 ->
    exists f t, In f (flat_map ring_edges P) /\ 0 <= t /\ t <= 1 /\
                ChebLe (halfSpan g L) (between (fst e) (snd e) lam) (segPt (fst f) (snd f) t))%Q.
Proof. exact clause2_on_class_edges. Qed.
Print Assumptions C04_clause2_on_class_edges.

(** non-vacuity (the neck example of Properties/C18.v: 32 x 32 pixels of size 2, two blocks joined by a corridor of
    width 2 that collapses to a line at levels 3 and 2, its ends visited twice).  All hypotheses hold at the levels
    5, 3, 2; the level-3 result contains the edge (20,28)-(20,60), which is no image of a single input edge end to
    end (the block's side x = 22 runs from y = 31 to 62), and the exact oracle finds an input edge within half a
    pixel (4) of its midpoint. *)
Definition c04G : grid := mkGrid (mkExtent 0 0 64 64) 2 5.
Definition c04Neck : list ring :=
  [[(2,2);(22,2);(22,29);(42,29);(42,2);(62,2);(62,62);(42,62);(42,31);(22,31);(22,62);(2,62)]].
Definition c04NeckLevel3 : list (list ring) :=
  [[[(4,4);(20,4);(20,28);(20,60);(4,60)]]; [[(44,28);(44,4);(60,4);(60,60);(44,60)]]; [[(20,28);(44,28)]]].

Example C04_clause2_on_class_example :
  exists hs, insertPolygon c04G c04Neck = Ok hs /\
    0 < gres c04G /\ RootCovers c04G /\ (forall L, In L [5; 3; 2]%nat -> (L <= gdeep c04G)%nat /\ ExactMiddle c04G L) /\
    (forall L idx r c, In L [5; 3; 2]%nat -> nth_error c04Neck idx = Some r ->
       routedClean c04G (hotLevels c04G hs) L idx r = Ok c -> ProofsKmpLe2.le2 c) /\
    (exists res, snapPolygon c04G c04Neck [5; 3; 2]%nat (mkConfig true false false) = Ok res /\
                 In (3%nat, c04NeckLevel3) res) /\
    In ((20,28),(20,60)) (edges c04NeckLevel3) /\
    ~ In ((20,28),(20,60)) (flat_map ring_edges c04Neck) /\
    quadSpan c04G 3 = 8 /\
    existsb (edge_near_mid_b (quadSpan c04G 3) ((20,28),(20,60))) (flat_map ring_edges c04Neck) = true.
Proof.
  destruct (insertPolygon c04G c04Neck) as [hs |] eqn:E; [| vm_compute in E; discriminate].
  exists hs. split; [reflexivity |]. vm_compute in E. inversion E; subst hs. clear E.
  split; [reflexivity |]. split; [vm_compute; repeat split; discriminate |].
  split.
  { intros L HL. cbn [In] in HL. destruct HL as [<- | [<- | [<- | []]]];
      (split; [cbn [gdeep c04G]; repeat constructor | right; reflexivity]). }
  split.
  { intros L idx r c HL. revert idx r c. apply class_le2b_sound. cbn [In] in HL.
    destruct HL as [<- | [<- | [<- | []]]]; vm_compute; reflexivity. }
  split.
  { eexists. split; [vm_compute; reflexivity |]. right. left. reflexivity. }
  split; [vm_compute; tauto |].
  split; [vm_compute; intuition congruence |].
  split; vm_compute; reflexivity.
Qed.

From Coq Require Import Lia.
From Texel Require Import Snap.ProofsMatchCancelled.

(** ** finding F16 (repaired): matchInnersToPolygons and cancelled polygons.
    [ringsAreEqual o t true false = Ok true]: t has the points of o in the opposite direction (any starting point).
    For EVERY list of polygons and inner rings: a polygon (number k, rings p, outer ring o) whose outer ring is equal
    to one of the inner rings comes back as p itself or as p followed by exactly one inner ring, and that ring is
    equal to o.  So no hole that merely lies inside such a zero-area pair is attached to it any more (it goes to a
    polygon around it, or becomes an outer ring when there is none). *)
Theorem C04_cancelled_polygon_takes_no_other_hole : forall (polys : list polygon) (ins : list ring) ps (k : nat) p o,
  matchInnersToPolygons polys ins = Ok ps ->
  nth_error polys k = Some p -> idx p 0 = Ok o ->
  (exists t, In t ins /\ ringsAreEqual o t true false = Ok true) ->
  exists a, nth_error ps k = Some (p ++ a) /\
    (a = [] \/ exists t, a = [t] /\ In t ins /\ ringsAreEqual o t true false = Ok true).
Proof. exact cancelled_polygon_takes_no_other_hole. Qed.
Print Assumptions C04_cancelled_polygon_takes_no_other_hole.

(** the witness of F16 ("case 3": 64 x 64 grid at the origin, requested level 5 = pixels of 2.0, coordinates in 1e-10
    units, no centre visited more than twice): a square shell, a C-shaped hole whose band is thinner than a pixel
    (routed, it splits into the island [islandF16] and the equal inner ring [twinF16]) and a square hole inside the
    island.  The repaired model returns the shell WITH the square hole and the cancelled pair as a polygon of its own,
    also when the four levels 4..7 are requested at once; the component alone: [cancelledBy] maps polygon 1 to inner
    ring 0.  (Unrepaired: [[shellF16]; [islandF16; twinF16; holeF16]], the shell covering the hole 1.16 pixels from the
    boundary.) *)
Theorem C04_regression_F16 :
  snapPolygon gF16 pF16 [5%nat] (mkConfig false false false)
    = Ok [(5%nat, [[shellF16; holeF16]; [islandF16; twinF16]])] /\
  (exists r, snapPolygon gF16deep pF16 [4; 5; 6; 7]%nat (mkConfig false false false) = Ok r /\
             In (5%nat, [[shellF16; holeF16]; [islandF16; twinF16]]) r) /\
  ringsAreEqual islandF16 twinF16 true false = Ok true /\
  matchInnersToPolygons [[shellF16]; [islandF16]] [twinF16; holeF16] = Ok [[shellF16; holeF16]; [islandF16; twinF16]] /\
  cancelledBy [[shellF16]; [islandF16]] [twinF16; holeF16] = Ok [(1, 0)].
Proof. exact F16_regression. Qed.
Print Assumptions C04_regression_F16.

(** non-vacuity of the general theorem: its hypotheses hold for the island of the witness (polygon 1), whose only
    hole in the result is its twin; and the hole is a vertex-contained candidate of BOTH polygons (the island is the
    smaller one: the unrepaired choice) *)
Example C04_cancelled_polygon_example :
  matchInnersToPolygons [[shellF16]; [islandF16]] [twinF16; holeF16] = Ok [[shellF16; holeF16]; [islandF16; twinF16]] /\
  nth_error [[shellF16]; [islandF16]] 1 = Some [islandF16] /\ idx [islandF16] 0 = Ok islandF16 /\
  (exists t, In t [twinF16; holeF16] /\ ringsAreEqual islandF16 t true false = Ok true) /\
  ringContains islandF16 (150000000000, 350000000000) = Ok (true, false) /\
  ringContains shellF16 (150000000000, 350000000000) = Ok (true, false) /\
  absArea2 islandF16 < absArea2 shellF16.
Proof.
  split; [vm_compute; reflexivity |]. split; [reflexivity |]. split; [reflexivity |].
  split; [exists twinF16; split; [left; reflexivity | vm_compute; reflexivity] |].
  vm_compute. repeat split; reflexivity.
Qed.

(** ** finding F23 (REPAIRED): geomhelp.Shoelace multiplied the raw ordinates; far from the origin of the CRS the area
    of a ring of a few pixels was rounding noise, sortPolyIdxsByOuterAreaDesc ordered the shells wrongly and
    matchInnersToPolygons attached a hole to the larger instead of the smallest containing polygon
    (corpus/C04/F23_shoelace_repro_test.go.txt).  The exact model could not see it: in exact arithmetic the body
    before the repair and the regenerated body compute the same number ([C04_shoelace_bodies_agree_exactly]).
    The regression therefore runs the REGENERATED Shoelace (gen/GeomHelpFloatGen.v, translator/geomhelp.go) in
    IEEE-754 binary64 (Coq.Floats.SpecFloat: executable, axiom-free; Snap/GoFloatOps.v) on the two shells of the
    witness as snapped (Snap/FloatWitnesses.v). *)
From Coq Require Import Floats.SpecFloat.
From Texel Require Import Tms.Json Snap.GoGeomHelp Snap.GoFloatOps Snap.FloatWitnesses Snap.ProofsGenGeomHelp
  Snap.ProofsGenGeomHelpFloat.
From Texel.Gen Require Import GeomHelpGen GeomHelpFloatGen.
Open Scope Z_scope.

(** on every list of rational points: the hand transcription of the body before the repair ([shoelace_raw]) and the
    regenerated Shoelace return equal numbers *)
Theorem C04_shoelace_bodies_agree_exactly : forall (eps : Q) (l : list qpt),
  exists a b : Q, shoelace_raw (Qops eps) l = Ok a /\ gen_Shoelace l = Ok b /\ (a == b)%Q.
Proof. exact shoelace_raw_agrees. Qed.
Print Assumptions C04_shoelace_bodies_agree_exactly.

(** binary64, bit for bit.  Body before the repair: 0 for the 30 x 30 pixel shell, 0.0625 for the 16 x 16 pixel
    island (wrong order; neither within 0.01 m2 of the exact area).  Regenerated source: 0.078355631139712 and
    0.022287823634937642 (what the Go code returns, to the last bit), right order, within 1e-12 of the exact areas
    of the rings.  With the repair undone the regenerated Shoelace is the raw body and this theorem fails. *)
Theorem C04_regression_F23 :
  shoelace_raw B64ops f23_big = Ok (b64 0 0) /\
  shoelace_raw B64ops f23_island = Ok (b64 1 (-4)) /\
  SFltb (b64 0 0) (b64 1 (-4)) = true /\
  b64_close (b64 0 0) (exact_area f23_big) (1 # 100) = false /\
  b64_close (b64 1 (-4)) (exact_area f23_island) (1 # 100) = false /\
  genF_Shoelace B64ops f23_big = Ok f23_area_big /\
  genF_Shoelace B64ops f23_island = Ok f23_area_island /\
  SFltb f23_area_island f23_area_big = true /\
  b64_close f23_area_big (exact_area f23_big) (1 # 1000000000000) = true /\
  b64_close f23_area_island (exact_area f23_island) (1 # 1000000000000) = true /\
  b64_close f23_area_big (Ok (78355631139712 # 1000000000000000)) (1 # 1000000000000) = true /\
  b64_close f23_area_island (Ok (22287823634937642 # 1000000000000000000)) (1 # 1000000000000) = true.
Proof. exact f23_regression. Qed.
Print Assumptions C04_regression_F23.
