(** * C17 — Z-order pixel keys are unique and hierarchical.

    The theorems are about [toZ]/[fromZ] of Bits/Morton.v, i.e. the evaluation of
    the programs REGENERATED from morton/morton.go on every run (gen/MortonGen.v).
    They hold for all 2^64 pairs of 32-bit addresses, not for a sample. *)
From Coq Require Import NArith List.
From Texel Require Import Bits.Bexpr Bits.MortonSpec Bits.Morton Bits.MortonProofs.
Import ListNotations.
Open Scope N_scope.

(** distinct 32-bit addresses have distinct keys *)
Theorem C17_unique : forall x y x' y',
  x < 2 ^ 32 -> y < 2 ^ 32 -> x' < 2 ^ 32 -> y' < 2 ^ 32 ->
  fst (toZ x y) = fst (toZ x' y') -> x = x' /\ y = y'.
Proof. exact injective. Qed.
Print Assumptions C17_unique.

(** decoding a key returns the address it was made from (and the address is reported encodable) *)
Theorem C17_roundtrip : forall x y, x < 2 ^ 32 -> y < 2 ^ 32 ->
  fromZ (fst (toZ x y)) = (x, y) /\ snd (toZ x y) = true.
Proof. exact roundtrip. Qed.
Print Assumptions C17_roundtrip.

(** the key of the parent pixel is the key with its two lowest bits removed *)
Theorem C17_parent : forall x y, x < 2 ^ 32 -> y < 2 ^ 32 ->
  fst (toZ (x / 2) (y / 2)) = N.shiftr (fst (toZ x y)) 2.
Proof. exact parent_shiftr. Qed.
Print Assumptions C17_parent.

(** addresses that do not fit in 32 bits are reported as not encodable — for every input, also beyond 64 bits *)
Theorem C17_not_encodable : forall x y, snd (toZ x y) = false <-> 2 ^ 32 <= x \/ 2 ^ 32 <= y.
Proof. exact not_encodable. Qed.
Print Assumptions C17_not_encodable.

(** MustToZ panics exactly on those *)
Theorem C17_must_panics_iff : forall x y, mustToZ x y = None <-> 2 ^ 32 <= x \/ 2 ^ 32 <= y.
Proof. exact mustToZ_panics_iff. Qed.
Print Assumptions C17_must_panics_iff.

(** the children of a pixel (pointindex.getQuadrantZs) are the keys 4z .. 4z+3, in the order
    bottom-left, bottom-right, top-left, top-right *)
Theorem C17_children : forall px py, px < 2 ^ 31 -> py < 2 ^ 31 ->
  let z := fst (toZ px py) in
  getQuadrantZs z = [Some (4 * z); Some (4 * z + 1); Some (4 * z + 2); Some (4 * z + 3)].
Proof. exact children. Qed.
Print Assumptions C17_children.

(** ** tie G2: pointindex.getQuadrantZs REGENERATED from source on this run (gen/ChildrenGen.v: the unrolled loop,
    uint arithmetic modulo 2^64, Go's uint(oneIfRight(i)) / uint(oneIfTop(i)) with the regenerated oneIfRight/Top,
    morton.FromZ and morton.MustToZ as the same [fromZ] / [mustToZ] as above, a panicking MustToZ ending the
    function) is the model's [getQuadrantZs], for EVERY key: [None] = the function panics, which it does iff one
    of the model's four children is [None]; otherwise the four keys in order. *)
From Texel Require Import Bits.ProofsGenChildren.
From Texel.Gen Require Import ChildrenGen.
Theorem C17_source_tie_children :
  (forall z, gen_getQuadrantZs z = all_some (getQuadrantZs z)) /\
  (forall z r, gen_getQuadrantZs z = Some r <-> getQuadrantZs z = map Some r) /\
  (forall z, gen_getQuadrantZs z = None <-> In None (getQuadrantZs z)).
Proof.
  split; [exact gen_getQuadrantZs_spec |].
  split; [intros z r; rewrite gen_getQuadrantZs_spec; apply all_some_Some
         | intro z; rewrite gen_getQuadrantZs_spec; apply all_some_None].
Qed.
Print Assumptions C17_source_tie_children.

(** so C17_children is a statement about the source text: for a parent pixel below 2^31 the regenerated function
    does not panic and returns the keys 4z .. 4z+3, bottom-left, bottom-right, top-left, top-right *)
Theorem C17_source_children : forall px py, px < 2 ^ 31 -> py < 2 ^ 31 ->
  let z := fst (toZ px py) in
  gen_getQuadrantZs z = Some [4 * z; 4 * z + 1; 4 * z + 2; 4 * z + 3].
Proof. exact gen_getQuadrantZs_children. Qed.
Print Assumptions C17_source_children.

Example C17_source_tie_children_example :
  gen_getQuadrantZs 6 = Some [24; 25; 26; 27] /\ gen_getQuadrantZs (fst (toZ (2 ^ 31) 5)) = None.
Proof. vm_compute. split; reflexivity. Qed.

(** the generated programs ARE the bit interleaving / de-interleaving *)
Theorem C17_toZ_is_interleave : forall x y, x < 2 ^ 32 -> y < 2 ^ 32 -> toZ x y = (interleave x y, true).
Proof. exact toZ_spec. Qed.
Print Assumptions C17_toZ_is_interleave.

Theorem C17_fromZ_is_deinterleave : forall z, z < 2 ^ 64 -> fromZ z = (evens z, odds z).
Proof. exact fromZ_spec. Qed.
Print Assumptions C17_fromZ_is_deinterleave.

(** non-vacuity: a concrete non-trivial address meets the hypotheses and the conclusions compute *)
Example C17_example : 4000000000 < 2 ^ 32 /\ toZ 4000000000 123456789 = (interleave 4000000000 123456789, true)
  /\ fromZ (fst (toZ 4000000000 123456789)) = (4000000000, 123456789) /\ snd (toZ (2 ^ 32) 0) = false.
Proof. vm_compute. repeat split; reflexivity. Qed.

(** ** why the point-index model may address pixels by (x, y) although the code keys them by Morton code:
    membership in a set keyed by [MustToZ x y] is membership of the address, and getQuadrantZs enumerates, in
    order, the keys of the model's children (2x + oneIfRight i, 2y + oneIfTop i) *)
From Coq Require Import ZArith.
From Texel Require Import Prelude.Base Index.Model Index.ProofsMortonTie.
Theorem C17_keyed_membership : forall c hot, small c -> Forall small hot ->
  mem_key (key c) (map key hot) = mem_addr c hot.
Proof. exact keyed_membership. Qed.
Print Assumptions C17_keyed_membership.

Theorem C17_children_keys : forall x y, (0 <= x < 2 ^ 31)%Z -> (0 <= y < 2 ^ 31)%Z ->
  getQuadrantZs (key (x, y)) =
  map (fun i => Some (key (2 * x + oneIfRight i, 2 * y + oneIfTop i)%Z)) [0; 1; 2; 3]%nat.
Proof. exact children_keys. Qed.
Print Assumptions C17_children_keys.
