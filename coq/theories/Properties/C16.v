(** * C16 — tile matrix set documents survive decode/encode; bad ones give errors.

    About [decodeTMS] / [encodeTMS] of Tms/Model.v: the model of json.Unmarshal / json.Marshal of
    tms20.TileMatrixSet AS THE CODE STANDS, libraries included (marshmallow, validator, defaults, encoding/json:
    modelled, not verified; their observed rules are listed in the evidence and held to the code by the
    correspondence C16 on several thousand mutated documents per run). *)
From Coq Require Import ZArith QArith String List Bool.
From Texel Require Import Tms.Json Tms.Model Tms.ProofsC16 Tms.ProofsC16b Tms.ProofsC16c Tms.ProofsC16d Tms.F64Facts.
From Texel.Gen Require Import ConstsGen TmsData.
Import ListNotations.
Open Scope Z_scope.

(** By computation over the REGENERATED documents (finite domain: the built-in documents and the test document):
    each decodes, decode (encode v) = v exactly, and the printed document is semantically equal to the original
    (objects as maps, numbers by their float64 value). *)
Theorem C16_builtin_roundtrip : Forall (fun d => roundtrip_ok (snd d)) gen_tms_documents.
Proof. exact builtin_roundtrip_lemma. Qed.
Print Assumptions C16_builtin_roundtrip.

Theorem C16_testdoc_roundtrip : Forall (fun d => roundtrip_ok (snd d)) gen_tms_test_documents.
Proof. exact testdoc_roundtrip_lemma. Qed.
Print Assumptions C16_testdoc_roundtrip.

(** The round trip, for EVERY document: if a document decodes to v, then decoding the encoding of v gives v with nil
    and empty slices identified ([norm_tms]: `keywords: []` / `variableMatrixWidths: []` come back nil -- the same
    value for every user of the API).  Unconditional since the repair of F6b: the unsigned members of a decoded value
    are whole numbers below 2^53 (C16_decoded_small), which binary64 prints and reads back exactly. *)
Theorem C16_decode_encode_decode : forall j t, decodeTMS j = Ok t -> decodeTMS (encodeTMS t) = Ok (norm_tms t).
Proof. exact decode_encode_decode_full. Qed.
Print Assumptions C16_decode_encode_decode.

(** ... the encoding does not see that identification, so it is stable: encode (decode (encode v)) = encode v ... *)
Theorem C16_encode_stable : forall j t, decodeTMS j = Ok t ->
  exists t', decodeTMS (encodeTMS t) = Ok t' /\ encodeTMS t' = encodeTMS t.
Proof. exact encode_stable_full. Qed.
Print Assumptions C16_encode_stable.

(** ... and from the second round on the value itself is a fixed point. *)
Theorem C16_normal_form_fixed : forall t, norm_tms (norm_tms t) = norm_tms t /\ encodeTMS (norm_tms t) = encodeTMS t.
Proof. exact normal_form_fixed_lemma. Qed.
Print Assumptions C16_normal_form_fixed.

(** every decoded value is well formed: validated, CRS in one of the three forms with a parsable URI resp. a
    canonical payload, matrices sorted by the integer their id denotes, finite floats *)
Theorem C16_decoded_well_formed : forall j t, decodeTMS j = Ok t -> tms_wf t.
Proof. exact decode_wf. Qed.
Print Assumptions C16_decoded_well_formed.

(** ... and all its unsigned members (tile and matrix sizes, the members of variableMatrixWidths) lie in [0, 2^53) *)
Theorem C16_decoded_small : forall j t, decodeTMS j = Ok t -> tms_small t.
Proof. exact decode_small. Qed.
Print Assumptions C16_decoded_small.

(** Malformed sizes are rejected, in full (since the repair of F6b): in a document whose (last) tileMatrices member is
    an array containing a tile matrix object with
    - tileWidth / tileHeight / matrixWidth / matrixHeight a number whose float64 image is <= 0, or negative, or not
      whole, or >= 2^53 ([uint_number_ok q = false], spelled out by C16_size_check_meaning), or
    - a cellSize / scaleDenominator that is not positive,
    decoding does not succeed.  (Fractional cell sizes are of course legitimate.) *)
Theorem C16_nonpositive_rejected : forall o l tmo k d q,
  lookup_last "tileMatrices" o = Some (JArr l) -> In (JObj tmo) l ->
  lookup_last k tmo = Some (JNum d) -> f64_dec d = FNum q ->
  (In k size_keys /\ ((q <= 0)%Q \/ uint_number_ok q = false)) \/ ((k = "cellSize" \/ k = "scaleDenominator") /\ (q <= 0)%Q) ->
  forall t, decodeTMS (JObj o) <> Ok t.
Proof. exact nonpositive_rejected_full. Qed.
Print Assumptions C16_nonpositive_rejected.

Theorem C16_size_check_meaning : forall q, uint_number_ok q = false <->
  ((q < 0)%Q \/ Qnum q mod Z.pos (Qden q) <> 0 \/ (inject_Z (2 ^ 53) <= q)%Q).
Proof. exact uint_number_ok_false. Qed.
Print Assumptions C16_size_check_meaning.

(** Totality: decoding NEVER panics -- for every JSON tree the answer is a value or an error.  (Unconditional since
    the repair of F6c in /repo 909171c; before, a point array with more than two elements panicked inside the
    decoding library.) *)
Theorem C16_decode_total : forall j, decodeTMS j <> Panic /\ decodeTMS j <> ErrorOrPanic.
Proof. exact decode_total_lemma. Qed.
Print Assumptions C16_decode_total.

(** a tile matrix decodes only if its pointOfOrigin member is an array of exactly two numbers, which become the origin *)
Theorem C16_point_exact : forall o m, decodeTM o = Ok m ->
  exists a b, lookup_last "pointOfOrigin" o = Some (JArr [JNum a; JNum b]) /\ tm_origin m = Some (a, b).
Proof. exact origin_exact_lemma. Qed.
Print Assumptions C16_point_exact.

(** every tile matrix of a decoded document was decoded on its own *)
Theorem C16_decoded_matrices : forall o t, decodeTMS (JObj o) = Ok t ->
  exists l, lookup_last "tileMatrices" o = Some (JArr l) /\
    forall x, In x l -> exists tmo m, x = JObj tmo /\ decodeTM tmo = Ok m.
Proof. exact decoded_matrices_lemma. Qed.
Print Assumptions C16_decoded_matrices.

(** Equal value is read with nil and empty slices identified (same JSON, same length, same iteration for every user
    of the API).  The model does distinguish them, as Go's reflect.DeepEqual would: `keywords: []` /
    `variableMatrixWidths: []` decode to empty non-nil slices, are not printed, and come back nil -- the two values
    differ only there, and their encodings are equal.  (An earlier reading of this as a defect, "F6d", was a false
    alarm of the checking machinery, corrected by comparing values up to nil / empty.) *)
Theorem C16_empty_slice_comes_back_nil : exists t t' m m',
  decodeTMS doc_empty_kw = Ok t /\ decodeTMS (encodeTMS t) = Ok t' /\
  the_tm t = Some m /\ the_tm t' = Some m' /\
  tm_keywords m = Some [] /\ tm_keywords m' = None /\ tm_vmw m = Some [] /\ tm_vmw m' = None /\
  t <> t' /\ encodeTMS t' = encodeTMS t.
Proof. exact empty_slice_not_stable. Qed.
Print Assumptions C16_empty_slice_comes_back_nil.


(** ** Regressions for the repaired defects, and non-vacuity *)
(** regression F6c (repaired): the old witnesses -- pointOfOrigin with 3 elements (used to panic), with 1 element
    (used to be accepted), null, a non-number element, and a 3-element boundingBox.lowerLeft -- are errors in the
    model of the repaired code; the well-formed document still decodes *)
Example C16_regression_F6c_points :
  decodeTMS doc_origin3 = Error /\ decodeTMS doc_origin1 = Error /\
  decodeTMS doc_origin_null = Error /\ decodeTMS doc_origin_str = Error /\ decodeTMS doc_bbox3 = Error /\
  exists t, decodeTMS doc_ok = Ok t.
Proof. exact regression_F6c. Qed.

(** regression F6b (repaired): the old witnesses -- tileWidth -1 (used to decode to 2^64 - 1 and to 2^63 after a round
    trip), 256.5 (used to be truncated to 256) -- and 2^53, 0, a negative / fractional member of variableMatrixWidths
    are errors in the model of the repaired code; 2^53 - 1 still decodes.  These documents also meet the hypotheses
    of C16_nonpositive_rejected. *)
Example C16_regression_F6b_sizes :
  decodeTMS doc_negative = Error /\ decodeTMS doc_fraction = Error /\ decodeTMS doc_huge = Error /\
  decodeTMS doc_zero = Error /\ decodeTMS doc_vmw_neg = Error /\ decodeTMS doc_vmw_frac = Error /\
  exists t m, decodeTMS doc_big_ok = Ok t /\ the_tm t = Some m /\ tm_tileWidth m = 2 ^ 53 - 1.
Proof. exact regression_F6b. Qed.


(** ** Source ties (tie G2): the project's OWN code around the JSON libraries in tms20/tms20.go is REGENERATED on every
    run into gen/TmsJsonGen.v (translator/tmsjson.go: statement by statement; the struct types URICRS, WKTCRS,
    ReferenceSystemCRS, TileMatrixSet become Records, the interface CRS an inductive; reading of the Go constructs:
    Tms/GoJson.v) and proved equal to the hand-written model of Tms/Model.v for ALL inputs.
    What stays MODELLED (trusted; each call is mapped only after its exact shape was checked in the AST, the list is at the
    top of gen/TmsJsonGen.v): encoding/json (text <-> tree, json.Marshal of tagged structs), marshmallow (population of a
    struct from a map / a text: decodeTM_fields, top_step, projjson_ok), validator (one function per `validate:` tag),
    creasty/defaults (no `default:` tag: identity), regexp (the two CRS URI expressions: parse_crs_url / parse_crs_urn),
    strconv.ParseInt, sort.Slice.  Inside a TileMatrixSet the bounding box member is read by marshmallow through
    TwoDBoundingBox.UnmarshalJSON: there it is the model's decodeBBox (inside top_step), which the regenerated
    gen_TwoDBoundingBox_UnmarshalJSON is proved to compute (C16_source_tie_bbox). *)
From Texel Require Import Tms.GoJson Tms.ProofsGenJson.
From Texel.Gen Require Import TmsJsonGen.

(** checkUnsignedIntegers (repair of F6b): regenerated loop over the keys, map lookup, type assertion and float64 tests
    (number < 0 || number != math.Trunc(number) || number >= 1<<53)  =  the model's uint_member_ok / uint_number_ok *)
Theorem C16_source_tie_unsigned_check : forall o keys,
  gen_checkUnsignedIntegers o keys = if forallb (fun k => uint_member_ok k o) keys then Ok tt else Error.
Proof. exact checkUnsignedIntegers_tie. Qed.
Print Assumptions C16_source_tie_unsigned_check.

(** TileMatrix.UnmarshalJSONFromMap: regenerated are the type assertion on the raw value, the calls of
    checkUnsignedIntegers with their key names (the raw check comes BEFORE the population), the walk over
    variableMatrixWidths; the population + validation by the libraries stays the model's decodeTM_fields *)
Theorem C16_source_tie_tile_matrix : forall j,
  gen_TileMatrix_UnmarshalJSONFromMap zero_tm j = match j with JObj o => decodeTM o | _ => Error end.
Proof. exact TileMatrix_UnmarshalJSONFromMap_tie. Qed.
Print Assumptions C16_source_tie_tile_matrix.

(** TwoDPoint.UnmarshalJSONFromMap (repair of F6c): exactly two numbers, whatever the receiver held before
    (a tree produced by encoding/json only holds numbers with a finite float64 image: nums_finite) *)
Theorem C16_source_tie_point : forall p j, nums_finite j = true ->
  match conv_point j with
  | CVal (a, b) => gen_TwoDPoint_UnmarshalJSONFromMap p j = Ok (f64_dec a, f64_dec b)
  | _ => gen_TwoDPoint_UnmarshalJSONFromMap p j = Error
  end.
Proof. exact TwoDPoint_UnmarshalJSONFromMap_tie. Qed.
Print Assumptions C16_source_tie_point.

(** unmarshalTileMatrices: the array test, the object test per element, the decoding of each tile matrix into a fresh
    value, strconv.ParseInt of its id, the map assignment *)
Theorem C16_source_tie_tile_matrices : forall j,
  gen_unmarshalTileMatrices j = match j with JArr l => decodeTMs l [] | _ => Error end.
Proof. exact unmarshalTileMatrices_tie. Qed.
Print Assumptions C16_source_tie_tile_matrices.

(** unmarshalCRS with URICRS / WKTCRS / ReferenceSystemCRS .UnmarshalJSONFromMap: string or object, the three forms tried
    in order, the key names "description" / "uri" / "wkt" / "referenceSystem", asString; [crs_of] reads the regenerated
    struct as the model's crs (a nil CRS without an error would be Panic, which decodeCRS never is) *)
Theorem C16_source_tie_crs : forall j, bind (gen_unmarshalCRS j) crs_of = decodeCRS j.
Proof. exact unmarshalCRS_tie. Qed.
Print Assumptions C16_source_tie_crs.

(** ... and the authority / version / code stored in a decoded URICRS are the groups of the model's URI parser *)
Theorem C16_source_tie_crs_uri_parts : forall j r, gen_unmarshalCRS j = Ok (gen_CRS_URICRS r) ->
  parse_crs_uri (gen_URICRS_uri r) = Some (gen_URICRS_authority r, gen_URICRS_version r, gen_URICRS_code r).
Proof. exact unmarshalCRS_uri_parts. Qed.
Print Assumptions C16_source_tie_crs_uri_parts.

(** TileMatrixSet.UnmarshalJSON: the order of the steps -- defaults, population, "crs" from the leftover members through
    unmarshalCRS, "tileMatrices" through unmarshalTileMatrices, validation by the struct tags (regenerated one conjunct
    per tag) -- is the model's decodeTMS; [tms_of] reads the regenerated struct as the model's tms *)
Theorem C16_source_tie_tile_matrix_set : forall j,
  bind (gen_TileMatrixSet_UnmarshalJSON gen_TileMatrixSet_zero j) tms_of = decodeTMS j.
Proof. exact TileMatrixSet_UnmarshalJSON_tie. Qed.
Print Assumptions C16_source_tie_tile_matrix_set.

(** TwoDBoundingBox.UnmarshalJSON: same shape -- population (bb_step), "crs" through unmarshalCRS, validation by the
    struct tags (regenerated) -- is the model's decodeBBox; [bbox_of] reads the regenerated struct as the model's bbox *)
Theorem C16_source_tie_bbox : forall j,
  bind (gen_TwoDBoundingBox_UnmarshalJSON gen_TwoDBoundingBox_zero j) bbox_of = decodeBBox j.
Proof. exact TwoDBoundingBox_UnmarshalJSON_tie. Qed.
Print Assumptions C16_source_tie_bbox.

(** MarshalJSON of the three CRS types (repair 6065b67: the key "referenceSystem"), through the interface *)
Theorem C16_source_tie_crs_marshal : forall c m, crs_of c = Ok m -> gen_CRS_MarshalJSON c = Ok (encodeCRS m).
Proof. exact CRS_MarshalJSON_tie. Qed.
Print Assumptions C16_source_tie_crs_marshal.

(** TwoDBoundingBox.MarshalJSON: the members by the json tags of the struct, "crs" last *)
Theorem C16_source_tie_bbox_marshal : forall r b, bbox_of r = Ok b -> gen_TwoDBoundingBox_MarshalJSON r = Ok (encodeBBox b).
Proof. exact TwoDBoundingBox_MarshalJSON_tie. Qed.
Print Assumptions C16_source_tie_bbox_marshal.

(** TileMatrixSet.MarshalJSON: the matrices sorted by the integer of their id (regenerated comparison), the members by
    the json tags of the struct in field order with their omitempty, "crs" and "tileMatrices" last *)
Theorem C16_source_tie_marshal : forall r t, tms_of r = Ok t -> gen_TileMatrixSet_MarshalJSON r = Ok (encodeTMS t).
Proof. exact TileMatrixSet_MarshalJSON_tie. Qed.
Print Assumptions C16_source_tie_marshal.

(** the regenerated code runs: the raw check on the old witnesses of F6b, a point with three elements (F6c), and a
    built-in document decoded and printed again by the regenerated functions alone *)
Example C16_source_tie_runs :
  gen_checkUnsignedIntegers [("tileWidth", jn (-1) 0)] ["tileWidth"] = Error /\
  gen_checkUnsignedIntegers [("tileWidth", jn 2565 (-1))] ["tileWidth"] = Error /\
  gen_checkUnsignedIntegers [("tileWidth", jn 9007199254740992 0)] ["tileWidth"] = Error /\
  gen_checkUnsignedIntegers [("tileWidth", jn 9007199254740991 0); ("tileHeight", JStr "x")] ["tileWidth"; "tileHeight"] = Ok tt /\
  gen_TwoDPoint_UnmarshalJSONFromMap (fl_of_Z 0, fl_of_Z 0) (JArr [jn 1 0; jn 2 0; jn 3 0]) = Error /\
  gen_TwoDPoint_UnmarshalJSONFromMap (fl_of_Z 0, fl_of_Z 0) (JArr [jn 15 (-1); jn (-2) 0]) = Ok (FNum (3 # 2), FNum (-2 # 1)) /\
  exists r t, gen_TileMatrixSet_UnmarshalJSON gen_TileMatrixSet_zero gen_doc_NetherlandsRDNewQuad = Ok r /\
    tms_of r = Ok t /\ List.length (t_matrices t) = 17%nat /\
    gen_TileMatrixSet_MarshalJSON r = Ok (encodeTMS t) /\ decodeTMS (encodeTMS t) = Ok t.
Proof. exact source_tie_runs. Qed.


(** ** Source tie of the LOADERS (tie G2): how a built-in tile matrix set reaches the rest of the code.
    tms20.LoadEmbeddedTileMatrixSet -- with its package-level cache, a map from ids to pointers -- and
    tms20.LoadJSONTileMatrixSet are REGENERATED on every run into gen/TmsLoadGen.v (translator/tmsload.go; reading of the Go
    constructs: Tms/GoLoad.v) as functions of an abstract file system (a finite map from file names to contents; ReadFile of an
    unknown name is an error) and of the STATE (the cache, an association list); the embedded file system [gen_embedded_fs]
    and the list of ids [gen_embedded_ids] are regenerated from the listing of the directory the `//go:embed` pattern
    names (a document added there is covered without touching anything), the constant extJSON and the directory literal
    are read from the source.  The decoding inside a load is the regenerated [gen_TileMatrixSet_UnmarshalJSON] (above).
    The hand-written model is Tms/ModelLoad.v: [load_embedded_model fs id] = [decodeTMS] of the document the file system
    holds under path.Join("tilematrixsets", id + ".json"), an error when there is none -- no cache, no history.
    MODELLED (trusted; each mapped only after its exact shape was checked in the AST, list at the top of gen/TmsLoadGen.v):
    embed.FS / os ReadFile as a finite map; the text -> tree step of encoding/json (a file content is [Doc j] or [NotJson]:
    the documents of gen/TmsData.v are already parsed terms); json.Unmarshal's dispatch to the UnmarshalJSON method of a
    pointer to TileMatrixSet (the method's declaration is checked); path.Join / path.Clean (Cli/Model.v); Go maps with
    string keys (lookup in comma-ok form, assignment); the cache variable is checked to be mentioned nowhere else in
    package tms20; calls are sequential (the map is unguarded: concurrent first loads would be a data race -- outside the
    model; the tool loads one set, once, before any goroutine starts). *)
From Texel Require Import Tms.GoLoad Tms.ModelLoad Tms.ProofsGenLoad.
From Texel.Gen Require Import TmsLoadGen.
Open Scope string_scope.

(** CACHE TRANSPARENCY.  For every file system and EVERY finite sequence of ids loaded one after the other from the empty
    cache ([run_loads]: each call on the state the previous one left): the results are, one by one, what a load from the
    empty cache returns for that id -- identical regenerated structs, sharing flag included -- and, read back as the model's
    values ([res_tms] = [tms_of] of the returned struct), they are the model's: [decodeTMS] of the file of that id, or an
    error (unknown name, bytes that are not JSON, a document that does not decode).  The history does not matter. *)
Theorem C16_source_tie_load_embedded : forall fs ids,
  fst (run_loads (gen_LoadEmbeddedTileMatrixSet fs) [] ids) = map (fun id => fst (gen_LoadEmbeddedTileMatrixSet fs [] id)) ids /\
  map res_tms (fst (run_loads (gen_LoadEmbeddedTileMatrixSet fs) [] ids)) = map (load_embedded_model fs) ids.
Proof. exact load_embedded_transparent. Qed.
Print Assumptions C16_source_tie_load_embedded.

(** the same, said for one more load after any history ([after fs history] = the cache that history leaves) *)
Theorem C16_source_tie_load_embedded_after_history : forall fs history id,
  fst (gen_LoadEmbeddedTileMatrixSet fs (after fs history) id) = fst (gen_LoadEmbeddedTileMatrixSet fs [] id) /\
  res_tms (fst (gen_LoadEmbeddedTileMatrixSet fs (after fs history) id)) = load_embedded_model fs id.
Proof. exact load_embedded_after_history. Qed.
Print Assumptions C16_source_tie_load_embedded_after_history.

(** what a call does to the cache, from ANY state: a load that does not succeed leaves it unchanged; a successful one
    leaves it unchanged (a hit) or adds the single entry (id, the returned struct) *)
Theorem C16_source_tie_load_embedded_state : forall fs st id,
  match fst (gen_LoadEmbeddedTileMatrixSet fs st id) with
  | Ok l => snd (gen_LoadEmbeddedTileMatrixSet fs st id) = st \/ snd (gen_LoadEmbeddedTileMatrixSet fs st id) = (id, ld_value l) :: st
  | _ => snd (gen_LoadEmbeddedTileMatrixSet fs st id) = st
  end.
Proof. exact load_embedded_state. Qed.
Print Assumptions C16_source_tie_load_embedded_state.

(** the invariant (by induction over the history): the cache only ever holds correctly decoded sets, each under its id
    the decode of the file of THAT id *)
Theorem C16_source_tie_load_embedded_cache_invariant : forall fs history id t,
  cache_get (after fs history) id = (Some t, true) ->
  exists j m, fs_find fs (embedded_file_name id) = Some (Doc j) /\ decodeTMS j = Ok m /\ tms_of t = Ok m.
Proof. exact load_embedded_cache_invariant. Qed.
Print Assumptions C16_source_tie_load_embedded_cache_invariant.

(** a load never panics: the nil pointer the map yields for an absent id is never dereferenced, decoding is total *)
Theorem C16_source_tie_load_embedded_no_panic : forall fs history id,
  fst (gen_LoadEmbeddedTileMatrixSet fs (after fs history) id) <> Panic /\
  fst (gen_LoadEmbeddedTileMatrixSet fs (after fs history) id) <> ErrorOrPanic.
Proof. exact load_embedded_no_panic. Qed.
Print Assumptions C16_source_tie_load_embedded_no_panic.

(** EVERY BUILT-IN SET: for each id of the regenerated list (the files the embed pattern matches, directory and extension
    taken off -- a finite domain swept by vm_compute through the regenerated loader and decoder, lifted by forallb_forall)
    and after every history, the load succeeds with the model's value of that file ... *)
Theorem C16_source_tie_load_embedded_builtin : forall id, In id gen_embedded_ids -> forall history,
  exists t m,
    fst (gen_LoadEmbeddedTileMatrixSet gen_embedded_fs (after gen_embedded_fs history) id) = Ok (MkLoaded t (Some id)) /\
    tms_of t = Ok m /\ load_embedded_model gen_embedded_fs id = Ok m.
Proof. exact load_embedded_builtin. Qed.
Print Assumptions C16_source_tie_load_embedded_builtin.

(** ... the regenerated ids are exactly the names of the documents of gen/TmsData.v (which C14, C15 and
    C16_builtin_roundtrip sweep), and under each name the load gives the model's decode of THAT document *)
Theorem C16_source_tie_load_embedded_builtin_document :
  gen_embedded_ids = map fst gen_tms_documents /\
  forall id doc, In (id, doc) gen_tms_documents -> forall history,
  exists t m,
    fst (gen_LoadEmbeddedTileMatrixSet gen_embedded_fs (after gen_embedded_fs history) id) = Ok (MkLoaded t (Some id)) /\
    tms_of t = Ok m /\ decodeTMS doc = Ok m.
Proof. exact (conj (proj1 embedded_ids_are_tmsdata) load_embedded_builtin_document). Qed.
Print Assumptions C16_source_tie_load_embedded_builtin_document.

(** WGS1984Quad.json and WorldCRS84Quad.json carry the same "id" MEMBER (WorldCRS84Quad).  The cache is keyed by the id
    the caller passes, i.e. by the FILE name: after every history each name yields the set of its own file, and the two
    sets are different values with the same ID field *)
Theorem C16_source_tie_load_embedded_same_id_member :
  exists t1 t2,
    (forall history, fst (gen_LoadEmbeddedTileMatrixSet gen_embedded_fs (after gen_embedded_fs history) "WGS1984Quad")
                     = Ok (MkLoaded t1 (Some "WGS1984Quad"))) /\
    (forall history, fst (gen_LoadEmbeddedTileMatrixSet gen_embedded_fs (after gen_embedded_fs history) "WorldCRS84Quad")
                     = Ok (MkLoaded t2 (Some "WorldCRS84Quad"))) /\
    gen_TileMatrixSet_ID t1 = "WorldCRS84Quad" /\ gen_TileMatrixSet_ID t2 = "WorldCRS84Quad" /\
    gen_TileMatrixSet_Title t1 = "EPSG:4326 for the World" /\ gen_TileMatrixSet_Title t2 = "CRS84 for the World" /\
    t1 <> t2.
Proof. exact same_id_member_no_interference. Qed.
Print Assumptions C16_source_tie_load_embedded_same_id_member.

(** SHARING.  Go copies structs shallowly: `return *cached, nil` and `cache[id] = &tms; return tms, nil` hand out a struct
    whose fields of reference type -- [gen_TileMatrixSet_reference_fields], regenerated from the declaration: Keywords,
    OrderedAxes, CRS, BoundingBox, TileMatrices -- denote the same slices / map / pointees as the struct in the cache.  The
    model has pure values, so it records the fact instead of its consequences: EVERY successful load, the first as well
    as a hit, from any state, returns a value marked as sharing with the cache entry of its id, and that entry holds
    exactly the returned struct after the call; an entry, once made, is never replaced, so all callers of one id hold
    the same map.  What a later caller observes after an earlier one has WRITTEN through such a field (e.g. deleted a
    key of TileMatrices) is OUTSIDE the model: the theorems above describe the loader under the obligation that no
    caller does.  (On the real code the write is visible to the next caller -- checked; no function of /repo writes
    through these fields of a loaded set -- checked by a scan of every assignment, delete, clear, copy and sort.) *)
Theorem C16_source_tie_load_embedded_shared : forall fs st id l st',
  gen_LoadEmbeddedTileMatrixSet fs st id = (Ok l, st') ->
  ld_shares l = Some id /\ cache_get st' id = (Some (ld_value l), true).
Proof. exact load_embedded_result_shared. Qed.
Print Assumptions C16_source_tie_load_embedded_shared.

Theorem C16_source_tie_load_embedded_entry_persists : forall fs st id t id',
  cache_get st id = (Some t, true) -> cache_get (snd (gen_LoadEmbeddedTileMatrixSet fs st id')) id = (Some t, true).
Proof. exact load_embedded_entry_persists. Qed.
Print Assumptions C16_source_tie_load_embedded_entry_persists.

(** LoadJSONTileMatrixSet(path) over an abstract os.ReadFile: the model's decode of the file or an error, never a panic,
    no package state read or written (the regenerated function has no cache argument: st : unit), and the value is FRESH *)
Theorem C16_source_tie_load_json : forall fs path,
  res_tms (fst (gen_LoadJSONTileMatrixSet fs tt path)) = load_json_model fs path /\
  (forall l, fst (gen_LoadJSONTileMatrixSet fs tt path) = Ok l -> ld_shares l = None) /\
  fst (gen_LoadJSONTileMatrixSet fs tt path) <> Panic /\ fst (gen_LoadJSONTileMatrixSet fs tt path) <> ErrorOrPanic.
Proof. exact load_json_tie. Qed.
Print Assumptions C16_source_tie_load_json.

(** the regenerated loader runs, and the hypotheses above are met by a non-trivial state: a file system with a good
    document, bytes that are not JSON and a document that does not decode; eight loads (error, ok, unknown name, error, a
    hit returning the identical value, and ids that path.Join cleans: "./a", "x/../a" reach the file of "a" under cache
    keys of their own, "../a" leaves the directory and fails -- the same on the real code); the cache ends with the three
    successful ids *)
Example C16_source_tie_load_runs :
  let fs := [("tilematrixsets/a.json", Doc gen_doc_NetherlandsRDNewQuad); ("tilematrixsets/b.json", NotJson);
             ("tilematrixsets/c.json", Doc (JObj []))] in
  let r := run_loads (gen_LoadEmbeddedTileMatrixSet fs) [] ["b"; "a"; "zz"; "c"; "a"; "./a"; "x/../a"; "../a"] in
  map (fun o => match o with Ok _ => 0%nat | Error => 1%nat | _ => 2%nat end) (fst r) = [1; 0; 1; 1; 0; 0; 0; 1]%nat /\
  map fst (snd r) = ["x/../a"; "./a"; "a"] /\
  nth_error (fst r) 1 = nth_error (fst r) 4 /\
  embedded_file_name "x/../a" = "tilematrixsets/a.json" /\ embedded_file_name "../a" = "a.json" /\
  embedded_file_name "/a" = "tilematrixsets/a.json".
Proof. exact load_runs. Qed.

Example C16_source_tie_load_reference_fields :
  gen_TileMatrixSet_reference_fields = ["Keywords"; "OrderedAxes"; "CRS"; "BoundingBox"; "TileMatrices"].
Proof. exact reference_fields_now. Qed.
