(** * C16 — tile matrix set documents survive decode/encode; bad ones give errors.

    About [decodeTMS] / [encodeTMS] of Tms/Model.v: the model of json.Unmarshal / json.Marshal of
    tms20.TileMatrixSet AS THE CODE STANDS, libraries included (marshmallow, validator, defaults, encoding/json:
    modelled, not verified; their observed rules are listed in the evidence and held to the code by the
    correspondence C16 on several thousand mutated documents per run). *)
From Coq Require Import ZArith QArith String List Bool.
From Texel Require Import Tms.Json Tms.Model Tms.ProofsC16 Tms.ProofsC16b Tms.ProofsC16c Tms.ProofsC16d Tms.F64Facts.
From Texel.Gen Require Import ConstsGen TmsData.
Import ListNotations.
Open Scope Z_scope.

(** By computation over the REGENERATED documents (finite domain: the built-in documents and the test document):
    each decodes, decode (encode v) = v exactly, and the printed document is semantically equal to the original
    (objects as maps, numbers by their float64 value). *)
Theorem C16_builtin_roundtrip : Forall (fun d => roundtrip_ok (snd d)) gen_tms_documents.
Proof. exact builtin_roundtrip_lemma. Qed.
Print Assumptions C16_builtin_roundtrip.

Theorem C16_testdoc_roundtrip : Forall (fun d => roundtrip_ok (snd d)) gen_tms_test_documents.
Proof. exact testdoc_roundtrip_lemma. Qed.
Print Assumptions C16_testdoc_roundtrip.

(** The round trip, for EVERY document: if a document decodes to v, then decoding the encoding of v gives v with nil
    and empty slices identified ([norm_tms]: `keywords: []` / `variableMatrixWidths: []` come back nil -- the same
    value for every user of the API).  Unconditional since the repair of F6b: the unsigned members of a decoded value
    are whole numbers below 2^53 (C16_decoded_small), which binary64 prints and reads back exactly. *)
Theorem C16_decode_encode_decode : forall j t, decodeTMS j = Ok t -> decodeTMS (encodeTMS t) = Ok (norm_tms t).
Proof. exact decode_encode_decode_full. Qed.
Print Assumptions C16_decode_encode_decode.

(** ... the encoding does not see that identification, so it is stable: encode (decode (encode v)) = encode v ... *)
Theorem C16_encode_stable : forall j t, decodeTMS j = Ok t ->
  exists t', decodeTMS (encodeTMS t) = Ok t' /\ encodeTMS t' = encodeTMS t.
Proof. exact encode_stable_full. Qed.
Print Assumptions C16_encode_stable.

(** ... and from the second round on the value itself is a fixed point. *)
Theorem C16_normal_form_fixed : forall t, norm_tms (norm_tms t) = norm_tms t /\ encodeTMS (norm_tms t) = encodeTMS t.
Proof. exact normal_form_fixed_lemma. Qed.
Print Assumptions C16_normal_form_fixed.

(** every decoded value is well formed: validated, CRS in one of the three forms with a parsable URI resp. a
    canonical payload, matrices sorted by the integer their id denotes, finite floats *)
Theorem C16_decoded_well_formed : forall j t, decodeTMS j = Ok t -> tms_wf t.
Proof. exact decode_wf. Qed.
Print Assumptions C16_decoded_well_formed.

(** ... and all its unsigned members (tile and matrix sizes, the members of variableMatrixWidths) lie in [0, 2^53) *)
Theorem C16_decoded_small : forall j t, decodeTMS j = Ok t -> tms_small t.
Proof. exact decode_small. Qed.
Print Assumptions C16_decoded_small.

(** Malformed sizes are rejected, in full (since the repair of F6b): in a document whose (last) tileMatrices member is
    an array containing a tile matrix object with
    - tileWidth / tileHeight / matrixWidth / matrixHeight a number whose float64 image is <= 0, or negative, or not
      whole, or >= 2^53 ([uint_number_ok q = false], spelled out by C16_size_check_meaning), or
    - a cellSize / scaleDenominator that is not positive,
    decoding does not succeed.  (Fractional cell sizes are of course legitimate.) *)
Theorem C16_nonpositive_rejected : forall o l tmo k d q,
  lookup_last "tileMatrices" o = Some (JArr l) -> In (JObj tmo) l ->
  lookup_last k tmo = Some (JNum d) -> f64_dec d = FNum q ->
  (In k size_keys /\ ((q <= 0)%Q \/ uint_number_ok q = false)) \/ ((k = "cellSize" \/ k = "scaleDenominator") /\ (q <= 0)%Q) ->
  forall t, decodeTMS (JObj o) <> Ok t.
Proof. exact nonpositive_rejected_full. Qed.
Print Assumptions C16_nonpositive_rejected.

Theorem C16_size_check_meaning : forall q, uint_number_ok q = false <->
  ((q < 0)%Q \/ Qnum q mod Z.pos (Qden q) <> 0 \/ (inject_Z (2 ^ 53) <= q)%Q).
Proof. exact uint_number_ok_false. Qed.
Print Assumptions C16_size_check_meaning.

(** Totality: decoding NEVER panics -- for every JSON tree the answer is a value or an error.  (Unconditional since
    the repair of F6c in /repo 909171c; before, a point array with more than two elements panicked inside the
    decoding library.) *)
Theorem C16_decode_total : forall j, decodeTMS j <> Panic /\ decodeTMS j <> ErrorOrPanic.
Proof. exact decode_total_lemma. Qed.
Print Assumptions C16_decode_total.

(** a tile matrix decodes only if its pointOfOrigin member is an array of exactly two numbers, which become the origin *)
Theorem C16_point_exact : forall o m, decodeTM o = Ok m ->
  exists a b, lookup_last "pointOfOrigin" o = Some (JArr [JNum a; JNum b]) /\ tm_origin m = Some (a, b).
Proof. exact origin_exact_lemma. Qed.
Print Assumptions C16_point_exact.

(** every tile matrix of a decoded document was decoded on its own *)
Theorem C16_decoded_matrices : forall o t, decodeTMS (JObj o) = Ok t ->
  exists l, lookup_last "tileMatrices" o = Some (JArr l) /\
    forall x, In x l -> exists tmo m, x = JObj tmo /\ decodeTM tmo = Ok m.
Proof. exact decoded_matrices_lemma. Qed.
Print Assumptions C16_decoded_matrices.

(** Equal value is read with nil and empty slices identified (same JSON, same length, same iteration for every user
    of the API).  The model does distinguish them, as Go's reflect.DeepEqual would: `keywords: []` /
    `variableMatrixWidths: []` decode to empty non-nil slices, are not printed, and come back nil -- the two values
    differ only there, and their encodings are equal.  (An earlier reading of this as a defect, "F6d", was a false
    alarm of the checking machinery, corrected by comparing values up to nil / empty.) *)
Theorem C16_empty_slice_comes_back_nil : exists t t' m m',
  decodeTMS doc_empty_kw = Ok t /\ decodeTMS (encodeTMS t) = Ok t' /\
  the_tm t = Some m /\ the_tm t' = Some m' /\
  tm_keywords m = Some [] /\ tm_keywords m' = None /\ tm_vmw m = Some [] /\ tm_vmw m' = None /\
  t <> t' /\ encodeTMS t' = encodeTMS t.
Proof. exact empty_slice_not_stable. Qed.
Print Assumptions C16_empty_slice_comes_back_nil.


(** ** Regressions for the repaired defects, and non-vacuity *)
(** regression F6c (repaired): the old witnesses -- pointOfOrigin with 3 elements (used to panic), with 1 element
    (used to be accepted), null, a non-number element, and a 3-element boundingBox.lowerLeft -- are errors in the
    model of the repaired code; the well-formed document still decodes *)
Example C16_regression_F6c_points :
  decodeTMS doc_origin3 = Error /\ decodeTMS doc_origin1 = Error /\
  decodeTMS doc_origin_null = Error /\ decodeTMS doc_origin_str = Error /\ decodeTMS doc_bbox3 = Error /\
  exists t, decodeTMS doc_ok = Ok t.
Proof. exact regression_F6c. Qed.

(** regression F6b (repaired): the old witnesses -- tileWidth -1 (used to decode to 2^64 - 1 and to 2^63 after a round
    trip), 256.5 (used to be truncated to 256) -- and 2^53, 0, a negative / fractional member of variableMatrixWidths
    are errors in the model of the repaired code; 2^53 - 1 still decodes.  These documents also meet the hypotheses
    of C16_nonpositive_rejected. *)
Example C16_regression_F6b_sizes :
  decodeTMS doc_negative = Error /\ decodeTMS doc_fraction = Error /\ decodeTMS doc_huge = Error /\
  decodeTMS doc_zero = Error /\ decodeTMS doc_vmw_neg = Error /\ decodeTMS doc_vmw_frac = Error /\
  exists t m, decodeTMS doc_big_ok = Ok t /\ the_tm t = Some m /\ tm_tileWidth m = 2 ^ 53 - 1.
Proof. exact regression_F6b. Qed.
