(** * C16 — tile matrix set documents survive decode/encode; bad ones give errors.

    About [decodeTMS] / [encodeTMS] of Tms/Model.v: the model of json.Unmarshal / json.Marshal of
    tms20.TileMatrixSet AS THE CODE STANDS, libraries included (marshmallow, validator, defaults, encoding/json:
    modelled, not verified; their observed rules are listed in the evidence and held to the code by the
    correspondence C16 on several thousand mutated documents per run). *)
From Coq Require Import ZArith QArith String List Bool.
From Texel Require Import Tms.Json Tms.Model Tms.ProofsC16 Tms.ProofsC16b Tms.ProofsC16c Tms.ProofsC16d Tms.F64Facts.
From Texel.Gen Require Import ConstsGen TmsData.
Import ListNotations.
Open Scope Z_scope.

(** By computation over the REGENERATED documents (finite domain: the built-in documents and the test document):
    each decodes, decode (encode v) = v exactly, and the printed document is semantically equal to the original
    (objects as maps, numbers by their float64 value). *)
Theorem C16_builtin_roundtrip : Forall (fun d => roundtrip_ok (snd d)) gen_tms_documents.
Proof. exact builtin_roundtrip_lemma. Qed.
Print Assumptions C16_builtin_roundtrip.

Theorem C16_testdoc_roundtrip : Forall (fun d => roundtrip_ok (snd d)) gen_tms_test_documents.
Proof. exact testdoc_roundtrip_lemma. Qed.
Print Assumptions C16_testdoc_roundtrip.

(** The round trip, for EVERY document: if a document decodes to v, and the unsigned members of v's tile matrices
    survive printing and reading back ([tms_stable]: the hypothesis the proof forces -- it fails exactly for values
    wrapped from negative numbers, F6b below; every value below 2^53 satisfies it), then decoding the encoding of v
    gives v with nil and empty slices identified ([norm_tms]) ... *)
Theorem C16_decode_encode_decode : forall j t, decodeTMS j = Ok t -> tms_stable t ->
  decodeTMS (encodeTMS t) = Ok (norm_tms t).
Proof. exact decode_encode_decode_lemma. Qed.
Print Assumptions C16_decode_encode_decode.

(** the same with the readable sufficient condition: all unsigned members (tile and matrix sizes, variable matrix
    width members) are below 2^53 ([tms_small]) -- binary64 represents them exactly *)
Theorem C16_decode_encode_decode_small : forall j t, decodeTMS j = Ok t -> tms_small t ->
  decodeTMS (encodeTMS t) = Ok (norm_tms t).
Proof. exact decode_encode_decode_small_lemma. Qed.
Print Assumptions C16_decode_encode_decode_small.

(** ... the encoding does not see that identification, so it is stable: encode (decode (encode v)) = encode v ... *)
Theorem C16_encode_stable : forall j t, decodeTMS j = Ok t -> tms_stable t ->
  exists t', decodeTMS (encodeTMS t) = Ok t' /\ encodeTMS t' = encodeTMS t.
Proof. exact encode_stable_lemma. Qed.
Print Assumptions C16_encode_stable.

(** ... and from the second round on the value itself is a fixed point. *)
Theorem C16_normal_form_fixed : forall t, norm_tms (norm_tms t) = norm_tms t /\ encodeTMS (norm_tms t) = encodeTMS t.
Proof. exact normal_form_fixed_lemma. Qed.
Print Assumptions C16_normal_form_fixed.

(** every decoded value is well formed: validated, CRS in one of the three forms with a parsable URI resp. a
    canonical payload, matrices sorted by the integer their id denotes, finite floats *)
Theorem C16_decoded_well_formed : forall j t, decodeTMS j = Ok t -> tms_wf t.
Proof. exact decode_wf. Qed.
Print Assumptions C16_decoded_well_formed.

(** Malformed sizes, the part that holds (name: _partial -- negative and fractional sizes are NOT rejected, see
    C16_refuted_nonpositive_rejected below, F6b): in a document whose (last) tileMatrices member is an array containing a
    tile matrix object with tileWidth / tileHeight / matrixWidth / matrixHeight a number whose float64 image lies
    strictly between -1 and 1 (zero, and everything that truncates to zero), or with a cellSize / scaleDenominator
    that is not positive, decoding does not succeed. *)
Theorem C16_nonpositive_rejected_partial : forall o l tmo k d q,
  lookup_last "tileMatrices" o = Some (JArr l) -> In (JObj tmo) l ->
  lookup_last k tmo = Some (JNum d) -> f64_dec d = FNum q ->
  (In k size_keys /\ (-1 < q)%Q /\ (q < 1)%Q) \/ ((k = "cellSize" \/ k = "scaleDenominator") /\ (q <= 0)%Q) ->
  forall t, decodeTMS (JObj o) <> Ok t.
Proof. exact nonpositive_rejected_lemma. Qed.
Print Assumptions C16_nonpositive_rejected_partial.

(** Totality: decoding NEVER panics -- for every JSON tree the answer is a value or an error.  (Unconditional since
    the repair of F6c in /repo 909171c; before, a point array with more than two elements panicked inside the
    decoding library.) *)
Theorem C16_decode_total : forall j, decodeTMS j <> Panic /\ decodeTMS j <> ErrorOrPanic.
Proof. exact decode_total_lemma. Qed.
Print Assumptions C16_decode_total.

(** a tile matrix decodes only if its pointOfOrigin member is an array of exactly two numbers, which become the origin *)
Theorem C16_point_exact : forall o m, decodeTM o = Ok m ->
  exists a b, lookup_last "pointOfOrigin" o = Some (JArr [JNum a; JNum b]) /\ tm_origin m = Some (a, b).
Proof. exact origin_exact_lemma. Qed.
Print Assumptions C16_point_exact.

(** every tile matrix of a decoded document was decoded on its own *)
Theorem C16_decoded_matrices : forall o t, decodeTMS (JObj o) = Ok t ->
  exists l, lookup_last "tileMatrices" o = Some (JArr l) /\
    forall x, In x l -> exists tmo m, x = JObj tmo /\ decodeTM tmo = Ok m.
Proof. exact decoded_matrices_lemma. Qed.
Print Assumptions C16_decoded_matrices.

(** What the code as it stands gets wrong (each witness is found again on the implementation by the harness on every
    run and attributed to the known finding F6b). *)

(** F6b: negative and fractional sizes are accepted *)
Theorem C16_refuted_nonpositive_rejected : exists t m,
  decodeTMS doc_negative = Ok t /\ the_tm t = Some m /\ tm_tileWidth m = 2 ^ 64 - 1.
Proof. exact negative_width_accepted. Qed.
Print Assumptions C16_refuted_nonpositive_rejected.

Theorem C16_refuted_fraction_rejected : exists t m,
  decodeTMS doc_fraction = Ok t /\ the_tm t = Some m /\ tm_tileWidth m = 256.
Proof. exact fractional_width_accepted. Qed.
Print Assumptions C16_refuted_fraction_rejected.

(** F6b: decode . encode . decode is not the identity and the encoding is not stable for a wrapped size *)
Theorem C16_refuted_decode_encode_decode : exists t t' m m',
  decodeTMS doc_negative = Ok t /\ decodeTMS (encodeTMS t) = Ok t' /\
  the_tm t = Some m /\ the_tm t' = Some m' /\ tm_tileWidth m = 2 ^ 64 - 1 /\ tm_tileWidth m' = 2 ^ 63 /\
  json_eqb (encodeTMS t') (encodeTMS t) = false.
Proof. exact wrap_not_stable. Qed.
Print Assumptions C16_refuted_decode_encode_decode.

(** Equal value is read with nil and empty slices identified (same JSON, same length, same iteration for every user
    of the API).  The model does distinguish them, as Go's reflect.DeepEqual would: `keywords: []` /
    `variableMatrixWidths: []` decode to empty non-nil slices, are not printed, and come back nil -- the two values
    differ only there, and their encodings are equal.  (An earlier reading of this as a defect, "F6d", was a false
    alarm of the checking machinery, corrected by comparing values up to nil / empty.) *)
Theorem C16_empty_slice_comes_back_nil : exists t t' m m',
  decodeTMS doc_empty_kw = Ok t /\ decodeTMS (encodeTMS t) = Ok t' /\
  the_tm t = Some m /\ the_tm t' = Some m' /\
  tm_keywords m = Some [] /\ tm_keywords m' = None /\ tm_vmw m = Some [] /\ tm_vmw m' = None /\
  t <> t' /\ encodeTMS t' = encodeTMS t.
Proof. exact empty_slice_not_stable. Qed.
Print Assumptions C16_empty_slice_comes_back_nil.


(** ** Non-vacuity: every built-in document meets the hypotheses of the round trip theorem: it decodes and the
    unsigned members of its tile matrices are stable (checked by computation through [tms_stableb]) *)
Theorem C16_builtin_stable : forall name doc, In (name, doc) gen_tms_documents ->
  exists t, decodeTMS doc = Ok t /\ tms_stable t.
Proof. exact builtin_stable_thm. Qed.
Print Assumptions C16_builtin_stable.

(** regression F6c (repaired): the old witnesses -- pointOfOrigin with 3 elements (used to panic), with 1 element
    (used to be accepted), null, a non-number element, and a 3-element boundingBox.lowerLeft -- are errors in the
    model of the repaired code; the well-formed document still decodes *)
Example C16_regression_F6c_points :
  decodeTMS doc_origin3 = Error /\ decodeTMS doc_origin1 = Error /\
  decodeTMS doc_origin_null = Error /\ decodeTMS doc_origin_str = Error /\ decodeTMS doc_bbox3 = Error /\
  exists t, decodeTMS doc_ok = Ok t.
Proof. exact regression_F6c. Qed.

(** the hypotheses of C16_nonpositive_rejected_partial are met by a concrete document: tileWidth 0 is an error *)
Example C16_example_zero_width :
  decodeTMS (doc_with (tm_with (jn 0 0) (JArr [jn 1 0; jn 2 0]) [])) = Error.
Proof. vm_compute. reflexivity. Qed.
