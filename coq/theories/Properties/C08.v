(** placeholder until the C08 theorems are in place *)
From Texel Require Import Prelude.Base.
