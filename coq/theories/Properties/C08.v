(** * C08 — a tile matrix's result does not depend on which others are requested (index part).

    The index is always built for the deepest requested level d; a coarser level L is answered from it.
    [coarsen g L] is the grid with deepest level L whose pixel is exactly 2^(d-L) pixels of g (same extent),
    [coarsenHs g L hs] the deepest-level addresses of g divided (rounding down) by 2^(d-L),
    [tmsGrid e d] the grid FromTileMatrixSet builds for extent e and deepest level d: res = XSpan / 2^d
    rounded down.  The "extent divides evenly into pixels" condition is [(2^d | XSpan)]. *)
From Coq Require Import ZArith List Bool.
From Texel Require Import Prelude.Base Index.Model Index.ProofsInsert Index.ProofsGrid Index.ProofsRound.
Import ListNotations.
Open Scope Z_scope.

(** everything the routing of a level l <= L looks at is identical in the two indexes *)
Theorem C08_round_grid_levels : forall g L l hs x y, (L <= gdeep g)%nat -> (l <= L)%nat ->
  quadExtent (coarsen g L) l x y = quadExtent g l x y /\
  quadCentroid (coarsen g L) l x y = quadCentroid g l x y /\
  hotAt (coarsen g L) (coarsenHs g L hs) l = hotAt g hs l /\
  (forall a b, descendTo (coarsen g L) (hotLevels (coarsen g L) (coarsenHs g L hs)) a b l =
               descendTo g (hotLevels g hs) a b l) /\
  (forall a b, snapClosestPoints (coarsen g L) (hotLevels (coarsen g L) (coarsenHs g L hs)) a b l =
               snapClosestPoints g (hotLevels g hs) a b l).
Proof. exact round_grid_levels. Qed.
Print Assumptions C08_round_grid_levels.

(** indexing the same polygon in the coarser grid stores exactly the coarsened addresses
    (floor division composes: a / res / 2^k = a / (2^k res)) *)
Theorem C08_coarsen_insertPolygon : forall g L, (L <= gdeep g)%nat -> 0 < gres g ->
  forall P hs, insertPolygon g P = Ok hs -> insertPolygon (coarsen g L) P = Ok (coarsenHs g L hs).
Proof. exact coarsen_insertPolygon. Qed.
Print Assumptions C08_coarsen_insertPolygon.

(** hence: the routed centres of level l are the same whether the polygon is indexed with deepest level L
    or with any deeper level *)
Theorem C08_round_grid_routing : forall g L l P hs, 0 < gres g -> (L <= gdeep g)%nat -> (l <= L)%nat ->
  insertPolygon g P = Ok hs ->
  exists hs', insertPolygon (coarsen g L) P = Ok hs' /\
    forall a b, snapClosestPoints (coarsen g L) (hotLevels (coarsen g L) hs') a b l =
                snapClosestPoints g (hotLevels g hs) a b l.
Proof. exact round_grid_routing. Qed.
Print Assumptions C08_round_grid_routing.

(** on a round tile matrix set the grid built for level L IS the coarsened grid built for level d *)
Theorem C08_tmsGrid_round : forall e d L, (L <= d)%nat -> (pow2 d | emaxx e - eminx e) ->
  tmsGrid e L = coarsen (tmsGrid e d) L.
Proof. exact tmsGrid_round. Qed.
Print Assumptions C08_tmsGrid_round.

(** C08 for the index: tile matrix set whose extent divides evenly into the pixels of the deepest level d;
    level l requested together with deeper ones (index built for d) or alone / with shallower ones only
    (index built for L, l <= L <= d): the same centres for every segment *)
Theorem C08_round_tms_routing : forall e d L l P hs, 0 < (emaxx e - eminx e) / pow2 d ->
  (pow2 d | emaxx e - eminx e) -> (L <= d)%nat -> (l <= L)%nat ->
  insertPolygon (tmsGrid e d) P = Ok hs ->
  exists hs', insertPolygon (tmsGrid e L) P = Ok hs' /\
    forall a b, snapClosestPoints (tmsGrid e L) (hotLevels (tmsGrid e L) hs') a b l =
                snapClosestPoints (tmsGrid e d) (hotLevels (tmsGrid e d) hs) a b l.
Proof. exact round_tms_routing. Qed.
Print Assumptions C08_round_tms_routing.

(** non-vacuity: extent [0, 96)^2 divides evenly into 2^3 pixels of 12; level 2 from the index of level 3 and
    from the index of level 2 *)
Definition e96 : extent := mkExtent 0 0 96 96.
Definition Ptri : list ring := [[(10, 10); (60, 10); (60, 60)]].

Example C08_round_example :
  0 < (emaxx e96 - eminx e96) / pow2 3 /\ (pow2 3 | emaxx e96 - eminx e96) /\
  insertPolygon (tmsGrid e96 3) Ptri = Ok [(0, 0); (5, 0); (5, 5)] /\
  insertPolygon (tmsGrid e96 2) Ptri = Ok [(0, 0); (2, 0); (2, 2)] /\
  snapClosestPoints (tmsGrid e96 3) (hotLevels (tmsGrid e96 3) [(0, 0); (5, 0); (5, 5)]) (10, 10) (60, 10) 2
    = [(12, 12); (60, 12)] /\
  snapClosestPoints (tmsGrid e96 2) (hotLevels (tmsGrid e96 2) [(0, 0); (2, 0); (2, 2)]) (10, 10) (60, 10) 2
    = [(12, 12); (60, 12)].
Proof.
  split; [reflexivity |]. split; [exists 12; reflexivity |]. vm_compute. repeat split; reflexivity.
Qed.

(** the hypothesis is needed: extent [0, 100)^2, 100 / 2^3 = 12 (rounded down), 100 / 2^2 = 25 <> 2 * 12.
    Level 2 answered from the index built for level 3 has pixels of 24, built for level 2 pixels of 25:
    the same edge of the same polygon gets different centres. *)
Definition e100 : extent := mkExtent 0 0 100 100.

Example C08_nonround_example :
  ~ (pow2 3 | emaxx e100 - eminx e100) /\
  gres (tmsGrid e100 2) <> gres (coarsen (tmsGrid e100 3) 2) /\
  insertPolygon (tmsGrid e100 3) Ptri = Ok [(0, 0); (5, 0); (5, 5)] /\
  insertPolygon (tmsGrid e100 2) Ptri = Ok [(0, 0); (2, 0); (2, 2)] /\
  snapClosestPoints (tmsGrid e100 3) (hotLevels (tmsGrid e100 3) [(0, 0); (5, 0); (5, 5)]) (10, 10) (60, 10) 2
    = [(12, 12); (60, 12)] /\
  snapClosestPoints (tmsGrid e100 2) (hotLevels (tmsGrid e100 2) [(0, 0); (2, 0); (2, 2)]) (10, 10) (60, 10) 2
    = [(12, 12); (62, 12)].
Proof.
  split.
  - intros [k Hk]. vm_compute in Hk. destruct k as [| k | k]; try discriminate.
    assert (H : (Z.pos k * 8) mod 8 = 100 mod 8) by (f_equal; symmetry; exact Hk).
    rewrite Z.mod_mul in H by discriminate. vm_compute in H. discriminate.
  - vm_compute. repeat split; try reflexivity; discriminate.
Qed.

From Texel Require Import Index.ProofsGen.
From Texel.Gen Require Import PointIndexGen.

(** ** tie G2: the address computation (floor division) and the pixel extent/centroid REGENERATED from
    pointindex.go on this run are the model's *)
Theorem C08_source_tie :
  (forall g p, 0 < gres g -> gen_InsertPoint_coord (ix_of g) p = deepestCoord g p) /\
  (forall g l x y, 0 <= gres g -> (l <= gdeep g)%nat ->
     gen_getQuadrantExtentAndCentroid (ix_of g) (Z.of_nat l) x y (ext_tuple (gext g))
     = (ext_tuple (quadExtent g l x y), quadCentroid g l x y)).
Proof. split; [exact gen_InsertPoint_coord_spec | exact gen_getQuadrantExtentAndCentroid_spec]. Qed.
Print Assumptions C08_source_tie.
