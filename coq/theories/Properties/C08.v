(** * C08 — a tile matrix's result does not depend on which others are requested (index part).

    The index is always built for the deepest requested level d; a coarser level L is answered from it.
    [coarsen g L] is the grid with deepest level L whose pixel is exactly 2^(d-L) pixels of g (same extent),
    [coarsenHs g L hs] the deepest-level addresses of g divided (rounding down) by 2^(d-L),
    [tmsGrid e d] the grid FromTileMatrixSet builds for extent e and deepest level d: res = XSpan / 2^d
    rounded down.  The "extent divides evenly into pixels" condition is [(2^d | XSpan)]. *)
From Coq Require Import ZArith List Bool.
From Texel Require Import Prelude.Base Index.Model Index.ProofsInsert Index.ProofsGrid Index.ProofsRound.
Import ListNotations.
Open Scope Z_scope.

(** everything the routing of a level l <= L looks at is identical in the two indexes *)
Theorem C08_round_grid_levels : forall g L l hs x y, (L <= gdeep g)%nat -> (l <= L)%nat ->
  quadExtent (coarsen g L) l x y = quadExtent g l x y /\
  quadCentroid (coarsen g L) l x y = quadCentroid g l x y /\
  hotAt (coarsen g L) (coarsenHs g L hs) l = hotAt g hs l /\
  (forall a b, descendTo (coarsen g L) (hotLevels (coarsen g L) (coarsenHs g L hs)) a b l =
               descendTo g (hotLevels g hs) a b l) /\
  (forall a b, snapClosestPoints (coarsen g L) (hotLevels (coarsen g L) (coarsenHs g L hs)) a b l =
               snapClosestPoints g (hotLevels g hs) a b l).
Proof. exact round_grid_levels. Qed.
Print Assumptions C08_round_grid_levels.

(** indexing the same polygon in the coarser grid stores exactly the coarsened addresses
    (floor division composes: a / res / 2^k = a / (2^k res)) *)
Theorem C08_coarsen_insertPolygon : forall g L, (L <= gdeep g)%nat -> 0 < gres g ->
  forall P hs, insertPolygon g P = Ok hs -> insertPolygon (coarsen g L) P = Ok (coarsenHs g L hs).
Proof. exact coarsen_insertPolygon. Qed.
Print Assumptions C08_coarsen_insertPolygon.

(** hence: the routed centres of level l are the same whether the polygon is indexed with deepest level L
    or with any deeper level *)
Theorem C08_round_grid_routing : forall g L l P hs, 0 < gres g -> (L <= gdeep g)%nat -> (l <= L)%nat ->
  insertPolygon g P = Ok hs ->
  exists hs', insertPolygon (coarsen g L) P = Ok hs' /\
    forall a b, snapClosestPoints (coarsen g L) (hotLevels (coarsen g L) hs') a b l =
                snapClosestPoints g (hotLevels g hs) a b l.
Proof. exact round_grid_routing. Qed.
Print Assumptions C08_round_grid_routing.

(** on a round tile matrix set the grid built for level L IS the coarsened grid built for level d *)
Theorem C08_tmsGrid_round : forall e d L, (L <= d)%nat -> (pow2 d | emaxx e - eminx e) ->
  tmsGrid e L = coarsen (tmsGrid e d) L.
Proof. exact tmsGrid_round. Qed.
Print Assumptions C08_tmsGrid_round.

(** C08 for the index: tile matrix set whose extent divides evenly into the pixels of the deepest level d;
    level l requested together with deeper ones (index built for d) or alone / with shallower ones only
    (index built for L, l <= L <= d): the same centres for every segment *)
Theorem C08_round_tms_routing : forall e d L l P hs, 0 < (emaxx e - eminx e) / pow2 d ->
  (pow2 d | emaxx e - eminx e) -> (L <= d)%nat -> (l <= L)%nat ->
  insertPolygon (tmsGrid e d) P = Ok hs ->
  exists hs', insertPolygon (tmsGrid e L) P = Ok hs' /\
    forall a b, snapClosestPoints (tmsGrid e L) (hotLevels (tmsGrid e L) hs') a b l =
                snapClosestPoints (tmsGrid e d) (hotLevels (tmsGrid e d) hs) a b l.
Proof. exact round_tms_routing. Qed.
Print Assumptions C08_round_tms_routing.

(** non-vacuity: extent [0, 96)^2 divides evenly into 2^3 pixels of 12; level 2 from the index of level 3 and
    from the index of level 2 *)
Definition e96 : extent := mkExtent 0 0 96 96.
Definition Ptri : list ring := [[(10, 10); (60, 10); (60, 60)]].

Example C08_round_example :
  0 < (emaxx e96 - eminx e96) / pow2 3 /\ (pow2 3 | emaxx e96 - eminx e96) /\
  insertPolygon (tmsGrid e96 3) Ptri = Ok [(0, 0); (5, 0); (5, 5)] /\
  insertPolygon (tmsGrid e96 2) Ptri = Ok [(0, 0); (2, 0); (2, 2)] /\
  snapClosestPoints (tmsGrid e96 3) (hotLevels (tmsGrid e96 3) [(0, 0); (5, 0); (5, 5)]) (10, 10) (60, 10) 2
    = [(12, 12); (60, 12)] /\
  snapClosestPoints (tmsGrid e96 2) (hotLevels (tmsGrid e96 2) [(0, 0); (2, 0); (2, 2)]) (10, 10) (60, 10) 2
    = [(12, 12); (60, 12)].
Proof.
  split; [reflexivity |]. split; [exists 12; reflexivity |]. vm_compute. repeat split; reflexivity.
Qed.

(** the hypothesis is needed: extent [0, 100)^2, 100 / 2^3 = 12 (rounded down), 100 / 2^2 = 25 <> 2 * 12.
    Level 2 answered from the index built for level 3 has pixels of 24, built for level 2 pixels of 25:
    the same edge of the same polygon gets different centres. *)
Definition e100 : extent := mkExtent 0 0 100 100.

Example C08_nonround_example :
  ~ (pow2 3 | emaxx e100 - eminx e100) /\
  gres (tmsGrid e100 2) <> gres (coarsen (tmsGrid e100 3) 2) /\
  insertPolygon (tmsGrid e100 3) Ptri = Ok [(0, 0); (5, 0); (5, 5)] /\
  insertPolygon (tmsGrid e100 2) Ptri = Ok [(0, 0); (2, 0); (2, 2)] /\
  snapClosestPoints (tmsGrid e100 3) (hotLevels (tmsGrid e100 3) [(0, 0); (5, 0); (5, 5)]) (10, 10) (60, 10) 2
    = [(12, 12); (60, 12)] /\
  snapClosestPoints (tmsGrid e100 2) (hotLevels (tmsGrid e100 2) [(0, 0); (2, 0); (2, 2)]) (10, 10) (60, 10) 2
    = [(12, 12); (62, 12)].
Proof.
  split.
  - intros [k Hk]. vm_compute in Hk. destruct k as [| k | k]; try discriminate.
    assert (H : (Z.pos k * 8) mod 8 = 100 mod 8) by (f_equal; symmetry; exact Hk).
    rewrite Z.mod_mul in H by discriminate. vm_compute in H. discriminate.
  - vm_compute. repeat split; try reflexivity; discriminate.
Qed.

From Texel Require Import Index.ProofsGen.
From Texel.Gen Require Import PointIndexGen.

(** ** tie G2: the address computation (floor division) and the pixel extent/centroid REGENERATED from
    pointindex.go on this run are the model's *)
Theorem C08_source_tie :
  (forall g p, 0 < gres g -> gen_InsertPoint_coord (ix_of g) p = deepestCoord g p) /\
  (forall g l x y, 0 <= gres g -> (l <= gdeep g)%nat ->
     gen_getQuadrantExtentAndCentroid (ix_of g) (Z.of_nat l) x y (ext_tuple (gext g))
     = (ext_tuple (quadExtent g l x y), quadCentroid g l x y)).
Proof. split; [exact gen_InsertPoint_coord_spec | exact gen_getQuadrantExtentAndCentroid_spec]. Qed.
Print Assumptions C08_source_tie.

From Coq Require Import Permutation.
From Texel Require Import Snap.Model Snap.ModelInterleaved Snap.ProofsInterleaved.

(** ** levels do not interact.  [addPointsAndSnapI] (Snap/ModelInterleaved.v) follows snap.addPointsAndSnap
    statement by statement: rings outside, levels inside, the shared levelMap, per-level hit maps and
    accumulators; [ord] gives the iteration order of every range-over-a-map statement (each execution may
    use its own order).  For distinct requested levels it returns, for EVERY such family of orders, exactly
    the list of the per-level results [snapLevel] (the executable model used everywhere else); it panics iff
    some level on its own panics, and then with the panic of one of those levels. *)
Theorem C08_levels_do_not_interact : forall ord g hots cfg P levels,
  (forall st l, Permutation (ord st l) l) -> NoDup levels ->
  (forall rs, addPointsAndSnapI ord g hots cfg P levels = Ok rs <->
              mapM (fun L => do r <- snapLevel g hots P cfg L; Ok (L, r)) levels = Ok rs) /\
  (forall e, addPointsAndSnapI ord g hots cfg P levels = Err e ->
             exists L, In L levels /\ snapLevel g hots P cfg L = Err e) /\
  is_ok (addPointsAndSnapI ord g hots cfg P levels) =
  is_ok (mapM (fun L => do r <- snapLevel g hots P cfg L; Ok (L, r)) levels).
Proof. exact levels_do_not_interact. Qed.
Print Assumptions C08_levels_do_not_interact.

(** hence SnapPolygon built on the interleaved loop is the [snapPolygon] of the per-level model *)
Theorem C08_snapPolygon_interleaved : forall ord g P levels cfg,
  (forall st l, Permutation (ord st l) l) -> NoDup levels ->
  (forall r, snapPolygonI ord g P levels cfg = Ok r <-> snapPolygon g P levels cfg = Ok r) /\
  is_ok (snapPolygonI ord g P levels cfg) = is_ok (snapPolygon g P levels cfg).
Proof. exact snapPolygonI_agrees. Qed.
Print Assumptions C08_snapPolygon_interleaved.

(** the last loop of the Go code ranges over the points-and-lines of ALL levels: a deleted level has none *)
Theorem C08_deleted_level_has_no_points_and_lines : forall g hots L cfg P acc,
  ringsLoop g hots L cfg ProofsLevelThms.acc0 0 P = Ok acc -> aAlive acc = false -> aPL acc = [].
Proof. exact dead_level_no_pl. Qed.
Print Assumptions C08_deleted_level_has_no_points_and_lines.

(** non-vacuity: shell with a spike and a hole; levels visited in the given order and in reverse order at every
    range statement; level 0 collapses to a point (kept), with keep = false the collapsed levels are deleted *)
Example C08_interleaved_example :
  let g := mkGrid (mkExtent 0 0 64 64) 2 5 in
  let P := [[(2,2);(40,2);(40,40);(21,40);(20,60);(19,40);(2,40)]; [(10,10);(10,20);(20,20);(20,10)]] in
  let tiny := [[(2,2);(3,2);(3,3)]; [(10,10);(10,20);(20,20);(20,10)]] in
  snapPolygonI (fun _ l => rev l) g P [5; 3; 1; 0]%nat (mkConfig true false false)
    = snapPolygon g P [5; 3; 1; 0]%nat (mkConfig true false false) /\
  snapPolygonI (fun _ l => l) g P [5; 3; 1; 0]%nat (mkConfig true false false) =
    Ok [(5%nat, [[[(3,3);(41,3);(41,41);(21,41);(21,61);(19,41);(3,41)]; [(11,11);(11,21);(21,21);(21,11)]]]);
        (3%nat, [[[(4,4);(44,4);(44,44);(20,44);(4,44)]; [(12,12);(12,20);(20,20);(20,12)]]; [[(20,44);(20,60)]]]);
        (1%nat, [[[(16,16);(48,16);(48,48);(16,48)]]; [[(16,16)]]]);
        (0%nat, [[[(32,32)]]; [[(32,32)]]])] /\
  snapPolygonI (fun _ l => rev l) g tiny [5; 3]%nat (mkConfig true false false) =
    Ok [(5%nat, [[[(21,11);(21,21);(11,21);(11,11)]]; [[(3,3)]]]); (3%nat, [[[(20,12);(20,20);(12,20);(12,12)]]; [[(4,4)]]])] /\
  snapPolygonI (fun _ l => rev l) g tiny [5; 3]%nat (mkConfig false false false) = Ok [].
Proof. vm_compute. repeat split; reflexivity. Qed.

From Texel Require Import Snap.SnapTopSupport Snap.ProofsGenSnapTop.
From Texel.Gen Require Import SnapTopGen.

(** ** tie G2 for the top of snap.go: addPointsAndSnap REGENERATED from source on this run (gen/SnapTopGen.v,
    translator/snaptop.go) is the interleaved model [addPointsAndSnapI] above, for EVERY iteration order of the Go
    maps (hence, by C08_levels_do_not_interact, the per-level model [snapLevel] for every requested level).
    REGENERATED from the AST, statement by statement: the loop over the rings with its index, [if len(levelMap) == 0
    { continue }], [isOuter := ringIdx == 0], the re-assignment of the range variable [ring], [ringLen], the per-ring
    map newRing and the loop that makes its entries, the loop over the vertices with [(vertexIdx + 1) % ringLen]
    ([go_rem]: the Go panic for an empty divisor) and [ring[nextVertexIdx]] ([idx]: the index panic), the segment
    literal, the three loops [for level := range levelMap] (which map is read / appended to / assigned at which key,
    and with what), the three results of cleanupNewRing, the collapse test [isOuter && len(outerRings) == 0 &&
    (!config.KeepPointsAndLines || len(pointsAndLines) == 0)] with [delete(levelMap, level)] + [continue] inside the
    loop over levelMap (iteration over the keys present at the start, a key no longer present at its turn skipped),
    [if config.KeepPointsAndLines], the final loop over the levels still alive (tuple assignment from
    dedupeInnersOuters, the nested calls, [len(polygon) > 1], [if len(newPolygonsForLevel) > 0]), the loop over
    newPointsAndLines (key and value) with its inner loop, the returned map.  Every range over a Go map iterates in the
    order [gord site keys]: [gord] is a PARAMETER, [gen_site] (generated) has one constructor per range-over-map
    statement and per call of ix.SnapClosestPoints, indexed by the key variables of the enclosing loops, so that every
    execution of such a statement may use its own order; [site_order gord] reads a [gord] as the [ord] of the model.
    Called as REGENERATED functions of the other gen files (rewritten to the model's by C06_source_tie_small, _cleanup_new_ring,
    _dedupe_inners_outers, _match_inners, _ring_helpers): cleanupNewVertices, ensureCorrectWindingOrder, cleanupNewRing,
    dedupeInnersOuters, outersToPolygons, matchInnersToPolygons, reverseWindingOrderIfConfigured, mapslicehelp.LastElement.
    STAYS MODELLED (trusted micro-models of Snap/SnapTopSupport.v, used only after the translator has checked the AST for
    the exact callee, import path and declared signature; listed at the top of gen/SnapTopGen.v):
    - Go maps keyed by level = association lists ([aget] with the zero value, [aset], [afind]); map[Level]any = the list
      of its keys (mapslicehelp.AsKeys = [as_keys], delete = [adel]); the result is compared through the reading
      [afind np L] at the requested levels (a Go map has no order);
    - ix.SnapClosestPoints(segment, levelMap, ringIdx) = [px_SnapClosestPoints]: the model's routing ([snapAndHit] of
      Index/Model.v on every level of levelMap, in the order of the range statement inside it) and its update of the
      hit maps of the index; ix.GetHitMultiple(level) = [px_GetHitMultiple] (its body is checked); the arguments
      (hitMultiple, ringIdx) of cleanupNewRing = the predicate [hit_multi] (see C08_source_tie_vertices_hit_multiple);
      a [*pointindex.PointIndex] = [pindex]: grid, occupied pixels, hit maps per level ([mkPIndex g hots []] = the index
      right after InsertPolygon);
    - geomhelp.FloatPolygonsToGeomPolygonsForAllKeys and geom.Polygon.LinearRings = the identity (type conversions);
    - slices are values (sharing of backing arrays is outside the translation); int is exact Z, Level is nat.
    SnapPolygon and tileMatrixIDsByLevels: C08_source_tie_snap_polygon and C08_source_tie_tile_matrix_ids_by_levels below. *)
Theorem C08_source_tie_add_points_and_snap : forall gord g hots cfg P levels,
  (forall s l, Permutation (gord s l) l) -> NoDup levels ->
  (do np <- gen_addPointsAndSnap gord (mkPIndex g hots []) P levels cfg;
   Ok (map (fun L => (L, afind np L)) levels))
  = addPointsAndSnapI (site_order gord) g hots cfg P levels.
Proof. exact gen_addPointsAndSnap_tie. Qed.
Print Assumptions C08_source_tie_add_points_and_snap.

(** hence the regenerated function returns, read at the requested levels, exactly the per-level results *)
Theorem C08_source_tie_add_points_and_snap_per_level : forall gord g hots cfg P levels,
  (forall s l, Permutation (gord s l) l) -> NoDup levels ->
  forall rs,
    (do np <- gen_addPointsAndSnap gord (mkPIndex g hots []) P levels cfg;
     Ok (map (fun L => (L, afind np L)) levels)) = Ok rs
    <-> mapM (fun L => do r <- snapLevel g hots P cfg L; Ok (L, r)) levels = Ok rs.
Proof. exact gen_addPointsAndSnap_per_level. Qed.
Print Assumptions C08_source_tie_add_points_and_snap_per_level.

(** verticesHitMultiple REGENERATED from snap.go (the range over the Go map hitMultiple in any order [pord],
    slices.Contains on the ring ids, the set of float vertices as a list read with [mem_pt]; ToGeomPoint = identity):
    membership in its result is [hit_multi], the predicate the regenerated cleanupNewRing / splitRing are called with *)
Theorem C08_source_tie_vertices_hit_multiple : forall (pord : gen_site -> list pt -> list pt) hm ringIdx,
  (forall s l, Permutation (pord s l) l) ->
  exists vs, gen_verticesHitMultiple pord hm ringIdx = Ok vs /\ forall p, mem_pt p vs = hit_multi hm ringIdx p.
Proof. exact gen_verticesHitMultiple_spec. Qed.
Print Assumptions C08_source_tie_vertices_hit_multiple.

(** the regenerated code runs: the shell with a spike and a hole of C08_interleaved_example, every range over a Go map
    in reversed order: levels 5 and 3 keep the hole, level 3 gets the spike as a line, level 1 a point, level 0
    collapses to a point (kept); with keep = false the collapsed level 0 is deleted from levelMap during the loop over it
    and is absent from the result; a tiny shell deletes both levels at the first ring, the hole is never looked at *)
Example C08_source_tie_add_points_and_snap_example :
  let g := mkGrid (mkExtent 0 0 64 64) 2 5 in
  let P := [[(2,2);(40,2);(40,40);(21,40);(20,60);(19,40);(2,40)]; [(10,10);(10,20);(20,20);(20,10)]] in
  let tiny := [[(2,2);(3,2);(3,3)]; [(10,10);(10,20);(20,20);(20,10)]] in
  let hotsOf P := match insertPolygon g P with Ok hs => hotLevels g hs | Err _ => [] end in
  let read levels r := match r with Ok np => Ok (map (fun L => (L, afind np L)) levels) | Err e => Err e end in
  read [5; 3; 1; 0]%nat (gen_addPointsAndSnap (fun _ l => rev l) (mkPIndex g (hotsOf P) []) P [5; 3; 1; 0]%nat (mkConfig true false false))
    = Ok [(5%nat, Some [[[(3,3);(41,3);(41,41);(21,41);(21,61);(19,41);(3,41)]; [(11,11);(11,21);(21,21);(21,11)]]]);
          (3%nat, Some [[[(4,4);(44,4);(44,44);(20,44);(4,44)]; [(12,12);(12,20);(20,20);(20,12)]]; [[(20,44);(20,60)]]]);
          (1%nat, Some [[[(16,16);(48,16);(48,48);(16,48)]]; [[(16,16)]]]);
          (0%nat, Some [[[(32,32)]]; [[(32,32)]]])] /\
  read [5; 0]%nat (gen_addPointsAndSnap (fun _ l => rev l) (mkPIndex g (hotsOf P) []) P [5; 0]%nat (mkConfig false false false))
    = Ok [(5%nat, Some [[[(3,3);(41,3);(41,41);(21,41);(21,61);(19,41);(3,41)]; [(11,11);(11,21);(21,21);(21,11)]]]);
          (0%nat, None)] /\
  read [5; 3]%nat (gen_addPointsAndSnap (fun _ l => l) (mkPIndex g (hotsOf tiny) []) tiny [5; 3]%nat (mkConfig false false false))
    = Ok [(5%nat, None); (3%nat, None)] /\
  gen_verticesHitMultiple (fun _ l => rev l) [((1,1), [0; 2]%nat); ((2,2), [1]%nat); ((3,3), [2; 0]%nat)] 0
    = Ok [(1,1); (3,3)].
Proof. vm_compute. repeat split; reflexivity. Qed.

From Texel Require Import Prelude.GoAssoc.
From Texel Require Tms.Model.

(** ** tie G2 for tileMatrixIDsByLevels and SnapPolygon, REGENERATED from snap.go on this run (gen/SnapTopGen.v).

    tileMatrixIDsByLevels: [rootTM := tms.TileMatrices[0]], the level difference [uint(math.Log2(float64(rootTM.TileWidth))) +
    uint(math.Log2(float64(pointindex.VectorTileInternalPixelResolution)))], the loop over the requested ids with
    [level := uint(tmID) + levelDiff] and [tmIDsByLevels[level] = tmID] (a later id with the same level replaces an earlier
    one) are derived from the AST; the result is the map built with the level arithmetic of the TMS model
    ([Tms.Model.deepestLevel], the one C14 validates: 64-bit wrap-around of uint(tmID) and of both additions included).
    MODELLED there: [uint(math.Log2(float64(w)))] = [Tms.Model.go_log2_uint w] (float code), [uint(x)] = x mod 2^64,
    uint [+] = [GoTms.uint_add], the constant = gen_VectorTileInternalPixelResolution (REGENERATED, ConstsGen.v), a
    [tms20.TileMatrixSet] = a [tmsview] (root tile width; the grid FromTileMatrixSet builds for a deepest id).

    SnapPolygon: [slices.Max(tmIDs)], FromTileMatrixSet + [if err != nil { panic(err) }], the call of tileMatrixIDsByLevels, the
    loop collecting the keys of that map into [levels] (a range over a Go map: any order [gord GSite8]), [err =
    ix.InsertPolygon(polygon)] with the branch [errors.As(err, outsideGridErr) && config.IgnoreOutsideGrid] -> empty map,
    else [panic(err)], the call of addPointsAndSnap (the REGENERATED gen_addPointsAndSnap above, same [gord]) and the loop
    that re-keys its result by tile matrix id (a range over a Go map: [gord GSite9]) are derived from the AST.
    The theorem: read at the tile matrix id of every requested level, the returned map is [snapPolygonI] (the interleaved
    model of C08_snapPolygon_interleaved, hence [snapPolygon] of the per-level model) run on the grid of the fresh index
    and on the levels in the order the key-collecting loop happened to produce, for EVERY order of every map range.
    MODELLED (trusted, AST shape / signatures checked by the translator, listed at the top of gen/SnapTopGen.v):
    pointindex.FromTileMatrixSet = [tvIndex] of the view (any function: the theorem quantifies over the view);
    ix.InsertPolygon = [px_InsertPolygon] = the model's [insertPolygon] ([Err] = a panic inside, returned error = always an
    OutsideGridError: the translator checks the return statements of InsertPolygon / InsertPoint / InsertCoord);
    errors.As on that error = "not nil"; slices.Max = [go_slices_max] (empty slice: panic); log.Println = nothing;
    map[tms20.TMID][]geom.Polygon = association list read with [gm_get Z.eqb]. *)
Theorem C08_source_tie_tile_matrix_ids_by_levels :
  (forall view tmIDs,
     gen_tileMatrixIDsByLevels view tmIDs = Ok (tmIDsByLevels (tvRootTileWidth view) tmIDs)) /\
  (forall tw tmIDs,
     tmIDsByLevels tw tmIDs = fold_left (fun m id => aset m (Z.to_nat (Tms.Model.deepestLevel tw id)) id) tmIDs []) /\
  (forall tw id, 1 <= tw -> 0 <= id -> id + Z.log2 tw + 4 < 2 ^ 64 ->
     Tms.Model.deepestLevel tw id = id + Z.log2 tw + 4).
Proof.
  split; [exact gen_tileMatrixIDsByLevels_spec |]. split; [reflexivity | exact deepestLevel_plain].
Qed.
Print Assumptions C08_source_tie_tile_matrix_ids_by_levels.

Theorem C08_source_tie_snap_polygon : forall gord view tmIDs P cfg,
  (forall s l, Permutation (gord s l) l) ->
  let byLevel := tmIDsByLevels (tvRootTileWidth view) tmIDs in
  let levels := gord GSite8 (lv_keys byLevel) in
  (do out <- gen_SnapPolygon gord P view tmIDs cfg;
   Ok (flat_map (fun L => match gm_get Z.eqb out (aget byLevel L 0) with Some ps => [(L, ps)] | None => [] end) levels))
  = (do d <- go_slices_max tmIDs; do g <- tvIndex view d; snapPolygonI (site_order gord) g P levels cfg).
Proof. exact gen_SnapPolygon_spec. Qed.
Print Assumptions C08_source_tie_snap_polygon.

(** the regenerated code runs: root tile 256 pixels wide (8 + 4 = 12 levels below tile matrix 0), a grid of 2^13 pixels of
    2 units for the deepest requested id 1; ids 1 and 0 (levels 13 and 12), both orders of every map range; a polygon
    outside the grid is a panic, or an empty map when config.IgnoreOutsideGrid; no ids: the panic of slices.Max *)
Example C08_source_tie_snap_polygon_example :
  let view := mkTmsView 256 (fun d => if d =? 1 then Ok (mkGrid (mkExtent 0 0 16384 16384) 2 13) else Err DivZero) in
  let P := [[(21,21);(4001,21);(4001,4001);(21,4001)]; [(1001,1001);(1001,2001);(2001,2001);(2001,1001)]] in
  gen_tileMatrixIDsByLevels view [1; 0; 1] = Ok [(13%nat, 1); (12%nat, 0)] /\
  gen_SnapPolygon (fun _ l => rev l) P view [1; 0] (mkConfig false false false)
    = Ok [(0, [[[(22,22);(4002,22);(4002,4002);(22,4002)]; [(1002,1002);(1002,2002);(2002,2002);(2002,1002)]]]);
          (1, [[[(21,21);(4001,21);(4001,4001);(21,4001)]; [(1001,1001);(1001,2001);(2001,2001);(2001,1001)]]])] /\
  gen_SnapPolygon (fun _ l => l) P view [1; 0] (mkConfig false false false)
    = Ok [(1, [[[(21,21);(4001,21);(4001,4001);(21,4001)]; [(1001,1001);(1001,2001);(2001,2001);(2001,1001)]]]);
          (0, [[[(22,22);(4002,22);(4002,4002);(22,4002)]; [(1002,1002);(1002,2002);(2002,2002);(2002,1002)]]])] /\
  gen_SnapPolygon (fun _ l => l) [[(21,21);(20001,21);(4001,4001)]] view [1; 0] (mkConfig false false false) = Err OutsideGrid /\
  gen_SnapPolygon (fun _ l => l) [[(21,21);(20001,21);(4001,4001)]] view [1; 0] (mkConfig false true false) = Ok [] /\
  gen_SnapPolygon (fun _ l => l) P view [] (mkConfig false false false) = Err IndexOutOfRange /\
  gen_SnapPolygon (fun _ l => l) P view [0] (mkConfig false false false) = Err DivZero.
Proof. vm_compute. repeat split; reflexivity. Qed.
