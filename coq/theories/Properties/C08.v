(** * C08 — a tile matrix's result does not depend on which others are requested (index part).

    The index is always built for the deepest requested level d; a coarser level L is answered from it.
    [coarsen g L] is the grid with deepest level L whose pixel is exactly 2^(d-L) pixels of g (same extent),
    [coarsenHs g L hs] the deepest-level addresses of g divided (rounding down) by 2^(d-L),
    [tmsGrid e d] the grid FromTileMatrixSet builds for extent e and deepest level d: res = XSpan / 2^d
    rounded down.  The "extent divides evenly into pixels" condition is [(2^d | XSpan)]. *)
From Coq Require Import ZArith List Bool.
From Texel Require Import Prelude.Base Index.Model Index.ProofsInsert Index.ProofsGrid Index.ProofsRound.
Import ListNotations.
Open Scope Z_scope.

(** everything the routing of a level l <= L looks at is identical in the two indexes *)
Theorem C08_round_grid_levels : forall g L l hs x y, (L <= gdeep g)%nat -> (l <= L)%nat ->
  quadExtent (coarsen g L) l x y = quadExtent g l x y /\
  quadCentroid (coarsen g L) l x y = quadCentroid g l x y /\
  hotAt (coarsen g L) (coarsenHs g L hs) l = hotAt g hs l /\
  (forall a b, descendTo (coarsen g L) (hotLevels (coarsen g L) (coarsenHs g L hs)) a b l =
               descendTo g (hotLevels g hs) a b l) /\
  (forall a b, snapClosestPoints (coarsen g L) (hotLevels (coarsen g L) (coarsenHs g L hs)) a b l =
               snapClosestPoints g (hotLevels g hs) a b l).
Proof. exact round_grid_levels. Qed.
Print Assumptions C08_round_grid_levels.

(** indexing the same polygon in the coarser grid stores exactly the coarsened addresses
    (floor division composes: a / res / 2^k = a / (2^k res)) *)
Theorem C08_coarsen_insertPolygon : forall g L, (L <= gdeep g)%nat -> 0 < gres g ->
  forall P hs, insertPolygon g P = Ok hs -> insertPolygon (coarsen g L) P = Ok (coarsenHs g L hs).
Proof. exact coarsen_insertPolygon. Qed.
Print Assumptions C08_coarsen_insertPolygon.

(** hence: the routed centres of level l are the same whether the polygon is indexed with deepest level L
    or with any deeper level *)
Theorem C08_round_grid_routing : forall g L l P hs, 0 < gres g -> (L <= gdeep g)%nat -> (l <= L)%nat ->
  insertPolygon g P = Ok hs ->
  exists hs', insertPolygon (coarsen g L) P = Ok hs' /\
    forall a b, snapClosestPoints (coarsen g L) (hotLevels (coarsen g L) hs') a b l =
                snapClosestPoints g (hotLevels g hs) a b l.
Proof. exact round_grid_routing. Qed.
Print Assumptions C08_round_grid_routing.

(** on a round tile matrix set the grid built for level L IS the coarsened grid built for level d *)
Theorem C08_tmsGrid_round : forall e d L, (L <= d)%nat -> (pow2 d | emaxx e - eminx e) ->
  tmsGrid e L = coarsen (tmsGrid e d) L.
Proof. exact tmsGrid_round. Qed.
Print Assumptions C08_tmsGrid_round.

(** C08 for the index: tile matrix set whose extent divides evenly into the pixels of the deepest level d;
    level l requested together with deeper ones (index built for d) or alone / with shallower ones only
    (index built for L, l <= L <= d): the same centres for every segment *)
Theorem C08_round_tms_routing : forall e d L l P hs, 0 < (emaxx e - eminx e) / pow2 d ->
  (pow2 d | emaxx e - eminx e) -> (L <= d)%nat -> (l <= L)%nat ->
  insertPolygon (tmsGrid e d) P = Ok hs ->
  exists hs', insertPolygon (tmsGrid e L) P = Ok hs' /\
    forall a b, snapClosestPoints (tmsGrid e L) (hotLevels (tmsGrid e L) hs') a b l =
                snapClosestPoints (tmsGrid e d) (hotLevels (tmsGrid e d) hs) a b l.
Proof. exact round_tms_routing. Qed.
Print Assumptions C08_round_tms_routing.

(** non-vacuity: extent [0, 96)^2 divides evenly into 2^3 pixels of 12; level 2 from the index of level 3 and
    from the index of level 2 *)
Definition e96 : extent := mkExtent 0 0 96 96.
Definition Ptri : list ring := [[(10, 10); (60, 10); (60, 60)]].

Example C08_round_example :
  0 < (emaxx e96 - eminx e96) / pow2 3 /\ (pow2 3 | emaxx e96 - eminx e96) /\
  insertPolygon (tmsGrid e96 3) Ptri = Ok [(0, 0); (5, 0); (5, 5)] /\
  insertPolygon (tmsGrid e96 2) Ptri = Ok [(0, 0); (2, 0); (2, 2)] /\
  snapClosestPoints (tmsGrid e96 3) (hotLevels (tmsGrid e96 3) [(0, 0); (5, 0); (5, 5)]) (10, 10) (60, 10) 2
    = [(12, 12); (60, 12)] /\
  snapClosestPoints (tmsGrid e96 2) (hotLevels (tmsGrid e96 2) [(0, 0); (2, 0); (2, 2)]) (10, 10) (60, 10) 2
    = [(12, 12); (60, 12)].
Proof.
  split; [reflexivity |]. split; [exists 12; reflexivity |]. vm_compute. repeat split; reflexivity.
Qed.

(** the hypothesis is needed: extent [0, 100)^2, 100 / 2^3 = 12 (rounded down), 100 / 2^2 = 25 <> 2 * 12.
    Level 2 answered from the index built for level 3 has pixels of 24, built for level 2 pixels of 25:
    the same edge of the same polygon gets different centres. *)
Definition e100 : extent := mkExtent 0 0 100 100.

Example C08_nonround_example :
  ~ (pow2 3 | emaxx e100 - eminx e100) /\
  gres (tmsGrid e100 2) <> gres (coarsen (tmsGrid e100 3) 2) /\
  insertPolygon (tmsGrid e100 3) Ptri = Ok [(0, 0); (5, 0); (5, 5)] /\
  insertPolygon (tmsGrid e100 2) Ptri = Ok [(0, 0); (2, 0); (2, 2)] /\
  snapClosestPoints (tmsGrid e100 3) (hotLevels (tmsGrid e100 3) [(0, 0); (5, 0); (5, 5)]) (10, 10) (60, 10) 2
    = [(12, 12); (60, 12)] /\
  snapClosestPoints (tmsGrid e100 2) (hotLevels (tmsGrid e100 2) [(0, 0); (2, 0); (2, 2)]) (10, 10) (60, 10) 2
    = [(12, 12); (62, 12)].
Proof.
  split.
  - intros [k Hk]. vm_compute in Hk. destruct k as [| k | k]; try discriminate.
    assert (H : (Z.pos k * 8) mod 8 = 100 mod 8) by (f_equal; symmetry; exact Hk).
    rewrite Z.mod_mul in H by discriminate. vm_compute in H. discriminate.
  - vm_compute. repeat split; try reflexivity; discriminate.
Qed.

From Texel Require Import Index.ProofsGen.
From Texel.Gen Require Import PointIndexGen.

(** ** tie G2: the address computation (floor division) and the pixel extent/centroid REGENERATED from
    pointindex.go on this run are the model's *)
Theorem C08_source_tie :
  (forall g p, 0 < gres g -> gen_InsertPoint_coord (ix_of g) p = deepestCoord g p) /\
  (forall g l x y, 0 <= gres g -> (l <= gdeep g)%nat ->
     gen_getQuadrantExtentAndCentroid (ix_of g) (Z.of_nat l) x y (ext_tuple (gext g))
     = (ext_tuple (quadExtent g l x y), quadCentroid g l x y)).
Proof. split; [exact gen_InsertPoint_coord_spec | exact gen_getQuadrantExtentAndCentroid_spec]. Qed.
Print Assumptions C08_source_tie.

From Coq Require Import Permutation.
From Texel Require Import Snap.Model Snap.ModelInterleaved Snap.ProofsInterleaved.

(** ** levels do not interact.  [addPointsAndSnapI] (Snap/ModelInterleaved.v) follows snap.addPointsAndSnap
    statement by statement: rings outside, levels inside, the shared levelMap, per-level hit maps and
    accumulators; [ord] gives the iteration order of every range-over-a-map statement (each execution may
    use its own order).  For distinct requested levels it returns, for EVERY such family of orders, exactly
    the list of the per-level results [snapLevel] (the executable model used everywhere else); it panics iff
    some level on its own panics, and then with the panic of one of those levels. *)
Theorem C08_levels_do_not_interact : forall ord g hots cfg P levels,
  (forall st l, Permutation (ord st l) l) -> NoDup levels ->
  (forall rs, addPointsAndSnapI ord g hots cfg P levels = Ok rs <->
              mapM (fun L => do r <- snapLevel g hots P cfg L; Ok (L, r)) levels = Ok rs) /\
  (forall e, addPointsAndSnapI ord g hots cfg P levels = Err e ->
             exists L, In L levels /\ snapLevel g hots P cfg L = Err e) /\
  is_ok (addPointsAndSnapI ord g hots cfg P levels) =
  is_ok (mapM (fun L => do r <- snapLevel g hots P cfg L; Ok (L, r)) levels).
Proof. exact levels_do_not_interact. Qed.
Print Assumptions C08_levels_do_not_interact.

(** hence SnapPolygon built on the interleaved loop is the [snapPolygon] of the per-level model *)
Theorem C08_snapPolygon_interleaved : forall ord g P levels cfg,
  (forall st l, Permutation (ord st l) l) -> NoDup levels ->
  (forall r, snapPolygonI ord g P levels cfg = Ok r <-> snapPolygon g P levels cfg = Ok r) /\
  is_ok (snapPolygonI ord g P levels cfg) = is_ok (snapPolygon g P levels cfg).
Proof. exact snapPolygonI_agrees. Qed.
Print Assumptions C08_snapPolygon_interleaved.

(** the last loop of the Go code ranges over the points-and-lines of ALL levels: a deleted level has none *)
Theorem C08_deleted_level_has_no_points_and_lines : forall g hots L cfg P acc,
  ringsLoop g hots L cfg ProofsLevelThms.acc0 0 P = Ok acc -> aAlive acc = false -> aPL acc = [].
Proof. exact dead_level_no_pl. Qed.
Print Assumptions C08_deleted_level_has_no_points_and_lines.

(** non-vacuity: shell with a spike and a hole; levels visited in the given order and in reverse order at every
    range statement; level 0 collapses to a point (kept), with keep = false the collapsed levels are deleted *)
Example C08_interleaved_example :
  let g := mkGrid (mkExtent 0 0 64 64) 2 5 in
  let P := [[(2,2);(40,2);(40,40);(21,40);(20,60);(19,40);(2,40)]; [(10,10);(10,20);(20,20);(20,10)]] in
  let tiny := [[(2,2);(3,2);(3,3)]; [(10,10);(10,20);(20,20);(20,10)]] in
  snapPolygonI (fun _ l => rev l) g P [5; 3; 1; 0]%nat (mkConfig true false false)
    = snapPolygon g P [5; 3; 1; 0]%nat (mkConfig true false false) /\
  snapPolygonI (fun _ l => l) g P [5; 3; 1; 0]%nat (mkConfig true false false) =
    Ok [(5%nat, [[[(3,3);(41,3);(41,41);(21,41);(21,61);(19,41);(3,41)]; [(11,11);(11,21);(21,21);(21,11)]]]);
        (3%nat, [[[(4,4);(44,4);(44,44);(20,44);(4,44)]; [(12,12);(12,20);(20,20);(20,12)]]; [[(20,44);(20,60)]]]);
        (1%nat, [[[(16,16);(48,16);(48,48);(16,48)]]; [[(16,16)]]]);
        (0%nat, [[[(32,32)]]; [[(32,32)]]])] /\
  snapPolygonI (fun _ l => rev l) g tiny [5; 3]%nat (mkConfig true false false) =
    Ok [(5%nat, [[[(21,11);(21,21);(11,21);(11,11)]]; [[(3,3)]]]); (3%nat, [[[(20,12);(20,20);(12,20);(12,12)]]; [[(4,4)]]])] /\
  snapPolygonI (fun _ l => rev l) g tiny [5; 3]%nat (mkConfig false false false) = Ok [].
Proof. vm_compute. repeat split; reflexivity. Qed.
