(** * C14 — only true quadtree tile matrix sets pass validation.

    The theorems are about [isQuadTree] / [validate] of Tms/Model.v, the hand-written model of
    pointindex.IsQuadTree, pointindex.DeviationStats (its error / panic behaviour) and
    main.validateTileMatrixSet AS THE CODE STANDS; the model is held to the code on every run by
    the correspondence C14 (harness_tms/c14.go: ~7000 perturbed sets incl. 1-ulp neighbours of the
    1.99 / 2.01 tolerance, and the real binary on the built-in sets).  The built-in documents, the
    tolerance literals and the order of the calls in validateTileMatrixSet are regenerated from
    /repo on every run (gen/TmsData.v). *)
From Coq Require Import ZArith QArith String List Bool.
From Texel Require Import Tms.Json Tms.Model Tms.ProofsC14 Tms.ProofsC14b Tms.ProofsC14c Tms.F64Ratio.
From Texel Require Import Tms.GoTms Tms.ProofsC14d.
From Texel.Gen Require Import QuadTreeGen.
From Texel.Gen Require Import ConstsGen TmsData CliGen.
Import ListNotations.
Open Scope Z_scope.

(** Acceptance by IsQuadTree, for EVERY record and EVERY level (in particular the last matrix):
    with the matrices in increasing id order (the order in which the code visits the map),
    - every matrix is square, has square tiles, an id that strconv.Atoi reads as its map key, no variable widths;
    - every two consecutive matrices have consecutive ids, the same point of origin (as float64 values), the same
      corner of origin, the same tile size, a doubled matrix size (uint arithmetic) and a cell size ratio that the
      float64 test [lo <= previous/current <= hi] accepts, lo / hi the float64 images of the regenerated literals;
    - (since the repair of F22) the first matrix has id 0, hence the ids are exactly 0, 1, .., n-1
      ([iota n] = [map Z.of_nat (seq 0 n)]). *)
Theorem C14_isQuadTree_sound : forall t, isQuadTree t = Accept ->
  let l := sorted_matrices t in
  (forall k m, In (k, m) l ->
     tm_matrixHeight m = tm_matrixWidth m /\ tm_tileHeight m = tm_tileWidth m /\
     parse_int (tm_id m) = Some k /\ vmw_nonempty m = false) /\
  (forall i k1 m1 k2 m2, nth_error l i = Some (k1, m1) -> nth_error l (S i) = Some (k2, m2) ->
     k2 = k1 + 1 /\
     (exists o po, tm_origin m2 = Some o /\ tm_origin m1 = Some po /\ point_feqb o po = true) /\
     tm_corner m2 = tm_corner m1 /\
     tm_tileHeight m2 = tm_tileHeight m1 /\
     tm_matrixHeight m2 = (2 * tm_matrixHeight m1) mod two64 /\
     ratio_ok (tm_cellSize m1) (tm_cellSize m2) = true) /\
  (forall k m, nth_error l 0 = Some (k, m) -> k = 0) /\
  map fst l = iota (length l).
Proof. exact isQuadTree_sound_lemma. Qed.
Print Assumptions C14_isQuadTree_sound.

(** What the binary64 ratio test means for the EXACT quotient of the two float64 cell sizes: it lies within
    [1.99 - 2^-50, 2.01 + 2^-50] (the float64 images of the literals 1.99 / 2.01 and the rounding of the division
    account for the 2^-50); conversely an exact quotient outside that interval fails the test. *)
Theorem C14_ratio_exact : forall prev cur, ratio_ok prev cur = true ->
  exists a b, f64_dec prev = FNum a /\ f64_dec cur = FNum b /\ ~ (b == 0)%Q /\
    ((199 # 100) - (1 # 2 ^ 50) <= a / b)%Q /\ (a / b <= (201 # 100) + (1 # 2 ^ 50))%Q.
Proof. exact ratio_ok_bounds. Qed.
Print Assumptions C14_ratio_exact.

Theorem C14_ratio_beyond_tolerance_fails : forall prev cur a b,
  f64_dec prev = FNum a -> f64_dec cur = FNum b ->
  (a / b < (199 # 100) - (1 # 2 ^ 50))%Q \/ ((201 # 100) + (1 # 2 ^ 50) < a / b)%Q ->
  ratio_ok prev cur = false.
Proof. exact ratio_beyond_tolerance_fails. Qed.
Print Assumptions C14_ratio_beyond_tolerance_fails.

(** the sorted list has exactly the members of the map *)
Theorem C14_sorted_is_the_map : forall t e, In e (sorted_matrices t) <-> In e (t_matrices t).
Proof. exact in_sorted_iff. Qed.
Print Assumptions C14_sorted_is_the_map.

(** the literals of the tolerance and the order of the checks, as regenerated from the source *)
Theorem C14_source_shape :
  gen_quadtree_ratio_lo = Dec 199 (-2) /\ gen_quadtree_ratio_hi = Dec 201 (-2) /\
  gen_validate_calls = ["pointindex.IsQuadTree"; "len"; "errors.New"; "index tms.TileMatrices"; "fmt.Errorf";
                        "slices.Max"; "pointindex.DeviationStats"]%string.
Proof. exact source_shape_lemma. Qed.
Print Assumptions C14_source_shape.

(** the control flow of validateTileMatrixSet, regenerated statement by statement from main.go: every failed check and
    every error of IsQuadTree / DeviationStats leaves the function WITH the error (a reject), the deviation warning only
    logs, and the function accepts at the end — the decision procedure [validate] of Tms/Model.v transcribes exactly
    these lines.  (A change that, say, only logs the DeviationStats error would let a set without tile matrix 0 pass:
    that requirement is enforced by nothing else.) *)
Theorem C14_source_flow :
  gen_validate_flow =
  ["if err := pointindex.IsQuadTree(tms); err != nil -> return error";
   "if len(tileMatrixIDs) == 0 -> return error";
   "range tileMatrixIDs { if _, exists := tms.TileMatrices[tmID]; !exists -> return error }";
   "deepestTMID := slices.Max(tileMatrixIDs)";
   "stats, deviationInUnits, deviationInPixels, err := pointindex.DeviationStats(tms, deepestTMID)";
   "if err != nil -> return error";
   "if deviationInPixels >= 1 -> no return";
   "return nil"]%string.
Proof. reflexivity. Qed.
Print Assumptions C14_source_flow.

(** The composite validation adds: some tile matrix is requested, every requested id is a tile matrix of the set,
    and a tile matrix 0 exists (since the repair of F22 the latter also follows from IsQuadTree alone for a non-empty
    set: C14_isQuadTree_sound). *)
Theorem C14_validate_sound : forall t ids, validate t ids = Accept ->
  isQuadTree t = Accept /\ ids <> [] /\
  (forall i, In i ids -> exists m, find_tm i (t_matrices t) = Some m) /\
  exists root, find_tm 0 (t_matrices t) = Some root.
Proof. exact validate_sound_lemma. Qed.
Print Assumptions C14_validate_sound.

(** Breaking ONE condition of an accepted set, at ANY level, to ANY other value, is rejected with an error
    (never accepted, never a panic): matrix width, matrix height, tile width, tile height; with at least two
    matrices: the point of origin (any point whose float64 image differs) and the corner of origin; the cell size
    (any value whose ratio to the previous or to the next matrix fails the tolerance test); deleting a matrix that
    is not the last one (being 0, or having a predecessor); adding variable matrix widths.
    Since the repair of F22 also: renumbering every tile matrix by ANY shift s <> 0 (map keys and id strings together:
    [shift_ids], everything else stays consistent); deleting tile matrix 0 of a set with at least two matrices; removing
    every tile matrix below any j with 0 < j <= k (the "first j matrices removed") -- each is rejected by IsQuadTree
    itself, hence by the validation whatever is requested. *)
Theorem C14_perturbation_rejected : forall t ids k m,
  validate t ids = Accept -> In (k, m) (t_matrices t) ->
  (forall v, v <> tm_matrixWidth m -> rejected (validate (update_tm t k (with_matrixWidth v)) ids)) /\
  (forall v, v <> tm_matrixHeight m -> rejected (validate (update_tm t k (with_matrixHeight v)) ids)) /\
  (forall v, v <> tm_tileWidth m -> rejected (validate (update_tm t k (with_tileWidth v)) ids)) /\
  (forall v, v <> tm_tileHeight m -> rejected (validate (update_tm t k (with_tileHeight v)) ids)) /\
  (forall o o0, (2 <= length (t_matrices t))%nat -> tm_origin m = Some o0 -> point_feqb o o0 = false ->
     rejected (validate (update_tm t k (with_origin o)) ids)) /\
  (forall c, (2 <= length (t_matrices t))%nat -> c <> tm_corner m ->
     rejected (validate (update_tm t k (with_corner c)) ids)) /\
  (forall d, (exists pm, In (k - 1, pm) (t_matrices t) /\ ratio_ok (tm_cellSize pm) d = false) \/
             (exists nm, In (k + 1, nm) (t_matrices t) /\ ratio_ok d (tm_cellSize nm) = false) ->
     rejected (validate (update_tm t k (with_cellSize d)) ids)) /\
  (forall nm, In (k + 1, nm) (t_matrices t) -> (k = 0 \/ exists pm, In (k - 1, pm) (t_matrices t)) ->
     rejected (validate (delete_tm t k) ids)) /\
  (forall v vs, rejected (validate (update_tm t k (with_vmw (v :: vs))) ids)) /\
  (forall s, s <> 0 -> rejected (isQuadTree (shift_ids t s)) /\ rejected (validate (shift_ids t s) ids)) /\
  ((2 <= length (t_matrices t))%nat ->
     rejected (isQuadTree (delete_tm t 0)) /\ rejected (validate (delete_tm t 0) ids)) /\
  (forall j, 0 < j -> j <= k ->
     rejected (isQuadTree (remove_below t j)) /\ rejected (validate (remove_below t j) ids)).
Proof. exact perturbation_rejected_lemma. Qed.
Print Assumptions C14_perturbation_rejected.

(** Acceptance => pixel size.  IsQuadTree does not ask for a 1x1 root, a power-of-two tile width or exact halving;
    with them (as hypotheses: root 1 tile wide, tile width 2^k, cell size of matrix z = root cell size / 2^z) the
    internal pixel size for tile matrix z, span of matrix 0 / 2^(z + k + 4), is cellSize(z) / 16. *)
Theorem C14_accept_pixel_size : forall t root m z k,
  find_tm 0 (t_matrices t) = Some root ->
  tm_matrixWidth root = 1 -> 0 <= k -> tm_tileWidth root = 2 ^ k ->
  0 <= z -> find_tm z (t_matrices t) = Some m ->
  (dq (tm_cellSize m) * pow2Q z == dq (tm_cellSize root))%Q ->
  level (tm_tileWidth root) z = z + k + 4 /\
  exists p, pixelSize t z = Some p /\
            (p == fst (matrixSizeTM root) / pow2Q (z + k + 4))%Q /\
            (p == dq (tm_cellSize m) / inject_Z 16)%Q.
Proof. exact accept_pixel_size_lemma. Qed.
Print Assumptions C14_accept_pixel_size.

(** Validation never yields the panic value -- under the hypotheses the proof forces: every matrix has a point of
    origin and the CRS is not a reference-system CRS (both hold for every decoded document / for the embedded sets),
    and the deepest requested id d satisfies 0 <= d and d + log2(root tile width) + 4 < 64 (the internal level fits
    a machine word).  Empty requests and ids outside the set are errors since the repair of F12. *)
Theorem C14_validate_total : forall t ids,
  origins_present (t_matrices t) ->
  (forall d r, t_crs t <> CrsRef d r) ->
  (forall root d, find_tm 0 (t_matrices t) = Some root -> max_list ids = Some d ->
     1 <= tm_tileWidth root /\ 0 <= d /\ d + Z.log2 (tm_tileWidth root) + 4 < 64) ->
  validate t ids <> VPanic.
Proof. exact validate_total_lemma. Qed.
Print Assumptions C14_validate_total.

(** For a DECODED document the first hypothesis and the tile width bound are automatic (every decoded tile matrix has a
    point of origin -- an array of exactly two numbers since the repair of F6c -- and a tile width >= 1): validation of
    a decoded set with a URI or WKT CRS never panics when the deepest requested id d has 0 <= d and
    d + log2(root tile width) + 4 < 64. *)
Theorem C14_validate_total_decoded : forall j t ids, decodeTMS j = Ok t ->
  (forall d r, t_crs t <> CrsRef d r) ->
  (forall root d, find_tm 0 (t_matrices t) = Some root -> max_list ids = Some d ->
     0 <= d /\ d + Z.log2 (tm_tileWidth root) + 4 < 64) ->
  validate t ids <> VPanic.
Proof. exact validate_total_decoded_lemma. Qed.
Print Assumptions C14_validate_total_decoded.

(** regression for F12 (repaired): on WebMercatorQuad an empty request and the ids 52, -13, 30 are errors, 24 is fine *)
Theorem C14_regression_F12 : exists t, decodeTMS gen_doc_WebMercatorQuad = Ok t /\
  validate t [] = Reject 12 /\ validate t [52] = Reject 13 /\ validate t [-13] = Reject 13 /\ validate t [30] = Reject 13 /\
  validate t [24] = Accept.
Proof. exact validate_ids_regression. Qed.
Print Assumptions C14_regression_F12.

(** regression for F22 (repaired): NetherlandsRDNewQuad with every tile matrix id lowered by one (ids -1 .. 15, tile matrix
    0 being the 2x2 one) is rejected by the model, by the regenerated IsQuadTree and by the validation for the requests
    [0] and [5], with the error number 4 = "tile matrix IDs should be a range with step 1 starting with 0"; so is every
    other renumbering of it.  (It used to be accepted: C14_example_before_F22.) *)
Theorem C14_regression_F22 : exists t,
  decodeTMS gen_doc_NetherlandsRDNewQuad = Ok t /\
  validate t [0] = Accept /\ validate t [5] = Accept /\
  map fst (sorted_matrices (shift_ids t (-1))) = [-1; 0; 1; 2; 3; 4; 5; 6; 7; 8; 9; 10; 11; 12; 13; 14; 15] /\
  isQuadTree (shift_ids t (-1)) = Reject 4 /\
  gen_isQuadTree (shift_ids t (-1)) = Reject 4 /\
  validate (shift_ids t (-1)) [0] = Reject 4 /\ validate (shift_ids t (-1)) [5] = Reject 4 /\
  nth_error gen_quadtree_checks 4 = Some "tile matrix IDs should be a range with step 1 starting with 0"%string /\
  (forall s, s <> 0 -> rejected (validate (shift_ids t s) [0])).
Proof. exact regression_F22_lemma. Qed.
Print Assumptions C14_regression_F22.

(** the level bound is needed for arbitrary records (outside the property's quantifier: built-in sets have at most
    25 levels): a 60-level quadtree is accepted up to id 51 and panics at 52 *)
Theorem C14_validate_total_level_bound_needed :
  isQuadTree deep_set = Accept /\ validate deep_set [51] = Accept /\ validate deep_set [52] = VPanic.
Proof. exact validate_level_bound_needed. Qed.
Print Assumptions C14_validate_total_level_bound_needed.

(** The built-in sets, by computation over the REGENERATED documents (finite domain: the 14 documents named in
    [builtin_names], every tile matrix of each): each decodes; the 7 of [builtin_accepted] are accepted for every
    one of their tile matrices and for all together, have a 1x1 root, tile width 256 at every level, matrix width
    2^z, cell sizes halving within relative 1e-7 ([Qclose], the precision of the documents is ~3e-8) and hence a
    pixel size within 1e-7 of cellSize(z)/16; the other 7 are rejected with an error whatever ids are requested. *)
Theorem C14_builtin_sets :
  map fst gen_tms_documents = builtin_names /\
  forall name doc, In (name, doc) gen_tms_documents ->
    exists t, decodeTMS doc = Ok t /\
      if existsb (String.eqb name) builtin_accepted
      then validate t (map fst (t_matrices t)) = Accept /\
           exists root, find_tm 0 (t_matrices t) = Some root /\
             tm_matrixWidth root = 1 /\ tm_matrixHeight root = 1 /\ tm_tileWidth root = 256 /\
             forall z m, In (z, m) (t_matrices t) ->
               validate t [z] = Accept /\ 0 <= z /\ tm_tileWidth m = 256 /\ tm_matrixWidth m = 2 ^ z /\
               Qclose (dq (tm_cellSize m) * pow2Q z) (dq (tm_cellSize root)) = true /\
               exists p, pixelSize t z = Some p /\ Qclose p (dq (tm_cellSize m) / inject_Z 16) = true
      else exists n, forall ids, validate t ids = Reject n.
Proof. exact builtin_sets_lemma. Qed.
Print Assumptions C14_builtin_sets.

(** ** Non-vacuity: concrete non-trivial states meet the hypotheses *)
Definition rd : outcome tms := decodeTMS gen_doc_NetherlandsRDNewQuad.

(** an accepted set with 17 matrices; matrix 5 has both neighbours; halving its matrix width, moving its origin by
    one unit, setting its cell size to 1.97 x the next one's are all rejected by the model, as the theorem says *)
Example C14_example_perturbation : exists t m,
  rd = Ok t /\ validate t [16] = Accept /\ In (5, m) (t_matrices t) /\ (2 <= length (t_matrices t))%nat /\
  validate (update_tm t 5 (with_matrixWidth 16)) [16] = Reject 0 /\
  validate (update_tm t 5 (with_origin (Dec (-28540092) (-2), Dec 90340192 (-2)))) [16] = Reject 5 /\
  validate (update_tm t 5 (with_cellSize (Dec 1058 (-1)))) [16] = Reject 9 /\
  validate (delete_tm t 5) [16] = Reject 4 /\ validate (delete_tm t 0) [16] = Reject 4 /\
  (exists n, validate (shift_ids t 3) [16] = Reject n) /\ (exists n, validate (remove_below t 4) [16] = Reject n) /\
  validate (delete_tm t 16) [15] = Accept.
Proof.
  unfold rd. eexists. eexists. split; [vm_compute; reflexivity|].
  split; [vm_compute; reflexivity|]. split; [vm_compute; do 5 right; left; reflexivity|].
  split; [vm_compute; repeat constructor|].
  split; [vm_compute; reflexivity|]. split; [vm_compute; reflexivity|]. split; [vm_compute; reflexivity|].
  split; [vm_compute; reflexivity|]. split; [vm_compute; reflexivity|].
  split; [eexists; vm_compute; reflexivity|]. split; [eexists; vm_compute; reflexivity|]. vm_compute; reflexivity.
Qed.

(** with the reading of IsQuadTree BEFORE the repair of F22 ([validate_before_F22] of Tms/ProofsC14d.v: the same
    decision procedure without the test of the first id) the renumbered NetherlandsRDNewQuad was accepted for the
    requests [0] and [5]; its tile matrix 0 is 2x2 and the pixel size for tile matrix 0 is its cell size / 8, not / 16 *)
Example C14_example_before_F22 : exists t m0 p,
  decodeTMS gen_doc_NetherlandsRDNewQuad = Ok t /\
  validate_before_F22 (shift_ids t (-1)) [0] = Accept /\ validate_before_F22 (shift_ids t (-1)) [5] = Accept /\
  find_tm 0 (t_matrices (shift_ids t (-1))) = Some m0 /\
  tm_matrixWidth m0 = 2 /\ tm_matrixHeight m0 = 2 /\
  pixelSize (shift_ids t (-1)) 0 = Some p /\
  (p == dq (tm_cellSize m0) / inject_Z 8)%Q /\ ~ (p == dq (tm_cellSize m0) / inject_Z 16)%Q.
Proof. exact before_F22_lemma. Qed.

(** the hypotheses of the pixel size theorem and of the totality theorem hold for NetherlandsRDNewQuad, matrix 14, k = 8 *)
Example C14_example_pixel_size : exists t root m,
  rd = Ok t /\ find_tm 0 (t_matrices t) = Some root /\ tm_matrixWidth root = 1 /\ tm_tileWidth root = 2 ^ 8 /\
  find_tm 14 (t_matrices t) = Some m /\ (dq (tm_cellSize m) * pow2Q 14 == dq (tm_cellSize root))%Q /\
  (origins_present (t_matrices t) /\ forall d r, t_crs t <> CrsRef d r).
Proof.
  unfold rd. eexists. eexists. eexists.
  split; [vm_compute; reflexivity|]. split; [vm_compute; reflexivity|].
  split; [vm_compute; reflexivity|]. split; [vm_compute; reflexivity|].
  split; [vm_compute; reflexivity|]. split; [vm_compute; reflexivity|].
  split.
  - intros k m HI. vm_compute in HI.
    repeat (destruct HI as [HI|HI]; [inversion HI; subst; discriminate|]). contradiction.
  - intros d r. vm_compute. discriminate.
Qed.

(** ** Source tie: pointindex.IsQuadTree itself *)
From Texel Require Import Tms.ProofsGenQuadTree.

(** REGENERATED from /repo's pointindex/pointindex.go on every run (gen/QuadTreeGen.v, translator/quadtree.go), statement
    by statement: the body of IsQuadTree -- the declarations of previousTMID / previousTM, the range loop and its state,
    the lookup of the tile matrix, every check (operands, operators, order; among them, since the repair of F22,
    `previousTM == nil && tmID != 0` -- undoing that repair changes [gen_isQuadTree] and breaks this theorem), every
    return and the number of its error (errors.New with the n-th DISTINCT message literal in source order = Reject n: the
    message "tile matrix IDs should be a range with step 1 starting with 0" is returned from two places; the error of
    strconv.Atoi = Reject 10), the test previousTM != nil,
    every pointer dereference (nil = the panic verdict), previousTMID+1 in 64-bit arithmetic, 2*MatrixHeight in uint
    arithmetic, and the two assignments that end the body.
    STAYS MODELLED (the translator maps it to a function of the model only after checking the exact shape of the call in
    the AST; listed at the top of gen/QuadTreeGen.v and Tms/ProofsGenQuadTree.v, definitions in Tms/GoTms.v):
    maps.Keys + slices.Sort + range + map lookup = the entries of [sorted_matrices]; strconv.Atoi = [parse_int];
    float64 division + mathhelp.FBetweenInc (its body checked) = [ratio_ok] with the regenerated literals; != on
    [2]float64 / CornerOfOrigin = [point_feqb] / [corner_eqb]; the fields of tms20.TileMatrix (names and Go types checked
    against tms20/tms20.go) = the projections of [tileMatrix].
    The equality holds for EVERY record, without hypotheses. *)
Theorem C14_source_tie_isQuadTree : forall t, gen_isQuadTree t = isQuadTree t.
Proof. exact gen_isQuadTree_eq. Qed.
Print Assumptions C14_source_tie_isQuadTree.

(** the numbering of the verdicts: the distinct messages of the errors.New calls that the translation numbered are the
    regenerated list [gen_quadtree_checks] the model's [Reject n] refers to, and the Atoi error (10) is the first number
    after them *)
Theorem C14_source_tie_isQuadTree_checks :
  gen_isQuadTree_errors = gen_quadtree_checks /\ List.length gen_isQuadTree_errors = atoi_error.
Proof. exact gen_isQuadTree_errors_eq. Qed.
Print Assumptions C14_source_tie_isQuadTree_checks.

(** the generated code runs: NetherlandsRDNewQuad (17 matrices) is accepted; a cell size of 1.97 x the next one's at
    matrix 5, a missing matrix 5, a nil point of origin at matrix 5 give error 9, error 4 and the panic *)
Example C14_example_gen_isQuadTree : exists t,
  rd = Ok t /\ gen_isQuadTree t = Accept /\
  gen_isQuadTree (update_tm t 5 (with_cellSize (Dec 1058 (-1)))) = Reject 9 /\
  gen_isQuadTree (delete_tm t 5) = Reject 4 /\
  gen_isQuadTree (update_tm t 5 (fun m => MkTM (tm_id m) (tm_title m) (tm_description m) (tm_keywords m)
     (tm_scaleDenominator m) (tm_cellSize m) (tm_corner m) None (tm_tileWidth m) (tm_tileHeight m) (tm_matrixWidth m)
     (tm_matrixHeight m) (tm_vmw m))) = VPanic.
Proof.
  unfold rd. eexists. split; [vm_compute; reflexivity|].
  split; [vm_compute; reflexivity|]. split; [vm_compute; reflexivity|]. split; vm_compute; reflexivity.
Qed.
