(** * C07 — deterministic and independent of how the polygon is written down.

    The model [snapPolygon] is a Gallina function, so "same input, same output" is [C07_deterministic];
    the ordered maps of the Go code (orderedmap, sortedmap, sorted keys) are modelled as ordered lists and
    checked against the implementation by the correspondence cases.  The one place where the Go code
    iterates an unordered map — over the requested levels — is covered by [C07_level_order_irrelevant]
    (any order of the levels gives the same keyed results) together with C08's [levels_keyed].
    Ring direction: [C07_ring_direction_irrelevant] (valid polygons have rings of >= 3 vertices and
    non-zero area; the float winding sign of the input is the envelope).  Reverse flag:
    [C07_reverse_flag_only_reverses] per level and [C07_reverse_flag_snapPolygon] for the keyed result. *)
From Coq Require Import ZArith List Bool Permutation.
From Texel Require Import Prelude.Base Index.Model Snap.Model Snap.ProofsBasics Snap.ProofsLevelThms
  Snap.ProofsLevelC07.
Import ListNotations.
Open Scope Z_scope.

Theorem C07_deterministic : forall g P levels cfg r1 r2,
  snapPolygon g P levels cfg = r1 -> snapPolygon g P levels cfg = r2 -> r1 = r2.
Proof. exact snap_functional. Qed.
Print Assumptions C07_deterministic.

(** any order of the requested levels: the keyed results are a permutation of each other *)
Theorem C07_level_order_irrelevant : forall g P levels levels' cfg r, Permutation levels levels' ->
  snapPolygon g P levels cfg = Ok r ->
  exists r', snapPolygon g P levels' cfg = Ok r' /\ Permutation r r'.
Proof. exact level_order_irrelevant. Qed.
Print Assumptions C07_level_order_irrelevant.

(** and whether snapping panics does not depend on the order (which panic is raised first may) *)
Theorem C07_level_order_irrelevant_err : forall g P levels levels' cfg, Permutation levels levels' ->
  is_ok (snapPolygon g P levels cfg) = is_ok (snapPolygon g P levels' cfg).
Proof. exact level_order_irrelevant_err. Qed.
Print Assumptions C07_level_order_irrelevant_err.

(** giving ANY subset of the rings in the opposite direction returns the identical result *)
Theorem C07_ring_direction_irrelevant : forall g P P' levels cfg,
  Forall2 (fun r' r => r' = r \/ r' = rev r) P' P ->
  Forall (fun r : ring => (3 <= length r)%nat /\ xprod r <> 0) P ->
  snapPolygon g P' levels cfg = snapPolygon g P levels cfg.
Proof. exact ring_direction_irrelevant. Qed.
Print Assumptions C07_ring_direction_irrelevant.

(** the basic fact behind it: the cross-product sum changes sign under reversal *)
Theorem C07_xprod_rev : forall r, xprod (rev r) = - xprod r.
Proof. exact xprod_rev. Qed.
Print Assumptions C07_xprod_rev.

(** requesting reversed winding order changes nothing except the direction of every ring of the
    polygon part ([poly_ok 1]: shell first, >= 3 vertices each); collapsed parts are unchanged *)
Theorem C07_reverse_flag_only_reverses : forall g hots P cfg L,
  match snapLevel g hots P (setRev cfg false) L with
  | Err e => snapLevel g hots P (setRev cfg true) L = Err e
  | Ok res =>
      exists polys pls, res = levelOut polys pls /\
        snapLevel g hots P (setRev cfg true) L = Ok (levelOut (map (map (@rev pt)) polys) pls) /\
        Forall (poly_ok 1) polys /\ Forall pl_ok pls
  end.
Proof. exact reverse_flag_only_reverses. Qed.
Print Assumptions C07_reverse_flag_only_reverses.

Theorem C07_reverse_flag_snapPolygon : forall g P levels cfg r,
  snapPolygon g P levels (setRev cfg false) = Ok r ->
  exists r', snapPolygon g P levels (setRev cfg true) = Ok r' /\
             Forall2 (fun kv kv' => fst kv = fst kv' /\ rev_related (snd kv) (snd kv')) r r'.
Proof. exact snap_reverse_flag. Qed.
Print Assumptions C07_reverse_flag_snapPolygon.

(** ** non-vacuity: a shell with a spike and a hole on a 32 x 32 pixel grid (pixel size 2);
       at level 3 the spike collapses to a line, at level 1 the hole collapses to a point *)
Definition exG : grid := mkGrid (mkExtent 0 0 64 64) 2 5.
Definition exP : list ring :=
  [[(2,2);(40,2);(40,40);(21,40);(20,60);(19,40);(2,40)]; [(10,10);(10,20);(20,20);(20,10)]].
Definition exP_rev : list ring :=
  [rev [(2,2);(40,2);(40,40);(21,40);(20,60);(19,40);(2,40)]; [(10,10);(10,20);(20,20);(20,10)]].
Definition exCfg (rv : bool) : config := mkConfig true false rv.

Example C07_ring_direction_hyp :
  Forall2 (fun r' r => r' = r \/ r' = rev r) exP_rev exP /\
  Forall (fun r : ring => (3 <= length r)%nat /\ xprod r <> 0) exP.
Proof.
  split.
  - constructor; [right; reflexivity | constructor; [left; reflexivity | constructor]].
  - repeat constructor; vm_compute; discriminate.
Qed.

Example C07_ring_direction_example :
  snapPolygon exG exP_rev [3; 1]%nat (exCfg false) =
    Ok [(3%nat, [[[(4,4);(44,4);(44,44);(20,44);(4,44)]; [(12,12);(12,20);(20,20);(20,12)]]; [[(20,44);(20,60)]]]);
        (1%nat, [[[(16,16);(48,16);(48,48);(16,48)]]; [[(16,16)]]])] /\
  snapPolygon exG exP [3; 1]%nat (exCfg false) = snapPolygon exG exP_rev [3; 1]%nat (exCfg false).
Proof. vm_compute. split; reflexivity. Qed.

Example C07_level_order_example :
  snapPolygon exG exP [1; 3]%nat (exCfg false) =
    Ok [(1%nat, [[[(16,16);(48,16);(48,48);(16,48)]]; [[(16,16)]]]);
        (3%nat, [[[(4,4);(44,4);(44,44);(20,44);(4,44)]; [(12,12);(12,20);(20,20);(20,12)]]; [[(20,44);(20,60)]]])].
Proof. vm_compute. reflexivity. Qed.

Example C07_reverse_flag_example :
  snapPolygon exG exP [3]%nat (setRev (exCfg false) true) =
    Ok [(3%nat, [[[(4,44);(20,44);(44,44);(44,4);(4,4)]; [(20,12);(20,20);(12,20);(12,12)]]; [[(20,44);(20,60)]]])].
Proof. vm_compute. reflexivity. Qed.

From Texel Require Import Snap.ModelInterleaved Snap.ProofsInterleaved.

(** ** Go's randomised map iteration.  In the interleaved model of addPointsAndSnap ([addPointsAndSnapI],
    Snap/ModelInterleaved.v) every range-over-a-map statement takes its order from [ord], separately for every
    execution of the statement.  Any two such families of orders give the same result, and fail together. *)
Theorem C07_level_iteration_order_irrelevant : forall ord1 ord2 g hots cfg P levels,
  (forall st l, Permutation (ord1 st l) l) -> (forall st l, Permutation (ord2 st l) l) -> NoDup levels ->
  (forall rs, addPointsAndSnapI ord1 g hots cfg P levels = Ok rs <-> addPointsAndSnapI ord2 g hots cfg P levels = Ok rs) /\
  is_ok (addPointsAndSnapI ord1 g hots cfg P levels) = is_ok (addPointsAndSnapI ord2 g hots cfg P levels).
Proof. exact iteration_order_irrelevant. Qed.
Print Assumptions C07_level_iteration_order_irrelevant.

Example C07_iteration_order_example :
  addPointsAndSnapI (fun _ l => rev l) exG (hotLevels exG [(1,1);(20,1);(20,20);(10,20);(10,30);(9,20);(1,20);(5,5);(5,10);(10,10);(10,5)])
                    (exCfg false) exP [3; 1]%nat
  = addPointsAndSnapI (fun _ l => l) exG (hotLevels exG [(1,1);(20,1);(20,20);(10,20);(10,30);(9,20);(1,20);(5,5);(5,10);(10,10);(10,5)])
                    (exCfg false) exP [3; 1]%nat.
Proof. vm_compute. reflexivity. Qed.
