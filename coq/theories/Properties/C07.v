(** placeholder until the C07 theorems are in place *)
From Texel Require Import Prelude.Base.
