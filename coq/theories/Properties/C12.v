(** * C12 — the target GeoPackage is complete and consistent for any page size.

    The theorems are about the executable model Gpkg/Model.v of processing/gpkg/gpkg.go
    (WriteFeatures / writeFeatures / CreateTables / insertSQL), for EVERY stream of features and EVERY
    page size p > 0 — induction over the stream, no bound.  A stream is a list of features; a feature
    has arbitrary attribute values (NULL, integer, real, text) and a geometry of any type, possibly
    empty; the table has any columns, the geometry column at ANY position.

    Hypotheses that occur below and what they mean on the code:
    - [find_tab (t_name t) (db_tabs d) = Some ts]: the table was registered by CreateTables;
    - [has_col (t_gcol t) (t_cols t)]: the geometry column is a column of the table;
    - [fits t f]: one value per non-geometry column and a geometry gpkg.NewBinary can encode
      (otherwise the code stops with log.Fatalf: model value [Err ArgCount] / [Err UnknownGeometry]).

    MODELLED, not verified (DESIGN.md 7; held to the code by the correspondence Corr/C12.v, which reads
    the written files back): SQLite, go-sqlite3, the GeoPackage library (Open, UpdateSRS,
    AddGeometryTable + rtree triggers, UpdateGeometryExtent, NewBinary) and the verif stand-in for
    SpatiaLite's ST_* functions; float64 coordinates are integers here. *)
From Coq Require Import ZArith NArith List Bool String.
From Texel Require Import Gpkg.Model Gpkg.Proofs.
Import ListNotations.
Open Scope Z_scope.

(** exactly one row per feature handed to the writer, in order, after the rows already there, whatever
    the relation between the feature count and the page size *)
Theorem C12_rows_all_in_order : forall t p fs d d' ts ts',
  0 < p -> find_tab (t_name t) (db_tabs d) = Some ts -> has_col (t_gcol t) (t_cols t) = true ->
  Forall (fun f => fits t f = true) fs -> write_features p t d fs = Ok d' ->
  find_tab (t_name t) (db_tabs d') = Some ts' ->
  exists rs, ts_rows ts' = ts_rows ts ++ rs /\ map (row_of t) fs = map Some rs /\
             List.length rs = List.length fs.
Proof. exact rows_all_in_order. Qed.
Print Assumptions C12_rows_all_in_order.

(** what a stored row is: one cell per table column, the attribute values in order, the geometry in
    the geometry column — also when that column is not the last one *)
Theorem C12_row_layout : forall cols gcol attrs g r,
  weave cols gcol attrs g = Some r ->
  row_attrs r = attrs /\ List.length r = List.length cols /\
  row_geoms r = repeat g (List.length (filter (fun c => String.eqb (c_name c) gcol) cols)).
Proof. exact weave_spec. Qed.
Print Assumptions C12_row_layout.

Theorem C12_geometry_cell_position : forall cols gcol attrs g r i c,
  weave cols gcol attrs g = Some r -> nth_error cols i = Some c -> String.eqb (c_name c) gcol = true ->
  nth_error r i = Some (CGeom g).
Proof. exact weave_geom_position. Qed.
Print Assumptions C12_geometry_cell_position.

(** n / p full pages and one more transaction when the channel closes — an EMPTY one when n is a
    multiple of p (including n = 0) *)
Theorem C12_transactions_count : forall t p fs d d' ts ts',
  0 < p -> find_tab (t_name t) (db_tabs d) = Some ts -> has_col (t_gcol t) (t_cols t) = true ->
  Forall (fun f => fits t f = true) fs -> write_features p t d fs = Ok d' ->
  find_tab (t_name t) (db_tabs d') = Some ts' ->
  Z.of_N (db_txs d') = Z.of_N (db_txs d) + Z.of_nat (List.length fs) / p + 1.
Proof. exact transactions_count. Qed.
Print Assumptions C12_transactions_count.

(** the recorded extent is the bounding box of all coordinates written so far: it contains every
    point, every bound is attained, and it is NULL exactly when there is no coordinate *)
Theorem C12_extent_is_bbox : forall t p fs d d' ts ts' pts0,
  0 < p -> find_tab (t_name t) (db_tabs d) = Some ts -> has_col (t_gcol t) (t_cols t) = true ->
  Forall (fun f => fits t f = true) fs -> write_features p t d fs = Ok d' ->
  find_tab (t_name t) (db_tabs d') = Some ts' ->
  ts_extent ts = pts_ext pts0 ->
  ts_extent ts' = pts_ext (pts0 ++ all_pts fs) /\
  (forall e, ts_extent ts' = Some e -> is_bbox e (pts0 ++ all_pts fs)) /\
  (ts_extent ts' = None <-> pts0 ++ all_pts fs = []).
Proof. exact extent_is_bbox. Qed.
Print Assumptions C12_extent_is_bbox.

(** why paging cannot matter: bounding boxes are a commutative idempotent monoid under the merge that
    UpdateGeometryExtent performs, and merging the extents of the pages of ANY split equals the box of all *)
Theorem C12_bbox_monoid :
  (forall a, merge_extent None a = a) /\ (forall a, merge_extent a None = a) /\
  (forall a b c, merge_extent (merge_extent a b) c = merge_extent a (merge_extent b c)) /\
  (forall a b, merge_extent a b = merge_extent b a) /\ (forall a, merge_extent a a = a).
Proof. exact bbox_monoid. Qed.
Print Assumptions C12_bbox_monoid.

Theorem C12_pages_merge : forall pages old,
  fold_left (fun acc pg => merge_extent acc (page_extent pg)) pages old =
  merge_extent old (pts_ext (all_pts (List.concat pages))).
Proof. exact pages_merge. Qed.
Print Assumptions C12_pages_merge.

(** one rtree entry per row with a non-empty geometry: row position and bounding box of that geometry *)
Theorem C12_rtree_count : forall t p fs d d' ts ts',
  0 < p -> find_tab (t_name t) (db_tabs d) = Some ts -> has_col (t_gcol t) (t_cols t) = true ->
  Forall (fun f => fits t f = true) fs -> write_features p t d fs = Ok d' ->
  find_tab (t_name t) (db_tabs d') = Some ts' ->
  ts_rtree ts' = ts_rtree ts ++ rtree_of (List.length (ts_rows ts)) fs /\
  List.length (ts_rtree ts') = (List.length (ts_rtree ts) + nonempty_count fs)%nat /\
  (forall i e, In (i, e) (rtree_of (List.length (ts_rows ts)) fs) ->
     exists k f, nth_error fs k = Some f /\ i = N.of_nat (List.length (ts_rows ts) + k) /\
                 pts_ext (g_pts (f_geom f)) = Some e).
Proof. exact rtree_count. Qed.
Print Assumptions C12_rtree_count.

(** CreateTables on a new file registers every source table with the source's name, columns, geometry
    column, geometry type and srs id, and the srs ROW of the target is the source's for EVERY srs id —
    also the ids the library pre-seeds (after fix e2006e7).  The hypothesis on srs rows says that the
    source's gpkg_spatial_ref_sys has one row per id (srs_id is its primary key). *)
Theorem C12_schema_copied : forall tl,
  Forall table_ok tl -> NoDup (map t_name tl) ->
  (forall t t', In t tl -> In t' tl -> s_id (t_srs t) = s_id (t_srs t') -> t_srs t = t_srs t') ->
  exists d, create_tables empty_db tl = Ok d /\
    map ts_desc (db_tabs d) = map desc_of tl /\
    (forall t, In t tl ->
       find_tab (t_name t) (db_tabs d) = Some (fresh_tab t) /\
       find_srs (s_id (t_srs t)) (db_srs d) = Some (t_srs t)).
Proof. exact create_tables_fresh. Qed.
Print Assumptions C12_schema_copied.

(** what the code does without that hypothesis: per srs id the row of the LAST table with that id stays
    (each table's row overwrites), an id no table uses keeps what the file had *)
Theorem C12_srs_last_table_wins : forall tl d d' id,
  Forall table_ok tl -> NoDup (map t_name tl) ->
  (forall t, In t tl -> ~ In (t_name t) (map tab_name (db_tabs d))) ->
  create_tables d tl = Ok d' ->
  find_srs id (db_srs d') =
  match find_srs id (rev (map t_srs tl)) with Some s => Some s | None => find_srs id (db_srs d) end.
Proof. exact create_tables_srs. Qed.
Print Assumptions C12_srs_last_table_wins.

(** [desc_of] is the source's description itself (GeoPackage tables have a single-column primary key) *)
Theorem C12_schema_description_faithful : forall t, Forall (fun c => (c_pk c <= 1)%N) (t_cols t) ->
  desc_of t = MkDesc (t_name t) (t_cols t) (t_gcol t) (t_gtype t) (s_id (t_srs t)).
Proof. exact desc_of_faithful. Qed.
Print Assumptions C12_schema_description_faithful.

(** writing never changes a description, the srs rows, or another table *)
Theorem C12_schema_kept : forall t p fs d d' ts ts',
  0 < p -> find_tab (t_name t) (db_tabs d) = Some ts -> has_col (t_gcol t) (t_cols t) = true ->
  Forall (fun f => fits t f = true) fs -> write_features p t d fs = Ok d' ->
  find_tab (t_name t) (db_tabs d') = Some ts' ->
  ts_desc ts' = ts_desc ts /\ db_srs d' = db_srs d /\
  map tab_name (db_tabs d') = map tab_name (db_tabs d) /\
  forall m, m <> t_name t -> find_tab m (db_tabs d') = find_tab m (db_tabs d).
Proof. exact schema_kept. Qed.
Print Assumptions C12_schema_kept.

(** the whole property on a new file, no side condition left open: the run succeeds and the file has
    the rows, the extent, the rtree entries, the schema and the transaction count *)
Theorem C12_fresh_file : forall tl t p fs,
  Forall table_ok tl -> NoDup (map t_name tl) ->
  (forall t1 t2, In t1 tl -> In t2 tl -> s_id (t_srs t1) = s_id (t_srs t2) -> t_srs t1 = t_srs t2) ->
  In t tl -> 0 < p -> Forall (fun f => fits t f = true) fs ->
  exists d0 d' ts' rs,
    create_tables empty_db tl = Ok d0 /\ write_features p t d0 fs = Ok d' /\
    find_tab (t_name t) (db_tabs d') = Some ts' /\
    ts_rows ts' = rs /\ map (row_of t) fs = map Some rs /\ List.length rs = List.length fs /\
    ts_extent ts' = pts_ext (all_pts fs) /\
    ts_rtree ts' = rtree_of 0 fs /\ List.length (ts_rtree ts') = nonempty_count fs /\
    ts_desc ts' = desc_of t /\ map ts_desc (db_tabs d') = map desc_of tl /\
    find_srs (s_id (t_srs t)) (db_srs d') = Some (t_srs t) /\
    Z.of_N (db_txs d') = Z.of_nat (List.length fs) / p + 1.
Proof. exact fresh_file_spec. Qed.
Print Assumptions C12_fresh_file.

(** page size 0 is excluded by the property; the model says what the code does: the first feature
    makes [len(features) % pagesize] panic *)
Theorem C12_pagesize_zero : forall t d f fs, write_features 0 t d (f :: fs) = Err DivZero.
Proof. exact pagesize_zero. Qed.
Print Assumptions C12_pagesize_zero.

(** ** Non-vacuity: a concrete table (geometry column in the MIDDLE), a concrete stream with NULLs, an
    empty polygon and an empty point; the hypotheses hold and the conclusions compute. *)
Definition ex_srs : srs := MkSrs "Amersfoort / RD New" 28992 "EPSG" 28992 12345 "rd".
Definition ex_table : table :=
  MkTable "t1" [MkCol "fid" "INTEGER" true 1; MkCol "a" "INTEGER" false 0; MkCol "geom" "POLYGON" false 0;
                MkCol "b" "TEXT" false 0; MkCol "c" "REAL" false 0] "geom" 3 ex_srs.
Definition ex_geom (k : Z) : geom := MkGeom 3 [(k, 0); (k + 10, 0); (k + 10, 5 - k)] (Z.to_N k).
Definition ex_stream : list feature := [
  MkFeature [VInt 1; VInt 7; VText 1; VReal 12] (ex_geom 0);
  MkFeature [VInt 2; VNull; VNull; VNull] (MkGeom 3 [] 100);          (* POLYGON EMPTY *)
  MkFeature [VInt 3; VInt (-7); VText 2; VReal (-3)] (ex_geom 20);
  MkFeature [VInt 4; VInt 0; VText 3; VNull] (MkGeom 1 [] 101);        (* POINT EMPTY *)
  MkFeature [VInt 5; VInt 0; VText 3; VNull] (MkGeom 1 [(-4, 40)] 102);
  MkFeature [VInt 6; VInt 1; VNull; VReal 8] (ex_geom 3);
  MkFeature [VInt 7; VInt 1; VNull; VReal 8] (ex_geom 4)].

Example C12_example_hypotheses :
  Forall table_ok [ex_table] /\ NoDup (map t_name [ex_table]) /\ In ex_table [ex_table] /\
  Forall (fun f => fits ex_table f = true) ex_stream.
Proof.
  split; [repeat constructor|]. split; [repeat constructor; intros []|]. split; [now left|].
  repeat constructor.
Qed.

Definition ex_run (p : Z) : option (list row * option ext * list (N * ext) * N * N) :=
  match create_tables empty_db [ex_table] with
  | Ok d0 => match write_features p ex_table d0 ex_stream with
             | Ok d' => match find_tab "t1" (db_tabs d') with
                        | Some ts => Some (ts_rows ts, ts_extent ts, ts_rtree ts, db_txs d', db_writes d')
                        | None => None
                        end
             | Err _ => None
             end
  | Err _ => None
  end.

(** 7 features: p = 3 -> 7/3 + 1 = 3 transactions; p = 7 -> 2 transactions, the last one empty;
    p = 1 -> 8; p = 100 -> 1.  Same rows, extent (-4,-15,30,40) and 5 rtree entries each time. *)
Example C12_example_runs :
  (forall p, In p [1; 3; 7; 100] ->
     exists rows rt txs wr, ex_run p = Some (rows, Some (MkExt (-4) (-15) 30 40), rt, txs, wr) /\
       List.length rows = 7%nat /\ map fst rt = [0; 2; 4; 5; 6]%N /\ Z.of_N txs = 7 / p + 1) /\
  (exists x, ex_run 7 = Some (x, 2%N, 2%N)) /\ (exists x, ex_run 3 = Some (x, 3%N, 5%N)) /\
  nth_error (match ex_run 3 with Some (rows, _, _, _, _) => rows | None => [] end) 0 =
    Some [CVal (VInt 1); CVal (VInt 7); CGeom (ex_geom 0); CVal (VText 1); CVal (VReal 12)].
Proof.
  split; [|split; [|split]].
  - intros p [<-|[<-|[<-|[<-|[]]]]]; vm_compute; repeat eexists.
  - vm_compute; eexists; reflexivity.
  - vm_compute; eexists; reflexivity.
  - vm_compute; reflexivity.
Qed.

(** F9 regression (fixed by 16e3a13): an empty point in a page no longer resets the recorded extent *)
Example C12_empty_point_regression :
  forall p, In p [1; 2; 3] -> exists x rt txs wr, ex_run p = Some (x, Some (MkExt (-4) (-15) 30 40), rt, txs, wr).
Proof. intros p [<-|[<-|[<-|[]]]]; vm_compute; repeat eexists. Qed.

(** F10 regression (fixed by e2006e7): a source table in srs 3857 with the row another writer gives that
    id; the library pre-seeds 3857 with its own row, the target now holds the SOURCE's row *)
Example C12_regression_F10 :
  table_ok witness_table /\ find_srs 3857 known_srs <> Some witness_srs /\
  exists d, create_tables empty_db [witness_table] = Ok d /\
    find_srs (s_id (t_srs witness_table)) (db_srs d) = Some witness_srs /\
    List.length (db_srs d) = 4%nat.
Proof. split; [split; reflexivity|]. split; [discriminate|]. eexists. repeat split. Qed.
