(** * C12 — the target GeoPackage is complete and consistent for any page size.

    The theorems are about the executable model Gpkg/Model.v of processing/gpkg/gpkg.go
    (WriteFeatures / writeFeatures / CreateTables / insertSQL), for EVERY stream of features and EVERY
    page size p > 0 — induction over the stream, no bound.  A stream is a list of features; a feature
    has arbitrary attribute values (NULL, integer, real, text, blob, date/time; a Go bool read from a BOOLEAN
    column is the integer 1 / 0 the driver binds it as) and a geometry of any type, possibly empty; the table
    has any columns with ANY names (they are written as quoted identifiers), the geometry column at ANY position.

    Hypotheses that occur below and what they mean on the code:
    - [find_tab (t_name t) (db_tabs d) = Some ts]: the table was registered by CreateTables;
    - [has_col (t_gcol t) (t_cols t)]: the geometry column is a column of the table;
    - [fits t f]: one value per non-geometry column and a geometry gpkg.NewBinary can encode
      (otherwise the code stops with log.Fatalf: model value [Err ArgCount] / [Err UnknownGeometry]).

    MODELLED, not verified (DESIGN.md 7; held to the code by the correspondence Corr/C12.v, which reads
    the written files back): SQLite, go-sqlite3, the GeoPackage library (Open, UpdateSRS,
    AddGeometryTable + rtree triggers, UpdateGeometryExtent, NewBinary) and the verif stand-in for
    SpatiaLite's ST_* functions; float64 coordinates are integers here. *)
From Coq Require Import ZArith NArith List Bool String.
From Texel Require Import Gpkg.Model Gpkg.Proofs.
Import ListNotations.
Open Scope Z_scope.

(** exactly one row per feature handed to the writer, in order, after the rows already there, whatever
    the relation between the feature count and the page size *)
Theorem C12_rows_all_in_order : forall t p fs d d' ts ts',
  0 < p -> find_tab (t_name t) (db_tabs d) = Some ts -> has_col (t_gcol t) (t_cols t) = true ->
  Forall (fun f => fits t f = true) fs -> write_features p t d fs = Ok d' ->
  find_tab (t_name t) (db_tabs d') = Some ts' ->
  exists rs, ts_rows ts' = ts_rows ts ++ rs /\ map (row_of t) fs = map Some rs /\
             List.length rs = List.length fs.
Proof. exact rows_all_in_order. Qed.
Print Assumptions C12_rows_all_in_order.

(** what a stored row is: one cell per table column, the attribute values in order, the geometry in
    the geometry column — also when that column is not the last one *)
Theorem C12_row_layout : forall cols gcol attrs g r,
  weave cols gcol attrs g = Some r ->
  row_attrs r = attrs /\ List.length r = List.length cols /\
  row_geoms r = repeat g (List.length (filter (fun c => String.eqb (c_name c) gcol) cols)).
Proof. exact weave_spec. Qed.
Print Assumptions C12_row_layout.

Theorem C12_geometry_cell_position : forall cols gcol attrs g r i c,
  weave cols gcol attrs g = Some r -> nth_error cols i = Some c -> String.eqb (c_name c) gcol = true ->
  nth_error r i = Some (CGeom g).
Proof. exact weave_geom_position. Qed.
Print Assumptions C12_geometry_cell_position.

(** n / p full pages and one more transaction when the channel closes — an EMPTY one when n is a
    multiple of p (including n = 0) *)
Theorem C12_transactions_count : forall t p fs d d' ts ts',
  0 < p -> find_tab (t_name t) (db_tabs d) = Some ts -> has_col (t_gcol t) (t_cols t) = true ->
  Forall (fun f => fits t f = true) fs -> write_features p t d fs = Ok d' ->
  find_tab (t_name t) (db_tabs d') = Some ts' ->
  Z.of_N (db_txs d') = Z.of_N (db_txs d) + Z.of_nat (List.length fs) / p + 1.
Proof. exact transactions_count. Qed.
Print Assumptions C12_transactions_count.

(** the recorded extent is the bounding box of all coordinates written so far: it contains every
    point, every bound is attained, and it is NULL exactly when there is no coordinate *)
Theorem C12_extent_is_bbox : forall t p fs d d' ts ts' pts0,
  0 < p -> find_tab (t_name t) (db_tabs d) = Some ts -> has_col (t_gcol t) (t_cols t) = true ->
  Forall (fun f => fits t f = true) fs -> write_features p t d fs = Ok d' ->
  find_tab (t_name t) (db_tabs d') = Some ts' ->
  ts_extent ts = pts_ext pts0 ->
  ts_extent ts' = pts_ext (pts0 ++ all_pts fs) /\
  (forall e, ts_extent ts' = Some e -> is_bbox e (pts0 ++ all_pts fs)) /\
  (ts_extent ts' = None <-> pts0 ++ all_pts fs = []).
Proof. exact extent_is_bbox. Qed.
Print Assumptions C12_extent_is_bbox.

(** why paging cannot matter: bounding boxes are a commutative idempotent monoid under the merge that
    UpdateGeometryExtent performs, and merging the extents of the pages of ANY split equals the box of all *)
Theorem C12_bbox_monoid :
  (forall a, merge_extent None a = a) /\ (forall a, merge_extent a None = a) /\
  (forall a b c, merge_extent (merge_extent a b) c = merge_extent a (merge_extent b c)) /\
  (forall a b, merge_extent a b = merge_extent b a) /\ (forall a, merge_extent a a = a).
Proof. exact bbox_monoid. Qed.
Print Assumptions C12_bbox_monoid.

Theorem C12_pages_merge : forall pages old,
  fold_left (fun acc pg => merge_extent acc (page_extent pg)) pages old =
  merge_extent old (pts_ext (all_pts (List.concat pages))).
Proof. exact pages_merge. Qed.
Print Assumptions C12_pages_merge.

(** one rtree entry per row with a non-empty geometry: row position and bounding box of that geometry *)
Theorem C12_rtree_count : forall t p fs d d' ts ts',
  0 < p -> find_tab (t_name t) (db_tabs d) = Some ts -> has_col (t_gcol t) (t_cols t) = true ->
  Forall (fun f => fits t f = true) fs -> write_features p t d fs = Ok d' ->
  find_tab (t_name t) (db_tabs d') = Some ts' ->
  ts_rtree ts' = ts_rtree ts ++ rtree_of (List.length (ts_rows ts)) fs /\
  List.length (ts_rtree ts') = (List.length (ts_rtree ts) + nonempty_count fs)%nat /\
  (forall i e, In (i, e) (rtree_of (List.length (ts_rows ts)) fs) ->
     exists k f, nth_error fs k = Some f /\ i = N.of_nat (List.length (ts_rows ts) + k) /\
                 pts_ext (g_pts (f_geom f)) = Some e).
Proof. exact rtree_count. Qed.
Print Assumptions C12_rtree_count.

(** CreateTables on a new file registers every source table with the source's name, columns, geometry
    column, geometry type and srs id, and the srs ROW of the target is the source's for EVERY srs id —
    also the ids the library pre-seeds (after fix e2006e7).  The hypothesis on srs rows says that the
    source's gpkg_spatial_ref_sys has one row per id (srs_id is its primary key). *)
Theorem C12_schema_copied : forall tl,
  Forall table_ok tl -> NoDup (map t_name tl) ->
  (forall t t', In t tl -> In t' tl -> s_id (t_srs t) = s_id (t_srs t') -> t_srs t = t_srs t') ->
  exists d, create_tables empty_db tl = Ok d /\
    map ts_desc (db_tabs d) = map desc_of tl /\
    (forall t, In t tl ->
       find_tab (t_name t) (db_tabs d) = Some (fresh_tab t) /\
       find_srs (s_id (t_srs t)) (db_srs d) = Some (t_srs t)).
Proof. exact create_tables_fresh. Qed.
Print Assumptions C12_schema_copied.

(** what the code does without that hypothesis: per srs id the row of the LAST table with that id stays
    (each table's row overwrites), an id no table uses keeps what the file had *)
Theorem C12_srs_last_table_wins : forall tl d d' id,
  Forall table_ok tl -> NoDup (map t_name tl) ->
  (forall t, In t tl -> ~ In (t_name t) (map tab_name (db_tabs d))) ->
  create_tables d tl = Ok d' ->
  find_srs id (db_srs d') =
  match find_srs id (rev (map t_srs tl)) with Some s => Some s | None => find_srs id (db_srs d) end.
Proof. exact create_tables_srs. Qed.
Print Assumptions C12_srs_last_table_wins.

(** [desc_of] is the source's description itself (GeoPackage tables have a single-column primary key) *)
Theorem C12_schema_description_faithful : forall t, Forall (fun c => (c_pk c <= 1)%N) (t_cols t) ->
  desc_of t = MkDesc (t_name t) (t_cols t) (t_gcol t) (t_gtype t) (s_id (t_srs t)).
Proof. exact desc_of_faithful. Qed.
Print Assumptions C12_schema_description_faithful.

(** writing never changes a description, the srs rows, or another table *)
Theorem C12_schema_kept : forall t p fs d d' ts ts',
  0 < p -> find_tab (t_name t) (db_tabs d) = Some ts -> has_col (t_gcol t) (t_cols t) = true ->
  Forall (fun f => fits t f = true) fs -> write_features p t d fs = Ok d' ->
  find_tab (t_name t) (db_tabs d') = Some ts' ->
  ts_desc ts' = ts_desc ts /\ db_srs d' = db_srs d /\
  map tab_name (db_tabs d') = map tab_name (db_tabs d) /\
  forall m, m <> t_name t -> find_tab m (db_tabs d') = find_tab m (db_tabs d).
Proof. exact schema_kept. Qed.
Print Assumptions C12_schema_kept.

(** the whole property on a new file, no side condition left open: the run succeeds and the file has
    the rows, the extent, the rtree entries, the schema and the transaction count *)
Theorem C12_fresh_file : forall tl t p fs,
  Forall table_ok tl -> NoDup (map t_name tl) ->
  (forall t1 t2, In t1 tl -> In t2 tl -> s_id (t_srs t1) = s_id (t_srs t2) -> t_srs t1 = t_srs t2) ->
  In t tl -> 0 < p -> Forall (fun f => fits t f = true) fs ->
  exists d0 d' ts' rs,
    create_tables empty_db tl = Ok d0 /\ write_features p t d0 fs = Ok d' /\
    find_tab (t_name t) (db_tabs d') = Some ts' /\
    ts_rows ts' = rs /\ map (row_of t) fs = map Some rs /\ List.length rs = List.length fs /\
    ts_extent ts' = pts_ext (all_pts fs) /\
    ts_rtree ts' = rtree_of 0 fs /\ List.length (ts_rtree ts') = nonempty_count fs /\
    ts_desc ts' = desc_of t /\ map ts_desc (db_tabs d') = map desc_of tl /\
    find_srs (s_id (t_srs t)) (db_srs d') = Some (t_srs t) /\
    Z.of_N (db_txs d') = Z.of_nat (List.length fs) / p + 1.
Proof. exact fresh_file_spec. Qed.
Print Assumptions C12_fresh_file.

(** page size 0 is excluded by the property; the model says what the code does: the first feature
    makes [len(features) % pagesize] panic *)
Theorem C12_pagesize_zero : forall t d f fs, write_features 0 t d (f :: fs) = Err DivZero.
Proof. exact pagesize_zero. Qed.
Print Assumptions C12_pagesize_zero.

(** ** Non-vacuity: a concrete table (geometry column in the MIDDLE), a concrete stream with NULLs, an
    empty polygon and an empty point; the hypotheses hold and the conclusions compute. *)
Definition ex_srs : srs := MkSrs "Amersfoort / RD New" 28992 "EPSG" 28992 12345 "rd".
Definition ex_table : table :=
  MkTable "t1" [MkCol "fid" "INTEGER" true 1; MkCol "a" "INTEGER" false 0; MkCol "geom" "POLYGON" false 0;
                MkCol "b" "TEXT" false 0; MkCol "c" "REAL" false 0] "geom" 3 ex_srs.
Definition ex_geom (k : Z) : geom := MkGeom 3 [(k, 0); (k + 10, 0); (k + 10, 5 - k)] (Z.to_N k).
Definition ex_stream : list feature := [
  MkFeature [VInt 1; VInt 7; VText 1; VReal 12] (ex_geom 0);
  MkFeature [VInt 2; VNull; VNull; VNull] (MkGeom 3 [] 100);          (* POLYGON EMPTY *)
  MkFeature [VInt 3; VInt (-7); VText 2; VReal (-3)] (ex_geom 20);
  MkFeature [VInt 4; VInt 0; VText 3; VNull] (MkGeom 1 [] 101);        (* POINT EMPTY *)
  MkFeature [VInt 5; VInt 0; VText 3; VNull] (MkGeom 1 [(-4, 40)] 102);
  MkFeature [VInt 6; VInt 1; VNull; VReal 8] (ex_geom 3);
  MkFeature [VInt 7; VInt 1; VNull; VReal 8] (ex_geom 4)].

Example C12_example_hypotheses :
  Forall table_ok [ex_table] /\ NoDup (map t_name [ex_table]) /\ In ex_table [ex_table] /\
  Forall (fun f => fits ex_table f = true) ex_stream.
Proof.
  split; [repeat constructor|]. split; [repeat constructor; intros []|]. split; [now left|].
  repeat constructor.
Qed.

Definition ex_run (p : Z) : option (list row * option ext * list (N * ext) * N * N) :=
  match create_tables empty_db [ex_table] with
  | Ok d0 => match write_features p ex_table d0 ex_stream with
             | Ok d' => match find_tab "t1" (db_tabs d') with
                        | Some ts => Some (ts_rows ts, ts_extent ts, ts_rtree ts, db_txs d', db_writes d')
                        | None => None
                        end
             | Err _ => None
             end
  | Err _ => None
  end.

(** 7 features: p = 3 -> 7/3 + 1 = 3 transactions; p = 7 -> 2 transactions, the last one empty;
    p = 1 -> 8; p = 100 -> 1.  Same rows, extent (-4,-15,30,40) and 5 rtree entries each time. *)
Example C12_example_runs :
  (forall p, In p [1; 3; 7; 100] ->
     exists rows rt txs wr, ex_run p = Some (rows, Some (MkExt (-4) (-15) 30 40), rt, txs, wr) /\
       List.length rows = 7%nat /\ map fst rt = [0; 2; 4; 5; 6]%N /\ Z.of_N txs = 7 / p + 1) /\
  (exists x, ex_run 7 = Some (x, 2%N, 2%N)) /\ (exists x, ex_run 3 = Some (x, 3%N, 5%N)) /\
  nth_error (match ex_run 3 with Some (rows, _, _, _, _) => rows | None => [] end) 0 =
    Some [CVal (VInt 1); CVal (VInt 7); CGeom (ex_geom 0); CVal (VText 1); CVal (VReal 12)].
Proof.
  split; [|split; [|split]].
  - intros p [<-|[<-|[<-|[<-|[]]]]]; vm_compute; repeat eexists.
  - vm_compute; eexists; reflexivity.
  - vm_compute; eexists; reflexivity.
  - vm_compute; reflexivity.
Qed.

(** F9 regression (fixed by 16e3a13): an empty point in a page no longer resets the recorded extent *)
Example C12_empty_point_regression :
  forall p, In p [1; 2; 3] -> exists x rt txs wr, ex_run p = Some (x, Some (MkExt (-4) (-15) 30 40), rt, txs, wr).
Proof. intros p [<-|[<-|[<-|[]]]]; vm_compute; repeat eexists. Qed.

(** F10 regression (fixed by e2006e7): a source table in srs 3857 with the row another writer gives that
    id; the library pre-seeds 3857 with its own row, the target now holds the SOURCE's row *)
Example C12_regression_F10 :
  table_ok witness_table /\ find_srs 3857 known_srs <> Some witness_srs /\
  exists d, create_tables empty_db [witness_table] = Ok d /\
    find_srs (s_id (t_srs witness_table)) (db_srs d) = Some witness_srs /\
    List.length (db_srs d) = 4%nat.
Proof. split; [split; reflexivity|]. split; [discriminate|]. eexists. repeat split. Qed.

From Coq Require Import Ascii.
From Texel Require Import Gpkg.WriterOps Gpkg.ProofsGenWriter.
From Texel.Gen Require Import GpkgWriterGen.

(** ** tie G2 (source tie of the writer): [TargetGeopackage.WriteFeatures] and [TargetGeopackage.writeFeatures] of
    processing/gpkg/gpkg.go REGENERATED from source on this run (gen/GpkgWriterGen.v, translator/gpkgwriter.go) are
    the model's [write_features] / [flush], for EVERY target (table, page size — 0 and negative included), database
    and stream, with all outcomes ([lift_db]: [Ok d] = the connection idle on file [d]; [Err e] = the process ended
    with that error).  The theorems above are about [write_features]; by this equality they are about what the
    source text does.

    REGENERATED, statement by statement from the AST: the receive loop ([for] with [break] = a Fixpoint on fuel
    [S (len stream)]; a receive = taking the head of the values sent before the channel is closed), the page test
    [len(features) % pagesize == 0] ([go_rem]: truncated remainder, [Model DivZero] for 0), [features = nil], the write
    on close; in writeFeatures the order Begin, Prepare, per feature NewBinary / capped copy of the columns + blob /
    Exec / skip of empty geometries / first-or-add extent accumulation with its error branch, then Close, Commit,
    UpdateGeometryExtent, and every [if err != nil { log.Fatal.. }].  Go panics the model does not have
    ([IndexOutOfRange], [SliceBounds] of data[0] and data[:n:n]; [OutOfFuel]; [ApiMisuse]; [FatalNoError]) are separate
    error values of the generated code: the equality shows none of them can occur.  [append] is only accepted on a
    slice the function owns or on [s[:n:n]] (the fix c3f647a), otherwise the translation fails.

    Stays MODELLED (trusted; each call is mapped only after its exact shape was checked in the AST, the operations are
    defined in Gpkg/WriterOps.v from the pieces of Gpkg/Model.v and are held to the library by the run-time
    correspondence Corr/C12.v): target.handle.Begin = [op_Begin]; tx.Prepare(Table.insertSQL()) = [op_Prepare]
    ("no such table" unless registered); gpkg.NewBinary(int32(srs id), geometry) = [op_NewBinary] (the blob is that srs
    id for its header + the geometry); stmt.Exec(data...) = [op_Exec] = the model's [insert_row] on the table state of
    the open transaction -- a stored geometry of the model is understood to carry its table's srs id, so [op_Exec] reports
    a blob with another header srs id as outside the model, and the equality shows the code never passes one; stmt.Close = [op_StmtClose]; tx.Commit = [op_Commit] (its error is
    discarded by the code); target.handle.UpdateGeometryExtent = [op_UpdateGeometryExtent] = the model's [merge_extent];
    cmp.IsEmptyGeo = [geom_empty]; geom.NewExtentFromGeometry / ext.AddGeometry = [new_extent_from_geometry] /
    [add_geometry]; Feature.Geometry() / Columns() = [f_geom] / the attribute values; log.Fatalf / log.Fatalln(.., err) =
    the process ends with that error; log.Println = nothing; [int] is exact Z. *)
Theorem C12_source_tie_writer :
  (forall tg d fs,
     gen_WriteFeatures tg (idle d) fs = lift_db (write_features (tg_pagesize tg) (tg_Table tg) d fs) /\
     gen_writeFeatures tg (idle d) fs = lift_db (flush (tg_Table tg) d fs)) /\
  (* the srs id in the geometry blob: NewBinary's first argument is recorded in the blob, and a stmt.Exec that succeeds
     -- by the equalities above every one does, whenever the model's write succeeds -- was handed a blob whose header
     srs id is int32 of the srs id of the table the INSERT was prepared for *)
  (forall srsid g, fst (op_NewBinary srsid g) = (srsid, g)) /\
  (forall w st data w', op_Exec w st data = (w', (tt, None)) ->
     exists t ts attrs g, wd_pend w = Some (t, ts) /\
       split_args data = Some (attrs, (go_int32 (s_id (t_srs t)), g)) /\
       exists ts', insert_row t ts (MkFeature attrs g) = Ok ts' /\ wd_pend w' = Some (t, ts')).
Proof. split; [exact source_tie_writer|exact source_tie_writer_srs]. Qed.
Print Assumptions C12_source_tie_writer.

(** the regenerated code runs: the stream of 7 features above (NULLs, POLYGON EMPTY, POINT EMPTY, geometry column in
    the middle) with page size 3 -> 3 transactions, 5 file changes, extent (-4,-15,30,40), 7 rows; page size 0 ->
    the divide panic; an unregistered table -> "no such table"; an unknown geometry -> NewBinary's error *)
Example C12_source_tie_writer_example :
  (exists d0 d', create_tables empty_db [ex_table] = Ok d0 /\
     gen_WriteFeatures (MkTarget ex_table 3) (idle d0) ex_stream = WOk (idle d') /\
     db_txs d' = 3%N /\ db_writes d' = 5%N /\
     option_map (fun ts => (List.length (ts_rows ts), ts_extent ts)) (find_tab "t1" (db_tabs d')) =
       Some (7%nat, Some (MkExt (-4) (-15) 30 40))) /\
  (forall d, gen_WriteFeatures (MkTarget ex_table 0) (idle d) ex_stream = WErr (Model DivZero)) /\
  gen_WriteFeatures (MkTarget ex_table 3) (idle empty_db) ex_stream = WErr (Model NoSuchTable) /\
  (exists d0, create_tables empty_db [ex_table] = Ok d0 /\
     gen_writeFeatures (MkTarget ex_table 3) (idle d0) [MkFeature [VInt 1; VInt 7; VText 1; VReal 12] (MkGeom 0 [] 9)] =
       WErr (Model UnknownGeometry) /\
     gen_writeFeatures (MkTarget ex_table 3) (idle d0) [MkFeature [VInt 1] (ex_geom 0)] = WErr (Model ArgCount)).
Proof.
  split; [|split; [|split]].
  - destruct (create_tables empty_db [ex_table]) as [d0|x] eqn:E0; [|vm_compute in E0; discriminate E0].
    exists d0. vm_compute in E0. injection E0 as <-.
    match goal with |- exists d', _ /\ ?r = _ /\ _ => let v := eval vm_compute in r in
      match v with WOk (MkWorld ?d _ _ _ _) => exists d end end.
    split; [reflexivity|]. vm_compute. repeat split.
  - intros d. reflexivity.
  - vm_compute. reflexivity.
  - destruct (create_tables empty_db [ex_table]) as [d0|x] eqn:E0; [|vm_compute in E0; discriminate E0].
    exists d0. vm_compute in E0. injection E0 as <-. split; [reflexivity|]. vm_compute. split; reflexivity.
Qed.

(** ** tie G2 (SQL texts): [Table.createSQL], [Table.selectSQL], [Table.insertSQL] REGENERATED from source on this
    run as functions to [string] (the range loops over t.columns, the conditions [notnull == 1], [pk == 1],
    [c.name != t.gcolumn], every literal and the order of the concatenations come from the AST) produce, for EVERY
    table: a CREATE TABLE that declares exactly the columns of the model's description [desc_of t] ([col_sql]: name,
    type, NOT NULL, PRIMARY KEY only for pk = 1); a SELECT of the table columns in table order (the order in which
    ReadFeatures hands the values on); an INSERT that names [insert_columns t] = the non-geometry columns in table
    order followed by the geometry column, with one placeholder per name.  Clause 4: for a table whose column
    names are distinct, the model's row layout [weave] (used by [insert_row] = stmt.Exec in the tie above) IS what
    SQL's INSERT with that column list does with the values (attribute values ++ geometry): each table column gets
    the value listed under its name; both fail exactly when the value count does not fit.
    After fix a631213 (F20) EVERY column name in the three texts -- also the geometry column of the INSERT -- is written
    as a quoted identifier ([quote_ident]: in double quotes, an embedded double quote doubled; [select_columns_sql],
    [insert_columns_sql], [col_sql]); before, the names were written bare, and a name that is an SQL keyword or contains
    a space made the statement a syntax error (log.Fatalf).  [quoteIdentifier] itself is regenerated from its body
    (clause 5), and clauses 6-7 say that the column lists of the INSERT and SELECT texts, read the way SQL reads
    quoted identifiers ([read_ident_list]), are exactly the names clause 4 and [op_QuerySelect] work with.
    STATEMENT CHANGE against the round-5 version of this theorem (the texts themselves changed): clauses 2-3 have
    [select_columns_sql t] / [insert_columns_sql t] where they had the bare [map c_name (t_cols t)] / [insert_columns t];
    clause 1 reads the same but [col_sql] now quotes the name; clauses 5-7 are new.
    MODELLED: strings.Join = [String.concat]; fmt.Sprintf with one %v of a string = the text around the verb and
    the string; strings.ReplaceAll(s, c, new) for a one-byte ASCII c = every such byte replaced ([op_ReplaceAll1]);
    the Go ints column.notnull / column.pk = [Z.b2z (c_notnull c)] / [Z.of_N (c_pk c)]; that SQLite
    assigns the values of an INSERT by column name ([sql_insert_row], Gpkg/WriterOps.v) and reads a double-quoted
    identifier as [read_ident] does. *)
Theorem C12_source_tie_sql :
  (forall t, gen_createSQL t =
     WOk (String.append (String.append (String.append
            (String.append "CREATE TABLE IF NOT EXISTS """ (String.append (t_name t) """")) "(")
            (String.concat ", " (map col_sql (td_cols (desc_of t))))) ");")) /\
  (forall t, gen_selectSQL t =
     WOk (String.append (String.append (String.append (String.append "SELECT "
            (String.concat "," (select_columns_sql t))) " FROM """) (t_name t)) """;")) /\
  (forall t, gen_insertSQL t =
     WOk (String.append (String.append (String.append (String.append (String.append (String.append
            "INSERT INTO """ (t_name t)) """(") (String.concat "," (insert_columns_sql t))) ") VALUES(")
            (String.concat "," (repeat "?"%string (List.length (insert_columns t))))) ")")) /\
  (forall t attrs g, NoDup (map c_name (t_cols t)) ->
     weave (t_cols t) (t_gcol t) attrs g =
     sql_insert_row (t_cols t) (insert_columns t) (map CVal attrs ++ [CGeom g])) /\
  (forall s, gen_quoteIdentifier s = WOk (quote_ident s)) /\
  (forall t, read_ident_list (List.length (insert_columns t)) ","%char (String.concat "," (insert_columns_sql t)) =
             Some (insert_columns t)) /\
  (forall t, t_cols t <> [] ->
     read_ident_list (List.length (t_cols t)) ","%char (String.concat "," (select_columns_sql t)) = Some (map c_name (t_cols t))).
Proof. exact source_tie_sql. Qed.
Print Assumptions C12_source_tie_sql.

(** a quoted identifier always reads back as the name it was made from -- EVERY name, whatever bytes it contains (SQL
    keywords, spaces, commas, double quotes, non-ASCII): [read_ident] is SQL's reading of a double-quoted identifier (up to
    the first double quote that is not doubled; a doubled one stands for one quote character).  Clause 1: followed by any
    text that does not go on with a double quote (in the SQL texts: a comma, a space, a parenthesis, the end), the token
    ends where the quoting ended and stands for the name.  Clause 2-3: alone it is the name; distinct names have distinct
    quoted forms.  Clause 4: a comma-separated list of quoted names reads back as exactly these names (a comma or a quote
    inside a name cannot shift a boundary). *)
Theorem C12_quoted_identifier_reads_back :
  (forall s rest, no_dquote_head rest -> read_ident (String.append (quote_ident s) rest) = Some (s, rest)) /\
  (forall s, unquote_ident (quote_ident s) = Some s) /\
  (forall a b, quote_ident a = quote_ident b -> a = b) /\
  (forall names fuel, names <> [] -> (List.length names <= fuel)%nat ->
     read_ident_list fuel ","%char (String.concat "," (map quote_ident names)) = Some names).
Proof. exact quoted_identifiers. Qed.
Print Assumptions C12_quoted_identifier_reads_back.

(** the regenerated text functions run on the table above (geometry column in the middle) *)
Example C12_source_tie_sql_example :
  gen_insertSQL ex_table = WOk "INSERT INTO ""t1""(""fid"",""a"",""b"",""c"",""geom"") VALUES(?,?,?,?,?)"%string /\
  gen_selectSQL ex_table = WOk "SELECT ""fid"",""a"",""geom"",""b"",""c"" FROM ""t1"";"%string /\
  gen_createSQL ex_table =
    WOk "CREATE TABLE IF NOT EXISTS ""t1""(""fid"" INTEGER NOT NULL PRIMARY KEY, ""a"" INTEGER, ""geom"" POLYGON, ""b"" TEXT, ""c"" REAL);"%string /\
  NoDup (map c_name (t_cols ex_table)) /\
  sql_insert_row (t_cols ex_table) (insert_columns ex_table)
    (map CVal [VInt 1; VInt 7; VText 1; VReal 12] ++ [CGeom (ex_geom 0)]) =
    Some [CVal (VInt 1); CVal (VInt 7); CGeom (ex_geom 0); CVal (VText 1); CVal (VReal 12)].
Proof.
  split; [vm_compute; reflexivity|]. split; [vm_compute; reflexivity|]. split; [vm_compute; reflexivity|].
  split; [|vm_compute; reflexivity].
  repeat constructor; cbn; intuition discriminate.
Qed.

(** F20 (fixed, a631213): a table whose columns are named by an SQL keyword ([order]), with a space ([street name]) and
    with a double quote (a, double quote, b), the geometry column by another keyword ([select]).  Written bare -- the pinned tree --
    each of the three texts was a syntax error and the tool ended in log.Fatalf; the regenerated functions of the
    repaired tree write every name as ONE quoted identifier, and read the way SQL reads them the column lists are the
    names again.  Undoing the repair removes [gen_quoteIdentifier] and changes the regenerated texts:
    [C12_source_tie_sql] stops checking. *)
Definition ex_quoted_table : table :=
  MkTable "t q" [MkCol "order" "INTEGER" true 1; MkCol "street name" "TEXT" false 0; MkCol "select" "POINT" false 0;
                 MkCol "a""b" "BOOLEAN" false 0] "select" 1 ex_srs.

Example C12_regression_F20 :
  gen_createSQL ex_quoted_table =
    WOk "CREATE TABLE IF NOT EXISTS ""t q""(""order"" INTEGER NOT NULL PRIMARY KEY, ""street name"" TEXT, ""select"" POINT, ""a""""b"" BOOLEAN);"%string /\
  gen_selectSQL ex_quoted_table = WOk "SELECT ""order"",""street name"",""select"",""a""""b"" FROM ""t q"";"%string /\
  gen_insertSQL ex_quoted_table =
    WOk "INSERT INTO ""t q""(""order"",""street name"",""a""""b"",""select"") VALUES(?,?,?,?)"%string /\
  gen_quoteIdentifier "a""b" = WOk """a""""b"""%string /\
  read_ident_list 4 ","%char "order,""street name"",""a""""b"",""select""" = None /\
  read_ident_list 4 ","%char """order"",""street name"",""a""""b"",""select""" = Some ["order"; "street name"; "a""b"; "select"]%string /\
  read_ident_list 4 ","%char (String.concat "," (insert_columns_sql ex_quoted_table)) = Some (insert_columns ex_quoted_table) /\
  (* a comma and a quote INSIDE a name do not shift a boundary *)
  read_ident_list 2 ","%char (String.concat "," (map quote_ident ["x"",""y"; "z"]%string)) = Some ["x"",""y"; "z"]%string /\
  NoDup (map c_name (t_cols ex_quoted_table)) /\
  sql_insert_row (t_cols ex_quoted_table) (insert_columns ex_quoted_table)
    (map CVal [VInt 1; VText 2; VInt 0] ++ [CGeom (MkGeom 1 [(1, 2)] 7)]) =
    Some [CVal (VInt 1); CVal (VText 2); CGeom (MkGeom 1 [(1, 2)] 7); CVal (VInt 0)].
Proof.
  repeat (split; [vm_compute; reflexivity|]).
  split; [|vm_compute; reflexivity].
  repeat constructor; cbn; intuition discriminate.
Qed.

From Texel Require Import Gpkg.SchemaOps Gpkg.ProofsGenSchema.
From Texel.Gen Require Import GpkgSchemaGen.

(** ** tie G2 (source tie of the schema side): [TargetGeopackage.CreateTables], [buildTable], [SourceGeopackage.GetTableInfo],
    [getTableColumns], [getSpatialReferenceSystem], [geometryTypeFromString] and [SourceGeopackage.ReadFeatures] of
    processing/gpkg/gpkg.go REGENERATED from source on this run (gen/GpkgSchemaGen.v, translator/gpkgschema.go).

    Clause 1-2 (target): on a target whose gpkg_spatial_ref_sys has srs_id as its key ([srs_keyed]; true of every file
    gpkg.Open makes) and for tables whose srs id fits the int32 that buildTable converts it to ([int32_srs]), the
    regenerated CreateTables IS the model's [create_tables] (the function [C12_schema_copied], [C12_srs_last_table_wins],
    [C12_fresh_file] are about) whenever that succeeds, and ends in an error (a returned error, which main.go turns into
    log.Fatalf -- [outcome] --, or log.Fatalf in buildTable) whenever the model fails.  Error VALUES are not compared:
    the library reports them in another order than the model.  [int32_srs] is needed: see the example below.
    Clause 3-7 (source, for EVERY source database [srcdb]): geometryTypeFromString is [spec_gtype] (upper-cased name ->
    0..7, unknown -> 0) and inverts the library's GeometryType.String(); getSpatialReferenceSystem is the row with that
    id, a NULL description read as "", the zero value without a row; getTableColumns is PRAGMA table_info's name, type,
    notnull, pk in order (when no default is a non-integer text: such a default makes rows.Scan fail, log.Fatalf);
    GetTableInfo is one table per row of gpkg_geometry_columns, in order, with these three.
    Clause 8 (ReadFeatures): for a table whose declared column names are the table's (distinct) and contain the geometry
    column, and whose rows are the rows the model's layout [row_of] = [weave] gives for features [fs] (any driver
    representation [cell_drv]: text as string, a blob as []uint8 -- kept a blob since fix 4dc32dc, F19 --, NULL as nil, an
    integer 1 / 0 either as int64 or, in a column declared BOOLEAN, as the Go bool true / false -- read since fix 574d563,
    F18 --, the geometry a blob that decodes to it, AT WHATEVER POSITION the geometry column has --
    [C12_geometry_cell_position]): exactly [fs] is sent, in order, then the channel is closed.  The STATEMENT is the
    round-5 one; the relation [cell_drv] behind [row_rel] changed with the repairs: it gained the bool clause (stronger:
    such rows were excluded before, and ended the tool) and its []uint8 clause now speaks of a BLOB value ([VBlob]) where
    it spoke of a text (the pinned tree turned a blob cell into a text; the driver hands a text over as string).

    REGENERATED, statement by statement from the AST: the loop over the tables with its three early returns; UpdateSRS
    then the UPDATE (fix e2006e7) with the five srs fields and the id IN THIS ORDER; createSQL -> Exec -> log.Fatalf;
    every member of gpkg.TableDescription (Name / ShortName / Description = t.Name, GeometryField = t.gcolumn,
    GeometryType = t.gtype, SRS = int32(t.srs.ID), Z = M = gpkg.Prohibited -- the operation refuses anything else as
    outside the model, so the equality proves these); the [for rows.Next()] loops (Fixpoints on fuel S(rows)); which Scan
    destination receives which result column; the call order getTableColumns / geometryTypeFromString /
    getSpatialReferenceSystem and where their results go; the switch over the type names; in ReadFeatures the column loop
    with its index, the test [colName == source.Table.gcolumn], vals[i].([]byte) (a NULL geometry: the panic is an error
    value), the type switch with its seven cases (one match branch per case the SOURCE lists; what is appended in each --
    the value itself, [string(asBytes)] or [asBytes] -- is read from the AST) and the fatal default, [f.columns = c], the
    send, rows.Err, close.

    Stays MODELLED (trusted; listed at the top of the generated file; each call mapped only after its exact shape -- for
    SQL its exact text -- was checked in the AST; defined in Gpkg/SchemaOps.v and held to SQLite and the library by the
    run-time correspondence Corr/C12.v): op_UpdateSRS (insert unless the id is there), op_ExecUpdateSrs (every row with
    the id), op_ExecCreate, op_AddGeometryTable, the four queries, op_Next / op_Scan.. / op_RowsColumns / op_RowsErr /
    op_RowsClose, the idiom valPtrs[i] = &vals[i] + Scan(valPtrs...) = op_ScanAll, make + copy of a []byte = bytes_copy,
    ff := &f = f, op_DecodeGeometry, op_ToUpper (ASCII), the gpkg constants, the representation of column.notnull /
    column.pk as bool / N and of the definition text by its digest, log.Fatal.. = the process ends, channel send / close;
    a Go bool attribute value = the integer go-sqlite3 binds it as ([value_of_bool]: nothing between ReadFeatures and
    stmt.Exec looks at an attribute value). *)
Theorem C12_source_tie_schema :
  (forall tg d tl, srs_keyed d -> Forall int32_srs tl ->
     match create_tables d tl with
     | Ok d' => gen_CreateTables tg (cidle d) tl = WOk (cidle d', None)
     | Err _ => exists e, outcome (gen_CreateTables tg (cidle d) tl) = WErr e
     end) /\
  (forall t srss tabs txs wr x,
     find_srs (s_id (t_srs t)) srss = Some x -> int32_srs t ->
     match create_table (MkDb srss tabs txs wr) t with
     | Ok _ => gen_buildTable (cidle (MkDb srss tabs txs wr)) t = WOk (cidle (MkDb srss (tabs ++ [fresh_tab t]) txs wr), None)
     | Err _ => fails (gen_buildTable (cidle (MkDb srss tabs txs wr)) t)
     end) /\
  (forall s, gen_geometryTypeFromString s = WOk (spec_gtype s)) /\
  (forall n, (n <= 7)%N -> spec_gtype (gtype_name n) = n) /\
  (forall sd id, gen_getSpatialReferenceSystem sd id = WOk (spec_srs sd id)) /\
  (forall sd n, gen_getTableColumns sd n = WOk (spec_columns sd n)) /\
  (forall src sd, gen_GetTableInfo src sd = WOk (spec_tables sd)) /\
  (forall t sd st fs,
     find_stable (t_name t) (sd_tables sd) = Some st -> map ti_name (st_info st) = map c_name (t_cols t) ->
     NoDup (map c_name (t_cols t)) -> has_col (t_gcol t) (t_cols t) = true ->
     Forall2 (row_rel t) fs (st_rows st) ->
     gen_ReadFeatures (MkSource t) sd (MkOChan [] false) = WOk (MkOChan (map gfeat_of fs) true)).
Proof. exact source_tie_schema. Qed.
Print Assumptions C12_source_tie_schema.

(** the schema clause of C12 on the regenerated code, end to end: a file [d] the model describes (well-formed registered
    tables, [tab_wf]), opened as a SOURCE ([src_of_db]); the regenerated GetTableInfo reads its tables, the regenerated
    CreateTables makes them in a NEW file: it succeeds, the new file has the same descriptions in the same order (columns
    as CREATE TABLE can express them, [norm_desc]) and, for every table, the same srs row under its srs id -- also for
    the ids the library pre-seeds *)
Theorem C12_source_tie_schema_copy : forall src tg d,
  NoDup (map tab_name (db_tabs d)) -> Forall (tab_wf d) (db_tabs d) ->
  exists tl d',
    gen_GetTableInfo src (src_of_db d) = WOk tl /\
    gen_CreateTables tg (cidle empty_db) tl = WOk (cidle d', None) /\
    map ts_desc (db_tabs d') = map (fun ts => norm_desc (ts_desc ts)) (db_tabs d) /\
    (forall ts, In ts (db_tabs d) ->
       find_srs (td_srs (ts_desc ts)) (db_srs d') = find_srs (td_srs (ts_desc ts)) (db_srs d)).
Proof. exact schema_copy. Qed.
Print Assumptions C12_source_tie_schema_copy.

(** the rows of a table of a file the model describes, read by the regenerated ReadFeatures, are the features whose rows
    they are ([C12_rows_all_in_order] gives [map (row_of t) fs = map Some rows] for what write_features stored) *)
Theorem C12_source_tie_read_back : forall d t ts fs,
  find_tab (t_name t) (db_tabs d) = Some ts ->
  map c_name (td_cols (ts_desc ts)) = map c_name (t_cols t) ->
  NoDup (map c_name (t_cols t)) -> has_col (t_gcol t) (t_cols t) = true ->
  map (row_of t) fs = map Some (ts_rows ts) ->
  gen_ReadFeatures (MkSource t) (src_of_db d) (MkOChan [] false) = WOk (MkOChan (map gfeat_of fs) true).
Proof. exact read_back. Qed.
Print Assumptions C12_source_tie_read_back.

(** the regenerated code runs.  The file written from the 7 features above (geometry column in the MIDDLE, NULLs, empty
    geometries) is opened as a source: GetTableInfo returns the table, ReadFeatures the 7 features; CreateTables of that
    table and of the F10 witness (srs 3857 with another writer's row) on a new file gives the model's file, with the
    source's row under 3857. *)
Definition ex_written : option db :=
  match create_tables empty_db [ex_table] with
  | Ok d0 => match write_features 3 ex_table d0 ex_stream with Ok d => Some d | Err _ => None end
  | Err _ => None
  end.

Example C12_source_tie_schema_example :
  match ex_written with
  | Some d =>
     gen_GetTableInfo (MkSource table_zero) (src_of_db d) = WOk [ex_table] /\
     gen_ReadFeatures (MkSource ex_table) (src_of_db d) (MkOChan [] false) = WOk (MkOChan (map gfeat_of ex_stream) true)
  | None => False
  end /\
  match create_tables empty_db [ex_table; witness_table] with
  | Ok d2 =>
     gen_CreateTables (MkTarget ex_table 3) (cidle empty_db) [ex_table; witness_table] = WOk (cidle d2, None) /\
     find_srs 3857 (db_srs d2) = Some witness_srs /\ List.length (db_tabs d2) = 2%nat
  | Err _ => False
  end /\
  (* the same table twice: the model fails, the code returns AddGeometryTable's error *)
  (exists e, outcome (gen_CreateTables (MkTarget ex_table 3) (cidle empty_db) [ex_table; ex_table]) = WErr e) /\
  gen_geometryTypeFromString "MultiPolygon" = WOk 6%N /\ gen_geometryTypeFromString "CURVE" = WOk 0%N.
Proof.
  split; [|split; [|split; [|split]]].
  - vm_compute. split; reflexivity.
  - vm_compute. repeat split.
  - vm_compute. eexists. reflexivity.
  - vm_compute. reflexivity.
  - vm_compute. reflexivity.
Qed.

(** the error paths of the source side run too: a NULL geometry cell (the type assertion panics), a value of a type
    the type switch does not list in the geometry column, a NULL srs description (read as ""), an srs id without a row
    (the zero value) *)
Definition ex_source (cell : drv) (df : dfltv) : srcdb :=
  MkSrc [("t1", "geom", "polygon", 28992)]%string
        [MkSSrs "Amersfoort / RD New" 28992 "EPSG" 28992 12345 None]
        [MkSTable "t1" [(0, "fid", "INTEGER", true, DfNull, 1%N); (1, "geom", "POLYGON", false, DfNull, 0%N);
                        (2, "a", "TEXT", false, df, 0%N)]%string
                  [[DInt 1; DBytes (Bytes 9 (Some (ex_geom 0))); DBytes (Bytes 5 None)]; [DInt 2; cell; DString 6]]].
Definition ex_source_table : table :=
  MkTable "t1" [MkCol "fid" "INTEGER" true 1; MkCol "geom" "POLYGON" false 0; MkCol "a" "TEXT" false 0] "geom" 3
          (MkSrs "Amersfoort / RD New" 28992 "EPSG" 28992 12345 "").

Example C12_source_tie_schema_errors :
  gen_GetTableInfo (MkSource table_zero) (ex_source DNil DfNull) = WOk [ex_source_table] /\
  gen_ReadFeatures (MkSource ex_source_table) (ex_source (DBytes (Bytes 0 (Some (ex_geom 4)))) DfNull) (MkOChan [] false) =
    WOk (MkOChan [MkGFeat [AVal (VInt 1); AVal (VBlob 5)] (ex_geom 0); MkGFeat [AVal (VInt 2); AVal (VText 6)] (ex_geom 4)] true) /\
  gen_ReadFeatures (MkSource ex_source_table) (ex_source DNil DfNull) (MkOChan [] false) =
    WErr (Stop "interface conversion: interface {} is not []uint8") /\
  gen_ReadFeatures (MkSource (set_t_gcol ex_source_table "a")) (ex_source (DOther 1) DfNull) (MkOChan [] false) =
    WErr (Stop "gpkg.DecodeGeometry: not a GeoPackage geometry blob") /\
  gen_ReadFeatures (MkSource (set_t_gcol ex_source_table "fid")) (ex_source (DOther 1) DfNull) (MkOChan [] false) =
    WErr (Stop "interface conversion: interface {} is not []uint8") /\
  gen_ReadFeatures (MkSource ex_source_table) (ex_source (DBytes (Bytes 0 (Some (ex_geom 4)))) DfNull)
    (MkOChan [] true) = WErr (Stop "send on closed channel") /\
  gen_getSpatialReferenceSystem (ex_source DNil DfNull) 4326 = WOk srs_zero.
Proof. repeat split; vm_compute; reflexivity. Qed.

(** F17 (fixed, de070c1): a column default that is not an integer (DEFAULT 'x', 1.5, CURRENT_TIMESTAMP).  Scanned into the
    *int of the pinned tree it ended the tool ([op_ScanTableInfo]: "converting a string to int", log.Fatalf); with the
    *string of the repaired tree the table is described as any other.  The translator picks the scan operation from the
    DECLARED type of column.dfltValue, so undoing the repair breaks [C12_source_tie_schema] (no hypothesis on defaults is
    left in its statement). *)
Example C12_regression_F17 :
  gen_getTableColumns (ex_source DNil DfText) "t1" = WOk (t_cols ex_source_table) /\
  gen_GetTableInfo (MkSource table_zero) (ex_source DNil DfText) = WOk [ex_source_table] /\
  fst (op_ScanTableInfo (Some (2, "a", "TEXT", false, DfText, 0%N)%string) (0, "", "", false, None, 0%N)%string) =
    (0, "", "", false, None, 0%N)%string /\
  snd (op_ScanTableInfo (Some (2, "a", "TEXT", false, DfText, 0%N)%string) (0, "", "", false, None, 0%N)%string) =
    Some (Stop "sql: Scan error on column dflt_value: converting a string to int").
Proof. repeat split; vm_compute; reflexivity. Qed.

(** F18 (fixed, 574d563) and F19 (fixed, 4dc32dc).  A source table with a column declared BOOLEAN and a BLOB column: the
    driver hands the integer cells 1 / 0 of the first over as Go bools, the cells of the second as []uint8 -- one of them
    the bytes of a text another row holds AS text (content id 6).  The pinned tree ended on the first bool ("unexpected
    type for sqlite column data", log.Fatalf: the default branch, still there for other types) and turned the blob into
    the text with the same bytes.  The regenerated ReadFeatures of the repaired tree sends the bool on as the integer it
    is bound as and the blob as a blob, distinct from the text; the row-for-row copy [gen_WriteFeatures] then stores has
    the source's cells.  The translator emits one match branch per case the source lists and what that case appends, so
    undoing either repair breaks [C12_source_tie_schema]. *)
Definition ex_bool_blob_table : table :=
  MkTable "t1" [MkCol "fid" "INTEGER" true 1; MkCol "geom" "POLYGON" false 0; MkCol "flag" "BOOLEAN" false 0;
                MkCol "order" "BLOB" false 0] "geom" 3 (MkSrs "Amersfoort / RD New" 28992 "EPSG" 28992 12345 "").
Definition ex_bool_blob_source : srcdb :=
  MkSrc [("t1", "geom", "polygon", 28992)]%string
        [MkSSrs "Amersfoort / RD New" 28992 "EPSG" 28992 12345 None]
        [MkSTable "t1" [(0, "fid", "INTEGER", true, DfNull, 1%N); (1, "geom", "POLYGON", false, DfNull, 0%N);
                        (2, "flag", "BOOLEAN", false, DfNull, 0%N); (3, "order", "BLOB", false, DfNull, 0%N)]%string
                  [[DInt 1; DBytes (Bytes 9 (Some (ex_geom 0))); DBool true; DBytes (Bytes 6 None)];
                   [DInt 2; DBytes (Bytes 9 (Some (ex_geom 4))); DBool false; DString 6];
                   [DInt 3; DBytes (Bytes 9 (Some (ex_geom 3))); DNil; DBytes (Bytes 0 (Some (ex_geom 3)))]]].
Definition ex_bool_blob_features : list feature :=
  [MkFeature [VInt 1; VInt 1; VBlob 6] (ex_geom 0); MkFeature [VInt 2; VInt 0; VText 6] (ex_geom 4);
   MkFeature [VInt 3; VNull; VBlob 0] (ex_geom 3)].

Example C12_regression_F18 :
  gen_GetTableInfo (MkSource table_zero) ex_bool_blob_source = WOk [ex_bool_blob_table] /\
  gen_ReadFeatures (MkSource ex_bool_blob_table) ex_bool_blob_source (MkOChan [] false) =
    WOk (MkOChan (map gfeat_of ex_bool_blob_features) true) /\
  (* the bool is passed on as the integer the driver binds it as *)
  map (fun f => nth 1 (f_attrs f) VNull) ex_bool_blob_features = [VInt 1; VInt 0; VNull] /\
  value_of_bool true = VInt 1 /\ value_of_bool false = VInt 0 /\
  (* hypotheses of the theorem hold here: the rows are the model's rows of these features, every bool cell stands for the integer *)
  Forall2 (row_rel ex_bool_blob_table) ex_bool_blob_features
          (match sd_tables ex_bool_blob_source with st :: _ => st_rows st | [] => [] end) /\
  (* written by the regenerated writer to a new file: the rows hold the integers 1 / 0 / NULL *)
  match create_tables empty_db [ex_bool_blob_table] with
  | Ok d0 =>
      match gen_WriteFeatures (MkTarget ex_bool_blob_table 2) (idle d0) ex_bool_blob_features with
      | WOk w => option_map (fun ts => map (fun r => nth 2 r (CVal VNull)) (ts_rows ts)) (find_tab "t1" (db_tabs (wd_db w))) =
                 Some [CVal (VInt 1); CVal (VInt 0); CVal VNull]
      | WErr _ => False
      end
  | Err _ => False
  end.
Proof.
  split; [vm_compute; reflexivity|]. split; [vm_compute; reflexivity|]. split; [reflexivity|].
  split; [reflexivity|]. split; [reflexivity|]. split; [|vm_compute; reflexivity].
  cbn [sd_tables ex_bool_blob_source st_rows ex_bool_blob_features].
  constructor; [|constructor; [|constructor; [|constructor]]].
  - exists [CVal (VInt 1); CGeom (ex_geom 0); CVal (VInt 1); CVal (VBlob 6)]. split; [reflexivity|].
    constructor; [apply cd_int|]. constructor; [apply cd_geom|]. constructor; [exact (cd_bool true)|].
    constructor; [apply cd_bytes|constructor].
  - exists [CVal (VInt 2); CGeom (ex_geom 4); CVal (VInt 0); CVal (VText 6)]. split; [reflexivity|].
    constructor; [apply cd_int|]. constructor; [apply cd_geom|]. constructor; [exact (cd_bool false)|].
    constructor; [apply cd_string|constructor].
  - exists [CVal (VInt 3); CGeom (ex_geom 3); CVal VNull; CVal (VBlob 0)]. split; [reflexivity|].
    constructor; [apply cd_int|]. constructor; [apply cd_geom|]. constructor; [apply cd_null|].
    constructor; [apply cd_bytes|constructor].
Qed.

Example C12_regression_F19 :
  (* the blob stays a blob, the text with the same bytes stays a text, and they differ *)
  gen_ReadFeatures (MkSource ex_bool_blob_table) ex_bool_blob_source (MkOChan [] false) =
    WOk (MkOChan (map gfeat_of ex_bool_blob_features) true) /\
  map (fun f => nth 2 (f_attrs f) VNull) ex_bool_blob_features = [VBlob 6; VText 6; VBlob 0] /\
  value_eqb (VBlob 6) (VText 6) = false /\ VBlob 6 <> VText 6 /\
  bytes_blob (Bytes 6 None) = bytes_text (Bytes 6 None) /\
  (* an attribute blob that happens to be a GeoPackage geometry blob is a blob all the same (third row) *)
  attr_of_drv (DBytes (Bytes 0 (Some (ex_geom 3)))) = Some (AVal (VBlob 0)) /\
  (* written and read back through the regenerated code: blob, text, blob *)
  match create_tables empty_db [ex_bool_blob_table] with
  | Ok d0 =>
      match write_features 2 ex_bool_blob_table d0 ex_bool_blob_features with
      | Ok d =>
          option_map (fun ts => map (fun r => nth 3 r (CVal VNull)) (ts_rows ts)) (find_tab "t1" (db_tabs d)) =
            Some [CVal (VBlob 6); CVal (VText 6); CVal (VBlob 0)] /\
          gen_ReadFeatures (MkSource ex_bool_blob_table) (src_of_db d) (MkOChan [] false) =
            WOk (MkOChan (map gfeat_of ex_bool_blob_features) true)
      | Err _ => False
      end
  | Err _ => False
  end.
Proof.
  split; [vm_compute; reflexivity|]. split; [reflexivity|]. split; [reflexivity|]. split; [discriminate|].
  split; [reflexivity|]. split; [reflexivity|]. vm_compute. split; reflexivity.
Qed.

(** why [int32_srs] is a hypothesis: an srs id beyond int32.  The model registers the table under that id; the code hands
    int32(id) to AddGeometryTable, which does not find that srs *)
Example C12_source_tie_schema_int32_needed :
  let t := set_t_srs ex_table (set_s_id ex_srs 2147483653) in
  (exists d, create_tables empty_db [t] = Ok d) /\
  outcome (gen_CreateTables (MkTarget t 3) (cidle empty_db) [t]) = WErr (Stop "unknown srs").
Proof. split; [eexists; reflexivity|vm_compute; reflexivity]. Qed.
