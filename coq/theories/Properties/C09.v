(** placeholder until the C09 theorems are in place *)
From Texel Require Import Prelude.Base.
