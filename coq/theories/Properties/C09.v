(** * C09 — polygons reaching outside the grid are rejected, never silently moved.

    [insideGrid g p]: p lies in the half-open integer extent [min, min + 2^deepest * res) of the
    index (left and bottom borders belong to it, right and top do not).  Coordinates are the
    tool's integers (units of 1e-10).  [0 < gres g] is the only hypothesis: FromTileMatrixSet
    yields a positive resolution for every tile matrix set whose extent spans at least 2^deepest units
    (otherwise the Go code divides by zero, which the model reports as [Err DivZero]). *)
From Coq Require Import ZArith List Bool Lia.
From Texel Require Import Prelude.Base Index.Model Index.ProofsInsert Index.ProofsGen Snap.Model Snap.ProofsOutside.
From Texel.Gen Require Import PointIndexGen.
Import ListNotations.
Open Scope Z_scope.

(** a polygon is indexed iff EVERY vertex lies inside the half-open extent *)
Theorem C09_insert_iff_inside : forall g P, 0 < gres g ->
  (exists hs, insertPolygon g P = Ok hs) <-> Forall (insideGrid g) (concat P).
Proof. exact insertPolygon_ok_iff. Qed.
Print Assumptions C09_insert_iff_inside.

(** any vertex outside, by any amount and on any side: OutsideGrid *)
Theorem C09_insert_outside : forall g P, 0 < gres g ->
  ~ Forall (insideGrid g) (concat P) <-> insertPolygon g P = Err OutsideGrid.
Proof. exact insertPolygon_outside. Qed.
Print Assumptions C09_insert_outside.

(** SnapPolygon then panics by default and returns the empty result with ignore-outside-grid *)
Theorem C09_snap_outside : forall g P levels cfg, 0 < gres g ->
  ~ Forall (insideGrid g) (concat P) ->
  snapPolygon g P levels cfg = if ignoreOutsideGrid cfg then Ok [] else Err OutsideGrid.
Proof. exact snap_outside. Qed.
Print Assumptions C09_snap_outside.

(** such a vertex is never snapped onto a border pixel: geometry is produced only if all vertices are inside *)
Theorem C09_snapped_only_if_inside : forall g P levels cfg r, 0 < gres g ->
  snapPolygon g P levels cfg = Ok r -> r <> [] -> Forall (insideGrid g) (concat P).
Proof. exact snapped_only_if_inside. Qed.
Print Assumptions C09_snapped_only_if_inside.

(** and a polygon inside is not rejected: snapping proceeds on the indexed polygon *)
Theorem C09_inside_is_snapped : forall g P levels cfg, 0 < gres g ->
  Forall (insideGrid g) (concat P) ->
  exists hs, insertPolygon g P = Ok hs /\ snapPolygon g P levels cfg = snapIndexed g hs P levels cfg.
Proof. exact snap_inside. Qed.
Print Assumptions C09_inside_is_snapped.

(** tie G2: the address computation of InsertPoint and the range test of InsertCoord REGENERATED from
    pointindex.go on this run are the model's [deepestCoord] and [inGridCoord] (floor division included) *)
Theorem C09_source_tie :
  (forall g p, 0 < gres g -> gen_InsertPoint_coord (ix_of g) p = deepestCoord g p) /\
  (forall g x y, gen_InsertCoord_outside (ix_of g) x y = negb (inGridCoord g (x, y))).
Proof. split; [exact gen_InsertPoint_coord_spec | exact gen_InsertCoord_outside_spec]. Qed.
Print Assumptions C09_source_tie.

(** ... and the resolution FromTileMatrixSet derives (REGENERATED from source) is the x span divided by the pixel
    count rounded DOWN, so the accepted region min + 2^d * res never reaches beyond the extent of the tile
    matrix set: a vertex on or beyond its right border is outside ([insideGrid]) on any such grid *)
Theorem C09_source_tie_resolution : forall e d, eminx e <= emaxx e ->
  gen_deepestRes (ext_tuple e) (pow2 d) = (emaxx e - eminx e) / pow2 d.
Proof. exact gen_deepestRes_spec. Qed.
Print Assumptions C09_source_tie_resolution.

Theorem C09_accepted_region_within_extent : forall e d p, eminx e <= emaxx e ->
  let g := mkGrid e ((emaxx e - eminx e) / pow2 d) d in
  insideGrid g p -> fst p < emaxx e.
Proof.
  intros e d p He g [[_ Hx] _]. unfold g, gsize in Hx. cbn [gext gres gdeep] in Hx.
  assert (Hp : 0 < pow2 d) by (unfold pow2; apply Z.pow_pos_nonneg; lia).
  pose proof (Z.mul_div_le (emaxx e - eminx e) (pow2 d) Hp). lia.
Qed.
Print Assumptions C09_accepted_region_within_extent.

(** non-vacuity / regression of F2: grid 32x32 px of 0.5 at the origin; a vertex 0.2 left of the
    border (less than one pixel outside) is rejected, a vertex exactly on the left border is accepted,
    a vertex exactly on the right border is rejected. *)
Definition g32 : grid := mkGrid (mkExtent 0 0 160000000000 160000000000) 5000000000 5.
Example C09_regression_F2 :
  0 < gres g32 /\
  insertPolygon g32 [[(-2000000000, 10000000000); (50000000000, 10000000000); (50000000000, 50000000000)]] = Err OutsideGrid /\
  is_ok (insertPolygon g32 [[(0, 10000000000); (50000000000, 10000000000); (50000000000, 50000000000)]]) = true /\
  insertPolygon g32 [[(160000000000, 10000000000); (50000000000, 10000000000); (50000000000, 50000000000)]] = Err OutsideGrid /\
  snapPolygon g32 [[(-1, 10000000000); (50000000000, 10000000000); (50000000000, 50000000000)]] [5%nat]
     (mkConfig false true false) = Ok [].
Proof. vm_compute. repeat split; reflexivity. Qed.

From Texel Require Import Prelude.GoLoop Prelude.GoAssoc Index.MachineInt Index.GoTop Index.ProofsGenDescent Index.ProofsGenIndexTop.
From Texel.Gen Require Import FindGen DescentGen IndexTopGen.

(** ** tie G2, whole bodies: [InsertPolygon], [InsertPoint], [InsertCoord], [floorDiv] of pointindex.go and
    [FromGeomPoint] / [FromGeomOrd] / the accessors of package intgeom REGENERATED from source on this run
    (gen/IndexTopGen.v, translator/indextop.go).

    REGENERATED: every statement of these functions (the pre-sizing loop of InsertPolygon included).  [ofFpt fo] is the
    regenerated float -> integer conversion of a vertex ([gen_FromGeomPoint]: int64(f * 10^Precision) per ordinate,
    with the float operations abstract: the theorem holds for EVERY [fo : floatops]).
    (1) InsertPoint on an index that refines the hot set [hs]: the vertex is converted, its address is the model's
        [deepestCoord] (floor division, machine integers), and either it is inside the grid and the index then refines
        [hs ++ [address]] (the model's insertPoint), or the result is the OutsideGridError of that address and the index
        is unchanged.
    (2) InsertPolygon = that, for every vertex of every ring in order, stopping at the first OutsideGridError: if the
        model's fold [foldM (insertPoint g)] over the integer images accepts all vertices the result is nil and the index
        refines the model's hot set; if not, the model says OutsideGrid, the result is the OutsideGridError of the first
        address outside ([insertAll]) and the index refines the hot set of the vertices BEFORE it (they are not undone).
    (3) the same from the empty index: the model's [insertPolygon].
    Hypotheses: deepest level <= 32; resolution > 0; [pt_fits]: ordinate - extent minimum fits int64 for the vertices
    (no wrap in InsertPoint's subtraction).
    MODELLED (trusted mappings, listed at the top of gen/IndexTopGen.v): float64 as an abstract type with abstract
    operations; int64 arithmetic with wrap-around (MachineInt.v / GoTop.v); error values as [option (goerr ..)];
    methods that change [ix.quadrants] return its final value; go-spatial's [Polygon.LinearRings()] = the polygon;
    range loops = range_loop, the level loop on fuel deepestLevel + 2; [insertCoord] as regenerated in DescentGen.v
    (C02_source_tie_insert_coord) through the projection [gen_descent_ix]. *)
Theorem C09_source_tie_insert_polygon :
  (forall (fo : floatops) g hs ix (v : FPt fo),
     ixT_rel g (hotLevels g hs) ix -> (gdeep g <= 32)%nat -> 0 < gres g -> pt_fits g (ofFpt fo v) ->
     let c := deepestCoord g (ofFpt fo v) in
     if inGridCoord g c
     then exists Q', gen_InsertPoint fo ix v = Ok (Q', None) /\
                     ixT_rel g (hotLevels g (hs ++ [c])) (PointIndexT_with_quadrants ix Q')
     else gen_InsertPoint fo ix v = Ok (PointIndexT_quadrants ix, outside_error ix c)) /\
  (forall (fo : floatops) g hs ix (polygon : list (list (FPt fo))),
     ixT_rel g (hotLevels g hs) ix -> (gdeep g <= 32)%nat -> 0 < gres g ->
     Forall (fun v => pt_fits g (ofFpt fo v)) (concat polygon) ->
     let P := map (map (ofFpt fo)) polygon in
     exists Q' e, gen_InsertPolygon fo ix polygon = Ok (Q', e) /\
       match foldM (insertPoint g) (concat P) hs with
       | Ok hs' => e = None /\ ixT_rel g (hotLevels g hs') (PointIndexT_with_quadrants ix Q')
       | Err er => er = OutsideGrid /\
                   exists hs1 c, insertAll g hs (concat P) = (hs1, Some c) /\ inGridCoord g c = false /\ e = outside_error ix c /\
                                 ixT_rel g (hotLevels g hs1) (PointIndexT_with_quadrants ix Q')
       end) /\
  (forall (fo : floatops) g (polygon : list (list (FPt fo))),
     (gdeep g <= 32)%nat -> 0 < gres g -> Forall (fun v => pt_fits g (ofFpt fo v)) (concat polygon) ->
     let P := map (map (ofFpt fo)) polygon in
     exists Q' e, gen_InsertPolygon fo (gen_empty_indexT g) polygon = Ok (Q', e) /\
       match insertPolygon g P with
       | Ok hs => e = None /\ ixT_rel g (hotLevels g hs) (PointIndexT_with_quadrants (gen_empty_indexT g) Q')
       | Err er => er = OutsideGrid /\
                   exists hs1 c, insertAll g [] (concat P) = (hs1, Some c) /\ inGridCoord g c = false /\
                                 e = outside_error (gen_empty_indexT g) c /\
                                 ixT_rel g (hotLevels g hs1) (PointIndexT_with_quadrants (gen_empty_indexT g) Q')
       end).
Proof.
  split; [exact gen_InsertPoint_spec |]. split; [exact gen_InsertPolygon_model | exact gen_InsertPolygon_insertPolygon].
Qed.
Print Assumptions C09_source_tie_insert_polygon.

(** the regenerated codec and accessors of package intgeom are the ones the statements above use; floorDiv with
    machine integers is floor division (division by zero: the panic) *)
Theorem C09_source_tie_intgeom : forall fo : floatops,
  (forall z, gen_ToGeomOrd fo z = toF fo z) /\
  (forall f, gen_FromGeomOrd fo f = ofF fo f) /\
  (forall p, gen_Point_ToGeomPoint fo p = toFpt fo p) /\
  (forall p, gen_FromGeomPoint fo p = ofFpt fo p) /\
  (forall l, gen_FromGeomLine fo l = ofFline fo l) /\
  (forall p : pt, gen_Point_X p = fst p /\ gen_Point_Y p = snd p) /\
  (forall e : extent, gen_Extent_MinX (ext_tuple e) = eminx e /\ gen_Extent_MinY (ext_tuple e) = eminy e /\
                      gen_Extent_MaxX (ext_tuple e) = emaxx e /\ gen_Extent_MaxY (ext_tuple e) = emaxy e) /\
  (forall e : extent, is_i64 (emaxx e - eminx e) -> gen_Extent_XSpan (ext_tuple e) = emaxx e - eminx e) /\
  (forall a b, 0 < b -> is_i64 a -> gen_floorDiv64 fo a b = Ok (a / b)) /\
  (forall a, gen_floorDiv64 fo a 0 = Err DivZero).
Proof.
  intro fo. destruct (generated_intgeom_is_model fo) as (H1 & H2 & H3 & H4 & H5 & H6 & H7 & H8).
  repeat (split; [assumption |]). split; [exact (gen_floorDiv64_spec fo) | exact (gen_floorDiv64_zero fo)].
Qed.
Print Assumptions C09_source_tie_intgeom.

(** the regenerated code runs (float operations: exact decimal fixed point, [fo_fixed]; the float 0.5 is 5000000000): on the
    32 x 32 grid of pixel size 0.5, a triangle inside is inserted (no error, the model accepts it too); with a vertex 0.2
    left of the border the result is the OutsideGridError of the address (-1, 20) (F2: not silently moved to pixel 0),
    the vertex BEFORE it stays in the index (level 5 has one quadrant), the model says OutsideGrid *)
Example C09_source_tie_insert_polygon_example :
  let run := fun poly => gen_InsertPolygon fo_fixed (gen_empty_indexT g32) poly in
  let inside := [[(10000000000, 10000000000); (50000000000, 10000000000); (50000000000, 50000000000)]] in
  let outside := [[(50000000000, 50000000000); (-2000000000, 100000000000); (50000000000, 10000000000)]] in
  (match run inside with Ok (Q, None) => map (fun l => length (gm_get_or N.eqb [] Q l)) [0; 1; 5]%N | _ => [] end) = [1; 1; 3]%nat /\
  is_ok (insertPolygon g32 (map (map (ofFpt fo_fixed)) inside)) = true /\
  (match run outside with
   | Ok (Q, Some (ErrOf e)) => Some (OutsideGridError_deepestX e, OutsideGridError_deepestY e, OutsideGridError_deepestSize e,
                                     length (gm_get_or N.eqb [] Q 5%N))
   | _ => None end) = Some (-1, 20, 32%N, 1%nat) /\
  insertPolygon g32 (map (map (ofFpt fo_fixed)) outside) = Err OutsideGrid /\
  gen_InsertPolygon fo_fixed (PointIndexT_with_deepestRes (gen_empty_indexT g32) 0) inside = Err DivZero.
Proof. vm_compute. repeat split; reflexivity. Qed.
