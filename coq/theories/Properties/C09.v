(** * C09 — polygons reaching outside the grid are rejected, never silently moved.

    [insideGrid g p]: p lies in the half-open integer extent [min, min + 2^deepest * res) of the
    index (left and bottom borders belong to it, right and top do not).  Coordinates are the
    tool's integers (units of 1e-10).  [0 < gres g] is the only hypothesis: FromTileMatrixSet
    yields a positive resolution for every tile matrix set whose extent spans at least 2^deepest units
    (otherwise the Go code divides by zero, which the model reports as [Err DivZero]). *)
From Coq Require Import ZArith List Bool Lia.
From Texel Require Import Prelude.Base Index.Model Index.ProofsInsert Index.ProofsGen Snap.Model Snap.ProofsOutside.
From Texel.Gen Require Import PointIndexGen.
Import ListNotations.
Open Scope Z_scope.

(** a polygon is indexed iff EVERY vertex lies inside the half-open extent *)
Theorem C09_insert_iff_inside : forall g P, 0 < gres g ->
  (exists hs, insertPolygon g P = Ok hs) <-> Forall (insideGrid g) (concat P).
Proof. exact insertPolygon_ok_iff. Qed.
Print Assumptions C09_insert_iff_inside.

(** any vertex outside, by any amount and on any side: OutsideGrid *)
Theorem C09_insert_outside : forall g P, 0 < gres g ->
  ~ Forall (insideGrid g) (concat P) <-> insertPolygon g P = Err OutsideGrid.
Proof. exact insertPolygon_outside. Qed.
Print Assumptions C09_insert_outside.

(** SnapPolygon then panics by default and returns the empty result with ignore-outside-grid *)
Theorem C09_snap_outside : forall g P levels cfg, 0 < gres g ->
  ~ Forall (insideGrid g) (concat P) ->
  snapPolygon g P levels cfg = if ignoreOutsideGrid cfg then Ok [] else Err OutsideGrid.
Proof. exact snap_outside. Qed.
Print Assumptions C09_snap_outside.

(** such a vertex is never snapped onto a border pixel: geometry is produced only if all vertices are inside *)
Theorem C09_snapped_only_if_inside : forall g P levels cfg r, 0 < gres g ->
  snapPolygon g P levels cfg = Ok r -> r <> [] -> Forall (insideGrid g) (concat P).
Proof. exact snapped_only_if_inside. Qed.
Print Assumptions C09_snapped_only_if_inside.

(** and a polygon inside is not rejected: snapping proceeds on the indexed polygon *)
Theorem C09_inside_is_snapped : forall g P levels cfg, 0 < gres g ->
  Forall (insideGrid g) (concat P) ->
  exists hs, insertPolygon g P = Ok hs /\ snapPolygon g P levels cfg = snapIndexed g hs P levels cfg.
Proof. exact snap_inside. Qed.
Print Assumptions C09_inside_is_snapped.

(** tie G2: the address computation of InsertPoint and the range test of InsertCoord REGENERATED from
    pointindex.go on this run are the model's [deepestCoord] and [inGridCoord] (floor division included) *)
Theorem C09_source_tie :
  (forall g p, 0 < gres g -> gen_InsertPoint_coord (ix_of g) p = deepestCoord g p) /\
  (forall g x y, gen_InsertCoord_outside (ix_of g) x y = negb (inGridCoord g (x, y))).
Proof. split; [exact gen_InsertPoint_coord_spec | exact gen_InsertCoord_outside_spec]. Qed.
Print Assumptions C09_source_tie.

(** ... and the resolution FromTileMatrixSet derives (REGENERATED from source) is the x span divided by the pixel
    count rounded DOWN, so the accepted region min + 2^d * res never reaches beyond the extent of the tile
    matrix set: a vertex on or beyond its right border is outside ([insideGrid]) on any such grid *)
Theorem C09_source_tie_resolution : forall e d, eminx e <= emaxx e ->
  gen_deepestRes (ext_tuple e) (pow2 d) = (emaxx e - eminx e) / pow2 d.
Proof. exact gen_deepestRes_spec. Qed.
Print Assumptions C09_source_tie_resolution.

Theorem C09_accepted_region_within_extent : forall e d p, eminx e <= emaxx e ->
  let g := mkGrid e ((emaxx e - eminx e) / pow2 d) d in
  insideGrid g p -> fst p < emaxx e.
Proof.
  intros e d p He g [[_ Hx] _]. unfold g, gsize in Hx. cbn [gext gres gdeep] in Hx.
  assert (Hp : 0 < pow2 d) by (unfold pow2; apply Z.pow_pos_nonneg; lia).
  pose proof (Z.mul_div_le (emaxx e - eminx e) (pow2 d) Hp). lia.
Qed.
Print Assumptions C09_accepted_region_within_extent.

(** non-vacuity / regression of F2: grid 32x32 px of 0.5 at the origin; a vertex 0.2 left of the
    border (less than one pixel outside) is rejected, a vertex exactly on the left border is accepted,
    a vertex exactly on the right border is rejected. *)
Definition g32 : grid := mkGrid (mkExtent 0 0 160000000000 160000000000) 5000000000 5.
Example C09_regression_F2 :
  0 < gres g32 /\
  insertPolygon g32 [[(-2000000000, 10000000000); (50000000000, 10000000000); (50000000000, 50000000000)]] = Err OutsideGrid /\
  is_ok (insertPolygon g32 [[(0, 10000000000); (50000000000, 10000000000); (50000000000, 50000000000)]]) = true /\
  insertPolygon g32 [[(160000000000, 10000000000); (50000000000, 10000000000); (50000000000, 50000000000)]] = Err OutsideGrid /\
  snapPolygon g32 [[(-1, 10000000000); (50000000000, 10000000000); (50000000000, 50000000000)]] [5%nat]
     (mkConfig false true false) = Ok [].
Proof. vm_compute. repeat split; reflexivity. Qed.
