(** * C15 — tile addressing is self-consistent in x,y order.

    Theorems over exact rationals about [fromNativeTM] / [toNativeTM] / [matrixBBoxTM] (one tile matrix, point of
    origin already in x,y order) and [fromNative] / [toNative] / [matrixBoundingBox] (a set: lookup of the matrix,
    refusal of variable widths, axis swap) of Tms/Model.v, the model of tms20.FromNative / ToNative /
    MatrixBoundingBox / ToXYPoint / IsLatLon.

    PARTIAL in the float clause: the implementation computes in float64 and rounds corners to 9 decimals; that is
    not modelled.  The correspondence C15 (harness_tms/c15.go) checks on every run that for points at least 1e-6
    tile sizes away from every tile border the implementation returns exactly the model's tile, and corners /
    bounding boxes within 1e-9 x scale, for every matrix of every built-in document in both corner conventions. *)
From Coq Require Import ZArith QArith String List Bool.
From Texel Require Import Tms.Json Tms.Model Tms.ProofsC15.
From Texel.Gen Require Import ConstsGen TmsData.
Import ListNotations.
Open Scope Z_scope.

(** For every tile matrix (any corner convention, any origin), every tile (x, y) in range and every interior offset
    0 < fx, fy < 1: ToNative gives a corner (the top-left one), and FromNative of corner + (fx w, - fy h) is (x, y). *)
Theorem C15_from_to_native : forall m o x y fx fy,
  tm_positive m ->
  0 <= x < tm_matrixWidth m -> 0 <= y < tm_matrixHeight m ->
  (0 < fx)%Q -> (fx < 1)%Q -> (0 < fy)%Q -> (fy < 1)%Q ->
  exists cx cy, toNativeTM m o (x, y) = Some (cx, cy) /\
    fromNativeTM m o ((cx + fx * tileSpanX m)%Q, (cy - fy * tileSpanY m)%Q) = Some (x, y).
Proof. exact from_to_native_lemma. Qed.
Print Assumptions C15_from_to_native.

(** FromNative answers (x, y) exactly for the points of the half-open tile (x, y) of the matrix: left/origin-side
    borders included, the opposite ones excluded ([yoff] = distance from the origin row, downwards for topLeft,
    upwards for bottomLeft). *)
Theorem C15_fromNative_spec : forall m o pt x y,
  tm_positive m ->
  (fromNativeTM m o pt = Some (x, y) <->
   0 <= x < tm_matrixWidth m /\ 0 <= y < tm_matrixHeight m /\
   (inject_Z x * tileSpanX m <= fst pt - fst o)%Q /\ (fst pt - fst o < inject_Z (x + 1) * tileSpanX m)%Q /\
   (inject_Z y * tileSpanY m <= yoff m o pt)%Q /\ (yoff m o pt < inject_Z (y + 1) * tileSpanY m)%Q).
Proof. exact fromNative_spec_lemma. Qed.
Print Assumptions C15_fromNative_spec.

(** Points outside the matrix extent map to no tile. *)
Theorem C15_outside_none : forall m o pt,
  tm_positive m ->
  ((fst pt - fst o < 0)%Q \/ (inject_Z (tm_matrixWidth m) * tileSpanX m <= fst pt - fst o)%Q \/
   (yoff m o pt < 0)%Q \/ (inject_Z (tm_matrixHeight m) * tileSpanY m <= yoff m o pt)%Q) ->
  fromNativeTM m o pt = None.
Proof. exact outside_none_lemma. Qed.
Print Assumptions C15_outside_none.

(** ToNative is the top-left corner of the tile in both conventions: the origin-side corner of (x, y) for topLeft,
    of (x, y + 1) for bottomLeft; tiles up to (width, height) are answered. *)
Theorem C15_toNative_corner : forall m o x y,
  x <= tm_matrixWidth m -> y <= tm_matrixHeight m ->
  toNativeTM m o (x, y) = Some (originCornerTM m o (x, if is_bottom_left m then y + 1 else y)).
Proof. exact toNative_is_corner. Qed.
Print Assumptions C15_toNative_corner.

(** The bounding box spans exactly from the origin-side corner of tile (0, 0) to that of tile (width, height). *)
Theorem C15_bbox_spec : forall m o,
  let c00 := originCornerTM m o (0, 0) in
  let cWH := originCornerTM m o (tm_matrixWidth m, tm_matrixHeight m) in
  let '(bl, tr) := matrixBBoxTM m o in
  if is_bottom_left m
  then Qeq2 bl c00 /\ Qeq2 tr cWH
  else Qeq2 bl (fst c00, snd cWH) /\ Qeq2 tr (fst cWH, snd c00).
Proof. exact bbox_spec_lemma. Qed.
Print Assumptions C15_bbox_spec.

(** x,y order: for a matrix without variable widths the set-level functions are the per-matrix ones applied to the
    point of origin after ToXYPoint, i.e. swapped iff the CRS is lat/lon ([tms_swaps]); swapping twice is the identity. *)
Theorem C15_xy_order : forall t z m s p,
  find_tm z (t_matrices t) = Some m -> vmw_nonempty m = false ->
  tm_origin m = Some p -> tms_swaps t = Ok s ->
  let o := toXY s (qpoint p) in
  (forall pt, fromNative t z pt = Ok (fromNativeTM m o pt)) /\
  (forall tile, toNative t z tile = Ok (toNativeTM m o tile)) /\
  matrixBoundingBox t z = Ok (matrixBBoxTM m o).
Proof. exact set_level_lemma. Qed.
Print Assumptions C15_xy_order.

Theorem C15_toXY_involutive : forall (s : bool) (p : Q * Q), toXY s (toXY s p) = p.
Proof. exact toXY_involutive. Qed.
Print Assumptions C15_toXY_involutive.

(** By computation over the regenerated documents and the regenerated EPSG table (finite domain: the built-in
    documents): the axis order of every built-in set is decided by its CRS (never by the orderedAxes fall-back, never
    an error) and is lat/lon exactly when the document's own orderedAxes start with Lat / Y / N; every matrix has
    an origin. *)
Theorem C15_xy_order_builtin : forall name doc, In (name, doc) gen_tms_documents ->
  exists t b, decodeTMS doc = Ok t /\ isLatLon (t_crs t) = Ok b /\ tms_swaps t = Ok b /\
              first_axis_northing (t_orderedAxes t) = Some b /\
              forall z m, In (z, m) (t_matrices t) -> exists p, tm_origin m = Some p.
Proof. exact xy_order_builtin_lemma. Qed.
Print Assumptions C15_xy_order_builtin.

(** when the CRS answers, the (informative) orderedAxes play no part: ToXYPoint swaps exactly when the CRS is lat/lon *)
Theorem C15_crs_decides_axis_order : forall t b, isLatLon (t_crs t) = Ok b -> tms_swaps t = Ok b.
Proof. intros t b H. unfold tms_swaps. rewrite H. reflexivity. Qed.
Print Assumptions C15_crs_decides_axis_order.

(** the orderedAxes fall-back (CRS authority unknown, i.e. none of the built-in sets): northing-first orders are swapped,
    easting-first orders are not — for every spelling of the recognised axis names (regression of defect F15: the two
    patterns were the wrong way round, so a set with orderedAxes [X, Y] had its point of origin mirrored) *)
Theorem C15_fallback_axis_order : forall a b rest r, In (to_lower a, to_lower b, r) axis_table ->
  axisOrderIsLatLon (Some (a :: b :: rest)) = Ok r.
Proof. exact fallback_axis_order. Qed.
Print Assumptions C15_fallback_axis_order.

Example C15_regression_F15 :
  axisOrderIsLatLon (Some ["X"; "Y"]%string) = Ok false /\ axisOrderIsLatLon (Some ["E"; "N"]%string) = Ok false /\
  axisOrderIsLatLon (Some ["Lat"; "Lon"]%string) = Ok true /\ axisOrderIsLatLon (Some ["Lon"; "Lat"]%string) = Ok false /\
  axisOrderIsLatLon (Some ["Y"; "X"]%string) = Ok true.
Proof. repeat split; reflexivity. Qed.

(** ** Non-vacuity *)
(** WGS1984Quad (EPSG:4326, lat/lon: origin [90, -180] becomes (-180, 90)), matrix 3, tile (5, 2), offset (1/3, 3/4) *)
Example C15_example_latlon : exists t m p,
  decodeTMS gen_doc_WGS1984Quad = Ok t /\ find_tm 3 (t_matrices t) = Some m /\ tm_origin m = Some p /\
  tms_swaps t = Ok true /\ toXY true (qpoint p) = ((-180)%Q, 90%Q) /\
  toNative t 3 (5, 2) = Ok (Some ((-180 + 5 * (256 * dq (tm_cellSize m)))%Q, (90 - 2 * (256 * dq (tm_cellSize m)))%Q)) /\
  fromNative t 3 ((-180 + 5 * (256 * dq (tm_cellSize m)) + (1 # 3) * (256 * dq (tm_cellSize m)))%Q,
                  (90 - 2 * (256 * dq (tm_cellSize m)) - (3 # 4) * (256 * dq (tm_cellSize m)))%Q) = Ok (Some (5, 2)).
Proof.
  eexists. eexists. eexists. split; [vm_compute; reflexivity|]. split; [vm_compute; reflexivity|].
  split; [vm_compute; reflexivity|]. repeat split; vm_compute; reflexivity.
Qed.

(** the bottom-left test document: tile (1, 1) of the 2 x 4 matrix, its top-left corner is (256, 512) *)
Example C15_example_bottom_left : exists t m,
  decodeTMS gen_testdoc_SomethingWithBottomLeftAndLatLonAndDoubleHeight = Ok t /\
  find_tm 0 (t_matrices t) = Some m /\ is_bottom_left m = true /\ tm_positive m /\
  (exists c, toNative t 0 (1, 1) = Ok (Some c) /\ Qeq2 c (256 # 1, 512 # 1)%Q) /\
  fromNative t 0 (256 + 100, 512 - 100)%Q = Ok (Some (1, 1)) /\
  fromNative t 0 (256 + 100, 1024 + 1)%Q = Ok None.
Proof.
  eexists. eexists. split; [vm_compute; reflexivity|]. split; [vm_compute; reflexivity|].
  split; [vm_compute; reflexivity|]. split.
  - unfold tm_positive. repeat split; vm_compute; reflexivity.
  - split; [eexists; split; [vm_compute; reflexivity|split; vm_compute; reflexivity]|].
    split; vm_compute; reflexivity.
Qed.

(** ** Source tie (tie G2): the tile-addressing functions of tms20/tms20.go are the model's.

    REGENERATED on every run by translator/tmsaddr.go into gen/TmsAddrGen.v, statement by statement, from the bodies of
    axisOrderIsLatLon, IsLatLon, ToXYPoint, TileMatrixSet.MatrixSize, FromNative, ToNative, MatrixBoundingBox (and
    roundFloat): the two regular expressions of the orderedAxes fall-back (the locus of defect F15) as prefix tests and
    the order in which they are tried, the OGC:CRS84 exception / the "epsg" test / the parse of the code / the look-up
    in the EPSG table of IsLatLon, the fall-back from IsLatLon to axisOrderIsLatLon and the swap of ToXYPoint, the map
    lookups and the refusal of a missing id, the panic on variable matrix widths / a nil point of origin / an
    undeterminable axis order, the tile spans, both half-open tile tests of FromNative ([x < 0], [ux >= MatrixWidth], ...)
    in both corner conventions (the switch with its default/fallthrough), the [>] (not [>=]) range test of ToNative and
    its [Y + 1] for bottomLeft, the sizes and the corners of the bounding box.  The theorem says these definitions
    EQUAL the hand-written model ([=], all inputs), through the fixed encodings of Go's result lists ([enc_tile]:
    (nil, false) / (&Tile{zoom, x, y}, true); [enc_point]: (zero point, false) / (corner, true); [tm_at]: the zero tile
    matrix for a missing id) of Tms/ProofsGenAddr.v.

    TRUSTED reading (Tms/GoAddr.v): float64 arithmetic as EXACT arithmetic over Q ([+ - * /], [<] = [Qltb],
    [float64(u)] = [inject_Z], [uint(f)] = truncation toward zero, shown to be the model's floor behind the [< 0] test);
    uint / int as exact Z; pointers as options; the model's data types.  The float envelope is held by the run-time
    correspondence C15, not by this theorem.
    Stays MODELLED (mapped by the translator after checking the shape of the call / declaration in the AST):
    crs.Authority() / .Version() / .Code() = [crs_avc], strings.ToLower = [to_lower], strconv.ParseUint(s, 10, 64) =
    [parse_uint], fmt.Sprintf of %s verbs = concatenation, regexp `^(p1|p2|..)`.Match = "starts with one of",
    epsgAxesAreLatLon[k] = the table regenerated into gen/TmsData.v, CALLS of roundFloat(f, 9) = f (the model does not
    round; C15_source_tie_roundFloat bounds what the translated body does), slippy.NewTile / (geom.Point).X() / .Y(),
    fmt.Errorf / errors.New as a returned error = [Error]. *)
From Coq Require Import Qabs.
From Texel Require Import Tms.GoAddr Tms.ProofsGenAddr.
From Texel.Gen Require Import TmsAddrGen.

Theorem C15_source_tie_addressing :
  (forall a, gen_axisOrderIsLatLon a = axisOrderIsLatLon a) /\
  (forall c, gen_IsLatLon c = isLatLon c) /\
  (forall t p, gen_ToXYPoint t p = (do s <- tms_swaps t; Ok (toXY s p))) /\
  (forall t z pt, gen_FromNative t z pt = enc_tile z (fromNative t z pt)) /\
  (forall t z x y, gen_ToNative t (Some (z, x, y)) = enc_point (toNative t z (x, y))) /\
  (forall t z, gen_MatrixSize t z = if vmw_nonempty (tm_at t z) then Panic else Ok (matrixSizeTM (tm_at t z))) /\
  (forall t z, gen_MatrixBoundingBox t z = matrixBoundingBox t z).
Proof. exact source_tie_addressing. Qed.
Print Assumptions C15_source_tie_addressing.

(** the same against the per-matrix functions the theorems above are about *)
Theorem C15_source_tie_addressing_tm : forall t z m s p,
  find_tm z (t_matrices t) = Some m -> vmw_nonempty m = false ->
  tm_origin m = Some p -> tms_swaps t = Ok s ->
  let o := toXY s (qpoint p) in
  (forall pt, gen_FromNative t z pt = enc_tile z (Ok (fromNativeTM m o pt))) /\
  (forall x y, gen_ToNative t (Some (z, x, y)) = enc_point (Ok (toNativeTM m o (x, y)))) /\
  gen_MatrixSize t z = Ok (matrixSizeTM m) /\
  gen_MatrixBoundingBox t z = Ok (matrixBBoxTM m o).
Proof. exact source_tie_addressing_tm. Qed.
Print Assumptions C15_source_tie_addressing_tm.

(** roundFloat is translated as well ([math.Round] = nearest integer, halves away from zero; [math.Pow(10, p)] = 10^p,
    exact); its CALLS in the functions above are the identity of the model, and that is within half a unit of the
    last kept decimal of what the translated body returns: the rounding of the implementation cannot move a corner by
    more than 5e-10 (CoordPrecision = 9) in exact arithmetic *)
Theorem C15_source_tie_roundFloat :
  (forall f p, exists r, gen_roundFloat f p = Ok r /\ (Qabs (r - f) <= (1 # 2) / pow10Q p)%Q) /\
  (forall f, exists r, gen_roundFloat f gen_tms20_CoordPrecision = Ok r /\ (Qabs (r - f) <= 1 # 2000000000)%Q).
Proof. exact (conj gen_roundFloat_near gen_roundFloat_near_9). Qed.
Print Assumptions C15_source_tie_roundFloat.

(** the regenerated code runs: WGS1984Quad (lat/lon, origin swapped to (-180, 90)), matrix 3: the tile of a point, the
    corner of tile (5, 2), a point left of the matrix, a missing matrix; the bottom-left test document: the top-left
    corner of tile (1, 1) and the bounding box of its 2 x 4 matrix of 256 x 256 tiles; the axis order of EPSG:28992
    (x, y), EPSG:4326 (lat, lon), OGC:CRS84 and of the orderedAxes fall-back (regression of F15); rounding *)
Example C15_source_tie_example : exists t t',
  decodeTMS gen_doc_WGS1984Quad = Ok t /\
  decodeTMS gen_testdoc_SomethingWithBottomLeftAndLatLonAndDoubleHeight = Ok t' /\
  gen_FromNative t 3 ((-180 + 45 * 5 / 2 + 1)%Q, (90 - 45 * 2 / 2 - 1)%Q) = Ok (Some (3, 5, 2), true) /\
  gen_FromNative t 3 ((-181)%Q, 0%Q) = Ok (None, false) /\
  gen_FromNative t 99 (0%Q, 0%Q) = Ok (None, false) /\
  (exists c, gen_ToNative t (Some (3, 5, 2)) = Ok (c, true) /\ Qeq2 c ((-135 # 2)%Q, 45%Q)) /\
  gen_ToNative t (Some (3, 17, 0)) = Ok ((0%Q, 0%Q), false) /\
  (exists c, gen_ToNative t' (Some (0, 1, 1)) = Ok (c, true) /\ Qeq2 c (256 # 1, 512 # 1)%Q) /\
  (exists bl tr, gen_MatrixBoundingBox t' 0 = Ok (bl, tr) /\ Qeq2 bl (0%Q, 0%Q) /\ Qeq2 tr (512 # 1, 1024 # 1)%Q) /\
  gen_MatrixBoundingBox t' 7 = Error /\
  gen_IsLatLon (CrsURI "" "http://www.opengis.net/def/crs/EPSG/0/28992" true) = Ok false /\
  gen_IsLatLon (CrsURI "" "urn:ogc:def:crs:EPSG::4326" false) = Ok true /\
  gen_IsLatLon (CrsURI "" "http://www.opengis.net/def/crs/OGC/1.3/CRS84" true) = Ok false /\
  gen_IsLatLon (CrsURI "" "http://www.opengis.net/def/crs/EPSG/0/1" true) = Error /\
  gen_IsLatLon (CrsRef "" []) = Panic /\
  gen_axisOrderIsLatLon (Some ["X"; "Y"]%string) = Ok false /\ gen_axisOrderIsLatLon (Some ["Lat"; "Lon"]%string) = Ok true /\
  gen_axisOrderIsLatLon (Some ["E"]%string) = Error /\ gen_axisOrderIsLatLon (Some ["up"; "down"]%string) = Error /\
  (exists r, gen_roundFloat (12345678915 # 10000000000) 9 = Ok r /\ (r == 1234567892 # 1000000000)%Q) /\
  (exists r, gen_roundFloat (- (5 # 10000000000)) 9 = Ok r /\ (r == - (1 # 1000000000))%Q).
Proof.
  eexists. eexists. split; [vm_compute; reflexivity|]. split; [vm_compute; reflexivity|].
  split; [vm_compute; reflexivity|]. split; [vm_compute; reflexivity|]. split; [vm_compute; reflexivity|].
  split; [eexists; split; [vm_compute; reflexivity|split; vm_compute; reflexivity]|].
  split; [vm_compute; reflexivity|].
  split; [eexists; split; [vm_compute; reflexivity|split; vm_compute; reflexivity]|].
  split; [eexists; eexists; split; [vm_compute; reflexivity|split; split; vm_compute; reflexivity]|].
  repeat (split; [vm_compute; reflexivity|]).
  split; eexists; (split; [vm_compute; reflexivity|vm_compute; reflexivity]).
Qed.
