(** * C01 — snapping never introduces crossing edges.

    STATUS.  The full statement
      forall valid P inside the grid, forall requested level, no two edges of the returned rings cross properly
    is FALSE of the faithful model and of the implementation (finding F5: kmpDeduplicate invents an edge on
    chains that visit a pixel centre four times or more): [C01_refuted] below, witness replayed on the real
    code.  What is proved here:
    - the oracles the search uses are exact / sound: [C01_cross_oracle_exact], [C01_cross_parametric],
      [C01_touch_oracle_complete], [C01_adjacent_oracle_sound], [C01_validity_oracle_sound];
    - the geometric core of snap rounding for ROUTED edges (the edges C02 produces):
      [C01_partial_routed_edge_close] and [C01_partial_sweep_lemma] / [C01_partial_sweep_pixels].
    NOT proved: the global implication "valid input and every output edge is a routed edge => no proper
    crossing" (the Guibas-Marimont deformation argument: move every point towards the centre of its pixel
    and show that no vertex ever passes through an edge; the sweep lemma is its algebraic step, the
    topological continuity / planarity part is missing).  Everything named [C01_partial_*] is a step of
    that argument, not the property.

    Vocabulary (Geom/*.v, Snap/ProofsGeomTie*.v).  Points are integer pairs (units of 1e-10).
    - [orient3 a b c]: twice the signed area of the triangle (Snap.Model's [orient] is the winding of a ring);
    - [proper_cross a b c d]: c, d strictly on opposite sides of line ab and a, b strictly on opposite sides of
      line cd (touching and collinear overlap are not proper crossings); [cross_b] its boolean;
    - [edges ps]: the undirected edges of all rings of the polygons returned for one level, rings taken
      cyclically, a 2-vertex ring giving one edge and a 1-vertex ring none; [edge_cross(_b) e f] on edges;
    - [SegsShare a b c d]: the closed segments have a common point (rational parameters in [0,1]);
    - [valid_polygon P]: see Geom/Polygon.v; [valid_polygon_b] its executable version;
    - [co from to t] = from + t (to - from);  [segPt a b t] the point of segment ab with parameter t;
    - [between c1 c2 lam] = (1 - lam) c1 + lam c2;  [ChebLe H p q]: Chebyshev distance at most H;
    - [halfSpan g L] = half the pixel size of level L;  [ExactMiddle g L]: L above the deepest level or even
      resolution, so that centroids are exact middles (otherwise half a unit is lost, C03). *)
From Coq Require Import ZArith QArith List Bool.
From Texel Require Import Prelude.Base Index.Model Index.ProofsInsert Index.ProofsLine Index.ProofsRouting
  Snap.Model Geom.Cross Geom.Touch Geom.Polygon Geom.Close Snap.ProofsGeomTieRoute Snap.ProofsGeomTieRefute.
Import ListNotations.
Open Scope Z_scope.

(** ** oracles *)
Theorem C01_cross_oracle_exact : forall a b c d, cross_b a b c d = true <-> proper_cross a b c d.
Proof. exact cross_b_spec. Qed.
Print Assumptions C01_cross_oracle_exact.

(** a proper crossing is exactly: the segments are not parallel and have a common point strictly inside both *)
Theorem C01_cross_parametric : forall a b c d,
  proper_cross a b c d <->
  cross2 a b c d <> 0 /\
  exists s t : Q, (0 < s /\ s < 1 /\ 0 < t /\ t < 1 /\
    co (fst a) (fst b) s == co (fst c) (fst d) t /\ co (snd a) (snd b) s == co (snd c) (snd d) t)%Q.
Proof. exact proper_cross_iff_param. Qed.
Print Assumptions C01_cross_parametric.

(** the "segments touch" test never misses a common point *)
Theorem C01_touch_oracle_complete : forall a b c d, SegsShare a b c d -> segs_touch_b a b c d = true.
Proof. exact segs_share_touch. Qed.
Print Assumptions C01_touch_oracle_complete.

(** two consecutive edges that pass the test have only their common vertex in common *)
Theorem C01_adjacent_oracle_sound : forall a b c, adj_ok_b a b c = true ->
  forall s t : Q, (0 <= s -> s <= 1 -> 0 <= t -> t <= 1 ->
    co (fst a) (fst b) s == co (fst b) (fst c) t -> co (snd a) (snd b) s == co (snd b) (snd c) t ->
    s == 1 /\ t == 0)%Q.
Proof. exact adj_ok_sound. Qed.
Print Assumptions C01_adjacent_oracle_sound.

Theorem C01_validity_oracle_sound : forall P, valid_polygon_b P = true -> valid_polygon P.
Proof. exact valid_polygon_b_sound. Qed.
Print Assumptions C01_validity_oracle_sound.

(** ** geometry of routed edges (steps of the argument, not the property) *)

(** every point between the centroids of two pixels met by the closed segment a b is within half a pixel
    (Chebyshev) of a point of a b *)
Theorem C01_partial_routed_edge_close : forall g L a b q1 q2 lam, ExactMiddle g L ->
  Meets a b (pixExt g L q1) -> Meets a b (pixExt g L q2) -> (0 <= lam -> lam <= 1 ->
  exists t, 0 <= t /\ t <= 1 /\
    ChebLe (halfSpan g L) (between (pixCen g L q1) (pixCen g L q2) lam) (segPt a b t))%Q.
Proof. exact routed_edge_close. Qed.
Print Assumptions C01_partial_routed_edge_close.

(** without exact middles: half a unit (0.5e-10) more *)
Theorem C01_partial_routed_edge_close_general : forall g L a b q1 q2 lam,
  Meets a b (pixExt g L q1) -> Meets a b (pixExt g L q2) -> (0 <= lam -> lam <= 1 ->
  exists t, 0 <= t /\ t <= 1 /\
    ChebLe (halfSpan g L + (1 # 2)) (between (pixCen g L q1) (pixCen g L q2) lam) (segPt a b t))%Q.
Proof. exact routed_edge_close_general. Qed.
Print Assumptions C01_partial_routed_edge_close_general.

(** the sweep lemma over Q: squares of half-size h; a' in the square of c1, b' in the square of c2, v in the
    square of d; all points move the fraction lam of the way to their centres; if the moved v lies on the moved
    edge at parameter mu, the point mu between a' and b' lies in the square of d *)
Theorem C01_partial_sweep_lemma : forall (h lam mu : Q) (a' b' c1 c2 v d : Q * Q),
  (0 <= lam)%Q -> (lam <= 1)%Q -> (0 <= mu)%Q -> (mu <= 1)%Q ->
  InSq h c1 a' -> InSq h c2 b' -> InSq h d v ->
  peq (mix lam v d) (mix mu (mix lam a' c1) (mix lam b' c2)) ->
  InSq h d (mix mu a' b').
Proof. exact sweep_lemma. Qed.
Print Assumptions C01_partial_sweep_lemma.

(** on pixels: the source segment is in pixel q1 at parameter ta and in q2 at tb; v a point of the hot pixel qd;
    if the moved v lies on the moved edge at parameter mu then the source segment is in qd at the parameter mu of
    the way from ta to tb (hence between them) *)
Theorem C01_partial_sweep_pixels : forall g L a b q1 q2 qd (ta tb lam mu : Q) (v : Q * Q), ExactMiddle g L ->
  (0 <= lam)%Q -> (lam <= 1)%Q -> (0 <= mu)%Q -> (mu <= 1)%Q ->
  PIn a b ta (pixExt g L q1) -> PIn a b tb (pixExt g L q2) ->
  let cen q := (inject_Z (fst (pixCen g L q)), inject_Z (snd (pixCen g L q))) in
  InSq (halfSpan g L) (cen qd) v ->
  peq (mix lam v (cen qd)) (mix mu (mix lam (segPt a b ta) (cen q1)) (mix lam (segPt a b tb) (cen q2))) ->
  PIn a b ((1 - mu) * ta + mu * tb)%Q (pixExt g L qd).
Proof. exact sweep_pixels. Qed.
Print Assumptions C01_partial_sweep_pixels.

(** ** the refutation (F5) *)

(** boolean form: grid 64 x 64 px of 0.5 (deepest level 6), levels [5; 6], all flags off; the polygon [PC01]
    (12-vertex shell, 5-vertex hole) is valid and inside the grid; the result for level 5 is the single ring
    (48.5,52.5) (49.5,54.5) (49.5,53.5) (48.5,53.5) whose first and third edges cross at (49, 53.5) *)
Theorem C01_refuted :
  exists g P levels cfg r L ps e f,
    valid_polygon_b P = true /\ Forall (insideGrid g) (concat P) /\
    snapPolygon g P levels cfg = Ok r /\ In (L, ps) r /\
    In e (edges ps) /\ In f (edges ps) /\ edge_cross_b e f = true.
Proof. exact cross_witness. Qed.
Print Assumptions C01_refuted.

(** hence the implication "valid input => no proper crossing" is false of the model *)
Theorem C01_refuted_implication :
  ~ (forall g P levels cfg r L ps, 0 < gres g -> valid_polygon P -> Forall (insideGrid g) (concat P) ->
       snapPolygon g P levels cfg = Ok r -> In (L, ps) r ->
       forall e f, In e (edges ps) -> In f (edges ps) -> ~ edge_cross e f).
Proof. exact no_cross_refuted. Qed.
Print Assumptions C01_refuted_implication.

(** ** non-vacuity *)

(** the concrete witness *)
Example C01_witness :
  valid_polygon_b PC01 = true /\
  (exists r6, snapPolygon gC01 PC01 [5%nat; 6%nat] cfg0 = Ok [(5%nat, [[ringC01]]); (6%nat, r6)]) /\
  edges [[ringC01]] =
    [((485000000000, 525000000000), (495000000000, 545000000000));
     ((495000000000, 545000000000), (495000000000, 535000000000));
     ((495000000000, 535000000000), (485000000000, 535000000000));
     ((485000000000, 535000000000), (485000000000, 525000000000))] /\
  edge_cross_b eC01 fC01 = true.
Proof.
  split; [exact C01_witness_valid |]. split; [exact C01_witness_result |]. split; vm_compute; reflexivity.
Qed.

(** the oracles distinguish crossing from touching, and reject a bow-tie *)
Example C01_oracle_examples :
  cross_b (0, 0) (4, 4) (0, 4) (4, 0) = true /\          (* X *)
  cross_b (0, 0) (4, 4) (2, 2) (4, 0) = false /\         (* T: touching *)
  cross_b (0, 0) (4, 4) (2, 2) (6, 6) = false /\         (* collinear overlap *)
  segs_touch_b (0, 0) (4, 4) (2, 2) (4, 0) = true /\
  segs_touch_b (0, 0) (4, 4) (5, 5) (6, 6) = false /\
  valid_polygon_b [[(0, 0); (4, 0); (4, 4); (0, 4)]; [(1, 1); (1, 2); (2, 2); (2, 1)]] = true /\
  valid_polygon_b [[(0, 0); (4, 4); (4, 0); (0, 4)]] = false /\                            (* bow-tie *)
  valid_polygon_b [[(0, 0); (4, 0); (4, 4); (0, 4)]; [(3, 3); (3, 5); (5, 5); (5, 3)]] = false /\  (* hole pokes out *)
  valid_polygon_b [[(0, 0); (4, 0); (2, 0)]] = false /\                                    (* zero area *)
  edges [[[(0, 0); (4, 0); (4, 4)]]; [[(0, 0); (1, 1)]; [(5, 5)]]] =
    [((0, 0), (4, 0)); ((4, 0), (4, 4)); ((4, 4), (0, 0)); ((0, 0), (1, 1))].
Proof. vm_compute. repeat split; reflexivity. Qed.

(** the hypotheses of routed_edge_close hold on the C02 example (grid 16 x 16 px of 1.0, level 4, edge
    (7, 5.5) -> (5, 6.5), pixels (7,5) and (6,6)) *)
Example C01_routed_edge_close_example :
  let g := mkGrid (mkExtent 0 0 160000000000 160000000000) 10000000000 4 in
  let a := (70000000000, 55000000000) in let b := (50000000000, 65000000000) in
  ExactMiddle g 4 /\ Meets a b (pixExt g 4 (7, 5)) /\ Meets a b (pixExt g 4 (6, 6)) /\
  (halfSpan g 4 == 5000000000 # 1)%Q.
Proof.
  cbv zeta. split; [right; reflexivity |].
  split; [apply lineIntersects_spec; vm_compute; reflexivity |].
  split; [apply lineIntersects_spec; vm_compute; reflexivity | vm_compute; reflexivity].
Qed.
