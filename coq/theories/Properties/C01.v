(** placeholder until the C01 theorems are in place *)
From Texel Require Import Prelude.Base.
