(** * C01 — snapping never introduces crossing edges.

    STATUS.  The full statement
      forall valid P inside the grid, forall requested level, no two edges of the returned rings cross properly
    is FALSE of the faithful model and of the implementation (finding F5: kmpDeduplicate invents an edge on
    chains that visit a pixel centre four times or more): [C01_refuted] below, witness replayed on the real
    code.  What is proved here:
    - the oracles the search uses are exact / sound: [C01_cross_oracle_exact], [C01_cross_parametric],
      [C01_touch_oracle_complete], [C01_adjacent_oracle_sound], [C01_validity_oracle_sound];
    - the geometric core of snap rounding for ROUTED edges (the edges C02 produces):
      [C01_partial_routed_edge_close] and [C01_partial_sweep_lemma] / [C01_partial_sweep_pixels].
    - on the class of C18, end to end (section at the end of this file): returned edges whose source edges are
      farther than one pixel apart do not meet ([C01_partial_far_edges_do_not_meet]); two steps of one routed chain
      do not cross ([C01_partial_same_chain_no_cross]);
    - PROVED ON THE CLASS OF C18 (no routed-and-cleaned ring visits a pixel centre at three positions), where
      every returned edge is a routed step: [C01_routed_steps_do_not_cross] (valid polygon => no two routed steps
      cross properly: the Guibas-Marimont deformation argument — move every point towards the centre of its
      pixel; a crossing needs a first contact; at a contact the sweep lemma and the travel order force a shared end
      point) and [C01_on_class] (no two edges of the returned geometry of a level cross), last section of this
      file.  These two depend on the standard library's axioms for the real numbers (the contact time is
      irrational in general); everything else in the development is axiom free.
    Beyond the class the property is false (F5).  Theorems named [C01_partial_*] are steps of the argument.

    Vocabulary (Geom/*.v, Snap/ProofsGeomTie*.v).  Points are integer pairs (units of 1e-10).
    - [orient3 a b c]: twice the signed area of the triangle (Snap.Model's [orient] is the winding of a ring);
    - [proper_cross a b c d]: c, d strictly on opposite sides of line ab and a, b strictly on opposite sides of
      line cd (touching and collinear overlap are not proper crossings); [cross_b] its boolean;
    - [edges ps]: the undirected edges of all rings of the polygons returned for one level, rings taken
      cyclically, a 2-vertex ring giving one edge and a 1-vertex ring none; [edge_cross(_b) e f] on edges;
    - [SegsShare a b c d]: the closed segments have a common point (rational parameters in [0,1]);
    - [valid_polygon P]: see Geom/Polygon.v; [valid_polygon_b] its executable version;
    - [co from to t] = from + t (to - from);  [segPt a b t] the point of segment ab with parameter t;
    - [between c1 c2 lam] = (1 - lam) c1 + lam c2;  [ChebLe H p q]: Chebyshev distance at most H;
    - [halfSpan g L] = half the pixel size of level L;  [ExactMiddle g L]: L above the deepest level or even
      resolution, so that centroids are exact middles (otherwise half a unit is lost, C03). *)
From Coq Require Import ZArith QArith List Bool.
From Texel Require Import Prelude.Base Index.Model Index.ProofsInsert Index.ProofsLine Index.ProofsRouting
  Snap.Model Geom.Cross Geom.Touch Geom.Polygon Geom.Close Snap.ProofsGeomTieRoute Snap.ProofsGeomTieRefute.
Import ListNotations.
Open Scope Z_scope.

(** ** oracles *)
Theorem C01_cross_oracle_exact : forall a b c d, cross_b a b c d = true <-> proper_cross a b c d.
Proof. exact cross_b_spec. Qed.
Print Assumptions C01_cross_oracle_exact.

(** a proper crossing is exactly: the segments are not parallel and have a common point strictly inside both *)
Theorem C01_cross_parametric : forall a b c d,
  proper_cross a b c d <->
  cross2 a b c d <> 0 /\
  exists s t : Q, (0 < s /\ s < 1 /\ 0 < t /\ t < 1 /\
    co (fst a) (fst b) s == co (fst c) (fst d) t /\ co (snd a) (snd b) s == co (snd c) (snd d) t)%Q.
Proof. exact proper_cross_iff_param. Qed.
Print Assumptions C01_cross_parametric.

(** the "segments touch" test never misses a common point *)
Theorem C01_touch_oracle_complete : forall a b c d, SegsShare a b c d -> segs_touch_b a b c d = true.
Proof. exact segs_share_touch. Qed.
Print Assumptions C01_touch_oracle_complete.

(** two consecutive edges that pass the test have only their common vertex in common *)
Theorem C01_adjacent_oracle_sound : forall a b c, adj_ok_b a b c = true ->
  forall s t : Q, (0 <= s -> s <= 1 -> 0 <= t -> t <= 1 ->
    co (fst a) (fst b) s == co (fst b) (fst c) t -> co (snd a) (snd b) s == co (snd b) (snd c) t ->
    s == 1 /\ t == 0)%Q.
Proof. exact adj_ok_sound. Qed.
Print Assumptions C01_adjacent_oracle_sound.

Theorem C01_validity_oracle_sound : forall P, valid_polygon_b P = true -> valid_polygon P.
Proof. exact valid_polygon_b_sound. Qed.
Print Assumptions C01_validity_oracle_sound.

(** ** geometry of routed edges (steps of the argument, not the property) *)

(** every point between the centroids of two pixels met by the closed segment a b is within half a pixel
    (Chebyshev) of a point of a b *)
Theorem C01_partial_routed_edge_close : forall g L a b q1 q2 lam, ExactMiddle g L ->
  Meets a b (pixExt g L q1) -> Meets a b (pixExt g L q2) -> (0 <= lam -> lam <= 1 ->
  exists t, 0 <= t /\ t <= 1 /\
    ChebLe (halfSpan g L) (between (pixCen g L q1) (pixCen g L q2) lam) (segPt a b t))%Q.
Proof. exact routed_edge_close. Qed.
Print Assumptions C01_partial_routed_edge_close.

(** without exact middles: half a unit (0.5e-10) more *)
Theorem C01_partial_routed_edge_close_general : forall g L a b q1 q2 lam,
  Meets a b (pixExt g L q1) -> Meets a b (pixExt g L q2) -> (0 <= lam -> lam <= 1 ->
  exists t, 0 <= t /\ t <= 1 /\
    ChebLe (halfSpan g L + (1 # 2)) (between (pixCen g L q1) (pixCen g L q2) lam) (segPt a b t))%Q.
Proof. exact routed_edge_close_general. Qed.
Print Assumptions C01_partial_routed_edge_close_general.

(** the sweep lemma over Q: squares of half-size h; a' in the square of c1, b' in the square of c2, v in the
    square of d; all points move the fraction lam of the way to their centres; if the moved v lies on the moved
    edge at parameter mu, the point mu between a' and b' lies in the square of d *)
Theorem C01_partial_sweep_lemma : forall (h lam mu : Q) (a' b' c1 c2 v d : Q * Q),
  (0 <= lam)%Q -> (lam <= 1)%Q -> (0 <= mu)%Q -> (mu <= 1)%Q ->
  InSq h c1 a' -> InSq h c2 b' -> InSq h d v ->
  peq (mix lam v d) (mix mu (mix lam a' c1) (mix lam b' c2)) ->
  InSq h d (mix mu a' b').
Proof. exact sweep_lemma. Qed.
Print Assumptions C01_partial_sweep_lemma.

(** on pixels: the source segment is in pixel q1 at parameter ta and in q2 at tb; v a point of the hot pixel qd;
    if the moved v lies on the moved edge at parameter mu then the source segment is in qd at the parameter mu of
    the way from ta to tb (hence between them) *)
Theorem C01_partial_sweep_pixels : forall g L a b q1 q2 qd (ta tb lam mu : Q) (v : Q * Q), ExactMiddle g L ->
  (0 <= lam)%Q -> (lam <= 1)%Q -> (0 <= mu)%Q -> (mu <= 1)%Q ->
  PIn a b ta (pixExt g L q1) -> PIn a b tb (pixExt g L q2) ->
  let cen q := (inject_Z (fst (pixCen g L q)), inject_Z (snd (pixCen g L q))) in
  InSq (halfSpan g L) (cen qd) v ->
  peq (mix lam v (cen qd)) (mix mu (mix lam (segPt a b ta) (cen q1)) (mix lam (segPt a b tb) (cen q2))) ->
  PIn a b ((1 - mu) * ta + mu * tb)%Q (pixExt g L qd).
Proof. exact sweep_pixels. Qed.
Print Assumptions C01_partial_sweep_pixels.

(** ** the refutation (F5) *)

(** boolean form: grid 64 x 64 px of 0.5 (deepest level 6), levels [5; 6], all flags off; the polygon [PC01]
    (12-vertex shell, 5-vertex hole) is valid and inside the grid; the result for level 5 is the single ring
    (48.5,52.5) (49.5,54.5) (49.5,53.5) (48.5,53.5) whose first and third edges cross at (49, 53.5) *)
Theorem C01_refuted :
  exists g P levels cfg r L ps e f,
    valid_polygon_b P = true /\ Forall (insideGrid g) (concat P) /\
    snapPolygon g P levels cfg = Ok r /\ In (L, ps) r /\
    In e (edges ps) /\ In f (edges ps) /\ edge_cross_b e f = true.
Proof. exact cross_witness. Qed.
Print Assumptions C01_refuted.

(** hence the implication "valid input => no proper crossing" is false of the model *)
Theorem C01_refuted_implication :
  ~ (forall g P levels cfg r L ps, 0 < gres g -> valid_polygon P -> Forall (insideGrid g) (concat P) ->
       snapPolygon g P levels cfg = Ok r -> In (L, ps) r ->
       forall e f, In e (edges ps) -> In f (edges ps) -> ~ edge_cross e f).
Proof. exact no_cross_refuted. Qed.
Print Assumptions C01_refuted_implication.

(** ** non-vacuity *)

(** the concrete witness *)
Example C01_witness :
  valid_polygon_b PC01 = true /\
  (exists r6, snapPolygon gC01 PC01 [5%nat; 6%nat] cfg0 = Ok [(5%nat, [[ringC01]]); (6%nat, r6)]) /\
  edges [[ringC01]] =
    [((485000000000, 525000000000), (495000000000, 545000000000));
     ((495000000000, 545000000000), (495000000000, 535000000000));
     ((495000000000, 535000000000), (485000000000, 535000000000));
     ((485000000000, 535000000000), (485000000000, 525000000000))] /\
  edge_cross_b eC01 fC01 = true.
Proof.
  split; [exact C01_witness_valid |]. split; [exact C01_witness_result |]. split; vm_compute; reflexivity.
Qed.

(** the oracles distinguish crossing from touching, and reject a bow-tie *)
Example C01_oracle_examples :
  cross_b (0, 0) (4, 4) (0, 4) (4, 0) = true /\          (* X *)
  cross_b (0, 0) (4, 4) (2, 2) (4, 0) = false /\         (* T: touching *)
  cross_b (0, 0) (4, 4) (2, 2) (6, 6) = false /\         (* collinear overlap *)
  segs_touch_b (0, 0) (4, 4) (2, 2) (4, 0) = true /\
  segs_touch_b (0, 0) (4, 4) (5, 5) (6, 6) = false /\
  valid_polygon_b [[(0, 0); (4, 0); (4, 4); (0, 4)]; [(1, 1); (1, 2); (2, 2); (2, 1)]] = true /\
  valid_polygon_b [[(0, 0); (4, 4); (4, 0); (0, 4)]] = false /\                            (* bow-tie *)
  valid_polygon_b [[(0, 0); (4, 0); (4, 4); (0, 4)]; [(3, 3); (3, 5); (5, 5); (5, 3)]] = false /\  (* hole pokes out *)
  valid_polygon_b [[(0, 0); (4, 0); (2, 0)]] = false /\                                    (* zero area *)
  edges [[[(0, 0); (4, 0); (4, 4)]]; [[(0, 0); (1, 1)]; [(5, 5)]]] =
    [((0, 0), (4, 0)); ((4, 0), (4, 4)); ((4, 4), (0, 0)); ((0, 0), (1, 1))].
Proof. vm_compute. repeat split; reflexivity. Qed.

(** the hypotheses of routed_edge_close hold on the C02 example (grid 16 x 16 px of 1.0, level 4, edge
    (7, 5.5) -> (5, 6.5), pixels (7,5) and (6,6)) *)
Example C01_routed_edge_close_example :
  let g := mkGrid (mkExtent 0 0 160000000000 160000000000) 10000000000 4 in
  let a := (70000000000, 55000000000) in let b := (50000000000, 65000000000) in
  ExactMiddle g 4 /\ Meets a b (pixExt g 4 (7, 5)) /\ Meets a b (pixExt g 4 (6, 6)) /\
  (halfSpan g 4 == 5000000000 # 1)%Q.
Proof.
  cbv zeta. split; [right; reflexivity |].
  split; [apply lineIntersects_spec; vm_compute; reflexivity |].
  split; [apply lineIntersects_spec; vm_compute; reflexivity | vm_compute; reflexivity].
Qed.

(** * what follows ON THE CLASS OF C18 from what is proved (Snap/ProofsJoinC01.v) — PARTIAL, not the property.

    On the class (no routed-and-cleaned ring visits a pixel centre at three positions, Properties/C18.v) every
    returned edge is, up to direction, a step of the routed chain of ONE edge of the polygon
    ([C18_snapPolygon_edges_are_routed_steps]) and lies within half a pixel of it ([C04_clause2_on_class]).
    (P1) Two returned edges whose source edges are farther than one pixel apart (Chebyshev, all pairs of points)
         have no common point at all.  So a crossing can only arise between edges routed from input edges that come
         within one pixel of each other.
    (P2) Two steps of the SAME routed chain never cross properly: the pixels are met in travel order, so the columns
         and the rows of their centres are monotone along the chain, and two steps that follow each other in both
         coordinates have no common interior point.
    STILL MISSING for the property: two steps of DIFFERENT chains whose source edges come within one pixel of each
    other (edges of the polygon meeting at a vertex, or passing close by) — the deformation argument proper. *)
From Coq Require Import Lqa.
From Texel Require Import Snap.ProofsBasics Snap.ProofsJoinC18 Snap.ProofsJoinC04b Snap.ProofsJoinC01.
From Texel Require Snap.ProofsKmpLe2.

(** [close_to H e s]: every point of the segment e is within H of a point of the segment s;
    [farther_than D s t]: no point of s is within D of a point of t *)
Theorem C01_partial_far_edges_do_not_meet : forall g P levels cfg res hs, 0 < gres g -> RootCovers g ->
  (forall L, In L levels -> (L <= gdeep g)%nat) -> insertPolygon g P = Ok hs ->
  (forall L idx r c, In L levels -> nth_error P idx = Some r ->
     routedClean g (hotLevels g hs) L idx r = Ok c -> ProofsKmpLe2.le2 c) ->
  snapPolygon g P levels cfg = Ok res ->
  forall L ps e f, In (L, ps) res -> In e (edges ps) -> In f (edges ps) -> ExactMiddle g L ->
  exists s t, In s (flat_map ring_edges P) /\ In t (flat_map ring_edges P) /\
    (forall lam, 0 <= lam -> lam <= 1 -> exists u, 0 <= u /\ u <= 1 /\
       ChebLe (halfSpan g L) (between (fst e) (snd e) lam) (segPt (fst s) (snd s) u))%Q /\
    (forall mu, 0 <= mu -> mu <= 1 -> exists v, 0 <= v /\ v <= 1 /\
       ChebLe (halfSpan g L) (between (fst f) (snd f) mu) (segPt (fst t) (snd t) v))%Q /\
    ((forall u v, 0 <= u -> u <= 1 -> 0 <= v -> v <= 1 ->
        ~ ChebLe (2 * halfSpan g L) (segPt (fst s) (snd s) u) (segPt (fst t) (snd t) v))%Q ->
     ~ EdgesShare e f /\ ~ edge_cross e f).
Proof. exact far_edges_do_not_meet. Qed.
Print Assumptions C01_partial_far_edges_do_not_meet.

(** the geometric step alone *)
Theorem C01_partial_close_far_disjoint : forall (H : Q) (e f s t : pt * pt),
  close_to H e s -> close_to H f t -> farther_than (2 * H) s t ->
  ~ SegsShare (fst e) (snd e) (fst f) (snd f) /\ ~ proper_cross (fst e) (snd e) (fst f) (snd f).
Proof. intros H e f s t He Hf Hfar. split; [exact (close_far_disjoint H e f s t He Hf Hfar) | exact (close_far_no_cross H e f s t He Hf Hfar)]. Qed.
Print Assumptions C01_partial_close_far_disjoint.

(** (P2) for an edge a b of the indexed polygon: a step (c1, c2) of its chain and any later step (c3, c4) — the next
    one included — written in either direction, do not cross properly *)
Theorem C01_partial_same_chain_no_cross : forall g P hs a b L l1 c1 c2 l2 c3 c4, 0 < gres g -> RootCovers g ->
  insertPolygon g P = Ok hs -> In a (concat P) -> In b (concat P) -> (L <= gdeep g)%nat ->
  snapClosestPoints g (hotLevels g hs) a b L = l1 ++ c1 :: c2 :: l2 -> In (c3, c4) (ProofsBasics.pairs (c2 :: l2)) ->
  forall e f, (e = (c1, c2) \/ e = (c2, c1)) -> (f = (c3, c4) \/ f = (c4, c3)) -> ~ edge_cross e f.
Proof. exact same_chain_no_cross. Qed.
Print Assumptions C01_partial_same_chain_no_cross.

(** its geometric step: [travel_le a b c c']: both coordinates of c' are not behind those of c in the direction from
    a to b; three segments' end points in that order ⇒ the first and the last segment do not cross properly *)
Theorem C01_partial_travel_no_cross : forall a b c1 c2 c3 c4,
  travel_le a b c1 c2 -> travel_le a b c2 c3 -> travel_le a b c3 c4 -> ~ proper_cross c1 c2 c3 c4.
Proof. exact travel_no_cross. Qed.
Print Assumptions C01_partial_travel_no_cross.

(** non-vacuity: the neck polygon (32 x 32 pixels of size 2; Properties/C18.v).  All hypotheses of P1 hold at the
    levels 5, 3, 2; its bottom edge of the left block and the right side of the right block are farther than one
    level-3 pixel (8) apart; the level-3 edges routed from them do not touch.  P2: the chain of a long edge. *)
Definition c01G : grid := mkGrid (mkExtent 0 0 64 64) 2 5.
Definition c01Neck : list ring :=
  [[(2,2);(22,2);(22,29);(42,29);(42,2);(62,2);(62,62);(42,62);(42,31);(22,31);(22,62);(2,62)]].

Example C01_partial_far_edges_example :
  (exists hs, insertPolygon c01G c01Neck = Ok hs /\
     0 < gres c01G /\ RootCovers c01G /\ (forall L, In L [5; 3; 2]%nat -> (L <= gdeep c01G)%nat /\ ExactMiddle c01G L) /\
     (forall L idx r c, In L [5; 3; 2]%nat -> nth_error c01Neck idx = Some r ->
        routedClean c01G (hotLevels c01G hs) L idx r = Ok c -> ProofsKmpLe2.le2 c)) /\
  In ((2,2),(22,2)) (flat_map ring_edges c01Neck) /\ In ((62,2),(62,62)) (flat_map ring_edges c01Neck) /\
  (2 * halfSpan c01G 3 == 8)%Q /\
  farther_than (2 * halfSpan c01G 3) ((2,2),(22,2)) ((62,2),(62,62)) /\
  segs_touch_b (4,4) (20,4) (60,4) (60,60) = false.
Proof.
  split.
  { destruct (insertPolygon c01G c01Neck) as [hs |] eqn:E; [| vm_compute in E; discriminate].
    exists hs. split; [reflexivity |]. vm_compute in E. inversion E; subst hs. clear E.
    split; [reflexivity |]. split; [vm_compute; repeat split; discriminate |]. split.
    - intros L HL. cbn [In] in HL. destruct HL as [<- | [<- | [<- | []]]];
        (split; [cbn [gdeep c01G]; repeat constructor | right; reflexivity]).
    - intros L idx r c HL. revert idx r c. apply class_le2b_sound. cbn [In] in HL.
      destruct HL as [<- | [<- | [<- | []]]]; vm_compute; reflexivity. }
  split; [vm_compute; tauto |]. split; [vm_compute; tauto |]. split; [vm_compute; reflexivity |]. split; [| vm_compute; reflexivity].
  intros u v U0 U1 V0 V1 [X1 [X2 _]]. unfold segPt, co in X1, X2. cbn [fst snd] in X1, X2.
  assert (E : (2 * halfSpan c01G 3 == 8)%Q) by (vm_compute; reflexivity). rewrite E in X1, X2.
  change (inject_Z 2) with 2%Q in *. change (inject_Z 22) with 22%Q in *. change (inject_Z 62) with 62%Q in *. lra.
Qed.

Example C01_partial_same_chain_example :
  let g := mkGrid (mkExtent 0 0 160000000000 160000000000) 10000000000 4 in
  let hots := hotLevels g [(7, 5); (5, 6); (6, 6); (5, 5)] in
  snapClosestPoints g hots (70000000000, 55000000000) (50000000000, 65000000000) 4
    = [(75000000000, 55000000000); (65000000000, 65000000000); (55000000000, 65000000000)] /\
  cross_b (75000000000, 55000000000) (65000000000, 65000000000) (65000000000, 65000000000) (55000000000, 65000000000) = false.
Proof. vm_compute. split; reflexivity. Qed.

(** (P3) the discrete half of the deformation argument, at its end point (Snap/ProofsJoinC01b.v) — PARTIAL.
    The sweep lemma at time 1 plus "consecutive in travel order": the centre of a hot pixel (a pixel containing a
    vertex of the polygon) that lies on a step of the routed chain of an edge of the polygon is an end of that step.
    [qpt p] = p as a pair of rationals; [mix mu x y] = (1 - mu) x + mu y; [peq] = equality of rational pairs. *)
From Texel Require Import Snap.ProofsJoinC01b.

Theorem C01_partial_no_hot_centre_inside_step : forall g P hs a b L l1 q1 q2 l2 qd (mu : Q), 0 < gres g -> RootCovers g ->
  insertPolygon g P = Ok hs -> In a (concat P) -> In b (concat P) -> (L <= gdeep g)%nat -> ExactMiddle g L ->
  route g hs a b L = l1 ++ q1 :: q2 :: l2 -> In qd (hotAt g hs L) -> (0 <= mu)%Q -> (mu <= 1)%Q ->
  peq (qpt (pixCen g L qd)) (mix mu (qpt (pixCen g L q1)) (qpt (pixCen g L q2))) ->
  qd = q1 \/ qd = q2.
Proof. exact no_hot_pixel_on_step. Qed.
Print Assumptions C01_partial_no_hot_centre_inside_step.

(** on the class of C18, end to end: no vertex of the returned geometry of a level lies in the interior of a returned
    edge of that level — a vertex on a closed edge is one of its two ends (no T-junctions, no edge through a vertex) *)
Theorem C01_partial_no_vertex_inside_edge_on_class : forall g P levels cfg res hs, 0 < gres g -> RootCovers g ->
  (forall L, In L levels -> (0 < L <= gdeep g)%nat) -> insertPolygon g P = Ok hs ->
  (forall L idx r c, In L levels -> nth_error P idx = Some r ->
     routedClean g (hotLevels g hs) L idx r = Ok c -> ProofsKmpLe2.le2 c) ->
  snapPolygon g P levels cfg = Ok res ->
  forall L ps e p (mu : Q), In (L, ps) res -> In e (edges ps) -> In p (concat (concat ps)) -> ExactMiddle g L ->
    (0 <= mu)%Q -> (mu <= 1)%Q -> peq (qpt p) (mix mu (qpt (fst e)) (qpt (snd e))) -> p = fst e \/ p = snd e.
Proof. exact no_vertex_inside_edge_on_class. Qed.
Print Assumptions C01_partial_no_vertex_inside_edge_on_class.

(** (the continuity half is proved further down: section C01 ON THE CLASS) *)

(** non-vacuity for P3: the hypotheses hold for the neck polygon at the levels 5, 3, 2 (all > 0; see
    [C01_partial_far_edges_example] for the class); in the level-3 result every vertex that lies on a closed edge
    (collinear and inside its bounding box, exact integer test) is an end of it — (20,28), an end of the collapsed corridor, is an end of three
    edges *)
Example C01_partial_no_vertex_inside_edge_example :
  let ps := [[[(4,4);(20,4);(20,28);(20,60);(4,60)]]; [[(44,28);(44,4);(60,4);(60,60);(44,60)]]; [[(20,28);(44,28)]]] in
  let on_b (p : pt) (e : edge) :=
    (orient3 (fst e) (snd e) p =? 0) &&
    (Z.min (fst (fst e)) (fst (snd e)) <=? fst p) && (fst p <=? Z.max (fst (fst e)) (fst (snd e))) &&
    (Z.min (snd (fst e)) (snd (snd e)) <=? snd p) && (snd p <=? Z.max (snd (fst e)) (snd (snd e))) in
  (forall L, In L [5; 3; 2]%nat -> (0 < L <= gdeep c01G)%nat) /\
  snapLevel c01G (hotsOf c01G c01Neck) c01Neck (mkConfig true false false) 3 = Ok (Some ps) /\
  forallb (fun e => forallb (fun p => negb (on_b p e) || pt_eqb p (fst e) || pt_eqb p (snd e)) (concat (concat ps))) (edges ps) = true /\
  length (filter (fun e => on_b (20,28) e) (edges ps)) = 3%nat.
Proof.
  cbv zeta. split.
  { intros L HL. cbn [In] in HL. destruct HL as [<- | [<- | [<- | []]]]; cbn [gdeep c01G]; split; repeat constructor. }
  vm_compute. repeat split; reflexivity.
Qed.


(** * C01 ON THE CLASS OF C18 — the deformation argument completed.

    Geom/DeformR.v (real analysis): two segments whose end points move linearly, crossing properly at time 1 and not
    at time 0, have a time at which an end point of one lies on the other ([first_contact]).
    Snap/ProofsSweepR.v: the sweep lemma at a real time, and a real parameter inside a pixel turned into a rational one.
    Snap/ProofsJoinC01c.v, d, e: fragments of the two polygon edges between consecutive pixels move to the steps of
    their chains; at a contact the other edge passes through the (hot) pixel of the contact point between two
    consecutive pixels of its chain, so that pixel is one of the two and the steps share an end point.

    THESE THREE THEOREMS DEPEND ON THE AXIOMS OF THE STANDARD LIBRARY'S REAL NUMBERS (and on nothing else):
      ClassicalDedekindReals.sig_forall_dec, ClassicalDedekindReals.sig_not_dec,
      FunctionalExtensionality.functional_extensionality_dep
    because the first contact time is in general irrational.  No other theorem of this development depends on them.
    NO assumption on the pixel middles: the sweep lemma is used with the half-open box of the model's pixel around
    the model's centre, which for an odd pixel size is half a unit off the middle but the same for every pixel; so
    the theorems cover the deepest level of grids with an odd resolution (e.g. WebMercatorQuad).
    Beyond the class the statement is false: [C01_refuted] (F5). *)
From Texel Require Import Snap.ProofsJoinC01c Snap.ProofsJoinC01d Snap.ProofsJoinC01e.

(** a valid polygon: any two edges are the same edge or touch at most at a common end point *)
Theorem C01_valid_polygon_edges_separated : forall P, valid_polygon P ->
  forall r1 r2 a b c d, In r1 P -> In r2 P -> In (a, b) (dedges r1) -> In (c, d) (dedges r2) ->
    (a, b) = (c, d) \/ (a, b) = (d, c) \/
    (forall x y : Q, (0 <= x -> x <= 1 -> 0 <= y -> y <= 1 ->
       co (fst a) (fst b) x == co (fst c) (fst d) y -> co (snd a) (snd b) x == co (snd c) (snd d) y ->
       (x == 0 \/ x == 1) /\ (y == 0 \/ y == 1))%Q).
Proof. exact valid_polygon_edges_separated. Qed.
Print Assumptions C01_valid_polygon_edges_separated.

(** routed steps: for a valid polygon inside the grid, any level within the index, no two
    steps (pairs of consecutive centres of the lists snapClosestPoints returns for edges of the normalised rings, in
    either direction) cross properly *)
Theorem C01_routed_steps_do_not_cross : forall g P hs L e f, 0 < gres g -> RootCovers g ->
  insertPolygon g P = Ok hs -> (L <= gdeep g)%nat -> valid_polygon P ->
  routed_step g (hotLevels g hs) L P e -> routed_step g (hotLevels g hs) L P f ->
  ~ proper_cross (fst e) (snd e) (fst f) (snd f).
Proof.
  intros g P hs L e f Hr C Hi HL V. exact (routed_steps_do_not_cross g P hs L e f Hr C Hi HL (valid_polygon_edges_separated P V)).
Qed.
Print Assumptions C01_routed_steps_do_not_cross.

(** C01 ON THE CLASS: a valid polygon inside the grid; at every requested level every routed-and-cleaned ring visits
    no pixel centre at three positions.  Then no two edges of the geometry returned for a level cross properly. *)
Theorem C01_on_class : forall g P levels cfg res hs, 0 < gres g -> RootCovers g ->
  (forall L, In L levels -> (L <= gdeep g)%nat) -> insertPolygon g P = Ok hs ->
  (forall L idx r c, In L levels -> nth_error P idx = Some r ->
     routedClean g (hotLevels g hs) L idx r = Ok c -> ProofsKmpLe2.le2 c) ->
  valid_polygon P -> snapPolygon g P levels cfg = Ok res ->
  forall L ps e f, In (L, ps) res -> In e (edges ps) -> In f (edges ps) -> ~ edge_cross e f.
Proof.
  intros g P levels cfg res hs Hr C HLs Hi Hcl V.
  exact (no_crossing_on_class g P levels cfg res hs Hr C HLs Hi Hcl (valid_polygon_edges_separated P V)).
Qed.
Print Assumptions C01_on_class.

(** non-vacuity: the neck polygon is valid (exact oracle), the other hypotheses are those of
    [C01_partial_far_edges_example]; in the level-3 result no two edges cross (exact oracle) *)
Example C01_on_class_example :
  valid_polygon c01Neck /\
  forallb (fun e => forallb (fun f => negb (edge_cross_b e f))
     (edges [[[(4,4);(20,4);(20,28);(20,60);(4,60)]]; [[(44,28);(44,4);(60,4);(60,60);(44,60)]]; [[(20,28);(44,28)]]]))
     (edges [[[(4,4);(20,4);(20,28);(20,60);(4,60)]]; [[(44,28);(44,4);(60,4);(60,60);(44,60)]]; [[(20,28);(44,28)]]]) = true.
Proof. split; [apply valid_polygon_b_sound; vm_compute; reflexivity | vm_compute; reflexivity]. Qed.


(** no vertex of the returned geometry inside a returned edge, on the class, WITHOUT the exact-middle hypothesis of
    [C01_partial_no_vertex_inside_edge_on_class] (same argument with the model's pixel box; real-number axioms) *)
Theorem C01_no_vertex_inside_edge_on_class : forall g P levels cfg res hs, 0 < gres g -> RootCovers g ->
  (forall L, In L levels -> (0 < L <= gdeep g)%nat) -> insertPolygon g P = Ok hs ->
  (forall L idx r c, In L levels -> nth_error P idx = Some r ->
     routedClean g (hotLevels g hs) L idx r = Ok c -> ProofsKmpLe2.le2 c) ->
  snapPolygon g P levels cfg = Ok res ->
  forall L ps e p (mu : Q), In (L, ps) res -> In e (edges ps) -> In p (concat (concat ps)) ->
    (0 <= mu)%Q -> (mu <= 1)%Q -> peq (qpt p) (mix mu (qpt (fst e)) (qpt (snd e))) -> p = fst e \/ p = snd e.
Proof. exact no_vertex_inside_edge_on_class_general. Qed.
Print Assumptions C01_no_vertex_inside_edge_on_class.

(** non-vacuity at an ODD resolution, at the DEEPEST level: 32 x 32 pixels of size 3 (deepest level 5, where the
    centre is not the middle of the pixel: [ExactMiddle] fails) and level 3 (pixels of size 12); the neck polygon is
    valid, inside the grid, in the class at both levels; snapPolygon returns, and in the result of the deepest level
    no two edges cross (exact oracle) *)
Definition c01Godd : grid := mkGrid (mkExtent 0 0 96 96) 3 5.

Example C01_on_class_odd_resolution_example :
  ~ ExactMiddle c01Godd 5 /\ 0 < gres c01Godd /\ RootCovers c01Godd /\ valid_polygon c01Neck /\
  (exists hs, insertPolygon c01Godd c01Neck = Ok hs /\
     forall L idx r c, In L [5; 3]%nat -> nth_error c01Neck idx = Some r ->
       routedClean c01Godd (hotLevels c01Godd hs) L idx r = Ok c -> ProofsKmpLe2.le2 c) /\
  match snapPolygon c01Godd c01Neck [5; 3]%nat (mkConfig true false false) with
  | Ok ((5%nat, ps5) :: (3%nat, ps3) :: nil) =>
      forallb (fun e => forallb (fun f => negb (edge_cross_b e f)) (edges ps5)) (edges ps5) = true /\
      forallb (fun e => forallb (fun f => negb (edge_cross_b e f)) (edges ps3)) (edges ps3) = true /\
      length (edges ps5) = 12%nat
  | _ => False
  end.
Proof.
  split; [intros [H | H]; [exact (Nat.lt_irrefl _ H) | vm_compute in H; discriminate] |].
  split; [reflexivity |]. split; [vm_compute; repeat split; discriminate |].
  split; [apply valid_polygon_b_sound; vm_compute; reflexivity |]. split.
  { destruct (insertPolygon c01Godd c01Neck) as [hs |] eqn:E; [| vm_compute in E; discriminate].
    exists hs. split; [reflexivity |]. vm_compute in E. inversion E; subst hs. clear E.
    intros L idx r c HL. revert idx r c. apply class_le2b_sound. cbn [In] in HL.
    destruct HL as [<- | [<- | []]]; vm_compute; reflexivity. }
  vm_compute. repeat split; reflexivity.
Qed.
